(** C30 -- the backward-compatibility linter rejects the documented unsafe schema evolutions.
    Property theorems only (model: Lint/LintModel.v).

    The model reproduces the code AS IT IS ([lint]) and, switched by [fixes], the code with the
    proposed one-line repairs ([lint_fixed]).  For the code as it is the property is REFUTED at
    three points (theorems [lint_refuted_bare_flag] = finding F2, [lint_crash_args] = F3,
    [lint_refuted_repeat]; each witness is the dump of a real schema pair and is replayed on the
    real linter by lib/checks/C30.py).  The rejection theorems need, of the repairs, exactly:
    [fx_args] (no panic) for all of them, [fx_bare] for a changed field type, [fx_rep] for a
    changed repetition -- they are stated for [lint_with fx] with that premise, or for
    [lint_fixed].  Each is for an ARBITRARY position: the edited combinator is anywhere in the
    schema ([l1 ++ c :: l2]), the edited field anywhere in its combinator ([fs1 ++ f :: fs2]). *)
From Coq Require Import String List NArith ZArith Bool.
From TLV Require Import Lint.LintModel Lint.LintProofs Lint.LintEdits.
Import ListNotations.
Open Scope string_scope.
Open Scope list_scope.

(* ---- the code as it is: refutations (witnesses = dumps of real schema pairs) *)

Definition f2_old : schema :=
  [mkComb "int" 2823855066 true false [] [] "Int" (TRef "" false []);
   mkComb "foo" 286331153 false false [] [mkField "a" None "" (TRef "int" false [])] "Foo" (TRef "" false []);
   mkComb "bar" 572662306 false false [] [mkField "x" None "" (TRef "Foo" true []); mkField "y" None "" (TRef "int" false [])] "Bar" (TRef "" false [])].
Definition f2_new : schema :=
  [mkComb "int" 2823855066 false false [] [mkField "" None "" (TRef "int" true [])] "Int" (TRef "" false []);
   mkComb "foo" 286331153 false false [] [mkField "a" None "" (TRef "int" false [])] "Foo" (TRef "" false []);
   mkComb "bar" 572662306 false false [] [mkField "x" None "" (TRef "Foo" false []); mkField "y" None "" (TRef "int" false [])] "Bar" (TRef "" false [])].

(** F2: [bar x:%Foo y:int] -> [bar x:Foo y:int] (a 4-byte tag appears on the wire) is accepted:
    compareTypes never looks at TypeRef.Bare. *)
Theorem lint_refuted_bare_flag : lint f2_old f2_new = Accept /\ lint_fixed f2_old f2_new = Reject RRefChanged.
Proof. split; vm_compute; reflexivity. Qed.
Print Assumptions lint_refuted_bare_flag.

Definition f3_old : schema :=
  [mkComb "int" 2823855066 true false [] [] "Int" (TRef "" false []);
   mkComb "a" 286331153 false false [] [mkField "p" None "" (TRef "pair" false [TRef "int" false []; TRef "int" false []])] "A" (TRef "" false []);
   mkComb "pair" 572662306 false false [mkTArg "X" false; mkTArg "Y" false] [mkField "x" None "" (TRef "X" false []); mkField "y" None "" (TRef "Y" false [])] "Pair" (TRef "" false [])].
Definition f3_new : schema :=
  [mkComb "int" 2823855066 false false [] [mkField "" None "" (TRef "int" true [])] "Int" (TRef "" false []);
   mkComb "a" 286331153 false false [] [mkField "p" None "" (TRef "pair" false [TRef "int" false []])] "A" (TRef "" false []);
   mkComb "pair" 572662306 false false [mkTArg "X" false] [mkField "x" None "" (TRef "X" false [])] "Pair" (TRef "" false [])].

(** F3: a template argument removed from a type declared AFTER its user: compareTypes indexes
    newType.Args[i] for i < len(oldType.Args) -- a panic instead of a rejection. *)
Theorem lint_crash_args : lint f3_old f3_new = Crash /\ lint_fixed f3_old f3_new = Reject RRefChanged.
Proof. split; vm_compute; reflexivity. Qed.
Print Assumptions lint_crash_args.

Definition rep_old : schema :=
  [mkComb "int" 2823855066 true false [] [] "Int" (TRef "" false []);
   mkComb "long" 570911930 true false [] [] "Long" (TRef "" false []);
   mkComb "a" 286331153 false false [] [mkField "n" None "" (TRef "#" false []); mkField "x" None "rep:n*[int]" (TRef "" false [])] "A" (TRef "" false [])].
Definition rep_new : schema :=
  [mkComb "int" 2823855066 false false [] [mkField "" None "" (TRef "int" true [])] "Int" (TRef "" false []);
   mkComb "long" 570911930 false false [] [mkField "" None "" (TRef "long" true [])] "Long" (TRef "" false []);
   mkComb "a" 286331153 false false [] [mkField "n" None "" (TRef "#" false []); mkField "x" None "rep:n*[long]" (TRef "" false [])] "A" (TRef "" false [])].

(** New finding: the linter compares Field.FieldType only, which is the empty TypeRef for a
    repetition [n*[...]]: [x:n*[int]] -> [x:n*[long]] is accepted. *)
Theorem lint_refuted_repeat : lint rep_old rep_new = Accept /\ lint_fixed rep_old rep_new = Reject RRepChanged.
Proof. split; vm_compute; reflexivity. Qed.
Print Assumptions lint_refuted_repeat.

Definition uni_old : schema :=
  [mkComb "int" 2823855066 true false [] [] "Int" (TRef "" false []);
   mkComb "foo" 286331153 false false [] [mkField "a" None "" (TRef "int" false [])] "Foo" (TRef "" false []);
   mkComb "pair" 572662306 false false [mkTArg "X" false; mkTArg "Y" false] [mkField "x" None "" (TRef "X" false []); mkField "y" None "" (TRef "Y" false [])] "Pair" (TRef "" false []);
   mkComb "baz" 1145324612 false false [] [mkField "x" None "" (TRef "pair" false [TRef "int" false []; TRef "Foo" true []])] "Baz" (TRef "" false [])].
Definition uni_new : schema :=
  [mkComb "int" 2823855066 true false [] [] "Int" (TRef "" false []);
   mkComb "foo" 286331153 false false [] [mkField "a" None "" (TRef "int" false [])] "Foo" (TRef "" false []);
   mkComb "foo2" 286331154 false false [] [] "Foo" (TRef "" false []);
   mkComb "pair" 572662306 false false [mkTArg "X" false; mkTArg "Y" false] [mkField "x" None "" (TRef "X" false []); mkField "y" None "" (TRef "Y" false [])] "Pair" (TRef "" false []);
   mkComb "baz" 1145324612 false false [] [mkField "x" None "" (TRef "pair" false [TRef "int" false []; TRef "Foo" true []])] "Baz" (TRef "" false [])].

(** Latent (not reachable through tlgen, whose own validation refuses a bare reference to a
    union; reachable through a direct call of CheckBackwardCompatibility, as the repository's
    unit test does): checkBoxUsage returns from inside its loop, so only the FIRST type argument
    is inspected: [baz x:(pair int %Foo)] does not stop [Foo] from becoming a union.  No repair
    is modelled for it: the theorem below about unions is for the inspected positions. *)
Theorem lint_refuted_union_deep : lint uni_old uni_new = Accept /\ lint_fixed uni_old uni_new = Accept.
Proof. split; vm_compute; reflexivity. Qed.
Print Assumptions lint_refuted_union_deep.

(* ---- the repaired linter: rejection theorems *)

(** never a panic *)
Theorem C30_no_panic : forall a a', lint_fixed a a' <> Crash.
Proof. intros a a'. apply lint_no_crash. reflexivity. Qed.
Print Assumptions C30_no_panic.

(** removing a constructor or a function, wherever it is declared *)
Theorem C30_remove_combinator : forall l1 c l2,
  wf (l1 ++ c :: l2) -> is_type c || c_fun c = true ->
  exists code, lint_fixed (l1 ++ c :: l2) (l1 ++ l2) = Reject code.
Proof. intros l1 c l2. apply reject_remove. reflexivity. Qed.
Print Assumptions C30_remove_combinator.

(** removing fields (any of them: the new version has fewer) *)
Theorem C30_remove_field : forall l1 c c' l2,
  wf (l1 ++ c :: l2) -> is_type c || c_fun c = true -> same_head c c' ->
  (length (c_fields c') < length (c_fields c))%nat ->
  exists code, lint_fixed (l1 ++ c :: l2) (l1 ++ c' :: l2) = Reject code.
Proof. intros l1 c c' l2. apply reject_fewer_fields. reflexivity. Qed.
Print Assumptions C30_remove_field.

(** removing template arguments *)
Theorem C30_remove_template_argument : forall l1 c c' l2,
  wf (l1 ++ c :: l2) -> is_type c || c_fun c = true -> same_head c c' ->
  (length (c_targs c') < length (c_targs c))%nat ->
  exists code, lint_fixed (l1 ++ c :: l2) (l1 ++ c' :: l2) = Reject code.
Proof. intros l1 c c' l2. apply reject_fewer_template_arguments. reflexivity. Qed.
Print Assumptions C30_remove_template_argument.

(** changing the type of an existing field (types that do not mention the combinator's own
    template arguments or fields): anything but appending type arguments is refused *)
Theorem C30_change_field_type : forall l1 c c' l2 fs1 of nf fs2 fs2' oname obare oargs nname nbare nargs,
  wf (l1 ++ c :: l2) -> is_type c || c_fun c = true -> same_head c c' ->
  c_fields c = fs1 ++ of :: fs2 -> c_fields c' = fs1 ++ nf :: fs2' ->
  f_ty of = TRef oname obare oargs -> f_ty nf = TRef nname nbare nargs ->
  closed (mapping c) (f_ty of) -> closed (mapping c') (f_ty nf) ->
  ~ ty_prefix (f_ty of) (f_ty nf) ->
  exists code, lint_fixed (l1 ++ c :: l2) (l1 ++ c' :: l2) = Reject code.
Proof. exact reject_changed_field_type. Qed.
Print Assumptions C30_change_field_type.

(** adding a mask to / removing the mask from an existing field, changing the mask it refers to
    or its bit *)
Theorem C30_change_mask : forall l1 c c' l2 fs1 of nf fs2 fs2',
  wf (l1 ++ c :: l2) -> is_type c || c_fun c = true -> same_head c c' ->
  c_fields c = fs1 ++ of :: fs2 -> c_fields c' = fs1 ++ nf :: fs2' ->
  match f_mask nf, f_mask of with
  | Some _, None => True
  | None, Some _ => True
  | Some (m', b'), Some (m, b) => mask_get (mapping c') m' <> mask_get (mapping c) m \/ b' <> b
  | None, None => False
  end ->
  exists code, lint_fixed (l1 ++ c :: l2) (l1 ++ c' :: l2) = Reject code.
Proof. intros l1 c c' l2 fs1 of nf fs2 fs2'. apply reject_changed_mask. reflexivity. Qed.
Print Assumptions C30_change_mask.

(** changing what a repetition repeats *)
Theorem C30_change_repeat : forall l1 c c' l2 fs1 of nf fs2 fs2',
  wf (l1 ++ c :: l2) -> is_type c || c_fun c = true -> same_head c c' ->
  c_fields c = fs1 ++ of :: fs2 -> c_fields c' = fs1 ++ nf :: fs2' -> f_rep nf <> f_rep of ->
  exists code, lint_fixed (l1 ++ c :: l2) (l1 ++ c' :: l2) = Reject code.
Proof. exact reject_changed_repeat. Qed.
Print Assumptions C30_change_repeat.

(** appending an unmasked field to a constructor *)
Theorem C30_append_unmasked_field : forall l1 c c' l2 pre f post,
  wf (l1 ++ c :: l2) -> is_type c = true -> same_head c c' ->
  c_fields c' = c_fields c ++ pre ++ f :: post -> Forall (fun g => has_mask g = true) pre -> f_mask f = None ->
  exists code, lint_fixed (l1 ++ c :: l2) (l1 ++ c' :: l2) = Reject code.
Proof. intros l1 c c' l2 pre f post. apply reject_appended_unmasked. reflexivity. Qed.
Print Assumptions C30_append_unmasked_field.

(** appending a field under a bit of a local mask that a field of the old constructor uses *)
Theorem C30_reuse_mask_bit : forall l1 c l2 f m b j fj,
  wfs (l1 ++ c :: l2) -> is_type c = true ->
  f_mask f = Some (m, b) ->
  find_index (fun t => String.eqb (ta_name t) m) (c_targs c) = None ->
  find_index (fun g => String.eqb (f_name g) m) (c_fields c) = Some j ->
  nth_error (c_fields c) j = Some fj -> is_nat_field fj = true ->
  In b (direct_bits c j fj) ->
  exists code, lint_fixed (l1 ++ c :: l2) (l1 ++ add_field c f :: l2) = Reject code.
Proof. intros l1 c l2 f m b j fj. apply reject_reused_bit. reflexivity. Qed.
Print Assumptions C30_reuse_mask_bit.

(** a type used bare (or through its constructor) at an inspected position becomes a union *)
Theorem C30_bare_used_type_to_union : forall a a' c0 c t,
  types_of a (c_tname c0) = [c0] -> (1 < length (types_of a' (c_tname c0)))%nat ->
  In c a -> (t = c_res c \/ exists f, In f (c_fields c) /\ t = f_ty f) -> inspected_bad c0 t ->
  exists code, lint_fixed a a' = Reject code.
Proof. intros a a' c0 c t. apply reject_bare_used_to_union. reflexivity. Qed.
Print Assumptions C30_bare_used_type_to_union.

(** the same, spelled out for the usage that carries no mark at all: the type is referenced by
    its lower-case CONSTRUCTOR name ([b:integer], [= Vector integer], [(vector (vector integer))]:
    tlast sets TypeRef.Bare only for an explicit %, so [bare] is arbitrary here) -- in a field or
    in the result of ANY combinator of the old schema, directly or as the first type argument at
    any depth; the new schema is arbitrary apart from giving the type a second constructor (in
    particular: nothing else changed) *)
Theorem C30_constructor_name_used_type_to_union : forall a a' c0 c bare args,
  types_of a (c_tname c0) = [c0] -> (1 < length (types_of a' (c_tname c0)))%nat ->
  In c a ->
  (c_res c = TRef (c_name c0) bare args \/ exists f, In f (c_fields c) /\ f_ty f = TRef (c_name c0) bare args) ->
  exists code, lint_fixed a a' = Reject code.
Proof. intros a a' c0 c bare args. apply reject_ctor_name_used_to_union. reflexivity. Qed.
Print Assumptions C30_constructor_name_used_type_to_union.

(** ... or as the first type argument (after any arithmetic ones) at any depth: [nest ws t] wraps
    [t] that way in each of [ws] *)
Theorem C30_constructor_name_nested_to_union : forall a a' c0 c bare args ws,
  types_of a (c_tname c0) = [c0] -> (1 < length (types_of a' (c_tname c0)))%nat ->
  In c a ->
  Forall (fun w => Forall (fun t => exists n, t = TNat n) (snd (fst w))) ws ->
  (c_res c = nest ws (TRef (c_name c0) bare args) \/
   exists f, In f (c_fields c) /\ f_ty f = nest ws (TRef (c_name c0) bare args)) ->
  exists code, lint_fixed a a' = Reject code.
Proof. intros a a' c0 c bare args ws. apply reject_ctor_name_nested_to_union. reflexivity. Qed.
Print Assumptions C30_constructor_name_nested_to_union.

(* ---- non-vacuity: the premises are satisfiable, the classes are not empty *)

Example C30_ex_type_not_prefix : ~ ty_prefix (TRef "int" false []) (TRef "long" false []).
Proof. cbn. intros [H _]. discriminate. Qed.
Example C30_ex_bare_not_prefix : ~ ty_prefix (TRef "Foo" true []) (TRef "Foo" false []).
Proof. cbn. intros [_ [H _]]. discriminate. Qed.
Example C30_ex_fewer_args_not_prefix :
  ~ ty_prefix (TRef "pair" false [TRef "int" false []; TRef "int" false []]) (TRef "pair" false [TRef "int" false []]).
Proof. cbn. intros [_ [_ [_ H]]]. exact H. Qed.
Example C30_ex_more_args_is_prefix :
  ty_prefix (TRef "pair" false [TRef "int" false []]) (TRef "pair" false [TRef "int" false []; TRef "int" false []]).
Proof. cbn. repeat split. Qed.

Definition ex_c : comb :=
  mkComb "t" 1 false false [] [mkField "m" None "" (TRef "#" false []); mkField "x" (Some ("m", 0%N)) "" (TRef "int" false [])] "T" (TRef "" false []).
Example C30_ex_wf : wf [ex_c] /\ is_type ex_c || c_fun ex_c = true.
Proof. split; [split; cbn; repeat constructor; intros []|reflexivity]. Qed.
Example C30_ex_remove : exists code, lint_fixed ([] ++ ex_c :: []) ([] ++ []) = Reject code.
Proof. apply C30_remove_combinator; apply C30_ex_wf. Qed.
Example C30_ex_reuse_bit :
  lint_fixed [ex_c] [add_field ex_c (mkField "y" (Some ("m", 0%N)) "" (TRef "int" false []))] = Reject RBitUsed.
Proof. vm_compute. reflexivity. Qed.
Example C30_ex_mask_bit :
  lint_fixed [ex_c] [mkComb "t" 1 false false [] [mkField "m" None "" (TRef "#" false []); mkField "x" (Some ("m", 3%N)) "" (TRef "int" false [])] "T" (TRef "" false [])] = Reject RMaskBit.
Proof. vm_compute. reflexivity. Qed.

(** by-name usage, nothing else changed: [holder a:int b:(vector integer)], [integer2 = Integer] added *)
Definition un_integer : comb := mkComb "integer" 7 false false [] [mkField "value" None "" (TRef "int" false [])] "Integer" (TRef "" false []).
Definition un_holder : comb :=
  mkComb "holder" 8 false false [] [mkField "a" None "" (TRef "int" false []); mkField "b" None "" (TRef "vector" false [TRef "integer" false []])] "Holder" (TRef "" false []).
Definition un_integer2 : comb := mkComb "integer2" 9 false false [] [] "Integer" (TRef "" false []).
Example C30_ex_union_by_name : exists code, lint_fixed [un_holder; un_integer] [un_holder; un_integer; un_integer2] = Reject code.
Proof.
  apply (C30_constructor_name_nested_to_union _ _ un_integer un_holder false [] [("vector", false, [], [])]).
  - reflexivity.
  - cbn. auto.
  - left; reflexivity.
  - repeat constructor.
  - right. eexists. split; [right; left; reflexivity|reflexivity].
Qed.
Example C30_ex_union_by_name_class : lint [un_holder; un_integer] [un_holder; un_integer; un_integer2] = Reject RUnionCtor.
Proof. vm_compute. reflexivity. Qed.
