(** C17 -- the runtime registry of generated Go code is consistent with the schema.
    Property theorems only.  Model: coq/theories/Reg/RegModel.v ([registry] = ItemsOrdered of
    metainternal, computed from the kernel's type instances by the rules of qt_meta.qtpl;
    [by_name]/[by_tag] = FactoryItemByTLName/FactoryItemByTLTag; [ann_flag] = the generated
    AnnotationXxx accessors; [obj_tag]/[obj_name] = TLTag()/TLName() of a created object). *)
From TLV Require Import Prim.PrimModel Tl1.Tl1Model Reg.RegModel Reg.RegProofs.
Open Scope N_scope.

(** Names are unique in the registry of EVERY schema (FillObject/FillFunction drop re-registrations). *)
Theorem C17_names_unique : forall all s ms, NoDup (map it_name (registry all s ms)).
Proof. exact registry_names_nodup. Qed.
Print Assumptions C17_names_unique.

(** When the kernel's top-level names are distinct (checked on every kernel dump: [names_okb]) nothing
    is dropped: the registry is exactly the list of top-level structs, functions and TL2-enabled unions. *)
Theorem C17_registry_is_toplevel_table : forall all s ms,
  names_okb (cands_from all 0 s ms) = true -> registry all s ms = cands_from all 0 s ms.
Proof. exact registry_complete. Qed.
Print Assumptions C17_registry_is_toplevel_table.

(** Every item of the registry is a top-level type instance of the schema and carries that instance's
    name, tag, function-ness, TL1/TL2 availability and annotation mask. *)
Theorem C17_item_matches_schema : forall all s ms it,
  In it (registry all s ms) ->
  exists d m, nth_error s (it_ty it) = Some d /\ nth_error ms (it_ty it) = Some m /\
    m_top m = true /\ it_name it = m_name m /\ it_tl1 it = negb (m_origin2 m) /\ it_tl2 it = m_tl2 m /\
    it_ann it = ann_mask all (m_anns m) /\
    match d with
    | TStruct tag _ => it_tag it = tag /\ it_fun it = m_fun m
    | TUnion _ => it_tag it = m_utag m /\ it_fun it = false /\ m_tl2 m = true /\ m_maybe m = false
    | _ => False
    end.
Proof.
  intros all s ms it H. destruct (registry_item_schema all s ms it H) as [d [m [H1 [H2 H3]]]].
  exists d, m. destruct (item_of_fields all (it_ty it) d m it H3) as [A [B [_ [C [D [E F]]]]]]. tauto.
Qed.
Print Assumptions C17_item_matches_schema.

(** ... and every such instance is registered. *)
Theorem C17_toplevel_registered : forall all s ms t d m it,
  names_okb (cands_from all 0 s ms) = true ->
  nth_error s t = Some d -> nth_error ms t = Some m -> item_of all t d m = Some it ->
  In it (registry all s ms).
Proof. exact schema_item_registered. Qed.
Print Assumptions C17_toplevel_registered.

(** Double registration (with --split-internal the namespace packages' metamini.go and package meta register the
    same items, in whichever order the packages are initialised) is idempotent: registering again items whose
    names are registered changes neither the ordered list nor -- lookups being functions of it -- any lookup by
    name or by tag; in particular registering the whole table twice gives the registry. *)
Theorem C17_reregistration_changes_nothing : forall extra reg,
  (forall it, In it extra -> In (it_name it) (map it_name reg)) ->
  fold_left fill extra reg = reg /\
  (forall n, by_name (fold_left fill extra reg) n = by_name reg n) /\
  (forall t, by_tag (fold_left fill extra reg) t = by_tag reg t).
Proof. intros extra reg H. rewrite (fold_fill_absorb extra reg H). auto. Qed.
Print Assumptions C17_reregistration_changes_nothing.

Theorem C17_registered_twice : forall all s ms,
  fold_left fill (cands_from all 0 s ms ++ cands_from all 0 s ms) [] = registry all s ms.
Proof. exact registry_twice. Qed.
Print Assumptions C17_registered_twice.

(** Lookup by name returns the item with that name -- for every registered item, with no hypothesis. *)
Theorem C17_lookup_by_name : forall all s ms it,
  In it (registry all s ms) -> by_name (registry all s ms) (it_name it) = Some it.
Proof. intros all s ms it H. apply by_name_found; [apply registry_names_nodup|exact H]. Qed.
Print Assumptions C17_lookup_by_name.

Theorem C17_lookup_by_name_sound : forall reg n it, by_name reg n = Some it -> In it reg /\ it_name it = n.
Proof. exact by_name_sound. Qed.
Print Assumptions C17_lookup_by_name_sound.

Theorem C17_lookup_by_name_none : forall reg n, by_name reg n = None <-> ~ In n (map it_name reg).
Proof. exact by_name_none. Qed.
Print Assumptions C17_lookup_by_name_none.

(** Lookup by tag returns the item with that tag when the non-zero tags are distinct ([tags_okb],
    checked on every kernel dump); tag 0 (TL1 unions, untagged TL2 types) is never found. *)
Theorem C17_lookup_by_tag : forall reg it,
  tags_okb reg = true -> In it reg -> it_tag it <> 0 -> by_tag reg (it_tag it) = Some it.
Proof. intros reg it H. apply by_tag_found. now apply tags_okb_NoDup. Qed.
Print Assumptions C17_lookup_by_tag.

Theorem C17_lookup_by_tag_sound : forall reg t it, by_tag reg t = Some it -> In it reg /\ it_tag it = t /\ t <> 0.
Proof. exact by_tag_sound. Qed.
Print Assumptions C17_lookup_by_tag_sound.

Theorem C17_lookup_by_tag_none : forall reg t, by_tag reg t = None <-> (t = 0 \/ ~ In t (map it_tag reg)).
Proof. exact by_tag_none. Qed.
Print Assumptions C17_lookup_by_tag_none.

(** The accessor generated for the i-th annotation of the kernel's table answers whether the kernel
    type carries that annotation (at most 32 annotations: enforced by the kernel, [anns_okb]). *)
Theorem C17_annotation_flags : forall all mine i a,
  lenN all <= 32 -> nth_error all i = Some a ->
  ann_flag (ann_mask all mine) i = true <-> In a mine.
Proof. intros all mine i a Hl Hn. rewrite (ann_flag_correct all mine i a Hl Hn). apply has_ann_In. Qed.
Print Assumptions C17_annotation_flags.

(** The mask is the OR of the bits of the declared SET: the order (and repetition) in which a combinator
    lists its annotations is irrelevant (`@write @kphp` = `@kphp @write`), and no bit outside the kernel's
    table is set. *)
Theorem C17_annotation_mask_order_free : forall all mine mine',
  (forall x, In x mine <-> In x mine') -> ann_mask all mine = ann_mask all mine'.
Proof. exact ann_mask_order_free. Qed.
Print Assumptions C17_annotation_mask_order_free.

Theorem C17_annotation_mask_no_other_bits : forall all mine n,
  lenN all <= n -> N.testbit (ann_mask all mine) n = false.
Proof. intros all mine n H. unfold ann_mask. apply ann_mask_no_other_bits. exact H. Qed.
Print Assumptions C17_annotation_mask_no_other_bits.

Example C17_ex_mask_any_order :
  ann_mask [[97]; [114]; [119]] [[119]; [97]] = 5 /\ ann_mask [[97]; [114]; [119]] [[97]; [119]] = 5 /\ ann_mask [[97]; [114]; [119]] [[119]; [114]; [119]] = 6.
Proof. vm_compute. repeat split; reflexivity. Qed.

(** Every boxed encoding starts with the tag the object reports: its own for a struct / function, the
    tag of the active variant for a union.  From the definition of the writer [enc1]; any schema, any
    value, with or without the length-sanity option. *)
Theorem C17_boxed_starts_with_reported_tag : forall san s t ps v b,
  is_object s t = true -> enc1 san s t false ps v = Some b ->
  exists tag, obj_tag s t v = Some tag /\ firstn 4 b = nat_w tag.
Proof. exact boxed_starts_with_tag. Qed.
Print Assumptions C17_boxed_starts_with_reported_tag.

(** ... which for a registered struct / function is the tag of its registry item. *)
Theorem C17_boxed_starts_with_item_tag : forall all s ms it tag fds san ps v b,
  In it (registry all s ms) -> nth_error s (it_ty it) = Some (TStruct tag fds) ->
  enc1 san s (it_ty it) false ps v = Some b ->
  it_tag it = tag /\ firstn 4 b = nat_w (it_tag it).
Proof. exact boxed_item_tag. Qed.
Print Assumptions C17_boxed_starts_with_item_tag.

(** Non-vacuity: a schema with a function carrying two annotations, a TL2-enabled union and its variants. *)
Definition nm (l : list N) : bytes := l.
Definition ex_all : list bytes := [nm [97]; nm [114]; nm [119]].          (* "a" "r" "w" *)
Definition ex_schema : schema :=
  [ TPrim PNat;
    TStruct 11 [mkField 0 true None []];                  (* 1: function f x:# => ... *)
    TStruct 21 []; TStruct 22 [mkField 0 true None []];   (* 2, 3: variants *)
    TUnion [2%nat; 3%nat];                                (* 4 *)
    TStruct 31 [mkField 4 false None []] ].               (* 5: not top level *)
Definition ex_metas : list imeta :=
  [ mkMeta (nm [110]) false false false false true 0 [];
    mkMeta (nm [102]) true true false false true 11 [nm [119]; nm [97]];
    mkMeta (nm [99; 48]) true false false false true 21 [];
    mkMeta (nm [99; 49]) true false false false true 22 [];
    mkMeta (nm [85]) true false false false true 0 [];
    mkMeta (nm [120]) false false false false true 31 [] ].

Example C17_ex_registry :
  map (fun it => (it_name it, it_tag it, it_fun it, it_ann it)) (registry ex_all ex_schema ex_metas)
  = [(nm [102], 11, true, 5); (nm [99; 48], 21, false, 0); (nm [99; 49], 22, false, 0); (nm [85], 0, false, 0)]
  /\ names_okb (cands_from ex_all 0 ex_schema ex_metas) = true
  /\ tags_okb (registry ex_all ex_schema ex_metas) = true
  /\ meta_okb ex_schema ex_metas = true /\ anns_okb ex_all = true.
Proof. vm_compute. repeat split; reflexivity. Qed.

Example C17_ex_lookup :
  option_map it_name (by_tag (registry ex_all ex_schema ex_metas) 22) = Some (nm [99; 49]) /\
  by_tag (registry ex_all ex_schema ex_metas) 31 = None /\
  option_map it_tag (by_name (registry ex_all ex_schema ex_metas) (nm [85])) = Some 0 /\
  by_name (registry ex_all ex_schema ex_metas) (nm [120]) = None.
Proof. vm_compute. repeat split; reflexivity. Qed.

Example C17_ex_boxed :
  enc1 true ex_schema 4 false [] (VUnion 1 [Some (VNum 7)]) = Some [22; 0; 0; 0; 7; 0; 0; 0] /\
  obj_tag ex_schema 4 (VUnion 1 [Some (VNum 7)]) = Some 22 /\
  obj_name ex_schema ex_metas 4 (VUnion 1 [Some (VNum 7)]) = Some (nm [99; 49]).
Proof. vm_compute. repeat split; reflexivity. Qed.
