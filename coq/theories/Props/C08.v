(** C08 -- generated readers are total and bounded.  Property theorems only (TL1 reader model
    [dec1] of Tl1/Tl1Model.v; proofs in Tl1/Tl1Total.v).  The TL2 / JSON readers and the
    function-result transcoders are NOT modelled here: for them the check has a Go-side
    totality oracle only, so the property as a whole is covered PARTIALLY by theorems. *)
From Coq Require Import Lia.
From TLV Require Import Prim.PrimModel Prim.PrimProofs Tl1.Tl1Model Tl1.Tl1Proofs Tl1.Tl1TotalModel Tl1.Tl1Total.
Open Scope N_scope.

(** (A) Fuel is only a termination device: once the reader answers (value, EOF or rejection),
    more fuel never changes the answer. *)
Theorem C08_fuel_monotone : forall san s fuel fuel' t bare ps b r,
  dec1 fuel san s t bare ps b = Some r -> (fuel <= fuel')%nat -> dec1 fuel' san s t bare ps b = Some r.
Proof. intros san s fuel fuel' t bare ps b r H Hle. exact (dec1_fuel_mono san s fuel fuel' Hle t bare ps b r H). Qed.
Print Assumptions C08_fuel_monotone.

(** (B) Consumption, for ALL schemas (map-backed dictionaries included; well-formedness is not
    even needed): the unread rest is a suffix of the input, ... *)
Theorem C08_rest_is_suffix : forall san s, wf_schema s = true ->
  forall fuel t bare ps b v rest,
    dec1 fuel san s t bare ps b = Some (Ok (v, rest)) -> exists pfx, b = pfx ++ rest.
Proof.
  intros san s _ fuel t bare ps b v rest H.
  destruct (dec1_consumes san s [] (dc_ok_nil s) fuel t bare ps b v rest H) as [pfx [E _]]. now exists pfx.
Qed.
Print Assumptions C08_rest_is_suffix.

(** ... and every call except a bare tuple or a bare struct not certified by [dc] (bare structs
    that contain an unmasked definitely-consuming field; checked by the boolean [dc_ok]) consumes
    at least one byte when it succeeds (this is what makes the potential below decrease). *)
Theorem C08_consuming_calls_consume : forall san s dc, dc_ok s dc = true ->
  forall fuel t bare ps b v rest,
  dec1 fuel san s t bare ps b = Some (Ok (v, rest)) -> dcall s dc t bare = true ->
  (length rest < length b)%nat.
Proof.
  intros san s dc Hdc fuel t bare ps b v rest H Hc.
  pose proof (SUF_len _ _ _ (dec1_consumes san s dc Hdc fuel t bare ps b v rest H)) as [_ Hl].
  now apply Hl.
Qed.
Print Assumptions C08_consuming_calls_consume.

(** (C) Termination.  [ranked s dc rank] is a boolean, linear-time check of explicit certificates
    (found by the check's fixpoint + topological sort and verified by the extracted [ranked] on
    every kernel dump).  With the fuel [(max_rank + 2) * (|b| + 1)] the reader never runs out of fuel,
    whatever the type, the nat arguments and the input bytes; by (A) every larger fuel gives the
    same answer. *)
Theorem C08_total_ranked : forall san s dc rank, wf_schema s = true -> ranked s dc rank = true ->
  forall t bare ps b fuel, (fuel_bound rank b <= fuel)%nat -> dec1 fuel san s t bare ps b <> None.
Proof. intros san s dc rank _ Hr. exact (dec1_total_ranked san s dc rank Hr). Qed.
Print Assumptions C08_total_ranked.

(** the same with the certificates computed inside the model
    ([productive s := ranked s (auto_dc s) (auto_rank s)]) *)
Theorem C08_total_productive : forall san s, wf_schema s = true -> productive s = true ->
  forall t bare ps b, dec1 (fuel_bound (auto_rank s) b) san s t bare ps b <> None.
Proof. intros san s _ Hp. exact (dec1_total_productive san s Hp). Qed.
Print Assumptions C08_total_productive.

(** the potential that decreases along every nested reader call *)
Theorem C08_total_potential : forall san s dc rank, ranked s dc rank = true ->
  forall fuel t bare ps b, (phi s rank t bare b < fuel)%nat -> dec1 fuel san s t bare ps b <> None.
Proof. exact dec1_total_phi. Qed.
Print Assumptions C08_total_potential.

(** The full statement "every schema the kernel accepts has a total reader" is FALSE (finding F1):
    the kernel accepts the schema below (its cycle finder skips every masked field, also fields
    under an EXTERNAL mask that consume no input, and its verdict is not enforced anyway);
    it is well-formed, yet on 8 input bytes the reader recurses forever at the same position. *)
Theorem C08_refuted_F1 : exists s t b,
  wf_schema s = true /\ forall fuel, dec1 fuel true s t true [] b = None.
Proof. exists f1_schema, 2%nat, f1_input. split; [exact f1_wf|exact f1_diverges]. Qed.
Print Assumptions C08_refuted_F1.

Theorem C08_F1_not_productive : productive f1_schema = false /\ forall dc rank, ranked f1_schema dc rank = false.
Proof. split; [exact f1_not_productive|exact f1_no_ranking]. Qed.
Print Assumptions C08_F1_not_productive.

(** (D) Boundedness with the length-sanity check on (the default): an element count read from
    the wire is accepted only if four times as many bytes remain ... *)
Theorem C08_count_bounded : forall b n r,
  read_count true b = Ok (n, r) -> 4 * n <= lenN r /\ 4 * n + 4 <= lenN b.
Proof. exact read_count_bounded. Qed.
Print Assumptions C08_count_bounded.

(** ... so the number of elements any vector / dictionary / dynamic-tuple reader call sets out
    to materialise (= the iteration count handed to [dec_elems]; the Go code allocates exactly
    that many elements up front) is at most (remaining input)/4 ... *)
Theorem C08_elems_requested_bounded : forall s t bare ps b n,
  elems_requested true s t bare ps b = Some n ->
  (forall ef c, nth_error s t <> Some (TArray (ATupleFixed c) ef)) ->
  4 * n <= lenN b.
Proof. exact elems_requested_bounded. Qed.
Print Assumptions C08_elems_requested_bounded.

Theorem C08_no_request_no_elements : forall san s fuel t bare ps b,
  (exists k ef, nth_error s t = Some (TArray k ef)) \/ (exists kp ef, nth_error s t = Some (TDict kp ef)) ->
  elems_requested san s t bare ps b = None ->
  dec1 (S fuel) san s t bare ps b = Some Eof \/ dec1 (S fuel) san s t bare ps b = Some Reject.
Proof. exact dec1_no_elems. Qed.
Print Assumptions C08_no_request_no_elements.

(** ... and every sequence a successful call returns has at most (input length)/4 elements. *)
Theorem C08_seq_length_bounded : forall s fuel t bare ps b v rest,
  dec1 fuel true s t bare ps b = Some (Ok (v, rest)) ->
  match nth_error s t with
  | Some (TArray AVector _) | Some (TArray ATupleDyn _) | Some (TDict _ _) =>
      exists es, v = VArr es /\ 4 * lenN es <= lenN b
  | _ => True
  end.
Proof. exact dec1_seq_length_bounded. Qed.
Print Assumptions C08_seq_length_bounded.

(** What is NOT bounded by the input.
    (1) The bound is per reader CALL.  Elements may occupy zero bytes on the wire (all fields
        masked out, empty structs), so a vector of n <= |b|/4 vectors can request n * |b|/4
        elements in total: the total allocation of one top-level read is not linear in |b|.
    (2) Without --checkLengthSanity nothing is bounded: 4 input bytes, any count below 2^32. *)
Theorem C08_unbounded_without_sanity_refuted : forall c n, n < 2 ^ 32 ->
  dec1 2 false (zs_schema c) 1 true [] (nat_w n) = Some (Ok (VArr (repeat (VStruct []) (N.to_nat n)), [])).
Proof. exact unbounded_without_sanity. Qed.
Print Assumptions C08_unbounded_without_sanity_refuted.

Theorem C08_same_input_refused_with_sanity : forall c n, 0 < n < 2 ^ 32 ->
  dec1 2 true (zs_schema c) 1 true [] (nat_w n) = Some Eof.
Proof. exact bounded_with_sanity. Qed.
Print Assumptions C08_same_input_refused_with_sanity.

(** (3) Fixed-size arrays [c]T are allocated by type: c elements on EMPTY input, sanity on or off. *)
Theorem C08_fixed_array_by_type_refuted : forall san c,
  dec1 2 san (zs_schema c) 2 true [] [] = Some (Ok (VArr (repeat (VStruct []) (N.to_nat c)), [])).
Proof. exact fixed_array_unbounded_by_input. Qed.
Print Assumptions C08_fixed_array_by_type_refuted.

(** Non-vacuity: a recursive schema that IS productive (recursion behind a local mask, a vector,
    a boxed reference and a tuple), its computed ranking, and reads with exactly the bound. *)
Definition ex8_schema : schema :=
  [ TPrim PNat; TPrim PInt;
    (* 2: node pair:2*[%leaf] flags:# next:flags.0?%node kids:flags.1?(vector %node) *)
    TStruct 33 [ mkField 5 true None []; mkField 0 true None [];
                 mkField 2 true (Some (NField 1, 0)) []; mkField 3 true (Some (NField 1, 1)) [] ];
    TArray AVector (mkField 2 true None []);
    (* 4: leaf x:int *)
    TStruct 44 [ mkField 1 true None [] ];
    TArray (ATupleFixed 2) (mkField 4 true None []) ].

Example C08_ex_productive : wf_schema ex8_schema = true /\ productive ex8_schema = true /\
  auto_rank ex8_schema = [0; 0; 2; 0; 0; 1]%nat /\ auto_dc ex8_schema = [false; false; true; false; true; false] /\
  ranked ex8_schema [] [0; 0; 7; 0; 3; 5]%nat = true.
Proof. vm_compute. auto 6. Qed.

Example C08_ex_read :
  let b := [9; 0; 0; 0; 10; 0; 0; 0;  1; 0; 0; 0;  7; 0; 0; 0; 8; 0; 0; 0;  0; 0; 0; 0;  99] in
  dec1 (fuel_bound (auto_rank ex8_schema) b) true ex8_schema 2 true [] b =
  Some (Ok (VStruct [Some (VArr [VStruct [Some (VNum 9)]; VStruct [Some (VNum 10)]]); Some (VNum 1);
                     Some (VStruct [Some (VArr [VStruct [Some (VNum 7)]; VStruct [Some (VNum 8)]]); Some (VNum 0); None; None]);
                     None], [99])).
Proof. vm_compute. reflexivity. Qed.

Example C08_ex_hostile_count :
  (* kids present, count 0xffffffff, 8 bytes follow: refused, not iterated *)
  dec1 40 true ex8_schema 2 true []
    [0; 0; 0; 0; 0; 0; 0; 0;  2; 0; 0; 0;  255; 255; 255; 255;  0; 0; 0; 0; 0; 0; 0; 0] = Some Eof.
Proof. vm_compute. reflexivity. Qed.

Example C08_ex_f1_fuel : dec1 5000 true f1_schema 2 true [] f1_input = None.
Proof. exact (f1_diverges 5000). Qed.

(** a bare typedef wrapper (vector<int> as a struct around the array) in front of a recursion under an
    EXTERNAL mask: ranked only thanks to the [dc] certificate (the wrapper definitely consumes) *)
Definition ex8b_schema : schema :=
  [ TPrim PInt;
    TArray AVector (mkField 0 true None []);
    TStruct 55 [ mkField 1 true None [] ];                                  (* 2: vector<int> wrapper *)
    TStruct 66 [ mkField 2 true None []; mkField 3 true (Some (NParam 0, 2)) [NParam 0] ] ].  (* 3: t {p:#} f2:%(vector int) f3:p.2?(t p) *)

Example C08_ex_dc_needed :
  productive ex8b_schema = true /\ auto_dc ex8b_schema = [false; false; true; true] /\
  ranked ex8b_schema [] [0; 0; 0; 0]%nat = false /\ ranked ex8b_schema [false; false; true; false] [0; 0; 0; 1]%nat = true.
Proof. vm_compute. auto. Qed.
