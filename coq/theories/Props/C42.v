(** C42 -- the weighted semaphore never over-admits and never loses wakeups.
    Property theorems only; each is closed by [exact] of a lemma from Sem/SemProofs.v and followed by
    [Print Assumptions].

    Model (Sem/SemModel.v): a sequential history of critical sections of
    internal/vkgo/pkg/semaphore/semaphore.go; [step code_guard] (= [step true]) is the code as it is, with
    the cancel-path guard [s.size >= s.cur]; [step false] is the code before the repair of F4 ([>]).
    Side conditions: [in_range] (all values below 2^62 in absolute value: no int64 wrap-around),
    [clean] (no call panics).  [states] are the states after every complete operation, so the theorems
    speak about every reachable quiescent state, for histories of any length. *)
From Coq Require Import ZArith NArith List.
From TLV Require Import Sem.SemModel Sem.SemProofs.
Import ListNotations.
Open Scope Z_scope.

(** Never over-admits: every admission that is not a ForceAcquire (fast path, TryAcquire, or a waiter
    released by notifyWaiters from Release / SetSize / the cancel path) is decided in a critical section in
    which s.cur + n <= s.size holds for the values s.cur and s.size have at that very moment.  Holds even
    after a panicking Release. *)
Theorem C42_no_overadmit : forall fx h s,
  bounded s -> wf s -> in_range fx s h -> Forall admit_ok (events fx s h).
Proof. exact no_overadmit. Qed.
Print Assumptions C42_no_overadmit.

(** s.cur is the weight actually held: start value + admitted + forced - released. *)
Theorem C42_cur_accounting : forall fx h s,
  bounded s -> wf s -> in_range fx s h -> clean fx s h ->
  cur (run fx s h) = cur s + sum_ev (events fx s h) + forced h - released h.
Proof. exact cur_accounting. Qed.
Print Assumptions C42_cur_accounting.

(** No barging: the fast path of Acquire and TryAcquire succeed only while nobody is queued. *)
Theorem C42_no_barging : forall fx s o,
  res (step fx s o) = RFast \/ res (step fx s o) = RTry true -> waiters s = [].
Proof. exact step_no_barging. Qed.
Print Assumptions C42_no_barging.

(** Never loses a wakeup (MAIN theorem, the code as it is since /repo 61b3423d, guard [>=] in the cancel
    path): in every state reachable by complete operations -- any weights, including 0 -- either nobody is
    queued or the first waiter does not fit. *)
Theorem C42_head_blocked : forall h s,
  bounded s -> wf s -> in_range code_guard s h -> clean code_guard s h ->
  head_ok s -> Forall head_ok (states code_guard s h).
Proof. intros. apply head_blocked_gen; auto. Qed.
Print Assumptions C42_head_blocked.

(** Historical lemmas about the OLD guard ([s.size > s.cur], [step false]); they explain what a regression
    to [>] breaks and why the oracle keeps the signature of finding F4.
    With the old guard the statement only holds when every Acquire has weight > 0 ... *)
Theorem C42_head_blocked_old_guard_positive : forall h s,
  bounded s -> wf s -> in_range false s h -> clean false s h ->
  Forall wpos (waiters s) -> acquire_weights (fun n => 0 < n) h ->
  head_ok s -> Forall head_ok (states false s h).
Proof. intros. apply head_blocked_gen; auto. Qed.
Print Assumptions C42_head_blocked_old_guard_positive.

(** ... and is false otherwise (finding F4, fixed): size 1; Acquire(1) succeeds; Acquire(1) and Acquire(0)
    queue up; the context of the first waiter is cancelled: it is the front, size = cur, so the old guard
    skips notifyWaiters and the weight-0 waiter, which fits, stays blocked. *)
Theorem C42_head_blocked_old_guard_refuted :
  exists h, in_range false (init 1) h /\ clean false (init 1) h /\ ~ head_ok (run false (init 1) h).
Proof. exact head_blocked_refuted. Qed.
Print Assumptions C42_head_blocked_old_guard_refuted.

(** Callers parked in the branch [n > s.size] cannot be served -- as long as nobody calls SetSize. *)
Theorem C42_doomed_blocked_partial : forall fx h s,
  no_resize h -> doomed_ok s -> Forall doomed_ok (states fx s h).
Proof. exact doomed_blocked. Qed.
Print Assumptions C42_doomed_blocked_partial.

(** With SetSize the statement is false (finding F13): the parked caller is not in the queue, so the notifyWaiters of
    SetSize cannot see it; it stays blocked with an empty queue and cur = 0 although it now fits. *)
Theorem C42_doomed_blocked_refuted :
  exists h, in_range code_guard (init 1) h /\ clean code_guard (init 1) h /\
            waiters (run code_guard (init 1) h) = [] /\ cur (run code_guard (init 1) h) = 0 /\
            ~ doomed_ok (run code_guard (init 1) h).
Proof. exact doomed_blocked_refuted. Qed.
Print Assumptions C42_doomed_blocked_refuted.

(** The side conditions are needed. *)
Theorem C42_head_blocked_needs_clean :
  exists h, in_range code_guard (init 1) h /\ acquire_weights (fun n => 0 < n) h /\
            ~ head_ok (run code_guard (init 1) h).
Proof. exact head_blocked_needs_clean. Qed.
Print Assumptions C42_head_blocked_needs_clean.

Theorem C42_no_overadmit_needs_bounded :
  exists h, clean code_guard (init (-2)) h /\ ~ Forall admit_ok (events code_guard (init (-2)) h).
Proof. exact no_overadmit_needs_bounded. Qed.
Print Assumptions C42_no_overadmit_needs_bounded.

(** Corollary for a fresh semaphore (NewWeighted n), current code, any weights. *)
Corollary C42_fresh : forall n h, -L < n < L ->
  in_range code_guard (init n) h -> clean code_guard (init n) h ->
  Forall admit_ok (events code_guard (init n) h) /\ Forall head_ok (states code_guard (init n) h).
Proof.
  intros n h Hn Hr Hc. split.
  - apply no_overadmit; [apply init_bounded; assumption | apply init_wf | assumption].
  - apply head_blocked_gen; auto using init_bounded, init_wf, init_head_ok.
Qed.
Print Assumptions C42_fresh.

(** Non-vacuity: the hypotheses are satisfiable by histories that queue, admit through notifyWaiters,
    resize, force and cancel; and the model computes what the Go code does on them. *)
Definition demo : list op :=
  [OAcquire 2; OAcquire 1; OAcquire 2; OTry 1; OForce 1; ORelease 2; OResize 5; OCancel 2%N; ORelease 1].

Example demo_good : good_b code_guard (init 2) demo = true.
Proof. vm_compute. reflexivity. Qed.

Example demo_events :
  events code_guard (init 2) demo =
  [EAdmit (Some 0%N) 2 0 2; EAdmit (Some 1%N) 1 1 2; EAdmit (Some 2%N) 2 2 5].
Proof. vm_compute. reflexivity. Qed.

Example demo_positive : acquire_weights (fun n => 0 < n) demo.
Proof. repeat constructor. Qed.

Example demo_final : run code_guard (init 2) demo = mkState 5 3 [] [] 3%N.
Proof. vm_compute. reflexivity. Qed.

(** The F4 history on the current code: the cancel admits the weight-0 waiter in the same critical section
    (and the history satisfies the hypotheses of C42_head_blocked) ... *)
Example f4_now : good_b code_guard (init 1) f4_history = true /\
                 run code_guard (init 1) f4_history = mkState 1 1 [] [] 3%N /\
                 evs (step code_guard (run code_guard (init 1) [OAcquire 1; OAcquire 1; OAcquire 0]) (OCancel 1%N))
                 = [EAdmit (Some 2%N) 0 1 1].
Proof. vm_compute. repeat split; reflexivity. Qed.

(** ... with the old guard the queue was left as [(2, 0)] with size = cur = 1. *)
Example f4_old_guard : run false (init 1) f4_history = mkState 1 1 [(2%N, 0)] [] 3%N.
Proof. vm_compute. reflexivity. Qed.

(** The cancel/admit race: the waiter admitted by Release ignores its cancellation (RNone: nothing is
    removed, nothing is given back). *)
Example race_admitted :
  let s1 := run code_guard (init 1) [OAcquire 1; OAcquire 1] in
  let s2 := st (step code_guard s1 (ORelease 1)) in
  evs (step code_guard s1 (ORelease 1)) = [EAdmit (Some 1%N) 1 0 1] /\
  step code_guard s2 (OCancel 1%N) = (s2, RNone, []).
Proof. vm_compute. split; reflexivity. Qed.
