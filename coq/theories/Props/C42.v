(** C42 -- the weighted semaphore never over-admits and never loses wakeups.
    Property theorems only; each is closed by [exact] of a lemma from Sem/SemProofs.v and followed by
    [Print Assumptions].

    Model (Sem/SemModel.v): a sequential history of critical sections of
    internal/vkgo/pkg/semaphore/semaphore.go; [step false] is the code as it is, [step true] the code with
    the cancel-path guard [s.size > s.cur] replaced by [s.size >= s.cur].
    Side conditions: [in_range] (all values below 2^62 in absolute value: no int64 wrap-around),
    [clean] (no call panics).  [states] are the states after every complete operation, so the theorems
    speak about every reachable quiescent state, for histories of any length. *)
From Coq Require Import ZArith NArith List.
From TLV Require Import Sem.SemModel Sem.SemProofs.
Import ListNotations.
Open Scope Z_scope.

(** Never over-admits: every admission that is not a ForceAcquire (fast path, TryAcquire, or a waiter
    released by notifyWaiters from Release / SetSize / the cancel path) is decided in a critical section in
    which s.cur + n <= s.size holds for the values s.cur and s.size have at that very moment.  Holds even
    after a panicking Release. *)
Theorem C42_no_overadmit : forall fx h s,
  bounded s -> wf s -> in_range fx s h -> Forall admit_ok (events fx s h).
Proof. exact no_overadmit. Qed.
Print Assumptions C42_no_overadmit.

(** s.cur is the weight actually held: start value + admitted + forced - released. *)
Theorem C42_cur_accounting : forall fx h s,
  bounded s -> wf s -> in_range fx s h -> clean fx s h ->
  cur (run fx s h) = cur s + sum_ev (events fx s h) + forced h - released h.
Proof. exact cur_accounting. Qed.
Print Assumptions C42_cur_accounting.

(** No barging: the fast path of Acquire and TryAcquire succeed only while nobody is queued. *)
Theorem C42_no_barging : forall fx s o,
  res (step fx s o) = RFast \/ res (step fx s o) = RTry true -> waiters s = [].
Proof. exact step_no_barging. Qed.
Print Assumptions C42_no_barging.

(** Never loses a wakeup -- FULL statement (false for the code as it is, see C42_head_blocked_refuted):
      forall h s, bounded s -> wf s -> in_range false s h -> clean false s h -> head_ok s ->
                  Forall head_ok (states false s h).
    Proved part 1: for the code as it is, when every Acquire has weight > 0. *)
Theorem C42_head_blocked_partial : forall h s,
  bounded s -> wf s -> in_range false s h -> clean false s h ->
  Forall wpos (waiters s) -> acquire_weights (fun n => 0 < n) h ->
  head_ok s -> Forall head_ok (states false s h).
Proof. intros. apply head_blocked_gen; auto. Qed.
Print Assumptions C42_head_blocked_partial.

(** Proved part 2: the full statement for the repaired guard ([>=] instead of [>] in the cancel path). *)
Theorem C42_head_blocked_repaired : forall h s,
  bounded s -> wf s -> in_range true s h -> clean true s h ->
  head_ok s -> Forall head_ok (states true s h).
Proof. intros. apply head_blocked_gen; auto. Qed.
Print Assumptions C42_head_blocked_repaired.

(** Refutation of the full statement for the code as it is (finding F4): size 1; Acquire(1) succeeds;
    Acquire(1) and Acquire(0) queue up; the context of the first waiter is cancelled: it is the front,
    size = cur, so notifyWaiters is skipped and the weight-0 waiter, which fits, stays blocked. *)
Theorem C42_head_blocked_refuted :
  exists h, in_range false (init 1) h /\ clean false (init 1) h /\ ~ head_ok (run false (init 1) h).
Proof. exact head_blocked_refuted. Qed.
Print Assumptions C42_head_blocked_refuted.

(** Callers parked in the branch [n > s.size] cannot be served -- as long as nobody calls SetSize. *)
Theorem C42_doomed_blocked_partial : forall fx h s,
  no_resize h -> doomed_ok s -> Forall doomed_ok (states fx s h).
Proof. exact doomed_blocked. Qed.
Print Assumptions C42_doomed_blocked_partial.

(** With SetSize the statement is false (finding F13): the parked caller is not in the queue, so the notifyWaiters of
    SetSize cannot see it; it stays blocked with an empty queue and cur = 0 although it now fits. *)
Theorem C42_doomed_blocked_refuted :
  exists h, in_range false (init 1) h /\ clean false (init 1) h /\
            waiters (run false (init 1) h) = [] /\ cur (run false (init 1) h) = 0 /\
            ~ doomed_ok (run false (init 1) h).
Proof. exact doomed_blocked_refuted. Qed.
Print Assumptions C42_doomed_blocked_refuted.

(** The side conditions are needed. *)
Theorem C42_head_blocked_needs_clean :
  exists h, in_range false (init 1) h /\ acquire_weights (fun n => 0 < n) h /\
            ~ head_ok (run false (init 1) h).
Proof. exact head_blocked_needs_clean. Qed.
Print Assumptions C42_head_blocked_needs_clean.

Theorem C42_no_overadmit_needs_bounded :
  exists h, clean false (init (-2)) h /\ ~ Forall admit_ok (events false (init (-2)) h).
Proof. exact no_overadmit_needs_bounded. Qed.
Print Assumptions C42_no_overadmit_needs_bounded.

(** Corollaries for a fresh semaphore (NewWeighted n). *)
Corollary C42_fresh : forall n h, -L < n < L ->
  in_range false (init n) h -> clean false (init n) h ->
  Forall admit_ok (events false (init n) h) /\
  (acquire_weights (fun n => 0 < n) h -> Forall head_ok (states false (init n) h)).
Proof.
  intros n h Hn Hr Hc. split.
  - apply no_overadmit; [apply init_bounded; assumption | apply init_wf | assumption].
  - intros Ha. apply head_blocked_gen; auto using init_bounded, init_wf, init_head_ok.
    right. split; [constructor | assumption].
Qed.
Print Assumptions C42_fresh.

(** Non-vacuity: the hypotheses are satisfiable by histories that queue, admit through notifyWaiters,
    resize, force and cancel; and the model computes what the Go code does on them. *)
Definition demo : list op :=
  [OAcquire 2; OAcquire 1; OAcquire 2; OTry 1; OForce 1; ORelease 2; OResize 5; OCancel 2%N; ORelease 1].

Example demo_good : good_b false (init 2) demo = true.
Proof. vm_compute. reflexivity. Qed.

Example demo_events :
  events false (init 2) demo =
  [EAdmit (Some 0%N) 2 0 2; EAdmit (Some 1%N) 1 1 2; EAdmit (Some 2%N) 2 2 5].
Proof. vm_compute. reflexivity. Qed.

Example demo_positive : acquire_weights (fun n => 0 < n) demo.
Proof. repeat constructor. Qed.

Example demo_final : run false (init 2) demo = mkState 5 3 [] [] 3%N.
Proof. vm_compute. reflexivity. Qed.

(** The F4 history step by step: after the cancel the queue is [(2, 0)] with size = cur = 1. *)
Example f4_final : run false (init 1) f4_history = mkState 1 1 [(2%N, 0)] [] 3%N.
Proof. vm_compute. reflexivity. Qed.

(** ... and the repaired guard admits the weight-0 waiter in the same critical section. *)
Example f4_repaired : run true (init 1) f4_history = mkState 1 1 [] [] 3%N.
Proof. vm_compute. reflexivity. Qed.

(** The cancel/admit race: the waiter admitted by Release ignores its cancellation (RNone: nothing is
    removed, nothing is given back). *)
Example race_admitted :
  let s1 := run false (init 1) [OAcquire 1; OAcquire 1] in
  let s2 := st (step false s1 (ORelease 1)) in
  evs (step false s1 (ORelease 1)) = [EAdmit (Some 1%N) 1 0 1] /\
  step false s2 (OCancel 1%N) = (s2, RNone, []).
Proof. vm_compute. split; reflexivity. Qed.
