(** C36 -- placeholder while the pipeline is brought up. *)
From TLV Require Import Udp.UdpModel.
Open Scope N_scope.
Example C36_consts : udp_MaxFuzzMessageSize <= sim_limit.
Proof. vm_compute. discriminate. Qed.
