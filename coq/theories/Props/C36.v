(** C36 -- UDP transport delivers every message intact exactly once; acked prefixes are monotone; incoming
    memory stays within the limit and is fully released.

    Property theorems only; each is closed by [exact] of a lemma from Udp/UdpProofs.v or Udp/UdpSettle.v and
    followed by [Print Assumptions].  They are statements about the abstract protocol model Udp/UdpModel.v
    (see its header for what is transcribed from pkg/rpc/udp and what is abstracted), for EVERY sequence of
    steps (submit, slice, send/resend, deliver, lose, duplicate, ack, timer), every number of connections into
    the receiving transport, every memory limit and window size.

    Level: partial.  Not covered by the model, hence not by these theorems: uint32 wrap-around of sequence
    numbers, the handshake, generations and connection restarts (see finding F14), encryption/CRC, the
    concrete resend/ack timers and the choice of chunks they trigger (the model allows every such choice),
    non-stream-like reassembly, real concurrency of goRead/goWrite and sockets. *)
From TLV Require Import Udp.UdpModel Udp.UdpLemmas Udp.UdpProofs Udp.UdpSettle.
Open Scope N_scope.

(** ** safety, over all step sequences *)

(** Exactly once, intact, in order: what has been handed to the message handler of connection [c] is always a
    prefix of the list of submitted messages -- every delivered message was submitted with identical contents,
    none is delivered twice, none is skipped (stream-like connections deliver in submission order). *)
Theorem C36_delivered_is_prefix_of_submitted : forall limit maxwin n s c,
  reachable limit maxwin n s ->
  exists k, r_deliv (rcvr (getc c s)) = firstn k (submitted (getc c s)).
Proof. intros. eapply delivered_prefix. eapply reachable_inv; eauto. Qed.
Print Assumptions C36_delivered_is_prefix_of_submitted.

(** Acked prefixes never move backwards, neither the sender's (ackSeqNoPrefix) nor the receiver's (ackPrefix),
    and nothing already delivered is taken back. *)
Theorem C36_prefixes_monotone : forall limit maxwin n s st c,
  reachable limit maxwin n s ->
  s_prefix (sndr (getc c s)) <= s_prefix (sndr (getc c (do_step limit maxwin s st))) /\
  r_prefix (rcvr (getc c s)) <= r_prefix (rcvr (getc c (do_step limit maxwin s st))) /\
  exists l, r_deliv (rcvr (getc c (do_step limit maxwin s st))) = r_deliv (rcvr (getc c s)) ++ l.
Proof. intros. apply prefixes_monotone. eapply reachable_inv; eauto. Qed.
Print Assumptions C36_prefixes_monotone.

(** The sender believes acknowledged only what the receiver really has: its acked prefix never exceeds the
    receiver's prefix, every selectively acked chunk has been received, and so has everything an
    acknowledgement still in flight talks about. *)
Theorem C36_acks_truthful : forall limit maxwin n s c,
  reachable limit maxwin n s ->
  s_prefix (sndr (getc c s)) <= r_prefix (rcvr (getc c s)) /\
  (forall x, In x (s_acked (sndr (getc c s))) -> rcvd (rcvr (getc c s)) x) /\
  forall d, In d (st_net s) ->
    match d with
    | Ack c' p ks => p <= r_prefix (rcvr (getc c' s)) /\ forall x, In x ks -> rcvd (rcvr (getc c' s)) x
    | Data _ _ _ => True
    end.
Proof. intros. apply (acks_truthful limit). eapply reachable_inv; eauto. Qed.
Print Assumptions C36_acks_truthful.

(** Datagram labels are chunk sequence numbers: every data datagram in flight is labelled f..f+k-1 with k > 0 and
    all of these are chunks of the sender's table; delivering it processes exactly the table's chunks f..f+k-1,
    in this order (so a datagram can never carry the bytes of one chunk under the number of another -- the
    correspondence run checks this for every datagram the implementation builds).  A resend may cover a range
    with already acknowledged chunks inside: [Send] is enabled for every sliced chunk, acked or not. *)
Theorem C36_datagram_labels_are_chunk_seqs : forall limit maxwin n s c f k,
  reachable limit maxwin n s -> In (Data c f k) (st_net s) ->
  0 < k /\ f + k <= ulen (s_chunks (sndr (getc c s))) /\
  forall i, nth_error (st_net s) i = Some (Data c f k) ->
    deliver limit maxwin i s = recv_range limit maxwin (N.to_nat k) c f (set_net s (remove_nth i (st_net s))).
Proof.
  intros limit maxwin n s c f k H Hin. apply reachable_inv in H.
  pose proof (core_net _ _ (inv_core _ _ H)) as F. rewrite Forall_forall in F. specialize (F _ Hin). cbn [dgram_ok] in F.
  destruct F as [F1 F2]. split; [exact F1|]. split; [exact F2|]. intros i E. unfold deliver. rewrite E. reflexivity.
Qed.
Print Assumptions C36_datagram_labels_are_chunk_seqs.

(** acquiredMemory never exceeds the limit and always equals the sum over the connections of
    (reserved stream range - bytes already handed to the handler). *)
Theorem C36_memory_bounded_and_accounted : forall limit maxwin n s,
  reachable limit maxwin n s ->
  st_acq s <= limit /\ st_acq s = total_held (st_conns s).
Proof. intros. apply memory_bounded. eapply reachable_inv; eauto. Qed.
Print Assumptions C36_memory_bounded_and_accounted.

(** The memory waiters queue is consistent (checkInvariants of fuzz_transport.go): no connection twice, exactly
    the connections flagged inMemoryWaitersQueue, and the first waiter really does not fit. *)
Theorem C36_waiters_consistent : forall limit maxwin n s,
  reachable limit maxwin n s ->
  NoDup (st_wait s) /\
  (forall c, In c (st_wait s) <-> (c < length (st_conns s))%nat /\ r_inq (rcvr (getc c s)) = true) /\
  (forall w rest, st_wait s = w :: rest -> limit < st_acq s + r_req (rcvr (getc w s))) /\
  (forall c, ~ In (r_prefix (rcvr (getc c s))) (r_got (rcvr (getc c s)))).
Proof.
  intros limit maxwin n s H. apply reachable_inv in H. destruct H as [C F W].
  split; [apply (core_wnodup _ _ C)|]. split; [apply (core_wiff _ _ C)|]. split; [exact W|exact F].
Qed.
Print Assumptions C36_waiters_consistent.

(** ** settle: the fair completion *)

(** From any reachable state in which no submitted message is larger than the memory limit (the transport
    rejects empty messages itself), the completion [complete] -- every datagram in flight arrives, then rounds
    of "slice what is queued, resend every chunk from the acked prefix, each arriving at once, acknowledge" --
    ends in a state where every connection has handed over exactly the submitted messages, in order, nothing
    was submitted meanwhile, no memory is held, nobody waits for memory and the network is empty. *)
Theorem C36_settle : forall limit maxwin n s,
  1 <= maxwin -> reachable limit maxwin n s -> small limit s ->
  let s' := complete limit maxwin s in
  (forall c, r_deliv (rcvr (getc c s')) = submitted (getc c s') /\ submitted (getc c s') = submitted (getc c s)) /\
  st_acq s' = 0 /\ st_wait s' = [] /\ st_net s' = [].
Proof.
  intros limit maxwin n s Hw H Hs s'.
  destruct (complete_settles limit maxwin Hw s (reachable_inv _ _ _ _ H) Hs) as (_ & A & B & C & D & _). auto.
Qed.
Print Assumptions C36_settle.

(** The completion is an ordinary run of the model that loses nothing, duplicates nothing and submits nothing:
    only Slice, Send, Deliver and AckEmit steps (so its end state is reachable again). *)
Theorem C36_settle_is_fair_run : forall limit maxwin s,
  exists l, complete limit maxwin s = run limit maxwin s l /\ forallb fair l = true.
Proof. exact complete_is_fair_run. Qed.
Print Assumptions C36_settle_is_fair_run.

(** Termination measure: [complete s] = drain, then (undelivered + 1) rounds (by definition), and every round
    started with something undelivered strictly decreases the number of undelivered messages. *)
Theorem C36_settle_measure : forall limit maxwin n s,
  1 <= maxwin -> reachable limit maxwin n s -> st_net s = [] -> small limit s ->
  complete limit maxwin s = iter (S (undelivered (drain limit maxwin s))) (round limit maxwin) (drain limit maxwin s) /\
  (undelivered (round limit maxwin s) <= undelivered s)%nat /\
  ((0 < undelivered s)%nat -> (undelivered (round limit maxwin s) < undelivered s)%nat).
Proof.
  intros limit maxwin n s Hw H Hn Hs. split; [reflexivity|].
  destruct (round_spec limit maxwin Hw s (reachable_inv _ _ _ _ H) Hn Hs) as (_ & _ & _ & _ & _ & A & B). auto.
Qed.
Print Assumptions C36_settle_measure.

(** ** the statements are not vacuous, and the hypotheses are needed *)

(** a run with two senders into one receiver, loss, duplication, reordering and memory pressure (limit 12) *)
Definition ex_steps : list step :=
  [ Submit 0 [1;2;3;4;5;6;7;8]; Submit 1 [9;9;9;9;9;9]; Submit 0 [7;7];
    Slice 0 [3;5]; Slice 1 [6]; Slice 0 [2];
    Send 0 2 1; Send 1 0 1; Send 0 0 2; Dup 0; Lose 2;
    Deliver 0; Deliver 0; Timer; AckEmit 0 0 [2]; Deliver 1; Deliver 0; Send 0 1 1; Lose 0 ].
Definition ex_state : state := run 12 1000 (init 2) ex_steps.

Example C36_ex_midway :
  (* the last chunk of connection 0 arrived first and reserved the whole range of 10 bytes; connection 1 waits
     for 6 bytes; nothing has been delivered yet, the sender of connection 0 knows chunk 2 as acked *)
  (st_acq ex_state, st_wait ex_state, map (fun cn => r_deliv (rcvr cn)) (st_conns ex_state),
   map (fun cn => s_acked (sndr cn)) (st_conns ex_state)) =
  (10, [1%nat], [[]; []], [[2]; []]).
Proof. vm_compute. reflexivity. Qed.

Example C36_ex_settles :
  let s' := complete 12 1000 ex_state in
  (map (fun cn => r_deliv (rcvr cn)) (st_conns s'), st_acq s', st_wait s', st_net s') =
  ([[[1;2;3;4;5;6;7;8]; [7;7]]; [[9;9;9;9;9;9]]], 0, [], []).
Proof. vm_compute. reflexivity. Qed.

(** a stale resend request: one-chunk messages A..E; A, C, D are lost, E overtakes B, both are acknowledged
    selectively; then the whole range 0..3 is sent again in ONE datagram although chunk 1 (B) inside it is already
    acked: the receiver drops chunk 1 as a duplicate and hands over A, B, C, D, E exactly once, in order *)
Definition ex_stale : list step :=
  [ Submit 0 [10]; Submit 0 [11]; Submit 0 [12]; Submit 0 [13]; Submit 0 [14];
    Slice 0 [1]; Slice 0 [1]; Slice 0 [1]; Slice 0 [1]; Slice 0 [1];
    Send 0 0 1; Send 0 1 1; Send 0 2 1; Send 0 3 1; Send 0 4 1;
    Lose 0; Lose 1; Lose 1;            (* A, C, D *)
    Deliver 1; Deliver 0;              (* E before B *)
    AckEmit 0 0 [1; 4]; Deliver 0;     (* the sender learns that B and E arrived *)
    Send 0 0 4 ].                      (* the stale request [0..3], served as one datagram *)
Example C36_ex_resend_range_with_acked_chunk_inside :
  let s := run 100 1000 (init 1) ex_stale in
  let s' := deliver 100 1000 0 s in
  (map (fun cn => s_acked (sndr cn)) (st_conns s), st_net s, map (fun cn => r_deliv (rcvr cn)) (st_conns s),
   map (fun cn => (r_deliv (rcvr cn), r_prefix (rcvr cn))) (st_conns s'), st_acq s') =
  ([[4; 1]], [Data 0 0 4], [[]], [([[10]; [11]; [12]; [13]; [14]], 5)], 0).
Proof. vm_compute. reflexivity. Qed.

(** a message larger than the memory limit is never delivered: the hypothesis [small] of [C36_settle] is needed *)
Example C36_ex_too_large_never_delivered :
  let s' := complete 4 1000 (run 4 1000 (init 1) [Submit 0 [1;2;3;4;5;6;7;8]]) in
  (map (fun cn => r_deliv (rcvr cn)) (st_conns s'), undelivered s') = ([[]], 1%nat).
Proof. vm_compute. reflexivity. Qed.

(** the simulator's configuration (T-const from fuzz_transport.go / transport.go) satisfies the hypotheses:
    messages are at most MaxFuzzMessageSize <= MaxFuzzTransportMemory bytes, the window is at least 1 *)
Example C36_simulator_config : udp_MaxFuzzMessageSize <= sim_limit /\ 1 <= sim_maxwin /\ sim_transports = 16%nat.
Proof. vm_compute. repeat split; discriminate. Qed.
