(** C11 -- wire formats match an independent reference codec.  The extracted model IS the
    reference: it shares no code with /repo.  These theorems make it readable as the
    documented format (TL1 part; the TL2 layout lemmas live with the TL2 model, Props/C03.v and
    C13.v); C33's theorems give the string, varlen-size and bit-vector layouts. *)
From TLV Require Import Prim.PrimModel Prim.PrimProofs Tl1.Tl1Model Tl1.Tl1Proofs Tl1.Tl1Canon Tl1.Tl1Spec.
From TLV Require Import Tl1.Tl1CanonDict.
From TLV Require Import Tl1.Tl1IsoModel Tl1.Tl1Resolve.
Open Scope N_scope.

Theorem C11_little_endian_nat : forall v,
  nat_w v = [v mod 256; v / 256 mod 256; v / 65536 mod 256; v / 16777216 mod 256].
Proof. exact nat_w_le. Qed.
Print Assumptions C11_little_endian_nat.

Theorem C11_boxed_is_tag_then_bare : forall san s t tag fds ps v bare_body,
  nth_error s t = Some (TStruct tag fds) ->
  enc1 san s t true ps v = Some bare_body ->
  enc1 san s t false ps v = Some (nat_w tag ++ bare_body).
Proof. exact enc1_boxed. Qed.
Print Assumptions C11_boxed_is_tag_then_bare.

Theorem C11_union_is_variant_tag_then_fields : forall san s t vars idx fs ps vt tag fds b,
  nth_error s t = Some (TUnion vars) ->
  nth_error vars idx = Some vt -> nth_error s vt = Some (TStruct tag fds) ->
  enc1 san s t false ps (VUnion idx fs) = Some b ->
  exists body, b = nat_w tag ++ body /\
               enc_fields (fun t' b' ps' v' => enc1 san s t' b' ps' v') ps fs fds fs = Some body.
Proof. exact enc1_union. Qed.
Print Assumptions C11_union_is_variant_tag_then_fields.

Theorem C11_present_field_written_in_order : forall rec ps all fd fds v vs b,
  enc_fields rec ps all (fd :: fds) (Some v :: vs) = Some b ->
  field_present ps all fd = true /\
  exists b1 b2, rec (f_ty fd) (f_bare fd) (eval_args ps all (f_args fd)) v = Some b1 /\
                enc_fields rec ps all fds vs = Some b2 /\ b = b1 ++ b2.
Proof. exact enc_fields_present. Qed.
Print Assumptions C11_present_field_written_in_order.

Theorem C11_absent_field_occupies_nothing : forall rec ps all fd fds vs b,
  enc_fields rec ps all (fd :: fds) (None :: vs) = Some b ->
  field_present ps all fd = false /\ enc_fields rec ps all fds vs = Some b.
Proof. exact enc_fields_absent. Qed.
Print Assumptions C11_absent_field_occupies_nothing.

Theorem C11_field_mask_bit_decides_presence : forall ps all fd a bit,
  f_mask fd = Some (a, bit) -> field_present ps all fd = N.testbit (eval_natarg ps all a) bit.
Proof. exact field_present_spec. Qed.
Print Assumptions C11_field_mask_bit_decides_presence.

Theorem C11_vector_is_count_then_elements : forall san s t ef ps es b,
  nth_error s t = Some (TArray AVector ef) ->
  enc1 san s t true ps (VArr es) = Some b ->
  exists body, b = nat_w (lenN es) ++ body /\
    enc_elems (fun e => enc1 san s (f_ty ef) (f_bare ef) (eval_args ps [] (f_args ef)) e) es = Some body.
Proof. exact enc1_vector. Qed.
Print Assumptions C11_vector_is_count_then_elements.

Theorem C11_tuple_is_elements_sized_by_parameter : forall san s t ef ps es b,
  nth_error s t = Some (TArray ATupleDyn ef) ->
  enc1 san s t true ps (VArr es) = Some b ->
  lenN es = nth 0 ps 0 /\
  enc_elems (fun e => enc1 san s (f_ty ef) (f_bare ef) (eval_args ps [] (f_args ef)) e) es = Some b.
Proof. exact enc1_tuple. Qed.
Print Assumptions C11_tuple_is_elements_sized_by_parameter.

Theorem C11_elements_are_concatenated : forall rec es b,
  enc_elems rec es = Some b ->
  exists bs, Forall2 (fun e be => rec e = Some be) es bs /\ b = concat bs.
Proof. exact enc_elems_concat. Qed.
Print Assumptions C11_elements_are_concatenated.

(** the reference accepts exactly what it writes (C01 + C02 restated for the reference) *)
Theorem C11_reference_reads_what_it_writes : forall san s, wf_schema s = true ->
  forall v fuel t bare ps b rest, (vdepth v <= fuel)%nat ->
    enc1 san s t bare ps v = Some b -> dec1 fuel san s t bare ps (b ++ rest) = Some (Ok (v, rest)).
Proof. intros san s Hwf v fuel t bare ps b rest Hd H. exact (enc1_dec1 san s Hwf v fuel Hd t bare ps b rest H). Qed.
Print Assumptions C11_reference_reads_what_it_writes.

(** the set of byte strings the reference accepts, for EVERY well-formed schema (key/value
    dictionaries anywhere, nested at any depth): an accepted prefix [pfx] is what the reference
    writes for the decoded value, [pfx'], up to [dict_equiv] (Tl1CanonDict.v) -- same tags,
    primitives and counts, and inside each dictionary [pfx] lists the received entries in any order
    where [pfx'] lists them sorted by key, an entry dropped iff a later one has the same key.
    Nothing is excluded any more; the statement restricted to schemas without dictionaries
    ([..._partial] below, kept under its historical name) is the corollary obtained with
    [C11_dict_equiv_is_equality_without_dictionaries]. *)
Theorem C11_reference_accepts_only_what_it_writes_modulo_dict : forall san s, wf_schema s = true ->
  forall fuel t bare ps b v rest, bytes_ok b ->
    dec1 fuel san s t bare ps b = Some (Ok (v, rest)) ->
    exists pfx pfx', b = pfx ++ rest /\ enc1 false s t bare ps v = Some pfx' /\ dict_equiv s t bare ps pfx pfx'.
Proof. exact dec1_canonical_modulo_dict. Qed.
Print Assumptions C11_reference_accepts_only_what_it_writes_modulo_dict.

Theorem C11_dict_equiv_is_equality_without_dictionaries : forall s t bare ps x y,
  no_dict s = true -> dict_equiv s t bare ps x y -> x = y.
Proof. exact dict_equiv_no_dict. Qed.
Print Assumptions C11_dict_equiv_is_equality_without_dictionaries.

(** whatever the reference accepts it can write back *)
Theorem C11_reference_rewrites_what_it_accepts : forall san s, wf_schema s = true ->
  forall fuel t bare ps b v rest, bytes_ok b ->
    dec1 fuel san s t bare ps b = Some (Ok (v, rest)) ->
    exists pfx pfx', b = pfx ++ rest /\ enc1 false s t bare ps v = Some pfx'.
Proof. exact dec1_reencodable. Qed.
Print Assumptions C11_reference_rewrites_what_it_accepts.

(** and what it writes back is a fixed point of read-then-write (same fuel, any continuation; with
    the length-sanity option on, provided the strict writer accepts the value) *)
Theorem C11_reference_rewrite_is_fixed_point : forall san s, wf_schema s = true ->
  forall fuel t bare ps b v rest, bytes_ok b ->
    dec1 fuel san s t bare ps b = Some (Ok (v, rest)) ->
    exists pfx pfx', b = pfx ++ rest /\ enc1 false s t bare ps v = Some pfx' /\
      forall san' fuel' rest', (fuel <= fuel')%nat ->
        (san' = true -> enc1 true s t bare ps v <> None) ->
        dec1 fuel' san' s t bare ps (pfx' ++ rest') = Some (Ok (v, rest')).
Proof. exact dec1_canonical_form_fixed. Qed.
Print Assumptions C11_reference_rewrite_is_fixed_point.

Theorem C11_reference_accepts_only_what_it_writes_partial : forall san s, wf_schema s = true -> no_dict s = true ->
  forall fuel t bare ps b v rest, bytes_ok b ->
    dec1 fuel san s t bare ps b = Some (Ok (v, rest)) ->
    exists pfx, b = pfx ++ rest /\ enc1 false s t bare ps v = Some pfx.
Proof. intros san s Hwf Hnd fuel t bare ps b v rest Hb H. exact (dec1_canonical san s Hwf Hnd fuel t bare ps b v rest Hb H). Qed.
Print Assumptions C11_reference_accepts_only_what_it_writes_partial.

Example C11_ex_boxed_vector :
  enc1 true [TPrim PInt; TArray AVector (mkField 0 true None []); TStruct 287454020 [mkField 1 true None []]]
       2 false [] (VStruct [Some (VArr [VNum 1; VNum 258])])
  = Some [68; 51; 34; 17;  2; 0; 0; 0;  1; 0; 0; 0;  2; 1; 0; 0].
Proof. vm_compute. reflexivity. Qed.

(** key/value dictionary: count, then entries; the reference reads them in any order with duplicate
    keys (here the keys "b", "a", "b") and writes them sorted, the last "b" winning; the two byte
    strings are [dict_equiv] and the written one is read back unchanged *)
Definition c11d_schema : schema :=
  [ TPrim PString; TPrim PNat; TStruct 7 [mkField 0 true None []; mkField 1 true None []];
    TDict PString (mkField 2 true None []) ].
Definition c11d_in : bytes := [3;0;0;0;  1;98;0;0; 1;0;0;0;  1;97;0;0; 2;0;0;0;  1;98;0;0; 3;0;0;0].
Definition c11d_val : value :=
  VArr [VStruct [Some (VStr [97]); Some (VNum 2)]; VStruct [Some (VStr [98]); Some (VNum 3)]].
Definition c11d_out : bytes := [2;0;0;0;  1;97;0;0; 2;0;0;0;  1;98;0;0; 3;0;0;0].

Example C11_ex_dictionary : wf_schema c11d_schema = true /\ no_dict c11d_schema = false /\
  dec1 9 true c11d_schema 3 true [] (c11d_in ++ [5; 5]) = Some (Ok (c11d_val, [5; 5])) /\
  enc1 true c11d_schema 3 true [] c11d_val = Some c11d_out /\
  dec1 9 true c11d_schema 3 true [] (c11d_out ++ [5; 5]) = Some (Ok (c11d_val, [5; 5])).
Proof. vm_compute. repeat split; reflexivity. Qed.

Example C11_ex_dictionary_equiv : dict_equiv c11d_schema 3 true [] c11d_in c11d_out.
Proof.
  destruct (C11_reference_accepts_only_what_it_writes_modulo_dict true c11d_schema eq_refl 9 3%nat true []
              (c11d_in ++ [5; 5]) c11d_val [5; 5]) as [pfx [pfx' [E [He Hq]]]].
  - apply Forall_forall. intros x Hx. unfold byte_ok.
    assert (Hb : bytes_okb (c11d_in ++ [5; 5]) = true) by (vm_compute; reflexivity).
    unfold bytes_okb in Hb. rewrite forallb_forall in Hb. specialize (Hb x Hx). now apply N.ltb_lt.
  - vm_compute. reflexivity.
  - apply app_inv_tail in E. subst pfx. vm_compute in He. injection He as <-. exact Hq.
Qed.

(** * The reference's schema IR is cross-checked against an independent derivation

    The IR the reference runs on is dumped from the real kernel; the leg corr:C11:resolution derives it
    a second time from the schema text (lib/indep_ir.py, no /repo code) and evaluates the extracted
    checker [ir_iso] on (independent IR, kernel IR, renumbering found by the lockstep walk).  When the
    checker accepts, the reference codec over the kernel's IR IS the reference codec over the
    independently derived IR: same bytes for every value, same verdict/value/rest for every byte
    string, every nat-argument vector and every fuel -- so a kernel resolution defect can no longer
    hide behind a self-consistent wrong IR. *)
Theorem C11_isomorphic_ir_same_codec : forall r s1 s2,
  ir_iso r s1 s2 = true ->
  (forall t t', (t < length s1)%nat -> (t' < length s1)%nat -> rn r t = rn r t' -> t = t') /\
  forall t, (t < length s1)%nat ->
    (forall san bare ps v, enc1 san s1 t bare ps v = enc1 san s2 (rn r t) bare ps v) /\
    (forall fuel san bare ps b, dec1 fuel san s1 t bare ps b = dec1 fuel san s2 (rn r t) bare ps b).
Proof. exact ir_iso_sound. Qed.
Print Assumptions C11_isomorphic_ir_same_codec.

(** the one-directional part (no injectivity needed): a simulation is enough for equal codecs *)
Theorem C11_simulated_ir_same_codec : forall r s1 s2,
  ir_sim r s1 s2 = true ->
  forall t, (t < length s1)%nat ->
    (forall san bare ps v, enc1 san s1 t bare ps v = enc1 san s2 (rn r t) bare ps v) /\
    (forall fuel san bare ps b, dec1 fuel san s1 t bare ps b = dec1 fuel san s2 (rn r t) bare ps b).
Proof. exact ir_sim_sound. Qed.
Print Assumptions C11_simulated_ir_same_codec.

(** identical numbering: equal codecs at every index, also outside both IRs *)
Theorem C11_equal_ir_same_codec : forall s1 s2,
  schema_eqb s1 s2 = true ->
  forall t,
    (forall san bare ps v, enc1 san s1 t bare ps v = enc1 san s2 t bare ps v) /\
    (forall fuel san bare ps b, dec1 fuel san s1 t bare ps b = dec1 fuel san s2 t bare ps b).
Proof. exact schema_eqb_sound. Qed.
Print Assumptions C11_equal_ir_same_codec.

(** `demo.grid # tags:[int] rows:# cols:# data:rows*[int] = demo.Grid;` -- independent IR (own
    numbering) against the kernel's IR (kernel numbering, extra unreachable primitive in front). *)
Definition c11g_indep : schema :=
  [ TStruct 11 [mkField 1 true None []; mkField 3 true None []; mkField 3 true None [];
                mkField 4 true None [NField 1]];                       (* 0 demo.grid *)
    TArray AVector (mkField 2 true None []);                           (* 1 []int     *)
    TPrim PInt;                                                        (* 2 int       *)
    TPrim PNat;                                                        (* 3 #         *)
    TArray ATupleDyn (mkField 2 true None []) ].                       (* 4 [*]int    *)
Definition c11g_kernel (size_field : nat) : schema :=
  [ TPrim PLong; TPrim PNat; TPrim PInt;
    TArray ATupleDyn (mkField 2 true None []);
    TArray AVector (mkField 2 true None []);
    TStruct 11 [mkField 4 true None []; mkField 1 true None []; mkField 1 true None [];
                mkField 3 true None [NField size_field]] ].
Definition c11g_r : list nat := [5; 4; 2; 1; 3]%nat.

(** accepted for the right IR, refused when `data` is sized by `cols` (field 2) instead of `rows`
    (field 1) -- the resolution defect of the seeded change -- and the two IRs then really encode
    the value rows=1 cols=2 data=[7] differently (the wrong one refuses it) *)
Example C11_ex_iso_accepts_and_refuses :
  ir_iso c11g_r c11g_indep (c11g_kernel 1) = true /\
  ir_iso c11g_r c11g_indep (c11g_kernel 2) = false /\
  ir_iso [5; 4; 2; 1; 4]%nat c11g_indep (c11g_kernel 1) = false /\
  enc1 true c11g_indep 0 true [] (VStruct [Some (VArr []); Some (VNum 1); Some (VNum 2); Some (VArr [VNum 7])])
    = Some [0;0;0;0; 1;0;0;0; 2;0;0;0; 7;0;0;0] /\
  enc1 true (c11g_kernel 1) 5 true [] (VStruct [Some (VArr []); Some (VNum 1); Some (VNum 2); Some (VArr [VNum 7])])
    = Some [0;0;0;0; 1;0;0;0; 2;0;0;0; 7;0;0;0] /\
  enc1 true (c11g_kernel 2) 5 true [] (VStruct [Some (VArr []); Some (VNum 1); Some (VNum 2); Some (VArr [VNum 7])])
    = None.
Proof. vm_compute. repeat split; reflexivity. Qed.
