(** C26 -- the TLO output describes the schema faithfully.  Property theorems only.
    Model: coq/theories/Tlo/TloModel.v.  [tlo version now cs] = GenerateTLO (internal/tlast/tlgen_tlo.go) on the parser's
    combinators [cs] (dumped from the real parser on every run); [tls_ir] = kernel IR of internal/tlast/tls.tl (the TLO
    container is TL1 data), decoded with the TL1 model of C01.
    Partial on one axis (the names carry no suffix because each statement below is proved in full as stated): the type
    expression trees of fields and the children of a function's result expression are not part of [tlo_desc]; for those the
    run compares the two decoders' full value trees and the byte-exact re-encoding only. *)
From Coq Require Import List NArith ZArith Bool Permutation Sorted.
From TLV Require Import Prim.PrimModel Tl1.Tl1Model Tl1.Tl1Proofs Tlo.TloModel Tlo.TloProofs.
Import ListNotations.
Open Scope N_scope.

(** Every constructor and function is listed exactly once with its name and tag: the multiset of (name, tag) pairs of the
    two sections is the multiset of (name, tag) pairs of the schema.  No bound on the schema.
    [builtins_canonical]: combinators named int/long/float/double/string carry the tags GenerateTLO hard-codes for them
    (without it see C26_refuted_builtin_tag); [tags_ok]: tags are 32-bit (Crc32() is a uint32). *)
Theorem C26_each_combinator_once_with_tag_and_name : forall version now cs d,
  tlo version now cs = Some d -> builtins_canonical cs -> tags_ok cs ->
  Permutation (map (fun e => (ce_id e, ce_name e)) (d_constructors d ++ d_functions d))
              (map (fun c => (c_name c, c_tag c)) cs).
Proof. exact tlo_lists_each_once_with_tag. Qed.
Print Assumptions C26_each_combinator_once_with_tag_and_name.

(** without the hypothesis: name and [listed_tag] (the hard-coded tag for the five builtin names) *)
Theorem C26_each_combinator_once : forall version now cs d,
  tlo version now cs = Some d ->
  Permutation (map (fun e => (ce_id e, ce_name e)) (d_constructors d ++ d_functions d))
              (map (fun c => (c_name c, listed_tag c)) cs).
Proof. exact tlo_lists_each_once. Qed.
Print Assumptions C26_each_combinator_once.

(** distinct combinator names (kernel-enforced) => no name is listed twice *)
Theorem C26_no_name_listed_twice : forall version now cs d,
  tlo version now cs = Some d -> NoDup (map c_name cs) -> NoDup (map ce_id (d_constructors d ++ d_functions d)).
Proof. exact tlo_ids_nodup. Qed.
Print Assumptions C26_no_name_listed_twice.

(** sections: constructors = the non-function combinators (and the builtin names) in schema order; functions = the others,
    sorted by name *)
Theorem C26_sections : forall version now cs d, tlo version now cs = Some d ->
  d_constructors d = map (entry (types_table cs)) (filter goes_ctor cs) /\
  Permutation (d_functions d) (map (entry (types_table cs)) (filter (fun c => negb (goes_ctor c)) cs)) /\
  Sorted (kle ce_id) (d_functions d).
Proof. exact tlo_sections. Qed.
Print Assumptions C26_sections.

(** every listed type: name (= id) is the XOR of the tags of its constructors ("#" and "Type" are pre-seeded with their own
    tags), constructors_num is their number (as a 32-bit value), arity and parameter kinds are those of its first
    constructor *)
Theorem C26_type_name_is_xor_of_constructor_tags : forall version now cs d t,
  tlo version now cs = Some d -> In t (d_types d) ->
  let l := ctors_of cs (t_id t) in
  t_name t = N.lxor (seed_name (t_id t)) (xor_tags l) /\
  t_cnum t = w32 (lenN l) /\
  (is_seed (t_id t) = false ->
   exists c0 l', l = c0 :: l' /\ t_arity t = w32 (c_arity c0) /\ t_ptype t = ptype_bits 0 (c_targs c0)).
Proof. exact tlo_types_spec. Qed.
Print Assumptions C26_type_name_is_xor_of_constructor_tags.

(** arity and parameter kinds agree with EVERY constructor of the type when the constructors of one type agree with each
    other (the kernel rejects unions whose constructors differ in argument names or kinds); bit i of params_type = "the
    i-th parameter is a #" for i < 64 *)
Theorem C26_type_arity_and_parameter_kinds : forall version now cs d t c,
  tlo version now cs = Some d -> consistent cs ->
  In t (d_types d) -> is_seed (t_id t) = false -> In c cs -> c_fun c = false -> c_res c = t_id t ->
  t_arity t = w32 (c_arity c) /\
  forall i, N.testbit (t_ptype t) i = (i <? 64) && nth (N.to_nat i) (map ta_nat (c_targs c)) false.
Proof. exact tlo_type_params. Qed.
Print Assumptions C26_type_arity_and_parameter_kinds.

(** exactly "#", "Type" and the result types of the schema's constructors are listed, each once, sorted by name, with
    pairwise different ids *)
Theorem C26_types_listed : forall version now cs d T, tlo version now cs = Some d ->
  (In T (map t_id (d_types d)) <-> is_seed T = true \/ exists c, In c cs /\ c_fun c = false /\ c_res c = T).
Proof. exact tlo_types_listed. Qed.
Print Assumptions C26_types_listed.

Theorem C26_types_sorted_once : forall version now cs d, tlo version now cs = Some d ->
  Sorted (kle t_id) (d_types d) /\ NoDup (map t_id (d_types d)).
Proof. exact tlo_types_sorted. Qed.
Print Assumptions C26_types_sorted_once.

Theorem C26_type_ids_distinct : forall version now cs d, tlo version now cs = Some d -> NoDup (map t_name (d_types d)).
Proof. exact tlo_type_ids_distinct. Qed.
Print Assumptions C26_type_ids_distinct.

(** a constructor's type_name is the id of its (listed) type; a function's is the id of its result type, 0 if not listed *)
Theorem C26_constructor_type_name : forall version now cs d c,
  tlo version now cs = Some d -> In c cs -> c_fun c = false -> is_builtin c = false ->
  exists t, In t (d_types d) /\ t_id t = c_res c /\ ce_tname (entry (types_table cs) c) = t_name t.
Proof. exact tlo_ctor_type_name. Qed.
Print Assumptions C26_constructor_type_name.

Theorem C26_function_type_name : forall version now cs d c, tlo version now cs = Some d -> is_builtin c = false ->
  (forall t, In t (d_types d) -> t_id t = c_res c -> ce_tname (entry (types_table cs) c) = t_name t) /\
  (~ In (c_res c) (map t_id (d_types d)) -> ce_tname (entry (types_table cs) c) = 0).
Proof. exact tlo_fun_type_name. Qed.
Print Assumptions C26_function_type_name.

(** The TLO bytes decode back to the same description: the TLO file is [enc1] of a value of the boxed union tls.Schema
    under [tls_ir]; C01's round trip instantiated at that IR.  (Which value: the run shows that the bytes tl2gen writes
    decode -- with this very [dec1] and with the repository's tltls package -- to one and the same value, whose projection
    equals [tlo]; and that [enc1] of it reproduces the file.) *)
Example C26_tls_ir_wf : wf_schema tls_ir = true.
Proof. vm_compute. reflexivity. Qed.

Theorem C26_tlo_bytes_roundtrip : forall san v fuel b rest,
  (vdepth v <= fuel)%nat ->
  enc1 san tls_ir tls_schema_type false [] v = Some b ->
  dec1 fuel san tls_ir tls_schema_type false [] (b ++ rest) = Some (Ok (v, rest)).
Proof. intros san v fuel b rest Hd H. exact (enc1_dec1 san tls_ir C26_tls_ir_wf v fuel Hd _ _ _ _ rest H). Qed.
Print Assumptions C26_tlo_bytes_roundtrip.

(** F-builtin: the first statement is FALSE of the faithful model without [builtins_canonical]:
    `int#12345678 ? = Int;` is accepted, and listed as int#a8509bda with type_name a8509bda, while its type Int gets the
    id 12345678 (XOR of the real tags).  Replayed on the real tl2gen by lib/checks/C26.py. *)
Definition bad_cs : list comb := [ mkComb n_int 305419896 false n_Int 0 [] [] [] ].
Theorem C26_refuted_builtin_tag : exists cs d c,
  tlo 5 0 cs = Some d /\ tags_ok cs /\ In c cs /\
  ~ In (c_name c, c_tag c) (map (fun e => (ce_id e, ce_name e)) (d_constructors d ++ d_functions d)) /\
  (exists e t, In e (d_constructors d) /\ ce_id e = c_name c /\ In t (d_types d) /\ t_id t = c_res c /\ ce_tname e <> t_name t).
Proof.
  exists bad_cs. eexists. exists (mkComb n_int 305419896 false n_Int 0 [] [] []).
  split; [vm_compute; reflexivity|]. split; [intros c [<-|[]]; reflexivity|]. split; [left; reflexivity|]. split.
  - cbn. intros [H|[]]. discriminate H.
  - eexists. exists (mkTType 305419896 n_Int 1 1 0 0). cbn.
    split; [left; reflexivity|]. split; [reflexivity|]. split; [right; left; reflexivity|]. split; [reflexivity|]. discriminate.
Qed.
Print Assumptions C26_refuted_builtin_tag.

(** Non-vacuity: the schema  int ? = Int;  a {t:Type} {n:#} x:n*[t] = A t n;  b {t:Type} {n:#} y:n*[t] = A t n;
    ---functions---  @write g a:int = A int 3;  @read f a:int = Int;   (tags as computed by the real parser).  The values
    below are the ones the real tl2gen writes for it. *)
Definition ex_cs : list comb :=
  [ mkComb n_int 2823855066 false n_Int 0 [] [] [];
    mkComb [97] 2644020156 false [65] 2 [] [mkTarg [116] false; mkTarg [110] true] [mkCField [120] false false];
    mkComb [98] 1587504615 false [65] 2 [] [mkTarg [116] false; mkTarg [110] true] [mkCField [121] false false];
    mkComb [103] 3012543164 true [65] 0 [n_write] [] [mkCField [97] false false];
    mkComb [102] 1462510018 true n_Int 0 [n_read] [] [mkCField [97] false false] ].

Example C26_ex_types :
  option_map (fun d => map (fun t => (t_id t, t_name t, t_cnum t, t_flags t, t_arity t, t_ptype t)) (d_types d)) (tlo 5 0 ex_cs)
  = Some [ ([35], 1885708031, 0, 0, 0, 0); ([65], 3272076891, 2, 16, 2, 2); ([73; 110; 116], 2823855066, 1, 1, 0, 0);
           ([84; 121; 112; 101], 753727511, 0, 0, 0, 0) ].
Proof. vm_compute. reflexivity. Qed.

Example C26_ex_combinators :
  option_map (fun d => (map (fun e => (ce_id e, ce_name e, ce_tname e, ce_flags e, ce_argsnum e)) (d_constructors d),
                        map (fun e => (ce_id e, ce_name e, ce_tname e, ce_flags e, ce_argsnum e)) (d_functions d))) (tlo 5 0 ex_cs)
  = Some ([ ([105; 110; 116], 2823855066, 2823855066, 0, 0); ([97], 2644020156, 3272076891, 0, 3); ([98], 1587504615, 3272076891, 0, 3) ],
          [ ([102], 1462510018, 2823855066, 1, 1); ([103], 3012543164, 3272076891, 2, 1) ]).
Proof. vm_compute. reflexivity. Qed.

(** declaration order is arbitrary: the constructors of a union need not be adjacent (the types table is looked up by type
    name).   a1#00000011 = A;  b#00000100 = B;  a2#00001000 = A;  ---functions--- f = B;  ---types--- a3#00010000 = A;  b2#00100000 = B; *)
Definition il_cs : list comb :=
  [ mkComb [97; 49] 17 false [65] 0 [] [] [];
    mkComb [98] 256 false [66] 0 [] [] [];
    mkComb [97; 50] 4096 false [65] 0 [] [] [];
    mkComb [102] 7 true [66] 0 [] [] [];
    mkComb [97; 51] 65536 false [65] 0 [] [] [];
    mkComb [98; 50] 1048576 false [66] 0 [] [] [] ].
Example C26_ex_interleaved_constructors :
  option_map (fun d => (map (fun t => (t_id t, t_name t, t_cnum t, t_flags t)) (d_types d),
                        map (fun e => (ce_id e, ce_tname e)) (d_constructors d ++ d_functions d))) (tlo 1 0 il_cs)
  = Some ([ ([35], 1885708031, 0, 0); ([65], 69649, 3, 16); ([66], 1048832, 2, 16); ([84; 121; 112; 101], 753727511, 0, 0) ],
          [ ([97; 49], 69649); ([98], 1048832); ([97; 50], 69649); ([97; 51], 69649); ([98; 50], 1048832); ([102], 1048832) ]).
Proof. vm_compute. reflexivity. Qed.

Example C26_ex_hypotheses : builtins_canonical ex_cs /\ tags_ok ex_cs /\ NoDup (map c_name ex_cs).
Proof.
  split; [|split].
  - intros c tg Hc. cbn in Hc. repeat (destruct Hc as [<-|Hc]; [cbn; intros E; try discriminate E; injection E as <-; reflexivity|]). destruct Hc.
  - intros c Hc. cbn in Hc. repeat (destruct Hc as [<-|Hc]; [reflexivity|]). destruct Hc.
  - cbn. repeat (constructor; [cbn; intuition discriminate|]). constructor.
Qed.

(** a TLO value (one type, one builtin constructor) encodes under [tls_ir], so the round-trip hypothesis is satisfiable *)
Definition ex_val : value :=
  VUnion 2 [Some (VNum 5); Some (VNum 5); Some (VNum 1);
            Some (VArr [VStruct [Some (VNum 2823855066); Some (VStr n_Int); Some (VNum 1); Some (VNum 1); Some (VNum 0); Some (VNum 0)]]);
            Some (VNum 1);
            Some (VArr [VUnion 1 [Some (VNum 2823855066); Some (VStr n_int); Some (VNum 2823855066); Some (VUnion 0 []);
                                  Some (VStruct [Some (VUnion 2 [Some (VNum 2823855066); Some (VNum 0); Some (VNum 0); Some (VArr [])])]); Some (VNum 0)]]);
            Some (VNum 0); Some (VArr [])].
Example C26_ex_roundtrip :
  match enc1 true tls_ir tls_schema_type false [] ex_val with
  | Some b => dec1 12 true tls_ir tls_schema_type false [] (b ++ [9]) = Some (Ok (ex_val, [9])) /\ lenN b = 100
  | None => False
  end.
Proof. vm_compute. split; reflexivity. Qed.
