(** C09 -- decoding into a reused object equals decoding into a fresh one.  Property theorems only.
    Model: coq/theories/Obj/ObjReuseModel.v ([dinto] = generated ReadTL1 acting on an existing Go object
    whose state [ostate] keeps stale slice tails, unselected union variants and values of absent fields;
    [oreset] = generated Reset; [oenc] = generated WriteTL1 reading the object; spec = the pure [dec1]).
    Full statement wanted: the same for TL1, TL2 and JSON readers.  Proved here: TL1 (all constructs of
    the schema IR); TL2 and JSON are covered by the Go-side oracle of lib/checks/C09.py only -- hence
    the suffix _partial. *)
From TLV Require Import Prim.PrimModel Tl1.Tl1Model Tl1.Tl1Proofs Obj.ObjReuseModel Obj.ObjReuseProofs.
Open Scope N_scope.

(** Whatever the object held before (ANY state [old], also one left behind by a failed decode: no
    shape hypothesis), ReadTL1 into it behaves as the pure reader: same verdict (out of fuel / EOF / reject
    / ok), same unread rest, and the new object state represents exactly the decoded wire value. *)
Theorem C09_reuse_simulates_pure_partial : forall fuel rfuel san s t bare ps old b,
  match dinto fuel rfuel san s t bare ps old b, dec1 fuel san s t bare ps b with
  | None, None => True
  | Some Eof, Some Eof => True
  | Some Reject, Some Reject => True
  | Some (Ok (o, r)), Some (Ok (v, r')) => r = r' /\ rep o v
  | _, _ => False
  end.
Proof. exact dinto_sim. Qed.
Print Assumptions C09_reuse_simulates_pure_partial.

(** The generated writer reads only the represented part of an object: stale slice tails, unselected
    variants and absent fields never reach the output. *)
Theorem C09_writer_ignores_stale : forall s v o t bare ps w,
  rep o v -> enc1 false s t bare ps v = Some w -> oenc s t bare ps o = Some w.
Proof. intros s v o t bare ps w. exact (oenc_rep s v o t bare ps w). Qed.
Print Assumptions C09_writer_ignores_stale.

(** Hence: decoding the same input into two objects with arbitrary histories (in particular [old2 := OFresh],
    a fresh object) gives the same verdict and rest, and on success both objects hold the same wire value and
    write the same bytes at every type position and under every nat environment where that value is writable. *)
Theorem C09_reuse_equals_fresh_partial : forall fuel rfuel san s t bare ps old1 old2 b,
  verdict_of (dinto fuel rfuel san s t bare ps old1 b) = verdict_of (dinto fuel rfuel san s t bare ps old2 b) /\
  forall o1 o2 r1 r2, dinto fuel rfuel san s t bare ps old1 b = Some (Ok (o1, r1)) ->
                      dinto fuel rfuel san s t bare ps old2 b = Some (Ok (o2, r2)) ->
    exists v, dec1 fuel san s t bare ps b = Some (Ok (v, r1)) /\ rep o1 v /\ rep o2 v /\
      forall t' bare' ps' w, enc1 false s t' bare' ps' v = Some w ->
        oenc s t' bare' ps' o1 = Some w /\ oenc s t' bare' ps' o2 = Some w.
Proof. exact reuse_equals_fresh. Qed.
Print Assumptions C09_reuse_equals_fresh_partial.

(** Reset: for every schema, type, previous state, nat environment: the writer produces the same output
    (bytes or error) for a Reset object and for a freshly created one. *)
Theorem C09_reset_equals_fresh_partial : forall s fuel t old bare ps,
  oenc s t bare ps (oreset fuel s t old) = oenc s t bare ps (ozero fuel s t).
Proof. exact reset_equals_fresh. Qed.
Print Assumptions C09_reset_equals_fresh_partial.

(** Non-vacuity: a struct with a mask, a vector under the mask and a union; an old object with a longer
    vector (stale tail), the other union variant filled and a non-zero value in the masked-out field. *)
Definition ex_schema : schema :=
  [ TPrim PNat;                                                      (* 0 # *)
    TPrim PInt;                                                      (* 1 int *)
    TArray AVector (mkField 1 true None []);                         (* 2 vector int *)
    TStruct 21 [mkField 1 true None []];                             (* 3 u.a x:int *)
    TStruct 22 [mkField 2 true None []];                             (* 4 u.b xs:(vector int) *)
    TUnion [3; 4]%nat;                                               (* 5 U *)
    TStruct 23 [mkField 0 true None [];                              (* 6 top m:# v:m.0?(vector int) u:U k:m.1?int *)
                mkField 2 true (Some (NField 0, 0)) [];
                mkField 5 false None [];
                mkField 1 true (Some (NField 0, 1)) []] ].
Definition ex_old : ostate :=
  OStruct [ONum 3; OArr [ONum 7; ONum 8; ONum 9] [ONum 10]; OUnion 1 [OStruct [ONum 5]; OStruct [OArr [ONum 1] []]]; ONum 77].
(* m = 1, v = [42], u = u.a 6, k absent *)
Definition ex_input : bytes := [1;0;0;0; 1;0;0;0; 42;0;0;0; 21;0;0;0; 6;0;0;0].

Example ex_reused_keeps_stale_state :
  dinto 5 3 true ex_schema 6 true [] ex_old ex_input =
  Some (Ok (OStruct [ONum 1; OArr [ONum 42] [ONum 8; ONum 9; ONum 10];
                     OUnion 0 [OStruct [ONum 6]; OStruct [OArr [ONum 1] []]]; ONum 0], [])).
Proof. vm_compute. reflexivity. Qed.
Example ex_fresh : dinto 5 3 true ex_schema 6 true [] OFresh ex_input =
  Some (Ok (OStruct [ONum 1; OArr [ONum 42] []; OUnion 0 [OStruct [ONum 6]]; ONum 0], [])).
Proof. vm_compute. reflexivity. Qed.
Example ex_same_bytes :
  match dinto 5 3 true ex_schema 6 true [] ex_old ex_input, dinto 5 3 true ex_schema 6 true [] OFresh ex_input with
  | Some (Ok (o1, _)), Some (Ok (o2, _)) => oenc ex_schema 6 true [] o1 = Some ex_input /\ oenc ex_schema 6 true [] o2 = Some ex_input
  | _, _ => False
  end.
Proof. vm_compute. split; reflexivity. Qed.
Example ex_reset : oenc ex_schema 6 true [] (oreset 5 ex_schema 6 ex_old) = Some [0;0;0;0; 21;0;0;0; 0;0;0;0].
Proof. vm_compute. reflexivity. Qed.
