(** C34 -- JSON primitive writers emit valid, exactly-decodable JSON.  Property theorems only;
    each is closed by [exact] of a lemma from Jprim/Jprim*.v and followed by [Print Assumptions].
    Model: Jprim/JprimModel.v (transcription of JSONWriteString/JSONWriteStringBytes, the integer,
    bool and float writers of pkg/basictl/basictl.go and of what the Json2Read* helpers recover);
    [valid_json_text] and [json_unescape] are the RFC 8259 recogniser / string decoder defined there. *)
From TLV Require Import Prim.PrimModel Jprim.JprimModel Jprim.JprimProofs.
Open Scope N_scope.

(** (a) every byte string is written as a valid JSON text (RFC 8259 grammar, UTF-8 encoded) *)
Theorem C34_string_valid_json : forall s, bytes_ok s -> valid_json_text (json_write_string s) = true.
Proof. exact jws_valid_json. Qed.
Print Assumptions C34_string_valid_json.

(** (b) valid UTF-8 is written as one JSON string token that the RFC 8259 unescaper decodes to the same bytes *)
Theorem C34_string_utf8_decodes_to_itself : forall s,
  utf8_valid s = true -> json_unescape (json_write_string s) = Some s.
Proof. exact jws_unescape. Qed.
Print Assumptions C34_string_utf8_decodes_to_itself.

(** (c) anything else is written as the object {"base64":"<standard padded base64>"} ... *)
Theorem C34_string_non_utf8_base64_object : forall s,
  utf8_valid s = false -> json_write_string s = binaryJSONStringStart ++ b64_enc s ++ binaryJSONStringEnd.
Proof. exact jws_invalid_form. Qed.
Print Assumptions C34_string_non_utf8_base64_object.

(** ... whose payload decodes to the same bytes *)
Theorem C34_base64_roundtrip : forall s, bytes_ok s -> b64_dec (b64_enc s) = Some s.
Proof. exact b64_roundtrip. Qed.
Print Assumptions C34_base64_roundtrip.

(** both forms together: what a reader of the field recovers is the input *)
Theorem C34_string_read_back : forall s, bytes_ok s -> jstr_read (json_write_string s) = Some s.
Proof. exact jws_read_back. Qed.
Print Assumptions C34_string_read_back.

(** [utf8_valid] is UTF-8 well-formedness: concatenation of ASCII bytes and of 2/3/4-byte sequences
    in the ranges of Unicode Table 3-7 (no overlongs, no surrogates, nothing above U+10FFFF) *)
Theorem C34_utf8_valid_characterised : forall s, utf8_valid s = true <-> Utf8 s.
Proof. exact utf8_valid_iff. Qed.
Print Assumptions C34_utf8_valid_characterised.

(** (d) integers: the decimal text parses back to the number, for every number *)
Theorem C34_decimal_roundtrip : forall n, digits_val (print_N n) = Some n.
Proof. exact print_N_roundtrip. Qed.
Print Assumptions C34_decimal_roundtrip.

Theorem C34_uint_roundtrip : forall bits n, n < 2 ^ bits -> jr_uint bits (jw_uint n) = Some n.
Proof. exact jr_uint_roundtrip. Qed.
Print Assumptions C34_uint_roundtrip.

Theorem C34_int_roundtrip : forall bits z, 0 < bits ->
  (- Z.of_N (2 ^ (bits - 1)) <= z < Z.of_N (2 ^ (bits - 1)))%Z -> jr_int bits (jw_int z) = Some z.
Proof. exact jr_int_roundtrip. Qed.
Print Assumptions C34_int_roundtrip.

(** the explicit ranges of JSONWriteByte/Uint32/Uint64 and JSONWriteInt32/Int64 *)
Theorem C34_integer_widths :
  (forall n, n <= 255 -> jr_uint 8 (jw_uint n) = Some n) /\
  (forall n, n <= 4294967295 -> jr_uint 32 (jw_uint n) = Some n) /\
  (forall n, n <= 18446744073709551615 -> jr_uint 64 (jw_uint n) = Some n) /\
  (forall z, (-2147483648 <= z <= 2147483647)%Z -> jr_int 32 (jw_int z) = Some z) /\
  (forall z, (-9223372036854775808 <= z <= 9223372036854775807)%Z -> jr_int 64 (jw_int z) = Some z).
Proof. exact integer_widths. Qed.
Print Assumptions C34_integer_widths.

(** values outside the width are rejected by the reader (no silent wrap-around) *)
Theorem C34_uint_out_of_range_rejected : forall bits n, 2 ^ bits <= n -> jr_uint bits (print_N n) = None.
Proof. exact jr_uint_out_of_range. Qed.
Print Assumptions C34_uint_out_of_range_rejected.

Theorem C34_int_out_of_range_rejected : forall bits z, 0 < bits ->
  (z < - Z.of_N (2 ^ (bits - 1)) \/ Z.of_N (2 ^ (bits - 1)) <= z)%Z -> jr_int bits (print_Z z) = None.
Proof. exact jr_int_out_of_range. Qed.
Print Assumptions C34_int_out_of_range_rejected.

Theorem C34_uint_valid_json : forall n, valid_json_text (jw_uint n) = true.
Proof. exact jw_uint_valid. Qed.
Print Assumptions C34_uint_valid_json.

Theorem C34_int_valid_json : forall z, valid_json_text (jw_int z) = true.
Proof. exact jw_int_valid. Qed.
Print Assumptions C34_int_valid_json.

Theorem C34_bool : forall b, jr_bool (jw_bool b) = Some b /\ valid_json_text (jw_bool b) = true.
Proof. exact jw_bool_ok. Qed.
Print Assumptions C34_bool.

(** (e) floats, special values: whatever strconv does, NaN / +Inf / -Inf are written as the
    strings "NaN" / "+Inf" / "-Inf" and every other value is left to strconv.AppendFloat ... *)
Theorem C34_float_special_text : forall eb mb fmt b,
  (fl_is_nan eb mb b = true -> jw_float eb mb fmt b = str_NaN) /\
  (fl_is_inf eb mb b = true -> fl_neg eb mb b = false -> jw_float eb mb fmt b = str_pInf) /\
  (fl_is_inf eb mb b = true -> fl_neg eb mb b = true -> jw_float eb mb fmt b = str_nInf) /\
  (fl_finite eb mb b = true -> jw_float eb mb fmt b = fmt b).
Proof. exact jw_float_special_text. Qed.
Print Assumptions C34_float_special_text.

(** ... these three are valid JSON and are read back as the canonical NaN and the infinities *)
Theorem C34_float_special_valid_json :
  valid_json_text str_NaN = true /\ valid_json_text str_pInf = true /\ valid_json_text str_nInf = true.
Proof. exact float_special_strings_valid. Qed.
Print Assumptions C34_float_special_valid_json.

Theorem C34_float_special_read : forall eb mb parse,
  jr_float eb mb parse str_NaN = Some (fl_nan eb mb) /\
  jr_float eb mb parse str_pInf = Some (fl_pinf eb mb) /\
  jr_float eb mb parse str_nInf = Some (fl_ninf eb mb).
Proof. exact jr_float_special. Qed.
Print Assumptions C34_float_special_read.

(** (e) floats, all values -- PARTIAL.  Full statement wanted: for every float32/float64 bit pattern b,
    reading JSONWriteFloat32/64's text gives back b (NaN payloads collapse to the canonical NaN) and the
    text is valid JSON.  Proved here only under hypotheses about strconv, which is not modelled:
    [fmt] = strconv.AppendFloat(.,'f',-1,bits) yields an ASCII RFC 8259 number for finite values and
    [parse] = strconv.ParseFloat inverts it.  What is missing: a verified model of Go's shortest-decimal
    float printer and of its parser; the f32/f64 ops of the correspondence run validate the hypotheses. *)
Theorem C34_float_roundtrip_partial : forall eb mb (fmt : N -> bytes) (parse : bytes -> option N),
  (forall b, fl_finite eb mb b = true -> p_number (fmt b) = Some []) ->
  (forall b, fl_finite eb mb b = true -> parse (fmt b) = Some b) ->
  forall b, b < 2 ^ (1 + eb + mb) ->
  jr_float eb mb parse (jw_float eb mb fmt b) = Some (fl_canon eb mb b).
Proof. exact jr_float_roundtrip_partial. Qed.
Print Assumptions C34_float_roundtrip_partial.

Theorem C34_float_valid_json_partial : forall eb mb (fmt : N -> bytes),
  (forall b, fl_finite eb mb b = true -> p_number (fmt b) = Some []) ->
  (forall b, fl_finite eb mb b = true -> Forall (fun c => c < 128) (fmt b)) ->
  forall b, valid_json_text (jw_float eb mb fmt b) = true.
Proof. exact jw_float_valid_partial. Qed.
Print Assumptions C34_float_valid_json_partial.

(** Non-vacuity: concrete instances computed by the kernel. *)
Example C34_ex_escape :
  json_write_string [104; 34; 10; 1; 226; 128; 168; 195; 169]
  = [34; 104; 92; 34; 92; 110; 92; 117; 48; 48; 48; 49; 92; 117; 50; 48; 50; 56; 195; 169; 34].
Proof. vm_compute. reflexivity. Qed.
Example C34_ex_base64 :
  utf8_valid [255; 1] = false /\
  json_write_string [255; 1] = [123; 34; 98; 97; 115; 101; 54; 52; 34; 58; 34; 47; 119; 69; 61; 34; 125].
Proof. vm_compute. split; reflexivity. Qed.
Example C34_ex_utf8_rejects :
  utf8_valid [192; 128] = false /\ utf8_valid [237; 160; 128] = false /\ utf8_valid [244; 144; 128; 128] = false
  /\ utf8_valid [226; 130] = false /\ utf8_valid [244; 143; 191; 191] = true /\ utf8_valid [237; 159; 191] = true.
Proof. vm_compute. repeat split; reflexivity. Qed.
Example C34_ex_recogniser_rejects :
  valid_json_text [34; 10; 34] = false /\ valid_json_text [48; 49] = false /\ valid_json_text [34; 92; 120; 34] = false
  /\ valid_json_text [123; 34; 97; 34; 58; 49; 44; 125] = false /\ valid_json_text [34; 255; 34] = false
  /\ valid_json_text [91; 49; 44; 123; 34; 97; 34; 58; 110; 117; 108; 108; 125; 93; 32] = true.
Proof. vm_compute. repeat split; reflexivity. Qed.
Example C34_ex_int64_min :
  jw_int (-9223372036854775808)%Z = [45; 57; 50; 50; 51; 51; 55; 50; 48; 51; 54; 56; 53; 52; 55; 55; 53; 56; 48; 56]
  /\ jr_int 64 (print_Z 9223372036854775808%Z) = None.
Proof. vm_compute. split; reflexivity. Qed.
Example C34_ex_float_hypotheses_satisfiable :
  (* a (toy) fmt/parse pair satisfying the hypotheses of the partial theorems exists: print the bit pattern in decimal *)
  let fmt := print_N in let parse := digits_val in
  parse (fmt 4607182418800017408) = Some 4607182418800017408 /\ p_number (fmt 4607182418800017408) = Some [].
Proof. vm_compute. split; reflexivity. Qed.
Example C34_ex_nan : jw_float64 (fun _ => []) 9221120237041090561 = [34; 78; 97; 78; 34]
  /\ jr_float64 (fun _ => None) [34; 78; 97; 78; 34] = Some 9221120237041090561
  /\ jr_float32 (fun _ => None) [34; 45; 73; 110; 102; 34] = Some 4286578688.
Proof. vm_compute. repeat split; reflexivity. Qed.
