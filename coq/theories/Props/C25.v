(** C25 -- the canonical schema listing (tl2gen --language=canonical) is faithful to the schema.

    Full statement: parse1 (terminate (canon_line c)) ~ c on names, effective tag, template arguments, fields and
    result type, one line per combinator.  Refuted for fields/results (F12): [C25_canon_line_refuted*].
    Proved in full: one line per listed combinator after the five fixed lines; every line determines (by a verified
    parser of the line head) the annotations up to the stable sort by flag, the constructor name, the effective
    tag and the template arguments, and carries the text the implicit tag is the CRC32 of.
    Re-parsing of whole lines by the real parser is the oracle of lib/checks/C25.py. *)
From Coq Require Import Permutation.
From TLV Require Import Canon.CanonModel Canon.CanonProofs Canon.CanonParse.
Open Scope N_scope.

Theorem C25_listing_lines : forall l,
  listing l = builtin_lines ++
    flat_map (fun fc => canon_line (snd fc) ++ s_comment ++ fst fc ++ [ch_nl]) (filter listed l).
Proof. exact listing_lines. Qed.
Print Assumptions C25_listing_lines.

Theorem C25_listing_line_count : forall l,
  (forall f c, In (f, c) l -> wf_comb c = true /\ ~ In ch_nl f) ->
  nl_count (listing l) = (5 + length (filter listed l))%nat.
Proof. exact listing_line_count. Qed.
Print Assumptions C25_listing_line_count.

Theorem C25_line_is_one_line : forall c, wf_comb c = true -> ~ In ch_nl (canon_line c).
Proof. exact canon_line_one_line. Qed.
Print Assumptions C25_line_is_one_line.

(** the head of the line parses back to annotations (sorted), name, stored tag and template arguments *)
Theorem C25_line_head_parses : forall c, wf_comb c = true ->
  parse_head (canon_line c) = Some (mod_sort (c_mods c), c_name c, c_id c, c_targs c, canon_tail c).
Proof. exact parse_head_ok. Qed.
Print Assumptions C25_line_head_parses.

(** the stored tag is the effective tag (explicit, or CRC32 of the canonical form) *)
Theorem C25_line_carries_effective_tag : forall c, parsed_id c = true -> c_id c = tag c.
Proof. exact parsed_id_tag. Qed.
Print Assumptions C25_line_carries_effective_tag.

Theorem C25_line_determines_head : forall c1 c2, wf_comb c1 = true -> wf_comb c2 = true ->
  canon_line c1 = canon_line c2 ->
  mod_sort (c_mods c1) = mod_sort (c_mods c2) /\ c_name c1 = c_name c2 /\ tag c1 = tag c2 /\
  c_targs c1 = c_targs c2 /\ canon c1 = canon c2.
Proof. exact canon_line_head_inj. Qed.
Print Assumptions C25_line_determines_head.

Theorem C25_annotations_kept : forall l, Permutation (mod_sort l) l.
Proof. exact mod_sort_perm. Qed.
Print Assumptions C25_annotations_kept.

Theorem C25_listing_tag_recomputable : forall c, wf_comb c = true -> c_explicit c = false ->
  exists ms nm id ts tail,
    parse_head (canon_line c) = Some (ms, nm, id, ts, tail) /\
    id = crc32 (print_name nm ++ [ch_space] ++
                flat_map (fun x => ta_name x ++ (if ta_isnat x then s_nat_sp else s_type_sp)) ts ++ tail).
Proof. exact listing_tag_recomputable. Qed.
Print Assumptions C25_listing_tag_recomputable.

(** F12: fields and result types are not recoverable from the line *)
Theorem C25_canon_line_refuted :
  exists c1 c2, wf_comb c1 = true /\ wf_comb c2 = true /\
    length (c_fields c1) = 1%nat /\ length (c_fields c2) = 3%nat /\ canon_line c1 = canon_line c2.
Proof. exact canon_line_refuted. Qed.
Print Assumptions C25_canon_line_refuted.

Theorem C25_canon_line_refuted_excl :
  exists c1 c2, wf_comb c1 = true /\ wf_comb c2 = true /\ c1 <> c2 /\
    c_fields c2 = map (set_excl false) (c_fields c1) /\ canon_line c1 = canon_line c2.
Proof. exact canon_line_refuted_excl. Qed.
Print Assumptions C25_canon_line_refuted_excl.

(* the five fixed lines are the listing lines of the builtin types with their CRC32 tags *)
Definition ex_builtin (nm ty : str) : comb :=
  let c := Comb true false [] (Name [] nm) 0 false [] [] (TypeDecl (Name [] ty) []) w_empty_tr in
  Comb true false [] (Name [] nm) (gen_crc c) false [] [] (TypeDecl (Name [] ty) []) w_empty_tr.
Example builtin_lines_are_listing_lines :
  builtin_lines = flat_map (fun c => canon_line c ++ [ch_nl])
    [ex_builtin s_int [73; 110; 116]; ex_builtin s_long [76; 111; 110; 103]; ex_builtin s_float [70; 108; 111; 97; 116];
     ex_builtin s_double [68; 111; 117; 98; 108; 101]; ex_builtin s_string [83; 116; 114; 105; 110; 103]].
Proof. vm_compute. reflexivity. Qed.
(* dictionary#1f4c618f {t:Type} %Vector %DictionaryField t = Dictionary t *)
Example ex_f12_line : canon_line w_dict1 =
  [100;105;99;116;105;111;110;97;114;121;35;49;102;52;99;54;49;56;102;32;123;116;58;84;121;112;101;125;32;
   37;86;101;99;116;111;114;32;37;68;105;99;116;105;111;110;97;114;121;70;105;101;108;100;32;116;32;61;32;
   68;105;99;116;105;111;110;97;114;121;32;116].
Proof. vm_compute. reflexivity. Qed.
Example ex_head : parse_head (canon_line w_dict1) =
  Some ([], Name [] w_str_dictionary, 525099407, [TArg [116] false], canon_tail w_dict1).
Proof. vm_compute. reflexivity. Qed.
