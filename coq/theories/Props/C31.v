(** C31 -- C++ generated serializers agree with the Go serializers.

    Part 1 (whole values, correspondence-level): both the generated Go code (C01, C02) and the
    generated C++ code are tied, by correspondence runs, to the same TL1 model [enc1]/[dec1]
    (TLV.Tl1.Tl1Model; theorems C01_roundtrip, C02_canonical_partial); two implementations that
    agree with the model on an input agree with each other (`corr:C31:cpp`, `rw1` operations).

    Part 2 (the C++ runtime, theorem-level): TLV.Cpp.CppModel transcribes the C++ `basictl`
    runtime (tl_istream / tl_ostream of io_streams.{h,cpp}, the copy tlgen emits) statement by
    statement, including the connector buffer boundaries, the fast and slow paths and the
    out-of-order writes of the fast paths; its constants are regenerated from both copies of the
    C++ source on every run (T-const).  [C31_cpp_primitives_equal_go]: every primitive the
    generator calls reads / writes exactly what the Go primitive ([dec_prim] / [enc_prim], C33)
    does, for every input and every buffer split -- outside two precisely stated input classes
    where C++ genuinely differs, proved as [_refuted] theorems.  `corr:C31:cpp-prim` runs the
    extracted C++ model against the compiled runtime.

    Part 3 (the generated C++ code, theorem-level): TLV.Cpp.CppCodecModel transcribes the read / write
    rules of the C++ generator (field order, field masks, boxed tags, union tag switch, vector count
    without sanity check, std::map dictionaries, tuple length check) over the schema IR, on top of
    the runtime model.  [C31_cpp_codec_equal_go]: the generated reader -- over every split of the
    input, with the sticky error field and bool_read's continue-after-error -- observes a flat
    function of the unread input that is Go's [dec1] with the C++ string reader; C++ reads whatever
    Go reads from inputs below 2^24 bytes; the generated writer appends Go's bytes.
    [C31_cpp_reads_and_rewrites_go_bytes] is the property itself for the model of the C++ side.
    `corr:C31:cpp-codec` runs the extracted [cpp_rw1] against the compiled generated C++. *)
From Coq Require Import List NArith Bool.
From TLV Require Import Prim.PrimModel Prim.PrimProofs Tl1.Tl1Model Build.BuildCpp Cpp.CppModel Cpp.CppProofs Cpp.CppCodecModel Cpp.CppCodecProofs.
Import ListNotations.
Open Scope N_scope.

Theorem C31_agreement_is_transitive : forall (go cpp : impl) fuel san s t bare b,
  agrees go fuel san s t bare b -> agrees cpp fuel san s t bare b -> go b = cpp b.
Proof. exact agree_trans. Qed.
Print Assumptions C31_agreement_is_transitive.

(** the model's own rw1 on bytes its writer produced (C01_roundtrip + C01_strict_weaken) *)
Theorem C31_model_rewrites_written_bytes : forall san s, wf_schema s = true ->
  forall v fuel t bare b rest,
    (vdepth v <= fuel)%nat ->
    enc1 san s t bare [] v = Some b ->
    rw1_model fuel san s t bare (b ++ rest) = RwOk (length b) (Some b).
Proof. exact rw1_model_written. Qed.
Print Assumptions C31_model_rewrites_written_bytes.

(** an implementation (C++ or Go) agreeing with the model on a written value reads it, consumes
    exactly its bytes and writes back identical bytes *)
Theorem C31_written_value_rewritten : forall (f : impl) san s, wf_schema s = true ->
  forall v fuel t bare b rest,
    (vdepth v <= fuel)%nat ->
    enc1 san s t bare [] v = Some b ->
    agrees f fuel san s t bare (b ++ rest) ->
    f (b ++ rest) = RwOk (length b) (Some b).
Proof. exact written_value_rewritten. Qed.
Print Assumptions C31_written_value_rewritten.

(** byte strings one agreeing implementation rejects, the other rejects (same error class) *)
Theorem C31_rejected_by_one_rejected_by_other : forall (go cpp : impl) fuel san s t bare b,
  agrees go fuel san s t bare b -> agrees cpp fuel san s t bare b ->
  (go b = RwEof \/ go b = RwReject) -> cpp b = go b.
Proof. exact rejected_is_rejected. Qed.
Print Assumptions C31_rejected_by_one_rejected_by_other.

(** Non-vacuity on the C01 example schema: the model's rw1 accepts a written value. *)
Definition c31_schema : schema :=
  [ TPrim PNat; TPrim PString;
    TStruct 11 [mkField 0 true None []; mkField 1 true (Some (NField 0, 3)) []] ].
Example C31_ex : rw1_model 10 false c31_schema 2 true [8; 0; 0; 0; 2; 104; 105; 0; 7; 7]
                 = RwOk 8 (Some [8; 0; 0; 0; 2; 104; 105; 0]).
Proof. vm_compute. reflexivity. Qed.

(** * Part 2: the C++ runtime *)

(** Every TL1 primitive as the C++ generator calls it, over a stream split into arbitrary non-empty
    connector buffers ([iwf]/[owf]: no earlier error, no empty buffer before the end):
    (1) reading observes exactly [dec_prim] on the unread input -- value, remaining input, error
        class -- provided the input is not in one of the two classes of [str_input_ok] (a huge-form
        string, a medium-form string of <= 253 bytes) where C++ is proved to differ below;
        [prim_wf]: the two tags of a Bool differ (guaranteed by [wf_schema]);
    (2) writing a value that Go encodes as [enc] appends exactly [enc], whatever garbage the output
        buffers held and wherever they are split, provided there is room for it and a string is at
        most TL_BIG_STRING_LEN bytes ([str_value_ok]); with less room the call fails with EOF;
    (3) a value the C++ parameter type cannot hold has no Go encoding either. *)
Theorem C31_cpp_primitives_equal_go :
  (forall p s, iwf s -> bytes_ok (i_rest s) -> prim_wf p -> str_input_ok p (i_rest s) ->
     iobs (cpp_read_prim p s) = dec_prim p (i_rest s))
  /\ (forall p v enc, enc_prim p v = Some enc -> str_value_ok p v -> forall o, owf o ->
       exists r, cpp_write_prim p v o = Some r /\
                 if o_room o <? lenN enc then ofail r else ospec r o enc)
  /\ (forall p v o, cpp_write_prim p v o = None -> enc_prim p v = None).
Proof. exact (conj cpp_read_prim_eq_go (conj cpp_write_prim_eq_go cpp_write_prim_none)). Qed.
Print Assumptions C31_cpp_primitives_equal_go.

(** observable form of (2): what harness/cpp prints for a write with enough room *)
Theorem C31_cpp_write_observed : forall p v enc o,
  enc_prim p v = Some enc -> str_value_ok p v -> owf o -> lenN enc <= o_room o ->
  match cpp_write_prim p v o with Some r => oobs r | None => None end = Some (o_done o ++ enc).
Proof. exact cpp_write_prim_obs. Qed.
Print Assumptions C31_cpp_write_observed.

(** string_read on EVERY input (no guard): the C++ reader is [cpp_str_flat] of the unread bytes *)
Theorem C31_cpp_string_read_all_inputs : forall s, iwf s -> bytes_ok (i_rest s) ->
  iobs (cpp_read_prim PString s) = match cpp_str_flat (i_rest s) with
                                   | Ok (b, r) => Ok (VStr b, r) | Eof => Eof | Reject => Reject end.
Proof. exact cpp_read_string_general. Qed.
Print Assumptions C31_cpp_string_read_all_inputs.

(** ... and [cpp_str_flat] is Go's StringRead except on the two classes *)
Theorem C31_cpp_string_read_vs_go : forall r, bytes_ok r ->
  str_huge_form r = false -> str_medium_noncanonical r = false -> cpp_str_flat r = str1_r r.
Proof. exact cpp_str_flat_eq_go. Qed.
Print Assumptions C31_cpp_string_read_vs_go.

(** F32: "C++ rejects every byte string Go rejects" is FALSE: the medium form with a length that fits
    the tiny form is rejected by Go and read by C++ (exact behaviour: the body is read as usual) *)
Theorem C31_cpp_rejects_what_go_rejects_refuted :
  exists r v rest, bytes_ok r /\ str1_r r = Reject /\ cpp_str_flat r = Ok (v, rest).
Proof. exact cpp_string_read_accepts_noncanonical_refuted. Qed.
Print Assumptions C31_cpp_rejects_what_go_rejects_refuted.

Theorem C31_cpp_medium_noncanonical_exact : forall x1 x2 x3 r4,
  le_val [x1; x2; x3] <= tinyStringLen ->
  str1_r (mediumStringMarker :: x1 :: x2 :: x3 :: r4) = Reject /\
  cpp_str_flat (mediumStringMarker :: x1 :: x2 :: x3 :: r4)
  = str1_body (le_val [x1; x2; x3]) (le_val [x1; x2; x3]) r4.
Proof. exact cpp_str_flat_medium_noncanonical. Qed.
Print Assumptions C31_cpp_medium_noncanonical_exact.

(** "C++ reads the bytes Go wrote" is FALSE for strings of 2^24 .. 2^56-1 bytes: Go writes and reads
    back the huge form, C++ answers sequence_length for every input starting with 0xff ... *)
Theorem C31_cpp_reads_what_go_writes_refuted :
  (exists s : bytes, maxMediumStringLen < lenN s <= maxHugeStringLen) /\
  (forall s rest, maxMediumStringLen < lenN s <= maxHugeStringLen ->
     exists b, str1_w s = Some b /\ str1_r (b ++ rest) = Ok (s, rest) /\ cpp_str_flat (b ++ rest) = Reject).
Proof. exact (conj huge_string_exists cpp_string_read_rejects_huge_refuted). Qed.
Print Assumptions C31_cpp_reads_what_go_writes_refuted.

(** ... and the C++ writer refuses them *)
Theorem C31_cpp_writes_what_go_writes_refuted : exists value, forall o, o_err o = None ->
  str1_w value <> None /\ oobs (cpp_string_write value o) = None.
Proof. exact cpp_string_write_refuses_huge_refuted. Qed.
Print Assumptions C31_cpp_writes_what_go_writes_refuted.

(** T-const: pkg/basictl_cpp and the copy embedded in internal/tlcodegen/helpers_cpp_generated.go carry
    the same constants and literals; the C++ limits are Go's tiny / medium limits *)
Theorem C31_cpp_runtime_copies_agree :
  pkg_TL_MAX_TINY_STRING_LEN = cpp_TL_MAX_TINY_STRING_LEN /\ pkg_TL_BIG_STRING_LEN = cpp_TL_BIG_STRING_LEN
  /\ pkg_TL_BIG_STRING_MARKER = cpp_TL_BIG_STRING_MARKER
  /\ cpp_TL_MAX_TINY_STRING_LEN = tinyStringLen /\ cpp_TL_BIG_STRING_LEN = maxMediumStringLen
  /\ cpp_TL_BIG_STRING_MARKER = mediumStringMarker.
Proof. repeat split. Qed.
Print Assumptions C31_cpp_runtime_copies_agree.

Theorem C31_cpp_runtime_copies_agree_all : (* every extracted literal and comparison operator, both copies *)
  [pkg_TL_MAX_TINY_STRING_LEN; pkg_TL_BIG_STRING_LEN; pkg_TL_BIG_STRING_MARKER; pkg_TL_INT32_SIZE; pkg_TL_UINT32_SIZE;
   pkg_TL_INT64_SIZE; pkg_TL_FLOAT32_SIZE; pkg_TL_FLOAT64_SIZE; pkg_nat_read_size; pkg_int_read_size; pkg_long_read_size;
   pkg_float_read_size; pkg_double_read_size; pkg_nat_write_size; pkg_int_write_size; pkg_long_write_size;
   pkg_float_write_size; pkg_double_write_size; pkg_sr_len_shift; pkg_sr_pad_mask; pkg_sr_len_byte; pkg_sr_word;
   pkg_sr_ones; pkg_sr_byte_bits; pkg_sw_len_shift; pkg_sw_pad_mask; pkg_sw_hdr_size; pkg_sw_tiny_hdr_size;
   pkg_sw_len_byte; pkg_sw_word; pkg_fp_word_init; pkg_sr_cmp_big; pkg_sr_cmp_huge; pkg_sr_cmp_fit; pkg_sr_cmp_pad;
   pkg_sw_cmp_tiny; pkg_sw_cmp_big; pkg_sw_cmp_fit; pkg_fp_cmp]
  = [cpp_TL_MAX_TINY_STRING_LEN; cpp_TL_BIG_STRING_LEN; cpp_TL_BIG_STRING_MARKER; cpp_TL_INT32_SIZE; cpp_TL_UINT32_SIZE;
     cpp_TL_INT64_SIZE; cpp_TL_FLOAT32_SIZE; cpp_TL_FLOAT64_SIZE; cpp_nat_read_size; cpp_int_read_size; cpp_long_read_size;
     cpp_float_read_size; cpp_double_read_size; cpp_nat_write_size; cpp_int_write_size; cpp_long_write_size;
     cpp_float_write_size; cpp_double_write_size; cpp_sr_len_shift; cpp_sr_pad_mask; cpp_sr_len_byte; cpp_sr_word;
     cpp_sr_ones; cpp_sr_byte_bits; cpp_sw_len_shift; cpp_sw_pad_mask; cpp_sw_hdr_size; cpp_sw_tiny_hdr_size;
     cpp_sw_len_byte; cpp_sw_word; cpp_fp_word_init; cpp_sr_cmp_big; cpp_sr_cmp_huge; cpp_sr_cmp_fit; cpp_sr_cmp_pad;
     cpp_sw_cmp_tiny; cpp_sw_cmp_big; cpp_sw_cmp_fit; cpp_fp_cmp].
Proof. exact cpp_runtime_copies_agree. Qed.

(** Non-vacuity.  The streams the harness builds satisfy the hypotheses ... *)
Example C31_cpp_ex_wf : iwf (istream_chunked 3 [2; 104; 105; 0; 7]) /\ i_rest (istream_chunked 3 [2; 104; 105; 0; 7]) = [2; 104; 105; 0; 7].
Proof. exact (istream_chunked_wf 3 [2; 104; 105; 0; 7]). Qed.
(** ... a tiny string split over two buffers is read through the slow path, the same bytes in one
    buffer through the fast path, with the same result ... *)
Example C31_cpp_ex_read_slow : iobs (cpp_read_prim PString (istream_chunked 3 [2; 104; 105; 0; 7])) = Ok (VStr [104; 105], [7]).
Proof. vm_compute. reflexivity. Qed.
Example C31_cpp_ex_read_fast : iobs (cpp_read_prim PString (istream_chunked 0 [2; 104; 105; 0; 7])) = Ok (VStr [104; 105], [7]).
Proof. vm_compute. reflexivity. Qed.
(** ... bad padding is rejected on both paths, truncation is eof ... *)
Example C31_cpp_ex_read_badpad : iobs (cpp_read_prim PString (istream_chunked 0 [2; 104; 105; 1; 7])) = Reject
                              /\ iobs (cpp_read_prim PString (istream_chunked 2 [2; 104; 105; 1; 7])) = Reject
                              /\ iobs (cpp_read_prim PString (istream_chunked 2 [2; 104; 105])) = Eof.
Proof. vm_compute. auto. Qed.
(** ... the F32 witness, on the stream level ... *)
Example C31_cpp_ex_f32 : iobs (cpp_read_prim PString (istream_chunked 0 [254; 1; 0; 0; 65; 0; 0; 0])) = Ok (VStr [65], [])
                       /\ dec_prim PString [254; 1; 0; 0; 65; 0; 0; 0] = Reject.
Proof. vm_compute. auto. Qed.
(** ... and a write through three garbage-filled buffers of 1, 2 and 5 bytes (slow path), and through
    one buffer (fast path: padding word first, then length, then content) gives Go's bytes. *)
Example C31_cpp_ex_write :
  oobs (cpp_string_write [104; 105] (mkO [] [] [[170]; [170; 170]; [170; 170; 170; 170; 170]] None)) = Some [2; 104; 105; 0]
  /\ oobs (cpp_string_write [104; 105] (mkO [9] [170; 170; 170; 170; 170] [] None)) = Some [9; 2; 104; 105; 0]
  /\ enc_prim PString (VStr [104; 105]) = Some [2; 104; 105; 0]
  /\ oobs (cpp_string_write [104; 105] (mkO [] [170; 170; 170] [] None)) = None.
Proof. vm_compute. auto. Qed.

(** * Part 3: the generated C++ code *)

(** (1) whatever the Go reader (no length sanity: the C++ side has none, F31) accepts from an input of
        at most 2^24-1 bytes, the generated C++ reader accepts: same value, same unread rest, no error,
        however the input is split into buffers;
    (2) on EVERY input the generated C++ reader, if it terminates within the fuel, observes exactly
        [gdec1 cpp_prim_flat] of the unread bytes (value, rest, error class) ...
    (3) ... it does terminate whenever that function accepts or hits eof, and
    (4) [gdec1] with Go's primitive reader IS Go's [dec1]: the only difference between the two sides is the
        string reader, characterised in Part 2;
    (5) the generated writer, for a value Go encodes as [enc] whose strings are at most TL_BIG_STRING_LEN
        long, appends exactly [enc] (EOF when the connector has less room). *)
Theorem C31_cpp_codec_equal_go : forall s, wf_schema s = true ->
  (forall fuel t bare ps st v rest, iwfb st -> lenN (i_rest st) <= maxMediumStringLen ->
     dec1 fuel false s t bare ps (i_rest st) = Some (Ok (v, rest)) ->
     exists st', cpp_dec1 fuel s t bare ps st = Some (true, v, st') /\ iwf st' /\ i_rest st' = rest)
  /\ (forall fuel t bare ps st r f, iwfb st -> cpp_dec1 fuel s t bare ps st = Some r ->
       gdec1 cpp_prim_flat fuel s t bare ps (i_rest st) = Some f -> iobs r = f)
  /\ (forall fuel t bare ps st f, iwfb st ->
       gdec1 cpp_prim_flat fuel s t bare ps (i_rest st) = Some f -> f <> Reject ->
       exists r, cpp_dec1 fuel s t bare ps st = Some r)
  /\ (forall fuel t bare ps b, gdec1 dec_prim fuel s t bare ps b = dec1 fuel false s t bare ps b)
  /\ (forall v t bare ps enc, enc1 false s t bare ps v = Some enc -> strs_short v = true ->
       forall o, owf o -> exists r, cpp_enc1 s t bare ps v o = Some r /\
                                    if o_room o <? lenN enc then ofail r else ospec r o enc).
Proof.
  intros s Hwf. split; [exact (cpp_reads_what_go_reads s Hwf)|]. split; [exact (cpp_dec1_observes s Hwf)|].
  split; [exact (cpp_dec1_defined s Hwf)|]. split; [exact (gdec1_go s)|]. exact (cpp_enc1_spec s).
Qed.
Print Assumptions C31_cpp_codec_equal_go.

(** the property, for the model of the C++ side: the bytes the Go writer produced for a value (followed by
    anything), fed to what harness/cpp/driver.cpp does (`rw1`: read a fresh object, write it back), are
    consumed exactly and written back identically -- for inputs below 2^24 bytes *)
Theorem C31_cpp_reads_and_rewrites_go_bytes : forall s, wf_schema s = true ->
  forall v fuel t bare b rest,
    (vdepth v <= fuel)%nat ->
    enc1 false s t bare [] v = Some b ->
    bytes_ok (b ++ rest) -> lenN (b ++ rest) <= maxMediumStringLen -> strs_short v = true ->
    cpp_rw1 fuel s t bare (b ++ rest) = CRwOk (length b) (Some b).
Proof. exact cpp_rw1_written. Qed.
Print Assumptions C31_cpp_reads_and_rewrites_go_bytes.

(** "the generated C++ code rejects what Go rejects" is FALSE (F32 through a struct field) *)
Theorem C31_cpp_codec_rejects_what_go_rejects_refuted :
  exists s t b, wf_schema s = true /\ bytes_ok b /\
    dec1 5 false s t true [] b = Some Reject /\
    (exists v st', cpp_dec1 5 s t true [] (istream_of b) = Some (true, v, st') /\ i_err st' = None).
Proof. exact cpp_codec_accepts_what_go_rejects_refuted. Qed.
Print Assumptions C31_cpp_codec_rejects_what_go_rejects_refuted.

(** a failing generated reader has always recorded an error: `return s.set_error_unknown_scenario()` after it
    (emitted for struct / union typed fields) cannot be observed *)
Theorem C31_cpp_failure_has_error : forall s fuel t bare ps st v st',
  cpp_dec1 fuel s t bare ps st = Some (false, v, st') -> i_err st' <> None /\ i_set_error E_UNKNOWN st' = st'.
Proof.
  intros s fuel t bare ps st v st' H. split; [exact (cpp_fail_has_error s fuel t bare ps st v st' H)|].
  exact (set_error_unknown_scenario_is_noop s fuel t bare ps st v st' H).
Qed.
Print Assumptions C31_cpp_failure_has_error.

(** Non-vacuity on the C01 example schema: [cpp_rw1] accepts a written value (mask bit 3 set: the string field
    is present), reads a foreign Bool tag with bool_read's return-true-but-error and still answers reject. *)
Example C31_cpp_codec_ex : cpp_rw1 10 c31_schema 2 true [8; 0; 0; 0; 2; 104; 105; 0; 7; 7]
                           = CRwOk 8 (Some [8; 0; 0; 0; 2; 104; 105; 0]).
Proof. vm_compute. reflexivity. Qed.
Example C31_cpp_codec_ex_hyp : enc1 false c31_schema 2 true [] (VStruct [Some (VNum 8); Some (VStr [104; 105])]) = Some [8; 0; 0; 0; 2; 104; 105; 0]
                               /\ wf_schema c31_schema = true /\ strs_short (VStruct [Some (VNum 8); Some (VStr [104; 105])]) = true.
Proof. vm_compute. auto. Qed.
Definition c31_bool_schema : schema := [ TPrim (PBool 5 7); TPrim PNat; TStruct 11 [mkField 0 true None []; mkField 1 true None []] ].
Example C31_cpp_codec_ex_bool :
  cpp_dec1 5 c31_bool_schema 2 true [] (istream_of [9; 0; 0; 0; 1; 0; 0; 0])
    = Some (true, VStruct [Some (VBool false); Some (VNum 1)], mkI [] [] (Some E_TAG))
  /\ cpp_rw1 5 c31_bool_schema 2 true [9; 0; 0; 0; 1; 0; 0; 0] = CRwReject
  /\ dec1 5 false c31_bool_schema 2 true [] [9; 0; 0; 0; 1; 0; 0; 0] = Some Reject.
Proof. vm_compute. auto. Qed.
