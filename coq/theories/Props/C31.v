(** C31 -- C++ generated serializers agree with the Go serializers.

    NO new theorem about the codecs: both the generated Go code (C01, C02) and the generated C++
    code are tied, by correspondence runs, to the same TL1 model [enc1]/[dec1]
    (TLV.Tl1.Tl1Model; theorems C01_roundtrip, C02_canonical_partial).  This file only restates
    the consequence used by lib/checks/C31.py: two implementations that agree with the model on
    an input agree with each other, and on the bytes written for a value they consume exactly
    those bytes and write them back identically.  The check is correspondence-level:
    `corr:C31:cpp` compares model / Go / C++ on the same `rw1` operations. *)
From Coq Require Import List NArith Bool.
From TLV Require Import Prim.PrimModel Tl1.Tl1Model Build.BuildCpp.
Import ListNotations.
Open Scope N_scope.

Theorem C31_agreement_is_transitive : forall (go cpp : impl) fuel san s t bare b,
  agrees go fuel san s t bare b -> agrees cpp fuel san s t bare b -> go b = cpp b.
Proof. exact agree_trans. Qed.
Print Assumptions C31_agreement_is_transitive.

(** the model's own rw1 on bytes its writer produced (C01_roundtrip + C01_strict_weaken) *)
Theorem C31_model_rewrites_written_bytes : forall san s, wf_schema s = true ->
  forall v fuel t bare b rest,
    (vdepth v <= fuel)%nat ->
    enc1 san s t bare [] v = Some b ->
    rw1_model fuel san s t bare (b ++ rest) = RwOk (length b) (Some b).
Proof. exact rw1_model_written. Qed.
Print Assumptions C31_model_rewrites_written_bytes.

(** an implementation (C++ or Go) agreeing with the model on a written value reads it, consumes
    exactly its bytes and writes back identical bytes *)
Theorem C31_written_value_rewritten : forall (f : impl) san s, wf_schema s = true ->
  forall v fuel t bare b rest,
    (vdepth v <= fuel)%nat ->
    enc1 san s t bare [] v = Some b ->
    agrees f fuel san s t bare (b ++ rest) ->
    f (b ++ rest) = RwOk (length b) (Some b).
Proof. exact written_value_rewritten. Qed.
Print Assumptions C31_written_value_rewritten.

(** byte strings one agreeing implementation rejects, the other rejects (same error class) *)
Theorem C31_rejected_by_one_rejected_by_other : forall (go cpp : impl) fuel san s t bare b,
  agrees go fuel san s t bare b -> agrees cpp fuel san s t bare b ->
  (go b = RwEof \/ go b = RwReject) -> cpp b = go b.
Proof. exact rejected_is_rejected. Qed.
Print Assumptions C31_rejected_by_one_rejected_by_other.

(** Non-vacuity on the C01 example schema: the model's rw1 accepts a written value. *)
Definition c31_schema : schema :=
  [ TPrim PNat; TPrim PString;
    TStruct 11 [mkField 0 true None []; mkField 1 true (Some (NField 0, 3)) []] ].
Example C31_ex : rw1_model 10 false c31_schema 2 true [8; 0; 0; 0; 2; 104; 105; 0; 7; 7]
                 = RwOk 8 (Some [8; 0; 0; 0; 2; 104; 105; 0]).
Proof. vm_compute. reflexivity. Qed.
