(** C12 -- generated code agrees with the dynamic interpreter.  Property theorems only.
    The claim is correspondence-level: both implementations (freshly generated Go code; the interpreter
    internal/pure/onthefly driven through an add-only overlay harness) are compared on every input with the
    same executable model ([dec1]/[enc1] of Tl1/Tl1Model.v, family tl1) and with each other.  The model-level
    content is C01's round trip; the first part of this file states what the two correspondences give together.

    Second part (family ofly): the interpreter has its OWN model, Ofly/OflyModel.v ([ocreate], [oread], [owrite]:
    CreateValue, ReadTL1, WriteTL1 of internal/pure/onthefly transcribed with their in-place values, the
    nat-argument stack, RepairMasks, sort()/compact of dictionaries), and the theorems below relate that model to
    the model of the generated code for EVERY schema IR the interpreter can follow -- not by transitivity through
    runs.  The correspondence run of lib/checks/C12.py ties [oread]/[owrite] to the real interpreter. *)
From TLV Require Import Prim.PrimModel Tl1.Tl1Model Tl1.Tl1Proofs Ofly.OflyModel Ofly.OflyProofs.
Open Scope N_scope.

(** what the `rw1` operation observes: verdict, consumed length, re-written bytes *)
Inductive outcome :=
| OutOk (consumed : nat) (rewritten : option bytes)
| OutEof
| OutReject
| OutFuel.

Definition rw1_model (fuel : nat) (san : bool) (s : schema) (t : nat) (bare : bool) (b : bytes) : outcome :=
  match dec1 fuel san s t bare [] b with
  | Some (Ok (v, rest)) => OutOk (length b - length rest) (enc1 false s t bare [] v)
  | Some Eof => OutEof
  | Some Reject => OutReject
  | None => OutFuel
  end.

(** two implementations that each agree with the model on an input agree with each other on it *)
Theorem C12_agree_through_model : forall (gen interp : bytes -> outcome) fuel san s t bare b,
  gen b = rw1_model fuel san s t bare b -> interp b = rw1_model fuel san s t bare b -> gen b = interp b.
Proof. intros gen interp fuel san s t bare b H1 H2. now rewrite H1, H2. Qed.
Print Assumptions C12_agree_through_model.

(** C01's round trip, re-exported: what the strict writer produces is read back to the same value *)
Theorem C12_C01_roundtrip : forall san s, wf_schema s = true ->
  forall v fuel t bare ps b rest,
    (vdepth v <= fuel)%nat ->
    enc1 san s t bare ps v = Some b ->
    dec1 fuel san s t bare ps (b ++ rest) = Some (Ok (v, rest)).
Proof. intros san s Hwf v fuel t bare ps b rest Hd H. exact (enc1_dec1 san s Hwf v fuel Hd t bare ps b rest H). Qed.
Print Assumptions C12_C01_roundtrip.

(** hence on every valid encoding the model's observation is "ok, everything consumed, the same bytes again":
    an implementation agreeing with the model reproduces the input *)
Theorem C12_valid_input_reproduced : forall s, wf_schema s = true ->
  forall v fuel t bare b, (vdepth v <= fuel)%nat -> enc1 false s t bare [] v = Some b ->
  rw1_model fuel false s t bare b = OutOk (length b) (Some b).
Proof.
  intros s Hwf v fuel t bare b Hd H. unfold rw1_model.
  assert (R := enc1_dec1 false s Hwf v fuel Hd t bare [] b [] H). rewrite app_nil_r in R. rewrite R.
  cbn [length]. rewrite Nat.sub_0_r, H. reflexivity.
Qed.
Print Assumptions C12_valid_input_reproduced.

Example ex_outcome :
  rw1_model 5 true [TPrim PNat; TStruct 7 [mkField 0 true None []]] 1 false [7;0;0;0; 9;0;0;0] = OutOk 8 (Some [7;0;0;0; 9;0;0;0]).
Proof. vm_compute. reflexivity. Qed.

(** * The interpreter's own model against the generated code's model (family ofly) *)

(** READER, instances that do not reach a dictionary ([df] flags such instances; [df_ok] checks that a flagged instance
    is no dictionary and refers to flagged instances only).  For every well-formed schema IR [s] the interpreter can follow
    ([ofly_ok]: unions referenced boxed, brackets bare, nat-argument counts and indices consistent with
    len(NatParams()) [np], field references point to `#` fields) in which CreateValue terminates ([create_total]),
    every instance [t], every nat-argument stack [st ++ ps] whose top [ps] are the instance's own arguments, every
    byte string and every fuel: ReadTL1 on the fresh value CreateValue(t) never panics and returns exactly what the
    generated reader without the length-sanity check returns at the same fuel -- same verdict (ok / unexpected EOF /
    error / out of fuel), same wire value, same rest of the input; the value left behind is well typed and the
    returned nat-argument stack still starts with the caller's stack. *)
Theorem C12_interpreter_reader_equals_generated : forall s np cf df,
  wf_schema s = true -> ofly_ok s np = true -> create_total cf s = true -> df_ok s df = true ->
  forall fuel t bare st ps v0 b,
    dfree df t = true -> ref_ok s t bare = true -> length ps = nparams np t -> ocreate cf s t = Some v0 ->
    oread fuel cf s np t bare (st ++ ps) v0 b <> Some OPanic /\
    oview (oread fuel cf s np t bare (st ++ ps) v0 b) = dec1 fuel false s t bare ps b /\
    (forall k r na, oread fuel cf s np t bare (st ++ ps) v0 b = Some (OOk (k, r, na)) ->
                    ktyped s t k = true /\ firstn (length (st ++ ps)) na = st ++ ps /\ (kdepth k <= fuel)%nat).
Proof. exact ofly_read_exact. Qed.
Print Assumptions C12_interpreter_reader_equals_generated.

(** READER, every schema (dictionaries included): the two accept the same byte strings -- same verdict, same rest,
    same fuel, no panic -- and the values agree everywhere outside arrays/dictionaries ([vsim]). *)
Theorem C12_interpreter_reader_same_verdict : forall s np cf,
  wf_schema s = true -> ofly_ok s np = true -> create_total cf s = true ->
  forall fuel t bare st ps v0 b,
    ref_ok s t bare = true -> length ps = nparams np t -> ocreate cf s t = Some v0 ->
    oread fuel cf s np t bare (st ++ ps) v0 b <> Some OPanic /\
    overdict (oread fuel cf s np t bare (st ++ ps) v0 b) = dverdict (dec1 fuel false s t bare ps b) /\
    (forall k r na v r', oread fuel cf s np t bare (st ++ ps) v0 b = Some (OOk (k, r, na)) ->
                         dec1 fuel false s t bare ps b = Some (Ok (v, r')) ->
                         vsim (kabs k) v /\ ktyped s t k = true).
Proof. exact ofly_read_verdict. Qed.
Print Assumptions C12_interpreter_reader_same_verdict.

(** The full statement (same VALUE for every schema) is false of the faithful models: on a duplicate dictionary key
    the generated reader keeps the LAST entry (Go map assignment), the interpreter keeps the FIRST (stable sort, then
    CompactFunc).  Witness: dictionary int -> int, wire = count 2, (5 -> 1), (5 -> 2).  Replayed on the real code:
    generated `rw1 .. cases.testDictInt 0 0200000005000000010000000500000002000000` -> ok 20 010000000500000002000000,
    interpreter -> ok 20 010000000500000001000000. *)
Definition dup_schema : schema :=
  [TPrim PInt; TStruct 7 [mkField 0 true None []; mkField 0 true None []]; TDict PInt (mkField 1 true None [])].
Definition dup_input : bytes := [2;0;0;0; 5;0;0;0; 1;0;0;0; 5;0;0;0; 2;0;0;0].

Theorem C12_interpreter_reader_dict_duplicate_key_refuted :
  exists s np cf fuel t bare v0 b,
    wf_schema s = true /\ ofly_ok s np = true /\ create_total cf s = true /\ ref_ok s t bare = true /\
    ocreate cf s t = Some v0 /\
    oview (oread fuel cf s np t bare [] v0 b) = Some (Ok (VArr [VStruct [Some (VNum 5); Some (VNum 1)]], [])) /\
    dec1 fuel false s t bare [] b = Some (Ok (VArr [VStruct [Some (VNum 5); Some (VNum 2)]], [])).
Proof.
  exists dup_schema, [0; 0; 0]%nat, 4%nat, 5%nat, 2%nat, true, (KDict []), dup_input.
  vm_compute. repeat split; reflexivity.
Qed.
Print Assumptions C12_interpreter_reader_dict_duplicate_key_refuted.

(** All of the above is about the use C12 speaks of: ReadTL1 on a FRESH value from CreateValue.  (What ReadTL1 does to a
    value that was read into before is outside this property; see the side observation
    [Ofly_reader_reused_value_differs_observation] in Ofly/OflyProofs.v.) *)

(** WRITER.  For every schema the interpreter can follow, every well-typed interpreter value [k] (the shape
    CreateValue / ReadTL1 produce) of nesting depth within the fuel: whenever the generated writer accepts the wire
    value held by [k] and writes [b], the interpreter's WriteTL1 writes exactly [b] (no panic, no RepairMasks
    change), dictionaries included (a strictly sorted dictionary is left alone by sort()). *)
Theorem C12_interpreter_writer_equals_generated : forall s np cf,
  ofly_ok s np = true ->
  forall fuel t bare st ps k b,
    ktyped s t k = true -> (kdepth k <= fuel)%nat -> length ps = nparams np t ->
    enc1 false s t bare ps (kabs k) = Some b ->
    exists na', owrite fuel cf s np t bare (st ++ ps) k = Some (OOk (b, na')) /\ pre_ok st ps na'.
Proof. intros s np cf Hok fuel. exact (owrite_sim s np cf Hok fuel). Qed.
Print Assumptions C12_interpreter_writer_equals_generated.

(** WHAT THE CORRESPONDENCE RUN OBSERVES (`rw1`: CreateValue, ReadTL1, WriteTL1 of what was read), top-level
    instances that do not reach a dictionary: the interpreter's observation is the observation [rw1_model] of the generated
    code without the length-sanity check -- same verdict, same consumed length, same re-written bytes.  Where the
    generated writer refuses the value it has just read (never seen on a run), the interpreter still consumed the same. *)
Theorem C12_interpreter_rw1_equals_generated : forall s np cf df,
  wf_schema s = true -> ofly_ok s np = true -> create_total cf s = true -> df_ok s df = true ->
  forall fuel t bare b, dfree df t = true -> ref_ok s t bare = true -> nparams np t = 0%nat ->
    match rw1_model fuel false s t bare b with
    | OutOk n (Some w) => orw1 fuel cf s np t bare b = ObsOk n (Some w)
    | OutOk n None => exists r, orw1 fuel cf s np t bare b = ObsOk n r
    | OutEof => orw1 fuel cf s np t bare b = ObsEof
    | OutReject => orw1 fuel cf s np t bare b = ObsReject
    | OutFuel => orw1 fuel cf s np t bare b = ObsFuel
    end.
Proof.
  intros s np cf df Hwf Hok Hct Hdf fuel t bare b Hdt Href Hnp.
  pose proof (ofly_rw1_exact s np cf df Hwf Hok Hct Hdf fuel t bare b Hdt Href Hnp) as H.
  unfold rw1_model. destruct (dec1 fuel false s t bare [] b) as [[[v rest]| |]|]; exact H.
Qed.
Print Assumptions C12_interpreter_rw1_equals_generated.

(** non-vacuity: a schema with a field mask, an external nat argument, a union and a tuple satisfies every
    hypothesis; the interpreter model reads and re-writes a value of it, and agrees with the generated model *)
Definition ex_schema : schema :=
  [ TPrim PNat;                                                           (* 0: # *)
    TPrim PString;                                                        (* 1: string *)
    TArray ATupleDyn (mkField 1 true None []);                            (* 2: n*[string], one nat parameter *)
    TStruct 11 [mkField 0 true None []; mkField 1 true (Some (NField 0, 1)) []; mkField 2 true None [NField 0]];   (* 3 *)
    TStruct 21 [];                                                        (* 4: variant a *)
    TStruct 22 [mkField 3 true None []];                                  (* 5: variant b *)
    TUnion [4%nat; 5%nat] ].                                                      (* 6 *)
Definition ex_np : list nat := [0; 0; 1; 0; 0; 0; 0]%nat.
Definition ex_bytes : bytes := [22;0;0;0; 2;0;0;0; 1;97;0;0; 1;98;0;0; 1;99;0;0].

Definition ex_df : list bool := [true; true; true; true; true; true; true].

Example ex_ofly_hypotheses :
  wf_schema ex_schema = true /\ ofly_ok ex_schema ex_np = true /\ create_total 8 ex_schema = true /\
  df_ok ex_schema ex_df = true /\ dfree ex_df 6 = true /\ ref_ok ex_schema 6 false = true /\
  (* a dictionary cannot be flagged: *) df_ok dup_schema [true; true; true] = false /\ df_ok dup_schema [true; true; false] = true.
Proof. vm_compute. repeat split; reflexivity. Qed.

Example ex_ofly_rw1 :
  orw1 9 8 ex_schema ex_np 6 false ex_bytes = ObsOk 20 (Some ex_bytes) /\
  rw1_model 9 false ex_schema 6 false ex_bytes = OutOk 20 (Some ex_bytes).
Proof. vm_compute. split; reflexivity. Qed.

Example ex_ofly_agrees :
  match ocreate 8 ex_schema 6 with
  | Some v0 => oview (oread 9 8 ex_schema ex_np 6 false [] v0 ex_bytes) = dec1 9 false ex_schema 6 false [] ex_bytes
               /\ exists v r, dec1 9 false ex_schema 6 false [] ex_bytes = Some (Ok (v, r))
  | None => False
  end.
Proof. vm_compute. split; [reflexivity|]. eexists; eexists; reflexivity. Qed.

(** the interpreter model does panic outside [ofly_ok]: a bare reference to a union *)
Example ex_ofly_bare_union_panics :
  orw1 9 8 ex_schema ex_np 6 true ex_bytes = ObsPanic /\ ref_ok ex_schema 6 true = false.
Proof. vm_compute. split; reflexivity. Qed.
