(** C12 -- generated code agrees with the dynamic interpreter.  Property theorems only.
    The claim is correspondence-level: both implementations (freshly generated Go code; the interpreter
    internal/pure/onthefly driven through an add-only overlay harness) are compared on every input with the
    same executable model ([dec1]/[enc1] of Tl1/Tl1Model.v, family tl1) and with each other.  The model-level
    content is C01's round trip; this file states what the two correspondences give together. *)
From TLV Require Import Prim.PrimModel Tl1.Tl1Model Tl1.Tl1Proofs.
Open Scope N_scope.

(** what the `rw1` operation observes: verdict, consumed length, re-written bytes *)
Inductive outcome :=
| OutOk (consumed : nat) (rewritten : option bytes)
| OutEof
| OutReject
| OutFuel.

Definition rw1_model (fuel : nat) (san : bool) (s : schema) (t : nat) (bare : bool) (b : bytes) : outcome :=
  match dec1 fuel san s t bare [] b with
  | Some (Ok (v, rest)) => OutOk (length b - length rest) (enc1 false s t bare [] v)
  | Some Eof => OutEof
  | Some Reject => OutReject
  | None => OutFuel
  end.

(** two implementations that each agree with the model on an input agree with each other on it *)
Theorem C12_agree_through_model : forall (gen interp : bytes -> outcome) fuel san s t bare b,
  gen b = rw1_model fuel san s t bare b -> interp b = rw1_model fuel san s t bare b -> gen b = interp b.
Proof. intros gen interp fuel san s t bare b H1 H2. now rewrite H1, H2. Qed.
Print Assumptions C12_agree_through_model.

(** C01's round trip, re-exported: what the strict writer produces is read back to the same value *)
Theorem C12_C01_roundtrip : forall san s, wf_schema s = true ->
  forall v fuel t bare ps b rest,
    (vdepth v <= fuel)%nat ->
    enc1 san s t bare ps v = Some b ->
    dec1 fuel san s t bare ps (b ++ rest) = Some (Ok (v, rest)).
Proof. intros san s Hwf v fuel t bare ps b rest Hd H. exact (enc1_dec1 san s Hwf v fuel Hd t bare ps b rest H). Qed.
Print Assumptions C12_C01_roundtrip.

(** hence on every valid encoding the model's observation is "ok, everything consumed, the same bytes again":
    an implementation agreeing with the model reproduces the input *)
Theorem C12_valid_input_reproduced : forall s, wf_schema s = true ->
  forall v fuel t bare b, (vdepth v <= fuel)%nat -> enc1 false s t bare [] v = Some b ->
  rw1_model fuel false s t bare b = OutOk (length b) (Some b).
Proof.
  intros s Hwf v fuel t bare b Hd H. unfold rw1_model.
  assert (R := enc1_dec1 false s Hwf v fuel Hd t bare [] b [] H). rewrite app_nil_r in R. rewrite R.
  cbn [length]. rewrite Nat.sub_0_r, H. reflexivity.
Qed.
Print Assumptions C12_valid_input_reproduced.

Example ex_outcome :
  rw1_model 5 true [TPrim PNat; TStruct 7 [mkField 0 true None []]] 1 false [7;0;0;0; 9;0;0;0] = OutOk 8 (Some [7;0;0;0; 9;0;0;0]).
Proof. vm_compute. reflexivity. Qed.
