(** M [Fmt2Lex] -- what the theorems of C22 need of the reading side (internal/tlast/tllexer.go with
    LexerLanguage = TL2, tlparser_tl2_code.go):
      - [tok], [lex2]      the significant tokens of the TL2 lexer (generateTokens + validateTokens, minus the
                           whiteSpace / tab / newLine / comment / eof tokens every parser function skips with skipWS);
                           [None] = the lexer (or validateTokens) reports an error
      - [parse_ty]         parseTL2Type / parseTL2TypeApplication / parseTL2BracketType / parseTL2TypeArgument on the
                           significant tokens (OptionalState: omitted / failed / progress)
      - [toks_*]           the token stream a printed AST is expected to lex to ([bar]: whether the first union
                           variant carries its leading '|', which the printer decides from the layout)
    Executable definitions only; proofs live in Fmt2Proofs.v.  Positions are not modelled. *)
From TLV Require Export Fmt2.Fmt2Model.
Open Scope N_scope.

(** ** character classes (tllexer.go) *)
Definition lowerCase (c : N) : bool := (97 <=? c) && (c <=? 122).
Definition upperCase (c : N) : bool := (65 <=? c) && (c <=? 90).
Definition digit (c : N) : bool := (48 <=? c) && (c <=? 57).
Definition letter (c : N) : bool := lowerCase c || upperCase c.
Definition identChar (c : N) : bool := letter c || digit c || (c =? 95).
Definition hexChar (c : N) : bool := digit c || ((97 <=? c) && (c <=? 102)).

Fixpoint span (p : N -> bool) (s : str) : str * str :=
  match s with
  | [] => ([], [])
  | c :: r => if p c then let '(a, b) := span p r in (c :: a, b) else ([], s)
  end.

(* nameIdent: the identifier at the start of s (empty if s does not start with a letter) and the rest *)
Definition name_ident (s : str) : str * str :=
  match s with
  | [] => ([], [])
  | c :: r => if letter c then let '(a, b) := span identChar r in (c :: a, b) else ([], s)
  end.

Fixpoint has_prefix (s p : str) {struct p} : bool :=
  match p, s with
  | [], _ => true
  | x :: p', y :: s' => (x =? y) && has_prefix s' p'
  | _ :: _, [] => false
  end.

(** utf8.DecodeRuneInString never returns (RuneError, 1) on s *)
Definition cont (b : N) : bool := (128 <=? b) && (b <=? 191).
Definition three_ok (c d : N) : bool :=
  ((c =? 224) && (160 <=? d) && (d <=? 191)) || ((225 <=? c) && (c <=? 236) && cont d) ||
  ((c =? 237) && (128 <=? d) && (d <=? 159)) || ((238 <=? c) && (c <=? 239) && cont d).
Definition four_ok (c d : N) : bool :=
  ((c =? 240) && (144 <=? d) && (d <=? 191)) || ((241 <=? c) && (c <=? 243) && cont d) ||
  ((c =? 244) && (128 <=? d) && (d <=? 143)).
Fixpoint utf8_ok (s : str) : bool :=
  match s with
  | [] => true
  | c :: r1 =>
      if c <? 128 then utf8_ok r1
      else match r1 with
           | [] => false
           | d :: r2 =>
               if (194 <=? c) && (c <=? 223) then cont d && utf8_ok r2
               else match r2 with
                    | [] => false
                    | e :: r3 =>
                        if three_ok c d then cont e && utf8_ok r3
                        else match r3 with
                             | [] => false
                             | g :: r4 => four_ok c d && cont e && cont g && utf8_ok r4
                             end
                    end
           end
  end.

(** ** tokens *)
Inductive tok :=
| KIdent (ns name : str)   (* lcIdent / ucIdent (ns = []) / lcIdentNS / ucIdentNS *)
| KNum (digits : str)      (* number *)
| KCrc (hex : str)         (* crc32hash: the 8 digits after '#' *)
| KAnn (name : str)        (* annotation: the name after '@' *)
| KDep (name : str)        (* tl2depName: the name after '_' *)
| KType                    (* tl2typeSign *)
| KNumSign                 (* numberSign *)
| KUnderscore              (* underscore *)
| KFunEq                   (* functionSign "=>" *)
| KAlias                   (* tl2alias "<=>" *)
| KP (c : N).              (* one-character tokens whose type is the character: [ ] < > : ; . , ? | = - *)

Definition tok_val (t : tok) : str :=
  match t with
  | KIdent ns name => print_tname (TName ns name)
  | KNum w => w
  | KCrc w => 35 :: w
  | KAnn w => 64 :: w
  | KDep w => 95 :: w
  | KType => s_Type
  | KNumSign => [35]
  | KUnderscore => [95]
  | KFunEq => [61; 62]
  | KAlias => s_alias
  | KP c => [c]
  end.

(* validateTokens, TL2: { } ! ( ) + * % *)
Definition tl2_illegal (c : N) : bool :=
  (c =? 123) || (c =? 125) || (c =? 33) || (c =? 40) || (c =? 41) || (c =? 43) || (c =? 42) || (c =? 37).
(* checkPrimitive, minus blank and tab and minus the illegal ones: [ ] > . : ; ? , | *)
Definition primitive (c : N) : bool :=
  (c =? 91) || (c =? 93) || (c =? 62) || (c =? 46) || (c =? 58) || (c =? 59) || (c =? 63) || (c =? 44) || (c =? 124).

Definition not_eol (c : N) : bool := negb ((c =? 10) || (c =? 13)).

Inductive lexstep := LErr | LSkip (rest : str) | LTok (t : tok) (rest : str).

(** one round of lexer.nextToken on a non-empty string *)
Definition lex_step (s : str) : lexstep :=
  match s with
  | [] => LErr
  | c :: r =>
      if (c =? 32) || (c =? 9) then LSkip r
      else if tl2_illegal c then LErr
      else if primitive c then LTok (KP c) r
      else if c =? 13 then match r with d :: r' => if d =? 10 then LSkip r' else LErr | [] => LErr end
      else if c =? 10 then LSkip r
      else if c =? 61 then
        match r with
        | d :: r' => if d =? 62 then LTok KFunEq r' else LTok (KP 61) r
        | [] => LTok (KP 61) r
        end
      else if c =? 60 then
        if has_prefix r [61; 62] then LTok KAlias (skipn 2 r) else LTok (KP 60) r
      else if c =? 64 then
        let '(w, r') := name_ident r in
        match w with
        | h :: _ => if lowerCase h then LTok (KAnn w) r' else LErr
        | [] => LErr
        end
      else if c =? 47 then
        match r with
        | d :: _ => if d =? 47 then let '(cm, r') := span not_eol s in if utf8_ok cm then LSkip r' else LErr
                    else LErr
        | [] => LErr
        end
      else if c =? 45 then
        if has_prefix s f2_typesSectionString || has_prefix s f2_functionsSectionString then LErr
        else LTok (KP 45) r
      else if c =? 35 then
        let '(w, r') := span identChar r in
        match w with
        | [] => LTok KNumSign r
        | _ => if forallb hexChar w && Nat.eqb (length w) 8 then LTok (KCrc w) r' else LErr
        end
      else if c =? 95 then
        let '(w, r') := name_ident r in
        match w with
        | [] => LTok KUnderscore r
        | _ => LTok (KDep w) r'
        end
      else if digit c then
        let '(w, r') := span identChar s in
        if forallb digit w then LTok (KNum w) r' else LErr
      else if letter c then
        let '(w, r') := name_ident s in
        if str_eqb w s_Type then LTok KType r'
        else match r' with
             | d :: r2 =>
                 if d =? 46 then
                   let '(w2, r3) := name_ident r2 in
                   match w2 with
                   | [] => LTok (KIdent [] w) r'
                   | _ => if lowerCase c then LTok (KIdent w w2) r3 else LErr
                   end
                 else LTok (KIdent [] w) r'
             | [] => LTok (KIdent [] w) r'
             end
      else LErr
  end.

Fixpoint lex_fuel (fuel : nat) (s : str) : option (list tok) :=
  match s with
  | [] => Some []
  | _ =>
      match fuel with
      | O => None
      | S f =>
          match lex_step s with
          | LErr => None
          | LSkip r => lex_fuel f r
          | LTok t r => match lex_fuel f r with Some ts => Some (t :: ts) | None => None end
          end
      end
  end.
(* every step consumes at least one byte, so the fuel never runs out (Fmt2Proofs.lex_fuel_enough) *)
Definition lex2 (s : str) : option (list tok) := lex_fuel (length s) s.

(** ** parseTL2Type on significant tokens *)
Inductive pres (A : Type) := POmit | PFail | POk (a : A) (rest : list tok).
Arguments POmit {A}. Arguments PFail {A}. Arguments POk {A}.

(* strconv.ParseUint(val, 10, 32) of a digit string *)
Definition undec (w : str) : N := fold_left (fun acc c => acc * 10 + (c - 48)) w 0.
Definition uint32_max : N := 4294967295.

Definition is_p (c : N) (t : tok) : bool := match t with KP d => d =? c | _ => false end.

Definition hd_is (c : N) (ts : list tok) : bool := match ts with t :: _ => is_p c t | [] => false end.

Fixpoint parse_ty (fuel : nat) (ts : list tok) : pres tref :=
  match fuel with
  | O => PFail
  | S f =>
      match ts with
      | KIdent ns nm :: r =>                                  (* parseTL2TypeApplication *)
          if hd_is 60 r then
            match parse_arg f (tl r) with
            | POk a r2 =>
                match parse_args f r2 with
                | POk l r3 => POk (TApp (TName ns nm) false (a :: l)) r3
                | _ => PFail
                end
            | _ => PFail                                      (* ExpectProgress: omitted becomes an error *)
            end
          else POk (TApp (TName ns nm) false []) r
      | KP c :: r =>
          if c =? 91 then                                     (* parseTL2BracketType *)
            match parse_arg f r with
            | PFail => PFail
            | POmit =>
                if hd_is 93 r then
                  match parse_ty f (tl r) with
                  | POk e r3 => POk (TArr e) r3
                  | _ => PFail
                  end
                else PFail
            | POk i r1 =>
                if hd_is 93 r1 then
                  match parse_ty f (tl r1) with
                  | POk e r3 => POk (TIdx i e) r3
                  | _ => PFail
                  end
                else PFail
            end
          else POmit
      | _ => POmit
      end
  end
(* parseTL2TypeArgument *)
with parse_arg (fuel : nat) (ts : list tok) : pres targ :=
  match fuel with
  | O => PFail
  | S f =>
      match ts with
      | KNum w :: r => if undec w <=? uint32_max then POk (ANum (undec w)) r else PFail
      | _ => match parse_ty f ts with
             | POk t r => POk (ATy t) r
             | POmit => POmit
             | PFail => PFail
             end
      end
  end
(* the loop after the first argument: (cm TL2TypeArgument)* gts *)
with parse_args (fuel : nat) (ts : list tok) : pres (list targ) :=
  match fuel with
  | O => PFail
  | S f =>
      match ts with
      | t :: r =>
          if is_p 44 t then
            match parse_arg f r with
            | POk a r1 =>
                match parse_args f r1 with
                | POk l r2 => POk (a :: l) r2
                | _ => PFail
                end
            | _ => PFail
            end
          else if is_p 62 t then POk [] r
          else PFail
      | [] => PFail
      end
  end.

Definition parse_ty_top (ts : list tok) : pres tref := parse_ty (S (S (length ts))) ts.

(** lexer, then parseTL2Type: [None] = lexer error *)
Definition parse_ty_bytes (s : str) : option (pres tref) :=
  match lex2 s with
  | Some ts => Some (parse_ty_top ts)
  | None => None
  end.

(** ** the token stream of a printed AST *)
Fixpoint toks_tref (t : tref) : list tok :=
  match t with
  | TApp nm bare args =>
      KIdent (tn_ns nm) (tn_name nm) ::
      (if nonempty args then [KP 60] ++ join [KP 44] (map toks_targ args) ++ [KP 62] else [])
  | TArr e => [KP 91; KP 93] ++ toks_tref e
  | TIdx i e => [KP 91] ++ toks_targ i ++ [KP 93] ++ toks_tref e
  end
with toks_targ (a : targ) : list tok :=
  match a with
  | ANum n => [KNum (dec n)]
  | ATy t => toks_tref t
  end.

(* a field name: `_` and `_name` are tokens of their own (underscore, tl2depName) *)
Definition toks_fname (n : str) : list tok :=
  match n with
  | [] => [KIdent [] n]
  | c :: w => if c =? 95 then match w with [] => [KUnderscore] | _ => [KDep w] end else [KIdent [] n]
  end.

Definition toks_field (f : field) : list tok :=
  (if nonempty (f_name f)
   then toks_fname (f_name f) ++ (if f_opt f then [KP 63] else []) ++ [KP 58]
   else []) ++ toks_tref (f_type f).

Definition toks_fields (fs : list field) : list tok := concat (map toks_field fs).

(* a union constructor name may be the word Type, which is its own token *)
Definition toks_vname (n : str) : list tok := if str_eqb n s_Type then [KType] else [KIdent [] n].

Definition toks_variant (v : variant) : list tok :=
  toks_vname (v_name v) ++
  match v_body v with
  | VAlias t => toks_tref t
  | VFields fs => toks_fields fs
  end.

(* [bar]: the first variant is written with its leading '|' *)
Definition toks_def (bar : bool) (isret : bool) (d : typedef) : list tok :=
  match d with
  | DAlias t => KAlias :: toks_tref t
  | DStruct fs => (if isret then [] else [KP 61]) ++ toks_fields fs
  | DUnion vs => (if isret then [] else [KP 61]) ++ (if bar && nonempty vs then [KP 124] else []) ++
                 join [KP 124] (map toks_variant vs)
  end.

Definition toks_magic (m : N) : list tok := if m =? 0 then [] else [KCrc (hex8 m)].

Definition toks_params (ps : list tparam) : list tok :=
  if nonempty ps
  then [KP 60] ++ join [KP 44] (map (fun p => [KIdent [] (tp_name p); KP 58; if tp_isnat p then KNumSign else KType]) ps) ++ [KP 62]
  else [].

Definition toks_decl (bar : bool) (d : decl) : list tok :=
  match d with
  | DType nm magic ps def =>
      KIdent (tn_ns nm) (tn_name nm) :: toks_magic magic ++ toks_params ps ++ toks_def bar false def
  | DFunc nm magic args ret =>
      KIdent (tn_ns nm) (tn_name nm) :: toks_magic magic ++ toks_fields args ++ [KFunEq] ++ toks_def bar true ret
  end.

Definition toks_comb (bar : bool) (c : comb) : list tok :=
  map KAnn (c_anns c) ++ toks_decl bar (c_decl c) ++ [KP 59].
