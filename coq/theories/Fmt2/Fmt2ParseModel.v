(** M [Fmt2Parse] -- ParseTL2File on the significant tokens of [lex2] (internal/tlast/tlparser_tl2_code.go):
    parseTL2Combinator, parseTL2TypeDeclarationWithoutName, parseTL2FuncDeclarationWithoutName,
    parseTL2StructTypeDefinition, parseTL2UnionType, parseTL2UnionConstructor, parseTL2Field, zeroOrMore,
    parseTL2TypeArgumentDeclaration, with their OptionalState (StartProcessing, Error != nil) transcribed as [st].
    The result is the erased AST (all comments empty; positions are not modelled).  Where the Go code abandons a
    branch it either returns the error or resets the token position, so the rest returned with a failed state
    is immaterial here.
    One deliberate difference: parseTL2TypeArgumentDeclaration reads the category with front() without skipWS, so
    Go rejects layout between ':' and '#'/'Type'; the token stream carries no layout and the model accepts it. *)
From TLV Require Export Fmt2.Fmt2LexModel.
Open Scope N_scope.

Record st := St { sp : bool (* StartProcessing *); er : bool (* Error != nil *) }.
Definition st0 : st := St false false.
Definition st_ok : st := St true false.
Definition st_fail : st := St true true.
(* OptionalState.Inherit *)
Definition inherit (a b : st) : st := St (sp a || sp b) (er a || er b).
Definition has_progress (a : st) : bool := sp a && negb (er a).
Definition is_failed (a : st) : bool := sp a && er a.

Definition no_ty : tref := TApp (TName [] []) false [].
Definition mkfield (name : str) (opt ign : bool) (t : tref) : field := Field name opt ign [] t.

(** parseTL2Field *)
Definition parse_field (fuel : nat) (ts : list tok) : st * list tok * field :=
  let none := (st0, ts, mkfield [] false false no_ty) in
  let go (name : str) (ign : bool) (r : list tok) :=
    let qm := hd_is 63 r in
    let r1 := if qm then tl r else r in
    if qm && ign then (st_fail, ts, mkfield name false ign no_ty)
    else if negb (hd_is 58 r1) then
      (if qm then (st_fail, ts, mkfield name qm ign no_ty) else (st0, ts, mkfield name qm ign no_ty))
    else match parse_ty fuel (tl r1) with
         | POk t r3 => (st_ok, r3, mkfield name qm ign t)
         | _ => (st_fail, ts, mkfield name qm ign no_ty)
         end in
  match ts with
  | KIdent [] nm :: r => go nm false r
  | KUnderscore :: r => go [95] true r
  | KDep nm :: r => go (95 :: nm) true r
  | _ => none
  end.

(** zeroOrMore(parseTL2Field): state, rest, the fields parsed so far *)
Fixpoint parse_fields (n : nat) (fuel : nat) (ts : list tok) : st * list tok * list field :=
  match n with
  | O => (st_fail, ts, [])
  | S n' =>
      let '(ls, r, f) := parse_field fuel ts in
      if has_progress ls then
        let '(s2, r2, fs) := parse_fields n' fuel r in
        (St true (er s2), r2, f :: fs)
      else (St (sp ls) (er ls), ts, [])
  end.

Definition vname (t : tok) : option str :=
  match t with
  | KIdent [] nm => Some nm
  | KType => Some s_Type
  | _ => None
  end.

(** parseTL2UnionConstructor *)
Definition parse_constr (n fuel : nat) (ts : list tok) : st * list tok * variant :=
  match ts with
  | t :: r =>
      match vname t with
      | Some nm =>
          if hd_is 59 r || hd_is 124 r then (st_ok, r, Variant nm [] (VFields []))
          else
            let '(fst_, r1, fs) := parse_fields n fuel r in
            if negb (sp fst_) then
              match parse_ty fuel r with
              | POk t r2 => (st_ok, r2, Variant nm [] (VAlias t))
              | PFail => (st_fail, ts, Variant nm [] (VAlias no_ty))
              | POmit => if hd_is 58 r || hd_is 63 r then (st_fail, ts, Variant nm [] (VFields []))
                         else (st_ok, r, Variant nm [] (VFields []))
              end
            else (inherit st_ok fst_, r1, Variant nm [] (VFields fs))
      | None => (st0, ts, Variant [] [] (VFields []))
      end
  | [] => (st0, ts, Variant [] [] (VFields []))
  end.

(** the loop of parseTL2UnionType after the first constructor: (vb TL2UnionConstructor)* *)
Fixpoint parse_more_variants (k : nat) (n fuel : nat) (ts : list tok) : st * list tok * list variant :=
  match k with
  | O => (st_fail, ts, [])
  | S k' =>
      if hd_is 124 ts then
        let '(ls, r, v) := parse_constr n fuel (tl ts) in
        if has_progress ls then
          let '(s2, r2, vs) := parse_more_variants k' n fuel r in
          (s2, r2, v :: vs)
        else (st_fail, ts, [v])
      else (st_ok, ts, [])
  end.

(** parseTL2UnionType: state, rest, Variants *)
Definition parse_union (n fuel : nat) (ts : list tok) : st * list tok * list variant :=
  let mono := hd_is 124 ts in
  let r0 := if mono then tl ts else ts in
  let '(ls, r1, c) := parse_constr n fuel r0 in
  if is_failed ls then (st_fail, ts, [])
  else if mono && negb (sp ls) then (st_fail, ts, [])
  else
    let state := inherit (St mono false) ls in
    if negb (sp state) then (state, ts, [c])
    else
      let '(s2, r2, vs) := parse_more_variants n n fuel r1 in
      if er s2 then (st_fail, ts, c :: vs)
      else if negb (nonempty vs) && negb mono then (st_fail, ts, [c])
      else (st_ok, r2, c :: vs).

(** parseTL2StructTypeDefinition *)
Definition parse_structdef (n fuel : nat) (ts : list tok) : st * list tok * typedef :=
  let '(us, r, vs) := parse_union n fuel ts in
  if has_progress us then (us, r, DUnion vs)
  else if is_failed us && nonempty vs then (us, ts, DStruct [])
  else
    let '(fs_st, r', fs) := parse_fields n fuel ts in
    if is_failed fs_st then (St (sp us) true, ts, DStruct fs)
    else (fs_st, (if has_progress fs_st then r' else ts), DStruct fs).

(* strconv.ParseUint(val[1:], 16, 32) of 8 hex digits *)
Definition hexval1 (d : N) : N := if d <? 58 then d - 48 else d - 87.
Definition hexval (w : str) : N := fold_left (fun a d => a * 16 + hexval1 d) w 0.

(** parseTL2TypeArgumentDeclaration *)
Definition parse_param (ts : list tok) : pres tparam :=
  match ts with
  | KIdent [] nm :: r =>
      if hd_is 58 r then
        match tl r with
        | KNumSign :: r2 => POk (TParam nm true) r2
        | KType :: r2 => POk (TParam nm false) r2
        | _ => PFail
        end
      else PFail
  | _ => POmit
  end.

Fixpoint parse_more_params (k : nat) (ts : list tok) : pres (list tparam) :=
  match k with
  | O => PFail
  | S k' =>
      if hd_is 44 ts then
        match parse_param (tl ts) with
        | POk p r =>
            match parse_more_params k' r with
            | POk ps r2 => POk (p :: ps) r2
            | _ => PFail
            end
        | _ => PFail
        end
      else if hd_is 62 ts then POk [] (tl ts)
      else PFail
  end.

(** parseTL2TypeDeclarationWithoutName *)
Definition parse_typedecl (n fuel : nat) (nm : tname) (ts : list tok) : st * list tok * decl :=
  let bad := (st_fail, ts, DType nm 0 [] (DStruct [])) in
  let after_magic (magic : N) (r0 : list tok) :=
    let after_params (had : bool) (ps : list tparam) (r1 : list tok) :=
      if hd_is 61 r1 then
        let '(ls, r2, d) := parse_structdef n fuel (tl r1) in
        (inherit st_ok ls, r2, DType nm magic ps d)
      else match r1 with
           | KAlias :: r2 =>
               match parse_ty fuel r2 with
               | POk t r3 => (st_ok, r3, DType nm magic ps (DAlias t))
               | _ => bad
               end
           | _ => (St had false, ts, DType nm magic ps (DStruct []))
           end in
    if hd_is 60 r0 then
      match parse_param (tl r0) with
      | POk p r =>
          match parse_more_params n r with
          | POk ps r1 => after_params true (p :: ps) r1
          | _ => bad
          end
      | _ => bad
      end
    else if hd_is 91 r0 then bad
    else after_params false [] r0 in
  match ts with
  | KCrc w :: r => if hexval w =? 0 then bad else after_magic (hexval w) r
  | _ => after_magic 0 ts
  end.

Definition is_alias (ts : list tok) : bool := match ts with KAlias :: _ => true | _ => false end.

(** the result of a function, after "=>": [None] = error, else rest and ReturnType
    (tl2FuncReturnTypeDefinition := funEq ((alias? TL2TypeRef) | TL2StructTypeDefinition)) *)
Definition parse_ret (n fuel : nat) (r2 : list tok) : option (list tok * typedef) :=
  if is_alias r2 then
    match parse_ty fuel (tl r2) with
    | POk t r4 => Some (r4, DAlias t)
    | POmit => Some (tl r2, DAlias no_ty)
    | PFail => None
    end
  else
    let '(ls, r3, d) := parse_structdef n fuel r2 in
    if has_progress ls then Some (r3, d)
    else match parse_ty fuel r2 with                      (* "maybe it is typeref" *)
         | PFail => None
         | POmit => if is_failed ls then None else Some (r2, d)
         | POk t r4 => Some (r4, DStruct [mkfield [] false false t])
         end.

Definition is_funeq (ts : list tok) : bool := match ts with KFunEq :: _ => true | _ => false end.

(** parseTL2FuncDeclarationWithoutName *)
Definition parse_funcdecl (n fuel : nat) (nm : tname) (ts : list tok) : st * list tok * decl :=
  let bad := (st_fail, ts, DFunc nm 0 [] (DStruct [])) in
  match ts with
  | KCrc w :: r =>
      if hexval w =? 0 then bad
      else
        let magic := hexval w in
        let '(as_, r1, args) := parse_fields n fuel r in
        if is_failed as_ then bad
        else if is_funeq r1 then
          match parse_ret n fuel (tl r1) with
          | Some (r4, d) => (St true (er as_), r4, DFunc nm magic args d)
          | None => bad
          end
        else (as_, r1, DFunc nm magic args (DStruct []))
  | _ => bad
  end.

Fixpoint take_anns (ts : list tok) : list str * list tok :=
  match ts with
  | KAnn a :: r => let '(l, r') := take_anns r in (a :: l, r')
  | _ => ([], ts)
  end.

(** parseTL2Combinator: [None] = error *)
Definition parse_comb (n fuel : nat) (ts : list tok) : option (comb * list tok) :=
  let '(anns, r0) := take_anns ts in
  match r0 with
  | KIdent ns nm :: r1 =>
      let name := TName ns nm in
      let '(ts_st, r2, d) := parse_typedecl n fuel name r1 in
      let '(state, r3, d') :=
        if sp ts_st then (inherit st_ok ts_st, r2, d)
        else let '(fs_st, r2', df) := parse_funcdecl n fuel name r1 in
             if sp fs_st then (inherit (inherit st_ok ts_st) fs_st, r2', df) else (st_fail, r2', df) in
      if hd_is 59 r3 && negb (er state) then Some (Comb [] anns d', tl r3) else None
  | _ => None
  end.

(** ParseTL2File on tokens *)
Fixpoint parse_file_toks (k : nat) (n fuel : nat) (ts : list tok) : option (list comb) :=
  match ts with
  | [] => Some []
  | _ =>
      match k with
      | O => None
      | S k' =>
          match parse_comb n fuel ts with
          | Some (c, r) => match parse_file_toks k' n fuel r with Some cs => Some (c :: cs) | None => None end
          | None => None
          end
      end
  end.

Definition parse2_toks (ts : list tok) : option (list comb) :=
  let n := S (S (S (S (length ts)))) in parse_file_toks n n n ts.

(** the lexer, then the parser: ParseTL2File *)
Definition parse2 (s : str) : option (list comb) :=
  match lex2 s with
  | Some ts => parse2_toks ts
  | None => None
  end.
