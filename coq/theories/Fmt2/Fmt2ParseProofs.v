(** The parser model inverts the printers: [parse2_fmt2] (print with any options, lex, parse = the declarations with
    comments erased), idempotence for comment-ignoring options, exact round trip for comment-free declarations. *)
From Coq Require Import List NArith Bool Lia ZifyN ZifyNat ZifyBool Arith.
From TLV Require Import Fmt2.Fmt2Model Fmt2.Fmt2LexModel Fmt2.Fmt2ParseModel Fmt2.Fmt2Proofs Fmt2.Fmt2PrintProofs.
Import ListNotations.
Open Scope N_scope.

(** * the parser model inverts the token stream of a printed declaration *)
Definition erase_field (f : field) : field := Field (f_name f) (f_opt f) (f_ign f) [] (f_type f).
Definition erase_variant (v : variant) : variant :=
  Variant (v_name v) []
    (match v_body v with VAlias t => VAlias t | VFields fs => VFields (map erase_field fs) end).
Definition erase_def (d : typedef) : typedef :=
  match d with
  | DAlias t => DAlias t
  | DStruct fs => DStruct (map erase_field fs)
  | DUnion vs => DUnion (map erase_variant vs)
  end.
Definition erase_decl (d : decl) : decl :=
  match d with
  | DType nm m ps def => DType nm m ps (erase_def def)
  | DFunc nm m args ret => DFunc nm m (map erase_field args) (erase_def ret)
  end.
Definition erase_comb (c : comb) : comb := Comb [] (c_anns c) (erase_decl (c_decl c)).

(* what the parser can give back: a named field, marked ignored exactly when its name starts with `_`
   (`_` or a deprecated `_name`), and then never optional *)
Definition starts_us (n : str) : bool := match n with c :: _ => c =? 95 | [] => false end.
Definition wf2_field (f : field) : bool :=
  nonempty (f_name f) && wf_tref (f_type f) &&
  Bool.eqb (f_ign f) (starts_us (f_name f)) && negb (f_ign f && f_opt f).

(* exposes the first token of a named field *)
Ltac field_cases f H :=
  destruct f as [nm opt ign cm ty]; unfold wf2_field, toks_field, toks_fname in *;
  cbn [f_name f_opt f_ign f_type f_comment] in *;
  destruct nm as [|c w]; [discriminate|]; cbn [nonempty starts_us] in *;
  destruct (c =? 95) eqn:E95; [destruct w as [|d w]|].

Definition notlt (r : list tok) : Prop := hd_is 60 r = false.

Lemma parse_ty_toks : forall t rest fuel, wf_tref t = true -> notlt rest -> (length (toks_tref t) < fuel)%nat ->
  parse_ty fuel (toks_tref t ++ rest) = POk t rest.
Proof. intros. now apply (proj1 parse_toks). Qed.

Lemma parse_field_ok : forall f rest fuel, wf2_field f = true -> notlt rest -> (length (toks_field f) < fuel)%nat ->
  parse_field fuel (toks_field f ++ rest) = (st_ok, rest, erase_field f).
Proof.
  intros f rest fuel H Hr Hf. unfold erase_field. field_cases f H; cbn [f_name f_opt f_ign f_type f_comment];
    apply andb_true_iff in H; destruct H as [H Hio]; apply andb_true_iff in H; destruct H as [H Hi];
    apply andb_true_iff in H; destruct H as [_ Ht]; apply Bool.eqb_prop in Hi; subst ign;
    try (assert (c = 95) by lia; subst c).
  - destruct opt; [discriminate|]. cbn [app length] in *. unfold parse_field. cbn [hd_is is_p tl andb negb].
    replace (58 =? 63) with false by reflexivity. replace (58 =? 58) with true by reflexivity. cbn [andb negb tl].
    rewrite parse_ty_toks by (auto; lia). reflexivity.
  - destruct opt; [discriminate|]. cbn [app length] in *. unfold parse_field. cbn [hd_is is_p tl andb negb].
    replace (58 =? 63) with false by reflexivity. replace (58 =? 58) with true by reflexivity. cbn [andb negb tl].
    rewrite parse_ty_toks by (auto; lia). reflexivity.
  - destruct opt; cbn [app length] in *; rewrite ?app_length in Hf; cbn [length] in Hf; unfold parse_field; cbn [hd_is is_p tl andb negb].
    + replace (63 =? 63) with true by reflexivity. cbn [tl andb hd_is is_p negb].
      replace (58 =? 58) with true by reflexivity. cbn [negb tl]. rewrite parse_ty_toks by (auto; lia). reflexivity.
    + replace (58 =? 63) with false by reflexivity. replace (58 =? 58) with true by reflexivity. cbn [andb negb tl].
      rewrite parse_ty_toks by (auto; lia). reflexivity.
Qed.

Definition no_field_start (r : list tok) : Prop :=
  match r with
  | KIdent [] _ :: _ | KUnderscore :: _ | KDep _ :: _ => False
  | _ => True
  end.

Lemma parse_field_none : forall fuel r, no_field_start r ->
  parse_field fuel r = (st0, r, mkfield [] false false no_ty).
Proof. intros fuel [|[ns nm| | | | | | | | | |] r] H; try reflexivity; try destruct H. destruct ns; [destruct H|reflexivity]. Qed.

Lemma toks_field_notlt : forall f r, wf2_field f = true -> notlt (toks_field f ++ r).
Proof.
  intros f r H. field_cases f H; reflexivity.
Qed.

Lemma toks_field_len : forall f, wf2_field f = true -> (2 <= length (toks_field f))%nat.
Proof.
  intros f H. field_cases f H; rewrite !app_length; destruct opt; cbn; lia.
Qed.

Lemma parse_fields_ok : forall fs rest n fuel, forallb wf2_field fs = true -> no_field_start rest -> notlt rest ->
  (length fs < n)%nat -> (length (toks_fields fs) < fuel)%nat ->
  parse_fields n fuel (toks_fields fs ++ rest) = (St (nonempty fs) false, rest, map erase_field fs).
Proof.
  induction fs as [|f fs IH]; intros rest n fuel Hw Hs Hr Hn Hf.
  - destruct n; [cbn in Hn; lia|]. cbn [toks_fields map concat app parse_fields]. now rewrite parse_field_none.
  - cbn [forallb] in Hw. apply andb_true_iff in Hw. destruct Hw as [Hwf Hws].
    destruct n; [cbn in Hn; lia|]. rewrite toks_fields_cons in *. rewrite app_length in Hf. rewrite <- app_assoc.
    cbn [parse_fields]. rewrite parse_field_ok; [|assumption| |lia].
    + cbn [has_progress sp er andb negb]. rewrite IH; [reflexivity|assumption|assumption|assumption|cbn in Hn; lia|lia].
    + destruct fs as [|g fs]; [exact Hr|]. rewrite toks_fields_cons, <- app_assoc. apply toks_field_notlt.
      cbn in Hws. now apply andb_true_iff in Hws.
Qed.

Definition wf2_variant (v : variant) : bool :=
  match v_body v with
  | VAlias t => wf_tref t
  | VFields fs => forallb wf2_field fs
  end.

Definition vstop (r : list tok) : Prop := hd_is 59 r || hd_is 124 r = true.

Lemma vstop_no_field : forall r, vstop r -> no_field_start r.
Proof. intros [|[] r] H; try exact I; cbn in H; discriminate. Qed.
Lemma vstop_notlt : forall r, vstop r -> notlt r.
Proof.
  intros [|[] r] H; try reflexivity. unfold vstop, notlt in *. cbn in *.
  destruct (c =? 60) eqn:E; [|reflexivity]. assert (c = 60) by lia. subst. discriminate.
Qed.

Lemma parse_fields_none : forall n fuel ts, fst (fst (parse_field fuel ts)) = st0 ->
  parse_fields (S n) fuel ts = (st0, ts, []).
Proof.
  intros n fuel ts H. cbn [parse_fields]. destruct (parse_field fuel ts) as [[ls r] f]. cbn in H. subst. reflexivity.
Qed.

(* a type reference is not the start of a field, and not the end of a constructor *)
Lemma tref_not_field : forall t rest fuel, wf_tref t = true -> vstop rest ->
  fst (fst (parse_field fuel (toks_tref t ++ rest))) = st0 /\
  hd_is 59 (toks_tref t ++ rest) || hd_is 124 (toks_tref t ++ rest) = false.
Proof.
  intros [[ns nm] bare args|e|i e] rest fuel H Hs; cbn [toks_tref tn_ns tn_name app]; try (split; reflexivity).
  split; [|reflexivity]. destruct ns as [|c ns]; [|reflexivity]. unfold parse_field.
  destruct args as [|a args]; cbn [nonempty app].
  - assert (E63 : hd_is 63 rest = false).
    { destruct rest as [|[] r]; try reflexivity. unfold vstop in Hs. cbn in *. destruct (c =? 63) eqn:E; [|reflexivity].
      assert (c = 63) by lia. subst. discriminate. }
    assert (E58 : hd_is 58 rest = false).
    { destruct rest as [|[] r]; try reflexivity. unfold vstop in Hs. cbn in *. destruct (c =? 58) eqn:E; [|reflexivity].
      assert (c = 58) by lia. subst. discriminate. }
    rewrite E63. cbn [andb]. rewrite E58. reflexivity.
  - reflexivity.
Qed.

Lemma vname_toks : forall nm r, exists t, toks_vname nm ++ r = t :: r /\ vname t = Some nm.
Proof.
  intros nm r. unfold toks_vname. destruct (str_eqb nm s_Type) eqn:E.
  - apply str_eqb_eq in E. subst. exists KType. split; reflexivity.
  - exists (KIdent [] nm). split; reflexivity.
Qed.

Lemma toks_field_not_vstop : forall f r, wf2_field f = true ->
  hd_is 59 (toks_field f ++ r) || hd_is 124 (toks_field f ++ r) = false.
Proof.
  intros f r H. field_cases f H; reflexivity.
Qed.

Lemma parse_constr_ok : forall v rest n fuel, wf2_variant v = true -> vstop rest ->
  (S (length (toks_variant v)) < n)%nat -> (length (toks_variant v) < fuel)%nat ->
  parse_constr n fuel (toks_variant v ++ rest) = (st_ok, rest, erase_variant v).
Proof.
  intros [nm cm body] rest n fuel H Hs Hn Hf. unfold wf2_variant, toks_variant, erase_variant in *.
  cbn [v_name v_comment v_body] in *. rewrite <- app_assoc.
  destruct (vname_toks nm ((match body with VAlias t => toks_tref t | VFields fs => toks_fields fs end) ++ rest)) as (t & E & Ev).
  rewrite E. assert (Hl : length (toks_vname nm) = 1%nat) by (unfold toks_vname; now destruct (str_eqb nm s_Type)).
  rewrite app_length, Hl in *. unfold parse_constr. rewrite Ev.
  destruct body as [ty|fs].
  - destruct (tref_not_field ty rest fuel H Hs) as [N1 N2]. rewrite N2.
    destruct n as [|n]; [lia|]. rewrite parse_fields_none by exact N1. cbn [sp st0 negb].
    rewrite parse_ty_toks; [reflexivity|assumption|now apply vstop_notlt|lia].
  - destruct fs as [|f fs].
    + cbn [toks_fields map concat app]. unfold vstop in Hs. rewrite Hs. reflexivity.
    + assert (Hw : wf2_field f = true) by (cbn in H; now apply andb_true_iff in H).
      rewrite toks_fields_cons, <- app_assoc, (toks_field_not_vstop f _ Hw), app_assoc, <- toks_fields_cons.
      rewrite parse_fields_ok; [reflexivity|assumption|now apply vstop_no_field|now apply vstop_notlt| |lia].
      pose proof (toks_field_len f Hw). rewrite toks_fields_cons, app_length in Hn.
      assert (length fs <= length (toks_fields fs))%nat.
      { clear - H. cbn in H. apply andb_true_iff in H. destruct H as [_ H]. induction fs as [|g fs IH]; [cbn; lia|].
        cbn in H. apply andb_true_iff in H. destruct H as [Hg H]. rewrite toks_fields_cons, app_length.
        pose proof (toks_field_len g Hg). cbn [length]. specialize (IH H). lia. }
      cbn [length]. lia.
Qed.

Definition semi (r : list tok) : Prop := hd_is 59 r = true.
Lemma semi_vstop : forall r, semi r -> vstop r.
Proof. intros r H. unfold vstop. now rewrite H. Qed.
Lemma semi_nobar : forall r, semi r -> hd_is 124 r = false.
Proof. intros [|[] r] H; try discriminate. unfold semi in H. cbn [hd_is is_p] in *. lia. Qed.

Definition vtoks (vs : list variant) : list tok := concat (map (fun v => KP 124 :: toks_variant v) vs).

Lemma parse_more_variants_ok : forall vs rest k n fuel, forallb wf2_variant vs = true -> semi rest ->
  (length vs < k)%nat -> (S (length (vtoks vs)) < n)%nat -> (length (vtoks vs) < fuel)%nat ->
  parse_more_variants k n fuel (vtoks vs ++ rest) = (st_ok, rest, map erase_variant vs).
Proof.
  induction vs as [|v vs IH]; intros rest k n fuel Hw Hs Hk Hn Hf.
  - destruct k; [cbn in Hk; lia|]. cbn [vtoks map concat app parse_more_variants]. now rewrite (semi_nobar rest Hs).
  - cbn [forallb] in Hw. apply andb_true_iff in Hw. destruct Hw as [Hv Hvs].
    destruct k; [cbn in Hk; lia|]. unfold vtoks in *. cbn [map concat] in *. fold (vtoks vs) in *.
    cbn [length app] in Hn, Hf. rewrite app_length in Hn, Hf.
    cbn [app parse_more_variants hd_is is_p tl]. replace (124 =? 124) with true by reflexivity.
    rewrite <- app_assoc, parse_constr_ok; [|assumption| |lia|lia].
    + cbn [has_progress sp er st_ok andb negb]. rewrite IH; [reflexivity|assumption|assumption|cbn in Hk; lia|lia|lia].
    + destruct vs as [|w vs]; [now apply semi_vstop|]. reflexivity.
Qed.

Lemma toks_variant_nobar : forall v r, hd_is 124 (toks_variant v ++ r) = false.
Proof.
  intros v r. unfold toks_variant. rewrite <- app_assoc. destruct (vname_toks (v_name v) ((match v_body v with VAlias t => toks_tref t | VFields fs => toks_fields fs end) ++ r)) as (t & E & Ev).
  rewrite E. destruct t; try discriminate; reflexivity.
Qed.

Lemma parse_union_ok : forall bar v vs rest n fuel, forallb wf2_variant (v :: vs) = true -> semi rest ->
  bar || nonempty vs = true ->
  (S (S (length (toks_variant v ++ vtoks vs))) < n)%nat -> (length (toks_variant v ++ vtoks vs) < fuel)%nat ->
  parse_union n fuel ((if bar then [KP 124] else []) ++ toks_variant v ++ vtoks vs ++ rest) =
    (st_ok, rest, map erase_variant (v :: vs)).
Proof.
  intros bar v vs rest n fuel Hw Hs Hb Hn Hf. cbn [forallb] in Hw. apply andb_true_iff in Hw. destruct Hw as [Hv Hvs].
  rewrite app_length in Hn, Hf. unfold parse_union.
  assert (Em : hd_is 124 ((if bar then [KP 124] else []) ++ toks_variant v ++ vtoks vs ++ rest) = bar).
  { destruct bar; [reflexivity|]. cbn [app]. apply toks_variant_nobar. }
  rewrite Em.
  replace (if bar then tl ((if bar then [KP 124] else []) ++ toks_variant v ++ vtoks vs ++ rest)
           else (if bar then [KP 124] else []) ++ toks_variant v ++ vtoks vs ++ rest)
    with (toks_variant v ++ vtoks vs ++ rest) by (destruct bar; reflexivity).
  rewrite parse_constr_ok; [|assumption| |lia|lia].
  - cbn [is_failed sp er st_ok andb negb inherit orb]. rewrite andb_false_r, orb_true_r. cbn [negb].
    rewrite parse_more_variants_ok; [|assumption|assumption| |lia|lia].
    + cbn [er st_ok]. assert (E : negb (nonempty (map erase_variant vs)) && negb bar = false).
      { destruct vs; destruct bar; try reflexivity. discriminate. }
      rewrite E. reflexivity.
    + assert (length vs <= length (vtoks vs))%nat.
      { clear. induction vs as [|w vs IH]; [cbn; lia|]. unfold vtoks in *. cbn [map concat length]. rewrite app_length. cbn [length]. lia. }
      lia.
  - destruct vs as [|w vs]; [now apply semi_vstop|reflexivity].
Qed.

(** parseTL2StructTypeDefinition *)
Lemma parse_structdef_union : forall bar v vs rest n fuel, forallb wf2_variant (v :: vs) = true -> semi rest ->
  bar || nonempty vs = true ->
  (S (S (length (toks_variant v ++ vtoks vs))) < n)%nat -> (length (toks_variant v ++ vtoks vs) < fuel)%nat ->
  parse_structdef n fuel ((if bar then [KP 124] else []) ++ toks_variant v ++ vtoks vs ++ rest) =
    (st_ok, rest, DUnion (map erase_variant (v :: vs))).
Proof. intros. unfold parse_structdef. rewrite parse_union_ok by assumption. reflexivity. Qed.

Lemma semi_cons : forall r, semi r -> exists r', r = KP 59 :: r'.
Proof.
  intros [|[] r] H; try discriminate. unfold semi in H. cbn [hd_is is_p] in H. assert (c = 59) by lia. subst. now exists r.
Qed.

(* on a list of named fields the union attempt gives up without an error that would stick *)
Lemma parse_union_fields : forall fs rest n fuel, forallb wf2_field fs = true -> semi rest ->
  (0 < n)%nat -> (0 < fuel)%nat ->
  exists us r vs, parse_union n fuel (toks_fields fs ++ rest) = (us, r, vs) /\
    has_progress us = false /\ is_failed us && nonempty vs = false.
Proof.
  intros fs rest n fuel Hw Hs Hn Hf. destruct n as [|n]; [lia|]. destruct fuel as [|fuel]; [lia|].
  destruct fs as [|f fs].
  - destruct (semi_cons rest Hs) as [r' ->]. cbn [toks_fields map concat app]. do 3 eexists. split; [reflexivity|]. split; reflexivity.
  - cbn [forallb] in Hw. apply andb_true_iff in Hw. destruct Hw as [Hwf _].
    rewrite toks_fields_cons, <- app_assoc.
    field_cases f Hwf; destruct opt; do 3 eexists; (split; [reflexivity|]); split; reflexivity.
Qed.

Lemma parse_structdef_fields : forall fs rest n fuel, forallb wf2_field fs = true -> semi rest ->
  (length fs < n)%nat -> (length (toks_fields fs) < fuel)%nat ->
  parse_structdef n fuel (toks_fields fs ++ rest) = (St (nonempty fs) false, rest, DStruct (map erase_field fs)).
Proof.
  intros fs rest n fuel Hw Hs Hn Hf. unfold parse_structdef.
  destruct (parse_union_fields fs rest n fuel Hw Hs) as (us & r & vs & E & H1 & H2); [lia|lia|].
  rewrite E, H1, H2.
  rewrite parse_fields_ok; [|assumption|apply vstop_no_field; now apply semi_vstop|apply vstop_notlt; now apply semi_vstop|assumption|assumption].
  destruct fs; reflexivity.
Qed.

(* a type reference alone (the anonymous result of a function): no progress, the caller then reads it as a type *)
Lemma parse_structdef_tref : forall t rest n fuel, wf_tref t = true -> semi rest -> (1 < n)%nat -> (1 < fuel)%nat ->
  has_progress (fst (fst (parse_structdef n fuel (toks_tref t ++ rest)))) = false.
Proof.
  intros t rest n fuel H Hs Hn Hf. destruct n as [|[|n]]; try lia. destruct fuel as [|[|fuel]]; try lia.
  destruct (semi_cons rest Hs) as [r' ->].
  destruct t as [[ns nm] bare args|e|i e]; cbn [toks_tref tn_ns tn_name app]; try reflexivity.
  destruct ns as [|c ns]; [|reflexivity]. destruct args as [|a args]; reflexivity.
Qed.

(** magic *)
Lemma hexval_app1 : forall a d, hexval (a ++ [d]) = hexval a * 16 + hexval1 d.
Proof. intros. unfold hexval. now rewrite fold_left_app. Qed.

Lemma hexval1_digit : forall x, x < 16 -> hexval1 (hexdigit x) = x.
Proof. intros x H. unfold hexval1, hexdigit. destruct (x <? 10) eqn:E; [replace (48 + x <? 58) with true by lia|replace (87 + x <? 58) with false by lia]; lia. Qed.

Lemma hexval_hexk : forall k m, hexval (hexk k m) = m mod 16 ^ N.of_nat k.
Proof.
  induction k as [|k IH]; intro m.
  - cbn. now rewrite N.mod_1_r.
  - cbn [hexk]. rewrite hexval_app1, IH, hexval1_digit by (apply N.mod_lt; lia).
    rewrite Nat2N.inj_succ, N.pow_succ_r', N.mod_mul_r by (try apply N.pow_nonzero; lia). lia.
Qed.

Lemma hexval_hex8 : forall m, m < 4294967296 -> hexval (hex8 m) = m.
Proof. intros m H. unfold hex8. rewrite hexval_hexk. change (16 ^ N.of_nat 8) with 4294967296. now apply N.mod_small. Qed.

(** template arguments *)
Lemma parse_more_params_ok : forall ps rest k, (length ps < k)%nat ->
  parse_more_params k (concat (map (fun p => KP 44 :: toks_param p) ps) ++ KP 62 :: rest) = POk ps rest.
Proof.
  induction ps as [|[nm isnat] ps IH]; intros rest k Hk; (destruct k; [cbn in Hk; lia|]).
  - reflexivity.
  - cbn [map concat app toks_param tp_name tp_isnat parse_more_params hd_is is_p tl parse_param].
    replace (44 =? 44) with true by reflexivity. replace (58 =? 58) with true by reflexivity. cbn [tl].
    destruct isnat; cbn [app]; (rewrite IH by (cbn in Hk; lia)); reflexivity.
Qed.

Definition wf2_def_type (bar : bool) (d : typedef) : bool :=
  match d with
  | DAlias t => wf_tref t
  | DStruct fs => forallb wf2_field fs
  | DUnion vs => nonempty vs && forallb wf2_variant vs && (bar || negb (Nat.eqb (length vs) 1))
  end.

Lemma union_toks : forall bar v vs,
  (if bar && nonempty (v :: vs) then [KP 124] else []) ++ join [KP 124] (map toks_variant (v :: vs)) =
  (if bar then [KP 124] else []) ++ toks_variant v ++ vtoks vs.
Proof. intros. cbn [nonempty map]. rewrite andb_true_r, join_cons, map_map. reflexivity. Qed.

Lemma vtoks_bound : forall v vs, (length (toks_variant v ++ vtoks vs) <= length (join [KP 124] (map toks_variant (v :: vs))))%nat.
Proof. intros. cbn [map]. rewrite join_cons, map_map. apply Nat.le_refl. Qed.

Lemma parse_def_type_ok : forall bar d rest n fuel, wf2_def_type bar d = true -> semi rest ->
  (S (S (length (toks_def bar false d))) < n)%nat -> (length (toks_def bar false d) < fuel)%nat ->
  forall nm magic ps (X Y : st * list tok * decl),
  (if hd_is 61 (toks_def bar false d ++ rest) then
     let '(ls, r2, d') := parse_structdef n fuel (tl (toks_def bar false d ++ rest)) in
     (inherit st_ok ls, r2, DType nm magic ps d')
   else match toks_def bar false d ++ rest with
        | KAlias :: r2 =>
            match parse_ty fuel r2 with
            | POk t r3 => (st_ok, r3, DType nm magic ps (DAlias t))
            | _ => X
            end
        | _ => Y
        end) = (st_ok, rest, DType nm magic ps (erase_def d)).
Proof.
  intros bar d rest n fuel H Hs Hn Hf nm magic ps X Y. destruct d as [t|fs|vs]; cbn [wf2_def_type toks_def erase_def] in *.
  - cbn [app hd_is is_p]. cbn [length] in Hf. rewrite parse_ty_toks; [reflexivity|assumption|apply vstop_notlt; now apply semi_vstop|lia].
  - cbn [app hd_is is_p tl length] in *. replace (61 =? 61) with true by reflexivity.
    rewrite parse_structdef_fields; [destruct fs; reflexivity|assumption|assumption| |lia].
    assert (length fs <= length (toks_fields fs))%nat.
    { clear - H. induction fs as [|g fs IH]; [cbn; lia|]. cbn in H. apply andb_true_iff in H. destruct H as [Hg H].
      rewrite toks_fields_cons, app_length. pose proof (toks_field_len g Hg). cbn [length]. specialize (IH H). lia. }
    lia.
  - apply andb_true_iff in H. destruct H as [H Hb]. apply andb_true_iff in H. destruct H as [Hne Hw].
    destruct vs as [|v vs]; [discriminate|]. rewrite union_toks in *. cbn [app hd_is is_p tl length] in *.
    replace (61 =? 61) with true by reflexivity. rewrite <- !app_assoc.
    assert (Hb' : bar || nonempty vs = true).
    { destruct bar; [reflexivity|]. cbn [orb] in *. destruct vs; [discriminate|reflexivity]. }
    rewrite app_length in Hn, Hf.
    rewrite parse_structdef_union; [reflexivity|assumption|assumption|assumption|lia|lia].
Qed.

Lemma def_type_head : forall bar d rest, wf2_def_type bar d = true ->
  exists t r, toks_def bar false d ++ rest = t :: r /\ (t = KAlias \/ t = KP 61).
Proof.
  intros bar [t|fs|vs] rest H; cbn [toks_def app]; do 2 eexists; (split; [reflexivity|]); auto.
Qed.

Lemma toks_params_cons : forall p ps, toks_params (p :: ps) =
  KP 60 :: toks_param p ++ concat (map (fun q => KP 44 :: toks_param q) ps) ++ [KP 62].
Proof. intros. unfold toks_params. cbn [nonempty map]. rewrite join_cons, map_map. reflexivity. Qed.

Lemma parse_typedecl_ok : forall nm magic ps def bar rest n fuel,
  magic < 4294967296 -> wf2_def_type bar def = true -> semi rest ->
  (S (S (length ps + length (toks_def bar false def))) < n)%nat -> (length (toks_def bar false def) < fuel)%nat ->
  parse_typedecl n fuel nm (toks_magic magic ++ toks_params ps ++ toks_def bar false def ++ rest) =
    (st_ok, rest, DType nm magic ps (erase_def def)).
Proof.
  intros nm magic ps def bar rest n fuel Hm Hd Hs Hn Hf.
  destruct (def_type_head bar def rest Hd) as (t0 & r0 & E0 & Ht0).
  assert (Hdef : forall m pp X Y,
    (if hd_is 61 (toks_def bar false def ++ rest) then
       let '(ls, r2, d') := parse_structdef n fuel (tl (toks_def bar false def ++ rest)) in
       (inherit st_ok ls, r2, DType nm m pp d')
     else match toks_def bar false def ++ rest with
          | KAlias :: r2 => match parse_ty fuel r2 with POk t r3 => (st_ok, r3, DType nm m pp (DAlias t)) | _ => X end
          | _ => Y
          end) = (st_ok, rest, DType nm m pp (erase_def def))).
  { intros. apply parse_def_type_ok; try assumption; lia. }
  assert (Hparams : forall m (TS : list tok),
    (if hd_is 60 (toks_params ps ++ toks_def bar false def ++ rest) then
       match parse_param (tl (toks_params ps ++ toks_def bar false def ++ rest)) with
       | POk p r =>
           match parse_more_params n r with
           | POk ps' r1 =>
               if hd_is 61 r1 then let '(ls, r2, d) := parse_structdef n fuel (tl r1) in (inherit st_ok ls, r2, DType nm m (p :: ps') d)
               else match r1 with
                    | KAlias :: r2 => match parse_ty fuel r2 with POk t r3 => (st_ok, r3, DType nm m (p :: ps') (DAlias t)) | _ => (st_fail, TS, DType nm 0 [] (DStruct [])) end
                    | _ => (St true false, TS, DType nm m (p :: ps') (DStruct []))
                    end
           | _ => (st_fail, TS, DType nm 0 [] (DStruct []))
           end
       | _ => (st_fail, TS, DType nm 0 [] (DStruct []))
       end
     else if hd_is 91 (toks_params ps ++ toks_def bar false def ++ rest) then (st_fail, TS, DType nm 0 [] (DStruct []))
     else if hd_is 61 (toks_params ps ++ toks_def bar false def ++ rest) then
            let '(ls, r2, d) := parse_structdef n fuel (tl (toks_params ps ++ toks_def bar false def ++ rest)) in (inherit st_ok ls, r2, DType nm m [] d)
          else match toks_params ps ++ toks_def bar false def ++ rest with
               | KAlias :: r2 => match parse_ty fuel r2 with POk t r3 => (st_ok, r3, DType nm m [] (DAlias t)) | _ => (st_fail, TS, DType nm 0 [] (DStruct [])) end
               | _ => (St false false, TS, DType nm m [] (DStruct []))
               end) = (st_ok, rest, DType nm m ps (erase_def def))).
  { intros m TS. destruct ps as [|[pn isnat] ps].
    - cbn [toks_params nonempty app].
      assert (H60 : hd_is 60 (toks_def bar false def ++ rest) = false) by (rewrite E0; destruct Ht0; subst; reflexivity).
      assert (H91 : hd_is 91 (toks_def bar false def ++ rest) = false) by (rewrite E0; destruct Ht0; subst; reflexivity).
      rewrite H60, H91. apply Hdef.
    - rewrite toks_params_cons. cbn [app hd_is is_p tl toks_param tp_name tp_isnat parse_param].
      replace (60 =? 60) with true by reflexivity. replace (58 =? 58) with true by reflexivity. cbn [tl].
      rewrite <- !app_assoc. cbn [length] in Hn.
      destruct isnat; cbn [app]; rewrite parse_more_params_ok by lia; apply Hdef. }
  unfold parse_typedecl, toks_magic. destruct (magic =? 0) eqn:Em.
  - assert (magic = 0) by lia. subst magic. cbn [app].
    destruct ps as [|p ps].
    + cbn [toks_params nonempty app] in *. rewrite E0 in *. destruct Ht0; subst t0; apply (Hparams 0).
    + rewrite toks_params_cons in *. cbn [app] in *. apply (Hparams 0).
  - cbn [app]. rewrite hexval_hex8 by assumption. rewrite Em. apply (Hparams magic).
Qed.

(** function results *)
Definition anon_field (f : field) : bool :=
  negb (nonempty (f_name f)) && negb (f_opt f) && negb (f_ign f) && wf_tref (f_type f).

Definition wf2_def_ret (bar : bool) (d : typedef) : bool :=
  match d with
  | DAlias t => wf_tref t
  | DStruct fs => forallb wf2_field fs || match fs with [f] => anon_field f | _ => false end
  | DUnion vs => nonempty vs && forallb wf2_variant vs && (bar || negb (Nat.eqb (length vs) 1))
  end.

Lemma fields_len : forall fs, forallb wf2_field fs = true -> (length fs <= length (toks_fields fs))%nat.
Proof.
  induction fs as [|g fs IH]; intro H; [cbn; lia|]. cbn in H. apply andb_true_iff in H. destruct H as [Hg H].
  rewrite toks_fields_cons, app_length. pose proof (toks_field_len g Hg). cbn [length]. specialize (IH H). lia.
Qed.

Lemma fields_not_alias : forall fs rest, forallb wf2_field fs = true -> semi rest -> is_alias (toks_fields fs ++ rest) = false.
Proof.
  intros [|f fs] rest H Hs.
  - destruct (semi_cons rest Hs) as [r' ->]. reflexivity.
  - cbn in H. apply andb_true_iff in H. destruct H as [H _]. rewrite toks_fields_cons, <- app_assoc.
    field_cases f H; reflexivity.
Qed.

Lemma tref_not_alias : forall t rest, is_alias (toks_tref t ++ rest) = false.
Proof. intros [[ns nm] b args|e|i e] rest; reflexivity. Qed.

Lemma parse_ret_ok : forall bar d rest n fuel, wf2_def_ret bar d = true -> semi rest ->
  (S (S (length (toks_def bar true d))) < n)%nat -> (S (length (toks_def bar true d)) < fuel)%nat ->
  parse_ret n fuel (toks_def bar true d ++ rest) = Some (rest, erase_def d).
Proof.
  intros bar d rest n fuel H Hs Hn Hf. unfold parse_ret. destruct d as [t|fs|vs]; cbn [wf2_def_ret toks_def erase_def app] in *.
  - cbn [is_alias tl length] in *. rewrite parse_ty_toks; [reflexivity|assumption|apply vstop_notlt; now apply semi_vstop|lia].
  - apply orb_true_iff in H. destruct H as [H|H].
    + rewrite fields_not_alias by assumption.
      rewrite parse_structdef_fields; [|assumption|assumption|pose proof (fields_len fs H); lia|lia].
      destruct fs as [|f fs]; [|reflexivity]. cbn [nonempty has_progress sp er andb map]. cbn [toks_fields map concat app].
      destruct (semi_cons rest Hs) as [r' ->]. destruct fuel; [lia|]. reflexivity.
    + destruct fs as [|[nm opt ign cm ty] [|g fs]]; try discriminate. unfold anon_field in H. cbn [f_name f_opt f_ign f_type] in H.
      destruct nm; [|discriminate]. destruct opt; [discriminate|]. destruct ign; [discriminate|]. cbn [nonempty negb andb] in H.
      unfold toks_fields in *. cbn [map concat] in *. rewrite app_nil_r in *. unfold toks_field in *.
      cbn [f_name f_opt f_ign f_type nonempty app] in *.
      rewrite tref_not_alias.
      pose proof (parse_structdef_tref ty rest n fuel H Hs) as P.
      destruct (parse_structdef n fuel (toks_tref ty ++ rest)) as [[ls r3] d]. cbn [fst] in P. rewrite P by lia.
      rewrite parse_ty_toks; [reflexivity|assumption|apply vstop_notlt; now apply semi_vstop|lia].
  - apply andb_true_iff in H. destruct H as [H Hb]. apply andb_true_iff in H. destruct H as [Hne Hw].
    destruct vs as [|v vs]; [discriminate|]. rewrite union_toks in *. rewrite <- !app_assoc.
    assert (Hb' : bar || nonempty vs = true).
    { destruct bar; [reflexivity|]. cbn [orb] in *. destruct vs; [discriminate|reflexivity]. }
    assert (Ea : is_alias ((if bar then [KP 124] else []) ++ toks_variant v ++ vtoks vs ++ rest) = false).
    { destruct bar; [reflexivity|]. cbn [app]. unfold toks_variant. rewrite <- app_assoc.
      destruct (vname_toks (v_name v) ((match v_body v with VAlias t => toks_tref t | VFields fs => toks_fields fs end) ++ vtoks vs ++ rest)) as (t & E & Ev).
      rewrite E. destruct t; try discriminate; reflexivity. }
    rewrite Ea. rewrite !app_length in Hn, Hf.
    rewrite parse_structdef_union; [reflexivity|assumption|assumption|assumption| |].
    + destruct bar; cbn [length] in Hn; rewrite app_length; lia.
    + destruct bar; cbn [length] in Hf; rewrite app_length; lia.
Qed.

Lemma parse_funcdecl_ok : forall nm magic args ret bar rest n fuel,
  0 < magic < 4294967296 -> forallb wf2_field args = true -> wf2_def_ret bar ret = true -> semi rest ->
  (S (S (length (toks_fields args) + length (toks_def bar true ret))) < n)%nat ->
  (S (length (toks_fields args) + length (toks_def bar true ret)) < fuel)%nat ->
  parse_funcdecl n fuel nm (toks_magic magic ++ toks_fields args ++ [KFunEq] ++ toks_def bar true ret ++ rest) =
    (st_ok, rest, DFunc nm magic (map erase_field args) (erase_def ret)).
Proof.
  intros nm magic args ret bar rest n fuel Hm Ha Hd Hs Hn Hf. unfold parse_funcdecl, toks_magic.
  replace (magic =? 0) with false by lia. cbn [app]. rewrite hexval_hex8 by lia. replace (magic =? 0) with false by lia.
  rewrite parse_fields_ok; [|assumption|exact I|reflexivity|pose proof (fields_len args Ha); lia|lia].
  replace (is_failed (St (nonempty args) false)) with false by (destruct args; reflexivity).
  cbn [is_funeq tl er]. rewrite parse_ret_ok; [reflexivity|assumption|assumption|lia|lia].
Qed.

(** combinators and files *)
Definition wf2_decl (bar : bool) (d : decl) : bool :=
  match d with
  | DType _ m _ def => (m <? 4294967296) && wf2_def_type bar def
  | DFunc _ m args ret => (0 <? m) && (m <? 4294967296) && forallb wf2_field args && wf2_def_ret bar ret
  end.
Definition wf2_comb (bar : bool) (c : comb) : bool := wf2_decl bar (c_decl c).

Lemma take_anns_ok : forall anns ns nm X, take_anns (map KAnn anns ++ KIdent ns nm :: X) = (anns, KIdent ns nm :: X).
Proof. induction anns as [|a anns IH]; intros; [reflexivity|]. cbn [map app take_anns]. now rewrite IH. Qed.

Lemma fields_funeq_head : forall args X, forallb wf2_field args = true ->
  exists t r, toks_fields args ++ KFunEq :: X = t :: r /\
    (t = KFunEq \/ t = KUnderscore \/ (exists nm, t = KDep nm) \/ exists nm, t = KIdent [] nm).
Proof.
  intros [|f fs] X H; [do 2 eexists; split; [reflexivity|now left]|].
  cbn in H. apply andb_true_iff in H. destruct H as [H _]. rewrite toks_fields_cons, <- app_assoc.
  field_cases f H; do 2 eexists; (split; [reflexivity|]); [right; now left|right; right; left; eauto|right; right; right; eauto].
Qed.

Lemma parse_typedecl_func : forall n fuel nm magic args X, 0 < magic < 4294967296 -> forallb wf2_field args = true ->
  sp (fst (fst (parse_typedecl n fuel nm (toks_magic magic ++ toks_fields args ++ KFunEq :: X)))) = false.
Proof.
  intros n fuel nm magic args X Hm Ha. unfold parse_typedecl, toks_magic. replace (magic =? 0) with false by lia. cbn [app].
  rewrite hexval_hex8 by lia. replace (magic =? 0) with false by lia.
  destruct (fields_funeq_head args X Ha) as (t & r & E & Ht). rewrite E.
  destruct Ht as [-> | [-> | [[x ->] | [x ->]]]]; reflexivity.
Qed.

Lemma parse_comb_ok : forall bar c rest n fuel, wf2_comb bar c = true ->
  (S (S (length (toks_comb bar c))) < n)%nat -> (S (length (toks_comb bar c)) < fuel)%nat ->
  parse_comb n fuel (toks_comb bar c ++ rest) = Some (erase_comb c, rest).
Proof.
  intros bar [cm anns d] rest n fuel H Hn Hf. unfold wf2_comb, toks_comb, erase_comb in *. cbn [c_comment c_anns c_decl] in *.
  rewrite !app_length, map_length in Hn, Hf. cbn [length] in Hn, Hf.
  unfold parse_comb. destruct d as [[ns nm] m ps def|[ns nm] m args ret]; cbn [toks_decl tn_ns tn_name wf2_decl erase_decl] in *.
  - apply andb_true_iff in H. destruct H as [Hm Hd]. cbn [length] in Hn, Hf. rewrite !app_length in Hn, Hf.
    rewrite <- !app_assoc. cbn [app]. rewrite take_anns_ok.
    rewrite <- !app_assoc.
    assert (Hl : (length ps <= length (toks_params ps))%nat).
    { destruct ps as [|p ps]; [cbn; lia|]. rewrite toks_params_cons. cbn [length]. rewrite !app_length.
      assert (length ps <= length (concat (map (fun q => KP 44 :: toks_param q) ps)))%nat.
      { clear. induction ps as [|q ps IH]; [cbn; lia|]. cbn [map concat length]. rewrite app_length. cbn [length]. lia. }
      lia. }
    rewrite (parse_typedecl_ok (TName ns nm) m ps def bar ([KP 59] ++ rest)); [reflexivity|lia|assumption|reflexivity|lia|lia].
  - apply andb_true_iff in H. destruct H as [H Hd]. apply andb_true_iff in H. destruct H as [H Ha].
    apply andb_true_iff in H. destruct H as [Hm0 Hm]. cbn [length] in Hn, Hf. rewrite !app_length in Hn, Hf. cbn [length] in Hn, Hf.
    rewrite <- !app_assoc. cbn [app]. rewrite take_anns_ok. rewrite <- !app_assoc.
    pose proof (parse_typedecl_func n fuel (TName ns nm) m args (toks_def bar true ret ++ KP 59 :: rest)) as Pt.
    cbn [app] in *. destruct (parse_typedecl n fuel (TName ns nm) (toks_magic m ++ toks_fields args ++ KFunEq :: toks_def bar true ret ++ KP 59 :: rest)) as [[ts_st r2] d] eqn:E.
    cbn [fst] in Pt. rewrite Pt by (try assumption; lia).
    change (KFunEq :: toks_def bar true ret ++ KP 59 :: rest) with ([KFunEq] ++ toks_def bar true ret ++ [KP 59] ++ rest).
    rewrite parse_funcdecl_ok; [|lia|assumption|assumption|reflexivity|lia|lia].
    cbn [sp st_ok]. destruct ts_st as [s e]. cbn [sp] in Pt. rewrite Pt by (try assumption; lia).
    cbn [inherit sp er st_ok orb]. 
    assert (e = false).
    { clear - E Hm0 Hm Ha. unfold parse_typedecl, toks_magic in E. replace (m =? 0) with false in E by lia. cbn [app] in E.
      rewrite hexval_hex8 in E by lia. replace (m =? 0) with false in E by lia.
      destruct (fields_funeq_head args (toks_def bar true ret ++ KP 59 :: rest) Ha) as (t & r & E1 & Ht). rewrite E1 in E.
      destruct Ht as [-> | [-> | [[x ->] | [x ->]]]]; cbn in E; congruence. }
    subst e. reflexivity.
Qed.

Lemma toks_comb_nonempty : forall bar c, toks_comb bar c <> [].
Proof. intros bar c. unfold toks_comb. destruct (map KAnn (c_anns c)); [|discriminate]. destruct (toks_decl bar (c_decl c)); discriminate. Qed.

Lemma parse_file_ok : forall (bars : comb -> bool) f k n fuel,
  forallb (fun c => wf2_comb (bars c) c) f = true ->
  (length f < k)%nat ->
  (S (S (length (concat (map (fun c => toks_comb (bars c) c) f)))) < n)%nat ->
  (S (length (concat (map (fun c => toks_comb (bars c) c) f))) < fuel)%nat ->
  parse_file_toks k n fuel (concat (map (fun c => toks_comb (bars c) c) f)) = Some (map erase_comb f).
Proof.
  intros bars f. induction f as [|c f IH]; intros k n fuel Hw Hk Hn Hf; [destruct k; reflexivity|].
  cbn [forallb] in Hw. apply andb_true_iff in Hw. destruct Hw as [Hc Hw].
  cbn [map concat] in *. rewrite app_length in Hn, Hf.
  destruct k; [cbn in Hk; lia|].
  destruct (toks_comb (bars c) c ++ concat (map (fun c0 => toks_comb (bars c0) c0) f)) eqn:E.
  - apply app_eq_nil in E. destruct E as [E _]. now apply toks_comb_nonempty in E.
  - rewrite <- E. cbn [parse_file_toks]. rewrite E. rewrite <- E at 1.
    rewrite parse_comb_ok by (try assumption; lia).
    rewrite IH by (try assumption; cbn in Hk; lia). reflexivity.
Qed.

Definition wf2_file (o : options) (f : list comb) : bool := forallb (fun c => wf2_comb (comb_bar o c) c) f.

Theorem parse2_toks_file : forall o f, wf2_file o f = true -> parse2_toks (toks_file o f) = Some (map erase_comb f).
Proof.
  intros o f H. unfold parse2_toks, toks_file.
  assert (B : (length f <= length (concat (map (fun c => toks_comb (comb_bar o c) c) f)))%nat).
  { assert (H0 : forall c, (1 <= length (toks_comb (comb_bar o c) c))%nat).
    { intro c. pose proof (toks_comb_nonempty (comb_bar o c) c). destruct (toks_comb (comb_bar o c) c); [congruence|cbn; lia]. }
    clear H. induction f as [|c f IH]; [cbn; lia|]. cbn [map concat length]. rewrite app_length. specialize (H0 c). lia. }
  cbv zeta. apply parse_file_ok; [exact H| | |]; lia.
Qed.

(** the round trip: printing (any options), then lexing and parsing, gives the declarations back (comments erased) *)
Theorem parse2_fmt2 : forall o f, forallb (wf_comb o) f = true -> wf2_file o f = true ->
  parse2 (fmt2 o f) = Some (map erase_comb f).
Proof. intros o f H1 H2. unfold parse2. rewrite lex_fmt2 by assumption. now apply parse2_toks_file. Qed.

(** * idempotence *)
Section ignore.
  Variable o : options.
  Hypothesis Hi : o_ignore o = true.

  Lemma print_field_erase : forall f, print_field (erase_field f) = print_field f.
  Proof. intros []. reflexivity. Qed.

  Lemma field_comment_ignore : forall sep f, field_comment o sep f = [].
  Proof. intros. unfold field_comment. now rewrite Hi. Qed.

  Lemma print_variant_fields_erase : forall fs sep, print_variant_fields o (map erase_field fs) sep = print_variant_fields o fs sep.
  Proof.
    intros fs sep. unfold print_variant_fields. rewrite map_map. f_equal. apply map_ext. intro f.
    now rewrite !field_comment_ignore, print_field_erase.
  Qed.

  Lemma print_struct_fields_erase : forall sep force fs first,
    print_struct_fields o sep first force (map erase_field fs) = print_struct_fields o sep first force fs.
  Proof.
    intros sep force fs. induction fs as [|f fs IH]; intro first; [reflexivity|].
    cbn [map print_struct_fields]. now rewrite !field_comment_ignore, print_field_erase, IH.
  Qed.

  Lemma print_variant_erase : forall v p, print_variant o (erase_variant v) p = print_variant o v p.
  Proof.
    intros [nm cm [t|fs]] p; unfold print_variant, erase_variant; cbn [v_name v_comment v_body]; [reflexivity|].
    rewrite Hi. cbn [negb andb]. now rewrite !print_variant_fields_erase.
  Qed.

  Lemma print_variants_erase : forall sep single vs first force,
    print_variants o sep single first force (map erase_variant vs) = print_variants o sep single first force vs.
  Proof.
    intros sep single vs. induction vs as [|v vs IH]; intros first force; [reflexivity|].
    cbn [map print_variants]. rewrite Hi. cbn [negb andb]. rewrite print_variant_erase.
    destruct (print_variant o v (len sep)) as [vt vf]. now rewrite IH.
  Qed.

  Lemma print_def_nl_erase : forall d force isret, print_def_nl o (erase_def d) force isret = print_def_nl o d force isret.
  Proof.
    intros [t|fs|vs] force isret; cbn [erase_def print_def_nl]; [reflexivity| |].
    - rewrite Hi. cbn [negb andb]. now rewrite print_struct_fields_erase.
    - rewrite Hi. cbn [negb andb]. rewrite map_length, print_variants_erase. reflexivity.
  Qed.

  Lemma print_def_erase : forall d p isret, print_def o (erase_def d) p isret = print_def o d p isret.
  Proof. intros. unfold print_def. rewrite print_def_nl_erase. destruct (print_def_nl o d false isret) as [tmp hn]. now rewrite print_def_nl_erase. Qed.

  Lemma print_comb_erase : forall c, print_comb o (erase_comb c) = print_comb o c.
  Proof.
    intros [cm anns d]. unfold print_comb, erase_comb. cbn [c_comment c_anns c_decl]. rewrite Hi. cbn [negb andb].
    f_equal. f_equal. f_equal. destruct d as [nm m ps def|nm m args ret]; cbn [erase_decl print_decl].
    - unfold print_typedecl. now rewrite print_def_erase.
    - unfold print_funcdecl, print_function. rewrite !map_map.
      assert (E : forall sep, map (fun a => sep ++ print_field (erase_field a)) args = map (fun a => sep ++ print_field a) args).
      { intro sep. apply map_ext. intro a. now rewrite print_field_erase. }
      rewrite !E, !print_def_erase. reflexivity.
  Qed.

  Lemma fmt2_erase : forall f, fmt2 o (map erase_comb f) = fmt2 o f.
  Proof. intro f. unfold fmt2. rewrite map_map. f_equal. apply map_ext. intro c. now rewrite print_comb_erase. Qed.
End ignore.

(* with an option set that ignores comments (the canonical one): print, read back, print again = print *)
Theorem fmt2_idempotent_ignore : forall o f, o_ignore o = true -> forallb (wf_comb o) f = true -> wf2_file o f = true ->
  exists f', parse2 (fmt2 o f) = Some f' /\ fmt2 o f' = fmt2 o f.
Proof.
  intros o f Hi H1 H2. exists (map erase_comb f). split; [now apply parse2_fmt2|now apply fmt2_erase].
Qed.

(* declarations without comments come back exactly, with any option set *)
Definition nocm_field (f : field) : bool := negb (nonempty (f_comment f)).
Definition nocm_variant (v : variant) : bool :=
  negb (nonempty (v_comment v)) && match v_body v with VAlias _ => true | VFields fs => forallb nocm_field fs end.
Definition nocm_def (d : typedef) : bool :=
  match d with DAlias _ => true | DStruct fs => forallb nocm_field fs | DUnion vs => forallb nocm_variant vs end.
Definition nocm_comb (c : comb) : bool :=
  negb (nonempty (c_comment c)) &&
  match c_decl c with
  | DType _ _ _ d => nocm_def d
  | DFunc _ _ args d => forallb nocm_field args && nocm_def d
  end.

Lemma map_id_on : forall A (g : A -> A) (p : A -> bool) l, (forall a, p a = true -> g a = a) -> forallb p l = true -> map g l = l.
Proof.
  intros A g p l H. induction l as [|a l IH]; intro Hl; [reflexivity|]. cbn in *. apply andb_true_iff in Hl. destruct Hl.
  now rewrite H, IH.
Qed.

Lemma erase_field_id : forall f, nocm_field f = true -> erase_field f = f.
Proof. intros [nm opt ign [|c cm] ty] H; [reflexivity|discriminate]. Qed.
Lemma erase_variant_id : forall v, nocm_variant v = true -> erase_variant v = v.
Proof.
  intros [nm [|c cm] body] H; [|discriminate]. unfold nocm_variant, erase_variant in *. cbn [v_name v_comment v_body] in *.
  destruct body; [reflexivity|]. cbn in H. now rewrite (map_id_on _ _ _ _ erase_field_id H).
Qed.
Lemma erase_def_id : forall d, nocm_def d = true -> erase_def d = d.
Proof.
  intros [t|fs|vs] H; cbn in *; [reflexivity| |].
  - now rewrite (map_id_on _ _ _ _ erase_field_id H).
  - now rewrite (map_id_on _ _ _ _ erase_variant_id H).
Qed.
Lemma erase_comb_id : forall c, nocm_comb c = true -> erase_comb c = c.
Proof.
  intros [[|x cm] anns d] H; [|discriminate]. unfold nocm_comb, erase_comb in *. cbn [c_comment c_anns c_decl] in *. cbn [nonempty negb andb] in H.
  destruct d as [nm m ps def|nm m args ret]; cbn [erase_decl].
  - now rewrite erase_def_id.
  - apply andb_true_iff in H. destruct H as [Ha Hd]. now rewrite erase_def_id, (map_id_on _ _ _ _ erase_field_id Ha).
Qed.

Theorem parse2_fmt2_exact : forall o f, forallb nocm_comb f = true -> forallb (wf_comb o) f = true -> wf2_file o f = true ->
  parse2 (fmt2 o f) = Some f.
Proof.
  intros o f Hn H1 H2. rewrite parse2_fmt2 by assumption. f_equal. exact (map_id_on _ _ _ _ erase_comb_id Hn).
Qed.

(** F19 (repaired in /repo by commit 2301fcd1): a deprecated field name `_name` now comes back *)
Definition f19_comb : comb :=
  Comb [] [] (DType (TName [] [97]) 0 [] (DStruct [Field [95; 102; 111; 111] false true [] (TApp (TName [] [105; 110; 116]) false [])])).
