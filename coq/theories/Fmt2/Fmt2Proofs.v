(** Proofs about the reading side of the Fmt2 family: the lexer model [lex2] (every step consumes input, fuel is
    irrelevant, [LexTo] composition), the tokens the printers emit, type references ([print_tref] lexes to
    [toks_tref]; [parse_ty] inverts [toks_tref]). *)
From Coq Require Import List NArith Bool Lia ZifyN ZifyNat ZifyBool Arith.
From TLV Require Import Fmt2.Fmt2Model Fmt2.Fmt2LexModel.
Import ListNotations.
Open Scope N_scope.

(** * span / name_ident *)
Lemma span_app : forall p s a b, span p s = (a, b) -> s = a ++ b.
Proof.
  induction s as [|c s IH]; intros a b H; cbn in H.
  - inversion H; reflexivity.
  - destruct (p c).
    + destruct (span p s) as [a' b'] eqn:E. inversion H; subst. cbn. f_equal. now apply IH.
    + inversion H; reflexivity.
Qed.

Lemma span_all : forall p w rest, forallb p w = true ->
  (match rest with [] => True | c :: _ => p c = false end) -> span p (w ++ rest) = (w, rest).
Proof.
  induction w as [|c w IH]; intros rest Hw Hr; cbn.
  - destruct rest as [|d r]; [reflexivity|]. cbn. now rewrite Hr.
  - cbn in Hw. apply andb_true_iff in Hw. destruct Hw as [Hc Hw]. rewrite Hc, (IH rest Hw Hr). reflexivity.
Qed.

Lemma span_len : forall p s a b, span p s = (a, b) -> (length b <= length s)%nat.
Proof. intros. apply span_app in H. subst. rewrite app_length. lia. Qed.

Lemma name_ident_app : forall s a b, name_ident s = (a, b) -> s = a ++ b.
Proof.
  intros [|c s] a b H; cbn in H.
  - inversion H; reflexivity.
  - destruct (letter c).
    + destruct (span identChar s) as [a' b'] eqn:E. inversion H; subst. cbn. f_equal. now apply span_app in E.
    + inversion H; reflexivity.
Qed.

Lemma span_cons_len : forall p c r a b, span p (c :: r) = (a, b) -> p c = true -> (length b <= length r)%nat.
Proof.
  intros p c r a b H Hc. cbn in H. rewrite Hc in H. destruct (span p r) as [a' b'] eqn:E.
  inversion H; subst. eapply span_len; eauto.
Qed.

Lemma name_ident_len : forall s a b, name_ident s = (a, b) -> (length b <= length s)%nat.
Proof. intros. apply name_ident_app in H. subst. rewrite app_length. lia. Qed.

Lemma name_ident_cons_len : forall c r a b, name_ident (c :: r) = (a, b) -> letter c = true -> (length b <= length r)%nat.
Proof.
  intros c r a b H Hc. cbn in H. rewrite Hc in H. destruct (span identChar r) as [a' b'] eqn:E.
  inversion H; subst. eapply span_len; eauto.
Qed.

(** * every lexer step consumes input *)
Lemma lex_step_len : forall s,
  match lex_step s with
  | LErr => True
  | LSkip r => (length r < length s)%nat
  | LTok _ r => (length r < length s)%nat
  end.
Proof.
  intros [|c r]; [exact I|]. unfold lex_step.
  repeat match goal with
  | |- context [if ?b then _ else _] => destruct b eqn:?
  | |- context [match ?x with [] => _ | _ :: _ => _ end] => destruct x eqn:?
  | |- context [let '(_, _) := name_ident ?x in _] => let E := fresh "E" in destruct (name_ident x) as [? ?] eqn:E
  | |- context [let '(_, _) := span ?p ?x in _] => let E := fresh "E" in destruct (span p x) as [? ?] eqn:E
  end; try exact I;
  repeat match goal with
  | H : span ?p (?c :: ?r) = (_, _) |- _ =>
      let Hc := fresh in assert (Hc : p c = true) by (unfold not_eol, identChar, letter, digit in *; lia);
      apply span_cons_len in H; [|exact Hc]
  | H : name_ident (?c :: ?r) = (_, _) |- _ => apply name_ident_cons_len in H; [|assumption]
  | H : span _ _ = (_, _) |- _ => apply span_len in H
  | H : name_ident _ = (_, _) |- _ => apply name_ident_len in H
  end;
  rewrite ?skipn_length; subst; cbn [length] in *; try lia.
Qed.

(** * fuel *)
Lemma lex_fuel_enough : forall n f1 f2 s, (length s <= n)%nat -> (n <= f1)%nat -> (n <= f2)%nat ->
  lex_fuel f1 s = lex_fuel f2 s.
Proof.
  induction n as [|n IH]; intros f1 f2 s Hs H1 H2.
  - destruct s; [|cbn in Hs; lia]. destruct f1, f2; reflexivity.
  - destruct s as [|c r]; [destruct f1, f2; reflexivity|].
    destruct f1 as [|f1]; [lia|]. destruct f2 as [|f2]; [lia|].
    cbn [lex_fuel]. pose proof (lex_step_len (c :: r)) as L.
    destruct (lex_step (c :: r)) as [|r'|t r']; [reflexivity| |].
    + apply IH; cbn [length] in *; lia.
    + rewrite (IH f1 f2 r'); [reflexivity| | |]; cbn [length] in *; lia.
Qed.

Definition lex_cont (st : lexstep) : option (list tok) :=
  match st with
  | LErr => None
  | LSkip r => lex2 r
  | LTok t r => match lex2 r with Some ts => Some (t :: ts) | None => None end
  end.

Lemma lex2_unfold : forall c r, lex2 (c :: r) = lex_cont (lex_step (c :: r)).
Proof.
  intros c r. unfold lex2 at 1. cbn [length lex_fuel].
  pose proof (lex_step_len (c :: r)) as L. unfold lex_cont.
  destruct (lex_step (c :: r)) as [|r'|t r']; [reflexivity| |]; unfold lex2;
  rewrite (lex_fuel_enough (length r') (length r) (length r') r'); cbn [length] in *; try lia; reflexivity.
Qed.

Lemma lex2_nil : lex2 [] = Some [].
Proof. reflexivity. Qed.

(** * [LexTo s ts P]: in front of any tail satisfying P, the text s lexes to the tokens ts *)
Definition prepend (ts : list tok) (o : option (list tok)) : option (list tok) :=
  match o with Some l => Some (ts ++ l) | None => None end.

Definition LexTo (s : str) (ts : list tok) (P : str -> Prop) : Prop :=
  forall tail, P tail -> lex2 (s ++ tail) = prepend ts (lex2 tail).

Lemma prepend_nil : forall o, prepend [] o = o.
Proof. destruct o; reflexivity. Qed.
Lemma prepend_app : forall a b o, prepend (a ++ b) o = prepend a (prepend b o).
Proof. destruct o; cbn; [now rewrite app_assoc|reflexivity]. Qed.

Lemma LexTo_nil : forall P, LexTo [] [] P.
Proof. intros P tail _. cbn. now rewrite prepend_nil. Qed.

Lemma LexTo_app : forall s1 ts1 (P1 : str -> Prop) s2 ts2 (P2 : str -> Prop),
  LexTo s1 ts1 P1 -> LexTo s2 ts2 P2 -> (forall tail, P2 tail -> P1 (s2 ++ tail)) ->
  LexTo (s1 ++ s2) (ts1 ++ ts2) P2.
Proof.
  intros s1 ts1 P1 s2 ts2 P2 H1 H2 H tail Ht.
  rewrite <- app_assoc, H1 by auto. rewrite H2 by auto. now rewrite prepend_app.
Qed.

Lemma LexTo_weaken : forall s ts (P Q : str -> Prop), LexTo s ts P -> (forall t, Q t -> P t) -> LexTo s ts Q.
Proof. intros s ts P Q H HQ tail Ht. apply H, HQ, Ht. Qed.

(* tail conditions: a property of the first byte of the tail (none at the end of the text) *)
Definition hd_ok (f : N -> bool) (tail : str) : Prop :=
  match tail with [] => True | c :: _ => f c = true end.
Definition any_tail : str -> Prop := fun _ => True.
(* after an identifier-like token: no identifier character and no dot *)
Definition nid_c (c : N) : bool := negb (identChar c) && negb (c =? 46).
Definition nid := hd_ok nid_c.
Definition nic_c (c : N) : bool := negb (identChar c).
Definition nic := hd_ok nic_c.

Lemma hd_ok_app : forall f s tail, s <> [] -> hd_ok f s -> hd_ok f (s ++ tail).
Proof. intros f [|c s] tail H1 H2; [congruence|exact H2]. Qed.

Lemma nid_nic : forall t, nid t -> nic t.
Proof. intros [|c t]; [trivial|]. unfold nid, nic, hd_ok, nid_c, nic_c. lia. Qed.

Lemma LexTo_tok : forall s t (P : str -> Prop), s <> [] ->
  (forall tail, P tail -> lex_step (s ++ tail) = LTok t tail) -> LexTo s [t] P.
Proof.
  intros [|c s] t P Hs H tail Ht; [congruence|]. cbn [app]. rewrite lex2_unfold.
  change (c :: s ++ tail) with ((c :: s) ++ tail). rewrite H by exact Ht. cbn. now destruct (lex2 tail).
Qed.

Lemma LexTo_skip : forall s (P : str -> Prop), s <> [] ->
  (forall tail, P tail -> lex_step (s ++ tail) = LSkip tail) -> LexTo s [] P.
Proof.
  intros [|c s] P Hs H tail Ht; [congruence|]. cbn [app]. rewrite lex2_unfold.
  change (c :: s ++ tail) with ((c :: s) ++ tail). rewrite H by exact Ht. cbn. now rewrite prepend_nil.
Qed.

(** * well-formed names *)
Definition wf_ident (w : str) : bool :=
  match w with c :: r => letter c && forallb identChar r | [] => false end.
Definition wf_plain (w : str) : bool := wf_ident w && negb (str_eqb w s_Type).
Definition wf_lc (w : str) : bool :=
  match w with c :: r => lowerCase c && forallb identChar r | [] => false end.
Definition wf_tname (n : tname) : bool :=
  match tn_ns n with
  | [] => wf_plain (tn_name n)
  | _ => wf_lc (tn_ns n) && wf_ident (tn_name n)
  end.

Ltac classes := unfold nid_c, nic_c, not_eol, tl2_illegal, primitive, identChar, hexChar, letter, digit, lowerCase, upperCase in *.

Ltac step_false :=
  match goal with
  | |- context [if ?b then _ else _] =>
      let H := fresh in assert (H : b = false) by (classes; lia); rewrite H; clear H
  end.

Lemma lex_step_letter : forall c r, letter c = true ->
  lex_step (c :: r) =
    let '(w, r') := name_ident (c :: r) in
    if str_eqb w s_Type then LTok KType r'
    else match r' with
         | d :: r2 =>
             if d =? 46 then
               let '(w2, r3) := name_ident r2 in
               match w2 with
               | [] => LTok (KIdent [] w) r'
               | _ => if lowerCase c then LTok (KIdent w w2) r3 else LErr
               end
             else LTok (KIdent [] w) r'
         | [] => LTok (KIdent [] w) r'
         end.
Proof.
  intros c r H. unfold lex_step. do 13 step_false. rewrite H. reflexivity.
Qed.

Lemma lex_step_digit : forall c r, digit c = true ->
  lex_step (c :: r) = let '(w, r') := span identChar (c :: r) in if forallb digit w then LTok (KNum w) r' else LErr.
Proof.
  intros c r H. unfold lex_step. do 12 step_false. rewrite H. reflexivity.
Qed.

Lemma name_ident_all : forall w tail, wf_ident w = true -> nic tail -> name_ident (w ++ tail) = (w, tail).
Proof.
  intros [|c w] tail Hw Ht; [discriminate|]. cbn in Hw. apply andb_true_iff in Hw. destruct Hw as [Hc Hw].
  cbn [app name_ident]. rewrite Hc. rewrite (span_all identChar w tail Hw); [reflexivity|].
  destruct tail; [exact I|]. unfold nic, hd_ok, nic_c in Ht. lia.
Qed.

Lemma name_ident_none : forall tail, hd_ok (fun c => negb (letter c)) tail -> name_ident tail = ([], tail).
Proof. intros [|c t] H; [reflexivity|]. cbn in *. destruct (letter c); [discriminate|reflexivity]. Qed.

Lemma wf_ident_letter : forall c w, wf_ident (c :: w) = true -> letter c = true.
Proof. intros c w H. cbn in H. now apply andb_true_iff in H. Qed.

Lemma wf_lc_ident : forall w, wf_lc w = true -> wf_ident w = true.
Proof. intros [|c w] H; [discriminate|]. cbn in *. classes. lia. Qed.

(** identifiers *)
Lemma LexTo_plain : forall w, wf_plain w = true -> LexTo w [KIdent [] w] nid.
Proof.
  intros w H. unfold wf_plain in H. apply andb_true_iff in H. destruct H as [Hw HT].
  apply LexTo_tok; [destruct w; [discriminate|congruence]|]. intros tail Ht.
  destruct w as [|c w]; [discriminate|]. cbn [app]. rewrite lex_step_letter by (eapply wf_ident_letter; eauto).
  change (c :: w ++ tail) with ((c :: w) ++ tail). rewrite name_ident_all by (auto using nid_nic).
  apply negb_true_iff in HT. rewrite HT.
  destruct tail as [|d t]; [reflexivity|]. unfold nid, hd_ok, nid_c in Ht.
  replace (d =? 46) with false by lia. reflexivity.
Qed.

Lemma LexTo_ns : forall ns w, wf_lc ns = true -> wf_ident w = true -> LexTo (ns ++ [46] ++ w) [KIdent ns w] nic.
Proof.
  intros ns w Hns Hw. apply LexTo_tok; [destruct ns; discriminate|]. intros tail Ht.
  destruct ns as [|c ns]; [discriminate|]. rewrite <- !app_assoc. cbn [app].
  assert (Hl : lowerCase c = true) by (cbn in Hns; now apply andb_true_iff in Hns).
  rewrite lex_step_letter by (classes; lia).
  change (c :: ns ++ 46 :: w ++ tail) with ((c :: ns) ++ 46 :: w ++ tail).
  rewrite name_ident_all; [|now apply wf_lc_ident|cbn; reflexivity].
  assert (HT : str_eqb (c :: ns) s_Type = false).
  { cbn. destruct (c =? 84) eqn:E; [|reflexivity]. classes. lia. }
  rewrite HT. cbn [N.eqb Pos.eqb]. replace (46 =? 46) with true by reflexivity.
  rewrite name_ident_all by assumption. destruct w; [discriminate|]. now rewrite Hl.
Qed.

Lemma LexTo_tname : forall n, wf_tname n = true -> LexTo (print_tname n) [KIdent (tn_ns n) (tn_name n)] nid.
Proof.
  intros [ns w] H. unfold wf_tname in H. unfold print_tname. cbn [tn_ns tn_name] in *.
  destruct ns as [|c ns].
  - cbn [nonempty app]. now apply LexTo_plain.
  - cbn [nonempty]. apply andb_true_iff in H. destruct H as [H1 H2].
    rewrite <- app_assoc. eapply LexTo_weaken; [apply LexTo_ns; assumption|apply nid_nic].
Qed.

(** numbers *)
Lemma digit_ident : forall w, forallb digit w = true -> forallb identChar w = true.
Proof. induction w as [|c w IH]; [reflexivity|]. cbn. intro H. apply andb_true_iff in H. destruct H. rewrite IH by assumption. classes. lia. Qed.
Lemma hex_ident : forall w, forallb hexChar w = true -> forallb identChar w = true.
Proof. induction w as [|c w IH]; [reflexivity|]. cbn. intro H. apply andb_true_iff in H. destruct H. rewrite IH by assumption. classes. lia. Qed.

Lemma nic_span : forall tail, nic tail -> match tail with [] => True | c :: _ => identChar c = false end.
Proof. intros [|c t] H; [exact I|]. unfold nic, hd_ok, nic_c in H. lia. Qed.

Lemma LexTo_num : forall w, w <> [] -> forallb digit w = true -> LexTo w [KNum w] nic.
Proof.
  intros w Hne Hw. apply LexTo_tok; [assumption|]. intros tail Ht.
  destruct w as [|c w]; [congruence|]. cbn [app]. assert (Hc : digit c = true) by (cbn in Hw; now apply andb_true_iff in Hw).
  rewrite lex_step_digit by assumption. change (c :: w ++ tail) with ((c :: w) ++ tail).
  rewrite span_all; [now rewrite Hw|now apply digit_ident|now apply nic_span].
Qed.

Definition dval (ds : str) : N := fold_left (fun a d => a * 10 + (d - 48)) ds 0.
Lemma dval_undec : forall w, undec w = dval w. Proof. reflexivity. Qed.
Lemma dval_app1 : forall ds d, dval (ds ++ [d]) = dval ds * 10 + (d - 48).
Proof. intros. unfold dval. now rewrite fold_left_app. Qed.

Lemma dec_aux_spec : forall f n acc, n < 2 ^ N.of_nat f ->
  exists ds, dec_aux (S f) n acc = ds ++ acc /\ ds <> [] /\ forallb digit ds = true /\ dval ds = n.
Proof.
  induction f as [|f IH]; intros n acc Hn.
  - assert (n = 0) by (cbn in Hn; lia). subst. exists [48]. cbn. repeat split; congruence.
  - cbn [dec_aux]. destruct (n <? 10) eqn:E.
    + exists [48 + n mod 10]. repeat split; try congruence.
      * cbn [forallb]. rewrite andb_true_r. unfold digit. lia.
      * unfold dval. cbn [fold_left]. lia.
    + assert (Hd : n / 10 < 2 ^ N.of_nat f).
      { rewrite Nat2N.inj_succ, N.pow_succ_r' in Hn. lia. }
      destruct (IH (n / 10) ((48 + n mod 10) :: acc) Hd) as (ds & E1 & Hne & Hdig & Hval).
      exists (ds ++ [48 + n mod 10]). repeat split.
      * rewrite <- app_assoc. exact E1.
      * destruct ds; discriminate.
      * rewrite forallb_app, Hdig. cbn [forallb andb]. rewrite andb_true_r. unfold digit. lia.
      * rewrite dval_app1, Hval. lia.
Qed.

Lemma lt_pow2_size_nat : forall n, n < 2 ^ N.of_nat (N.size_nat n).
Proof.
  destruct n as [|p]; [cbn; lia|]. cbn [N.size_nat].
  induction p as [p IH|p IH|]; cbn [Pos.size_nat].
  - rewrite Nat2N.inj_succ, N.pow_succ_r'. lia.
  - rewrite Nat2N.inj_succ, N.pow_succ_r'. lia.
  - cbn. lia.
Qed.

Lemma dec_spec : forall n, dec n <> [] /\ forallb digit (dec n) = true /\ undec (dec n) = n.
Proof.
  intro n. unfold dec.
  destruct (dec_aux_spec (N.size_nat n) n [] (lt_pow2_size_nat n)) as (ds & E & H1 & H2 & H3).
  rewrite app_nil_r in E. rewrite E. auto.
Qed.

Lemma dec_inj : forall a b, dec a = dec b -> a = b.
Proof.
  intros a b H. destruct (dec_spec a) as (_ & _ & Ha). destruct (dec_spec b) as (_ & _ & Hb).
  rewrite <- Ha, <- Hb. now rewrite H.
Qed.

Lemma LexTo_dec : forall n, LexTo (dec n) [KNum (dec n)] nic.
Proof. intro n. destruct (dec_spec n) as (H1 & H2 & _). now apply LexTo_num. Qed.

(** magic *)
Lemma hexk_length : forall k n, length (hexk k n) = k.
Proof. induction k; intro n; cbn; [reflexivity|]. rewrite app_length, IHk. cbn. lia. Qed.
Lemma hexk_hex : forall k n, forallb hexChar (hexk k n) = true.
Proof.
  induction k; intro n; cbn; [reflexivity|]. rewrite forallb_app, IHk. cbn. rewrite andb_true_r.
  unfold hexdigit. assert (n mod 16 < 16) by (apply N.mod_lt; lia).
  destruct (n mod 16 <? 10) eqn:E; classes; lia.
Qed.

Lemma lex_step_hash : forall r, lex_step (35 :: r) =
  let '(w, r') := span identChar r in
  match w with
  | [] => LTok KNumSign r
  | _ => if forallb hexChar w && Nat.eqb (length w) 8 then LTok (KCrc w) r' else LErr
  end.
Proof. reflexivity. Qed.

Lemma LexTo_crc : forall w, length w = 8%nat -> forallb hexChar w = true -> LexTo (35 :: w) [KCrc w] nic.
Proof.
  intros w Hl Hw. apply LexTo_tok; [discriminate|]. intros tail Ht. cbn [app].
  rewrite lex_step_hash, span_all; [|now apply hex_ident|now apply nic_span].
  destruct w; [discriminate|]. rewrite Hw, Hl. reflexivity.
Qed.

Lemma LexTo_numsign : LexTo [35] [KNumSign] nic.
Proof.
  apply LexTo_tok; [discriminate|]. intros tail Ht. cbn [app]. rewrite lex_step_hash.
  destruct tail as [|c t]; [reflexivity|]. cbn [span]. apply nic_span in Ht. now rewrite Ht.
Qed.

(** annotations, Type, underscore *)
Lemma lex_step_at : forall r, lex_step (64 :: r) =
  let '(w, r') := name_ident r in
  match w with
  | h :: _ => if lowerCase h then LTok (KAnn w) r' else LErr
  | [] => LErr
  end.
Proof. reflexivity. Qed.

Lemma LexTo_ann : forall w, wf_lc w = true -> LexTo (64 :: w) [KAnn w] nic.
Proof.
  intros w Hw. apply LexTo_tok; [discriminate|]. intros tail Ht. cbn [app].
  rewrite lex_step_at, name_ident_all by (auto using wf_lc_ident).
  destruct w as [|c w]; [discriminate|]. cbn in Hw. apply andb_true_iff in Hw. destruct Hw as [Hc _]. now rewrite Hc.
Qed.

Lemma LexTo_Type : LexTo s_Type [KType] nic.
Proof.
  apply LexTo_tok; [discriminate|]. intros tail Ht. unfold s_Type. cbn [app].
  rewrite lex_step_letter by reflexivity. change (84 :: 121 :: 112 :: 101 :: tail) with (s_Type ++ tail).
  rewrite name_ident_all by (auto; reflexivity). reflexivity.
Qed.

Definition nolet : str -> Prop := hd_ok (fun c => negb (letter c)).

Lemma lex_step_us : forall r, lex_step (95 :: r) =
  let '(w, r') := name_ident r in
  match w with
  | [] => LTok KUnderscore r
  | _ => LTok (KDep w) r'
  end.
Proof. reflexivity. Qed.

Lemma LexTo_underscore : LexTo [95] [KUnderscore] nolet.
Proof.
  apply LexTo_tok; [discriminate|]. intros tail Ht. cbn [app]. now rewrite lex_step_us, name_ident_none.
Qed.

(** punctuation *)
Lemma LexTo_funeq : LexTo [61; 62] [KFunEq] any_tail.
Proof. apply LexTo_tok; [discriminate|]. intros tail _. reflexivity. Qed.
Lemma LexTo_alias : LexTo s_alias [KAlias] any_tail.
Proof. apply LexTo_tok; [discriminate|]. intros tail _. reflexivity. Qed.

Definition not_c (x : N) : str -> Prop := hd_ok (fun c => negb (c =? x)).

Lemma LexTo_eq : LexTo [61] [KP 61] (not_c 62).
Proof.
  apply LexTo_tok; [discriminate|]. intros [|d t] Ht; [reflexivity|]. cbn in Ht. cbn [app].
  change (lex_step (61 :: d :: t)) with (if d =? 62 then LTok KFunEq t else LTok (KP 61) (d :: t)).
  destruct (d =? 62); [discriminate|reflexivity].
Qed.

Lemma LexTo_lt : LexTo [60] [KP 60] (not_c 61).
Proof.
  apply LexTo_tok; [discriminate|]. intros [|d t] Ht; [reflexivity|]. cbn in Ht. cbn [app].
  change (lex_step (60 :: d :: t)) with (if has_prefix (d :: t) [61; 62] then LTok KAlias (skipn 2 (d :: t)) else LTok (KP 60) (d :: t)).
  cbn [has_prefix]. replace (61 =? d) with false by lia. reflexivity.
Qed.

Lemma LexTo_prim : forall c, primitive c = true -> LexTo [c] [KP c] any_tail.
Proof.
  intros c Hc. apply LexTo_tok; [discriminate|]. intros tail _. cbn [app]. unfold lex_step.
  do 2 step_false. now rewrite Hc.
Qed.

(** layout *)
Definition blank (c : N) : bool := (c =? 32) || (c =? 9) || (c =? 10).

Lemma LexTo_blank : forall c, blank c = true -> LexTo [c] [] any_tail.
Proof.
  intros c Hc. apply LexTo_skip; [discriminate|]. intros tail _. cbn [app]. unfold lex_step.
  destruct ((c =? 32) || (c =? 9)) eqn:E; [reflexivity|].
  assert (c = 10) by (unfold blank in Hc; lia). subst. reflexivity.
Qed.

Lemma LexTo_blanks : forall s, forallb blank s = true -> LexTo s [] any_tail.
Proof.
  induction s as [|c s IH]; intro H; [apply LexTo_nil|]. cbn in H. apply andb_true_iff in H. destruct H as [Hc Hs].
  change (c :: s) with ([c] ++ s). change (@nil tok) with (@nil tok ++ []).
  eapply LexTo_app; [apply LexTo_blank; assumption|apply IH; assumption|]. intros; exact I.
Qed.

(* one trimmed comment line as the printers write it: empty, or a single TL2 comment token *)
Definition is_comment (l : str) : bool :=
  match l with
  | [] => true
  | c :: d :: _ => (c =? 47) && (d =? 47) && forallb not_eol l && utf8_ok l
  | _ => false
  end.

Lemma lex_step_slash : forall r, lex_step (47 :: 47 :: r) =
  let '(cm, r') := span not_eol (47 :: 47 :: r) in if utf8_ok cm then LSkip r' else LErr.
Proof. reflexivity. Qed.

(* a comment line followed by a line feed lexes to nothing *)
Lemma LexTo_comment_nl : forall l, is_comment l = true -> LexTo (l ++ [10]) [] any_tail.
Proof.
  intros l H. destruct l as [|c [|d l]]; [apply (LexTo_blank 10); reflexivity|discriminate|].
  cbn [is_comment] in H. repeat (apply andb_true_iff in H; destruct H as [H ?]).
  assert (c = 47) by lia. assert (d = 47) by lia. subst.
  change ((47 :: 47 :: l) ++ [10]) with ((47 :: 47 :: l) ++ [10] ++ []).
  change (@nil tok) with (@nil tok ++ []).
  apply (LexTo_app _ _ (hd_ok (fun c => negb (not_eol c))) _ _ any_tail).
  - apply LexTo_skip; [discriminate|]. intros tail Ht. cbn [app]. rewrite lex_step_slash.
    change (47 :: 47 :: l ++ tail) with ((47 :: 47 :: l) ++ tail).
    rewrite span_all; [now rewrite H0|assumption|].
    destruct tail; [exact I|]. cbn in Ht. now apply negb_true_iff in Ht.
  - apply (LexTo_blank 10); reflexivity.
  - intros. cbn. reflexivity.
Qed.

(** * type references *)
Section tref_ind2.
  Variables (P : tref -> Prop) (Q : targ -> Prop).
  Hypotheses (HApp : forall nm bare args, Forall Q args -> P (TApp nm bare args))
             (HArr : forall e, P e -> P (TArr e))
             (HIdx : forall i e, Q i -> P e -> P (TIdx i e))
             (HNum : forall n, Q (ANum n))
             (HTy : forall t, P t -> Q (ATy t)).
  Fixpoint tref_ind2 (t : tref) : P t :=
    match t with
    | TApp nm bare args =>
        HApp nm bare args
          ((fix go (l : list targ) : Forall Q l :=
              match l with
              | [] => Forall_nil _
              | a :: r => Forall_cons _ (targ_ind2 a) (go r)
              end) args)
    | TArr e => HArr e (tref_ind2 e)
    | TIdx i e => HIdx i e (targ_ind2 i) (tref_ind2 e)
    end
  with targ_ind2 (a : targ) : Q a :=
    match a with
    | ANum n => HNum n
    | ATy t => HTy t (tref_ind2 t)
    end.
  Lemma tref_targ_ind : (forall t, P t) /\ (forall a, Q a).
  Proof. split; [exact tref_ind2|exact targ_ind2]. Qed.
End tref_ind2.

Fixpoint wf_tref (t : tref) : bool :=
  match t with
  | TApp nm bare args => negb bare && wf_tname nm && forallb wf_targ args
  | TArr e => wf_tref e
  | TIdx i e => wf_targ i && wf_tref e
  end
with wf_targ (a : targ) : bool :=
  match a with
  | ANum n => n <=? uint32_max
  | ATy t => wf_tref t
  end.

Lemma join_cons : forall A (sep : list A) x l, join sep (x :: l) = x ++ concat (map (fun y => sep ++ y) l).
Proof.
  intros A sep x l. revert x. induction l as [|y l IH]; intro x.
  - cbn. now rewrite app_nil_r.
  - change (join sep (x :: y :: l)) with (x ++ sep ++ join sep (y :: l)). rewrite IH. cbn. f_equal. apply app_assoc.
Qed.

Lemma P_concat : forall A (pr : A -> str) (P : str -> Prop) l tail,
  (forall a t, In a l -> P t -> P (pr a ++ t)) -> P tail -> P (concat (map pr l) ++ tail).
Proof.
  intros A pr P l tail HP Ht. induction l as [|a l IH]; [exact Ht|]. cbn. rewrite <- app_assoc.
  apply HP; [now left|]. apply IH. intros; apply HP; [now right|assumption].
Qed.

Lemma LexTo_concat : forall A (pr : A -> str) (tk : A -> list tok) (P : str -> Prop) l,
  Forall (fun a => LexTo (pr a) (tk a) P) l ->
  (forall a tail, In a l -> P tail -> P (pr a ++ tail)) ->
  LexTo (concat (map pr l)) (concat (map tk l)) P.
Proof.
  intros A pr tk P l H HP. induction H as [|a l Ha Hl IH]; cbn.
  - apply LexTo_nil.
  - eapply LexTo_app; [exact Ha|apply IH|].
    + intros; apply HP; [now right|assumption].
    + intros tail Ht. apply P_concat; [|exact Ht]. intros; apply HP; [now right|assumption].
Qed.

Lemma LexTo_join : forall A (pr : A -> str) (tk : A -> list tok) (P : str -> Prop) sep septok l,
  Forall (fun a => LexTo (pr a) (tk a) P) l ->
  LexTo sep septok any_tail ->
  (forall tail, P (sep ++ tail)) ->
  LexTo (join sep (map pr l)) (join septok (map tk l)) P.
Proof.
  intros A pr tk P sep septok l H Hsep HP. destruct H as [|a l Ha Hl]; [apply LexTo_nil|].
  cbn [map]. rewrite !join_cons, !map_map.
  eapply LexTo_app; [exact Ha| |].
  - apply (LexTo_concat A (fun y => sep ++ pr y) (fun y => septok ++ tk y) P).
    + eapply Forall_impl; [|exact Hl]. intros b Hb. cbn beta.
      eapply LexTo_app; [exact Hsep|exact Hb|intros; exact I].
    + intros b tail _ _. rewrite <- app_assoc. apply HP.
  - intros tail Ht. apply (P_concat A (fun y => sep ++ pr y)); [|exact Ht].
    intros b t _ _. rewrite <- app_assoc. apply HP.
Qed.

(* the first byte of a printed type reference / argument: a letter, a digit or '[' *)
Definition start_c (c : N) : bool := letter c || digit c || (c =? 91).
Definition starts (s : str) : Prop := match s with c :: _ => start_c c = true | [] => False end.

Lemma starts_app : forall s t, starts s -> starts (s ++ t).
Proof. intros [|c s] t H; [destruct H|exact H]. Qed.

Lemma print_tname_starts : forall n, wf_tname n = true -> starts (print_tname n).
Proof.
  intros [ns w] H. unfold wf_tname, print_tname in *. cbn [tn_ns tn_name] in *. destruct ns as [|c ns].
  - cbn. unfold wf_plain in H. destruct w; [discriminate|]. cbn in *. unfold start_c. lia.
  - cbn in *. unfold start_c. classes. lia.
Qed.

Lemma dec_starts : forall n, starts (dec n).
Proof.
  intro n. destruct (dec_spec n) as (H1 & H2 & _). destruct (dec n) as [|c w]; [congruence|].
  cbn in *. unfold start_c. lia.
Qed.

Lemma print_tref_starts : forall t, wf_tref t = true -> starts (print_tref t).
Proof.
  intros [nm bare args|e|i e] H; cbn in *; try reflexivity.
  apply andb_true_iff in H. destruct H as [H _]. apply andb_true_iff in H. destruct H as [Hb Hn].
  destruct bare; [discriminate|]. cbn [app]. apply starts_app. now apply print_tname_starts.
Qed.

Lemma print_targ_starts : forall a, wf_targ a = true -> starts (print_targ a).
Proof. intros [n|t] H; cbn in *; [apply dec_starts|now apply print_tref_starts]. Qed.

Lemma starts_not_c : forall x s t, start_c x = false -> starts s -> not_c x (s ++ t).
Proof.
  intros x [|c s] t Hx H; [destruct H|]. cbn in *. destruct (c =? x) eqn:E; [|reflexivity].
  assert (c = x) by lia. subst. congruence.
Qed.

Lemma nid_cons : forall c t, nid_c c = true -> nid (c :: t).
Proof. intros. exact H. Qed.

Lemma LexTo_p : forall c, primitive c = true -> forall P : str -> Prop, LexTo [c] [KP c] P.
Proof. intros c H P. eapply LexTo_weaken; [apply LexTo_prim; exact H|intros; exact I]. Qed.

Lemma LexTo_tref_targ :
  (forall t, wf_tref t = true -> LexTo (print_tref t) (toks_tref t) nid) /\
  (forall a, wf_targ a = true -> LexTo (print_targ a) (toks_targ a) nid).
Proof.
  apply tref_targ_ind.
  - intros nm bare args IH H. cbn [wf_tref] in H.
    apply andb_true_iff in H. destruct H as [H Hargs]. apply andb_true_iff in H. destruct H as [Hb Hn].
    destruct bare; [discriminate|]. cbn [print_tref toks_tref].
    apply (LexTo_app [] [] any_tail _ _ nid); [apply LexTo_nil| |intros; exact I].
    destruct args as [|a args].
    + cbn [nonempty]. rewrite app_nil_r. now apply LexTo_tname.
    + cbn [nonempty].
      assert (IH' : Forall (fun a => LexTo (print_targ a) (toks_targ a) nid) (a :: args)).
      { rewrite Forall_forall in *. intros x Hx. apply IH; [exact Hx|]. rewrite forallb_forall in Hargs. now apply Hargs. }
      apply (LexTo_app (print_tname nm) [KIdent (tn_ns nm) (tn_name nm)] nid _ _ nid);
        [now apply LexTo_tname| |intros; reflexivity].
      apply (LexTo_app [60] [KP 60] (not_c 61) _ _ nid); [apply LexTo_lt| |].
      * apply (LexTo_app _ _ nid [62] [KP 62] nid);
          [apply LexTo_join; [exact IH'|apply (LexTo_prim 44); reflexivity|intros; reflexivity]
          |apply (LexTo_p 62); reflexivity|intros; reflexivity].
      * intros tail _. rewrite <- app_assoc. cbn [map]. rewrite join_cons, <- app_assoc.
        apply starts_not_c; [reflexivity|]. apply print_targ_starts. cbn in Hargs. now apply andb_true_iff in Hargs.
  - intros e IH H. cbn [wf_tref] in H. cbn [print_tref toks_tref].
    apply (LexTo_app [91] [KP 91] any_tail _ _ nid); [apply (LexTo_prim 91); reflexivity| |intros; exact I].
    apply (LexTo_app [93] [KP 93] any_tail _ _ nid); [apply (LexTo_prim 93); reflexivity|now apply IH|intros; exact I].
  - intros i e IHi IHe H. cbn [wf_tref] in H. apply andb_true_iff in H. destruct H as [Hi He].
    cbn [print_tref toks_tref].
    apply (LexTo_app [91] [KP 91] any_tail _ _ nid); [apply (LexTo_prim 91); reflexivity| |intros; exact I].
    apply (LexTo_app _ _ nid _ _ nid); [now apply IHi| |intros; reflexivity].
    apply (LexTo_app [93] [KP 93] any_tail _ _ nid); [apply (LexTo_prim 93); reflexivity|now apply IHe|intros; exact I].
  - intros n _. cbn [print_targ toks_targ]. eapply LexTo_weaken; [apply LexTo_dec|apply nid_nic].
  - intros t IH H. cbn in *. now apply IH.
Qed.

Definition LexTo_tref := proj1 LexTo_tref_targ.
Definition LexTo_targ := proj2 LexTo_tref_targ.

(** * parse_ty inverts toks_tref *)
Definition notlt (r : list tok) : Prop := hd_is 60 r = false.

Lemma parse_args_ok : forall l,
  Forall (fun a => wf_targ a = true -> forall rest fuel, notlt rest -> (S (length (toks_targ a)) < fuel)%nat ->
                   parse_arg fuel (toks_targ a ++ rest) = POk a rest) l ->
  forallb wf_targ l = true ->
  forall rest fuel,
    (length (concat (map (fun a => KP 44 :: toks_targ a) l)) + 1 < fuel)%nat ->
    parse_args fuel (concat (map (fun a => KP 44 :: toks_targ a) l) ++ KP 62 :: rest) = POk l rest.
Proof.
  induction 1 as [|a l Ha Hl IH]; intros Hwf rest fuel Hf.
  - destruct fuel; [cbn in Hf; lia|]. reflexivity.
  - cbn [forallb] in Hwf. apply andb_true_iff in Hwf. destruct Hwf as [Hwa Hwl].
    cbn [map concat] in *. rewrite !app_length in Hf. cbn [length app] in Hf.
    destruct fuel as [|f]; [lia|]. rewrite <- !app_assoc. cbn [app parse_args is_p].
    replace (44 =? 44) with true by reflexivity.
    rewrite Ha; [|assumption|destruct l; reflexivity|lia].
    rewrite IH; [reflexivity|assumption|lia].
Qed.

Lemma parse_toks :
  (forall t, wf_tref t = true -> forall rest fuel, notlt rest -> (length (toks_tref t) < fuel)%nat ->
             parse_ty fuel (toks_tref t ++ rest) = POk t rest) /\
  (forall a, wf_targ a = true -> forall rest fuel, notlt rest -> (S (length (toks_targ a)) < fuel)%nat ->
             parse_arg fuel (toks_targ a ++ rest) = POk a rest).
Proof.
  apply tref_targ_ind.
  - intros [ns nm] bare args IH H rest fuel Hr Hf. cbn [wf_tref] in H.
    apply andb_true_iff in H. destruct H as [H Hargs]. apply andb_true_iff in H. destruct H as [Hb Hn].
    destruct bare; [discriminate|]. cbn [toks_tref tn_ns tn_name] in *.
    destruct fuel as [|f]; [lia|]. destruct args as [|a args].
    + cbn [nonempty app parse_ty]. unfold notlt in Hr. now rewrite Hr.
    + cbn [nonempty map] in *. rewrite join_cons in *. rewrite map_map in *.
      cbn [length app] in Hf. rewrite ?app_length in Hf. cbn [length] in Hf. rewrite ?app_length in Hf. cbn [length] in Hf.
      cbn [app parse_ty hd_is is_p tl]. replace (60 =? 60) with true by reflexivity.
      inversion IH as [|? ? Ha Hl]; subst. cbn [forallb] in Hargs. apply andb_true_iff in Hargs. destruct Hargs as [Hwa Hwl].
      rewrite <- !app_assoc. rewrite Ha; [|assumption| |lia].
      * cbn [app]. rewrite (parse_args_ok args Hl Hwl); [reflexivity|lia].
      * destruct args; reflexivity.
  - intros e IH H rest fuel Hr Hf. cbn [wf_tref toks_tref] in *. cbn [app length] in Hf.
    destruct fuel as [|f]; [lia|]. cbn [app parse_ty]. replace (91 =? 91) with true by reflexivity.
    assert (E : parse_arg f (KP 93 :: toks_tref e ++ rest) = POmit).
    { destruct f as [|[|f]]; [lia|lia|]. reflexivity. }
    rewrite E. cbn [hd_is is_p tl]. replace (93 =? 93) with true by reflexivity.
    rewrite IH; [reflexivity|assumption|assumption|lia].
  - intros i e IHi IHe H rest fuel Hr Hf. cbn [wf_tref toks_tref] in *. apply andb_true_iff in H. destruct H as [Hi He].
    cbn [app length] in Hf. rewrite !app_length in Hf. cbn [length] in Hf.
    destruct fuel as [|f]; [lia|]. cbn [app parse_ty]. replace (91 =? 91) with true by reflexivity.
    rewrite <- !app_assoc. rewrite IHi; [|assumption|reflexivity|lia].
    cbn [app hd_is is_p tl]. replace (93 =? 93) with true by reflexivity.
    rewrite IHe; [reflexivity|assumption|assumption|lia].
  - intros n H rest fuel Hr Hf. cbn [wf_targ toks_targ] in *. destruct fuel as [|f]; [lia|].
    cbn [app parse_arg]. destruct (dec_spec n) as (_ & _ & E). rewrite E, H. reflexivity.
  - intros t IH H rest fuel Hr Hf. cbn [wf_targ toks_targ] in *. destruct fuel as [|f]; [lia|].
    cbn [parse_arg]. rewrite IH; [|assumption|assumption|lia].
    destruct t; reflexivity.
Qed.
