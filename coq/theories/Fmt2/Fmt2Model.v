(** M [Fmt2] -- the TL2 formatter of internal/tlast/tlast_tl2_view.go:
      - [print_tref] / [print_targ]   TL2TypeRef.Print, TL2BracketType.Print, TL2TypeApplication.Print, TL2TypeArgument.Print
      - [print_field]                 TL2Field.Print
      - [print_variant]               TL2UnionConstructor.print / printVariantFields
      - [print_def_nl], [print_def]   TL2TypeDefinition.printWithNewLineOption / .print
      - [print_typedecl]              TL2TypeDeclaration.print
      - [print_function], [print_funcdecl]  TL2FuncDeclaration.printFunction / .print
      - [print_comb], [fmt2]          TL2Combinator.Print, TL2File.Print
      - [default_options], [canonical_options]   NewDefaultFormatOptions / NewCanonicalFormatOptions
    Executable definitions only, transcribed branch by branch (same order of writes; every [sb.Len()] difference
    the Go code computes is the length of the corresponding piece of text here).  Proofs live in Fmt2Proofs.v.
    Strings are byte lists ([N] < 256); Go's [len]/[sb.Len()] are byte counts, [len] below.
    The AST mirrors tlast.TL2Combinator / TL2TypeDeclaration / TL2FuncDeclaration / TL2TypeDefinition /
    TL2UnionConstructor / TL2Field / TL2TypeRef / TL2TypeArgument with the variant the Go flags select
    (IsFunction, IsTypeAlias, IsUnionType, BracketType != nil, HasIndex, IsNumber) made a constructor, minus
    positions, CommentRight (never printed) and OriginalArgumentName (set by type resolution only). *)
From Coq Require Export List NArith Bool.
From TLV Require Export Gen.Fmt2Consts.
Export ListNotations.
Open Scope N_scope.

Definition str := list N.

(** ** AST *)
Record tname := TName { tn_ns : str; tn_name : str }.

Inductive tref :=
| TApp (nm : tname) (bare : bool) (args : list targ)   (* TL2TypeApplication *)
| TArr (elem : tref)                                   (* TL2BracketType, HasIndex = false:  []T  *)
| TIdx (idx : targ) (elem : tref)                      (* TL2BracketType, HasIndex = true:   [i]T *)
with targ :=
| ANum (n : N)                                         (* IsNumber, Number (uint32) *)
| ATy (t : tref).

Record field := Field {
  f_name : str; f_opt : bool; f_ign : bool; f_comment : str (* CommentBefore *); f_type : tref }.

Inductive vbody :=
| VAlias (t : tref)              (* IsTypeAlias: TypeAlias *)
| VFields (fs : list field).     (* Fields *)
Record variant := Variant { v_name : str; v_comment : str; v_body : vbody }.

Inductive typedef :=
| DAlias (t : tref)              (* IsTypeAlias *)
| DStruct (fs : list field)      (* StructType.ConstructorFields *)
| DUnion (vs : list variant).    (* StructType.IsUnionType: UnionType.Variants *)

Record tparam := TParam { tp_name : str; tp_isnat : bool }.

Inductive decl :=
| DType (nm : tname) (magic : N) (params : list tparam) (def : typedef)
| DFunc (nm : tname) (magic : N) (args : list field) (ret : typedef).

Record comb := Comb { c_comment : str; c_anns : list str; c_decl : decl }.

Record options := Options { o_ignore : bool; o_oneline : N; o_union : N }.

Definition default_options : options := Options false f2_OneLineConstructorSize f2_UnionConstructorSize.
(* math.MaxInt32 - 10000 *)
Definition canonical_options : options := Options true 2147473647 2147473647.

(** ** strings *)
Definition len (s : str) : N := N.of_nat (length s).
Definition nonempty {A} (s : list A) : bool := match s with [] => false | _ => true end.

Fixpoint str_eqb (a b : str) : bool :=
  match a, b with
  | [], [] => true
  | x :: a', y :: b' => (x =? y) && str_eqb a' b'
  | _, _ => false
  end.

(* strings.Join-like: the Go loops write the separator when i != 0 *)
Fixpoint join {A} (sep : list A) (l : list (list A)) : list A :=
  match l with
  | [] => []
  | [x] => x
  | x :: r => x ++ sep ++ join sep r
  end.

Definition s_nl_tab : str := [10; 9].            (* "\n\t" *)
Definition s_nl_tab2 : str := [10; 9; 9].        (* "\n\t\t" *)
Definition s_sp : str := [32].
Definition s_bar_sp : str := [124; 32].          (* "| " *)
Definition s_funeq_sp : str := [61; 62; 32].     (* "=> " *)
Definition s_sp_alias_sp : str := [32; 60; 61; 62; 32].  (* " <=> " *)
Definition s_alias : str := [60; 61; 62].        (* "<=>" *)
Definition s_sp_eq_sp : str := [32; 61; 32].     (* " = " *)
Definition s_Type : str := [84; 121; 112; 101].  (* "Type" *)

(* strconv.FormatUint(n, 10) *)
Fixpoint dec_aux (fuel : nat) (n : N) (acc : str) : str :=
  match fuel with
  | O => acc
  | S f => let acc' := (48 + n mod 10) :: acc in
           if n <? 10 then acc' else dec_aux f (n / 10) acc'
  end.
Definition dec (n : N) : str := dec_aux (S (N.size_nat n)) n [].

Definition hexdigit (d : N) : N := if d <? 10 then 48 + d else 87 + d.
Fixpoint hexk (k : nat) (n : N) : str :=
  match k with
  | O => []
  | S k' => hexk k' (n / 16) ++ [hexdigit (n mod 16)]
  end.
(* fmt.Sprintf("%08x", uint32) *)
Definition hex8 (n : N) : str := hexk 8 n.

(** strings.Split(s, "\n") *)
Fixpoint split_nl (s : str) : list str :=
  match s with
  | [] => [[]]
  | c :: r => if c =? 10 then [] :: split_nl r
              else match split_nl r with
                   | h :: t => (c :: h) :: t
                   | [] => [[c]]
                   end
  end.

(** strings.TrimSpace: strips leading and trailing runes with unicode.IsSpace, i.e. the ASCII ones
    \t \n \v \f \r ' ' and (UTF-8 encoded) U+0085 U+00A0 U+1680 U+2000..U+200A U+2028 U+2029 U+202F U+205F U+3000.
    An invalid sequence decodes to RuneError, which is not a space, so matching the exact encodings is the same. *)
Definition ascii_space (c : N) : bool :=
  (c =? 9) || (c =? 10) || (c =? 11) || (c =? 12) || (c =? 13) || (c =? 32).

Definition e2_80_space (d : N) : bool :=
  ((128 <=? d) && (d <=? 138)) || (d =? 168) || (d =? 169) || (d =? 175).

(* number of bytes of a leading white-space rune, 0 if the string does not start with one *)
Definition space_prefix (s : str) : nat :=
  match s with
  | [] => O
  | c :: r =>
      if ascii_space c then 1%nat
      else match r with
           | d :: r' =>
               if (c =? 194) && ((d =? 133) || (d =? 160)) then 2%nat
               else match r' with
                    | e :: _ =>
                        if (c =? 225) && (d =? 154) && (e =? 128) then 3%nat
                        else if (c =? 226) && (d =? 128) && e2_80_space e then 3%nat
                        else if (c =? 226) && (d =? 129) && (e =? 159) then 3%nat
                        else if (c =? 227) && (d =? 128) && (e =? 128) then 3%nat
                        else O
                    | [] => O
                    end
           | [] => O
           end
  end.

(* the same on the reversed string (trailing white-space rune) *)
Definition space_suffix_rev (s : str) : nat :=
  match s with
  | [] => O
  | e :: r =>
      if ascii_space e then 1%nat
      else match r with
           | d :: r' =>
               if (d =? 194) && ((e =? 133) || (e =? 160)) then 2%nat
               else match r' with
                    | c :: _ =>
                        if (c =? 225) && (d =? 154) && (e =? 128) then 3%nat
                        else if (c =? 226) && (d =? 128) && e2_80_space e then 3%nat
                        else if (c =? 226) && (d =? 129) && (e =? 159) then 3%nat
                        else if (c =? 227) && (d =? 128) && (e =? 128) then 3%nat
                        else O
                    | [] => O
                    end
           | [] => O
           end
  end.

Fixpoint trim_with (pre : str -> nat) (fuel : nat) (s : str) : str :=
  match fuel with
  | O => s
  | S f => match pre s with
           | O => s
           | n => trim_with pre f (skipn n s)
           end
  end.
Definition trim_left (s : str) : str := trim_with space_prefix (length s) s.
Definition trim_right (s : str) : str := rev (trim_with space_suffix_rev (length s) (rev s)).
Definition trim_space (s : str) : str := trim_right (trim_left s).

(* the lines the printers write for a CommentBefore: strings.TrimSpace of every strings.Split(c, "\n") *)
Definition comment_lines (c : str) : list str := map trim_space (split_nl c).

(** ** TL2TypeName.String *)
Definition print_tname (n : tname) : str :=
  (if nonempty (tn_ns n) then tn_ns n ++ [46] else []) ++ tn_name n.

(** ** TL2TypeRef.Print & co *)
Fixpoint print_tref (t : tref) : str :=
  match t with
  | TApp nm bare args =>
      (if bare then [37] else []) ++ print_tname nm ++
      (if nonempty args then [60] ++ join [44] (map print_targ args) ++ [62] else [])
  | TArr e => [91] ++ [93] ++ print_tref e
  | TIdx i e => [91] ++ print_targ i ++ [93] ++ print_tref e
  end
with print_targ (a : targ) : str :=
  match a with
  | ANum n => dec n
  | ATy t => print_tref t
  end.

(** ** TL2Field.Print (since commit 2301fcd1, the repair of finding F19, the name is written as it is: `_` or `_name`
    for an ignored field; before, every ignored field was written `_`) *)
Definition print_field (f : field) : str :=
  (if nonempty (f_name f)
   then f_name f ++ (if f_opt f then [63] else []) ++ [58]
   else []) ++ print_tref (f_type f).

(* the comment block written before a field: every trimmed line followed by the current separator *)
Definition field_comment (o : options) (sep : str) (f : field) : str :=
  if negb (o_ignore o) && nonempty (f_comment f)
  then concat (map (fun l => l ++ sep) (comment_lines (f_comment f)))
  else [].

(** ** TL2UnionConstructor.printVariantFields *)
Definition print_variant_fields (o : options) (fs : list field) (sep : str) : str :=
  concat (map (fun f => sep ++ field_comment o sep f ++ print_field f) fs).

(** TL2UnionConstructor.HasBeforeCommentIn *)
Definition variant_has_comment (v : variant) : bool :=
  nonempty (v_comment v) ||
  match v_body v with
  | VAlias _ => false
  | VFields fs => existsb (fun f => nonempty (f_comment f)) fs
  end.

(** ** TL2UnionConstructor.print: text and hasNewLine *)
Definition print_variant (o : options) (v : variant) (prefix : N) : str * bool :=
  match v_body v with
  | VFields fs =>
      let force := negb (o_ignore o) && variant_has_comment v in
      if negb force then
        let tmp := print_variant_fields o fs s_sp in
        if o_union o <? prefix + len (v_name v) + len tmp
        then (v_name v ++ print_variant_fields o fs s_nl_tab2, force)
        else (v_name v ++ print_variant_fields o fs s_sp, force)
      else (v_name v ++ print_variant_fields o fs s_nl_tab2, force)
  | VAlias t => (v_name v ++ s_sp ++ print_tref t, false)
  end.

(** the union loop of printWithNewLineOption; [first] is i == 0, [force] the running forceNewline, [single] is
    len(Variants) == 1 (since commit 3b6a30bc, the repair of finding F8, the separator -- hence the bar -- is also
    written before the only variant of a union; the code before the repair is [single] = false) *)
Fixpoint print_variants (o : options) (sep : str) (single : bool) (first : bool) (force : bool) (vs : list variant) : str * bool :=
  match vs with
  | [] => ([], force)
  | v :: r =>
      let has := negb (o_ignore o) && nonempty (v_comment v) in
      let cm := if has then s_nl_tab ++ join s_nl_tab (comment_lines (v_comment v)) else [] in
      let force1 := force || has in
      let bar := if negb first || force1 || single then sep else [] in
      let '(vt, vf) := print_variant o v (len sep) in
      let '(rt, rf) := print_variants o sep single false (force1 || vf) r in
      (cm ++ bar ++ vt ++ rt, rf)
  end.

(** the struct loop of printWithNewLineOption *)
Fixpoint print_struct_fields (o : options) (sep : str) (first : bool) (force : bool) (fs : list field) : str :=
  match fs with
  | [] => []
  | f :: r =>
      (if negb first || force then sep else []) ++ field_comment o sep f ++ print_field f ++
      print_struct_fields o sep false force r
  end.

(** ** TL2TypeDefinition.printWithNewLineOption: text and the final forceNewline *)
Definition print_def_nl (o : options) (d : typedef) (force : bool) (isret : bool) : str * bool :=
  match d with
  | DAlias t =>
      ((if negb isret then s_sp_alias_sp else s_alias) ++ print_tref t, force)
  | DUnion vs =>
      let head := if negb isret then s_sp_eq_sp else [] in
      let has := negb (o_ignore o) && existsb variant_has_comment vs in
      let force1 := force || has in
      let sep := (if force1 then s_nl_tab else s_sp) ++ s_bar_sp in
      let '(t, f) := print_variants o sep (Nat.eqb (length vs) 1) true force1 vs in
      (head ++ t, f)
  | DStruct fs =>
      let head := if negb isret then s_sp_eq_sp else [] in
      let has := negb (o_ignore o) && existsb (fun f => nonempty (f_comment f)) fs in
      let force1 := force || has in
      let sep := if force1 then s_nl_tab else s_sp in
      (head ++ print_struct_fields o sep true force1 fs, force1)
  end.

(** ** TL2TypeDefinition.print: text and hasNewLines *)
Definition print_def (o : options) (d : typedef) (prefix : N) (isret : bool) : str * bool :=
  let '(tmp, hn) := print_def_nl o d false isret in
  let hn' := hn || (o_oneline o <? len tmp + prefix) in
  (fst (print_def_nl o d hn' isret), hn').

Definition print_magic (m : N) : str := if m =? 0 then [] else 35 :: hex8 m.

Definition print_params (ps : list tparam) : str :=
  if nonempty ps
  then [60] ++ join [44] (map (fun p => tp_name p ++ [58] ++ (if tp_isnat p then [35] else s_Type)) ps) ++ [62]
  else [].

(** ** TL2TypeDeclaration.print *)
Definition print_typedecl (o : options) (nm : tname) (magic : N) (ps : list tparam) (d : typedef) (prefix : N) : str :=
  let head := print_tname nm ++ print_magic magic ++ print_params ps in
  head ++ fst (print_def o d (prefix + len head) false).

(** ** TL2FuncDeclaration.printFunction: text and hasNewLines *)
Definition print_function (o : options) (nm : tname) (magic : N) (args : list field) (ret : typedef)
           (sep : str) (prefix : N) : str * bool :=
  let head := print_tname nm ++ print_magic magic ++ concat (map (fun a => sep ++ print_field a) args) ++
              sep ++ s_funeq_sp in
  let '(r, hn) := print_def o ret (len head + prefix) true in
  (head ++ r, hn || (o_oneline o <? len head + len r + prefix)).

(** ** TL2FuncDeclaration.print *)
Definition print_funcdecl (o : options) (nm : tname) (magic : N) (args : list field) (ret : typedef) (prefix : N) : str :=
  let hn := snd (print_function o nm magic args ret s_sp prefix) in
  fst (print_function o nm magic args ret (if hn then s_nl_tab else s_sp) prefix).

Definition print_decl (o : options) (d : decl) (prefix : N) : str :=
  match d with
  | DType nm magic ps def => print_typedecl o nm magic ps def prefix
  | DFunc nm magic args ret => print_funcdecl o nm magic args ret prefix
  end.

Definition print_anns (anns : list str) : str := concat (map (fun a => [64] ++ a ++ s_sp) anns).

(** ** TL2Combinator.Print *)
Definition print_comb (o : options) (c : comb) : str :=
  let cm := if negb (o_ignore o) && nonempty (c_comment c)
            then concat (map (fun l => l ++ [10]) (comment_lines (c_comment c))) else [] in
  let anns := print_anns (c_anns c) in
  cm ++ anns ++ print_decl o (c_decl c) (len anns) ++ [59].

(** ** TL2File.Print *)
Definition fmt2 (o : options) (f : list comb) : str :=
  concat (map (fun c => print_comb o c ++ [10]) f).
