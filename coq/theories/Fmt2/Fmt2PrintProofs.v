(** The whole TL2 formatter model lexes to the token stream of the AST: [lex_fmt2], for every option set. *)
From Coq Require Import List NArith Bool Lia ZifyN ZifyNat ZifyBool Arith.
From TLV Require Import Fmt2.Fmt2Model Fmt2.Fmt2LexModel Fmt2.Fmt2Proofs.
Import ListNotations.
Open Scope N_scope.

(** * the whole printer lexes to the token stream of the AST *)

(* comment lines *)
Definition eol_next : str -> Prop := hd_ok (fun c => negb (not_eol c)).

Lemma LexTo_comment_line : forall l, is_comment l = true -> LexTo l [] eol_next.
Proof.
  intros l H. destruct l as [|c [|d l]]; [apply LexTo_nil|discriminate|].
  cbn [is_comment] in H. repeat (apply andb_true_iff in H; destruct H as [H ?]).
  assert (c = 47) by lia. assert (d = 47) by lia. subst.
  apply LexTo_skip; [discriminate|]. intros tail Ht. cbn [app]. rewrite lex_step_slash.
  change (47 :: 47 :: l ++ tail) with ((47 :: 47 :: l) ++ tail).
  rewrite span_all; [now rewrite H0|assumption|].
  destruct tail; [exact I|]. cbn in Ht. now apply negb_true_iff in Ht.
Qed.

Definition wf_comment (o : options) (c : str) : bool :=
  o_ignore o || forallb is_comment (comment_lines c).

(* a separator that starts a new line: "\n\t", "\n\t\t", "\n\t| " *)
Definition nlsep (sep : str) : Prop := exists s', sep = 10 :: s'.

Lemma LexTo_any : forall s ts (P : str -> Prop), LexTo s ts any_tail -> LexTo s ts P.
Proof. intros. eapply LexTo_weaken; [eassumption|intros; exact I]. Qed.

(* trimmed comment lines, each followed by a separator that starts with a line feed *)
Lemma LexTo_lines_sep : forall sep lines, nlsep sep -> forallb blank sep = true -> forallb is_comment lines = true ->
  LexTo (concat (map (fun l => l ++ sep) lines)) [] any_tail.
Proof.
  intros sep lines [s' ->] Hb. induction lines as [|l lines IH]; intro Hl; [apply LexTo_nil|].
  cbn [forallb] in Hl. apply andb_true_iff in Hl. destruct Hl as [Hl Hls]. cbn [map concat].
  apply (LexTo_app (l ++ 10 :: s') [] any_tail _ [] any_tail); [|now apply IH|intros; exact I].
  apply (LexTo_app l [] eol_next _ [] any_tail); [now apply LexTo_comment_line|now apply LexTo_blanks|].
  intros; reflexivity.
Qed.

(* a field name: an identifier other than Type, `_`, or `_name` *)
Definition wf_fname (n : str) : bool :=
  match n with
  | [] => false
  | c :: w => if c =? 95 then match w with [] => true | _ => wf_ident w end else wf_plain n
  end.

Definition wf_field_core (f : field) : bool :=
  match f_name f with
  | [] => true
  | _ => wf_fname (f_name f)
  end && wf_tref (f_type f).
Definition wf_field (o : options) (f : field) : bool := wf_field_core f && wf_comment o (f_comment f).

Definition P58 : str -> Prop := hd_ok (fun c => (c =? 63) || (c =? 58)).

Lemma LexTo_dep : forall w, wf_ident w = true -> LexTo (95 :: w) [KDep w] nic.
Proof.
  intros w Hw. apply LexTo_tok; [discriminate|]. intros tail Ht. cbn [app].
  rewrite lex_step_us, name_ident_all by assumption. destruct w; [discriminate|reflexivity].
Qed.

Lemma LexTo_fname : forall n, wf_fname n = true -> LexTo n (toks_fname n) P58.
Proof.
  intros [|c w] H; [discriminate|]. unfold wf_fname, toks_fname in *. destruct (c =? 95) eqn:E.
  - assert (c = 95) by lia. subst c. destruct w as [|d w].
    + eapply LexTo_weaken; [apply LexTo_underscore|]. intros [|x t] Hx; [exact I|]. cbn in *. classes. lia.
    + eapply LexTo_weaken; [now apply LexTo_dep|]. intros [|x t] Hx; [exact I|]. cbn in *. classes. lia.
  - eapply LexTo_weaken; [now apply LexTo_plain|]. intros [|x t] Hx; [exact I|]. cbn in *. classes. lia.
Qed.

Lemma LexTo_field : forall f, wf_field_core f = true -> LexTo (print_field f) (toks_field f) nid.
Proof.
  intros [nm opt ign cm ty] H. unfold wf_field_core, print_field, toks_field in *. cbn [f_name f_opt f_ign f_type] in *.
  apply andb_true_iff in H. destruct H as [Hn Ht].
  destruct nm as [|c nm]; cbn [nonempty].
  - apply (LexTo_app [] [] any_tail _ _ nid); [apply LexTo_nil|now apply LexTo_tref|intros; exact I].
  - set (w := c :: nm) in *.
    apply (LexTo_app _ _ any_tail _ _ nid); [|now apply LexTo_tref|intros; exact I].
    apply (LexTo_app _ _ P58 _ _ any_tail).
    + now apply LexTo_fname.
    + apply (LexTo_app _ _ any_tail [58] [KP 58] any_tail); [|apply (LexTo_prim 58); reflexivity|intros; exact I].
      destruct opt; [apply (LexTo_prim 63); reflexivity|apply LexTo_nil].
    + intros tail _. destruct opt; reflexivity.
Qed.

Lemma blank_nid : forall c, blank c = true -> nid_c c = true.
Proof. intros c H. unfold blank in H. classes. lia. Qed.

Lemma blank_sep_nid : forall sep t, sep <> [] -> forallb blank sep = true -> nid (sep ++ t).
Proof.
  intros [|c s] t H1 H2; [congruence|]. cbn in *. apply andb_true_iff in H2. destruct H2 as [H2 _]. now apply blank_nid.
Qed.

Definition cm_printed (o : options) (c : str) : bool := negb (o_ignore o) && nonempty c.

Lemma LexTo_field_comment : forall o sep f,
  forallb blank sep = true -> (nlsep sep \/ cm_printed o (f_comment f) = false) ->
  wf_comment o (f_comment f) = true -> LexTo (field_comment o sep f) [] any_tail.
Proof.
  intros o sep f Hb Hs Hw. unfold field_comment. fold (cm_printed o (f_comment f)).
  destruct (cm_printed o (f_comment f)) eqn:E; [|apply LexTo_nil].
  destruct Hs as [Hs|Hs]; [|discriminate]. apply LexTo_lines_sep; try assumption.
  unfold wf_comment in Hw. unfold cm_printed in E. destruct (o_ignore o); [discriminate|]. exact Hw.
Qed.

Definition seps_ok (o : options) (sep : str) (fs : list field) : Prop :=
  forallb blank sep = true /\ sep <> [] /\
  (nlsep sep \/ forall f, In f fs -> cm_printed o (f_comment f) = false).

Lemma seps_ok_tl : forall o sep f fs, seps_ok o sep (f :: fs) -> seps_ok o sep fs.
Proof. intros o sep f fs (H1 & H2 & [H3|H3]); repeat split; auto. right. intros; apply H3; now right. Qed.

Lemma toks_fields_cons : forall f fs, toks_fields (f :: fs) = toks_field f ++ toks_fields fs.
Proof. reflexivity. Qed.

Lemma LexTo_struct_fields : forall o sep force fs first,
  seps_ok o sep fs -> forallb (wf_field o) fs = true ->
  LexTo (print_struct_fields o sep first force fs) (toks_fields fs) nid.
Proof.
  intros o sep force fs. induction fs as [|f fs IH]; intros first Hs Hw; [apply LexTo_nil|].
  cbn [forallb] in Hw. apply andb_true_iff in Hw. destruct Hw as [Hf Hfs].
  unfold wf_field in Hf. apply andb_true_iff in Hf. destruct Hf as [Hfc Hcm].
  pose proof Hs as (Hb & Hne & Hnl).
  cbn [print_struct_fields]. rewrite toks_fields_cons.
  apply (LexTo_app _ [] any_tail _ _ nid); [destruct (negb first || force); [now apply LexTo_blanks|apply LexTo_nil]| |intros; exact I].
  apply (LexTo_app _ [] any_tail _ _ nid); [|  |intros; exact I].
  { apply LexTo_field_comment; try assumption. destruct Hnl as [Hnl|Hnl]; [now left|right; apply Hnl; now left]. }
  apply (LexTo_app _ _ nid _ _ nid); [now apply LexTo_field|apply IH; [eapply seps_ok_tl; eauto|assumption]|].
  intros tail Ht. destruct fs as [|g fs]; [exact Ht|]. cbn [print_struct_fields negb orb].
  rewrite <- app_assoc. now apply blank_sep_nid.
Qed.

Lemma LexTo_variant_fields : forall o sep fs,
  seps_ok o sep fs -> forallb (wf_field o) fs = true ->
  LexTo (print_variant_fields o fs sep) (toks_fields fs) nid.
Proof.
  intros o sep fs. induction fs as [|f fs IH]; intros Hs Hw; [apply LexTo_nil|].
  cbn [forallb] in Hw. apply andb_true_iff in Hw. destruct Hw as [Hf Hfs].
  unfold wf_field in Hf. apply andb_true_iff in Hf. destruct Hf as [Hfc Hcm].
  pose proof Hs as (Hb & Hne & Hnl).
  unfold print_variant_fields in *. cbn [map concat]. rewrite toks_fields_cons, <- !app_assoc.
  apply (LexTo_app _ [] any_tail _ _ nid); [now apply LexTo_blanks| |intros; exact I].
  apply (LexTo_app _ [] any_tail _ _ nid); [|  |intros; exact I].
  { apply LexTo_field_comment; try assumption. destruct Hnl as [Hnl|Hnl]; [now left|right; apply Hnl; now left]. }
  apply (LexTo_app _ _ nid _ _ nid); [now apply LexTo_field|apply IH; [eapply seps_ok_tl; eauto|assumption]|].
  intros tail Ht. destruct fs as [|g fs]; [exact Ht|]. cbn [map concat].
  rewrite <- !app_assoc. now apply blank_sep_nid.
Qed.

Lemma str_eqb_eq : forall a b, str_eqb a b = true -> a = b.
Proof.
  induction a as [|x a IH]; intros [|y b] H; cbn in H; try discriminate; [reflexivity|].
  apply andb_true_iff in H. destruct H as [H1 H2]. f_equal; [lia|now apply IH].
Qed.

Lemma LexTo_vname : forall n, wf_ident n = true -> LexTo n (toks_vname n) nid.
Proof.
  intros n H. unfold toks_vname. destruct (str_eqb n s_Type) eqn:E.
  - apply str_eqb_eq in E. subst. eapply LexTo_weaken; [apply LexTo_Type|apply nid_nic].
  - apply LexTo_plain. unfold wf_plain. now rewrite H, E.
Qed.

Definition wf_variant (o : options) (v : variant) : bool :=
  wf_ident (v_name v) && wf_comment o (v_comment v) &&
  match v_body v with
  | VAlias t => wf_tref t
  | VFields fs => forallb (wf_field o) fs
  end.

Lemma variant_fields_nid : forall o sep fs tail, sep <> [] -> forallb blank sep = true -> nid tail ->
  nid (print_variant_fields o fs sep ++ tail).
Proof.
  intros o sep [|f fs] tail H1 H2 Ht; [exact Ht|]. unfold print_variant_fields. cbn [map concat].
  rewrite <- !app_assoc. now apply blank_sep_nid.
Qed.

Lemma no_force_no_comments : forall o v fs, v_body v = VFields fs ->
  negb (o_ignore o) && variant_has_comment v = false ->
  forall f, In f fs -> cm_printed o (f_comment f) = false.
Proof.
  intros o v fs Hb H f Hin. unfold cm_printed. destruct (o_ignore o); [reflexivity|]. cbn [negb andb] in *.
  unfold variant_has_comment in H. rewrite Hb in H. apply orb_false_iff in H. destruct H as [_ H].
  destruct (nonempty (f_comment f)) eqn:E; [|reflexivity].
  assert (existsb (fun f => nonempty (f_comment f)) fs = true) by (apply existsb_exists; eauto). congruence.
Qed.

Lemma seps_sp : forall o fs, (forall f, In f fs -> cm_printed o (f_comment f) = false) -> seps_ok o s_sp fs.
Proof. intros. repeat split; [discriminate|now right]. Qed.
Lemma seps_nl2 : forall o fs, seps_ok o s_nl_tab2 fs.
Proof. intros. repeat split; [discriminate|left; now exists [9; 9]]. Qed.
Lemma seps_nl : forall o fs, seps_ok o s_nl_tab fs.
Proof. intros. repeat split; [discriminate|left; now exists [9]]. Qed.

Lemma LexTo_variant : forall o v prefix, wf_variant o v = true ->
  LexTo (fst (print_variant o v prefix)) (toks_variant v) nid.
Proof.
  intros o [nm cm body] prefix H. unfold wf_variant in H. cbn [v_name v_comment v_body] in H.
  apply andb_true_iff in H. destruct H as [H Hb]. apply andb_true_iff in H. destruct H as [Hn Hc].
  unfold print_variant, toks_variant. cbn [v_name v_comment v_body].
  destruct body as [t|fs].
  - cbn [fst]. apply (LexTo_app _ _ nid _ _ nid); [now apply LexTo_vname| |intros; reflexivity].
    apply (LexTo_app s_sp [] any_tail _ _ nid); [apply LexTo_blanks; reflexivity|now apply LexTo_tref|intros; exact I].
  - set (v := {| v_name := nm; v_comment := cm; v_body := VFields fs |}).
    destruct (negb (o_ignore o) && variant_has_comment v) eqn:F; cbn [negb].
    + cbn [fst]. apply (LexTo_app _ _ nid _ _ nid); [now apply LexTo_vname|apply LexTo_variant_fields; [apply seps_nl2|assumption]|].
      intros. apply variant_fields_nid; [discriminate|reflexivity|assumption].
    + assert (NC := no_force_no_comments o v fs eq_refl F).
      destruct (o_union o <? prefix + len nm + len (print_variant_fields o fs s_sp)); cbn [fst].
      * apply (LexTo_app _ _ nid _ _ nid); [now apply LexTo_vname|apply LexTo_variant_fields; [apply seps_nl2|assumption]|].
        intros. apply variant_fields_nid; [discriminate|reflexivity|assumption].
      * apply (LexTo_app _ _ nid _ _ nid); [now apply LexTo_vname|apply LexTo_variant_fields; [now apply seps_sp|assumption]|].
        intros. apply variant_fields_nid; [discriminate|reflexivity|assumption].
Qed.

(** unions *)
Definition vsep_ok (o : options) (sep : str) (vs : list variant) : Prop :=
  (sep = s_sp ++ s_bar_sp /\ forall v, In v vs -> cm_printed o (v_comment v) = false) \/
  sep = s_nl_tab ++ s_bar_sp.

Definition toks_variants_from (bar : bool) (vs : list variant) : list tok :=
  match vs with
  | [] => []
  | v :: r => (if bar then [KP 124] else []) ++ toks_variant v ++ concat (map (fun v => KP 124 :: toks_variant v) r)
  end.

Lemma LexTo_barsep : forall sep, sep = s_sp ++ s_bar_sp \/ sep = s_nl_tab ++ s_bar_sp -> LexTo sep [KP 124] any_tail.
Proof.
  intros sep [-> | ->].
  - apply (LexTo_app [32] [] any_tail [124; 32] [KP 124] any_tail); [apply LexTo_blanks; reflexivity| |intros; exact I].
    apply (LexTo_app [124] [KP 124] any_tail [32] [] any_tail); [apply (LexTo_prim 124); reflexivity|apply LexTo_blanks; reflexivity|intros; exact I].
  - apply (LexTo_app [10; 9] [] any_tail [124; 32] [KP 124] any_tail); [apply LexTo_blanks; reflexivity| |intros; exact I].
    apply (LexTo_app [124] [KP 124] any_tail [32] [] any_tail); [apply (LexTo_prim 124); reflexivity|apply LexTo_blanks; reflexivity|intros; exact I].
Qed.

Lemma LexTo_join_lines : forall lines, forallb is_comment lines = true -> LexTo (join s_nl_tab lines) [] eol_next.
Proof.
  induction lines as [|l [|l2 r] IH]; intro H; [apply LexTo_nil| |].
  - cbn in *. apply andb_true_iff in H. destruct H. now apply LexTo_comment_line.
  - change (join s_nl_tab (l :: l2 :: r)) with (l ++ s_nl_tab ++ join s_nl_tab (l2 :: r)).
    cbn [forallb] in H. apply andb_true_iff in H. destruct H as [Hl H].
    apply (LexTo_app l [] eol_next _ [] eol_next); [now apply LexTo_comment_line| |intros; reflexivity].
    apply (LexTo_app s_nl_tab [] any_tail _ [] eol_next); [apply LexTo_blanks; reflexivity|now apply IH|intros; exact I].
Qed.

Lemma vsep_ok_tl : forall o sep v vs, vsep_ok o sep (v :: vs) -> vsep_ok o sep vs.
Proof. intros o sep v vs [[H1 H2]|H]; [left; split; [assumption|intros; apply H2; now right]|now right]. Qed.

Lemma vsep_forms : forall o sep vs, vsep_ok o sep vs -> sep = s_sp ++ s_bar_sp \/ sep = s_nl_tab ++ s_bar_sp.
Proof. intros o sep vs [[H _]|H]; auto. Qed.

Lemma print_variants_fst : forall o sep single first force v r,
  fst (print_variants o sep single first force (v :: r)) =
    let has := cm_printed o (v_comment v) in
    (if has then s_nl_tab ++ join s_nl_tab (comment_lines (v_comment v)) else []) ++
    (if negb first || (force || has) || single then sep else []) ++
    fst (print_variant o v (len sep)) ++
    fst (print_variants o sep single false (force || has || snd (print_variant o v (len sep))) r).
Proof.
  intros. cbn [print_variants]. fold (cm_printed o (v_comment v)).
  destruct (print_variant o v (len sep)) as [vt vf]. cbn [fst snd].
  destruct (print_variants o sep single false (force || cm_printed o (v_comment v) || vf) r) as [rt rf]. reflexivity.
Qed.

Lemma variants_rest_nid : forall o sep single force r tail,
  (sep = s_sp ++ s_bar_sp \/ sep = s_nl_tab ++ s_bar_sp) -> nid tail ->
  nid (fst (print_variants o sep single false force r) ++ tail).
Proof.
  intros o sep single force [|v r] tail Hs Ht; [exact Ht|]. rewrite print_variants_fst. cbn zeta.
  destruct (cm_printed o (v_comment v)); [reflexivity|]. cbn [negb orb app].
  destruct Hs as [-> | ->]; reflexivity.
Qed.

Lemma LexTo_variants : forall o sep single vs first force,
  vsep_ok o sep vs -> forallb (wf_variant o) vs = true ->
  LexTo (fst (print_variants o sep single first force vs))
        (toks_variants_from (negb first || (force || match vs with v :: _ => cm_printed o (v_comment v) | [] => false end) || single) vs) nid.
Proof.
  intros o sep single vs. induction vs as [|v r IH]; intros first force Hs Hw; [apply LexTo_nil|].
  cbn [forallb] in Hw. apply andb_true_iff in Hw. destruct Hw as [Hv Hr].
  rewrite print_variants_fst. cbn zeta. unfold toks_variants_from.
  pose proof (vsep_forms _ _ _ Hs) as Hf.
  assert (Hcm : wf_comment o (v_comment v) = true).
  { unfold wf_variant in Hv. apply andb_true_iff in Hv. destruct Hv as [Hv _]. now apply andb_true_iff in Hv. }
  (* comment block *)
  apply (LexTo_app _ [] (if cm_printed o (v_comment v) then eol_next else any_tail) _ _ nid).
  - destruct (cm_printed o (v_comment v)) eqn:E; [|apply LexTo_nil].
    apply (LexTo_app s_nl_tab [] any_tail _ [] eol_next); [apply LexTo_blanks; reflexivity| |intros; exact I].
    apply LexTo_join_lines. unfold wf_comment in Hcm. unfold cm_printed in E. destruct (o_ignore o); [discriminate|exact Hcm].
  - apply (LexTo_app _ _ any_tail _ _ nid); [destruct (negb first || (force || cm_printed o (v_comment v)) || single); [now apply LexTo_barsep|apply LexTo_nil]| |intros; exact I].
    apply (LexTo_app _ _ nid _ _ nid); [now apply LexTo_variant| |intros; now apply variants_rest_nid].
    specialize (IH false (force || cm_printed o (v_comment v) || snd (print_variant o v (len sep))) (vsep_ok_tl _ _ _ _ Hs) Hr).
    cbn [negb orb] in IH. destruct r as [|v2 r]; [apply LexTo_nil|]. exact IH.
  - intros tail _. destruct (cm_printed o (v_comment v)) eqn:E; [|exact I].
    rewrite orb_true_r, orb_true_r. cbn [orb]. destruct Hs as [[_ Hn]|Hs]; [rewrite Hn in E; [discriminate|now left]|].
    subst sep. reflexivity.
Qed.

(** definitions *)
Definition wf_def (o : options) (d : typedef) : bool :=
  match d with
  | DAlias t => wf_tref t
  | DStruct fs => forallb (wf_field o) fs
  | DUnion vs => forallb (wf_variant o) vs
  end.

(* is the first variant of a union written with its bar: only when the definition is laid out on several lines *)
Definition def_bar (o : options) (d : typedef) (force : bool) : bool :=
  match d with
  | DUnion vs => force || (negb (o_ignore o) && existsb variant_has_comment vs) || Nat.eqb (length vs) 1
  | _ => false
  end.

Lemma LexTo_sp_eq_sp : LexTo s_sp_eq_sp [KP 61] any_tail.
Proof.
  apply (LexTo_app [32] [] any_tail [61; 32] [KP 61] any_tail); [apply LexTo_blanks; reflexivity| |intros; exact I].
  apply (LexTo_app [61] [KP 61] (not_c 62) [32] [] any_tail); [apply LexTo_eq|apply LexTo_blanks; reflexivity|intros; reflexivity].
Qed.

Lemma LexTo_sp_alias_sp : LexTo s_sp_alias_sp [KAlias] any_tail.
Proof.
  apply (LexTo_app [32] [] any_tail (s_alias ++ [32]) [KAlias] any_tail); [apply LexTo_blanks; reflexivity| |intros; exact I].
  apply (LexTo_app s_alias [KAlias] any_tail [32] [] any_tail); [apply LexTo_alias|apply LexTo_blanks; reflexivity|intros; exact I].
Qed.

Lemma toks_variants_join : forall bar vs,
  (if bar && nonempty vs then [KP 124] else []) ++ join [KP 124] (map toks_variant vs) = toks_variants_from bar vs.
Proof.
  intros bar [|v r]; [now rewrite andb_false_r|]. cbn [nonempty map]. rewrite andb_true_r, join_cons, map_map. reflexivity.
Qed.

Lemma LexTo_def_nl : forall o d force isret, wf_def o d = true ->
  LexTo (fst (print_def_nl o d force isret)) (toks_def (def_bar o d force) isret d) nid.
Proof.
  intros o d force isret H. destruct d as [t|fs|vs]; cbn [wf_def print_def_nl toks_def def_bar] in *.
  - cbn [fst]. change (KAlias :: toks_tref t) with ([KAlias] ++ toks_tref t).
    apply (LexTo_app _ _ any_tail _ _ nid); [|now apply LexTo_tref|intros; exact I].
    destruct isret; cbn [negb]; [apply LexTo_alias|apply LexTo_sp_alias_sp].
  - cbn [fst].
    apply (LexTo_app _ _ any_tail _ _ nid); [destruct isret; cbn [negb]; [apply LexTo_nil|apply LexTo_sp_eq_sp]| |intros; exact I].
    apply LexTo_struct_fields; [|assumption].
    destruct (force || negb (o_ignore o) && existsb (fun f => nonempty (f_comment f)) fs) eqn:E; [apply seps_nl|].
    apply seps_sp. intros f Hin. apply orb_false_iff in E. destruct E as [_ E]. unfold cm_printed.
    destruct (o_ignore o); [reflexivity|]. cbn [negb andb] in *.
    destruct (nonempty (f_comment f)) eqn:E2; [|reflexivity].
    assert (existsb (fun f => nonempty (f_comment f)) fs = true) by (apply existsb_exists; eauto). congruence.
  - set (force1 := force || negb (o_ignore o) && existsb variant_has_comment vs).
    destruct (print_variants o ((if force1 then s_nl_tab else s_sp) ++ s_bar_sp) (Nat.eqb (length vs) 1) true force1 vs) as [t f] eqn:E.
    cbn [fst]. assert (Et : t = fst (print_variants o ((if force1 then s_nl_tab else s_sp) ++ s_bar_sp) (Nat.eqb (length vs) 1) true force1 vs)) by now rewrite E.
    rewrite Et. clear E Et t f.
    apply (LexTo_app _ _ any_tail _ _ nid); [destruct isret; cbn [negb]; [apply LexTo_nil|apply LexTo_sp_eq_sp]| |intros; exact I].
    rewrite toks_variants_join.
    assert (Hsep : vsep_ok o ((if force1 then s_nl_tab else s_sp) ++ s_bar_sp) vs).
    { destruct force1 eqn:E; [now right|left]. split; [reflexivity|]. intros v Hin. unfold force1 in E.
      apply orb_false_iff in E. destruct E as [_ E]. unfold cm_printed. destruct (o_ignore o); [reflexivity|].
      cbn [negb andb] in *. destruct (nonempty (v_comment v)) eqn:E2; [|reflexivity].
      assert (existsb variant_has_comment vs = true).
      { apply existsb_exists. exists v. split; [assumption|]. unfold variant_has_comment. now rewrite E2. }
      congruence. }
    pose proof (LexTo_variants o _ (Nat.eqb (length vs) 1) vs true force1 Hsep H) as L. cbn [negb orb] in L.
    replace (force1 || match vs with [] => false | v :: _ => cm_printed o (v_comment v) end) with force1 in L; [exact L|].
    destruct vs as [|v r]; [now rewrite orb_false_r|]. destruct (cm_printed o (v_comment v)) eqn:E2; [|now rewrite orb_false_r].
    unfold force1. unfold cm_printed in E2. apply andb_true_iff in E2. destruct E2 as [E2 E3]. rewrite E2.
    cbn [existsb]. unfold variant_has_comment at 1. rewrite E3. cbn. now rewrite !orb_true_r.
Qed.

Lemma LexTo_def : forall o d prefix isret, wf_def o d = true ->
  LexTo (fst (print_def o d prefix isret)) (toks_def (def_bar o d (snd (print_def o d prefix isret))) isret d) nid.
Proof.
  intros o d prefix isret H. unfold print_def. destruct (print_def_nl o d false isret) as [tmp hn]. cbn [fst snd].
  now apply LexTo_def_nl.
Qed.

(** declarations *)
Lemma LexTo_magic : forall m, LexTo (print_magic m) (toks_magic m) nic.
Proof.
  intro m. unfold print_magic, toks_magic. destruct (m =? 0); [apply LexTo_nil|].
  apply LexTo_crc; [apply hexk_length|apply hexk_hex].
Qed.

Definition print_param (p : tparam) : str := tp_name p ++ [58] ++ (if tp_isnat p then [35] else s_Type).
Definition toks_param (p : tparam) : list tok := [KIdent [] (tp_name p); KP 58; if tp_isnat p then KNumSign else KType].

Lemma LexTo_param : forall p, wf_plain (tp_name p) = true -> LexTo (print_param p) (toks_param p) nic.
Proof.
  intros [nm isnat] H. unfold print_param, toks_param. cbn [tp_name tp_isnat] in *.
  apply (LexTo_app nm [KIdent [] nm] nid _ [KP 58; if isnat then KNumSign else KType] nic); [now apply LexTo_plain| |intros; reflexivity].
  apply (LexTo_app [58] [KP 58] any_tail _ [if isnat then KNumSign else KType] nic); [apply (LexTo_prim 58); reflexivity| |intros; exact I].
  destruct isnat; [apply LexTo_numsign|apply LexTo_Type].
Qed.

Lemma LexTo_params : forall ps, forallb (fun p => wf_plain (tp_name p)) ps = true ->
  LexTo (print_params ps) (toks_params ps) any_tail.
Proof.
  intros ps H. unfold print_params, toks_params. destruct ps as [|p ps]; [apply LexTo_nil|]. cbn [nonempty].
  apply (LexTo_app [60] [KP 60] (not_c 61) _ _ any_tail); [apply LexTo_lt| |].
  - apply (LexTo_app _ _ nic [62] [KP 62] any_tail); [|apply (LexTo_prim 62); reflexivity|intros; reflexivity].
    apply (LexTo_join tparam print_param toks_param nic [44] [KP 44]); [|apply (LexTo_prim 44); reflexivity|intros; reflexivity].
    rewrite Forall_forall. intros q Hq. apply LexTo_param. rewrite forallb_forall in H. now apply H.
  - intros tail _. cbn [map]. rewrite join_cons, <- !app_assoc.
    cbn [forallb] in H. apply andb_true_iff in H. destruct H as [H _]. unfold wf_plain in H. apply andb_true_iff in H. destruct H as [H _].
    destruct (tp_name p) as [|c w]; [discriminate|]. cbn in *. classes. lia.
Qed.

Lemma def_nl_starts_sp : forall o d force, exists s, fst (print_def_nl o d force false) = 32 :: s.
Proof.
  intros o d force. destruct d as [t|fs|vs]; cbn [print_def_nl negb fst]; try (eexists; reflexivity).
  match goal with |- context [print_variants ?a ?b ?c ?d ?e] => destruct (print_variants a b c d e) end.
  eexists; reflexivity.
Qed.

Lemma def_starts_sp : forall o d prefix, exists s, fst (print_def o d prefix false) = 32 :: s.
Proof. intros. unfold print_def. destruct (print_def_nl o d false false). cbn [fst]. apply def_nl_starts_sp. Qed.

Definition wf_decl (o : options) (d : decl) : bool :=
  match d with
  | DType nm _ ps def => wf_tname nm && forallb (fun p => wf_plain (tp_name p)) ps && wf_def o def
  | DFunc nm _ args ret => wf_tname nm && forallb wf_field_core args && wf_def o ret
  end.

Definition func_head (nm : tname) (magic : N) (args : list field) (sep : str) : str :=
  print_tname nm ++ print_magic magic ++ concat (map (fun a => sep ++ print_field a) args) ++ sep ++ s_funeq_sp.

Definition decl_bar (o : options) (d : decl) (prefix : N) : bool :=
  match d with
  | DType nm magic ps def =>
      def_bar o def (snd (print_def o def (prefix + len (print_tname nm ++ print_magic magic ++ print_params ps)) false))
  | DFunc nm magic args ret =>
      let sep := if snd (print_function o nm magic args ret s_sp prefix) then s_nl_tab else s_sp in
      def_bar o ret (snd (print_def o ret (len (func_head nm magic args sep) + prefix) true))
  end.

Lemma magic_params_nid : forall m ps s tail, nid (print_magic m ++ print_params ps ++ (32 :: s) ++ tail).
Proof.
  intros. unfold print_magic, print_params. destruct (m =? 0); [|reflexivity]. destruct ps; reflexivity.
Qed.

Lemma LexTo_typedecl : forall o nm magic ps def prefix, wf_decl o (DType nm magic ps def) = true ->
  LexTo (print_typedecl o nm magic ps def prefix) (toks_decl (decl_bar o (DType nm magic ps def) prefix) (DType nm magic ps def)) nid.
Proof.
  intros o nm magic ps def prefix H. cbn [wf_decl] in H.
  apply andb_true_iff in H. destruct H as [H Hd]. apply andb_true_iff in H. destruct H as [Hn Hp].
  unfold print_typedecl. cbn [toks_decl decl_bar]. cbn zeta.
  set (head := print_tname nm ++ print_magic magic ++ print_params ps).
  destruct (def_starts_sp o def (prefix + len head)) as [s Es].
  unfold head at 1. rewrite <- !app_assoc.
  apply (LexTo_app (print_tname nm) [KIdent (tn_ns nm) (tn_name nm)] nid _ _ nid); [now apply LexTo_tname| |].
  - apply (LexTo_app _ _ nic _ _ nid); [apply LexTo_magic| |].
    + apply (LexTo_app _ _ any_tail _ _ nid); [now apply LexTo_params|now apply LexTo_def|intros; exact I].
    + intros tail _. rewrite Es. unfold print_params. destruct ps; reflexivity.
  - intros tail _. rewrite Es, <- !app_assoc. apply magic_params_nid.
Qed.

Lemma LexTo_args : forall sep args, sep <> [] -> forallb blank sep = true -> forallb wf_field_core args = true ->
  LexTo (concat (map (fun a => sep ++ print_field a) args)) (toks_fields args) nid.
Proof.
  intros sep args H1 H2 H. unfold toks_fields.
  change (concat (map toks_field args)) with (concat (map (fun a => [] ++ toks_field a) args)).
  apply (LexTo_concat field (fun a => sep ++ print_field a) (fun a => [] ++ toks_field a) nid).
  - rewrite Forall_forall. intros a Ha. rewrite forallb_forall in H.
    apply (LexTo_app sep [] any_tail _ _ nid); [now apply LexTo_blanks|apply LexTo_field; now apply H|intros; exact I].
  - intros a tail _ _. rewrite <- app_assoc. now apply blank_sep_nid.
Qed.

Lemma LexTo_funeq_sp : LexTo s_funeq_sp [KFunEq] any_tail.
Proof.
  apply (LexTo_app [61; 62] [KFunEq] any_tail [32] [] any_tail); [apply LexTo_funeq|apply LexTo_blanks; reflexivity|intros; exact I].
Qed.

Lemma LexTo_function : forall o nm magic args ret sep prefix, sep = s_sp \/ sep = s_nl_tab ->
  wf_decl o (DFunc nm magic args ret) = true ->
  LexTo (fst (print_function o nm magic args ret sep prefix))
        (KIdent (tn_ns nm) (tn_name nm) :: toks_magic magic ++ toks_fields args ++ [KFunEq] ++
         toks_def (def_bar o ret (snd (print_def o ret (len (func_head nm magic args sep) + prefix) true))) true ret) nid.
Proof.
  intros o nm magic args ret sep prefix Hsep H. cbn [wf_decl] in H.
  apply andb_true_iff in H. destruct H as [H Hd]. apply andb_true_iff in H. destruct H as [Hn Ha].
  assert (Hne : sep <> []) by (destruct Hsep; subst; discriminate).
  assert (Hbl : forallb blank sep = true) by (destruct Hsep; subst; reflexivity).
  unfold print_function. fold (func_head nm magic args sep).
  destruct (print_def o ret (len (func_head nm magic args sep) + prefix) true) as [r hn] eqn:E.
  cbn [fst]. assert (Er : r = fst (print_def o ret (len (func_head nm magic args sep) + prefix) true)) by now rewrite E.
  assert (Eh : hn = snd (print_def o ret (len (func_head nm magic args sep) + prefix) true)) by now rewrite E.
  rewrite Er, Eh. clear E Er Eh r hn. unfold func_head at 1. rewrite <- !app_assoc.
  apply (LexTo_app (print_tname nm) [KIdent (tn_ns nm) (tn_name nm)] nid _ _ nid); [now apply LexTo_tname| |].
  - apply (LexTo_app _ _ nic _ _ nid); [apply LexTo_magic| |].
    + apply (LexTo_app _ _ nid _ _ nid); [now apply LexTo_args| |intros; rewrite <- app_assoc; now apply blank_sep_nid].
      apply (LexTo_app sep [] any_tail _ _ nid); [now apply LexTo_blanks| |intros; exact I].
      apply (LexTo_app s_funeq_sp [KFunEq] any_tail _ _ nid); [apply LexTo_funeq_sp|now apply LexTo_def|intros; exact I].
    + intros tail _. apply nid_nic. destruct args as [|a args]; cbn [map concat app]; rewrite <- ?app_assoc; now apply blank_sep_nid.
  - intros tail _. unfold print_magic. destruct (magic =? 0); [|reflexivity].
    destruct args as [|a args]; cbn [map concat app]; rewrite <- ?app_assoc; now apply blank_sep_nid.
Qed.

Lemma LexTo_decl : forall o d prefix, wf_decl o d = true ->
  LexTo (print_decl o d prefix) (toks_decl (decl_bar o d prefix) d) nid.
Proof.
  intros o [nm magic ps def|nm magic args ret] prefix H.
  - now apply LexTo_typedecl.
  - cbn [print_decl]. unfold print_funcdecl. cbn [toks_decl decl_bar]. cbn zeta.
    apply LexTo_function; [|assumption].
    destruct (snd (print_function o nm magic args ret s_sp prefix)); auto.
Qed.

(** combinators and files *)
Definition wf_comb (o : options) (c : comb) : bool :=
  wf_comment o (c_comment c) && forallb wf_lc (c_anns c) && wf_decl o (c_decl c).

Definition comb_bar (o : options) (c : comb) : bool := decl_bar o (c_decl c) (len (print_anns (c_anns c))).

Lemma map_KAnn_concat : forall anns, concat (map (fun a => [KAnn a]) anns) = map KAnn anns.
Proof. induction anns; cbn; congruence. Qed.

Lemma LexTo_anns : forall anns, forallb wf_lc anns = true -> LexTo (print_anns anns) (map KAnn anns) any_tail.
Proof.
  intros anns H. unfold print_anns.
  rewrite <- map_KAnn_concat.
  apply LexTo_concat; [|intros; exact I].
  rewrite Forall_forall. intros a Ha. rewrite forallb_forall in H.
  change ([64] ++ a ++ s_sp) with ((64 :: a) ++ s_sp).
  apply (LexTo_app (64 :: a) [KAnn a] nic s_sp [] any_tail); [apply LexTo_ann; now apply H|apply LexTo_blanks; reflexivity|intros; reflexivity].
Qed.

Lemma LexTo_comb : forall o c, wf_comb o c = true -> LexTo (print_comb o c) (toks_comb (comb_bar o c) c) any_tail.
Proof.
  intros o [cm anns d] H. unfold wf_comb in H. cbn [c_comment c_anns c_decl] in H.
  apply andb_true_iff in H. destruct H as [H Hd]. apply andb_true_iff in H. destruct H as [Hc Ha].
  unfold print_comb, toks_comb, comb_bar. cbn [c_comment c_anns c_decl]. cbn zeta.
  apply (LexTo_app _ [] any_tail _ _ any_tail); [| |intros; exact I].
  { fold (cm_printed o cm). destruct (cm_printed o cm) eqn:E; [|apply LexTo_nil].
    apply LexTo_lines_sep; [now exists []|reflexivity|].
    unfold wf_comment in Hc. unfold cm_printed in E. destruct (o_ignore o); [discriminate|exact Hc]. }
  apply (LexTo_app _ _ any_tail _ _ any_tail); [now apply LexTo_anns| |intros; exact I].
  apply (LexTo_app _ _ nid [59] [KP 59] any_tail); [now apply LexTo_decl|apply (LexTo_prim 59); reflexivity|intros; reflexivity].
Qed.

Definition toks_file (o : options) (f : list comb) : list tok :=
  concat (map (fun c => toks_comb (comb_bar o c) c) f).

Lemma LexTo_file : forall o f, forallb (wf_comb o) f = true -> LexTo (fmt2 o f) (toks_file o f) any_tail.
Proof.
  intros o f H. unfold fmt2, toks_file.
  apply LexTo_concat; [|intros; exact I].
  rewrite Forall_forall. intros c Hc. rewrite forallb_forall in H.
  rewrite <- (app_nil_r (toks_comb (comb_bar o c) c)).
  apply (LexTo_app _ _ any_tail [10] [] any_tail); [apply LexTo_comb; now apply H|apply LexTo_blanks; reflexivity|intros; exact I].
Qed.

Theorem lex_fmt2 : forall o f, forallb (wf_comb o) f = true -> lex2 (fmt2 o f) = Some (toks_file o f).
Proof.
  intros o f H. pose proof (LexTo_file o f H [] I) as L. rewrite app_nil_r in L. rewrite L. cbn. now rewrite app_nil_r.
Qed.

Theorem lex_print_comb : forall o c, wf_comb o c = true -> lex2 (print_comb o c) = Some (toks_comb (comb_bar o c) c).
Proof.
  intros o c H. pose proof (LexTo_comb o c H [] I) as L. rewrite app_nil_r in L. rewrite L. cbn. now rewrite app_nil_r.
Qed.

(** * corollaries *)
Lemma lex_print_tref : forall t, wf_tref t = true -> lex2 (print_tref t) = Some (toks_tref t).
Proof.
  intros t H. pose proof (LexTo_tref t H [] I) as L. rewrite app_nil_r in L. rewrite L. cbn. now rewrite app_nil_r.
Qed.

Lemma parse_ty_top_toks : forall t, wf_tref t = true -> parse_ty_top (toks_tref t) = POk t [].
Proof.
  intros t H. unfold parse_ty_top. rewrite <- (app_nil_r (toks_tref t)) at 2.
  apply (proj1 parse_toks); [assumption|reflexivity|lia].
Qed.

Theorem parse_print_tref : forall t, wf_tref t = true -> parse_ty_bytes (print_tref t) = Some (POk t []).
Proof. intros t H. unfold parse_ty_bytes. now rewrite lex_print_tref, parse_ty_top_toks. Qed.

Theorem print_tref_inj : forall t1 t2, wf_tref t1 = true -> wf_tref t2 = true -> print_tref t1 = print_tref t2 -> t1 = t2.
Proof.
  intros t1 t2 H1 H2 E. pose proof (parse_print_tref t1 H1) as P1. rewrite E, (parse_print_tref t2 H2) in P1. congruence.
Qed.

Theorem toks_tref_inj : forall t1 t2, wf_tref t1 = true -> wf_tref t2 = true -> toks_tref t1 = toks_tref t2 -> t1 = t2.
Proof.
  intros t1 t2 H1 H2 E. pose proof (parse_ty_top_toks t1 H1) as P1. rewrite E, (parse_ty_top_toks t2 H2) in P1. congruence.
Qed.

(* a type reference in front of anything that cannot continue it: the parser stops exactly there *)
Theorem parse_print_tref_tail : forall t tail rest, wf_tref t = true -> nid tail -> lex2 tail = Some rest -> hd_is 60 rest = false ->
  parse_ty_bytes (print_tref t ++ tail) = Some (POk t rest).
Proof.
  intros t tail rest H Ht Hl Hr. unfold parse_ty_bytes. rewrite (LexTo_tref t H tail Ht), Hl. cbn [prepend].
  unfold parse_ty_top. f_equal. apply (proj1 parse_toks); [assumption|assumption|rewrite app_length; lia].
Qed.

(** the option sets *)
Lemma wf_comment_ignore : forall o o' c, o_ignore o' = true -> wf_comment o c = true -> wf_comment o' c = true.
Proof. intros o o' c H _. unfold wf_comment. now rewrite H. Qed.

Lemma wf_field_ignore : forall o o' f, o_ignore o' = true -> wf_field o f = true -> wf_field o' f = true.
Proof.
  intros o o' f Hi H. unfold wf_field in *. apply andb_true_iff in H. destruct H as [H1 H2].
  rewrite H1. eapply wf_comment_ignore; eauto.
Qed.

Lemma forallb_impl : forall A (p q : A -> bool) l, (forall a, p a = true -> q a = true) -> forallb p l = true -> forallb q l = true.
Proof. intros A p q l H. rewrite !forallb_forall. auto. Qed.

Lemma wf_variant_ignore : forall o o' v, o_ignore o' = true -> wf_variant o v = true -> wf_variant o' v = true.
Proof.
  intros o o' v Hi H. unfold wf_variant in *. apply andb_true_iff in H. destruct H as [H H3].
  apply andb_true_iff in H. destruct H as [H1 H2]. rewrite H1, (wf_comment_ignore o o' _ Hi H2). cbn [andb].
  destruct (v_body v); [assumption|]. eapply forallb_impl; [|exact H3]. intros; eapply wf_field_ignore; eauto.
Qed.

Lemma wf_comb_ignore : forall o o' c, o_ignore o' = true -> wf_comb o c = true -> wf_comb o' c = true.
Proof.
  intros o o' c Hi H. unfold wf_comb in *. apply andb_true_iff in H. destruct H as [H H3].
  apply andb_true_iff in H. destruct H as [H1 H2]. rewrite H2, (wf_comment_ignore o o' _ Hi H1). cbn [andb].
  destruct (c_decl c) as [nm m ps d|nm m args d]; cbn [wf_decl] in *;
    apply andb_true_iff in H3; destruct H3 as [H3 H4]; rewrite H3; cbn [andb];
    (destruct d; cbn [wf_def] in *; [assumption| |]; (eapply forallb_impl; [|exact H4]); intros;
     [eapply wf_field_ignore|eapply wf_variant_ignore]; eauto).
Qed.

Definition is_union (c : comb) : bool :=
  match c_decl c with
  | DType _ _ _ (DUnion _) | DFunc _ _ _ (DUnion _) => true
  | _ => false
  end.

Lemma toks_comb_bar_irrelevant : forall c b1 b2, is_union c = false -> toks_comb b1 c = toks_comb b2 c.
Proof.
  intros [cm anns [nm m ps d|nm m args d]] b1 b2 H; unfold is_union in H; cbn in H; destruct d; try discriminate; reflexivity.
Qed.

(* the default and the canonical layout of a declaration carry the same tokens -- up to the leading bar of a union *)
Theorem fmt2_options_same_tokens : forall c, wf_comb default_options c = true ->
  lex2 (print_comb default_options c) = Some (toks_comb (comb_bar default_options c) c) /\
  lex2 (print_comb canonical_options c) = Some (toks_comb (comb_bar canonical_options c) c) /\
  (is_union c = false -> lex2 (print_comb default_options c) = lex2 (print_comb canonical_options c)).
Proof.
  intros c H. assert (H' : wf_comb canonical_options c = true) by (eapply wf_comb_ignore; eauto).
  repeat split; try (now apply lex_print_comb).
  intro U. rewrite !lex_print_comb by assumption. f_equal. now apply toks_comb_bar_irrelevant.
Qed.

(** F8 (repaired in /repo by commit 3b6a30bc): a union with one variant keeps its bar *)
Definition single_union (c : comb) : bool :=
  match c_decl c with
  | DType _ _ _ (DUnion [_]) | DFunc _ _ _ (DUnion [_]) => true
  | _ => false
  end.

Theorem single_variant_keeps_bar : forall o c, single_union c = true -> comb_bar o c = true.
Proof.
  intros o [cm anns [nm m ps d|nm m args d]] H; unfold single_union in H; cbn [c_decl] in H;
    destruct d as [|?|[|v [|? ?]]]; try discriminate;
    unfold comb_bar, decl_bar; cbn [c_decl c_anns]; cbn zeta; unfold def_bar; cbn [length Nat.eqb]; apply orb_true_r.
Qed.

Definition nA : str := [65].
Definition tA : tref := TApp (TName [] nA) false [].
Definition f8_union : comb := Comb [] [] (DFunc (TName [] [102]) 1 [] (DUnion [Variant nA [] (VFields [])])).
Definition f8_struct : comb := Comb [] [] (DFunc (TName [] [102]) 1 [] (DStruct [Field [] false false [] tA])).
Definition f8_type_union : comb := Comb [] [] (DType (TName [] [97]) 0 [] (DUnion [Variant nA [] (VFields [])])).

(* F19 (repaired in /repo by commit 2301fcd1): TL2Field.Print as it was, every ignored field written `_` *)
Definition print_field_old (f : field) : str :=
  (if nonempty (f_name f)
   then (if f_ign f then [95] else f_name f) ++ (if f_opt f then [63] else []) ++ [58]
   else []) ++ print_tref (f_type f).

(* historical: the old printer wrote the deprecated field `_foo:A` like the field `_:A`; the current one keeps them apart *)
Theorem fmt2_old_dep_name_refuted :
  exists f f', f_name f <> f_name f' /\ wf_field_core f = true /\ wf_field_core f' = true /\
    print_field_old f = print_field_old f' /\ print_field f <> print_field f'.
Proof.
  exists (Field [95; 102; 111; 111] false true [] (TApp (TName [] [65]) false [])), (Field [95] false true [] (TApp (TName [] [65]) false [])).
  split; [discriminate|]. repeat split; vm_compute; congruence.
Qed.

(* the code before the repair: the union loop without the [single] disjunct *)
Definition print_def_nl_old (o : options) (d : typedef) (force : bool) (isret : bool) : str * bool :=
  match d with
  | DUnion vs =>
      let head := if negb isret then s_sp_eq_sp else [] in
      let has := negb (o_ignore o) && existsb variant_has_comment vs in
      let force1 := force || has in
      let sep := (if force1 then s_nl_tab else s_sp) ++ s_bar_sp in
      let '(t, f) := print_variants o sep false true force1 vs in
      (head ++ t, f)
  | _ => print_def_nl o d force isret
  end.

(* historical: before the repair the one-line text of a one-variant union was the text of a struct with one
   anonymous field (`=> A`, ` = A`), for both option sets, so no parser could give the union back *)
Theorem fmt2_old_single_variant_refuted :
  exists v f, forall o isret, o = default_options \/ o = canonical_options ->
    fst (print_def_nl_old o (DUnion [v]) false isret) = fst (print_def_nl o (DStruct [f]) false isret) /\
    fst (print_def_nl o (DUnion [v]) false isret) <> fst (print_def_nl o (DStruct [f]) false isret).
Proof.
  exists (Variant nA [] (VFields [])), (Field [] false false [] tA).
  intros o isret [-> | ->]; destruct isret; split; vm_compute; congruence.
Qed.
