(** Invariants of the [Udp] model and the safety theorems of C36. *)
From Coq Require Import List NArith Bool Arith Lia ZArith ZifyN ZifyNat ZifyBool.
From TLV Require Import Udp.UdpModel Udp.UdpLemmas.
Import ListNotations.
Open Scope N_scope.

(** * access lemmas *)
Lemma getc_out : forall c s, (length (st_conns s) <= c)%nat -> getc c s = conn0.
Proof. intros. unfold getc. apply nth_overflow. exact H. Qed.

Lemma upd_rcv_acq : forall c f s, st_acq (upd_rcv c f s) = st_acq s. Proof. reflexivity. Qed.
Lemma upd_rcv_wait : forall c f s, st_wait (upd_rcv c f s) = st_wait s. Proof. reflexivity. Qed.
Lemma upd_rcv_net : forall c f s, st_net (upd_rcv c f s) = st_net s. Proof. reflexivity. Qed.
Lemma upd_rcv_len : forall c f s, length (st_conns (upd_rcv c f s)) = length (st_conns s).
Proof. intros. unfold upd_rcv, set_conns. cbn [st_conns]. apply length_upd. Qed.
Lemma upd_snd_len : forall c f s, length (st_conns (upd_snd c f s)) = length (st_conns s).
Proof. intros. unfold upd_snd, set_conns. cbn [st_conns]. apply length_upd. Qed.

Lemma getc_upd_rcv_same : forall c f s, (c < length (st_conns s))%nat ->
  getc c (upd_rcv c f s) = mkConn (sndr (getc c s)) (f (rcvr (getc c s))).
Proof. intros. unfold getc, upd_rcv, set_conns. cbn [st_conns]. rewrite nth_upd_same by exact H. reflexivity. Qed.

Lemma getc_upd_rcv_other : forall c c' f s, c <> c' -> getc c' (upd_rcv c f s) = getc c' s.
Proof. intros. unfold getc, upd_rcv, set_conns. cbn [st_conns]. apply nth_upd_other. exact H. Qed.

Lemma getc_upd_snd_same : forall c f s, (c < length (st_conns s))%nat ->
  getc c (upd_snd c f s) = mkConn (f (sndr (getc c s))) (rcvr (getc c s)).
Proof. intros. unfold getc, upd_snd, set_conns. cbn [st_conns]. rewrite nth_upd_same by exact H. reflexivity. Qed.

Lemma getc_upd_snd_other : forall c c' f s, c <> c' -> getc c' (upd_snd c f s) = getc c' s.
Proof. intros. unfold getc, upd_snd, set_conns. cbn [st_conns]. apply nth_upd_other. exact H. Qed.

Lemma upd_rcv_out : forall c f s, (length (st_conns s) <= c)%nat -> upd_rcv c f s = s.
Proof. intros. unfold upd_rcv, set_conns. rewrite upd_out by exact H. destruct s; reflexivity. Qed.

Lemma upd_snd_out : forall c f s, (length (st_conns s) <= c)%nat -> upd_snd c f s = s.
Proof. intros. unfold upd_snd, set_conns. rewrite upd_out by exact H. destruct s; reflexivity. Qed.

(** * the invariant *)
Definition chs (cn : conn) : list chunk := s_chunks (sndr cn).
Definition nchk (cn : conn) : N := ulen (chs cn).
Definition me (cn : conn) (x : N) : N := cend (chs cn) (N.to_nat x).
Definition ms (cn : conn) (x : N) : N := cstart (chs cn) (N.to_nat x).
Definition rcvd (r : receiver) (x : N) : Prop := x < r_prefix r \/ In x (r_got r).

Record conn_ok (cn : conn) : Prop := mk_conn_ok {
  ok_wf : wf 0 0 0 (chs cn) (s_off (sndr cn));
  ok_done : reasm (chs cn) [] = (s_done (sndr cn), []);
  ok_msz : forall x, x < nchk cn -> exists m, In m (s_done (sndr cn)) /\ ulen m = me cn x - ms cn x;
  ok_queue : Forall (fun m : msg => m <> []) (s_queue (sndr cn));
  ok_prefix : r_prefix (rcvr cn) <= nchk cn;
  ok_got : forall x, In x (r_got (rcvr cn)) -> r_prefix (rcvr cn) <= x /\ x < nchk cn;
  ok_nodup : NoDup (r_got (rcvr cn));
  ok_reasm : reasm (firstn (N.to_nat (r_prefix (rcvr cn))) (chs cn)) [] = (r_deliv (rcvr cn), r_cur (rcvr cn));
  ok_cover : forall x, rcvd (rcvr cn) x -> me cn x <= r_total (rcvr cn);
  ok_bound : r_total (rcvr cn) = 0 \/ exists x, x < nchk cn /\ r_total (rcvr cn) = me cn x;
  ok_req : if r_inq (rcvr cn)
           then 0 < r_req (rcvr cn) /\ exists x, x < nchk cn /\ r_total (rcvr cn) + r_req (rcvr cn) = me cn x
           else r_req (rcvr cn) = 0;
  ok_sprefix : s_prefix (sndr cn) <= r_prefix (rcvr cn);
  ok_acked : forall x, In x (s_acked (sndr cn)) -> rcvd (rcvr cn) x
}.

Definition front_ok (cn : conn) : Prop := ~ In (r_prefix (rcvr cn)) (r_got (rcvr cn)).

Definition total_held (cs : list conn) : N := sumN (map held cs).

Definition dgram_ok (s : state) (d : dgram) : Prop :=
  match d with
  | Data c f k => 0 < k /\ f + k <= nchk (getc c s)
  | Ack c p ks => p <= r_prefix (rcvr (getc c s)) /\ forall x, In x ks -> rcvd (rcvr (getc c s)) x
  end.

Section WithParams.
Variable limit : N.
Variable maxwin : N.

(** everything except "the chunk at the prefix is not received" and "the first waiter does not fit" *)
Record core (s : state) : Prop := mk_core {
  core_conn : forall c, conn_ok (getc c s);
  core_wnodup : NoDup (st_wait s);
  core_wiff : forall c, In c (st_wait s) <-> (c < length (st_conns s))%nat /\ r_inq (rcvr (getc c s)) = true;
  core_acct : st_acq s = total_held (st_conns s);
  core_limit : st_acq s <= limit;
  core_net : Forall (dgram_ok s) (st_net s) }.

Definition wfront (s : state) : Prop :=
  forall w rest, st_wait s = w :: rest -> limit < st_acq s + r_req (rcvr (getc w s)).

Record inv (s : state) : Prop := mk_inv {
  inv_core : core s;
  inv_front : forall c, front_ok (getc c s);
  inv_wfront : wfront s }.

(** monotone relation between the states of one connection under receiver-side operations *)
Record adv (a b : conn) : Prop := mk_adv {
  adv_nchk : nchk a <= nchk b;
  adv_prefix : r_prefix (rcvr a) <= r_prefix (rcvr b);
  adv_rcvd : forall x, rcvd (rcvr a) x -> rcvd (rcvr b) x;
  adv_deliv : exists l, r_deliv (rcvr b) = r_deliv (rcvr a) ++ l;
  adv_total : r_total (rcvr a) <= r_total (rcvr b);
  adv_sprefix : s_prefix (sndr a) <= s_prefix (sndr b);
  adv_sub : exists l, submitted b = submitted a ++ l }.

Lemma adv_refl : forall a, adv a a.
Proof. intros. constructor; auto; try lia; exists []; rewrite app_nil_r; reflexivity. Qed.

Lemma adv_trans : forall a b c, adv a b -> adv b c -> adv a c.
Proof.
  intros a b c [A1 A2 A3 [l1 A4] A5 A6 [m1 A7]] [B1 B2 B3 [l2 B4] B5 B6 [m2 B7]]. constructor; try lia; auto.
  - exists (l1 ++ l2). rewrite B4, A4, app_assoc. reflexivity.
  - exists (m1 ++ m2). rewrite B7, A7, app_assoc. reflexivity.
Qed.

Definition frame (s s' : state) : Prop :=
  length (st_conns s') = length (st_conns s) /\ st_net s' = st_net s /\ forall c, adv (getc c s) (getc c s').

Lemma frame_refl : forall s, frame s s.
Proof. intros. split; [|split]; auto. intros. apply adv_refl. Qed.

Lemma frame_trans : forall a b c, frame a b -> frame b c -> frame a c.
Proof.
  intros a b c (A1 & A2 & A3) (B1 & B2 & B3). split; [congruence|]. split; [congruence|].
  intros x. eapply adv_trans; eauto.
Qed.

Lemma dgram_ok_adv : forall s s' d, (forall c, adv (getc c s) (getc c s')) -> dgram_ok s d -> dgram_ok s' d.
Proof.
  intros s s' d H Hd. destruct d as [c f k|c p ks]; cbn [dgram_ok] in *.
  - destruct (H c) as [A _ _ _ _ _ _]. lia.
  - destruct (H c) as [_ A B _ _ _ _]. destruct Hd as [H1 H2]. split; [lia|]. intros x Hx. apply B. auto.
Qed.

Lemma net_ok_frame : forall s s', frame s s' -> Forall (dgram_ok s) (st_net s) -> Forall (dgram_ok s') (st_net s').
Proof.
  intros s s' (A & B & C) H. rewrite B. eapply Forall_impl; [|exact H]. intros d. apply dgram_ok_adv. exact C.
Qed.

(** the same, for operations that only move memory: everything but r_total / r_inq / r_req is unchanged *)
Record ext (a b : conn) : Prop := mk_ext {
  ext_snd : sndr b = sndr a;
  ext_prefix : r_prefix (rcvr b) = r_prefix (rcvr a);
  ext_got : r_got (rcvr b) = r_got (rcvr a);
  ext_cur : r_cur (rcvr b) = r_cur (rcvr a);
  ext_deliv : r_deliv (rcvr b) = r_deliv (rcvr a);
  ext_total : r_total (rcvr a) <= r_total (rcvr b) }.

Lemma ext_refl : forall a, ext a a.
Proof. intros. constructor; auto; lia. Qed.

Lemma ext_trans : forall a b c, ext a b -> ext b c -> ext a c.
Proof. intros a b c [] []. constructor; try congruence; lia. Qed.

Lemma ext_adv : forall a b, ext a b -> adv a b.
Proof.
  intros a b []. constructor; auto; try lia.
  - unfold nchk, chs. rewrite ext_snd0. lia.
  - unfold rcvd. rewrite ext_prefix0, ext_got0. auto.
  - exists []. rewrite app_nil_r. auto.
  - rewrite ext_snd0. lia.
  - exists []. rewrite app_nil_r. unfold submitted. rewrite ext_snd0. reflexivity.
Qed.

Lemma ext_front : forall a b, ext a b -> front_ok a -> front_ok b.
Proof. intros a b [] H. unfold front_ok in *. rewrite ext_prefix0, ext_got0. exact H. Qed.

Definition xframe (s s' : state) : Prop :=
  length (st_conns s') = length (st_conns s) /\ st_net s' = st_net s /\ forall c, ext (getc c s) (getc c s').

Lemma xframe_refl : forall s, xframe s s.
Proof. intros. split; [|split]; auto. intros. apply ext_refl. Qed.

Lemma xframe_trans : forall a b c, xframe a b -> xframe b c -> xframe a c.
Proof.
  intros a b c (A1 & A2 & A3) (B1 & B2 & B3). split; [congruence|]. split; [congruence|].
  intros x. eapply ext_trans; eauto.
Qed.

Lemma xframe_frame : forall s s', xframe s s' -> frame s s'.
Proof. intros s s' (A & B & C). split; [auto|]. split; [auto|]. intros. apply ext_adv. auto. Qed.

(** * accounting *)
Lemma total_held_upd : forall cs i f, (i < length cs)%nat ->
  total_held (upd i f cs) + held (nth i cs conn0) = total_held cs + held (f (nth i cs conn0)).
Proof.
  unfold total_held. induction cs as [|x r IH]; intros i f Hi; cbn [length] in Hi; [lia|].
  destruct i; cbn [upd map sumN nth]. { lia. }
  specialize (IH i f ltac:(lia)). lia.
Qed.

Lemma total_held_upd_same : forall cs i f, held (f (nth i cs conn0)) = held (nth i cs conn0) ->
  total_held (upd i f cs) = total_held cs.
Proof.
  intros. destruct (Nat.lt_ge_cases i (length cs)) as [L|L].
  - pose proof (total_held_upd cs i f L). lia.
  - rewrite upd_out by exact L. reflexivity.
Qed.

Lemma conn0_ok : conn_ok conn0.
Proof.
  constructor; cbn; auto; try lia; try tauto.
  all: try (intros x [H|H]; [lia|tauto]).
  all: try constructor.
  intros x [H|H]; cbn in H; [lia|tauto].
Qed.

Lemma conn_ok_nth_lt : forall cn x, conn_ok cn -> rcvd (rcvr cn) x -> x < nchk cn.
Proof. intros cn x H [L|L]; [pose proof (ok_prefix _ H); lia|apply (ok_got _ H) in L; lia]. Qed.

(** bytes handed over + partial message never exceed the reservation *)
Lemma held_ok : forall cn, conn_ok cn -> bytes (r_deliv (rcvr cn)) + ulen (r_cur (rcvr cn)) <= r_total (rcvr cn).
Proof.
  intros cn H. pose proof (ok_prefix _ H) as Hp. unfold nchk, ulen in Hp.
  pose proof (reasm_pos _ _ (ok_wf _ H) (N.to_nat (r_prefix (rcvr cn))) ltac:(lia)) as R. cbv zeta in R.
  rewrite (ok_reasm _ H) in R. cbn [fst Datatypes.snd] in R. destruct R as [R1 _].
  destruct (N.eq_dec (r_prefix (rcvr cn)) 0) as [Z|Z].
  - rewrite Z in *. pose proof (ok_reasm _ H) as E. rewrite Z in E. cbn [N.to_nat firstn reasm] in E.
    inversion E. cbn. lia.
  - set (x := r_prefix (rcvr cn) - 1).
    assert (Hx : rcvd (rcvr cn) x) by (left; unfold x; lia).
    pose proof (ok_cover _ H x Hx) as C. unfold me, cend, chunk_end in C.
    assert (Hxl : (N.to_nat x < length (chs cn))%nat) by (unfold x; lia).
    destruct (Nat.ltb_spec (N.to_nat (r_prefix (rcvr cn))) (length (chs cn))) as [L|L].
    + assert (L2 : (S (N.to_nat x) < length (chs cn))%nat) by (unfold x; lia).
      destruct (wf_adj _ _ _ _ _ _ (ok_wf _ H) L2) as (A & _).
      replace (S (N.to_nat x)) with (N.to_nat (r_prefix (rcvr cn))) in A by (unfold x; lia). lia.
    + assert (Hne : chs cn <> []) by (destruct (chs cn); cbn [length] in Hxl; [lia|congruence]).
      destruct (wf_last _ _ _ _ _ (ok_wf _ H) Hne) as [_ L2].
      replace (pred (length (chs cn))) with (N.to_nat x) in L2 by (unfold x; lia). lia.
Qed.

Lemma held_le : forall cn, conn_ok cn -> bytes (r_deliv (rcvr cn)) <= r_total (rcvr cn).
Proof. intros. pose proof (held_ok _ H). lia. Qed.

(** * checkMemoryWaiters *)
Definition conns_ok (cs : list conn) : Prop := forall c, conn_ok (nth c cs conn0).
Definition wait_ok (cs : list conn) (ws : list nat) : Prop :=
  NoDup ws /\ forall c, In c ws <-> (c < length cs)%nat /\ r_inq (rcvr (nth c cs conn0)) = true.

Ltac splits := repeat match goal with |- _ /\ _ => split end.

Ltac simp_conn := unfold nchk, me, ms, rcvd, front_ok, held in *; unfold chs in *;
  cbn [sndr rcvr r_prefix r_got r_cur r_total r_inq r_req r_deliv s_queue s_done s_chunks s_prefix s_acked s_off grant set_inq set_req] in *.

Lemma grant_ok : forall cn, conn_ok cn -> r_inq (rcvr cn) = true -> conn_ok (mkConn (sndr cn) (grant (rcvr cn))).
Proof.
  intros cn H Hq. pose proof (ok_req _ H) as R. rewrite Hq in R. destruct R as [R1 (x & R2 & R3)].
  destruct H. constructor; simp_conn; auto.
  - intros y Hy. specialize (ok_cover0 y Hy). lia.
  - right. exists x. split; auto.
Qed.

Lemma grant_ext : forall cn, ext cn (mkConn (sndr cn) (grant (rcvr cn))).
Proof. intros. constructor; simp_conn; auto; try lia. Qed.

Lemma held_grant : forall cn, conn_ok cn -> held (mkConn (sndr cn) (grant (rcvr cn))) = held cn + r_req (rcvr cn).
Proof. intros cn H. pose proof (held_le _ H). simp_conn. lia. Qed.

Lemma cw_spec : forall ws acq cs,
  conns_ok cs -> wait_ok cs ws -> acq = total_held cs -> acq <= limit ->
  let '(ws', acq', cs') := cw limit ws acq cs in
  conns_ok cs' /\ wait_ok cs' ws' /\ acq' = total_held cs' /\ acq' <= limit /\ (length cs' = length cs)%nat /\
  (forall c, ext (nth c cs conn0) (nth c cs' conn0)) /\
  (forall w rest, ws' = w :: rest -> limit < acq' + r_req (rcvr (nth w cs' conn0))) /\
  (exists k, ws = firstn k ws ++ ws') /\ acq <= acq'.
Proof.
  induction ws as [|w rest IH]; intros acq cs Hc Hw Ha Hl; cbn [cw].
  - splits; auto; try lia; try apply Hw. { intros; apply ext_refl. } { intros; discriminate. }
    exists O. reflexivity.
  - destruct (acq + r_req (rcvr (nth w cs conn0)) <=? limit) eqn:E.
    + apply N.leb_le in E.
      destruct Hw as [Hnd Hiff]. apply NoDup_cons_iff in Hnd. destruct Hnd as [Hnin Hnd'].
      destruct (proj1 (Hiff w) (or_introl eq_refl)) as [Hwl Hwq].
      set (cs1 := upd w (fun x => mkConn (sndr x) (grant (rcvr x))) cs).
      assert (Hc1 : conns_ok cs1).
      { intros c. unfold cs1. destruct (Nat.eq_dec w c) as [->|Hne].
        - rewrite nth_upd_same by exact Hwl. apply grant_ok; auto.
        - rewrite nth_upd_other by exact Hne. apply Hc. }
      assert (Hw1 : wait_ok cs1 rest).
      { split; [exact Hnd'|]. intros c. unfold cs1. rewrite length_upd. destruct (Nat.eq_dec w c) as [->|Hne].
        - rewrite nth_upd_same by exact Hwl. cbn [rcvr grant r_inq]. split; [tauto|]. intros [_ F]. discriminate.
        - rewrite nth_upd_other by exact Hne. rewrite <- Hiff. cbn [In]. split; [auto|]. intros [F|F]; [congruence|auto]. }
      assert (Ha1 : acq + r_req (rcvr (nth w cs conn0)) = total_held cs1).
      { unfold cs1. pose proof (total_held_upd cs w (fun x => mkConn (sndr x) (grant (rcvr x))) Hwl) as T.
        cbv beta in T. rewrite held_grant in T by apply Hc. lia. }
      specialize (IH _ _ Hc1 Hw1 Ha1 E).
      destruct (cw limit rest (acq + r_req (rcvr (nth w cs conn0))) cs1) as [[ws' acq'] cs'].
      destruct IH as (I1 & I2 & I3 & I4 & I5 & I6 & I8 & [k I9] & I10).
      splits; auto; try lia; try apply I2.
      * rewrite I5. unfold cs1. apply length_upd.
      * intros c. eapply ext_trans; [|apply I6]. unfold cs1. destruct (Nat.eq_dec w c) as [->|Hne].
        -- rewrite nth_upd_same by exact Hwl. apply grant_ext.
        -- rewrite nth_upd_other by exact Hne. apply ext_refl.
      * exists (S k). cbn [firstn app]. f_equal. exact I9.
    + apply N.leb_gt in E. splits; auto; try lia; try apply Hw. { intros; apply ext_refl. }
      { intros w0 rest0 Hq. inversion Hq; subst. exact E. }
      exists O. reflexivity.
Qed.

(** state-level wrapper, with the accounting clause as a hypothesis so that [release] can use it *)
Lemma check_waiters_spec : forall s,
  (forall c, conn_ok (getc c s)) -> wait_ok (st_conns s) (st_wait s) ->
  st_acq s = total_held (st_conns s) -> st_acq s <= limit -> Forall (dgram_ok s) (st_net s) ->
  core (check_waiters limit s) /\ wfront (check_waiters limit s) /\ xframe s (check_waiters limit s) /\
  st_acq s <= st_acq (check_waiters limit s).
Proof.
  intros s Hc Hw Ha Hl Hn. unfold check_waiters.
  pose proof (cw_spec (st_wait s) (st_acq s) (st_conns s) Hc Hw Ha Hl) as S.
  destruct (cw limit (st_wait s) (st_acq s) (st_conns s)) as [[ws' acq'] cs'].
  destruct S as (I1 & I2 & I3 & I4 & I5 & I6 & I8 & I9 & I10).
  assert (F : xframe s (mkState cs' acq' ws' (st_net s))).
  { split; [exact I5|]. split; [reflexivity|]. exact I6. }
  split; [|split; [|split]]; auto.
  constructor; cbn [st_conns st_acq st_wait st_net]; auto; try apply I2.
  change (st_net s) with (st_net (mkState cs' acq' ws' (st_net s))) at 2.
  eapply net_ok_frame; eauto. apply xframe_frame. exact F.
Qed.

(** * replacing the state of one connection *)
Lemma upd_const : forall A (f : A -> A) d l i, upd i f l = upd i (fun _ => f (nth i l d)) l.
Proof. induction l as [|x r IH]; destruct i; cbn [upd nth]; auto. f_equal. apply IH. Qed.

Definition put (c : nat) (cn1 : conn) (acq : N) (ws : list nat) (s : state) : state :=
  mkState (upd c (fun _ => cn1) (st_conns s)) acq ws (st_net s).

Lemma upd_rcv_put : forall c f s,
  upd_rcv c f s = put c (mkConn (sndr (getc c s)) (f (rcvr (getc c s)))) (st_acq s) (st_wait s) s.
Proof.
  intros. unfold upd_rcv, set_conns, put, getc.
  rewrite (upd_const _ (fun x => mkConn (sndr x) (f (rcvr x))) conn0). reflexivity.
Qed.

Lemma getc_put_same : forall c cn1 acq ws s, (c < length (st_conns s))%nat -> getc c (put c cn1 acq ws s) = cn1.
Proof. intros. unfold getc, put. cbn [st_conns]. apply nth_upd_same. exact H. Qed.

Lemma getc_put_other : forall c c' cn1 acq ws s, c <> c' -> getc c' (put c cn1 acq ws s) = getc c' s.
Proof. intros. unfold getc, put. cbn [st_conns]. apply nth_upd_other. exact H. Qed.

Lemma put_len : forall c cn1 acq ws s, length (st_conns (put c cn1 acq ws s)) = length (st_conns s).
Proof. intros. unfold put. cbn [st_conns]. apply length_upd. Qed.

Lemma put_adv : forall c cn1 acq ws s, (c < length (st_conns s))%nat -> adv (getc c s) cn1 ->
  forall c', adv (getc c' s) (getc c' (put c cn1 acq ws s)).
Proof.
  intros. destruct (Nat.eq_dec c c') as [<-|Hne].
  - rewrite getc_put_same by exact H. exact H0.
  - rewrite getc_put_other by exact Hne. apply adv_refl.
Qed.

Lemma put_ext : forall c cn1 acq ws s, (c < length (st_conns s))%nat -> ext (getc c s) cn1 ->
  xframe s (put c cn1 acq ws s).
Proof.
  intros. split; [apply put_len|]. split; [reflexivity|]. intros c'. destruct (Nat.eq_dec c c') as [<-|Hne].
  - rewrite getc_put_same by exact H. exact H0.
  - rewrite getc_put_other by exact Hne. apply ext_refl.
Qed.

Lemma core_put : forall s c cn1 acq ws,
  core s -> (c < length (st_conns s))%nat -> conn_ok cn1 -> adv (getc c s) cn1 ->
  NoDup ws ->
  (forall c', In c' ws <-> (c' < length (st_conns s))%nat /\
                           r_inq (rcvr (if Nat.eqb c' c then cn1 else getc c' s)) = true) ->
  acq + held (getc c s) = st_acq s + held cn1 -> acq <= limit ->
  core (put c cn1 acq ws s).
Proof.
  intros s c cn1 acq ws H Hc Hok Hadv Hnd Hiff Hacct Hl. destruct H as [C1 C2 C3 C4 C5 C6].
  constructor.
  - intros c'. destruct (Nat.eq_dec c c') as [<-|Hne].
    + rewrite getc_put_same by exact Hc. exact Hok.
    + rewrite getc_put_other by exact Hne. apply C1.
  - exact Hnd.
  - intros c'. rewrite put_len. rewrite Hiff. destruct (Nat.eqb_spec c' c) as [->|Hne].
    + rewrite getc_put_same by exact Hc. tauto.
    + rewrite getc_put_other by congruence. tauto.
  - unfold put. cbn [st_acq st_conns].
    pose proof (total_held_upd (st_conns s) c (fun _ => cn1) Hc) as T. cbv beta in T.
    unfold getc in Hacct. lia.
  - exact Hl.
  - change (st_net (put c cn1 acq ws s)) with (st_net s).
    eapply Forall_impl; [|exact C6]. intros d. apply dgram_ok_adv. apply put_adv; auto.
Qed.

(** * tryAcquireMemory / ensureWindowSize *)
Lemma NoDup_snoc : forall A (l : list A) x, NoDup l -> ~ In x l -> NoDup (l ++ [x]).
Proof.
  induction l as [|y r IH]; intros x Hn Hx; cbn [app]. { constructor; [tauto|constructor]. }
  apply NoDup_cons_iff in Hn. destruct Hn as [Hy Hr]. constructor.
  - rewrite in_app_iff. cbn [In]. intros [F|[F|F]]; [tauto| |tauto]. subst. apply Hx. left. reflexivity.
  - apply IH; auto. intros F. apply Hx. right. exact F.
Qed.

Lemma upd_upd : forall A (f g : A -> A) l i, upd i g (upd i f l) = upd i (fun x => g (f x)) l.
Proof. induction l as [|x r IH]; destruct i; cbn [upd]; auto. f_equal. apply IH. Qed.

Lemma put_put : forall c cn1 cn2 a1 w1 a2 w2 s, put c cn2 a2 w2 (put c cn1 a1 w1 s) = put c cn2 a2 w2 s.
Proof. intros. unfold put. cbn [st_conns st_net]. rewrite upd_upd. reflexivity. Qed.

Lemma upd_rcv_of_put : forall c f cn1 a w s, (c < length (st_conns s))%nat ->
  upd_rcv c f (put c cn1 a w s) = put c (mkConn (sndr cn1) (f (rcvr cn1))) a w s.
Proof.
  intros. rewrite upd_rcv_put. rewrite getc_put_same by exact H. rewrite put_put. reflexivity.
Qed.

Lemma try_acquire_spec : forall s c delta x,
  core s -> wfront s -> (c < length (st_conns s))%nat ->
  0 < delta -> x < nchk (getc c s) -> r_total (rcvr (getc c s)) + delta = me (getc c s) x ->
  let r := try_acquire limit c (upd_rcv c (set_req delta) s) in
  core (Datatypes.snd r) /\ wfront (Datatypes.snd r) /\ xframe s (Datatypes.snd r) /\
  (fst r = true -> r_total (rcvr (getc c s)) + delta <= r_total (rcvr (getc c (Datatypes.snd r)))).
Proof.
  intros s c delta x H Hwf Hc Hd Hx Hme r. unfold r, try_acquire. clear r.
  set (cn := getc c s) in *.
  set (cn1 := mkConn (sndr cn) (mkReceiver (r_prefix (rcvr cn)) (r_got (rcvr cn)) (r_cur (rcvr cn)) (r_total (rcvr cn)) true delta (r_deliv (rcvr cn)))).
  set (ws1 := if r_inq (rcvr cn) then st_wait s else st_wait s ++ [c]).
  assert (Hok := core_conn _ H c). fold cn in Hok.
  assert (Hcn1 : conn_ok cn1).
  { destruct Hok. unfold cn1. constructor; simp_conn; auto. split; [lia|]. exists x. auto. }
  assert (Hext : ext cn cn1) by (unfold cn1; constructor; simp_conn; auto; lia).
  assert (Hnd1 : NoDup ws1).
  { unfold ws1. destruct (r_inq (rcvr cn)) eqn:Q; [apply (core_wnodup _ H)|]. apply NoDup_snoc; [apply (core_wnodup _ H)|].
    rewrite (core_wiff _ H). fold cn.  rewrite Q. intros [_ F]. discriminate. }
  assert (Hiff1 : forall c', In c' ws1 <-> (c' < length (st_conns s))%nat /\
                              r_inq (rcvr (if Nat.eqb c' c then cn1 else getc c' s)) = true).
  { intros c'. unfold ws1. destruct (r_inq (rcvr cn)) eqn:Q.
    - rewrite (core_wiff _ H). destruct (Nat.eqb_spec c' c) as [->|Hne]; [|tauto].
      fold cn.  rewrite Q. unfold cn1. cbn [rcvr r_inq]. tauto.
    - rewrite in_app_iff, (core_wiff _ H). cbn [In]. destruct (Nat.eqb_spec c' c) as [->|Hne].
      + unfold cn1. cbn [rcvr r_inq]. split; [auto|]. intros _. right. left. reflexivity.
      + split; [intros [G|[G|[]]]; [exact G|congruence]|tauto]. }
  set (s1 := put c cn1 (st_acq s) ws1 s).
  assert (Hcore1 : core s1).
  { apply core_put; auto; try (apply ext_adv; exact Hext); try apply (core_limit _ H). }
  assert (Hx1 : xframe s s1) by (apply put_ext; auto).
  (* the state computed by the function is s1 *)
  assert (Es1 : (if r_inq (rcvr (getc c (upd_rcv c (set_req delta) s)))
                 then upd_rcv c (set_req delta) s
                 else upd_rcv c (set_inq true)
                        (mkState (st_conns (upd_rcv c (set_req delta) s)) (st_acq (upd_rcv c (set_req delta) s))
                                 (st_wait (upd_rcv c (set_req delta) s) ++ [c]) (st_net (upd_rcv c (set_req delta) s)))) = s1).
  { rewrite getc_upd_rcv_same by exact Hc. cbn [rcvr set_req r_inq]. fold cn. 
    rewrite upd_rcv_put. fold cn.  unfold s1, ws1.
    destruct (r_inq (rcvr cn)) eqn:Q.
    - unfold cn1. unfold set_req. rewrite Q. reflexivity.
    - change (mkState (st_conns (put c (mkConn (sndr cn) (set_req delta (rcvr cn))) (st_acq s) (st_wait s) s))
                      (st_acq (put c (mkConn (sndr cn) (set_req delta (rcvr cn))) (st_acq s) (st_wait s) s))
                      (st_wait (put c (mkConn (sndr cn) (set_req delta (rcvr cn))) (st_acq s) (st_wait s) s) ++ [c])
                      (st_net (put c (mkConn (sndr cn) (set_req delta (rcvr cn))) (st_acq s) (st_wait s) s)))
        with (put c (mkConn (sndr cn) (set_req delta (rcvr cn))) (st_acq s) (st_wait s ++ [c]) s).
      rewrite upd_rcv_of_put by exact Hc. reflexivity. }
  rewrite Es1. clear Es1.
  change (st_wait s1) with ws1. change (st_acq s1) with (st_acq s). change (st_conns s1) with (upd c (fun _ => cn1) (st_conns s)).
  assert (Hfail : forall w rest, ws1 = w :: rest -> (w = c -> limit < st_acq s + delta) ->
            core s1 /\ wfront s1 /\ xframe s s1 /\ (false = true -> r_total (rcvr cn) + delta <= r_total (rcvr (getc c s1)))).
  { intros w rest E Hw. split; [exact Hcore1|]. split; [|split; [exact Hx1|discriminate]].
    intros w' rest' E'. change (st_wait s1) with ws1 in E'. rewrite E in E'. inversion E'; subst w' rest'.
    change (st_acq s1) with (st_acq s). destruct (Nat.eq_dec w c) as [->|Hne].
    - unfold s1. rewrite getc_put_same by exact Hc. unfold cn1. cbn [rcvr r_req]. auto.
    - unfold s1. rewrite getc_put_other by congruence.
      unfold ws1 in E. destruct (r_inq (rcvr cn)).
      + eapply Hwf; eauto.
      + destruct (st_wait s) as [|w0 r0] eqn:W; cbn [app] in E; inversion E; subst; [congruence|]. eapply Hwf; eauto. }
  destruct ws1 as [|w rest] eqn:W.
  { exfalso. assert (In c []) by (rewrite Hiff1; rewrite Nat.eqb_refl; unfold cn1; cbn [rcvr r_inq]; auto). tauto. }
  destruct (Nat.eqb_spec w c) as [->|Hne]; cbn [fst Datatypes.snd].
  2:{ eapply Hfail; eauto. intros; congruence. }
  replace (r_req (rcvr (getc c s1))) with delta by (unfold s1; rewrite getc_put_same by exact Hc; reflexivity).
  destruct (st_acq s + delta <=? limit) eqn:E; cbn [fst Datatypes.snd].
  2:{ apply N.leb_gt in E. eapply Hfail; eauto. }
  apply N.leb_le in E.
  (* success: the connection leaves the queue with its reservation extended, then the other waiters are served *)
  set (cn2 := mkConn (sndr cn) (grant (rcvr cn1))).
  replace (upd_rcv c grant (mkState (upd c (fun _ => cn1) (st_conns s)) (st_acq s + delta) rest (st_net s1)))
    with (put c cn2 (st_acq s + delta) rest s).
  2:{ change (mkState (upd c (fun _ => cn1) (st_conns s)) (st_acq s + delta) rest (st_net s1))
        with (put c cn1 (st_acq s + delta) rest s).
      rewrite upd_rcv_of_put by exact Hc. reflexivity. }
  set (s2 := put c cn2 (st_acq s + delta) rest s).
  assert (Hext2 : ext cn cn2) by (unfold cn2, cn1; constructor; simp_conn; auto; lia).
  assert (Hcore2 : core s2).
  { apply NoDup_cons_iff in Hnd1. destruct Hnd1 as [Hnin Hnd']. apply core_put; auto.
    - change cn2 with (mkConn (sndr cn1) (grant (rcvr cn1))). apply grant_ok; auto.
    - apply ext_adv. exact Hext2.
    - intros c'. specialize (Hiff1 c'). cbn [In] in Hiff1. destruct (Nat.eqb_spec c' c) as [Heq|Hne].
      + rewrite Heq in *. unfold cn2. cbn [rcvr grant r_inq]. split; [tauto|]. intros [_ F]. discriminate.
      + rewrite <- Hiff1. split; [auto|]. intros [F|F]; [congruence|auto].
    - pose proof (held_le _ Hok). unfold cn2, cn1. simp_conn. fold cn.   lia. }
  pose proof (check_waiters_spec s2 (core_conn _ Hcore2)
                (conj (core_wnodup _ Hcore2) (core_wiff _ Hcore2)) (core_acct _ Hcore2) (core_limit _ Hcore2) (core_net _ Hcore2))
    as (K1 & K2 & K3 & K4).
  split; [exact K1|]. split; [exact K2|]. split.
  - eapply xframe_trans; [|exact K3]. apply put_ext; auto.
  - intros _. destruct K3 as (_ & _ & K3). specialize (K3 c). destruct K3 as [_ _ _ _ _ T].
    unfold s2 in T. rewrite getc_put_same in T by exact Hc. unfold cn2, cn1 in T. simp_conn. exact T.
Qed.

Lemma ensure_window_spec : forall s c seq,
  core s -> wfront s -> (c < length (st_conns s))%nat -> seq < nchk (getc c s) ->
  let ch := nth (N.to_nat seq) (chs (getc c s)) chunk0 in
  let r := ensure_window limit maxwin c seq ch s in
  core (Datatypes.snd r) /\ wfront (Datatypes.snd r) /\ xframe s (Datatypes.snd r) /\
  (fst r = true -> me (getc c s) seq <= r_total (rcvr (getc c (Datatypes.snd r)))).
Proof.
  intros s c seq H Hwf Hc Hseq ch r. unfold r, ensure_window. clear r.
  set (cn := getc c s) in *.
  assert (Triv : core s /\ wfront s /\ xframe s s) by (split; [|split]; auto using xframe_refl).
  destruct (maxwin <? seq - r_prefix (rcvr cn) + 1). { cbn [fst Datatypes.snd]. intuition discriminate. }
  destruct (chunk_end ch <=? r_total (rcvr cn)) eqn:E1.
  { cbn [fst Datatypes.snd]. apply N.leb_le in E1. intuition. }
  apply N.leb_gt in E1.
  destruct (r_inq (rcvr cn) && (r_req (rcvr cn) <=? chunk_end ch - r_total (rcvr cn))) eqn:E2.
  { cbn [fst Datatypes.snd]. intuition discriminate. }
  pose proof (try_acquire_spec s c (chunk_end ch - r_total (rcvr cn)) seq H Hwf Hc ltac:(lia) Hseq) as T.
  fold cn in T. 
  assert (Hme : r_total (rcvr cn) + (chunk_end ch - r_total (rcvr cn)) = me cn seq) by (unfold me, cend; fold ch; lia).
  specialize (T Hme). cbv zeta in T. destruct T as (T1 & T2 & T3 & T4).
  split; [exact T1|]. split; [exact T2|]. split; [exact T3|]. intros G. specialize (T4 G). lia.
Qed.

Lemma wait_iff_same : forall s c cn1, core s -> (c < length (st_conns s))%nat ->
  r_inq (rcvr cn1) = r_inq (rcvr (getc c s)) ->
  forall c', In c' (st_wait s) <-> (c' < length (st_conns s))%nat /\
                                   r_inq (rcvr (if Nat.eqb c' c then cn1 else getc c' s)) = true.
Proof.
  intros s c cn1 H Hc Hq c'. rewrite (core_wiff _ H). destruct (Nat.eqb_spec c' c) as [Heq|Hne]; [rewrite Heq, Hq|]; tauto.
Qed.

(** * moveWindowPrefix *)
Definition stepped (cn : conn) : conn :=
  let r := rcvr cn in
  let ch := nth (N.to_nat (r_prefix r)) (chs cn) chunk0 in
  let cur' := r_cur r ++ c_data ch in
  mkConn (sndr cn)
    (if c_next ch =? 0
     then mkReceiver (r_prefix r + 1) (removeN (r_prefix r) (r_got r)) [] (r_total r) (r_inq r) (r_req r) (r_deliv r ++ [cur'])
     else mkReceiver (r_prefix r + 1) (removeN (r_prefix r) (r_got r)) cur' (r_total r) (r_inq r) (r_req r) (r_deliv r)).

Lemma stepped_fields : forall cn,
  sndr (stepped cn) = sndr cn /\ r_prefix (rcvr (stepped cn)) = r_prefix (rcvr cn) + 1 /\
  r_got (rcvr (stepped cn)) = removeN (r_prefix (rcvr cn)) (r_got (rcvr cn)) /\
  r_total (rcvr (stepped cn)) = r_total (rcvr cn) /\ r_inq (rcvr (stepped cn)) = r_inq (rcvr cn) /\
  r_req (rcvr (stepped cn)) = r_req (rcvr cn).
Proof. intros. unfold stepped. cbv zeta. destruct (c_next _ =? 0); cbn; auto 10. Qed.

Lemma stepped_ok : forall cn, conn_ok cn -> In (r_prefix (rcvr cn)) (r_got (rcvr cn)) -> conn_ok (stepped cn).
Proof.
  intros cn H Hin.
  destruct (stepped_fields cn) as (F1 & F2 & F3 & F4 & F5 & F6).
  pose proof (ok_got _ H _ Hin) as [_ Hlt].
  assert (Hrc : forall x, rcvd (rcvr (stepped cn)) x -> rcvd (rcvr cn) x).
  { intros x [L|L]; rewrite ?F2, ?F3 in L.
    - destruct (N.eq_dec x (r_prefix (rcvr cn))) as [->|Hne]; [right; exact Hin|left; lia].
    - right. apply In_removeN in L. tauto. }
  constructor; unfold nchk, me, ms, chs in *; rewrite ?F1, ?F2, ?F3, ?F4, ?F5, ?F6; try apply H.
  - lia.
  - intros x Hx. apply In_removeN in Hx. destruct Hx as [Hx Hne]. pose proof (ok_got _ H _ Hx). unfold nchk, chs in *. lia.
  - apply NoDup_removeN. apply H.
  - (* reassembly *)
    replace (N.to_nat (r_prefix (rcvr cn) + 1)) with (S (N.to_nat (r_prefix (rcvr cn)))) by lia.
    rewrite (firstn_succ_nth _ chunk0) by (unfold ulen in Hlt; lia).
    rewrite reasm_app. pose proof (ok_reasm _ H) as R. unfold chs in R. rewrite R. cbn [fst Datatypes.snd reasm].
    unfold stepped. cbv zeta. unfold chs. destruct (c_next _ =? 0); cbn [rcvr r_deliv r_cur fst Datatypes.snd]; rewrite ?app_nil_r; reflexivity.
  - intros x Hx. apply (ok_cover _ H). apply Hrc. exact Hx.
  - pose proof (ok_sprefix _ H). lia.
  - intros x Hx. pose proof (ok_acked _ H x Hx) as [L|L].
    + left. rewrite F2. lia.
    + destruct (N.eq_dec x (r_prefix (rcvr cn))) as [->|Hne]; [left; rewrite F2; lia|].
      right. rewrite F3. apply In_removeN. tauto.
Qed.

Lemma stepped_adv : forall cn, In (r_prefix (rcvr cn)) (r_got (rcvr cn)) -> adv cn (stepped cn).
Proof.
  intros cn Hin. destruct (stepped_fields cn) as (F1 & F2 & F3 & F4 & F5 & F6).
  constructor; rewrite ?F1, ?F2, ?F4; auto; try lia.
  - unfold nchk, chs. rewrite F1. lia.
  - intros x [L|L]; [left; rewrite F2; lia|].
    destruct (N.eq_dec x (r_prefix (rcvr cn))) as [->|Hne]; [left; rewrite F2; lia|].
    right. rewrite F3. apply In_removeN. tauto.
  - unfold stepped. cbv zeta. destruct (c_next _ =? 0); cbn [rcvr r_deliv]; eauto. exists []. rewrite app_nil_r. reflexivity.
  - exists []. rewrite app_nil_r. unfold submitted. rewrite F1. reflexivity.
Qed.

Lemma held_le_total : forall cs c, held (nth c cs conn0) <= total_held cs.
Proof.
  unfold total_held. induction cs as [|x r IH]; intros c; destruct c; cbn [nth map sumN]; try (cbn; lia).
  specialize (IH c). lia.
Qed.

Lemma move_prefix_spec : forall c fuel s,
  core s -> wfront s -> (c < length (st_conns s))%nat ->
  (forall c', c' <> c -> front_ok (getc c' s)) ->
  let s' := move_prefix limit fuel c s in
  core s' /\ wfront s' /\ frame s s' /\ (forall c', c' <> c -> front_ok (getc c' s')) /\
  ((length (r_got (rcvr (getc c s))) <= fuel)%nat -> front_ok (getc c s')).
Proof.
  intros c. induction fuel as [|f IH]; intros s H Hwf Hc Hfr; cbn [move_prefix]; cbv zeta.
  { split; [auto|]. split; [auto|]. split; [apply frame_refl|]. split; [auto|].
    intros L. unfold front_ok. destruct (r_got (rcvr (getc c s))); cbn [length] in L; [tauto|lia]. }
  set (cn := getc c s).
  destruct (memN (r_prefix (rcvr cn)) (r_got (rcvr cn))) eqn:M.
  2:{ split; [auto|]. split; [auto|]. split; [apply frame_refl|]. split; [auto|].
      intros _. unfold front_ok. fold cn. apply memN_false. exact M. }
  apply memN_In in M.
  assert (Hok := core_conn _ H c). fold cn in Hok.
  pose proof (stepped_ok _ Hok M) as Hst. pose proof (stepped_adv _ M) as Hadv.
  destruct (stepped_fields cn) as (F1 & F2 & F3 & F4 & F5 & F6).
  assert (Hlen : (length (r_got (rcvr (stepped cn))) < length (r_got (rcvr cn)))%nat)
    by (rewrite F3; apply length_removeN_lt; exact M).
  assert (Hiff : forall c', In c' (st_wait s) <-> (c' < length (st_conns s))%nat /\
                   r_inq (rcvr (if Nat.eqb c' c then stepped cn else getc c' s)) = true)
    by (apply wait_iff_same; auto).
  (* common continuation: from a state s1 that is "s with connection c stepped" and satisfies the invariants *)
  assert (Cont : forall s1, core s1 -> wfront s1 -> frame s s1 -> (length (st_conns s1) = length (st_conns s))%nat ->
            (forall c', c' <> c -> front_ok (getc c' s1)) ->
            (length (r_got (rcvr (getc c s1))) < length (r_got (rcvr cn)))%nat ->
            core (move_prefix limit f c s1) /\ wfront (move_prefix limit f c s1) /\ frame s (move_prefix limit f c s1) /\
            (forall c', c' <> c -> front_ok (getc c' (move_prefix limit f c s1))) /\
            ((length (r_got (rcvr cn)) <= S f)%nat -> front_ok (getc c (move_prefix limit f c s1)))).
  { intros s1 K1 K2 K3 K4 K5 K6. specialize (IH s1 K1 K2 ltac:(lia) K5). cbv zeta in IH.
    destruct IH as (I1 & I2 & I3 & I4 & I5). split; [exact I1|]. split; [exact I2|].
    split; [eapply frame_trans; eauto|]. split; [exact I4|]. intros L. apply I5. lia. }
  unfold stepped in *. cbv zeta in *. fold cn in Hst, Hadv, Hlen, Hiff.
  destruct (c_next (nth (N.to_nat (r_prefix (rcvr cn))) (s_chunks (sndr cn)) chunk0) =? 0) eqn:Z.
  - (* last chunk of the message: hand it over, release its memory *)
    unfold release. rewrite upd_rcv_put. fold cn.
    match goal with |- context [check_waiters limit ?st] => set (s0 := st) end.
    set (n := ulen (r_cur (rcvr cn) ++ c_data (nth (N.to_nat (r_prefix (rcvr cn))) (s_chunks (sndr cn)) chunk0))) in *.
    match type of Hst with conn_ok ?x => set (cn' := x) in * end.
    assert (E0 : s0 = put c cn' (st_acq s - n) (st_wait s) s).
    { unfold s0, put. cbn [st_conns st_acq st_wait st_net]. unfold cn'. unfold chs. rewrite Z. reflexivity. }
    assert (Hh : held cn' + n = held cn).
    { pose proof (held_ok _ Hst) as B. pose proof (held_le _ Hok) as B0.
      unfold cn', chs in B |- *. rewrite Z in B |- *. unfold held. cbn [rcvr r_deliv r_total r_cur] in *.
      rewrite bytes_app in *. unfold bytes at 2. unfold bytes at 2 in B. cbn [map sumN] in *. fold n in B |- *.
      change (ulen (@nil N)) with 0 in B. lia. }
    assert (Hn : n <= st_acq s).
    { rewrite (core_acct _ H). pose proof (held_le_total (st_conns s) c). unfold cn, getc in Hh. lia. }
    assert (Hcore0 : core s0).
    { rewrite E0. apply core_put; auto; try (pose proof (core_limit _ H); lia); try apply (core_wnodup _ H). fold cn. lia. }
    pose proof (check_waiters_spec s0 (core_conn _ Hcore0)
                  (conj (core_wnodup _ Hcore0) (core_wiff _ Hcore0)) (core_acct _ Hcore0) (core_limit _ Hcore0) (core_net _ Hcore0))
      as (K1 & K2 & K3 & K4).
    assert (Fr0 : frame s s0).
    { rewrite E0. split; [apply put_len|]. split; [reflexivity|]. apply put_adv; auto. }
    apply Cont; auto.
    + eapply frame_trans; [exact Fr0|]. apply xframe_frame. exact K3.
    + destruct K3 as (L & _). rewrite L, E0. apply put_len.
    + intros c' Hne. destruct K3 as (_ & _ & K3). eapply ext_front; [apply K3|].
      rewrite E0. rewrite getc_put_other by congruence. apply Hfr. exact Hne.
    + destruct K3 as (_ & _ & K3). destruct (K3 c) as [_ _ G _ _ _]. rewrite G.
      rewrite E0. rewrite getc_put_same by exact Hc. unfold cn'. unfold chs. rewrite Z. cbn [rcvr r_got].
      apply length_removeN_lt. exact M.
  - rewrite upd_rcv_put. fold cn.
    match goal with |- context [move_prefix limit f c ?st] => set (s0 := st) end.
    match type of Hst with conn_ok ?x => set (cn' := x) in * end.
    assert (E0 : s0 = put c cn' (st_acq s) (st_wait s) s).
    { unfold s0, put. unfold cn'. unfold chs. rewrite Z. reflexivity. }
    assert (Hh : held cn' = held cn) by (unfold cn', chs; rewrite Z; reflexivity).
    assert (Hcore0 : core s0).
    { rewrite E0. apply core_put; auto; try apply (core_limit _ H); try apply (core_wnodup _ H). fold cn. lia. }
    assert (Hw0 : wfront s0).
    { intros w rest E. rewrite E0 in E |- *. change (st_wait (put c cn' (st_acq s) (st_wait s) s)) with (st_wait s) in E.
      change (st_acq (put c cn' (st_acq s) (st_wait s) s)) with (st_acq s).
      destruct (Nat.eq_dec c w) as [<-|Hne].
      - rewrite getc_put_same by exact Hc. unfold cn', chs. rewrite Z. cbn [rcvr r_req]. apply (Hwf _ _ E).
      - rewrite getc_put_other by exact Hne. apply (Hwf _ _ E). }
    apply Cont; auto.
    + rewrite E0. split; [apply put_len|]. split; [reflexivity|]. apply put_adv; auto.
    + rewrite E0. apply put_len.
    + intros c' Hne. rewrite E0. rewrite getc_put_other by congruence. apply Hfr. exact Hne.
    + rewrite E0. rewrite getc_put_same by exact Hc. unfold cn', chs. rewrite Z. cbn [rcvr r_got].
      apply length_removeN_lt. exact M.
Qed.

(** * receiveMessageChunk / ReceiveDatagram *)
Lemma inv_of : forall s, core s -> wfront s -> (forall c, front_ok (getc c s)) -> inv s.
Proof. intros. constructor; auto. Qed.

Lemma recv_chunk_spec : forall s c seq,
  inv s -> (c < length (st_conns s))%nat -> seq < nchk (getc c s) ->
  inv (recv_chunk limit maxwin c seq s) /\ frame s (recv_chunk limit maxwin c seq s) /\
  (rcvd (rcvr (getc c (recv_chunk limit maxwin c seq s))) seq \/
   fst (ensure_window limit maxwin c seq (nth (N.to_nat seq) (s_chunks (sndr (getc c s))) chunk0) s) = false).
Proof.
  intros s c seq [H Hfr Hwf] Hc Hseq. unfold recv_chunk.
  destruct (seq <? r_prefix (rcvr (getc c s))) eqn:P.
  { split; [constructor; auto|split; [apply frame_refl|]]. left. left. apply N.ltb_lt. exact P. }
  apply N.ltb_ge in P.
  pose proof (ensure_window_spec s c seq H Hwf Hc Hseq) as E. cbv zeta in E. unfold chs in E.
  destruct (ensure_window limit maxwin c seq (nth (N.to_nat seq) (s_chunks (sndr (getc c s))) chunk0) s) as [ok s1].
  cbn [fst Datatypes.snd] in E. destruct E as (E1 & E2 & E3 & E4).
  assert (Hfr1 : forall c', front_ok (getc c' s1)).
  { intros c'. destruct E3 as (_ & _ & E3). eapply ext_front; [apply E3|apply Hfr]. }
  assert (F1 : frame s s1) by (apply xframe_frame; exact E3).
  destruct ok; cbn [negb fst].
  2:{ split; [apply inv_of; auto|split; [exact F1|right; reflexivity]]. }
  destruct (memN seq (r_got (rcvr (getc c s1)))) eqn:M.
  { split; [apply inv_of; auto|split; [exact F1|]]. left. right. apply memN_In. exact M. }
  apply memN_false in M.
  assert (Hc1 : (c < length (st_conns s1))%nat) by (destruct E3 as (L & _); lia).
  set (cn := getc c s1) in *.
  assert (Hok := core_conn _ E1 c). fold cn in Hok.
  destruct E3 as (_ & _ & E3). pose proof (E3 c) as [X1 X2 X3 X4 X5 X6]. fold cn in X1, X2, X3, X4, X5, X6.
  assert (Hseq1 : seq < nchk cn) by (unfold nchk, chs in *; rewrite X1; exact Hseq).
  assert (Hp1 : r_prefix (rcvr cn) <= seq) by (rewrite X2; exact P).
  assert (Hcov : me cn seq <= r_total (rcvr cn)).
  { specialize (E4 eq_refl). unfold me, chs in *. rewrite X1. exact E4. }
  rewrite upd_rcv_put. fold cn.
  set (cn2 := mkConn (sndr cn) (mkReceiver (r_prefix (rcvr cn)) (seq :: r_got (rcvr cn)) (r_cur (rcvr cn)) (r_total (rcvr cn))
                                          (r_inq (rcvr cn)) (r_req (rcvr cn)) (r_deliv (rcvr cn)))).
  set (s2 := put c cn2 (st_acq s1) (st_wait s1) s1).
  assert (Hcn2 : conn_ok cn2).
  { destruct Hok. unfold cn2. constructor; simp_conn; auto.
    - intros x [<-|Hx]; [split; [exact Hp1|exact Hseq1]|auto].
    - constructor; auto.
    - intros x [L|[<-|L]]; auto.
    - intros x Hx. destruct (ok_acked0 x Hx); auto. right. right. auto. }
  assert (Hadv2 : adv cn cn2).
  { unfold cn2. constructor; simp_conn; auto; try lia.
    - intros x [L|L]; auto. right. right. exact L.
    - exists []. rewrite app_nil_r. reflexivity.
    - exists []. rewrite app_nil_r. reflexivity. }
  assert (Hcore2 : core s2).
  { unfold s2. apply core_put; auto; try apply (core_limit _ E1); try apply (core_wnodup _ E1).
    apply wait_iff_same; auto. }
  assert (Hw2 : wfront s2).
  { intros w rest E. unfold s2 in *. change (st_wait (put c cn2 (st_acq s1) (st_wait s1) s1)) with (st_wait s1) in E.
    change (st_acq (put c cn2 (st_acq s1) (st_wait s1) s1)) with (st_acq s1).
    destruct (Nat.eq_dec c w) as [<-|Hne].
    - rewrite getc_put_same by exact Hc1. unfold cn2. cbn [rcvr r_req]. apply (E2 _ _ E).
    - rewrite getc_put_other by exact Hne. apply (E2 _ _ E). }
  assert (Hfr2 : forall c', c' <> c -> front_ok (getc c' s2)).
  { intros c' Hne. unfold s2. rewrite getc_put_other by congruence. apply Hfr1. }
  assert (Hc2 : (c < length (st_conns s2))%nat) by (unfold s2; rewrite put_len; exact Hc1).
  pose proof (move_prefix_spec c (S (length (r_got (rcvr cn)))) s2 Hcore2 Hw2 Hc2 Hfr2) as MP. cbv zeta in MP.
  destruct MP as (M1 & M2 & M3 & M4 & M5).
  split; [|split].
  - apply inv_of; auto. intros c'. destruct (Nat.eq_dec c' c) as [->|Hne]; [|apply M4; exact Hne].
    apply M5. unfold s2. rewrite getc_put_same by exact Hc1. unfold cn2. cbn [rcvr r_got length]. lia.
  - eapply frame_trans; [exact F1|]. eapply frame_trans; [|exact M3].
    unfold s2. split; [apply put_len|]. split; [reflexivity|]. apply put_adv; auto.
  - left. destruct M3 as (_ & _ & M3). apply (adv_rcvd _ _ (M3 c)).
    unfold s2. rewrite getc_put_same by exact Hc1. right. unfold cn2. cbn [rcvr r_got In]. left. reflexivity.
Qed.

Lemma frame_nchk : forall s s' c, frame s s' -> nchk (getc c s) <= nchk (getc c s').
Proof. intros s s' c (_ & _ & F). destruct (F c) as [A _ _ _ _ _ _]. exact A. Qed.

Lemma recv_range_spec : forall k s c f,
  inv s -> (c < length (st_conns s))%nat -> f + N.of_nat k <= nchk (getc c s) ->
  inv (recv_range limit maxwin k c f s) /\ frame s (recv_range limit maxwin k c f s).
Proof.
  induction k as [|k IH]; intros s c f H Hc Hf; cbn [recv_range]. { split; [exact H|apply frame_refl]. }
  destruct (recv_chunk_spec s c f H Hc ltac:(lia)) as (A & B & _).
  assert (Hc' : (c < length (st_conns (recv_chunk limit maxwin c f s)))%nat) by (destruct B as (L & _); lia).
  destruct (IH _ c (f + 1) A Hc') as [A2 B2]. { pose proof (frame_nchk _ _ c B). lia. }
  split; [exact A2|eapply frame_trans; eauto].
Qed.

(** * sender side: acknowledgements *)
Definition snd_ok (r : receiver) (sd : sender) : Prop :=
  s_prefix sd <= r_prefix r /\ forall x, In x (s_acked sd) -> rcvd r x.
Definition same_tbl (a b : sender) : Prop :=
  s_queue b = s_queue a /\ s_done b = s_done a /\ s_chunks b = s_chunks a /\ s_off b = s_off a.

Lemma same_tbl_refl : forall a, same_tbl a a.
Proof. intros. repeat split. Qed.
Lemma same_tbl_trans : forall a b c, same_tbl a b -> same_tbl b c -> same_tbl a c.
Proof. intros a b c (A1 & A2 & A3 & A4) (B1 & B2 & B3 & B4). repeat split; congruence. Qed.

Lemma skip_acked_spec : forall fuel p a,
  let r := skip_acked fuel p a in
  p <= fst r /\ (forall y, p <= y < fst r -> In y a) /\ (forall x, In x (Datatypes.snd r) -> In x a).
Proof.
  induction fuel as [|f IH]; intros p a; cbn [skip_acked]. { cbn [fst Datatypes.snd]. repeat split; auto; lia. }
  destruct (memN p a) eqn:M; [|cbn [fst Datatypes.snd]; repeat split; auto; lia].
  apply memN_In in M. specialize (IH (p + 1) (removeN p a)). cbv zeta in IH. destruct IH as (I1 & I2 & I3).
  split; [lia|]. split.
  - intros y Hy. destruct (N.eq_dec y p) as [->|Hne]; [exact M|]. assert (In y (removeN p a)) by (apply I2; lia).
    apply In_removeN in H. tauto.
  - intros x Hx. apply I3 in Hx. apply In_removeN in Hx. tauto.
Qed.

Lemma ack_front_ok : forall r sd, snd_ok r sd -> ~ In (r_prefix r) (r_got r) -> rcvd r (s_prefix sd) ->
  snd_ok r (ack_front sd) /\ same_tbl sd (ack_front sd) /\ s_prefix sd < s_prefix (ack_front sd).
Proof.
  intros r sd [H1 H2] Hf Hp. unfold ack_front.
  pose proof (skip_acked_spec (length (s_acked sd)) (s_prefix sd + 1) (s_acked sd)) as S. cbv zeta in S.
  destruct (skip_acked (length (s_acked sd)) (s_prefix sd + 1) (s_acked sd)) as [p a]. cbn [fst Datatypes.snd] in S.
  destruct S as (S1 & S2 & S3). cbn [s_prefix s_acked]. split; [|split; [repeat split|lia]].
  split; [|intros x Hx; apply H2; apply S3; exact Hx].
  (* everything below p is received, and the chunk at the receiver's prefix is not *)
  destruct (N.le_gt_cases p (r_prefix r)) as [L|L]; [exact L|exfalso].
  assert (R : rcvd r (r_prefix r)).
  { destruct (N.eq_dec (r_prefix r) (s_prefix sd)) as [E|E]; [rewrite E; exact Hp|]. apply H2. apply S2. lia. }
  destruct R as [R|R]; [lia|tauto].
Qed.

Lemma ack_prefix_loop_ok : forall r fuel p sd, snd_ok r sd -> ~ In (r_prefix r) (r_got r) -> p <= r_prefix r ->
  snd_ok r (ack_prefix_loop fuel p sd) /\ same_tbl sd (ack_prefix_loop fuel p sd) /\ s_prefix sd <= s_prefix (ack_prefix_loop fuel p sd).
Proof.
  induction fuel as [|f IH]; intros p sd H Hf Hp; cbn [ack_prefix_loop].
  { split; [exact H|]. split; [apply same_tbl_refl|lia]. }
  destruct (s_prefix sd <? p) eqn:E; [|split; [exact H|]; split; [apply same_tbl_refl|lia]].
  apply N.ltb_lt in E. destruct (ack_front_ok r sd H Hf ltac:(left; lia)) as (A1 & A2 & A3).
  destruct (IH p _ A1 Hf Hp) as (B1 & B2 & B3). split; [exact B1|]. split; [eapply same_tbl_trans; eauto|lia].
Qed.

Lemma ack_prefix_ok : forall r p sd, snd_ok r sd -> ~ In (r_prefix r) (r_got r) -> p <= r_prefix r ->
  snd_ok r (ack_prefix p sd) /\ same_tbl sd (ack_prefix p sd) /\ s_prefix sd <= s_prefix (ack_prefix p sd).
Proof.
  intros. unfold ack_prefix. destruct (p =? 0); [split; [auto|split; [apply same_tbl_refl|lia]]|].
  destruct (check_ack (p - 1) sd); [apply ack_prefix_loop_ok; auto|split; [auto|split; [apply same_tbl_refl|lia]]].
Qed.

Lemma ack_chunk_ok : forall r x sd, snd_ok r sd -> ~ In (r_prefix r) (r_got r) -> rcvd r x ->
  snd_ok r (ack_chunk x sd) /\ same_tbl sd (ack_chunk x sd) /\ s_prefix sd <= s_prefix (ack_chunk x sd).
Proof.
  intros r x sd H Hf Hx. unfold ack_chunk.
  destruct (check_ack x sd); [|split; [auto|split; [apply same_tbl_refl|lia]]].
  destruct (x =? s_prefix sd) eqn:E.
  - apply N.eqb_eq in E. subst x. destruct (ack_front_ok r sd H Hf Hx) as (A & B & C). split; [auto|split; [auto|lia]].
  - destruct (memN x (s_acked sd)); [split; [auto|split; [apply same_tbl_refl|lia]]|].
    split; [|split; [repeat split|cbn [s_prefix]; lia]]. destruct H as [H1 H2]. split; cbn [s_prefix s_acked]; [exact H1|].
    intros y [<-|Hy]; auto.
Qed.

Lemma apply_ack_ok : forall r ks p sd, snd_ok r sd -> ~ In (r_prefix r) (r_got r) -> p <= r_prefix r ->
  (forall x, In x ks -> rcvd r x) ->
  snd_ok r (apply_ack p ks sd) /\ same_tbl sd (apply_ack p ks sd) /\ s_prefix sd <= s_prefix (apply_ack p ks sd).
Proof.
  intros r ks p sd H Hf Hp Hks. unfold apply_ack.
  destruct (ack_prefix_ok r p sd H Hf Hp) as (A & B & C).
  revert A B C. generalize (ack_prefix p sd) as sd1. clear H.
  induction ks as [|x ks IH]; intros sd1 A B C; cbn [fold_left]. { auto. }
  destruct (ack_chunk_ok r x sd1 A Hf (Hks x (or_introl eq_refl))) as (A2 & B2 & C2).
  apply IH; auto.
  - intros y Hy. apply Hks. right. exact Hy.
  - eapply same_tbl_trans; eauto.
  - lia.
Qed.

(** * the remaining steps *)
Lemma upd_snd_put : forall c f s,
  upd_snd c f s = put c (mkConn (f (sndr (getc c s))) (rcvr (getc c s))) (st_acq s) (st_wait s) s.
Proof.
  intros. unfold upd_snd, set_conns, put, getc.
  rewrite (upd_const _ (fun x => mkConn (f (sndr x)) (rcvr x)) conn0). reflexivity.
Qed.

Lemma inv_put_snd : forall s c cn1, inv s -> (c < length (st_conns s))%nat -> conn_ok cn1 ->
  rcvr cn1 = rcvr (getc c s) -> nchk (getc c s) <= nchk cn1 ->
  s_prefix (sndr (getc c s)) <= s_prefix (sndr cn1) -> (exists l, submitted cn1 = submitted (getc c s) ++ l) ->
  inv (put c cn1 (st_acq s) (st_wait s) s) /\ frame s (put c cn1 (st_acq s) (st_wait s) s).
Proof.
  intros s c cn1 [H Hfr Hwf] Hc Hok Hr Hn Hsp Hsub.
  assert (Hadv : adv (getc c s) cn1).
  { constructor; rewrite ?Hr; auto; try lia. exists []. rewrite app_nil_r. reflexivity. }
  split.
  - constructor.
    + apply core_put; auto; try apply (core_limit _ H); try apply (core_wnodup _ H).
      * apply wait_iff_same; auto. rewrite Hr. reflexivity.
      * unfold held. rewrite Hr. lia.
    + intros c'. destruct (Nat.eq_dec c c') as [<-|Hne].
      * rewrite getc_put_same by exact Hc. unfold front_ok. rewrite Hr. apply Hfr.
      * rewrite getc_put_other by exact Hne. apply Hfr.
    + intros w rest E. change (st_wait (put c cn1 (st_acq s) (st_wait s) s)) with (st_wait s) in E.
      change (st_acq (put c cn1 (st_acq s) (st_wait s) s)) with (st_acq s).
      destruct (Nat.eq_dec c w) as [<-|Hne].
      * rewrite getc_put_same by exact Hc. rewrite Hr. apply (Hwf _ _ E).
      * rewrite getc_put_other by exact Hne. apply (Hwf _ _ E).
  - split; [apply put_len|]. split; [reflexivity|]. apply put_adv; auto.
Qed.

Lemma dgram_ok_net : forall s nt d, dgram_ok (set_net s nt) d <-> dgram_ok s d.
Proof. intros. destruct d; cbn [dgram_ok]; unfold getc, set_net; cbn [st_conns]; tauto. Qed.

Lemma inv_set_net : forall s nt, inv s -> Forall (dgram_ok s) nt -> inv (set_net s nt) /\
  (length (st_conns (set_net s nt)) = length (st_conns s) /\ forall c, getc c (set_net s nt) = getc c s).
Proof.
  intros s nt [[C1 C2 C3 C4 C5 C6] Hfr Hwf] Hn. split; [|split; reflexivity].
  constructor; [constructor|..]; auto.
Qed.

Lemma inv_submit : forall s c m, inv s -> inv (submit c m s).
Proof.
  intros s c m H. unfold submit. destruct m as [|b m']; [exact H|].
  destruct (Nat.lt_ge_cases c (length (st_conns s))) as [L|L]; [|rewrite upd_snd_out by exact L; exact H].
  rewrite upd_snd_put. apply inv_put_snd; auto.
  - pose proof (core_conn _ (inv_core _ H) c) as K. destruct K. constructor; simp_conn; auto.
    apply Forall_app. split; [auto|]. constructor; [congruence|constructor].
  - unfold nchk, chs; cbn [sndr s_chunks]; lia.
  - cbn [sndr s_prefix]. lia.
  - exists [b :: m']. unfold submitted. cbn [sndr s_done s_queue]. rewrite app_assoc. reflexivity.
Qed.

Lemma valid_cuts_ne : forall m cuts, valid_cuts m cuts = true -> m <> [] ->
  forallb (fun k => 0 <? k) cuts = true /\ sumN cuts = ulen m /\ cuts <> [].
Proof.
  intros m cuts H Hm. unfold valid_cuts in H. apply andb_true_iff in H. destruct H as [A B]. apply N.eqb_eq in B.
  split; [auto|]. split; [auto|]. intros ->. cbn [sumN] in B. destruct m; [congruence|]. unfold ulen in B. cbn [length] in B. lia.
Qed.

Lemma inv_slice : forall s c cuts, inv s -> inv (slice c cuts s).
Proof.
  intros s c cuts H. unfold slice.
  destruct (Nat.lt_ge_cases c (length (st_conns s))) as [L|L]; [|rewrite upd_snd_out by exact L; exact H].
  rewrite upd_snd_put. set (cn := getc c s). pose proof (core_conn _ (inv_core _ H) c) as K. fold cn in K.
  unfold slice_sender. destruct (s_queue (sndr cn)) as [|m q] eqn:Q.
  { replace (mkConn (sndr cn) (rcvr cn)) with cn by (destruct cn; reflexivity).
    apply inv_put_snd; auto; try apply N.le_refl. exists []. rewrite app_nil_r. reflexivity. }
  destruct (valid_cuts m cuts) eqn:V.
  2:{ replace (mkConn (sndr cn) (rcvr cn)) with cn by (destruct cn; reflexivity).
      apply inv_put_snd; auto; try apply N.le_refl. exists []. rewrite app_nil_r. reflexivity. }
  assert (Hm : m <> []) by (pose proof (ok_queue _ K) as F; rewrite Q in F; inversion F; auto).
  destruct (valid_cuts_ne _ _ V Hm) as (V1 & V2 & V3).
  apply inv_put_snd; auto;
    [|unfold nchk, chs; cbn [sndr s_chunks]; fold cn; rewrite ulen_app; lia
     |cbn [sndr s_prefix]; fold cn; apply N.le_refl
     |exists []; rewrite app_nil_r; unfold submitted; cbn [sndr s_done s_queue]; fold cn; rewrite Q, <- app_assoc; reflexivity].
  assert (Hnth : forall x, (x < length (chs cn))%nat ->
             cend (chs cn ++ mk_chunks (s_off (sndr cn)) 0 m cuts) x = cend (chs cn) x).
  { intros x Hx. unfold cend. rewrite app_nth1 by exact Hx. reflexivity. }
  pose proof (ok_prefix _ K) as Hp. unfold nchk, ulen in Hp.
  destruct K. constructor; simp_conn; cbn [rcvr]; auto.
  - eapply wf_app; [exact ok_wf0|]. apply wf_mk_chunks; auto; lia.
  - rewrite reasm_app, ok_done0. cbn [fst Datatypes.snd]. rewrite reasm_mk_chunks by auto. reflexivity.
  - intros x Hx. rewrite ulen_app in Hx. unfold cend, cstart.
    destruct (Nat.lt_ge_cases (N.to_nat x) (length (s_chunks (sndr cn)))) as [Lx|Lx].
    + rewrite app_nth1 by exact Lx. destruct (ok_msz0 x ltac:(unfold ulen; lia)) as (m0 & M1 & M2).
      exists m0. split; [apply in_or_app; left; exact M1|exact M2].
    + rewrite app_nth2 by exact Lx.
      assert (Hin : In (nth (N.to_nat x - length (s_chunks (sndr cn))) (mk_chunks (s_off (sndr cn)) 0 m cuts) chunk0)
                       (mk_chunks (s_off (sndr cn)) 0 m cuts)).
      { apply nth_In. unfold ulen in Hx. lia. }
      destruct (mk_chunks_span cuts m (s_off (sndr cn)) 0 _ V2 ltac:(lia) Hin) as [S1 S2].
      exists m. split; [apply in_or_app; right; left; reflexivity|]. rewrite S1, S2. lia.
  - rewrite Q in ok_queue0. inversion ok_queue0; auto.
  - rewrite ulen_app. lia.
  - intros x Hx. specialize (ok_got0 x Hx). rewrite ulen_app. lia.
  - rewrite firstn_app. replace (N.to_nat (r_prefix (rcvr cn)) - length (s_chunks (sndr cn)))%nat with O by lia.
    cbn [firstn]. rewrite app_nil_r. exact ok_reasm0.
  - intros x Hx. rewrite Hnth; [auto|]. destruct Hx as [Hx|Hx]; [|apply ok_got0 in Hx]; unfold ulen in *; lia.
  - destruct ok_bound0 as [Z|(x & X1 & X2)]; [left; exact Z|right]. exists x. rewrite ulen_app. split; [lia|].
    rewrite Hnth; [auto|]. unfold ulen in X1. lia.
  - destruct (r_inq (rcvr cn)); [|auto]. destruct ok_req0 as (R1 & x & X1 & X2). split; [auto|]. exists x.
    rewrite ulen_app. split; [lia|]. rewrite Hnth; [auto|]. unfold ulen in X1. lia.
Qed.

Lemma inv_send : forall s c f k, inv s -> inv (send c f k s).
Proof.
  intros s c f k H. unfold send. destruct ((0 <? k) && (f + k <=? ulen (s_chunks (sndr (getc c s))))) eqn:E; [|exact H].
  apply andb_true_iff in E. destruct E as [E1 E2]. apply inv_set_net; auto.
  apply Forall_app. split; [apply (core_net _ (inv_core _ H))|]. constructor; [|constructor].
  cbn [dgram_ok]. unfold nchk, chs. lia.
Qed.

Lemma inv_ack_emit : forall s c p ks, inv s -> inv (ack_emit c p ks s).
Proof.
  intros s c p ks H. unfold ack_emit.
  destruct ((p <=? r_prefix (rcvr (getc c s))) && forallb (received (rcvr (getc c s))) ks) eqn:E; [|exact H].
  apply andb_true_iff in E. destruct E as [E1 E2]. apply inv_set_net; auto.
  apply Forall_app. split; [apply (core_net _ (inv_core _ H))|]. constructor; [|constructor].
  cbn [dgram_ok]. split; [lia|]. intros x Hx. rewrite forallb_forall in E2. specialize (E2 x Hx).
  unfold received in E2. apply orb_true_iff in E2. destruct E2 as [G|G]; [left; lia|right; apply memN_In; exact G].
Qed.

Lemma inv_lose : forall s i, inv s -> inv (lose i s).
Proof.
  intros s i H. unfold lose. apply inv_set_net; auto. rewrite Forall_forall. intros d Hd.
  apply In_remove_nth in Hd. pose proof (core_net _ (inv_core _ H)) as F. rewrite Forall_forall in F. auto.
Qed.

Lemma inv_dup : forall s i, inv s -> inv (dup i s).
Proof.
  intros s i H. unfold dup. destruct (nth_error (st_net s) i) eqn:E; [|exact H]. apply inv_set_net; auto.
  pose proof (core_net _ (inv_core _ H)) as F. apply Forall_app. split; [exact F|]. constructor; [|constructor].
  rewrite Forall_forall in F. apply F. eapply nth_error_In; eauto.
Qed.

Lemma inv_deliver : forall s i, inv s -> inv (deliver limit maxwin i s).
Proof.
  intros s i H. unfold deliver. destruct (nth_error (st_net s) i) as [d|] eqn:E; [|exact H].
  assert (Hd : dgram_ok s d).
  { pose proof (core_net _ (inv_core _ H)) as F. rewrite Forall_forall in F. apply F. eapply nth_error_In; eauto. }
  assert (Hn : Forall (dgram_ok s) (remove_nth i (st_net s))).
  { rewrite Forall_forall. intros d' Hd'. apply In_remove_nth in Hd'.
    pose proof (core_net _ (inv_core _ H)) as F. rewrite Forall_forall in F. auto. }
  destruct (inv_set_net s (remove_nth i (st_net s)) H Hn) as (H' & L' & G').
  set (s' := set_net s (remove_nth i (st_net s))) in *.
  destruct d as [c f k|c p ks]; cbn [dgram_ok] in Hd.
  - assert (Hc : (c < length (st_conns s'))%nat).
    { destruct (Nat.lt_ge_cases c (length (st_conns s'))) as [L|L]; [exact L|exfalso].
      rewrite L' in L. rewrite (getc_out c s L) in Hd. cbn in Hd. lia. }
    apply recv_range_spec; auto. rewrite G'. lia.
  - destruct (Nat.lt_ge_cases c (length (st_conns s'))) as [L|L]; [|rewrite upd_snd_out by exact L; exact H'].
    rewrite upd_snd_put. rewrite G'. set (cn := getc c s) in *.
    pose proof (core_conn _ (inv_core _ H) c) as K. fold cn in K. pose proof (inv_front _ H c) as Fr. fold cn in Fr.
    destruct Hd as [Hp Hks].
    destruct (apply_ack_ok (rcvr cn) ks p (sndr cn) (conj (ok_sprefix _ K) (ok_acked _ K)) Fr Hp Hks) as ((A1 & A2) & (B1 & B2 & B3 & B4) & B5).
    apply inv_put_snd; auto.
    + destruct K. constructor; simp_conn; rewrite ?B1, ?B2, ?B3, ?B4; auto.
    + rewrite G'. unfold nchk, chs. cbn [sndr]. rewrite B3. fold cn. apply N.le_refl.
    + rewrite G'. exists []. rewrite app_nil_r. unfold submitted. cbn [sndr]. fold cn. rewrite B1, B2. reflexivity.
Qed.

Theorem inv_step : forall s st, inv s -> inv (do_step limit maxwin s st).
Proof.
  intros s st H. destruct st; cbn [do_step].
  - apply inv_submit; auto.
  - apply inv_slice; auto.
  - apply inv_send; auto.
  - apply inv_ack_emit; auto.
  - apply inv_deliver; auto.
  - apply inv_lose; auto.
  - apply inv_dup; auto.
  - exact H.
Qed.

Lemma nth_repeat' : forall A (x d : A) n i, nth i (repeat x n) d = x \/ nth i (repeat x n) d = d.
Proof. induction n; destruct i; cbn [repeat nth]; auto. Qed.

Lemma total_held_repeat : forall n, total_held (repeat conn0 n) = 0.
Proof. induction n; cbn [repeat]; unfold total_held in *; cbn [map sumN]; [reflexivity|]. rewrite IHn. reflexivity. Qed.

Theorem inv_init : forall n, inv (init n).
Proof.
  intros n. assert (G : forall c, getc c (init n) = conn0).
  { intros c. unfold getc, init. cbn [st_conns]. destruct (nth_repeat' _ conn0 conn0 n c); auto. }
  constructor; [constructor|..]; cbn [init st_conns st_acq st_wait st_net].
  - intros c. rewrite G. apply conn0_ok.
  - constructor.
  - intros c. rewrite G. cbn. split; [tauto|]. intros [_ F]. discriminate.
  - rewrite total_held_repeat. reflexivity.
  - lia.
  - constructor.
  - intros c. rewrite G. unfold front_ok. cbn. tauto.
  - intros w rest E. discriminate.
Qed.

Theorem inv_run : forall l s, inv s -> inv (run limit maxwin s l).
Proof. induction l as [|st l IH]; intros s H; cbn [run fold_left]; [exact H|]. apply IH. apply inv_step. exact H. Qed.

(** * every step only moves forward *)
Definition mono (s s' : state) : Prop :=
  length (st_conns s') = length (st_conns s) /\ forall c, adv (getc c s) (getc c s').

Lemma mono_refl : forall s, mono s s.
Proof. intros. split; [reflexivity|]. intros. apply adv_refl. Qed.

Lemma mono_trans : forall a b c, mono a b -> mono b c -> mono a c.
Proof. intros a b c [A1 A2] [B1 B2]. split; [congruence|]. intros x. eapply adv_trans; eauto. Qed.

Lemma frame_mono : forall s s', frame s s' -> mono s s'.
Proof. intros s s' (A & _ & B). split; auto. Qed.

Lemma mono_set_net : forall s nt, mono s (set_net s nt).
Proof. intros. split; [reflexivity|]. intros c. apply adv_refl. Qed.

Lemma put_mono : forall c cn1 a w s, (c < length (st_conns s))%nat -> adv (getc c s) cn1 -> mono s (put c cn1 a w s).
Proof. intros. split; [apply put_len|]. apply put_adv; auto. Qed.

Lemma adv_snd_only : forall cn sd', s_chunks sd' = s_chunks (sndr cn) \/ (exists l, s_chunks sd' = s_chunks (sndr cn) ++ l) ->
  s_prefix (sndr cn) <= s_prefix sd' -> (exists l, s_done sd' ++ s_queue sd' = submitted cn ++ l) ->
  adv cn (mkConn sd' (rcvr cn)).
Proof.
  intros cn sd' Hc Hp Hs. constructor; cbn [sndr rcvr]; auto; try lia.
  - unfold nchk, chs. cbn [sndr]. destruct Hc as [->|[l ->]]; [lia|rewrite ulen_app; lia].
  - exists []. rewrite app_nil_r. reflexivity.
Qed.

Theorem step_mono : forall s st, inv s -> mono s (do_step limit maxwin s st).
Proof.
  intros s st H. destruct st as [c m|c cuts|c f k|c p ks|i|i|i|]; cbn [do_step]; try apply mono_refl.
  - unfold submit. destruct m as [|b m']; [apply mono_refl|].
    destruct (Nat.lt_ge_cases c (length (st_conns s))) as [L|L]; [|rewrite upd_snd_out by exact L; apply mono_refl].
    rewrite upd_snd_put. apply put_mono; auto. apply adv_snd_only; cbn [s_chunks s_prefix s_done s_queue]; auto; try lia.
    exists [b :: m']. unfold submitted. rewrite app_assoc. reflexivity.
  - unfold slice. destruct (Nat.lt_ge_cases c (length (st_conns s))) as [L|L]; [|rewrite upd_snd_out by exact L; apply mono_refl].
    rewrite upd_snd_put. apply put_mono; auto. unfold slice_sender.
    destruct (s_queue (sndr (getc c s))) as [|m q] eqn:Q.
    { apply adv_snd_only; auto; try lia. exists []. rewrite app_nil_r. reflexivity. }
    destruct (valid_cuts m cuts).
    2:{ apply adv_snd_only; auto; try lia. exists []. rewrite app_nil_r. reflexivity. }
    apply adv_snd_only; cbn [s_chunks s_prefix s_done s_queue]; eauto; try lia.
    exists []. rewrite app_nil_r. unfold submitted. rewrite Q, <- app_assoc. reflexivity.
  - unfold send. destruct (_ && _); [apply mono_set_net|apply mono_refl].
  - unfold ack_emit. destruct (_ && _); [apply mono_set_net|apply mono_refl].
  - unfold deliver. destruct (nth_error (st_net s) i) as [d|] eqn:E; [|apply mono_refl].
    assert (Hd : dgram_ok s d).
    { pose proof (core_net _ (inv_core _ H)) as F. rewrite Forall_forall in F. apply F. eapply nth_error_In; eauto. }
    assert (Hn : Forall (dgram_ok s) (remove_nth i (st_net s))).
    { rewrite Forall_forall. intros d' Hd'. apply In_remove_nth in Hd'.
      pose proof (core_net _ (inv_core _ H)) as F. rewrite Forall_forall in F. auto. }
    destruct (inv_set_net s (remove_nth i (st_net s)) H Hn) as (H' & L' & G').
    set (s' := set_net s (remove_nth i (st_net s))) in *.
    assert (M0 : mono s s') by (split; [exact L'|intros c; rewrite G'; apply adv_refl]).
    eapply mono_trans; [exact M0|].
    destruct d as [c f k|c p ks]; cbn [dgram_ok] in Hd.
    + assert (Hc : (c < length (st_conns s'))%nat).
      { destruct (Nat.lt_ge_cases c (length (st_conns s'))) as [L|L]; [exact L|exfalso].
        rewrite L' in L. rewrite (getc_out c s L) in Hd. cbn in Hd. lia. }
      apply frame_mono. apply recv_range_spec; auto. rewrite G'. lia.
    + destruct (Nat.lt_ge_cases c (length (st_conns s'))) as [L|L]; [|rewrite upd_snd_out by exact L; apply mono_refl].
      rewrite upd_snd_put. apply put_mono; auto. rewrite G'. set (cn := getc c s) in *.
      pose proof (core_conn _ (inv_core _ H) c) as K. fold cn in K. pose proof (inv_front _ H c) as Fr. fold cn in Fr.
      destruct Hd as [Hp Hks].
      destruct (apply_ack_ok (rcvr cn) ks p (sndr cn) (conj (ok_sprefix _ K) (ok_acked _ K)) Fr Hp Hks) as (_ & (B1 & B2 & B3 & B4) & B5).
      apply adv_snd_only; auto. exists []. rewrite app_nil_r. unfold submitted. rewrite B1, B2. reflexivity.
  - unfold lose. apply mono_set_net.
  - unfold dup. destruct (nth_error _ _); [apply mono_set_net|apply mono_refl].
Qed.

Theorem run_mono : forall l s, inv s -> mono s (run limit maxwin s l).
Proof.
  induction l as [|st l IH]; intros s H; cbn [run fold_left]; [apply mono_refl|].
  eapply mono_trans; [apply step_mono; exact H|]. apply IH. apply inv_step. exact H.
Qed.

(** * reachable states and the safety statements *)
Definition reachable (n : nat) (s : state) : Prop := exists l, s = run limit maxwin (init n) l.

Lemma reachable_inv : forall n s, reachable n s -> inv s.
Proof. intros n s [l ->]. apply inv_run. apply inv_init. Qed.

Lemma reachable_step : forall n s st, reachable n s -> reachable n (do_step limit maxwin s st).
Proof.
  intros n s st [l ->]. exists (l ++ [st]). unfold run. rewrite fold_left_app. reflexivity.
Qed.

(** every delivered message was submitted, with the same contents, in submission order, at most once:
    the handed-over list is a prefix of the submitted list *)
Lemma delivered_prefix : forall s c, inv s ->
  exists k, r_deliv (rcvr (getc c s)) = firstn k (submitted (getc c s)).
Proof.
  intros s c H. pose proof (core_conn _ (inv_core _ H) c) as K. set (cn := getc c s) in *.
  pose proof (ok_reasm _ K) as R. pose proof (ok_done _ K) as D.
  rewrite <- (firstn_skipn (N.to_nat (r_prefix (rcvr cn))) (chs cn)) in D. rewrite reasm_app, R in D.
  cbn [fst Datatypes.snd] in D. inversion D as [[D1 D2]].
  exists (length (r_deliv (rcvr cn))). unfold submitted. rewrite <- D1, <- app_assoc.
  rewrite firstn_app, Nat.sub_diag, firstn_all. cbn [firstn]. rewrite app_nil_r. reflexivity.
Qed.

Lemma memory_bounded : forall s, inv s -> st_acq s <= limit /\ st_acq s = total_held (st_conns s).
Proof. intros s H. split; [apply (core_limit _ (inv_core _ H))|apply (core_acct _ (inv_core _ H))]. Qed.

Lemma acks_truthful : forall s c, inv s ->
  s_prefix (sndr (getc c s)) <= r_prefix (rcvr (getc c s)) /\
  (forall x, In x (s_acked (sndr (getc c s))) -> rcvd (rcvr (getc c s)) x) /\
  forall d, In d (st_net s) -> match d with
                               | Ack c' p ks => p <= r_prefix (rcvr (getc c' s)) /\ forall x, In x ks -> rcvd (rcvr (getc c' s)) x
                               | Data _ _ _ => True
                               end.
Proof.
  intros s c H. pose proof (core_conn _ (inv_core _ H) c) as K.
  split; [apply (ok_sprefix _ K)|]. split; [apply (ok_acked _ K)|].
  intros d Hd. pose proof (core_net _ (inv_core _ H)) as F. rewrite Forall_forall in F. specialize (F d Hd).
  destruct d; cbn [dgram_ok] in F; auto.
Qed.

Lemma prefixes_monotone : forall s st c, inv s ->
  s_prefix (sndr (getc c s)) <= s_prefix (sndr (getc c (do_step limit maxwin s st))) /\
  r_prefix (rcvr (getc c s)) <= r_prefix (rcvr (getc c (do_step limit maxwin s st))) /\
  exists l, r_deliv (rcvr (getc c (do_step limit maxwin s st))) = r_deliv (rcvr (getc c s)) ++ l.
Proof.
  intros s st c H. destruct (step_mono s st H) as [_ M]. destruct (M c) as [_ A _ B _ C _]. auto.
Qed.

End WithParams.
