(** The fair completion of the [Udp] model settles: every submitted message is delivered exactly once and
    all incoming memory is released (C36 [settle]). *)
From Coq Require Import List NArith Bool Arith Lia ZArith ZifyN ZifyNat ZifyBool.
From TLV Require Import Udp.UdpModel Udp.UdpLemmas Udp.UdpProofs.
Import ListNotations.
Open Scope N_scope.

Section Settle.
Variable limit : N.
Variable maxwin : N.
Hypothesis Hmw : 1 <= maxwin.

Notation inv := (inv limit).
Notation do_step := (do_step limit maxwin).
Notation run := (run limit maxwin).
Notation recv_chunk := (recv_chunk limit maxwin).

Lemma run_app : forall a b s, run s (a ++ b) = run (run s a) b.
Proof. intros. unfold UdpModel.run. apply fold_left_app. Qed.

Lemma state_eta : forall s, s = mkState (st_conns s) (st_acq s) (st_wait s) (st_net s).
Proof. destruct s; reflexivity. Qed.

(** * receiver-side operations never touch the sending halves *)
Lemma sndr_upd_rcv : forall c c' f s, sndr (getc c' (upd_rcv c f s)) = sndr (getc c' s).
Proof.
  intros. destruct (Nat.eq_dec c c') as [<-|Hne]; [|rewrite getc_upd_rcv_other by exact Hne; reflexivity].
  destruct (Nat.lt_ge_cases c (length (st_conns s))) as [L|L].
  - rewrite getc_upd_rcv_same by exact L. reflexivity.
  - rewrite upd_rcv_out by exact L. reflexivity.
Qed.

Lemma cw_sndr : forall ws acq cs c,
  sndr (nth c (Datatypes.snd (cw limit ws acq cs)) conn0) = sndr (nth c cs conn0).
Proof.
  induction ws as [|w rest IH]; intros acq cs c; cbn [cw]. { reflexivity. }
  destruct (acq + r_req (rcvr (nth w cs conn0)) <=? limit); [|reflexivity].
  rewrite IH. destruct (Nat.eq_dec w c) as [<-|Hne]; [|rewrite nth_upd_other by exact Hne; reflexivity].
  destruct (Nat.lt_ge_cases w (length cs)) as [L|L].
  - rewrite nth_upd_same by exact L. reflexivity.
  - rewrite upd_out by exact L. reflexivity.
Qed.

Lemma check_waiters_sndr : forall s c, sndr (getc c (check_waiters limit s)) = sndr (getc c s).
Proof.
  intros. unfold check_waiters. pose proof (cw_sndr (st_wait s) (st_acq s) (st_conns s) c) as H.
  destruct (cw limit (st_wait s) (st_acq s) (st_conns s)) as [[ws acq] cs]. exact H.
Qed.

Lemma try_acquire_sndr : forall c s c', sndr (getc c' (Datatypes.snd (try_acquire limit c s))) = sndr (getc c' s).
Proof.
  intros. unfold try_acquire.
  set (s1 := if r_inq (rcvr (getc c s)) then s else _).
  assert (E1 : sndr (getc c' s1) = sndr (getc c' s)).
  { unfold s1. destruct (r_inq (rcvr (getc c s))); [reflexivity|]. rewrite sndr_upd_rcv. reflexivity. }
  destruct (st_wait s1) as [|w rest]; [exact E1|]. destruct (Nat.eqb w c); [|exact E1].
  destruct (st_acq s1 + r_req (rcvr (getc c s1)) <=? limit); [|exact E1]. cbn [Datatypes.snd].
  rewrite check_waiters_sndr, sndr_upd_rcv. exact E1.
Qed.

Lemma ensure_window_sndr : forall c seq ch s c',
  sndr (getc c' (Datatypes.snd (ensure_window limit maxwin c seq ch s))) = sndr (getc c' s).
Proof.
  intros. unfold ensure_window. destruct (maxwin <? _); [reflexivity|]. destruct (chunk_end ch <=? _); [reflexivity|].
  destruct (_ && _); [reflexivity|]. rewrite try_acquire_sndr, sndr_upd_rcv. reflexivity.
Qed.

Lemma move_prefix_sndr : forall fuel c s c', sndr (getc c' (move_prefix limit fuel c s)) = sndr (getc c' s).
Proof.
  induction fuel as [|f IH]; intros c s c'; cbn [move_prefix]; [reflexivity|]. cbv zeta.
  destruct (memN _ _); [|reflexivity]. destruct (c_next _ =? 0); rewrite IH.
  - unfold release. rewrite check_waiters_sndr. apply sndr_upd_rcv.
  - apply sndr_upd_rcv.
Qed.

Lemma recv_chunk_sndr : forall c seq s c', sndr (getc c' (recv_chunk c seq s)) = sndr (getc c' s).
Proof.
  intros. unfold UdpModel.recv_chunk. destruct (seq <? _); [reflexivity|].
  pose proof (ensure_window_sndr c seq (nth (N.to_nat seq) (s_chunks (sndr (getc c s))) chunk0) s) as E.
  destruct (ensure_window limit maxwin c seq _ s) as [ok s1]. cbn [Datatypes.snd] in E.
  destruct (negb ok); [apply E|]. destruct (memN _ _); [apply E|].
  rewrite move_prefix_sndr, sndr_upd_rcv. apply E.
Qed.

(** * offsets in a well-formed table *)
Lemma off_mono : forall chs fin, wf 0 0 0 chs fin -> forall d a, (a + S d < length chs)%nat ->
  c_off (nth a chs chunk0) + ulen (c_data (nth a chs chunk0)) <= c_off (nth (a + S d) chs chunk0).
Proof.
  intros chs fin H. induction d as [|d IH]; intros a Ha.
  - replace (a + 1)%nat with (S a) in * by lia. destruct (wf_adj _ _ _ _ _ _ H Ha) as (A & _). lia.
  - specialize (IH a ltac:(lia)). replace (a + S (S d))%nat with (S (a + S d)) by lia.
    destruct (wf_adj _ _ _ _ _ (a + S d) H ltac:(lia)) as (A & _). lia.
Qed.

Lemma off_end_le_fin : forall chs fin a, wf 0 0 0 chs fin -> (a < length chs)%nat ->
  c_off (nth a chs chunk0) + ulen (c_data (nth a chs chunk0)) <= fin.
Proof.
  intros chs fin a H Ha. pose proof (cend_le_fin _ _ _ _ _ _ H Ha). unfold cend, chunk_end in *. lia.
Qed.

(** a chunk in the middle of a message is always covered by the reservation *)
Lemma mid_covered : forall cn, conn_ok cn -> r_prefix (rcvr cn) < nchk cn ->
  c_plen (nth (N.to_nat (r_prefix (rcvr cn))) (chs cn) chunk0) <> 0 ->
  me cn (r_prefix (rcvr cn)) <= r_total (rcvr cn).
Proof.
  intros cn H Hp Hpl. set (p := r_prefix (rcvr cn)) in *. unfold nchk, ulen in Hp.
  destruct (N.eq_dec p 0) as [Z|Z].
  { exfalso. apply Hpl. rewrite Z. cbn [N.to_nat]. destruct (chs cn) as [|ch r] eqn:E; [cbn in Hp; lia|].
    pose proof (ok_wf _ H) as W. rewrite E in W. cbn [nth]. apply (wf_head _ _ _ _ _ _ W). }
  assert (Hx : (S (N.to_nat (p - 1)) < length (chs cn))%nat) by lia.
  destruct (wf_adj_msg _ _ _ _ _ _ (ok_wf _ H) Hx) as [(A & B & C)|(A & B)].
  - replace (S (N.to_nat (p - 1))) with (N.to_nat p) in C by lia. unfold me. rewrite C.
    apply (ok_cover _ H (p - 1)). left. fold p. lia.
  - exfalso. apply Hpl. destruct (wf_adj _ _ _ _ _ _ (ok_wf _ H) Hx) as (_ & D & _).
    replace (S (N.to_nat (p - 1))) with (N.to_nat p) in D by lia. apply D. exact A.
Qed.

(** what the handler has got once the prefix has passed chunk x = old prefix *)
Lemma deliv_after : forall cn cn', conn_ok cn -> conn_ok cn' -> chs cn' = chs cn ->
  r_prefix (rcvr cn) < nchk cn -> r_prefix (rcvr cn) + 1 <= r_prefix (rcvr cn') ->
  let ch := nth (N.to_nat (r_prefix (rcvr cn))) (chs cn) chunk0 in
  (c_next ch = 0 -> (length (r_deliv (rcvr cn)) < length (r_deliv (rcvr cn')))%nat) /\
  (length (r_deliv (rcvr cn')) = length (r_deliv (rcvr cn)) ->
   r_prefix (rcvr cn') < nchk cn' /\ c_plen (nth (N.to_nat (r_prefix (rcvr cn'))) (chs cn') chunk0) <> 0).
Proof.
  intros cn cn' H H' Hc Hp Hp' ch. set (p := r_prefix (rcvr cn)) in *. set (p' := r_prefix (rcvr cn')) in *.
  pose proof (ok_prefix _ H') as Hn'. fold p' in Hn'. unfold nchk in *. rewrite Hc in *. unfold ulen in Hp, Hn'.
  pose proof (ok_reasm _ H) as R. pose proof (ok_reasm _ H') as R'. fold p in R. fold p' in R'. rewrite Hc in R'. pose proof R' as R0'.
  assert (Hsplit : firstn (N.to_nat p') (chs cn) = firstn (S (N.to_nat p)) (chs cn) ++
                     firstn (N.to_nat p' - S (N.to_nat p)) (skipn (S (N.to_nat p)) (chs cn))).
  { rewrite <- (firstn_skipn (S (N.to_nat p)) (chs cn)) at 1. rewrite firstn_app, firstn_length.
    replace (Nat.min (S (N.to_nat p)) (length (chs cn))) with (S (N.to_nat p)) by lia.
    rewrite firstn_firstn. replace (Nat.min (N.to_nat p') (S (N.to_nat p))) with (S (N.to_nat p)) by lia. reflexivity. }
  rewrite Hsplit, reasm_app in R'. rewrite (firstn_succ_nth _ chunk0) in R' by lia. rewrite reasm_app, R in R'.
  cbn [fst Datatypes.snd reasm] in R'. fold ch in R'.
  split.
  - intros Z. rewrite Z in R'. cbn [N.eqb fst Datatypes.snd] in R'. inversion R' as [[D1 D2]].
    rewrite !app_length. cbn [length]. lia.
  - intros L.
    pose proof (reasm_pos _ _ (ok_wf _ H) (N.to_nat p) ltac:(lia)) as P. cbv zeta in P. rewrite R in P. cbn [fst Datatypes.snd] in P.
    replace (N.to_nat p <? length (chs cn))%nat with true in P by (symmetry; apply Nat.ltb_lt; lia).
    pose proof (reasm_pos _ _ (ok_wf _ H) (N.to_nat p') ltac:(lia)) as P'. cbv zeta in P'.
    rewrite R0' in P'. cbn [fst Datatypes.snd] in P'.
    (* the delivered list did not grow, so it is the same list *)
    assert (Hd : r_deliv (rcvr cn') = r_deliv (rcvr cn)).
    { pose proof (f_equal fst R') as D1. cbn [fst] in D1. rewrite <- D1 in L. rewrite !app_length in L.
      rewrite <- D1.
      match type of D1 with (_ ++ ?F1) ++ ?F2 = _ => destruct F1; [destruct F2; [|cbn [length] in L; lia]|cbn [length] in L; lia] end.
      rewrite !app_nil_r. reflexivity. }
    rewrite Hd in P'. destruct P as [P1 P2]. destruct P' as [P1' P2'].
    assert (Lp : (N.to_nat p < length (chs cn))%nat) by lia.
    pose proof (wf_nth _ _ _ _ _ _ (ok_wf _ H) Lp) as (Dp & _).
    fold ch in Dp.
    destruct (Nat.ltb_spec (N.to_nat p') (length (chs cn))) as [Lt|Ge].
    + split; [unfold ulen; lia|].
      assert (O1 : c_off ch + ulen (c_data ch) <= c_off (nth (N.to_nat p') (chs cn) chunk0)).
      { destruct (Nat.eq_dec (N.to_nat p') (S (N.to_nat p))) as [E|E].
        - rewrite E. assert (Lp2 : (S (N.to_nat p) < length (chs cn))%nat) by lia.
          destruct (wf_adj _ _ _ _ _ _ (ok_wf _ H) Lp2) as (A & _).
          fold ch in A. lia.
        - pose proof (off_mono _ _ (ok_wf _ H) (N.to_nat p' - N.to_nat p - 1) (N.to_nat p) ltac:(lia)) as O.
          replace (N.to_nat p + S (N.to_nat p' - N.to_nat p - 1))%nat with (N.to_nat p') in O by lia. exact O. }
      fold ch in P1. lia.
    + exfalso. pose proof (off_end_le_fin _ _ (N.to_nat p) (ok_wf _ H) ltac:(lia)) as O. fold ch in O, P1. lia.
Qed.

(** * receiver-side operations never touch the network *)
Lemma check_waiters_net : forall s, st_net (check_waiters limit s) = st_net s.
Proof. intros. unfold check_waiters. destruct (cw limit _ _ _) as [[ws acq] cs]. reflexivity. Qed.

Lemma try_acquire_net : forall c s, st_net (Datatypes.snd (try_acquire limit c s)) = st_net s.
Proof.
  intros. unfold try_acquire. set (s1 := if r_inq (rcvr (getc c s)) then s else _).
  assert (E1 : st_net s1 = st_net s) by (unfold s1; destruct (r_inq _); reflexivity).
  destruct (st_wait s1) as [|w rest]; [exact E1|]. destruct (Nat.eqb w c); [|exact E1].
  destruct (_ <=? limit); [|exact E1]. cbn [Datatypes.snd]. rewrite check_waiters_net. exact E1.
Qed.

Lemma ensure_window_net : forall c seq ch s, st_net (Datatypes.snd (ensure_window limit maxwin c seq ch s)) = st_net s.
Proof.
  intros. unfold ensure_window. destruct (maxwin <? _); [reflexivity|]. destruct (chunk_end ch <=? _); [reflexivity|].
  destruct (_ && _); [reflexivity|]. rewrite try_acquire_net. reflexivity.
Qed.

Lemma move_prefix_net : forall fuel c s, st_net (move_prefix limit fuel c s) = st_net s.
Proof.
  induction fuel as [|f IH]; intros c s; cbn [move_prefix]; [reflexivity|]. cbv zeta.
  destruct (memN _ _); [|reflexivity]. destruct (c_next _ =? 0); rewrite IH; [|reflexivity].
  unfold release. rewrite check_waiters_net. reflexivity.
Qed.

Lemma recv_chunk_net : forall c seq s, st_net (recv_chunk c seq s) = st_net s.
Proof.
  intros. unfold UdpModel.recv_chunk. destruct (seq <? _); [reflexivity|].
  pose proof (ensure_window_net c seq (nth (N.to_nat seq) (s_chunks (sndr (getc c s))) chunk0) s) as E.
  destruct (ensure_window limit maxwin c seq _ s) as [ok s1]. cbn [Datatypes.snd] in E.
  destruct (negb ok); [exact E|]. destruct (memN _ _); [exact E|]. rewrite move_prefix_net. exact E.
Qed.

Lemma recv_range_net : forall k c f s, st_net (recv_range limit maxwin k c f s) = st_net s.
Proof. induction k as [|k IH]; intros; cbn [recv_range]; [reflexivity|]. rewrite IH. apply recv_chunk_net. Qed.

Lemma deliver_net_nil : forall s, st_net s = [] -> deliver limit maxwin 0 s = s.
Proof. intros s H. unfold deliver. rewrite H. reflexivity. Qed.

(** * one chunk sent and delivered at once; a pass over consecutive chunks *)
Definition pass (c : nat) (xs : list N) (s : state) : state := fold_left (fun s x => recv_chunk c x s) xs s.
Definition ndeliv (c : nat) (s : state) : nat := length (r_deliv (rcvr (getc c s))).

Lemma send_deliver : forall s c x, st_net s = [] -> x + 1 <= nchk (getc c s) ->
  run s [Send c x 1; Deliver 0] = recv_chunk c x s.
Proof.
  intros s c x Hn Hx. unfold UdpModel.run. cbn [fold_left UdpModel.do_step]. unfold send.
  replace (x + 1 <=? ulen (s_chunks (sndr (getc c s)))) with true by (symmetry; apply N.leb_le; exact Hx).
  cbn [N.ltb N.compare andb]. rewrite Hn. cbn [app]. unfold deliver. cbn [set_net st_net nth_error remove_nth].
  cbn [N.to_nat Pos.to_nat Pos.iter_op Nat.add recv_range]. f_equal.
  rewrite (state_eta s) at 2. rewrite Hn. reflexivity.
Qed.

Lemma rc_basic : forall s c x, inv s -> (c < length (st_conns s))%nat -> x < nchk (getc c s) ->
  let s' := recv_chunk c x s in
  inv s' /\ mono s s' /\ st_net s' = st_net s /\ (forall c', sndr (getc c' s') = sndr (getc c' s)).
Proof.
  intros s c x H Hc Hx s'. destruct (recv_chunk_spec limit maxwin s c x H Hc Hx) as (A & B & _).
  split; [exact A|]. split; [apply frame_mono; exact B|]. split; [apply recv_chunk_net|]. intros. apply recv_chunk_sndr.
Qed.

Lemma nchk_sndr : forall a b, sndr b = sndr a -> nchk b = nchk a.
Proof. intros a b H. unfold nchk, chs. rewrite H. reflexivity. Qed.

Lemma pass_basic : forall c cnt a s, inv s -> (c < length (st_conns s))%nat -> a + N.of_nat cnt <= nchk (getc c s) ->
  let s' := pass c (nseq a cnt) s in
  inv s' /\ mono s s' /\ st_net s' = st_net s /\ (forall c', sndr (getc c' s') = sndr (getc c' s)).
Proof.
  intros c. induction cnt as [|cnt IH]; intros a s H Hc Ha; cbn [nseq pass fold_left].
  { split; [exact H|]. split; [apply mono_refl|]. split; reflexivity. }
  destruct (rc_basic s c a H Hc ltac:(lia)) as (A & B & C & D).
  assert (Hc1 : (c < length (st_conns (recv_chunk c a s)))%nat) by (destruct B as [L _]; lia).
  specialize (IH (a + 1) (recv_chunk c a s) A Hc1). rewrite (nchk_sndr _ _ (D c)) in IH.
  destruct (IH ltac:(lia)) as (A2 & B2 & C2 & D2).
  split; [exact A2|]. split; [eapply (mono_trans limit); eauto|]. split; [unfold pass in C2; congruence|].
  intros c'. unfold pass in D2. rewrite D2. apply D.
Qed.

Lemma ndeliv_mono : forall s s' c, mono s s' -> (ndeliv c s <= ndeliv c s')%nat.
Proof.
  intros s s' c [_ M]. destruct (M c) as [_ _ _ [l E] _ _ _]. unfold ndeliv. rewrite E, app_length. lia.
Qed.

Lemma resend_eq : forall c cnt a s, inv s -> (c < length (st_conns s))%nat -> st_net s = [] ->
  a + N.of_nat cnt <= nchk (getc c s) -> run s (resend_steps c a cnt) = pass c (nseq a cnt) s.
Proof.
  intros c. induction cnt as [|cnt IH]; intros a s H Hc Hn Ha; cbn [nseq]. { reflexivity. }
  replace (resend_steps c a (S cnt)) with ([Send c a 1; Deliver 0] ++ resend_steps c (a + 1) cnt) by reflexivity.
  rewrite run_app, send_deliver by (auto; lia).
  destruct (rc_basic s c a H Hc ltac:(lia)) as (A & B & C & D).
  cbn [pass fold_left]. apply IH; auto.
  - destruct B as [L _]. lia.
  - congruence.
  - rewrite (nchk_sndr _ _ (D c)). lia.
Qed.

(** * when the chunk at the prefix is accepted *)
Definition ACC (c : nat) (s : state) : Prop :=
  fst (ensure_window limit maxwin c (r_prefix (rcvr (getc c s)))
         (nth (N.to_nat (r_prefix (rcvr (getc c s)))) (s_chunks (sndr (getc c s))) chunk0) s) = true.

Lemma acc_covered : forall c s, me (getc c s) (r_prefix (rcvr (getc c s))) <= r_total (rcvr (getc c s)) -> ACC c s.
Proof.
  intros c s H. unfold ACC, ensure_window. rewrite N.sub_diag. cbn [N.add].
  replace (maxwin <? 1) with false by (symmetry; apply N.ltb_ge; exact Hmw).
  unfold me, cend, chs in H. apply N.leb_le in H. rewrite H. reflexivity.
Qed.

Lemma rc_at_prefix : forall s c, inv s -> (c < length (st_conns s))%nat ->
  r_prefix (rcvr (getc c s)) < nchk (getc c s) -> ACC c s ->
  r_prefix (rcvr (getc c s)) + 1 <= r_prefix (rcvr (getc c (recv_chunk c (r_prefix (rcvr (getc c s))) s))).
Proof.
  intros s c H Hc Hp Ha. set (x := r_prefix (rcvr (getc c s))) in *.
  destruct (recv_chunk_spec limit maxwin s c x H Hc Hp) as (A & B & [R|R]); [|unfold ACC in Ha; fold x in Ha; congruence].
  pose proof (inv_front _ _ A c) as F. unfold front_ok in F.
  destruct B as (_ & _ & B). pose proof (adv_prefix _ _ (B c)) as P. fold x in P.
  destruct (N.eq_dec (r_prefix (rcvr (getc c (recv_chunk c x s)))) x) as [E|E]; [|lia].
  exfalso. destruct R as [R|R]; [lia|]. rewrite E in F. tauto.
Qed.

Lemma rc_below_prefix : forall s c x, x < r_prefix (rcvr (getc c s)) -> recv_chunk c x s = s.
Proof. intros. unfold UdpModel.recv_chunk. apply N.ltb_lt in H. rewrite H. reflexivity. Qed.

(** the in-order pass over the rest of the table hands over at least one more message *)
Lemma pass_progress : forall c cnt a s, inv s -> (c < length (st_conns s))%nat ->
  a <= r_prefix (rcvr (getc c s)) -> a + N.of_nat cnt = nchk (getc c s) ->
  r_prefix (rcvr (getc c s)) < nchk (getc c s) -> ACC c s ->
  (ndeliv c s < ndeliv c (pass c (nseq a cnt) s))%nat.
Proof.
  intros c. induction cnt as [|cnt IH]; intros a s H Hc Hap Hcnt Hp Ha. { lia. }
  cbn [nseq pass fold_left].
  destruct (N.eq_dec a (r_prefix (rcvr (getc c s)))) as [E|E].
  2:{ rewrite rc_below_prefix by lia. apply IH; auto; lia. }
  subst a. set (x := r_prefix (rcvr (getc c s))) in *. set (s1 := recv_chunk c x s).
  destruct (rc_basic s c x H Hc Hp) as (A & B & C & D). fold s1 in A, B, C, D.
  pose proof (rc_at_prefix s c H Hc Hp Ha) as P1. fold x in P1. fold s1 in P1.
  assert (Hc1 : (c < length (st_conns s1))%nat) by (destruct B as [L _]; lia).
  assert (Hn1 : nchk (getc c s1) = nchk (getc c s)) by (apply nchk_sndr; apply D).
  assert (Hchs : chs (getc c s1) = chs (getc c s)) by (unfold chs; rewrite D; reflexivity).
  destruct (deliv_after (getc c s) (getc c s1) (core_conn _ _ (inv_core _ _ H) c) (core_conn _ _ (inv_core _ _ A) c) Hchs Hp P1)
    as [G1 G2].
  destruct (pass_basic c cnt (x + 1) s1 A Hc1 ltac:(lia)) as (_ & M2 & _).
  pose proof (ndeliv_mono _ _ c M2) as Mn. pose proof (ndeliv_mono _ _ c B) as Mn0. unfold pass in Mn.
  destruct (Nat.eq_dec (ndeliv c s1) (ndeliv c s)) as [Eq|Ne]; [|unfold ndeliv in *; lia].
  destruct (G2 Eq) as [Q1 Q2].
  assert (Ha1 : ACC c s1). { apply acc_covered. apply mid_covered; auto. apply (core_conn _ _ (inv_core _ _ A) c). }
  specialize (IH (x + 1) s1 A Hc1 P1 ltac:(lia) Q1 Ha1). unfold pass in IH. unfold ndeliv in *. lia.
Qed.

(** * steps other than Submit keep the submitted lists *)
Definition stbl (sd : sender) := (s_queue sd, s_done sd, s_chunks sd, s_off sd).

Lemma ack_front_tbl : forall sd, stbl (ack_front sd) = stbl sd.
Proof. intros. unfold ack_front. destruct (skip_acked _ _ _). reflexivity. Qed.

Lemma ack_prefix_loop_tbl : forall fuel p sd, stbl (ack_prefix_loop fuel p sd) = stbl sd.
Proof.
  induction fuel as [|f IH]; intros; cbn [ack_prefix_loop]; [reflexivity|].
  destruct (_ <? _); [|reflexivity]. rewrite IH. apply ack_front_tbl.
Qed.

Lemma ack_chunk_tbl : forall x sd, stbl (ack_chunk x sd) = stbl sd.
Proof.
  intros. unfold ack_chunk. destruct (check_ack x sd); [|reflexivity]. destruct (x =? _); [apply ack_front_tbl|].
  destruct (memN _ _); reflexivity.
Qed.

Lemma apply_ack_tbl : forall ks p sd, stbl (apply_ack p ks sd) = stbl sd.
Proof.
  intros. unfold apply_ack. assert (E : stbl (ack_prefix p sd) = stbl sd).
  { unfold ack_prefix. destruct (p =? 0); [reflexivity|]. destruct (check_ack _ _); [apply ack_prefix_loop_tbl|reflexivity]. }
  rewrite <- E. generalize (ack_prefix p sd). induction ks as [|x ks IH]; intros sd1; cbn [fold_left]; [reflexivity|].
  rewrite IH. apply ack_chunk_tbl.
Qed.

Lemma submitted_tbl : forall a b ra rb, stbl a = stbl b -> submitted (mkConn a ra) = submitted (mkConn b rb).
Proof. intros a b ra rb H. unfold stbl in H. inversion H. unfold submitted. cbn [sndr]. congruence. Qed.

Lemma submitted_sndr : forall a b, sndr a = sndr b -> submitted a = submitted b.
Proof. intros a b H. unfold submitted. rewrite H. reflexivity. Qed.

Lemma recv_range_sndr : forall k c f s c', sndr (getc c' (recv_range limit maxwin k c f s)) = sndr (getc c' s).
Proof. induction k as [|k IH]; intros; cbn [recv_range]; [reflexivity|]. rewrite IH. apply recv_chunk_sndr. Qed.

Definition nosub (st : step) : bool := match st with Submit _ _ => false | _ => true end.

Lemma submitted_upd_snd : forall c f s c', (forall sd, s_done (f sd) ++ s_queue (f sd) = s_done sd ++ s_queue sd) ->
  submitted (getc c' (upd_snd c f s)) = submitted (getc c' s).
Proof.
  intros c f s c' Hf. destruct (Nat.eq_dec c c') as [<-|Hne]; [|rewrite getc_upd_snd_other by exact Hne; reflexivity].
  destruct (Nat.lt_ge_cases c (length (st_conns s))) as [L|L]; [|rewrite upd_snd_out by exact L; reflexivity].
  rewrite getc_upd_snd_same by exact L. unfold submitted. cbn [sndr]. apply Hf.
Qed.

Lemma step_sub : forall s st c, nosub st = true -> submitted (getc c (do_step s st)) = submitted (getc c s).
Proof.
  intros s st c H. destruct st as [c0 m|c0 cuts|c0 f k|c0 p ks|i|i|i|]; cbn [UdpModel.do_step]; try discriminate; try reflexivity.
  - unfold slice. apply submitted_upd_snd. intros sd. unfold slice_sender. destruct (s_queue sd) as [|m q] eqn:Q; [rewrite Q; reflexivity|].
    destruct (valid_cuts m cuts); [|rewrite Q; reflexivity]. cbn [s_done s_queue]. rewrite <- app_assoc. reflexivity.
  - unfold send. destruct (_ && _); reflexivity.
  - unfold ack_emit. destruct (_ && _); reflexivity.
  - unfold deliver. destruct (nth_error _ _) as [d|]; [|reflexivity]. destruct d as [c1 f k|c1 p ks].
    + apply submitted_sndr. rewrite recv_range_sndr. reflexivity.
    + rewrite submitted_upd_snd; [reflexivity|]. intros sd. pose proof (apply_ack_tbl ks p sd) as T. unfold stbl in T.
      inversion T. congruence.
  - unfold dup. destruct (nth_error _ _); reflexivity.
Qed.

Lemma run_generic : forall l s, inv s -> forallb nosub l = true ->
  inv (run s l) /\ mono s (run s l) /\ forall c, submitted (getc c (run s l)) = submitted (getc c s).
Proof.
  induction l as [|st l IH]; intros s H Hl; cbn [UdpModel.run fold_left]. { split; [auto|split; [apply mono_refl|auto]]. }
  cbn [forallb] in Hl. apply andb_true_iff in Hl. destruct Hl as [H1 H2].
  destruct (IH (do_step s st) (inv_step _ _ _ _ H) H2) as (A & B & C).
  split; [exact A|]. split; [eapply (mono_trans limit); [apply (step_mono limit maxwin); exact H|exact B]|].
  intros c. unfold UdpModel.run in C. rewrite C. apply step_sub. exact H1.
Qed.

(** * the network stays empty in a connection round *)
Lemma deliver_net : forall i s, st_net (deliver limit maxwin i s) =
  match nth_error (st_net s) i with Some _ => remove_nth i (st_net s) | None => st_net s end.
Proof.
  intros. unfold deliver. destruct (nth_error (st_net s) i) as [d|]; [|reflexivity].
  destruct d; [rewrite recv_range_net|]; reflexivity.
Qed.

Lemma pair_net : forall s st, st_net s = [] ->
  (forall s0, st_net s0 = [] -> st_net (do_step s0 st) = [] \/ exists d, st_net (do_step s0 st) = [d]) ->
  st_net (run s [st; Deliver 0]) = [].
Proof.
  intros s st Hn Hst. unfold UdpModel.run. cbn [fold_left]. cbn [UdpModel.do_step]. rewrite deliver_net.
  destruct (Hst s Hn) as [E|[d E]]; rewrite E; reflexivity.
Qed.

Lemma send_net : forall c x k s0, st_net s0 = [] -> st_net (do_step s0 (Send c x k)) = [] \/ exists d, st_net (do_step s0 (Send c x k)) = [d].
Proof. intros. cbn [UdpModel.do_step]. unfold send. destruct (_ && _); [right; cbn [set_net st_net]; rewrite H; cbn [app]; eexists; reflexivity|left; exact H]. Qed.

Lemma ack_emit_net : forall c p ks s0, st_net s0 = [] ->
  st_net (do_step s0 (AckEmit c p ks)) = [] \/ exists d, st_net (do_step s0 (AckEmit c p ks)) = [d].
Proof. intros. cbn [UdpModel.do_step]. unfold ack_emit. destruct (_ && _); [right; cbn [set_net st_net]; rewrite H; cbn [app]; eexists; reflexivity|left; exact H]. Qed.

Lemma resend_net : forall c cnt a s, st_net s = [] -> st_net (run s (resend_steps c a cnt)) = [].
Proof.
  intros c. induction cnt as [|cnt IH]; intros a s H; [exact H|].
  replace (resend_steps c a (S cnt)) with ([Send c a 1; Deliver 0] ++ resend_steps c (a + 1) cnt) by reflexivity.
  rewrite run_app. apply IH. apply pair_net; auto. intros. apply send_net. exact H0.
Qed.

Lemma slice_steps_net : forall c (l : list msg) s, st_net (run s (map (fun m => Slice c [ulen m]) l)) = st_net s.
Proof. induction l as [|m l IH]; intros; cbn [map UdpModel.run fold_left]; [reflexivity|]. unfold UdpModel.run in IH. rewrite IH. reflexivity. Qed.

Lemma conn_round_steps : forall s c, exists l, conn_round limit maxwin s c = run s l /\ forallb nosub l = true /\
  forallb (fun st => match st with Lose _ | Dup _ | Submit _ _ => false | _ => true end) l = true.
Proof.
  intros. unfold conn_round. cbv zeta.
  set (l1 := slice_all_steps c (sndr (getc c s))). set (s1 := UdpModel.run limit maxwin s l1).
  set (l2 := resend_steps c _ _). set (s2 := UdpModel.run limit maxwin s1 l2).
  set (l3 := [AckEmit c (r_prefix (rcvr (getc c s2))) []; Deliver 0]).
  exists (l1 ++ l2 ++ l3). rewrite !run_app. split; [reflexivity|].
  assert (A1 : forall P : step -> bool, (forall m : msg, P (Slice c [ulen m]) = true) -> forallb P l1 = true).
  { intros P HP. unfold l1, slice_all_steps. induction (s_queue (sndr (getc c s))); cbn [map forallb]; [reflexivity|]. rewrite HP, IHl. reflexivity. }
  assert (A2 : forall P : step -> bool, (forall x, P (Send c x 1) = true) -> P (Deliver 0) = true -> forallb P l2 = true).
  { intros P HP HD. unfold l2.
    generalize (length (s_chunks (sndr (getc c s1))) - N.to_nat (s_prefix (sndr (getc c s1))))%nat.
    generalize (s_prefix (sndr (getc c s1))). intros a n. revert a.
    induction n as [|n IH]; intros a; [reflexivity|].
    replace (resend_steps c a (S n)) with ([Send c a 1; Deliver 0] ++ resend_steps c (a + 1) n) by reflexivity.
    rewrite forallb_app, IH. cbn [forallb]. rewrite HP, HD. reflexivity. }
  split; rewrite !forallb_app.
  - rewrite A1, A2 by reflexivity. reflexivity.
  - rewrite A1, A2 by reflexivity. reflexivity.
Qed.

Lemma conn_round_net : forall s c, st_net s = [] -> st_net (conn_round limit maxwin s c) = [].
Proof.
  intros s c H. unfold conn_round. cbv zeta. apply pair_net.
  - apply resend_net. unfold slice_all_steps. rewrite slice_steps_net. exact H.
  - intros. apply ack_emit_net. exact H0.
Qed.

Lemma conn_round_generic : forall s c, inv s -> st_net s = [] ->
  let s' := conn_round limit maxwin s c in
  inv s' /\ mono s s' /\ (forall c', submitted (getc c' s') = submitted (getc c' s)) /\ st_net s' = [].
Proof.
  intros s c H Hn s'. destruct (conn_round_steps s c) as (l & E & F & _). unfold s'. rewrite E.
  destruct (run_generic l s H F) as (A & B & C). split; [exact A|]. split; [exact B|]. split; [exact C|].
  rewrite <- E. apply conn_round_net. exact Hn.
Qed.

(** * slicing what is still queued *)
Lemma slice_all_spec : forall c q s, inv s -> (c < length (st_conns s))%nat -> s_queue (sndr (getc c s)) = q ->
  let s1 := run s (map (fun m : msg => Slice c [ulen m]) q) in
  s_queue (sndr (getc c s1)) = [] /\ (forall c', rcvr (getc c' s1) = rcvr (getc c' s)) /\
  st_acq s1 = st_acq s /\ st_wait s1 = st_wait s /\ length (st_conns s1) = length (st_conns s) /\
  s_prefix (sndr (getc c s1)) = s_prefix (sndr (getc c s)).
Proof.
  intros c. induction q as [|m q IH]; intros s H Hc Hq.
  { cbn [map UdpModel.run fold_left]. split; [exact Hq|]. repeat split; reflexivity. }
  replace (run s (map (fun m0 : msg => Slice c [ulen m0]) (m :: q)))
    with (run (slice c [ulen m] s) (map (fun m0 : msg => Slice c [ulen m0]) q)) by reflexivity.
  cbv zeta. set (s' := slice c [ulen m] s).
  pose proof (ok_queue _ (core_conn _ _ (inv_core _ _ H) c)) as Q. rewrite Hq in Q. inversion Q as [|? ? Hm Q']; subst.
  assert (V : valid_cuts m [ulen m] = true).
  { unfold valid_cuts. cbn [forallb sumN]. destruct m; [congruence|]. unfold ulen. cbn [length].
    apply andb_true_iff. split; [apply andb_true_iff; split; [apply N.ltb_lt; lia|reflexivity]|apply N.eqb_eq; lia]. }
  assert (E : getc c s' = mkConn (slice_sender [ulen m] (sndr (getc c s))) (rcvr (getc c s))).
  { unfold s', slice. apply getc_upd_snd_same. exact Hc. }
  assert (Eo : forall c', c' <> c -> getc c' s' = getc c' s).
  { intros c' Hne. unfold s', slice. apply getc_upd_snd_other. congruence. }
  assert (Hq' : s_queue (sndr (getc c s')) = q).
  { rewrite E. cbn [sndr]. unfold slice_sender. rewrite Hq, V. reflexivity. }
  assert (H' : inv s') by (apply (inv_step limit maxwin s (Slice c [ulen m])); exact H).
  assert (Hc' : (c < length (st_conns s'))%nat) by (unfold s', slice; rewrite upd_snd_len; exact Hc).
  destruct (IH s' H' Hc' Hq') as (I1 & I2 & I3 & I4 & I5 & I6).
  split; [exact I1|]. split.
  { intros c'. etransitivity; [apply I2|]. destruct (Nat.eq_dec c' c) as [->|Hne]; [rewrite E; reflexivity|rewrite Eo by exact Hne; reflexivity]. }
  split; [etransitivity; [exact I3|reflexivity]|]. split; [etransitivity; [exact I4|reflexivity]|].
  split; [etransitivity; [exact I5|unfold s', slice; apply upd_snd_len]|].
  etransitivity; [exact I6|]. rewrite E. cbn [sndr]. unfold slice_sender. rewrite Hq, V. reflexivity.
Qed.

(** * coverage facts *)
Lemma bytes_at_prefix : forall cn, conn_ok cn ->
  let p := N.to_nat (r_prefix (rcvr cn)) in
  (r_prefix (rcvr cn) < nchk cn -> bytes (r_deliv (rcvr cn)) = cstart (chs cn) p) /\
  (r_prefix (rcvr cn) = nchk cn -> bytes (r_deliv (rcvr cn)) = s_off (sndr cn) /\ r_deliv (rcvr cn) = s_done (sndr cn)).
Proof.
  intros cn H p. pose proof (ok_prefix _ H) as Hp. unfold nchk, ulen in *.
  pose proof (reasm_pos _ _ (ok_wf _ H) p ltac:(unfold p; lia)) as R. cbv zeta in R. unfold p in R.
  rewrite (ok_reasm _ H) in R. cbn [fst Datatypes.snd] in R. fold p in R. split; intros L.
  - replace (p <? length (chs cn))%nat with true in R by (symmetry; apply Nat.ltb_lt; unfold p; lia).
    destruct (wf_nth _ _ _ _ _ p (ok_wf _ H) ltac:(unfold p; lia)) as (_ & B & _). unfold cstart, chunk_start. lia.
  - replace (p <? length (chs cn))%nat with false in R by (symmetry; apply Nat.ltb_ge; unfold p; lia).
    split; [lia|]. pose proof (ok_reasm _ H) as R2. replace (N.to_nat (r_prefix (rcvr cn))) with (length (chs cn)) in R2 by lia.
    rewrite firstn_all, (ok_done _ H) in R2. inversion R2. reflexivity.
Qed.

Lemma total_le_off : forall cn, conn_ok cn -> r_total (rcvr cn) <= s_off (sndr cn).
Proof.
  intros cn H. destruct (ok_bound _ H) as [Z|(x & X1 & X2)]; [lia|]. rewrite X2. unfold me.
  apply (cend_le_fin _ _ _ _ _ _ (ok_wf _ H)). unfold nchk, ulen in X1. lia.
Qed.

Lemma held_pos_cov : forall cn, conn_ok cn -> 0 < held cn ->
  r_prefix (rcvr cn) < nchk cn /\ me cn (r_prefix (rcvr cn)) <= r_total (rcvr cn).
Proof.
  intros cn H Hh. unfold held in Hh. destruct (bytes_at_prefix cn H) as [B1 B2]. cbv zeta in *.
  pose proof (ok_prefix _ H) as Hp. pose proof (total_le_off cn H) as T.
  destruct (N.eq_dec (r_prefix (rcvr cn)) (nchk cn)) as [E|E]; [destruct (B2 E); lia|].
  assert (L : r_prefix (rcvr cn) < nchk cn) by lia. split; [exact L|]. specialize (B1 L).
  destruct (ok_bound _ H) as [Z|(x & X1 & X2)]; [lia|].
  unfold nchk, ulen in *. unfold me in *.
  destruct (wf_boundary _ _ _ _ _ (N.to_nat x) (N.to_nat (r_prefix (rcvr cn))) (ok_wf _ H) ltac:(lia) ltac:(lia)) as [W|W]; lia.
Qed.

(** * counting undelivered messages *)
Definition und1 (cn : conn) : nat := (length (submitted cn) - length (r_deliv (rcvr cn)))%nat.

Lemma undelivered_eq : forall s, undelivered s = fold_right (fun cn a => (und1 cn + a)%nat) O (st_conns s).
Proof. reflexivity. Qed.

Lemma und_compare : forall cs cs', length cs' = length cs ->
  (forall k, length (submitted (nth k cs' conn0)) = length (submitted (nth k cs conn0)) /\
             (length (r_deliv (rcvr (nth k cs conn0))) <= length (r_deliv (rcvr (nth k cs' conn0))))%nat /\
             (length (r_deliv (rcvr (nth k cs' conn0))) <= length (submitted (nth k cs' conn0)))%nat) ->
  (fold_right (fun cn a => (und1 cn + a)%nat) O cs' <= fold_right (fun cn a => (und1 cn + a)%nat) O cs)%nat /\
  (forall k, (k < length cs)%nat -> (length (r_deliv (rcvr (nth k cs conn0))) < length (r_deliv (rcvr (nth k cs' conn0))))%nat ->
     (fold_right (fun cn a => (und1 cn + a)%nat) O cs' < fold_right (fun cn a => (und1 cn + a)%nat) O cs)%nat).
Proof.
  induction cs as [|x r IH]; intros cs' Hl Hk; destruct cs' as [|x' r']; cbn [length] in Hl; try lia.
  { cbn [fold_right length]. split; [lia|]. intros; lia. }
  destruct (IH r' ltac:(lia) (fun k => Hk (S k))) as [I1 I2]. pose proof (Hk O) as (A & B & C). cbn [nth] in A, B, C.
  cbn [fold_right]. set (F' := fold_right _ O r') in *. set (F := fold_right _ O r) in *. unfold und1.
  split; [lia|]. intros k Hkl Hlt. destruct k as [|k]; cbn [nth length] in *.
  - lia.
  - specialize (I2 k ltac:(lia) Hlt). lia.
Qed.

Lemma deliv_le_sub : forall s c, inv s -> (length (r_deliv (rcvr (getc c s))) <= length (submitted (getc c s)))%nat.
Proof. intros s c H. destruct (delivered_prefix limit s c H) as [k E]. rewrite E. rewrite firstn_length. lia. Qed.

Lemma und_mono : forall s s', inv s' -> mono s s' -> (forall c, submitted (getc c s') = submitted (getc c s)) ->
  (undelivered s' <= undelivered s)%nat /\
  (forall c, (c < length (st_conns s))%nat -> (ndeliv c s < ndeliv c s')%nat -> (undelivered s' < undelivered s)%nat).
Proof.
  intros s s' H' M S. rewrite !undelivered_eq. apply und_compare; [apply M|].
  intros k. change (nth k (st_conns s') conn0) with (getc k s'). change (nth k (st_conns s) conn0) with (getc k s).
  split; [rewrite S; reflexivity|]. split; [apply (ndeliv_mono _ _ k M)|apply deliv_le_sub; exact H'].
Qed.

Lemma find_idx_some : forall A (p : A -> bool) d l i c, find_idx p l i = Some c ->
  (i <= c)%nat /\ (c - i < length l)%nat /\ p (nth (c - i) l d) = true.
Proof.
  induction l as [|x r IH]; intros i c H; cbn [find_idx] in H; [discriminate|].
  destruct (p x) eqn:P.
  - inversion H; subst. rewrite Nat.sub_diag. cbn [nth length]. repeat split; auto; lia.
  - destruct (IH _ _ H) as (A1 & A2 & A3). replace (c - i)%nat with (S (c - S i)) by lia. cbn [nth length]. repeat split; auto; lia.
Qed.

Lemma find_idx_none : forall A (p : A -> bool) d l i, find_idx p l i = None -> forall k, (k < length l)%nat -> p (nth k l d) = false.
Proof.
  induction l as [|x r IH]; intros i H k Hk; cbn [length] in Hk; [lia|]. cbn [find_idx] in H.
  destruct (p x) eqn:P; [discriminate|]. destruct k; cbn [nth]; [exact P|]. eapply IH; eauto. lia.
Qed.

Lemma und_pos_find : forall cs, (0 < fold_right (fun cn a => (und1 cn + a)%nat) O cs)%nat ->
  exists c, find_idx (fun cn => (length (r_deliv (rcvr cn)) <? length (submitted cn))%nat) cs 0 = Some c.
Proof.
  intros cs H. destruct (find_idx _ cs 0) as [c|] eqn:F; [eauto|exfalso].
  assert (Z : fold_right (fun cn a => (und1 cn + a)%nat) O cs = O).
  { pose proof (find_idx_none _ _ conn0 _ _ F) as N. clear F H. induction cs as [|x r IH]; [reflexivity|].
    cbn [fold_right]. rewrite IH by (intros k Hk; apply (N (S k)); cbn [length]; lia).
    specialize (N O ltac:(cbn [length]; lia)). cbn [nth] in N. apply Nat.ltb_ge in N. unfold und1. lia. }
  lia.
Qed.

Lemma total_held_zero : forall cs, (forall k, (k < length cs)%nat -> held (nth k cs conn0) = 0) -> total_held cs = 0.
Proof.
  unfold total_held. induction cs as [|x r IH]; intros H; [reflexivity|]. cbn [map sumN].
  rewrite IH by (intros k Hk; apply (H (S k)); cbn [length]; lia). specialize (H O ltac:(cbn [length]; lia)). cbn [nth] in H. lia.
Qed.

(** * the leader of a round makes progress *)
Definition small (s : state) : Prop := forall c m, In m (submitted (getc c s)) -> ulen m <= limit.

Lemma getc_mk : forall c X a w n, getc c (mkState (st_conns X) a w n) = getc c X.
Proof. reflexivity. Qed.

Lemma acc_grant : forall s c, (c < length (st_conns s))%nat ->
  let r := rcvr (getc c s) in
  let ch := nth (N.to_nat (r_prefix r)) (s_chunks (sndr (getc c s))) chunk0 in
  r_total r < chunk_end ch -> st_acq s + (chunk_end ch - r_total r) <= limit ->
  (r_inq r = false /\ st_wait s = [] \/
   r_inq r = true /\ (exists rest, st_wait s = c :: rest) /\ chunk_end ch - r_total r < r_req r) ->
  ACC c s.
Proof.
  intros s c Hc r ch Hlt Hfit Hq. unfold ACC, ensure_window. fold r. fold ch. rewrite N.sub_diag. cbn [N.add].
  replace (maxwin <? 1) with false by (symmetry; apply N.ltb_ge; exact Hmw).
  replace (chunk_end ch <=? r_total r) with false by (symmetry; apply N.leb_gt; exact Hlt).
  set (d := chunk_end ch - r_total r) in *.
  assert (Hc' : (c < length (st_conns (upd_rcv c (set_req d) s)))%nat) by (rewrite upd_rcv_len; exact Hc).
  destruct Hq as [[Q W]|(Q & [rest W] & Hr)]; rewrite Q.
  - cbn [andb]. unfold try_acquire. rewrite getc_upd_rcv_same by exact Hc. cbn [rcvr set_req r_inq]. fold r. rewrite Q.
    match goal with |- fst (match st_wait ?st with _ => _ end) = true => set (s1 := st) end.
    assert (Ew : st_wait s1 = [c]).
    { unfold s1. rewrite upd_rcv_wait. cbn [st_wait]. rewrite upd_rcv_wait, W. reflexivity. }
    rewrite Ew. rewrite Nat.eqb_refl.
    assert (Er : r_req (rcvr (getc c s1)) = d).
    { unfold s1. rewrite getc_upd_rcv_same by (cbn [st_conns]; exact Hc'). cbn [rcvr set_inq r_req].
      rewrite getc_mk. rewrite getc_upd_rcv_same by exact Hc. reflexivity. }
    rewrite Er. change (st_acq s1) with (st_acq s).
    replace (st_acq s + d <=? limit) with true by (symmetry; apply N.leb_le; exact Hfit). reflexivity.
  - replace (r_req r <=? d) with false by (symmetry; apply N.leb_gt; exact Hr). cbn [andb].
    unfold try_acquire. rewrite getc_upd_rcv_same by exact Hc. cbn [rcvr set_req r_inq]. fold r. rewrite Q.
    rewrite upd_rcv_wait, W. rewrite Nat.eqb_refl. rewrite getc_upd_rcv_same by exact Hc. cbn [rcvr set_req r_req].
    rewrite upd_rcv_acq. replace (st_acq s + d <=? limit) with true by (symmetry; apply N.leb_le; exact Hfit). reflexivity.
Qed.

Lemma uncovered_delta : forall cn, conn_ok cn -> held cn = 0 -> r_prefix (rcvr cn) < nchk cn ->
  (forall m, In m (submitted cn) -> ulen m <= limit) ->
  let ch := nth (N.to_nat (r_prefix (rcvr cn))) (s_chunks (sndr cn)) chunk0 in
  r_total (rcvr cn) < chunk_end ch /\ chunk_end ch - r_total (rcvr cn) <= limit.
Proof.
  intros cn H Hh Hp Hs ch. destruct (bytes_at_prefix cn H) as [B1 _]. cbv zeta in B1. specialize (B1 Hp).
  pose proof (held_le _ H) as L. unfold held in Hh.
  assert (T : r_total (rcvr cn) = cstart (chs cn) (N.to_nat (r_prefix (rcvr cn)))) by lia.
  unfold nchk, ulen in Hp.
  pose proof (cstart_lt_cend _ _ _ _ _ (N.to_nat (r_prefix (rcvr cn))) (ok_wf _ H) ltac:(lia)) as SE.
  destruct (ok_msz _ H (r_prefix (rcvr cn)) ltac:(unfold nchk, ulen; lia)) as (m & M1 & M2).
  unfold me, ms in M2. unfold cend in *. fold (chs cn) in ch. fold ch in SE, M2.
  split; [lia|]. specialize (Hs m ltac:(unfold submitted; apply in_or_app; left; exact M1)). lia.
Qed.

Lemma slice_steps_nosub : forall c (l : list msg), forallb nosub (map (fun m : msg => Slice c [ulen m]) l) = true.
Proof. induction l; [reflexivity|]. cbn [map forallb nosub]. exact IHl. Qed.

Lemma slice_all_spec' : forall c s, inv s -> (c < length (st_conns s))%nat ->
  let s1 := run s (slice_all_steps c (sndr (getc c s))) in
  s_queue (sndr (getc c s1)) = [] /\ (forall c', rcvr (getc c' s1) = rcvr (getc c' s)) /\
  st_acq s1 = st_acq s /\ st_wait s1 = st_wait s /\ length (st_conns s1) = length (st_conns s) /\
  s_prefix (sndr (getc c s1)) = s_prefix (sndr (getc c s)).
Proof. intros c s H Hc. exact (slice_all_spec c (s_queue (sndr (getc c s))) s H Hc eq_refl). Qed.

Lemma slice_all_nosub : forall c sd, forallb nosub (slice_all_steps c sd) = true.
Proof. intros. exact (slice_steps_nosub c (s_queue sd)). Qed.

Lemma leader_ready : forall s, inv s -> small s -> (0 < undelivered s)%nat ->
  let c := leader s in
  (c < length (st_conns s))%nat /\
  let s1 := run s (slice_all_steps c (sndr (getc c s))) in
  r_prefix (rcvr (getc c s1)) < nchk (getc c s1) /\ ACC c s1.
Proof.
  intros s H Hsm Hu c.
  assert (Hrange : (c < length (st_conns s))%nat /\
            (0 < held (getc c s) \/
             (forall k, (k < length (st_conns s))%nat -> held (getc k s) = 0) /\
             ((exists rest, st_wait s = c :: rest) \/
              st_wait s = [] /\ (length (r_deliv (rcvr (getc c s))) < length (submitted (getc c s)))%nat))).
  { unfold c, leader. destruct (find_idx (fun cn => 0 <? held cn) (st_conns s) 0) as [c0|] eqn:F.
    - destruct (find_idx_some _ _ conn0 _ _ _ F) as (_ & A & B). rewrite Nat.sub_0_r in A, B.
      split; [exact A|]. left. apply N.ltb_lt. exact B.
    - pose proof (find_idx_none _ _ conn0 _ _ F) as Z.
      assert (Zh : forall k, (k < length (st_conns s))%nat -> held (getc k s) = 0).
      { intros k Hk. specialize (Z k Hk). apply N.ltb_ge in Z. unfold getc. lia. }
      destruct (st_wait s) as [|f rest] eqn:W.
      + rewrite undelivered_eq in Hu. destruct (und_pos_find _ Hu) as [c0 F2]. rewrite F2.
        destruct (find_idx_some _ _ conn0 _ _ _ F2) as (_ & A & B). rewrite Nat.sub_0_r in A, B.
        split; [exact A|]. right. split; [exact Zh|]. right. split; [reflexivity|]. apply Nat.ltb_lt. exact B.
      + assert (Hf : In f (st_wait s)) by (rewrite W; left; reflexivity).
        apply (core_wiff _ _ (inv_core _ _ H)) in Hf. split; [apply Hf|]. right. split; [exact Zh|]. left. eauto. }
  destruct Hrange as [Hc Hcase]. split; [exact Hc|]. cbv zeta.
  destruct (slice_all_spec' c s H Hc) as (Q1 & Q2 & Q3 & Q4 & Q5 & Q6).
  destruct (run_generic _ s H (slice_all_nosub c (sndr (getc c s)))) as (H1 & M1 & S1).
  set (s1 := run s (slice_all_steps c (sndr (getc c s)))) in *.
  assert (K1 := core_conn _ _ (inv_core _ _ H1) c).
  assert (Hh1 : held (getc c s1) = held (getc c s)) by (unfold held; rewrite Q2; reflexivity).
  assert (Hc1 : (c < length (st_conns s1))%nat) by lia.
  destruct Hcase as [Hpos|(Zh & Hw)].
  - (* the leader already holds memory: its next message is covered *)
    destruct (held_pos_cov _ K1 ltac:(lia)) as [P C]. split; [exact P|]. apply acc_covered. exact C.
  - assert (Hacq : st_acq s1 = 0).
    { rewrite Q3, (core_acct _ _ (inv_core _ _ H)). apply total_held_zero. intros k Hk. apply (Zh k Hk). }
    assert (Hh0 : held (getc c s1) = 0) by (rewrite Hh1; apply Zh; exact Hc).
    assert (Hsm1 : forall m, In m (submitted (getc c s1)) -> ulen m <= limit) by (intros m Hm; rewrite S1 in Hm; apply (Hsm c m Hm)).
    assert (P : r_prefix (rcvr (getc c s1)) < nchk (getc c s1)).
    { pose proof (ok_prefix _ K1) as Pl. destruct (N.eq_dec (r_prefix (rcvr (getc c s1))) (nchk (getc c s1))) as [E|E]; [exfalso|lia].
      destruct (bytes_at_prefix _ K1) as [_ B2]. destruct (B2 E) as [B3 B4].
      destruct Hw as [[rest W]|[W Lt]].
      - assert (Hq : r_inq (rcvr (getc c s1)) = true).
        { rewrite Q2. apply (core_wiff _ _ (inv_core _ _ H)). rewrite W. left. reflexivity. }
        pose proof (ok_req _ K1) as R. rewrite Hq in R. destruct R as (R1 & x & X1 & X2).
        pose proof (cend_le_fin _ _ _ _ _ (N.to_nat x) (ok_wf _ K1) ltac:(unfold nchk, ulen in X1; lia)) as CF.
        unfold me in X2. pose proof (held_le _ K1). unfold held in Hh0. lia.
      - rewrite <- S1 in Lt. unfold submitted in Lt. rewrite Q1, app_nil_r in Lt. rewrite <- Q2 in Lt. rewrite B4 in Lt. lia. }
    split; [exact P|].
    destruct (uncovered_delta _ K1 Hh0 P Hsm1) as [D1 D2]. cbv zeta in D1, D2.
    apply acc_grant; [exact Hc1|exact D1|rewrite Hacq; lia|].
    destruct Hw as [[rest W]|[W Lt]].
    + right. assert (Hq : r_inq (rcvr (getc c s1)) = true).
      { rewrite Q2. apply (core_wiff _ _ (inv_core _ _ H)). rewrite W. left. reflexivity. }
      split; [exact Hq|]. split; [exists rest; rewrite Q4; exact W|].
      pose proof (inv_wfront _ _ H1) as WF. unfold wfront in WF. specialize (WF c rest ltac:(rewrite Q4; exact W)). rewrite Hacq in WF. lia.
    + left. split; [|rewrite Q4; exact W]. rewrite Q2.
      destruct (r_inq (rcvr (getc c s))) eqn:Qi; [exfalso|reflexivity].
      assert (In c (st_wait s)) by (apply (core_wiff _ _ (inv_core _ _ H)); auto). rewrite W in H0. destruct H0.
Qed.

Lemma leader_progress : forall s, inv s -> st_net s = [] -> small s -> (0 < undelivered s)%nat ->
  (leader s < length (st_conns s))%nat /\
  (ndeliv (leader s) s < ndeliv (leader s) (conn_round limit maxwin s (leader s)))%nat.
Proof.
  intros s H Hn Hsm Hu. destruct (leader_ready s H Hsm Hu) as (Hc & P & A). cbv zeta in *.
  set (c := leader s) in *. split; [exact Hc|].
  destruct (slice_all_spec' c s H Hc) as (Q1 & Q2 & Q3 & Q4 & Q5 & Q6).
  destruct (run_generic _ s H (slice_all_nosub c (sndr (getc c s)))) as (H1 & M1 & S1).
  unfold conn_round. cbv zeta.
  set (s1 := run s (slice_all_steps c (sndr (getc c s)))) in *.
  assert (Hc1 : (c < length (st_conns s1))%nat) by lia.
  assert (Hn1 : st_net s1 = []) by (unfold s1, slice_all_steps; rewrite slice_steps_net; exact Hn).
  assert (K1 := core_conn _ _ (inv_core _ _ H1) c).
  pose proof (ok_sprefix _ K1) as SP. pose proof (ok_prefix _ K1) as RP. unfold nchk, chs, ulen in RP.
  set (sp := s_prefix (sndr (getc c s1))) in *.
  set (cnt := (length (s_chunks (sndr (getc c s1))) - N.to_nat sp)%nat).
  assert (Hcnt : sp + N.of_nat cnt = nchk (getc c s1)) by (unfold cnt, nchk, chs, ulen; lia).
  rewrite (resend_eq c cnt sp s1 H1 Hc1 Hn1 ltac:(lia)).
  pose proof (pass_progress c cnt sp s1 H1 Hc1 SP Hcnt P A) as PP.
  destruct (pass_basic c cnt sp s1 H1 Hc1 ltac:(lia)) as (H2 & _).
  set (s2 := pass c (nseq sp cnt) s1) in *.
  destruct (run_generic [AckEmit c (r_prefix (rcvr (getc c s2))) []; Deliver 0] s2 H2 eq_refl) as (_ & M3 & _).
  pose proof (ndeliv_mono _ _ c M3) as L3.
  assert (E1 : ndeliv c s1 = ndeliv c s) by (unfold ndeliv; rewrite Q2; reflexivity).
  lia.
Qed.

Lemma fold_rounds : forall l s, inv s -> st_net s = [] ->
  let s' := fold_left (conn_round limit maxwin) l s in
  inv s' /\ mono s s' /\ (forall c, submitted (getc c s') = submitted (getc c s)) /\ st_net s' = [].
Proof.
  induction l as [|c l IH]; intros s H Hn; cbn [fold_left]. { split; [auto|split; [apply mono_refl|auto]]. }
  destruct (conn_round_generic s c H Hn) as (A & B & C & D).
  destruct (IH _ A D) as (A2 & B2 & C2 & D2).
  split; [exact A2|]. split; [eapply (mono_trans limit); eauto|]. split; [|exact D2]. intros c'. rewrite C2. apply C.
Qed.

Lemma small_sub : forall s s', small s -> (forall c, submitted (getc c s') = submitted (getc c s)) -> small s'.
Proof. intros s s' H E c m Hm. rewrite E in Hm. apply (H c m Hm). Qed.

Lemma round_spec : forall s, inv s -> st_net s = [] -> small s ->
  let s' := round limit maxwin s in
  inv s' /\ st_net s' = [] /\ small s' /\ mono s s' /\ (forall c, submitted (getc c s') = submitted (getc c s)) /\
  (undelivered s' <= undelivered s)%nat /\ ((0 < undelivered s)%nat -> (undelivered s' < undelivered s)%nat).
Proof.
  intros s H Hn Hsm s'. unfold s', round.
  destruct (fold_rounds (leader s :: seq 0 (length (st_conns s))) s H Hn) as (A & B & C & D).
  split; [exact A|]. split; [exact D|]. split; [eapply small_sub; eauto|]. split; [exact B|]. split; [exact C|].
  destruct (und_mono _ _ A B C) as [U1 U2]. split; [exact U1|]. intros Hu.
  destruct (leader_progress s H Hn Hsm Hu) as [Hc LP]. apply (U2 (leader s) Hc).
  cbn [fold_left].
  destruct (conn_round_generic s (leader s) H Hn) as (A1 & B1 & C1 & D1).
  destruct (fold_rounds (seq 0 (length (st_conns s))) _ A1 D1) as (_ & B2 & _).
  pose proof (ndeliv_mono _ _ (leader s) B2). cbn [fold_left] in *. lia.
Qed.

Lemma drain_net : forall k s, (length (st_net s) <= k)%nat -> st_net (run s (repeat (Deliver 0) k)) = [].
Proof.
  induction k as [|k IH]; intros s H; cbn [repeat UdpModel.run fold_left].
  { destruct (st_net s); [reflexivity|cbn [length] in H; lia]. }
  apply IH. cbn [UdpModel.do_step]. rewrite deliver_net. destruct (st_net s) as [|d r]; cbn [nth_error remove_nth length] in *; lia.
Qed.

Lemma drain_spec : forall s, inv s ->
  inv (drain limit maxwin s) /\ st_net (drain limit maxwin s) = [] /\ mono s (drain limit maxwin s) /\
  forall c, submitted (getc c (drain limit maxwin s)) = submitted (getc c s).
Proof.
  intros s H. unfold drain.
  assert (F : forall k, forallb nosub (repeat (Deliver 0) k) = true) by (induction k; [reflexivity|exact IHk]).
  destruct (run_generic _ s H (F (length (st_net s)))) as (A & B & C).
  split; [exact A|]. split; [apply drain_net; lia|]. split; [exact B|exact C].
Qed.

Lemma iter_spec : forall k s, inv s -> st_net s = [] -> small s ->
  let s' := iter k (round limit maxwin) s in
  inv s' /\ st_net s' = [] /\ mono s s' /\ (forall c, submitted (getc c s') = submitted (getc c s)) /\
  (undelivered s' = O \/ (undelivered s' + k <= undelivered s)%nat).
Proof.
  induction k as [|k IH]; intros s H Hn Hsm; cbn [iter].
  { split; [auto|]. split; [auto|]. split; [apply mono_refl|]. split; [auto|]. right. lia. }
  destruct (round_spec s H Hn Hsm) as (A & B & C & D & E & F & G).
  destruct (IH _ A B C) as (A2 & B2 & D2 & E2 & F2).
  split; [exact A2|]. split; [exact B2|]. split; [eapply (mono_trans limit); eauto|].
  split; [intros c; rewrite E2; apply E|].
  destruct F2 as [Z|L]; [left; exact Z|].
  destruct (Nat.eq_dec (undelivered s) O) as [Z0|NZ]; [left; lia|]. specialize (G ltac:(lia)). right. lia.
Qed.

(** * what a state without undelivered messages looks like *)
Lemma und_zero : forall cs, fold_right (fun cn a => (und1 cn + a)%nat) O cs = O -> forall k, und1 (nth k cs conn0) = O.
Proof.
  induction cs as [|x r IH]; intros H k; cbn [fold_right] in H.
  - destruct k; reflexivity.
  - destruct k; cbn [nth]; [lia|]. apply IH. lia.
Qed.

Lemma settled_state : forall s, inv s -> undelivered s = O ->
  (forall c, r_deliv (rcvr (getc c s)) = submitted (getc c s)) /\ st_acq s = 0 /\ st_wait s = [].
Proof.
  intros s H Hu. rewrite undelivered_eq in Hu.
  assert (D : forall c, r_deliv (rcvr (getc c s)) = submitted (getc c s)).
  { intros c. pose proof (und_zero _ Hu c) as Z. unfold und1 in Z. fold (getc c s) in Z.
    destruct (delivered_prefix limit s c H) as [k E]. rewrite E in Z |- *. rewrite firstn_length in Z.
    apply firstn_all2. lia. }
  assert (Hz : forall c, held (getc c s) = 0 /\ r_inq (rcvr (getc c s)) = false).
  { intros c. pose proof (core_conn _ _ (inv_core _ _ H) c) as K. specialize (D c).
    (* everything submitted was sliced and handed over *)
    pose proof (ok_reasm _ K) as R. pose proof (ok_done _ K) as Dn.
    rewrite <- (firstn_skipn (N.to_nat (r_prefix (rcvr (getc c s)))) (chs (getc c s))) in Dn. rewrite reasm_app, R in Dn.
    cbn [fst Datatypes.snd] in Dn. inversion Dn as [[D1 D2]]. clear D2.
    unfold submitted in D. rewrite <- D1 in D. rewrite <- app_assoc in D.
    assert (Ex : fst (reasm (skipn (N.to_nat (r_prefix (rcvr (getc c s)))) (chs (getc c s))) (r_cur (rcvr (getc c s)))) ++ s_queue (sndr (getc c s)) = []).
    { apply (app_inv_head (r_deliv (rcvr (getc c s)))). rewrite app_nil_r. symmetry. exact D. }
    apply app_eq_nil in Ex. destruct Ex as [Ex1 Ex2]. rewrite Ex1, app_nil_r in D1.
    pose proof (reasm_pos _ _ (ok_wf _ K) (length (chs (getc c s))) ltac:(lia)) as P. cbv zeta in P.
    rewrite firstn_all, (ok_done _ K), Nat.ltb_irrefl in P. cbn [fst Datatypes.snd] in P. change (ulen (@nil N)) with 0 in P.
    pose proof (total_le_off _ K) as T. pose proof (held_le _ K) as L. rewrite D1 in L.
    split; [unfold held; rewrite D1; lia|].
    destruct (r_inq (rcvr (getc c s))) eqn:Q; [exfalso|reflexivity].
    pose proof (ok_req _ K) as Rq. rewrite Q in Rq. destruct Rq as (R1 & x & X1 & X2).
    pose proof (cend_le_fin _ _ _ _ _ (N.to_nat x) (ok_wf _ K) ltac:(unfold nchk, ulen in X1; lia)) as CF.
    unfold me in X2. lia. }
  split; [exact D|]. split.
  - rewrite (core_acct _ _ (inv_core _ _ H)). apply total_held_zero. intros k _. apply (Hz k).
  - destruct (st_wait s) as [|w r] eqn:W; [reflexivity|exfalso].
    assert (In w (st_wait s)) by (rewrite W; left; reflexivity).
    apply (core_wiff _ _ (inv_core _ _ H)) in H0. destruct (Hz w) as [_ F]. destruct H0 as [_ T]. congruence.
Qed.

(** * the settle theorem *)
Theorem complete_settles : forall s, inv s -> small s ->
  let s' := complete limit maxwin s in
  inv s' /\
  (forall c, r_deliv (rcvr (getc c s')) = submitted (getc c s') /\ submitted (getc c s') = submitted (getc c s)) /\
  st_acq s' = 0 /\ st_wait s' = [] /\ st_net s' = [] /\ mono s s'.
Proof.
  intros s H Hsm s'. unfold s', complete. cbv zeta.
  destruct (drain_spec s H) as (A & B & C & D).
  set (s1 := drain limit maxwin s) in *.
  assert (Hsm1 : small s1) by (eapply small_sub; eauto).
  destruct (iter_spec (S (undelivered s1)) s1 A B Hsm1) as (A2 & B2 & C2 & D2 & E2).
  assert (Z : undelivered (iter (S (undelivered s1)) (round limit maxwin) s1) = O) by (destruct E2; lia).
  destruct (settled_state _ A2 Z) as (F1 & F2 & F3).
  split; [exact A2|]. split.
  { intros c. split; [apply F1|]. rewrite D2. apply D. }
  split; [exact F2|]. split; [exact F3|]. split; [exact B2|]. eapply (mono_trans limit); eauto.
Qed.

(** the completion is a run of the model without loss, duplication or new submissions *)
Definition fair (st : step) : bool := match st with Lose _ | Dup _ | Submit _ _ => false | _ => true end.

Lemma fold_rounds_steps : forall l s, exists sl, fold_left (conn_round limit maxwin) l s = run s sl /\ forallb fair sl = true.
Proof.
  induction l as [|c l IH]; intros s; cbn [fold_left]. { exists []. split; reflexivity. }
  destruct (conn_round_steps s c) as (l1 & E1 & _ & F1). destruct (IH (conn_round limit maxwin s c)) as (l2 & E2 & F2).
  exists (l1 ++ l2). rewrite run_app, <- E1, E2. split; [reflexivity|]. rewrite forallb_app. unfold fair. rewrite F1. exact F2.
Qed.

Lemma iter_steps : forall k s, exists sl, iter k (round limit maxwin) s = run s sl /\ forallb fair sl = true.
Proof.
  induction k as [|k IH]; intros s; cbn [iter]. { exists []. split; reflexivity. }
  unfold round at 2. destruct (fold_rounds_steps (leader s :: seq 0 (length (st_conns s))) s) as (l1 & E1 & F1).
  destruct (IH (round limit maxwin s)) as (l2 & E2 & F2). exists (l1 ++ l2). unfold round in E2 |- *.
  rewrite run_app, <- E1, E2. split; [reflexivity|]. rewrite forallb_app, F1. exact F2.
Qed.

Theorem complete_is_fair_run : forall s, exists sl, complete limit maxwin s = run s sl /\ forallb fair sl = true.
Proof.
  intros s. unfold complete. cbv zeta. unfold drain at 1 2.
  assert (F0 : forall k, forallb fair (repeat (Deliver 0) k) = true) by (induction k; [reflexivity|exact IHk]).
  set (l0 := repeat (Deliver 0) (length (st_net s))).
  destruct (iter_steps (S (undelivered (run s l0))) (run s l0)) as (l1 & E1 & F1).
  exists (l0 ++ l1). rewrite run_app. split; [exact E1|]. rewrite forallb_app, F1. rewrite andb_true_r. apply F0.
Qed.

End Settle.
