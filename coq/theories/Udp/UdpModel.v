(** M12 [Udp] -- abstract reliable-delivery protocol of pkg/rpc/udp (transport.go, incoming.go, outgoing.go).
    Executable definitions only; proofs live in UdpProofs.v / UdpSettle.v.

    One *receiving transport* with its memory budget ([acquiredMemory], [incomingMessagesMemoryLimit],
    [memoryWaiters]) and [n] directed connections into it; connection [c] consists of the sending half that
    lives in the peer transport (OutgoingConnection) and the receiving half (IncomingConnection, stream-like
    mode).  The whole simulator is a product of such systems (one per destination transport): connections into
    different transports share no state.

    What is transcribed from the Go code (same branches, same order):
      - Transport.tryAcquireMemory / tryAcquireMemoryForTheFirst / checkMemoryWaiters / releaseMemory
        and IncomingConnection.OnAcquiredMemory                          ([try_acquire], [check_waiters], [release])
      - IncomingConnection.ensureWindowSize: window bound, reservation of the stream range up to the end of
        the chunk's message, waiters queue with "reduce the request"      ([ensure_window])
      - IncomingConnection.receiveMessageChunk + moveWindowPrefix for StreamLikeIncoming = true:
        duplicates dropped, prefix moved over received chunks, message handed to the handler and its
        memory released when the prefix passes its last chunk            ([recv_chunk], [move_prefix])
      - OutgoingConnection.checkAck / AckPrefix / AckChunk / ackFrontChunk  ([ack_prefix], [ack_chunk], [ack_front])
      - OutgoingConnection.sliceNextMessage as "cut the next queued message into the given chunk sizes";
        the chunk header fields next_parts / offset / prev_length / next_length are derived from the cut.
    What is abstracted (see also Props/C36.v):
      - sequence numbers and offsets are unbounded naturals (no uint32 wrap-around);
      - nextSeqNo of the incoming window and the tree of window chunks are replaced by the set of received
        sequence numbers (a chunk below nextSeqNo always passes the window and memory tests);
      - the sender's resend machinery (timeouted/nonTimeouted/notSended pointers, resend requests, timers)
        is the nondeterministic step [Send c f k] "put chunks f..f+k-1 on the wire", enabled for every sliced chunk;
      - which acknowledgements the receiver reports (acks.go, property C37) is the nondeterministic step
        [AckEmit c p ks], enabled when everything it acknowledges has been received;
      - datagrams are not corrupted (CRC/encryption), handshake, generations and restarts do not exist,
        timers are not modelled (their only effect is to enable Send/AckEmit steps);
      - reassembly concatenates payloads in sequence order (Go copies each payload at prev_length). *)
From Coq Require Export List NArith Bool Arith.
From TLV Require Export Gen.UdpConsts.
Export ListNotations.
Open Scope N_scope.

Definition msg := list N.
Definition ulen {A} (l : list A) : N := N.of_nat (length l).

Fixpoint sumN (l : list N) : N :=
  match l with [] => 0 | x :: r => x + sumN r end.

Fixpoint memN (x : N) (l : list N) : bool :=
  match l with [] => false | y :: r => (x =? y) || memN x r end.

Fixpoint removeN (x : N) (l : list N) : list N :=
  match l with [] => [] | y :: r => if x =? y then removeN x r else y :: removeN x r end.

Fixpoint upd {A} (i : nat) (f : A -> A) (l : list A) : list A :=
  match l, i with
  | [], _ => []
  | x :: r, O => f x :: r
  | x :: r, S j => x :: upd j f r
  end.

Fixpoint remove_nth {A} (i : nat) (l : list A) : list A :=
  match l, i with
  | [], _ => []
  | _ :: r, O => r
  | x :: r, S j => x :: remove_nth j r
  end.

(** chunk as seen in the encrypted header of a datagram (seqNo = index in the sender's table) *)
Record chunk := mkChunk {
  c_next : N;        (* next_parts: chunks of the same message after this one *)
  c_off : N;         (* packet_offset: stream offset of the first byte of the chunk *)
  c_plen : N;        (* prev_length: bytes of the message before this chunk *)
  c_nlen : N;        (* next_length: bytes of the message after this chunk *)
  c_data : list N }.

Definition chunk0 := mkChunk 0 0 0 0 [].
Definition chunk_end (ch : chunk) : N := c_off ch + ulen (c_data ch) + c_nlen ch.   (* messageEndOffset *)
Definition chunk_start (ch : chunk) : N := c_off ch - c_plen ch.                    (* offset of its message *)

Record sender := mkSender {
  s_queue : list msg;     (* messageQueue: submitted, not yet sliced *)
  s_done : list msg;      (* messages already sliced, in order *)
  s_chunks : list chunk;  (* every chunk ever sliced; index = seqNo; nextSeqNo = length *)
  s_prefix : N;           (* ackSeqNoPrefix *)
  s_acked : list N;       (* acked sequence numbers beyond the prefix *)
  s_off : N }.            (* stream offset after the last sliced message *)

Record receiver := mkReceiver {
  r_prefix : N;           (* ackPrefix *)
  r_got : list N;         (* received sequence numbers not below the prefix *)
  r_cur : list N;         (* bytes of the message the prefix stands in *)
  r_total : N;            (* messagesTotalOffset: stream offset up to which memory is reserved *)
  r_inq : bool;           (* inMemoryWaitersQueue *)
  r_req : N;              (* requestedMemorySize *)
  r_deliv : list msg }.   (* messages handed to MessageHandle, in order *)

Record conn := mkConn { sndr : sender; rcvr : receiver }.

Definition sender0 := mkSender [] [] [] 0 [] 0.
Definition receiver0 := mkReceiver 0 [] [] 0 false 0 [].
Definition conn0 := mkConn sender0 receiver0.

Inductive dgram :=
| Data (c : nat) (f k : N)            (* chunks f .. f+k-1 of connection c *)
| Ack (c : nat) (p : N) (ks : list N). (* "everything below p, and the members of ks, arrived" *)

Record state := mkState {
  st_conns : list conn;
  st_acq : N;             (* acquiredMemory *)
  st_wait : list nat;     (* memoryWaiters *)
  st_net : list dgram }.

Definition init (n : nat) : state := mkState (repeat conn0 n) 0 [] [].

Definition getc (c : nat) (s : state) : conn := nth c (st_conns s) conn0.
Definition set_conns (s : state) (cs : list conn) : state := mkState cs (st_acq s) (st_wait s) (st_net s).
Definition set_net (s : state) (nt : list dgram) : state := mkState (st_conns s) (st_acq s) (st_wait s) nt.
Definition upd_snd (c : nat) (f : sender -> sender) (s : state) : state :=
  set_conns s (upd c (fun x => mkConn (f (sndr x)) (rcvr x)) (st_conns s)).
Definition upd_rcv (c : nat) (f : receiver -> receiver) (s : state) : state :=
  set_conns s (upd c (fun x => mkConn (sndr x) (f (rcvr x))) (st_conns s)).

(** * Sender *)

(** sliceNextMessage: chunk i gets the next [k_i] bytes *)
Fixpoint mk_chunks (off plen : N) (m : msg) (cuts : list N) : list chunk :=
  match cuts with
  | [] => []
  | k :: rest =>
      let d := firstn (N.to_nat k) m in
      let m' := skipn (N.to_nat k) m in
      mkChunk (ulen rest) off plen (ulen m') d :: mk_chunks (off + k) (plen + k) m' rest
  end.

Definition valid_cuts (m : msg) (cuts : list N) : bool :=
  forallb (fun k => 0 <? k) cuts && (sumN cuts =? ulen m).

Definition submit (c : nat) (m : msg) (s : state) : state :=
  match m with
  | [] => s   (* sendMessageImpl: "message must be non empty" *)
  | _ => upd_snd c (fun sd => mkSender (s_queue sd ++ [m]) (s_done sd) (s_chunks sd) (s_prefix sd) (s_acked sd) (s_off sd)) s
  end.

Definition slice_sender (cuts : list N) (sd : sender) : sender :=
  match s_queue sd with
  | [] => sd
  | m :: q =>
      if valid_cuts m cuts then
        mkSender q (s_done sd ++ [m]) (s_chunks sd ++ mk_chunks (s_off sd) 0 m cuts)
                 (s_prefix sd) (s_acked sd) (s_off sd + ulen m)
      else sd
  end.

Definition slice (c : nat) (cuts : list N) (s : state) : state := upd_snd c (slice_sender cuts) s.

Definition send (c : nat) (f k : N) (s : state) : state :=
  if (0 <? k) && (f + k <=? ulen (s_chunks (sndr (getc c s)))) then set_net s (st_net s ++ [Data c f k]) else s.

(** ackFrontChunk: drop the front chunk, then every following chunk that is already acked *)
Fixpoint skip_acked (fuel : nat) (p : N) (acked : list N) : N * list N :=
  match fuel with
  | O => (p, acked)
  | S f => if memN p acked then skip_acked f (p + 1) (removeN p acked) else (p, acked)
  end.

Definition ack_front (sd : sender) : sender :=
  let '(p, a) := skip_acked (length (s_acked sd)) (s_prefix sd + 1) (s_acked sd) in
  mkSender (s_queue sd) (s_done sd) (s_chunks sd) p a (s_off sd).

(** checkAck *)
Definition check_ack (x : N) (sd : sender) : bool := (s_prefix sd <=? x) && (x <? ulen (s_chunks sd)).

Fixpoint ack_prefix_loop (fuel : nat) (p : N) (sd : sender) : sender :=
  match fuel with
  | O => sd
  | S f => if s_prefix sd <? p then ack_prefix_loop f p (ack_front sd) else sd
  end.

(** AckPrefix(prefixSeqNum) *)
Definition ack_prefix (p : N) (sd : sender) : sender :=
  if p =? 0 then sd
  else if check_ack (p - 1) sd then ack_prefix_loop (N.to_nat (p - s_prefix sd)) p sd
  else sd.

(** AckChunk(seqNum) *)
Definition ack_chunk (x : N) (sd : sender) : sender :=
  if check_ack x sd then
    if x =? s_prefix sd then ack_front sd
    else if memN x (s_acked sd) then sd
    else mkSender (s_queue sd) (s_done sd) (s_chunks sd) (s_prefix sd) (x :: s_acked sd) (s_off sd)
  else sd.

(** handleAck *)
Definition apply_ack (p : N) (ks : list N) (sd : sender) : sender :=
  fold_left (fun a x => ack_chunk x a) ks (ack_prefix p sd).

(** * Receiving transport *)
Section Params.
Variable limit : N.     (* incomingMessagesMemoryLimit *)
Variable maxwin : N.    (* maxIncomingWindowSize *)

Definition grant (r : receiver) : receiver :=   (* tryAcquireMemoryForTheFirst + OnAcquiredMemory *)
  mkReceiver (r_prefix r) (r_got r) (r_cur r) (r_total r + r_req r) false 0 (r_deliv r).

(** checkMemoryWaiters *)
Fixpoint cw (ws : list nat) (acq : N) (cs : list conn) : list nat * N * list conn :=
  match ws with
  | [] => ([], acq, cs)
  | w :: rest =>
      let req := r_req (rcvr (nth w cs conn0)) in
      if acq + req <=? limit then
        cw rest (acq + req) (upd w (fun x => mkConn (sndr x) (grant (rcvr x))) cs)
      else (ws, acq, cs)
  end.

Definition check_waiters (s : state) : state :=
  let '(ws, acq, cs) := cw (st_wait s) (st_acq s) (st_conns s) in
  mkState cs acq ws (st_net s).

(** releaseMemory *)
Definition release (n : N) (s : state) : state :=
  check_waiters (mkState (st_conns s) (st_acq s - n) (st_wait s) (st_net s)).

Definition set_inq (b : bool) (r : receiver) : receiver :=
  mkReceiver (r_prefix r) (r_got r) (r_cur r) (r_total r) b (r_req r) (r_deliv r).
Definition set_req (q : N) (r : receiver) : receiver :=
  mkReceiver (r_prefix r) (r_got r) (r_cur r) (r_total r) (r_inq r) q (r_deliv r).

(** tryAcquireMemory: the result tells whether the memory was acquired.
    Go: tryAcquireMemoryForTheFirst; checkMemoryWaiters; and then, back in ensureWindowSize,
    messagesTotalOffset += requestedMemorySize; requestedMemorySize = 0.  The model performs these two
    assignments ([grant]) before checkMemoryWaiters: the connection has left the queue by then, and
    checkMemoryWaiters neither reads nor writes connections outside the queue, so the order is not observable. *)
Definition try_acquire (c : nat) (s : state) : bool * state :=
  let s1 := if r_inq (rcvr (getc c s)) then s
            else upd_rcv c (set_inq true) (mkState (st_conns s) (st_acq s) (st_wait s ++ [c]) (st_net s)) in
  match st_wait s1 with
  | w :: rest =>
      if Nat.eqb w c then
        let req := r_req (rcvr (getc c s1)) in
        if st_acq s1 + req <=? limit then
          (true, check_waiters (upd_rcv c grant (mkState (st_conns s1) (st_acq s1 + req) rest (st_net s1))))
        else (false, s1)
      else (false, s1)
  | [] => (false, s1)
  end.

(** ensureWindowSize *)
Definition ensure_window (c : nat) (seq : N) (ch : chunk) (s : state) : bool * state :=
  let r := rcvr (getc c s) in
  if maxwin <? seq - r_prefix r + 1 then (false, s)
  else
    let e := chunk_end ch in
    if e <=? r_total r then (true, s)
    else
      let delta := e - r_total r in
      if r_inq r && (r_req r <=? delta) then (false, s)
      else try_acquire c (upd_rcv c (set_req delta) s).

(** moveWindowPrefix (StreamLikeIncoming) *)
Fixpoint move_prefix (fuel : nat) (c : nat) (s : state) : state :=
  match fuel with
  | O => s
  | S f =>
      let r := rcvr (getc c s) in
      if memN (r_prefix r) (r_got r) then
        let ch := nth (N.to_nat (r_prefix r)) (s_chunks (sndr (getc c s))) chunk0 in
        let cur' := r_cur r ++ c_data ch in
        if c_next ch =? 0 then
          move_prefix f c
            (release (ulen cur')
               (upd_rcv c (fun r2 => mkReceiver (r_prefix r2 + 1) (removeN (r_prefix r2) (r_got r2)) []
                                                (r_total r2) (r_inq r2) (r_req r2) (r_deliv r2 ++ [cur'])) s))
        else
          move_prefix f c
            (upd_rcv c (fun r2 => mkReceiver (r_prefix r2 + 1) (removeN (r_prefix r2) (r_got r2)) cur'
                                             (r_total r2) (r_inq r2) (r_req r2) (r_deliv r2)) s)
      else s
  end.

(** receiveMessageChunk *)
Definition recv_chunk (c : nat) (seq : N) (s : state) : state :=
  let r := rcvr (getc c s) in
  let ch := nth (N.to_nat seq) (s_chunks (sndr (getc c s))) chunk0 in
  if seq <? r_prefix r then s
  else
    let '(ok, s1) := ensure_window c seq ch s in
    if negb ok then s1
    else if memN seq (r_got (rcvr (getc c s1))) then s1
    else
      let s2 := upd_rcv c (fun r2 => mkReceiver (r_prefix r2) (seq :: r_got r2) (r_cur r2) (r_total r2)
                                                (r_inq r2) (r_req r2) (r_deliv r2)) s1 in
      move_prefix (S (length (r_got (rcvr (getc c s1))))) c s2.

(** ReceiveDatagram: the chunks of a datagram one after the other *)
Fixpoint recv_range (k : nat) (c : nat) (f : N) (s : state) : state :=
  match k with
  | O => s
  | S k' => recv_range k' c (f + 1) (recv_chunk c f s)
  end.

Definition received (r : receiver) (x : N) : bool := (x <? r_prefix r) || memN x (r_got r).

Definition ack_emit (c : nat) (p : N) (ks : list N) (s : state) : state :=
  let r := rcvr (getc c s) in
  if (p <=? r_prefix r) && forallb (received r) ks then set_net s (st_net s ++ [Ack c p ks]) else s.

Definition deliver (i : nat) (s : state) : state :=
  match nth_error (st_net s) i with
  | None => s
  | Some d =>
      let s' := set_net s (remove_nth i (st_net s)) in
      match d with
      | Data c f k => recv_range (N.to_nat k) c f s'
      | Ack c p ks => upd_snd c (apply_ack p ks) s'
      end
  end.

Definition lose (i : nat) (s : state) : state := set_net s (remove_nth i (st_net s)).

Definition dup (i : nat) (s : state) : state :=
  match nth_error (st_net s) i with
  | None => s
  | Some d => set_net s (st_net s ++ [d])
  end.

Inductive step :=
| Submit (c : nat) (m : msg)
| Slice (c : nat) (cuts : list N)
| Send (c : nat) (f k : N)            (* first transmission, resend timer, resend request: all the same here *)
| AckEmit (c : nat) (p : N) (ks : list N)
| Deliver (i : nat)
| Lose (i : nat)
| Dup (i : nat)
| Timer.                              (* a timer expiration by itself changes nothing the model can see *)

Definition do_step (s : state) (st : step) : state :=
  match st with
  | Submit c m => submit c m s
  | Slice c cuts => slice c cuts s
  | Send c f k => send c f k s
  | AckEmit c p ks => ack_emit c p ks s
  | Deliver i => deliver i s
  | Lose i => lose i s
  | Dup i => dup i s
  | Timer => s
  end.

Definition run (s : state) (l : list step) : state := fold_left do_step l s.

(** * Fair completion: no further loss, no further submissions.
    [drain]: every datagram still in flight arrives.
    One [conn_round]: slice what is still queued (one chunk per message), put every chunk from the acked prefix
    on on the wire one by one, each arriving at once, then the receiver acknowledges its prefix and that
    acknowledgement arrives.  One [round]: a conn_round for the [leader], then one for every connection in turn.
    [complete] = drain, then (number of undelivered messages + 1) rounds. *)
Definition slice_all_steps (c : nat) (sd : sender) : list step :=
  map (fun m => Slice c [ulen m]) (s_queue sd).

Fixpoint nseq (start : N) (len : nat) : list N :=
  match len with O => [] | S l => start :: nseq (start + 1) l end.

Definition resend_steps (c : nat) (from : N) (n : nat) : list step :=
  flat_map (fun x => [Send c x 1; Deliver 0]) (nseq from n).

Definition conn_round (s : state) (c : nat) : state :=
  let s1 := run s (slice_all_steps c (sndr (getc c s))) in
  let sd := sndr (getc c s1) in
  let s2 := run s1 (resend_steps c (s_prefix sd) (length (s_chunks sd) - N.to_nat (s_prefix sd))) in
  run s2 [AckEmit c (r_prefix (rcvr (getc c s2))) []; Deliver 0].

(** memory accounted to one connection: reserved stream range minus what was already handed over *)
Definition bytes (l : list msg) : N := sumN (map (@ulen N) l).
Definition held (cn : conn) : N := r_total (rcvr cn) - bytes (r_deliv (rcvr cn)).
Definition submitted (cn : conn) : list msg := s_done (sndr cn) ++ s_queue (sndr cn).

Fixpoint find_idx {A} (p : A -> bool) (l : list A) (i : nat) : option nat :=
  match l with
  | [] => None
  | x :: r => if p x then Some i else find_idx p r (S i)
  end.

(** the connection served first in a round: one that already holds memory if there is one, else the first
    memory waiter, else the first connection with an undelivered message *)
Definition leader (s : state) : nat :=
  match find_idx (fun cn => 0 <? held cn) (st_conns s) 0 with
  | Some c => c
  | None =>
      match st_wait s with
      | f :: _ => f
      | [] =>
          match find_idx (fun cn => (length (r_deliv (rcvr cn)) <? length (submitted cn))%nat) (st_conns s) 0 with
          | Some c => c
          | None => O
          end
      end
  end.

Definition round (s : state) : state :=
  fold_left conn_round (leader s :: seq 0 (length (st_conns s))) s.

Definition drain (s : state) : state := run s (repeat (Deliver 0) (length (st_net s))).

Definition undelivered (s : state) : nat :=
  fold_right (fun cn a => (length (submitted cn) - length (r_deliv (rcvr cn)) + a)%nat) O (st_conns s).

Fixpoint iter {A} (n : nat) (f : A -> A) (x : A) : A :=
  match n with O => x | S k => iter k f (f x) end.

Definition complete (s : state) : state :=
  let s1 := drain s in iter (S (undelivered s1)) round s1.

End Params.

(** The simulator's configuration (pkg/rpc/udp/fuzz_transport.go, transport.go), regenerated by T-const *)
Definition sim_limit : N := udp_MaxFuzzTransportMemory.
Definition sim_maxwin : N := udp_DefaultMaxWindowSize.
Definition sim_transports : nat := N.to_nat udp_transports.
