(** Auxiliary lemmas for the [Udp] model: lists, [upd], sums, reassembly, well-formed chunk tables. *)
From Coq Require Import List NArith Bool Arith Lia ZArith ZifyN ZifyNat ZifyBool.
From TLV Require Import Udp.UdpModel.
Import ListNotations.
Open Scope N_scope.

(** * membership / removal on [list N] *)
Lemma memN_In : forall x l, memN x l = true <-> In x l.
Proof.
  induction l as [|y r IH]; cbn [memN In]. { split; [discriminate|tauto]. }
  rewrite orb_true_iff, IH, N.eqb_eq. split; intros [H|H]; auto.
Qed.

Lemma memN_false : forall x l, memN x l = false <-> ~ In x l.
Proof. intros. rewrite <- memN_In. destruct (memN x l); split; congruence. Qed.

Lemma In_removeN : forall x y l, In y (removeN x l) <-> In y l /\ y <> x.
Proof.
  induction l as [|z r IH]; cbn [removeN In]. { tauto. }
  destruct (x =? z) eqn:E.
  - apply N.eqb_eq in E. subst z. rewrite IH. split; [tauto|]. intros [[H|H] Hn]; [congruence|tauto].
  - apply N.eqb_neq in E. cbn [In]. rewrite IH. split.
    + intros [H|[H Hn]]; [subst; split; auto|tauto].
    + intros [[H|H] Hn]; auto.
Qed.

Lemma NoDup_removeN : forall x l, NoDup l -> NoDup (removeN x l).
Proof.
  induction l as [|z r IH]; cbn [removeN]; intros H. { constructor. }
  inversion H; subst. destruct (x =? z); auto. constructor; auto. rewrite In_removeN. tauto.
Qed.

Lemma length_removeN_le : forall x l, (length (removeN x l) <= length l)%nat.
Proof. induction l as [|z r IH]; cbn [removeN length]; [lia|]. destruct (x =? z); cbn [length]; lia. Qed.

Lemma length_removeN_lt : forall x l, In x l -> (length (removeN x l) < length l)%nat.
Proof.
  induction l as [|z r IH]; cbn [removeN length In]; [tauto|]. intros [H|H].
  - subst. rewrite N.eqb_refl. pose proof (length_removeN_le x r). lia.
  - destruct (x =? z); cbn [length]; [pose proof (length_removeN_le x r)|specialize (IH H)]; lia.
Qed.

(** * [upd], [remove_nth] *)
Lemma length_upd : forall A (f : A -> A) l i, length (upd i f l) = length l.
Proof. induction l as [|x r IH]; destruct i; cbn [upd length]; auto. Qed.

Lemma nth_upd_same : forall A (f : A -> A) d l i, (i < length l)%nat -> nth i (upd i f l) d = f (nth i l d).
Proof. induction l as [|x r IH]; destruct i; cbn [upd length nth]; intros; try lia; auto. apply IH. lia. Qed.

Lemma nth_upd_other : forall A (f : A -> A) d l i j, i <> j -> nth j (upd i f l) d = nth j l d.
Proof.
  induction l as [|x r IH]; destruct i, j; cbn [upd nth]; intros; try congruence; auto.
Qed.

Lemma upd_out : forall A (f : A -> A) l i, (length l <= i)%nat -> upd i f l = l.
Proof. induction l as [|x r IH]; destruct i; cbn [upd length]; intros; try lia; auto. f_equal. apply IH. lia. Qed.

Lemma In_remove_nth : forall A (x : A) l i, In x (remove_nth i l) -> In x l.
Proof. induction l as [|y r IH]; destruct i; cbn [remove_nth In]; intros; auto. destruct H; auto. right. eapply IH; eauto. Qed.

Lemma length_remove_nth : forall A (l : list A) i, (i < length l)%nat -> length (remove_nth i l) = pred (length l).
Proof.
  induction l as [|y r IH]; destruct i; cbn [remove_nth length]; intros; try lia.
  rewrite IH by lia. destruct r; cbn [length] in *; lia.
Qed.

(** * sums *)

Lemma sumN_app : forall a b, sumN (a ++ b) = sumN a + sumN b.
Proof. induction a; intros; cbn [sumN app]; [reflexivity|]. rewrite IHa. lia. Qed.

Lemma bytes_app : forall a b, bytes (a ++ b) = bytes a + bytes b.
Proof. intros. unfold bytes. rewrite map_app. apply sumN_app. Qed.

Lemma ulen_app : forall A (a b : list A), ulen (a ++ b) = ulen a + ulen b.
Proof. intros. unfold ulen. rewrite app_length. lia. Qed.

Lemma ulen_nil : forall A, ulen (@nil A) = 0.
Proof. reflexivity. Qed.

(** * stream reassembly: what the receiver hands to the handler while its prefix walks over the table *)
Fixpoint reasm (chs : list chunk) (cur : list N) : list msg * list N :=
  match chs with
  | [] => ([], cur)
  | ch :: r =>
      let cur' := cur ++ c_data ch in
      if c_next ch =? 0 then (cur' :: fst (reasm r []), snd (reasm r [])) else reasm r cur'
  end.

Lemma reasm_app : forall a b cur,
  reasm (a ++ b) cur = (fst (reasm a cur) ++ fst (reasm b (Datatypes.snd (reasm a cur))), snd (reasm b (Datatypes.snd (reasm a cur)))).
Proof.
  induction a as [|ch r IH]; intros; cbn [app reasm fst snd]. { destruct (reasm b cur); reflexivity. }
  destruct (c_next ch =? 0); cbn [fst snd]; rewrite IH; reflexivity.
Qed.

Lemma firstn_succ_nth : forall A (d : A) l n, (n < length l)%nat -> firstn (S n) l = firstn n l ++ [nth n l d].
Proof.
  induction l as [|x r IH]; destruct n; cbn [firstn nth length app]; intros; try lia; auto.
  f_equal. apply IH. lia.
Qed.

(** * well-formed chunk tables: consecutive offsets, consistent prev/next lengths, ends at a message boundary *)
Fixpoint wf (off plen pend : N) (chs : list chunk) (fin : N) : Prop :=
  match chs with
  | [] => pend = 0 /\ plen = 0 /\ off = fin
  | ch :: r =>
      c_off ch = off /\ c_plen ch = plen /\ plen <= off /\ 0 < ulen (c_data ch) /\
      (pend = 0 /\ plen = 0 \/ pend = ulen (c_data ch) + c_nlen ch) /\
      (c_next ch = 0 <-> c_nlen ch = 0) /\
      wf (off + ulen (c_data ch)) (if c_next ch =? 0 then 0 else plen + ulen (c_data ch)) (c_nlen ch) r fin
  end.

Lemma wf_app : forall a b off plen pend mid fin,
  wf off plen pend a mid -> wf mid 0 0 b fin -> wf off plen pend (a ++ b) fin.
Proof.
  induction a as [|ch r IH]; intros b off plen pend mid fin Ha Hb; cbn [app wf] in *.
  - destruct Ha as (-> & -> & ->). exact Hb.
  - destruct Ha as (H1 & H2 & H3 & H4 & H5 & H6 & H7). repeat split; auto; try tauto. eapply IH; eauto.
Qed.

Lemma skipn_ulen : forall A (l : list A) k, k <= ulen l -> ulen (skipn (N.to_nat k) l) = ulen l - k.
Proof. intros. unfold ulen in *. rewrite skipn_length. lia. Qed.

Lemma firstn_ulen : forall A (l : list A) k, k <= ulen l -> ulen (firstn (N.to_nat k) l) = k.
Proof. intros. unfold ulen in *. rewrite firstn_length. lia. Qed.

Lemma wf_mk_chunks : forall cuts m off plen pend,
  forallb (fun k => 0 <? k) cuts = true -> sumN cuts = ulen m -> cuts <> [] -> plen <= off ->
  (pend = 0 /\ plen = 0 \/ pend = ulen m) ->
  wf off plen pend (mk_chunks off plen m cuts) (off + ulen m).
Proof.
  induction cuts as [|k rest IH]; intros m off plen pend Hp Hs Hne Hle Hpe; [congruence|].
  cbn [forallb sumN] in Hp, Hs. apply andb_true_iff in Hp. destruct Hp as [Hk Hp].
  cbn [mk_chunks wf c_off c_plen c_data c_nlen c_next].
  assert (Hkm : k <= ulen m) by lia.
  rewrite firstn_ulen, skipn_ulen by exact Hkm.
  split; [reflexivity|]. split; [reflexivity|]. split; [exact Hle|]. split; [lia|].
  split. { destruct Hpe as [?|?]; [left; auto|right; lia]. }
  split.
  { split; intros H.
    - assert (rest = []) by (destruct rest; [auto|unfold ulen in H; cbn [length] in H; lia]). subst rest.
      cbn [sumN] in Hs. lia.
    - destruct rest as [|k2 r2]; [reflexivity|]. cbn [forallb sumN] in Hp, Hs.
      apply andb_true_iff in Hp. lia. }
  destruct rest as [|k2 r2].
  - cbn [mk_chunks wf]. change (ulen (@nil N)) with 0. cbn [N.eqb]. cbn [sumN] in Hs. repeat split; lia.
  - replace (ulen (k2 :: r2) =? 0) with false by (unfold ulen; cbn [length]; lia).
    replace (off + ulen m) with (off + k + ulen (skipn (N.to_nat k) m)) by (rewrite skipn_ulen; lia).
    apply IH; auto; try congruence; try lia.
    + rewrite skipn_ulen; lia.
    + right. rewrite skipn_ulen; lia.
Qed.

Lemma reasm_mk_chunks : forall cuts m off plen cur,
  forallb (fun k => 0 <? k) cuts = true -> sumN cuts = ulen m -> cuts <> [] ->
  reasm (mk_chunks off plen m cuts) cur = ([cur ++ m], []).
Proof.
  induction cuts as [|k rest IH]; intros m off plen cur Hp Hs Hne; [congruence|].
  cbn [forallb sumN] in Hp, Hs. apply andb_true_iff in Hp. destruct Hp as [Hk Hp].
  cbn [mk_chunks reasm c_next c_data].
  destruct rest as [|k2 r2].
  - unfold ulen at 1. cbn [length N.of_nat N.eqb mk_chunks reasm fst snd]. cbn [sumN] in Hs.
    rewrite firstn_all2; [reflexivity|]. unfold ulen in Hs. lia.
  - replace (ulen (k2 :: r2) =? 0) with false by (unfold ulen; cbn [length]; lia).
    rewrite IH; auto; try congruence.
    + rewrite <- app_assoc, firstn_skipn. reflexivity.
    + cbn [sumN] in *. rewrite skipn_ulen; lia.
Qed.

(** ** index view of a well-formed table *)
Definition cstart (chs : list chunk) (x : nat) : N := chunk_start (nth x chs chunk0).
Definition cend (chs : list chunk) (x : nat) : N := chunk_end (nth x chs chunk0).

Lemma wf_nth : forall chs off plen pend fin x, wf off plen pend chs fin -> (x < length chs)%nat ->
  let ch := nth x chs chunk0 in
  0 < ulen (c_data ch) /\ c_plen ch <= c_off ch /\ (c_next ch = 0 <-> c_nlen ch = 0).
Proof.
  induction chs as [|c r IH]; intros off plen pend fin x H Hx; cbn [length] in Hx; [lia|].
  cbn [wf] in H. destruct H as (H1 & H2 & H3 & H4 & H5 & H6 & H7).
  destruct x; cbn [nth]. { repeat split; try tauto; lia. }
  eapply IH; eauto. lia.
Qed.

Lemma wf_adj : forall chs off plen pend fin x, wf off plen pend chs fin -> (S x < length chs)%nat ->
  let a := nth x chs chunk0 in let b := nth (S x) chs chunk0 in
  c_off b = c_off a + ulen (c_data a) /\
  (c_next a = 0 -> c_plen b = 0) /\
  (c_next a <> 0 -> c_plen b = c_plen a + ulen (c_data a) /\ c_nlen a = ulen (c_data b) + c_nlen b).
Proof.
  induction chs as [|c r IH]; intros off plen pend fin x H Hx; cbn [length] in Hx; [lia|].
  cbn [wf] in H. destruct H as (H1 & H2 & H3 & H4 & H5 & H6 & H7).
  destruct x.
  - destruct r as [|c2 r2]; cbn [length] in Hx; [lia|]. cbn [nth].
    cbn [wf] in H7. destruct H7 as (G1 & G2 & G3 & G4 & G5 & G6 & G7).
    split; [lia|]. split.
    + intros E. rewrite E in G2. cbn [N.eqb] in G2. lia.
    + intros E. apply N.eqb_neq in E. rewrite E in G2. split; [lia|].
      destruct G5 as [[G5 _]|G5]; [|exact G5]. apply N.eqb_neq in E. tauto.
  - cbn [nth]. eapply IH; eauto. lia.
Qed.

Lemma wf_last : forall chs off plen pend fin, wf off plen pend chs fin -> chs <> [] ->
  let l := nth (pred (length chs)) chs chunk0 in c_next l = 0 /\ c_off l + ulen (c_data l) = fin.
Proof.
  induction chs as [|c r IH]; intros off plen pend fin H Hne; [congruence|].
  cbn [wf] in H. destruct H as (H1 & H2 & H3 & H4 & H5 & H6 & H7).
  destruct r as [|c2 r2].
  - cbn [length pred nth]. cbn [wf] in H7. destruct H7 as (G1 & G2 & G3). split; [tauto|lia].
  - cbn [length pred]. change (nth (S (length r2)) (c :: c2 :: r2) chunk0) with (nth (pred (length (c2 :: r2))) (c2 :: r2) chunk0).
    eapply IH; eauto. congruence.
Qed.

Lemma wf_head : forall ch r off plen pend fin, wf off plen pend (ch :: r) fin -> c_off ch = off /\ c_plen ch = plen.
Proof. intros. cbn [wf] in H. tauto. Qed.

Lemma cstart_lt_cend : forall chs off plen pend fin x, wf off plen pend chs fin -> (x < length chs)%nat ->
  cstart chs x < cend chs x.
Proof.
  intros. destruct (wf_nth _ _ _ _ _ _ H H0) as (A & B & C). unfold cstart, cend, chunk_start, chunk_end. lia.
Qed.

Lemma wf_adj_msg : forall chs off plen pend fin x, wf off plen pend chs fin -> (S x < length chs)%nat ->
  (c_next (nth x chs chunk0) <> 0 /\ cstart chs (S x) = cstart chs x /\ cend chs (S x) = cend chs x) \/
  (c_next (nth x chs chunk0) = 0 /\ cstart chs (S x) = cend chs x).
Proof.
  intros chs off plen pend fin x H Hx.
  destruct (wf_adj _ _ _ _ _ _ H Hx) as (A & B & C).
  assert (Hx0 : (x < length chs)%nat) by lia.
  destruct (wf_nth _ _ _ _ _ _ H Hx0) as (D & E & F).
  destruct (wf_nth _ _ _ _ _ _ H Hx) as (D2 & E2 & F2).
  unfold cstart, cend, chunk_start, chunk_end.
  destruct (N.eq_dec (c_next (nth x chs chunk0)) 0) as [Z|Z].
  - right. split; [exact Z|]. rewrite (B Z). apply F in Z. lia.
  - left. destruct (C Z) as [C1 C2]. split; [exact Z|]. lia.
Qed.

Lemma wf_mono : forall chs off plen pend fin, wf off plen pend chs fin ->
  forall d x, (x + d < length chs)%nat ->
  cstart chs x <= cstart chs (x + d) /\ cend chs x <= cend chs (x + d) /\
  (cend chs x <= cstart chs (x + d) \/ (cstart chs x = cstart chs (x + d) /\ cend chs x = cend chs (x + d))).
Proof.
  intros chs off plen pend fin H. induction d as [|d IH]; intros x Hx.
  - rewrite Nat.add_0_r. repeat split; try lia.
  - assert (Hx1 : (x + d < length chs)%nat) by lia.
    destruct (IH x Hx1) as (A & B & C).
    replace (x + S d)%nat with (S (x + d)) by lia.
    assert (Hx2 : (S (x + d) < length chs)%nat) by lia.
    pose proof (cstart_lt_cend _ _ _ _ _ _ H Hx1) as L1.
    destruct (wf_adj_msg _ _ _ _ _ _ H Hx2) as [(Z & E1 & E2)|(Z & E1)].
    + rewrite E1, E2. repeat split; try lia.
    + pose proof (cstart_lt_cend _ _ _ _ _ _ H Hx2) as L2. rewrite E1 in *. repeat split; try lia.
Qed.

Lemma wf_mono' : forall chs off plen pend fin x y, wf off plen pend chs fin -> (x <= y)%nat -> (y < length chs)%nat ->
  cstart chs x <= cstart chs y /\ cend chs x <= cend chs y /\
  (cend chs x <= cstart chs y \/ (cstart chs x = cstart chs y /\ cend chs x = cend chs y)).
Proof. intros. replace y with (x + (y - x))%nat by lia. eapply wf_mono; eauto. lia. Qed.

Lemma cend_le_fin : forall chs off plen pend fin x, wf off plen pend chs fin -> (x < length chs)%nat -> cend chs x <= fin.
Proof.
  intros chs off plen pend fin x H Hx.
  assert (Hne : chs <> []) by (destruct chs; cbn [length] in Hx; [lia|congruence]).
  destruct (wf_last _ _ _ _ _ H Hne) as [L1 L2].
  assert (Hl : (pred (length chs) < length chs)%nat) by lia.
  destruct (wf_nth _ _ _ _ _ _ H Hl) as (_ & _ & F).
  destruct (wf_mono' _ _ _ _ _ x (pred (length chs)) H) as (_ & B & _); try lia.
  unfold cend, chunk_end in *. apply F in L1. lia.
Qed.

(** the boundary lemma: the end of a message never lies strictly inside another message *)
Lemma wf_boundary : forall chs off plen pend fin x p, wf off plen pend chs fin ->
  (x < length chs)%nat -> (p < length chs)%nat ->
  cend chs x <= cstart chs p \/ cend chs p <= cend chs x.
Proof.
  intros chs off plen pend fin x p H Hx Hp.
  destruct (Nat.le_gt_cases x p) as [L|L].
  - destruct (wf_mono' _ _ _ _ _ x p H L Hp) as (_ & _ & [C|[C1 C2]]); [left; exact C|right; lia].
  - destruct (wf_mono' _ _ _ _ _ p x H) as (_ & B & _); lia.
Qed.

(** bytes handed over + bytes of the partial message = stream position of the prefix *)
Lemma reasm_pos : forall chs fin, wf 0 0 0 chs fin -> forall p, (p <= length chs)%nat ->
  let r := reasm (firstn p chs) [] in
  bytes (fst r) + ulen (Datatypes.snd r) = (if (p <? length chs)%nat then c_off (nth p chs chunk0) else fin) /\
  ulen (Datatypes.snd r) = (if (p <? length chs)%nat then c_plen (nth p chs chunk0) else 0).
Proof.
  intros chs fin H. induction p as [|p IH]; intros Hp.
  - cbn [firstn reasm fst Datatypes.snd]. destruct chs as [|c r].
    + cbn [wf] in H. cbn. lia.
    + destruct (wf_head _ _ _ _ _ _ H) as [A B]. cbn [length Nat.ltb Nat.leb nth]. rewrite A, B. cbn. lia.
  - assert (Hp' : (p < length chs)%nat) by lia.
    specialize (IH ltac:(lia)). cbv zeta in IH. destruct IH as [I1 I2].
    replace (p <? length chs)%nat with true in I1, I2 by (symmetry; apply Nat.ltb_lt; lia).
    rewrite (firstn_succ_nth _ chunk0) by exact Hp'. cbv zeta. rewrite reasm_app.
    destruct (reasm (firstn p chs) []) as [ms cur] eqn:E. cbn [fst Datatypes.snd] in *.
    cbn [reasm].
    destruct (wf_nth _ _ _ _ _ _ H Hp') as (D & E1 & F).
    destruct (Nat.ltb_spec (S p) (length chs)) as [L|L].
    + destruct (wf_adj _ _ _ _ _ _ H L) as (A & B & C).
      destruct (c_next (nth p chs chunk0) =? 0) eqn:Z; cbn [fst Datatypes.snd reasm].
      * apply N.eqb_eq in Z. rewrite bytes_app. unfold bytes at 2. cbn [map sumN]. rewrite ulen_app, (B Z).
        change (ulen (@nil N)) with 0. lia.
      * apply N.eqb_neq in Z. destruct (C Z) as [C1 C2]. rewrite app_nil_r, ulen_app. lia.
    + assert (Hne : chs <> []) by (destruct chs; cbn [length] in Hp'; [lia|congruence]).
      destruct (wf_last _ _ _ _ _ H Hne) as [L1 L2].
      replace (pred (length chs)) with p in L1, L2 by lia.
      rewrite L1. cbn [N.eqb fst Datatypes.snd reasm]. rewrite bytes_app. unfold bytes at 2. cbn [map sumN].
      rewrite ulen_app. change (ulen (@nil N)) with 0. lia.
Qed.

(** every chunk cut from a message spans exactly that message *)
Lemma mk_chunks_span : forall cuts m off plen ch,
  sumN cuts = ulen m -> plen <= off -> In ch (mk_chunks off plen m cuts) ->
  chunk_end ch = off + ulen m /\ chunk_start ch = off - plen.
Proof.
  induction cuts as [|k rest IH]; intros m off plen ch Hs Hle Hin; cbn [mk_chunks In] in Hin; [tauto|].
  cbn [sumN] in Hs. assert (Hk : k <= ulen m) by lia.
  destruct Hin as [<-|Hin].
  - unfold chunk_end, chunk_start. cbn [c_off c_plen c_data c_nlen]. rewrite firstn_ulen, skipn_ulen by exact Hk. lia.
  - apply IH in Hin; [|rewrite skipn_ulen by exact Hk; lia|lia]. rewrite skipn_ulen in Hin by exact Hk. lia.
Qed.
