(** Proofs about the RpcMux model (C38): query-ID allocation, the data invariant of the
    client/network/server system, own_response / complete_once / close_drains over ALL event lists,
    unreachability of the Go panics, soundness of the monitor [accepts]. *)
From Coq Require Import NArith ZArith List Bool Lia ZifyN ZifyNat ZifyBool.
From TLV Require Import Rpc.RpcModel.
Import ListNotations.
Open Scope N_scope.
Ltac Zify.zify_post_hook ::= Z.div_mod_to_equations.

(* ------------------------------------------------------------ query IDs *)

Lemma alloc_step : forall c, exists d, (d = 1 \/ d = 2) /\
  alloc_qid (c mod two64) = ((c + d) mod two64, (c + d) mod two63) /\ (c + d) mod two63 <> 0.
Proof.
  intro c. unfold alloc_qid, two64, two63.
  destruct (((c mod 18446744073709551616 + 1) mod 18446744073709551616) mod 9223372036854775808 =? 0) eqn:E.
  - exists 2. split; [now right|]. split.
    + f_equal; lia.
    + lia.
  - exists 1. split; [now left|]. split.
    + f_equal; lia.
    + lia.
Qed.

Lemma alloc_many_spec : forall n c qs l',
  alloc_many n (c mod two64) = (qs, l') -> 2 * N.of_nat n <= two63 ->
  exists c', l' = c' mod two64 /\ c <= c' /\ c' <= c + 2 * N.of_nat n /\
    Forall (fun q => q <> 0 /\ q < two63 /\ exists x, c < x /\ x <= c' /\ q = x mod two63) qs /\ NoDup qs.
Proof.
  induction n as [|n IH]; intros c qs l' H Hn; cbn [alloc_many] in H.
  - inversion H; subst. exists c. repeat split; try lia; constructor.
  - destruct (alloc_step c) as (d & Hd & Ha & Hnz). rewrite Ha in H.
    destruct (alloc_many n ((c + d) mod two64)) as [qs1 l1] eqn:E.
    inversion H; subst; clear H.
    destruct (IH (c + d) qs1 l' E ltac:(lia)) as (c' & -> & Hle & Hub & Hall & Hnd).
    exists c'. split; [reflexivity|]. split; [lia|]. split; [lia|]. split.
    + constructor.
      * split; [exact Hnz|]. split; [unfold two63; lia|]. exists (c + d). repeat split; lia.
      * eapply Forall_impl; [|exact Hall]. cbn. intros q (A & B & x & X1 & X2 & X3).
        split; [exact A|]. split; [exact B|]. exists x. repeat split; lia.
    + constructor; [|exact Hnd]. intro Hin.
      rewrite Forall_forall in Hall. destruct (Hall _ Hin) as (_ & _ & x & X1 & X2 & X3).
      unfold two63 in *. lia.
Qed.

Theorem alloc_distinct : forall n last qs l',
  last < two64 -> N.of_nat n <= 4611686018427387904 ->
  alloc_many n last = (qs, l') ->
  NoDup qs /\ Forall (fun q => q <> 0 /\ q < two63) qs /\ l' < two64.
Proof.
  intros n last qs l' Hl Hn H.
  assert (E : last = last mod two64) by (unfold two64 in *; lia).
  rewrite E in H. destruct (alloc_many_spec n last qs l' H ltac:(unfold two63; lia)) as (c' & -> & _ & _ & Hall & Hnd).
  split; [exact Hnd|]. split.
  - eapply Forall_impl; [|exact Hall]. cbn. intros q (A & B & _). split; assumption.
  - unfold two64; lia.
Qed.

(* ------------------------------------------------------------ association lists *)

Section AssocLemmas.
  Context {A : Type}.
  Implicit Types l : list (N * A).

  Lemma find_In : forall l q v, find q l = Some v -> In (q, v) l.
  Proof.
    induction l as [|[k x] t IH]; cbn; intros q v H; [discriminate|].
    destruct (k =? q) eqn:E.
    - apply N.eqb_eq in E. inversion H; subst. now left.
    - right. now apply IH.
  Qed.

  Lemma find_None_keys : forall l q, find q l = None <-> ~ In q (keys l).
  Proof.
    induction l as [|[k x] t IH]; cbn; intros q.
    - split; [intros _ []|reflexivity].
    - destruct (k =? q) eqn:E.
      + apply N.eqb_eq in E. split; [discriminate|]. intros H. exfalso. apply H. now left.
      + apply N.eqb_neq in E. rewrite IH. split; intros H; [intros [F|F]; [congruence|now apply H]|intro F; apply H; now right].
  Qed.

  Lemma find_Some_keys : forall l q v, find q l = Some v -> In q (keys l).
  Proof. intros l q v H. apply find_In in H. unfold keys. now apply (in_map fst) in H. Qed.

  Lemma keys_find : forall l q, In q (keys l) -> exists v, find q l = Some v.
  Proof.
    intros l q H. destruct (find q l) eqn:E; [eauto|]. apply find_None_keys in E. contradiction.
  Qed.

  Lemma In_find : forall l q v, NoDup (keys l) -> In (q, v) l -> find q l = Some v.
  Proof.
    induction l as [|[k x] t IH]; cbn; intros q v Hnd H; [contradiction|].
    inversion Hnd as [|? ? Hni Hnd']; subst. destruct H as [H|H].
    - inversion H; subst. now rewrite N.eqb_refl.
    - destruct (k =? q) eqn:E.
      + apply N.eqb_eq in E. subst. exfalso. apply Hni. unfold keys. now apply (in_map fst) in H.
      + now apply IH.
  Qed.

  Lemma In_remove : forall l q k v, In (k, v) (remove q l) <-> In (k, v) l /\ k <> q.
  Proof.
    induction l as [|[k0 x] t IH]; cbn; intros q k v.
    - tauto.
    - destruct (k0 =? q) eqn:E.
      + apply N.eqb_eq in E. subst. rewrite IH. split.
        * intros [H1 H2]. split; [now right|assumption].
        * intros [[H|H] H2]; [inversion H; subst; contradiction|now split].
      + apply N.eqb_neq in E. cbn. rewrite IH. split.
        * intros [H|[H1 H2]]; [inversion H; subst; split; [now left|assumption]|split; [now right|assumption]].
        * intros [[H|H] H2]; [now left|right; now split].
  Qed.

  Lemma keys_remove : forall l q k, In k (keys (remove q l)) <-> In k (keys l) /\ k <> q.
  Proof.
    intros l q k. unfold keys. rewrite !in_map_iff. split.
    - intros ([k' v] & E & H). cbn in E. subst. apply In_remove in H. destruct H as [H1 H2]. split; [|assumption].
      exists (k, v). now split.
    - intros [([k' v] & E & H) H2]. cbn in E. subst. exists (k, v). split; [reflexivity|]. apply In_remove. now split.
  Qed.

  Lemma NoDup_keys_remove : forall l q, NoDup (keys l) -> NoDup (keys (remove q l)).
  Proof.
    induction l as [|[k x] t IH]; cbn; intros q H; [constructor|].
    inversion H as [|? ? Hni Hnd']; subst. destruct (k =? q); [now apply IH|].
    cbn. constructor; [|now apply IH]. intro F. apply keys_remove in F. tauto.
  Qed.

  Lemma keys_app : forall l1 l2, keys (l1 ++ l2) = keys l1 ++ keys l2.
  Proof. intros. unfold keys. apply map_app. Qed.

  Lemma NoDup_keys_filter : forall (f : N * A -> bool) l, NoDup (keys l) -> NoDup (keys (filter f l)).
  Proof.
    induction l as [|[k x] t IH]; cbn; intros H; [constructor|].
    inversion H as [|? ? Hni Hnd']; subst. destruct (f (k, x)); [|now apply IH].
    cbn. constructor; [|now apply IH]. intro F. apply Hni.
    unfold keys in *. apply in_map_iff in F. destruct F as (p & E & Hp). apply filter_In in Hp.
    apply in_map_iff. exists p. tauto.
  Qed.

  Lemma keys_filter_incl : forall (f : N * A -> bool) l k, In k (keys (filter f l)) -> In k (keys l).
  Proof.
    intros f l k H. unfold keys in *. apply in_map_iff in H. destruct H as (p & E & Hp). apply filter_In in Hp.
    apply in_map_iff. exists p. tauto.
  Qed.
End AssocLemmas.

Lemma memN_In : forall q l, memN q l = true <-> In q l.
Proof.
  intros q l. unfold memN. rewrite existsb_exists. split.
  - intros (x & H & E). apply N.eqb_eq in E. now subst.
  - intros H. exists q. split; [assumption|apply N.eqb_refl].
Qed.

Lemma NoDup_app_intro : forall {A} (l1 l2 : list A), NoDup l1 -> NoDup l2 -> (forall x, In x l1 -> ~ In x l2) -> NoDup (l1 ++ l2).
Proof.
  induction l1 as [|a t IH]; cbn; intros l2 H1 H2 H; [assumption|].
  inversion H1 as [|? ? Hni Hnd']; subst. constructor.
  - rewrite in_app_iff. intros [F|F]; [contradiction|]. apply (H a); [now left|assumption].
  - apply IH; [assumption|assumption|]. intros x Hx. apply H. now right.
Qed.

(* ------------------------------------------------------------ effect of the client operations on the calls map *)

Definition same_call (a b : N * crec) : Prop :=
  fst a = fst b /\ c_body (snd a) = c_body (snd b) /\ c_fail (snd a) = c_fail (snd b) /\
  (c_sent (snd a) = true -> c_sent (snd b) = true).

Lemma same_call_refl : forall a, same_call a a.
Proof. intros. repeat split; auto. Qed.

Lemma Forall2_same_refl : forall l, Forall2 same_call l l.
Proof. induction l; constructor; auto using same_call_refl. Qed.

Lemma Forall2_same_trans : forall l1 l2 l3, Forall2 same_call l1 l2 -> Forall2 same_call l2 l3 -> Forall2 same_call l1 l3.
Proof.
  induction l1; intros l2 l3 H1 H2; inversion H1; subst; inversion H2; subst; constructor.
  - unfold same_call in *. intuition congruence.
  - eauto.
Qed.

Lemma mark_sent_same : forall q l, Forall2 same_call l (mark_sent q l).
Proof.
  induction l as [|[k c] t IH]; cbn; constructor; [|exact IH].
  cbn. destruct (k =? q); unfold same_call; cbn; auto.
Qed.

Lemma same_keys : forall l1 l2, Forall2 same_call l1 l2 -> keys l1 = keys l2.
Proof. induction 1 as [|a b l1 l2 H _ IH]; cbn; [reflexivity|]. destruct H as [H _]. unfold keys in IH. now rewrite H, IH. Qed.

Lemma same_In_r : forall l1 l2, Forall2 same_call l1 l2 -> forall q c', In (q, c') l2 ->
  exists c, In (q, c) l1 /\ c_body c = c_body c' /\ (c_sent c = true -> c_sent c' = true).
Proof.
  induction 1 as [|a b l1 l2 H _ IH]; cbn; intros q c' Hin; [contradiction|].
  destruct Hin as [E|Hin].
  - subst b. destruct a as [k c]. destruct H as (H1 & H2 & _ & H4). cbn in *. subst. exists c. auto.
  - destruct (IH _ _ Hin) as (c & A & B). exists c. split; [now right|assumption].
Qed.

Lemma same_In_l : forall l1 l2, Forall2 same_call l1 l2 -> forall q c, In (q, c) l1 ->
  exists c', In (q, c') l2 /\ c_body c = c_body c' /\ (c_sent c = true -> c_sent c' = true).
Proof.
  induction 1 as [|a b l1 l2 H _ IH]; cbn; intros q c Hin; [contradiction|].
  destruct Hin as [E|Hin].
  - subst a. destruct b as [k c']. destruct H as (H1 & H2 & _ & H4). cbn in *. subst. exists c'. auto.
  - destruct (IH _ _ Hin) as (c' & A & B). exists c'. split; [now right|assumption].
Qed.

Lemma move_loop_same : forall wqs calls inf out calls' inf' out',
  move_loop wqs calls inf out = Some (calls', inf', out') -> Forall2 same_call calls calls'.
Proof.
  induction wqs as [|[q|q] t IH]; cbn; intros calls inf out calls' inf' out' H.
  - inversion H; subst. apply Forall2_same_refl.
  - destruct (find q calls) as [c|]; [|eauto].
    destruct (c_sent c); [discriminate|].
    eapply Forall2_same_trans; [apply (mark_sent_same q)|eauto].
  - eauto.
Qed.

Lemma cl_setup_calls : forall st q fail b st' o, cl_setup st q fail b = (st', o) ->
  (o = None /\ cs_calls st' = remove q (cs_calls st) ++ [(q, {| c_sent := false; c_fail := fail; c_body := b |})]) \/
  (o <> None /\ st' = st).
Proof.
  intros st q fail b st' o H. unfold cl_setup in H.
  destruct (cs_closed st); [inversion H; subst; right; split; [discriminate|reflexivity]|].
  destruct (fail && cs_waiting st); inversion H; subst; [right; split; [discriminate|reflexivity]|].
  left. split; reflexivity.
Qed.

Lemma cl_cancel_calls : forall st q dp st' found, cl_cancel st q dp = Some (st', found) ->
  (found = false /\ st' = st /\ find q (cs_calls st) = None) \/
  (found = true /\ cs_calls st' = remove q (cs_calls st) /\ exists c, find q (cs_calls st) = Some c).
Proof.
  intros st q dp st' found H. unfold cl_cancel in H.
  destruct (find q (cs_calls st)) as [c|] eqn:E; [|inversion H; subst; left; auto].
  right.
  destruct (negb (c_sent c)); [inversion H; subst; cbn; eauto|].
  destruct (_ <? 0)%Z; [discriminate|].
  cbn in H. destruct (negb (cs_connUp st)); [inversion H; subst; cbn; eauto|].
  destruct (cs_isShutdown st && _); [inversion H; subst; cbn; eauto|].
  destruct (negb dp); inversion H; subst; cbn; eauto.
Qed.

Lemma cl_finish_calls : forall st q st' d, cl_finish st q = Some (st', d) ->
  (d = None /\ st' = st /\ find q (cs_calls st) = None) \/
  (exists c, d = Some c /\ find q (cs_calls st) = Some c /\ cs_calls st' = remove q (cs_calls st)).
Proof.
  intros st q st' d H. unfold cl_finish in H.
  destruct (find q (cs_calls st)) as [c|] eqn:E; [|inversion H; subst; left; auto].
  right. exists c.
  destruct (_ <? 0)%Z; [discriminate|].
  cbn in H. destruct (cs_connUp st && cs_isShutdown st && _); inversion H; subst; cbn; auto.
Qed.

Lemma cl_move_calls : forall st st' out, cl_move st = Some (st', out) -> Forall2 same_call (cs_calls st) (cs_calls st').
Proof.
  intros st st' out H. unfold cl_move in H.
  destruct (move_loop _ _ _ _) as [[[calls inf] o]|] eqn:E; [|discriminate].
  inversion H; subst. cbn. eapply move_loop_same; eauto.
Qed.

Lemma cl_disconnect_calls : forall st good ex st' ds, cl_disconnect st good ex = Some (st', ds) ->
  cs_calls st' = filter (mc_keep (cs_closed st) ex) (cs_calls st) /\
  ds = map (fun kc => (fst kc, mc_outcome (cs_closed st) kc)) (filter (fun kc => negb (mc_keep (cs_closed st) ex kc)) (cs_calls st)) /\
  cs_closed st' = cs_closed st.
Proof.
  intros st good ex st' ds H. unfold cl_disconnect, cl_masscancel in H. cbn in H.
  destruct (_ <? 0)%Z; [discriminate|].
  destruct good; inversion H; subst; cbn; auto.
Qed.

(* ------------------------------------------------------------ the data invariant of the system *)

Definition resp_body (r : sresp) : option N := match r with ROk b | RErr b => Some b | RGen => None end.
Definition out_body (o : outcome) : option N := match o with ORespOk b | OSrvErr b => Some b | _ => None end.

Record InvA (s : sys) : Prop := {
  a_log : NoDup (keys (log s));
  a_calls : NoDup (keys (cs_calls (cl s)));
  a_done : NoDup (keys (done s));
  a_part : forall q, In q (keys (log s)) <-> In q (keys (cs_calls (cl s))) \/ In q (keys (done s));
  a_disj : forall q, In q (keys (cs_calls (cl s))) -> ~ In q (keys (done s));
  a_cbody : forall q c, In (q, c) (cs_calls (cl s)) -> In (q, c_body c) (log s);
  a_c2s : forall q b, In (q, b) (c2s s) -> In (q, b) (log s);
  a_hand : forall q b, In (q, b) (handling s) -> In (q, b) (log s);
  a_s2c : forall q r b, In (q, r) (s2c s) -> resp_body r = Some b -> In (q, b) (log s);
  a_dbody : forall q o b, In (q, o) (done s) -> out_body o = Some b -> In (q, b) (log s)
}.

Ltac ssimp := unfold add_done, with_cl; cbn [cl c2s handling s2c done log].

Lemma InvA_init : InvA sys_init.
Proof. constructor; cbn; try constructor; try tauto; try (intros; contradiction). Qed.

Lemma in_keys : forall {A} (l : list (N * A)) q v, In (q, v) l -> In q (keys l).
Proof. intros A l q v H. unfold keys. now apply (in_map fst) in H. Qed.

(** a pending call [q] is completed with [o]: it leaves the calls map and enters [done] *)
Lemma InvA_complete : forall s c' q o,
  InvA s -> In q (keys (cs_calls (cl s))) -> cs_calls c' = remove q (cs_calls (cl s)) ->
  (forall b, out_body o = Some b -> In (q, b) (log s)) ->
  InvA (add_done (with_cl s c') [(q, o)]).
Proof.
  intros s c' q o I Hq Hc Hb. destruct I. constructor; ssimp; rewrite ?Hc; auto.
  - now apply NoDup_keys_remove.
  - rewrite keys_app. cbn. apply NoDup_app_intro; [assumption|repeat constructor; intros []|].
    intros x Hx [E|[]]. subst. eapply a_disj0; eauto.
  - intros k. rewrite keys_app, in_app_iff, keys_remove, a_part0. cbn.
    destruct (N.eq_dec k q) as [->|Hne]; [tauto|]. assert (Hne' : q <> k) by congruence. tauto.
  - intros k Hk. apply keys_remove in Hk. destruct Hk as [Hk Hne]. rewrite keys_app, in_app_iff. cbn.
    intros [F|[F|[]]]; [eapply a_disj0; eauto|congruence].
  - intros k c Hk. apply In_remove in Hk. destruct Hk. auto.
  - intros k o' b. rewrite in_app_iff. cbn. intros [H|[H|[]]] Hob; [eauto|]. inversion H; subst. auto.
Qed.

(** the client changed, but the calls map kept its keys and bodies; the network may have grown *)
Lemma InvA_same : forall s c' n1 n2 n3,
  InvA s -> Forall2 same_call (cs_calls (cl s)) (cs_calls c') ->
  (forall q b, In (q, b) n1 -> In (q, b) (log s)) ->
  (forall q b, In (q, b) n2 -> In (q, b) (log s)) ->
  (forall q r b, In (q, r) n3 -> resp_body r = Some b -> In (q, b) (log s)) ->
  InvA {| cl := c'; c2s := n1; handling := n2; s2c := n3; done := done s; log := log s |}.
Proof.
  intros s c' n1 n2 n3 I Hs H1 H2 H3. destruct I. pose proof (same_keys _ _ Hs) as Hk.
  constructor; ssimp; rewrite <- ?Hk; auto.
  intros q c Hin. destruct (same_In_r _ _ Hs _ _ Hin) as (c0 & A & B & _). rewrite <- B. auto.
Qed.

Lemma InvA_step : forall s e s', InvA s -> step s e = SOk s' -> InvA s'.
Proof.
  intros s e s' I H. destruct e; cbn [step] in H.
  - (* ECall *)
    destruct ((q =? 0) || memN q (keys (log s))) eqn:Efresh; [discriminate|].
    apply orb_false_iff in Efresh. destruct Efresh as [Hq0 Hfresh].
    assert (Hnl : ~ In q (keys (log s))) by (intro F; apply memN_In in F; congruence).
    destruct (cl_setup (cl s) q fail b) as [c o] eqn:Es. inversion H; subst; clear H.
    destruct (cl_setup_calls _ _ _ _ _ _ Es) as [[-> Hc]|[Ho ->]].
    + (* registered *)
      destruct I. assert (Hnc : ~ In q (keys (cs_calls (cl s)))) by (intro F; apply Hnl; apply a_part0; now left).
      assert (Hrm : remove q (cs_calls (cl s)) = cs_calls (cl s)).
      { clear - Hnc. induction (cs_calls (cl s)) as [|[k x] t IH]; cbn in *; [reflexivity|].
        destruct (k =? q) eqn:E; [apply N.eqb_eq in E; subst; tauto|]. f_equal. apply IH. tauto. }
      rewrite Hrm in Hc.
      constructor; ssimp; rewrite ?Hc, ?keys_app; cbn [keys map fst]; auto.
      * apply NoDup_app_intro; [assumption|repeat constructor; intros []|]. intros x Hx [E|[]]. subst. contradiction.
      * apply NoDup_app_intro; [assumption|repeat constructor; intros []|]. intros x Hx [E|[]]. subst. contradiction.
      * intros k. rewrite !in_app_iff, a_part0. cbn. tauto.
      * intros k. rewrite in_app_iff. cbn. intros [Hk|[<-|[]]]; [auto|]. intro F. apply Hnl. apply a_part0. now right.
      * intros k c0. rewrite !in_app_iff. cbn. intros [Hk|[E|[]]]; [left; auto|]. inversion E; subst. cbn. right. now left.
      * intros k b0 Hk. apply in_app_iff. left. auto.
      * intros k b0 Hk. apply in_app_iff. left. auto.
      * intros k r b0 Hk Hr. apply in_app_iff. left. eauto.
      * intros k o b0 Hk Hr. apply in_app_iff. left. eauto.
    + (* immediate error *)
      destruct o as [oc|]; [|congruence]. destruct I.
      assert (Hob : out_body oc = None).
      { unfold cl_setup in Es. destruct (cs_closed (cl s)); [inversion Es; reflexivity|].
        destruct (fail && cs_waiting (cl s)); inversion Es; reflexivity. }
      constructor; ssimp; rewrite ?keys_app; cbn [keys map fst]; auto.
      * apply NoDup_app_intro; [assumption|repeat constructor; intros []|]. intros x Hx [E|[]]. subst. contradiction.
      * apply NoDup_app_intro; [assumption|repeat constructor; intros []|]. intros x Hx [E|[]]. subst.
        apply Hnl. apply a_part0. now right.
      * intros k. rewrite !in_app_iff, a_part0. cbn. tauto.
      * intros k Hk. rewrite in_app_iff. cbn. intros [F|[<-|[]]]; [eapply a_disj0; eauto|]. apply Hnl. apply a_part0. now left.
      * intros k c0 Hk. apply in_app_iff. left. auto.
      * intros k b0 Hk. apply in_app_iff. left. auto.
      * intros k b0 Hk. apply in_app_iff. left. auto.
      * intros k r b0 Hk Hr. apply in_app_iff. left. eauto.
      * intros k o b0. rewrite !in_app_iff. cbn. intros [Hk|[E|[]]] Hr; [left; eauto|]. inversion E; subst. congruence.
  - (* EWrite *)
    destruct (cs_connUp (cl s) && negb (cs_isShutdown (cl s))); [|discriminate].
    destruct (cl_move (cl s)) as [[c out]|] eqn:Em; [|discriminate]. inversion H; subst; clear H.
    pose proof (cl_move_calls _ _ _ Em) as Hs.
    apply InvA_same; auto; try (destruct I; now auto).
    intros q b Hin. apply in_app_iff in Hin. destruct Hin as [Hin|Hin]; [destruct I; auto|].
    unfold bodies_of in Hin. apply in_flat_map in Hin. destruct Hin as ([q0|q0] & _ & Hin); [|contradiction].
    destruct (find q0 (cs_calls c)) as [c0|] eqn:Ef; [|contradiction]. destruct Hin as [E|[]]. inversion E; subst.
    apply find_In in Ef. destruct (same_In_r _ _ Hs _ _ Ef) as (c1 & A & B & _). rewrite <- B. destruct I. auto.
  - (* ESrvRecv *)
    destruct (find q (c2s s)) as [b|] eqn:Ef; [|discriminate]. inversion H; subst; clear H.
    apply find_In in Ef. apply (InvA_same s (cl s)); auto using Forall2_same_refl; try (destruct I; now auto).
    + intros k b0 Hk. apply In_remove in Hk. destruct Hk as [Hk _]. destruct I. auto.
    + intros k b0 Hk. apply in_app_iff in Hk. destruct I. destruct Hk as [Hk|[E|[]]]; [auto|]. inversion E; subst. auto.
  - (* ESrvReply *)
    destruct (find q (handling s)) as [b|] eqn:Ef; [|discriminate]. inversion H; subst; clear H.
    apply find_In in Ef. apply (InvA_same s (cl s)); auto using Forall2_same_refl; try (destruct I; now auto).
    + intros k b0 Hk. apply In_remove in Hk. destruct Hk as [Hk _]. destruct I. auto.
    + intros k r b0 Hk Hr. apply in_app_iff in Hk. destruct I. destruct Hk as [Hk|[E|[]]]; [eauto|]. inversion E; subst.
      destruct (kind =? 0); [cbn in Hr; inversion Hr; subst; auto|].
      destruct (kind =? 1); cbn in Hr; [inversion Hr; subst; auto|discriminate].
  - (* ECliRecv *)
    destruct (existsb _ (s2c s)) eqn:Ee; [|discriminate].
    apply existsb_exists in Ee. destruct Ee as ([q0 r0] & Hin & Hm). cbn in Hm. apply andb_true_iff in Hm.
    destruct Hm as [Hq Hr]. apply N.eqb_eq in Hq. subst q0.
    assert (r0 = r) as ->.
    { destruct r0, r; cbn in Hr; try discriminate; try reflexivity; apply N.eqb_eq in Hr; now subst. }
    destruct (cl_finish (cl s) q) as [[c d]|] eqn:Ef; [|discriminate].
    destruct (cl_finish_calls _ _ _ _ Ef) as [(-> & -> & _)|(c0 & -> & Hf & Hc)].
    + inversion H; subst. destruct s; exact I.
    + inversion H; subst; clear H. apply InvA_complete; auto.
      * eapply find_Some_keys; eauto.
      * intros b Hb. destruct I. apply (a_s2c0 q r b Hin). destruct r; cbn in *; congruence.
  - (* ECliRecvUnknown *)
    destruct (find q (cs_calls (cl s))) eqn:Ef0; [discriminate|].
    destruct (cl_finish (cl s) q) as [[c d]|] eqn:Ef; [|discriminate]. inversion H; subst; clear H.
    destruct (cl_finish_calls _ _ _ _ Ef) as [(-> & -> & _)|(c0 & -> & Hf & Hc)]; [|congruence].
    destruct s; exact I.
  - (* ECancel *)
    destruct (cl_cancel (cl s) q dp) as [[c found]|] eqn:Ec; [|discriminate].
    destruct (cl_cancel_calls _ _ _ _ _ Ec) as [(-> & -> & _)|(-> & Hc & c0 & Hf)]; inversion H; subst; clear H.
    + destruct s; exact I.
    + apply InvA_complete; auto; [eapply find_Some_keys; eauto|cbn; discriminate].
  - (* ETimeout *)
    destruct (cl_cancel (cl s) q dp) as [[c found]|] eqn:Ec; [|discriminate].
    destruct (cl_cancel_calls _ _ _ _ _ Ec) as [(-> & -> & _)|(-> & Hc & c0 & Hf)]; inversion H; subst; clear H.
    + destruct s; exact I.
    + apply InvA_complete; auto; [eapply find_Some_keys; eauto|cbn; discriminate].
  - (* EConnect *)
    destruct (cs_connUp (cl s)); [discriminate|].
    unfold cl_setconn in H. destruct (cs_closed (cl s)); [discriminate|]. inversion H; subst; clear H.
    apply (InvA_same s); cbn; auto using Forall2_same_refl; destruct I; auto.
  - (* EDisconnect *)
    destruct (cl_disconnect (cl s) good (fun q => memN q expired)) as [[c ds]|] eqn:Ed; [|discriminate].
    inversion H; subst; clear H.
    destruct (cl_disconnect_calls _ _ _ _ _ Ed) as (Hc & Hds & _).
    set (keep := mc_keep (cs_closed (cl s)) (fun q => memN q expired)) in *.
    assert (Hkd : keys ds = keys (filter (fun kc => negb (keep kc)) (cs_calls (cl s)))).
    { rewrite Hds. unfold keys. rewrite map_map. reflexivity. }
    assert (Hsplit : forall k, In k (keys (cs_calls (cl s))) <->
                               In k (keys (filter keep (cs_calls (cl s)))) \/ In k (keys (filter (fun kc => negb (keep kc)) (cs_calls (cl s))))).
    { intros k. unfold keys. rewrite !in_map_iff. split.
      - intros (p & E & Hp). destruct (keep p) eqn:Ek; [left|right]; exists p; (split; [assumption|]); apply filter_In; rewrite ?Ek; auto.
      - intros [(p & E & Hp)|(p & E & Hp)]; apply filter_In in Hp; exists p; tauto. }
    destruct I. constructor; ssimp; rewrite ?Hc; auto.
    + now apply NoDup_keys_filter.
    + rewrite keys_app, Hkd. apply NoDup_app_intro; [assumption|now apply NoDup_keys_filter|].
      intros x Hx Hx2. apply keys_filter_incl in Hx2. eapply a_disj0; eauto.
    + intros k. rewrite keys_app, in_app_iff, Hkd, a_part0, Hsplit. tauto.
    + intros k Hk. rewrite keys_app, in_app_iff, Hkd. intros [F|F].
      * apply keys_filter_incl in Hk. eapply a_disj0; eauto.
      * (* kept and gone are disjoint because keys are unique *)
        unfold keys in Hk, F. apply in_map_iff in Hk. apply in_map_iff in F.
        destruct Hk as ([k1 c1] & E1 & H1). destruct F as ([k2 c2] & E2 & H2). cbn in *. subst.
        apply filter_In in H1. apply filter_In in H2. destruct H1 as [H1 K1]. destruct H2 as [H2 K2].
        assert (c1 = c2). { apply In_find in H1; auto. apply In_find in H2; auto. congruence. }
        subst. rewrite K1 in K2. discriminate.
    + intros k c0 Hk. apply filter_In in Hk. destruct Hk. auto.
    + intros k o b. rewrite in_app_iff. intros [Hk|Hk] Hb; [eauto|].
      rewrite Hds in Hk. apply in_map_iff in Hk. destruct Hk as (p & E & _). inversion E; subst.
      unfold mc_outcome in Hb. destruct (c_sent (snd p)); [discriminate|]. destruct (c_fail (snd p) || _); discriminate.
  - (* ESrvFin *)
    inversion H; subst; clear H.
    assert (Hc : cs_calls (cl_shutdown (cl s)) = cs_calls (cl s)).
    { unfold cl_shutdown. destruct (negb (cs_connUp (cl s)) || cs_isShutdown (cl s)); [reflexivity|].
      cbn. destruct (negb (cs_inFlight (cl s) =? 0)%Z); reflexivity. }
    apply (InvA_same s); cbn; rewrite ?Hc; auto using Forall2_same_refl; destruct I; auto.
  - (* ECloseClient *)
    inversion H; subst; clear H.
    apply (InvA_same s); cbn; auto using Forall2_same_refl; destruct I; auto.
Qed.

Lemma InvA_run : forall evs s s', InvA s -> run s evs = SOk s' -> InvA s'.
Proof.
  induction evs as [|e t IH]; cbn; intros s s' I H; [inversion H; subst; assumption|].
  destruct (step s e) eqn:E; try discriminate. eapply IH; [eapply InvA_step; eauto|assumption].
Qed.

(* ------------------------------------------------------------ theorems over all event lists *)

Definition call_entry (e : event) : list (N * N) := match e with ECall q b _ => [(q, b)] | _ => [] end.

Lemma step_log : forall s e s', step s e = SOk s' -> log s' = log s ++ call_entry e.
Proof.
  intros s e s' H. destruct e; cbn [step call_entry] in *; rewrite ?app_nil_r.
  - destruct (_ || _); [discriminate|]. destruct (cl_setup _ _ _ _) as [c o]. inversion H; subst.
    destruct o; reflexivity.
  - destruct (_ && _); [|discriminate]. destruct (cl_move _) as [[c out]|]; inversion H; reflexivity.
  - destruct (find _ _); inversion H; reflexivity.
  - destruct (find _ _); inversion H; reflexivity.
  - destruct (existsb _ _); [|discriminate]. destruct (cl_finish _ _) as [[c [d|]]|]; inversion H; reflexivity.
  - destruct (find _ _); [discriminate|]. destruct (cl_finish _ _) as [[c d]|]; inversion H; reflexivity.
  - destruct (cl_cancel _ _ _) as [[c [|]]|]; inversion H; reflexivity.
  - destruct (cl_cancel _ _ _) as [[c [|]]|]; inversion H; reflexivity.
  - destruct (cs_connUp _); [discriminate|]. destruct (cl_setconn _) as [c [|]]; inversion H; reflexivity.
  - destruct (cl_disconnect _ _ _) as [[c ds]|]; inversion H; reflexivity.
  - inversion H; reflexivity.
  - inversion H; reflexivity.
Qed.

Lemma run_log : forall evs s s', run s evs = SOk s' -> log s' = log s ++ flat_map call_entry evs.
Proof.
  induction evs as [|e t IH]; cbn; intros s s' H; [inversion H; now rewrite app_nil_r|].
  destruct (step s e) eqn:E; try discriminate. rewrite (IH _ _ H), (step_log _ _ _ E), app_assoc. reflexivity.
Qed.

Lemma step_done_mono : forall s e s', step s e = SOk s' -> exists d, done s' = done s ++ d.
Proof.
  intros s e s' H. destruct e; cbn [step] in *.
  - destruct (_ || _); [discriminate|]. destruct (cl_setup _ _ _ _) as [c o]. inversion H; subst.
    destruct o; cbn; [eexists; reflexivity|exists []; now rewrite app_nil_r].
  - destruct (_ && _); [|discriminate]. destruct (cl_move _) as [[c out]|]; inversion H; exists []; now rewrite app_nil_r.
  - destruct (find _ _); inversion H; exists []; now rewrite app_nil_r.
  - destruct (find _ _); inversion H; exists []; now rewrite app_nil_r.
  - destruct (existsb _ _); [|discriminate]. destruct (cl_finish _ _) as [[c [d|]]|]; inversion H; cbn;
      [eexists; reflexivity|exists []; now rewrite app_nil_r].
  - destruct (find _ _); [discriminate|]. destruct (cl_finish _ _) as [[c d]|]; inversion H; exists []; now rewrite app_nil_r.
  - destruct (cl_cancel _ _ _) as [[c [|]]|]; inversion H; cbn; [eexists; reflexivity|exists []; now rewrite app_nil_r].
  - destruct (cl_cancel _ _ _) as [[c [|]]|]; inversion H; cbn; [eexists; reflexivity|exists []; now rewrite app_nil_r].
  - destruct (cs_connUp _); [discriminate|]. destruct (cl_setconn _) as [c [|]]; inversion H; exists []; now rewrite app_nil_r.
  - destruct (cl_disconnect _ _ _) as [[c ds]|]; inversion H; cbn. eexists; reflexivity.
  - inversion H; exists []; now rewrite app_nil_r.
  - inversion H; exists []; now rewrite app_nil_r.
Qed.

Lemma run_done_mono : forall evs s s', run s evs = SOk s' -> exists d, done s' = done s ++ d.
Proof.
  induction evs as [|e t IH]; cbn; intros s s' H; [inversion H; exists []; now rewrite app_nil_r|].
  destruct (step s e) eqn:E; try discriminate. destruct (step_done_mono _ _ _ E) as [d1 E1].
  destruct (IH _ _ H) as [d2 E2]. exists (d1 ++ d2). now rewrite E2, E1, app_assoc.
Qed.

Lemma run_app : forall e1 e2 s s', run s (e1 ++ e2) = SOk s' -> exists s1, run s e1 = SOk s1 /\ run s1 e2 = SOk s'.
Proof.
  induction e1 as [|e t IH]; cbn; intros e2 s s' H; [eauto|].
  destruct (step s e) eqn:E; try discriminate. eauto.
Qed.

(** own_response: a completed call holds the answer to its own request (or one of its own local errors). *)
Theorem own_response : forall evs s q o b,
  run sys_init evs = SOk s -> In (q, o) (done s) -> out_body o = Some b ->
  (exists fail, In (ECall q b fail) evs) /\ (forall b' fail', In (ECall q b' fail') evs -> b' = b).
Proof.
  intros evs s q o b H Hd Hb.
  pose proof (InvA_run _ _ _ InvA_init H) as I. pose proof (run_log _ _ _ H) as Hl. cbn in Hl.
  assert (Hin : In (q, b) (log s)) by (destruct I; eauto).
  assert (Hcalls : forall q0 b0, In (q0, b0) (log s) <-> exists f, In (ECall q0 b0 f) evs).
  { intros q0 b0. rewrite Hl, in_flat_map. split.
    - intros (e & He & Hc). destruct e; cbn in Hc; try contradiction. destruct Hc as [E|[]]. inversion E; subst. eauto.
    - intros (f & Hf). exists (ECall q0 b0 f). split; [assumption|now left]. }
  split; [now apply Hcalls|].
  intros b' f' Hc. assert (Hin' : In (q, b') (log s)) by (apply Hcalls; eauto).
  destruct I. apply In_find in Hin; auto. apply In_find in Hin'; auto. congruence.
Qed.

(** complete_once: no call is completed twice; a completed call is not pending any more;
    every started call is pending or completed (no call is lost). *)
Theorem complete_once : forall evs s, run sys_init evs = SOk s ->
  NoDup (keys (done s)) /\
  (forall q, In q (keys (done s)) -> ~ In q (keys (cs_calls (cl s)))) /\
  (forall q b fail, In (ECall q b fail) evs -> In q (keys (cs_calls (cl s))) \/ In q (keys (done s))).
Proof.
  intros evs s H. pose proof (InvA_run _ _ _ InvA_init H) as I. pose proof (run_log _ _ _ H) as Hl. cbn in Hl.
  destruct I. split; [assumption|]. split.
  - intros q Hd Hc. eapply a_disj0; eauto.
  - intros q b f Hc. apply a_part0. rewrite Hl. unfold keys. apply in_map_iff. exists (q, b). split; [reflexivity|].
    apply in_flat_map. exists (ECall q b f). split; [assumption|now left].
Qed.

(** once delivered, always delivered with the same outcome (results are never overwritten) *)
Theorem completion_stable : forall e1 e2 s1 s2 q o,
  run sys_init e1 = SOk s1 -> run s1 e2 = SOk s2 -> In (q, o) (done s1) ->
  In (q, o) (done s2) /\ forall o', In (q, o') (done s2) -> o' = o.
Proof.
  intros e1 e2 s1 s2 q o H1 H2 Hd.
  destruct (run_done_mono _ _ _ H2) as [d Ed].
  assert (Hin : In (q, o) (done s2)) by (rewrite Ed; apply in_app_iff; now left).
  split; [assumption|]. intros o' Ho'.
  assert (I : InvA s2) by (eapply InvA_run; [eapply InvA_run; [apply InvA_init|eassumption]|eassumption]).
  destruct I. apply In_find in Hin; auto. apply In_find in Ho'; auto. congruence.
Qed.

(* ---- close drains *)

Lemma step_closed_mono : forall s e s', step s e = SOk s' -> cs_closed (cl s) = true -> cs_closed (cl s') = true.
Proof.
  intros s e s' H Hc. destruct e; cbn [step] in *.
  - destruct (_ || _); [discriminate|]. unfold cl_setup in H. rewrite Hc in H. inversion H; subst. cbn. assumption.
  - destruct (_ && _); [|discriminate]. unfold cl_move in H. destruct (move_loop _ _ _ _) as [[[a b] c]|]; inversion H; subst. cbn. assumption.
  - destruct (find _ _); inversion H; subst; assumption.
  - destruct (find _ _); inversion H; subst; assumption.
  - destruct (existsb _ _); [|discriminate]. unfold cl_finish in H.
    destruct (find q (cs_calls (cl s))); [|inversion H; subst; assumption].
    destruct (_ <? 0)%Z; [discriminate|]. cbn in H. destruct (cs_connUp (cl s) && cs_isShutdown (cl s) && _); inversion H; subst; cbn; assumption.
  - destruct (find _ _); [discriminate|]. unfold cl_finish in H.
    destruct (find q (cs_calls (cl s))); [|inversion H; subst; assumption].
    destruct (_ <? 0)%Z; [discriminate|]. cbn in H. destruct (cs_connUp (cl s) && cs_isShutdown (cl s) && _); inversion H; subst; cbn; assumption.
  - unfold cl_cancel in H. destruct (find q (cs_calls (cl s))); [|inversion H; subst; assumption].
    destruct (negb _); [inversion H; subst; cbn; assumption|]. destruct (_ <? 0)%Z; [discriminate|]. cbn in H.
    destruct (negb (cs_connUp (cl s))); [inversion H; subst; cbn; assumption|].
    destruct (cs_isShutdown (cl s) && _); [inversion H; subst; cbn; assumption|].
    destruct (negb dp); inversion H; subst; cbn; assumption.
  - unfold cl_cancel in H. destruct (find q (cs_calls (cl s))); [|inversion H; subst; assumption].
    destruct (negb _); [inversion H; subst; cbn; assumption|]. destruct (_ <? 0)%Z; [discriminate|]. cbn in H.
    destruct (negb (cs_connUp (cl s))); [inversion H; subst; cbn; assumption|].
    destruct (cs_isShutdown (cl s) && _); [inversion H; subst; cbn; assumption|].
    destruct (negb dp); inversion H; subst; cbn; assumption.
  - destruct (cs_connUp _); [discriminate|]. unfold cl_setconn in H. rewrite Hc in H. discriminate.
  - destruct (cl_disconnect _ _ _) as [[c ds]|] eqn:E; [|discriminate]. inversion H; subst. cbn.
    destruct (cl_disconnect_calls _ _ _ _ _ E) as (_ & _ & ->). assumption.
  - inversion H; subst. cbn. unfold cl_shutdown. destruct (_ || _); [assumption|]. cbn.
    destruct (negb _); cbn; assumption.
  - inversion H; subst. reflexivity.
Qed.

Lemma step_closed_empty : forall s e s', step s e = SOk s' -> cs_closed (cl s) = true -> cs_calls (cl s) = [] ->
  cs_calls (cl s') = [].
Proof.
  intros s e s' H Hc He. destruct e; cbn [step] in *.
  - destruct (_ || _); [discriminate|]. unfold cl_setup in H. rewrite Hc in H. inversion H; subst. cbn. assumption.
  - destruct (_ && _); [|discriminate]. destruct (cl_move _) as [[c out]|] eqn:E; [|discriminate]. inversion H; subst. cbn.
    pose proof (cl_move_calls _ _ _ E) as Hs. rewrite He in Hs. inversion Hs. reflexivity.
  - destruct (find _ _); inversion H; subst; assumption.
  - destruct (find _ _); inversion H; subst; assumption.
  - destruct (existsb _ _); [|discriminate]. unfold cl_finish in H. rewrite He in H. cbn in H. inversion H; subst. assumption.
  - destruct (find _ _); [discriminate|]. unfold cl_finish in H. rewrite He in H. cbn in H. inversion H; subst. assumption.
  - unfold cl_cancel in H. rewrite He in H. cbn in H. inversion H; subst. assumption.
  - unfold cl_cancel in H. rewrite He in H. cbn in H. inversion H; subst. assumption.
  - destruct (cs_connUp _); [discriminate|]. unfold cl_setconn in H. rewrite Hc in H. discriminate.
  - destruct (cl_disconnect _ _ _) as [[c ds]|] eqn:E; [|discriminate]. inversion H; subst. cbn.
    destruct (cl_disconnect_calls _ _ _ _ _ E) as (-> & _ & _). rewrite He. reflexivity.
  - inversion H; subst. cbn. unfold cl_shutdown. destruct (_ || _); [assumption|]. cbn.
    destruct (negb _); cbn; assumption.
  - inversion H; subst. cbn. assumption.
Qed.

Lemma run_closed_empty : forall evs s s', run s evs = SOk s' -> cs_closed (cl s) = true -> cs_calls (cl s) = [] ->
  cs_closed (cl s') = true /\ cs_calls (cl s') = [].
Proof.
  induction evs as [|e t IH]; cbn; intros s s' H Hc He; [inversion H; subst; auto|].
  destruct (step s e) eqn:E; try discriminate.
  eapply IH; eauto using step_closed_mono, step_closed_empty.
Qed.

Lemma run_closed_mono : forall evs s s', run s evs = SOk s' -> cs_closed (cl s) = true -> cs_closed (cl s') = true.
Proof.
  induction evs as [|e t IH]; cbn; intros s s' H Hc; [inversion H; subst; auto|].
  destruct (step s e) eqn:E; try discriminate. eauto using step_closed_mono.
Qed.

Lemma disconnect_closed_empty : forall s g ex s', step s (EDisconnect g ex) = SOk s' -> cs_closed (cl s) = true -> cs_calls (cl s') = [].
Proof.
  intros s g ex s' H Hc. cbn [step] in H. destruct (cl_disconnect _ _ _) as [[c ds]|] eqn:E; [|discriminate].
  inversion H; subst. cbn. destruct (cl_disconnect_calls _ _ _ _ _ E) as (-> & _ & _). rewrite Hc.
  induction (cs_calls (cl s)) as [|a t IH]; cbn; [reflexivity|].
  unfold mc_keep at 1. rewrite orb_true_r. cbn. rewrite andb_false_r. cbn. exact IH.
Qed.

(** close_drains: after Client.Close, the next pass of the connection goroutine (disconnect)
    completes every pending call, and no call is pending ever after: every call ever started is completed. *)
Theorem close_drains : forall e1 e2 e3 g ex s,
  run sys_init (e1 ++ ECloseClient :: e2 ++ EDisconnect g ex :: e3) = SOk s ->
  cs_calls (cl s) = [] /\
  forall q b fail, In (ECall q b fail) (e1 ++ ECloseClient :: e2 ++ EDisconnect g ex :: e3) -> In q (keys (done s)).
Proof.
  intros e1 e2 e3 g ex s H.
  assert (He : cs_calls (cl s) = []).
  { destruct (run_app _ _ _ _ H) as (s1 & H1 & H2). cbn [run] in H2.
    destruct (step s1 ECloseClient) as [s2| |] eqn:E2; try discriminate.
    assert (C2 : cs_closed (cl s2) = true) by (cbn in E2; inversion E2; reflexivity).
    destruct (run_app _ _ _ _ H2) as (s3 & H3 & H4). cbn [run] in H4.
    destruct (step s3 (EDisconnect g ex)) as [s4| |] eqn:E4; try discriminate.
    assert (C3 : cs_closed (cl s3) = true) by eauto using run_closed_mono.
    eapply run_closed_empty; eauto using step_closed_mono, disconnect_closed_empty. }
  split; [assumption|]. intros q b f Hc.
  destruct (complete_once _ _ H) as (_ & _ & Ht). destruct (Ht _ _ _ Hc) as [F|F]; [|assumption].
  rewrite He in F. contradiction.
Qed.

(** closing the server (or losing the connection) is a disconnect for the client: afterwards no call
    that was sent, has FailIfNoConnection or an expired deadline is pending; the others stay queued for the
    next connection (by design, see the comment "lifecycle of connections" in client.go). *)
Theorem disconnect_drains_sent : forall evs g ex s,
  run sys_init (evs ++ [EDisconnect g ex]) = SOk s ->
  forall q c, In (q, c) (cs_calls (cl s)) -> c_sent c = false /\ c_fail c = false /\ ~ In q ex.
Proof.
  intros evs g ex s H q c Hin. destruct (run_app _ _ _ _ H) as (s1 & _ & H2). cbn [run] in H2.
  destruct (step s1 (EDisconnect g ex)) as [s2| |] eqn:E; try discriminate. inversion H2; subst.
  cbn [step] in E. destruct (cl_disconnect _ _ _) as [[c0 ds]|] eqn:Ed; [|discriminate]. inversion E; subst. cbn in Hin.
  destruct (cl_disconnect_calls _ _ _ _ _ Ed) as (Hc & _ & _). rewrite Hc in Hin. apply filter_In in Hin.
  destruct Hin as [_ Hk]. unfold mc_keep in Hk. cbn in Hk.
  apply andb_true_iff in Hk. destruct Hk as [Hk H3]. apply andb_true_iff in Hk. destruct Hk as [H1 H2'].
  apply negb_true_iff in H1, H2', H3. apply orb_false_iff in H2'. destruct H2' as [H2' _].
  repeat split; auto. intro F. apply memN_In in F. congruence.
Qed.

(* ------------------------------------------------------------ no Go panic is reachable *)

Definition wreqs (l : list wq) : list N := flat_map (fun w => match w with WReq q => [q] | WCancel _ => [] end) l.

Lemma wreqs_app : forall a b, wreqs (a ++ b) = wreqs a ++ wreqs b.
Proof. intros. unfold wreqs. apply flat_map_app. Qed.

Definition sentb (kc : N * crec) : bool := c_sent (snd kc).
Definition nsent (l : list (N * crec)) : nat := length (filter sentb l).

Lemma count_sent_nsent : forall l, count_sent l = Z.of_nat (nsent l).
Proof. reflexivity. Qed.

Lemma nsent_app : forall a b, nsent (a ++ b) = (nsent a + nsent b)%nat.
Proof. intros. unfold nsent. now rewrite filter_app, app_length. Qed.

Lemma remove_notin : forall {A} (l : list (N * A)) q, ~ In q (keys l) -> remove q l = l.
Proof.
  induction l as [|[k x] t IH]; cbn; intros q H; [reflexivity|].
  destruct (k =? q) eqn:E; [apply N.eqb_eq in E; subst; tauto|]. f_equal. apply IH. tauto.
Qed.

Lemma nsent_remove : forall l q c, NoDup (keys l) -> find q l = Some c ->
  nsent l = (nsent (remove q l) + (if c_sent c then 1 else 0))%nat.
Proof.
  induction l as [|[k x] t IH]; cbn; intros q c Hnd Hf; [discriminate|].
  inversion Hnd as [|? ? Hni Hnd']; subst.
  destruct (k =? q) eqn:E.
  - apply N.eqb_eq in E. subst. inversion Hf; subst. rewrite (remove_notin t q Hni).
    unfold nsent. cbn. unfold sentb at 1. cbn. destruct (c_sent c); cbn; lia.
  - specialize (IH q c Hnd' Hf). unfold nsent in *. cbn [filter]. destruct (sentb (k, x)); cbn [length]; lia.
Qed.

Lemma mark_sent_cons : forall k x t q,
  mark_sent q ((k, x) :: t) =
  (if k =? q then (k, {| c_sent := true; c_fail := c_fail x; c_body := c_body x |}) else (k, x)) :: mark_sent q t.
Proof. reflexivity. Qed.

Lemma nsent_cons : forall a t, nsent (a :: t) = ((if sentb a then 1 else 0) + nsent t)%nat.
Proof. intros. unfold nsent. cbn [filter]. destruct (sentb a); reflexivity. Qed.

Lemma mark_sent_notin : forall t q, ~ In q (keys t) -> mark_sent q t = t.
Proof.
  induction t as [|[k x] t IH]; intros q H; [reflexivity|].
  rewrite mark_sent_cons. cbn in H. destruct (k =? q) eqn:E; [apply N.eqb_eq in E; subst; tauto|].
  f_equal. apply IH. tauto.
Qed.

Lemma nsent_mark : forall l q c, NoDup (keys l) -> find q l = Some c -> c_sent c = false ->
  nsent (mark_sent q l) = S (nsent l).
Proof.
  induction l as [|[k x] t IH]; intros q c Hnd Hf Hs; [discriminate|].
  cbn [keys map fst] in Hnd. inversion Hnd as [|? ? Hni Hnd']; subst.
  rewrite mark_sent_cons, !nsent_cons. cbn [find] in Hf.
  destruct (k =? q) eqn:E.
  - apply N.eqb_eq in E. subst. inversion Hf; subst. rewrite (mark_sent_notin t q Hni).
    unfold sentb. cbn [snd c_sent]. rewrite Hs. reflexivity.
  - rewrite (IH q c Hnd' Hf Hs). lia.
Qed.

Lemma mark_sent_In : forall l q k c, In (k, c) (mark_sent q l) ->
  (k = q /\ c_sent c = true) \/ (k <> q /\ In (k, c) l).
Proof.
  induction l as [|[k0 x] t IH]; cbn; intros q k c H; [contradiction|].
  destruct H as [H|H].
  - destruct (k0 =? q) eqn:E.
    + apply N.eqb_eq in E. inversion H; subst. left. auto.
    + apply N.eqb_neq in E. inversion H; subst. right. split; [assumption|now left].
  - destruct (IH _ _ _ H) as [A|[A B]]; [now left|right; split; [assumption|now right]].
Qed.

Lemma find_mark_other : forall l q k, k <> q -> find k (mark_sent q l) = find k l.
Proof.
  induction l as [|[k0 x] t IH]; cbn; intros q k Hne; [reflexivity|].
  destruct (k0 =? q) eqn:E; cbn.
  - apply N.eqb_eq in E. subst. destruct (q =? k) eqn:E2; [apply N.eqb_eq in E2; congruence|]. now apply IH.
  - destruct (k0 =? k); [reflexivity|]. now apply IH.
Qed.

(** the loop of moveRequestsToSendLocked does not panic, counts exactly the requests it marks as sent,
    and everything it returns as a request is marked as sent *)
Lemma move_loop_ok : forall wqs calls inf out,
  NoDup (keys calls) -> NoDup (wreqs wqs) ->
  (forall q c, In q (wreqs wqs) -> In (q, c) calls -> c_sent c = false) ->
  (forall q c, In q (wreqs out) -> In (q, c) calls -> c_sent c = true) ->
  exists calls' inf' out', move_loop wqs calls inf out = Some (calls', inf', out') /\
    (inf' - Z.of_nat (nsent calls') = inf - Z.of_nat (nsent calls))%Z /\
    (forall q c, In q (wreqs out') -> In (q, c) calls' -> c_sent c = true).
Proof.
  induction wqs as [|[q|q] t IH]; cbn [move_loop]; intros calls inf out Hnd Hw Hu Ho.
  - exists calls, inf, out. auto.
  - cbn in Hw. inversion Hw as [|? ? Hni Hw']; subst.
    destruct (find q calls) as [c|] eqn:Ef.
    + assert (Hs : c_sent c = false) by (apply (Hu q c); [now left|now apply find_In]).
      rewrite Hs.
      destruct (IH (mark_sent q calls) (inf + 1)%Z (out ++ [WReq q])) as (calls' & inf' & out' & E & Hc & Hout).
      * rewrite <- (same_keys _ _ (mark_sent_same q calls)). assumption.
      * assumption.
      * intros k c0 Hk Hin. destruct (mark_sent_In _ _ _ _ Hin) as [[-> _]|[Hne Hin']]; [contradiction|].
        apply (Hu k c0); [now right|assumption].
      * intros k c0 Hk Hin. rewrite wreqs_app in Hk. apply in_app_iff in Hk.
        destruct (mark_sent_In _ _ _ _ Hin) as [[-> S1]|[Hne Hin']]; [assumption|].
        destruct Hk as [Hk|[E|[]]]; [eauto|congruence].
      * exists calls', inf', out'. split; [assumption|]. split; [|assumption].
        rewrite (nsent_mark _ _ _ Hnd Ef Hs) in Hc. lia.
    + apply IH; auto. intros k c0 Hk. apply Hu. now right.
  - apply IH; auto.
    + intros k c0 Hk. rewrite wreqs_app in Hk. cbn in Hk. rewrite app_nil_r in Hk. now apply Ho.
Qed.

Record InvB (s : sys) : Prop := {
  b_inf : cs_inFlight (cl s) = count_sent (cs_calls (cl s));
  b_wq_nodup : NoDup (wreqs (cs_writeQ (cl s)));
  b_wq_unsent : forall q c, In q (wreqs (cs_writeQ (cl s))) -> In (q, c) (cs_calls (cl s)) -> c_sent c = false;
  b_wq_log : forall q, In q (wreqs (cs_writeQ (cl s))) -> In q (keys (log s));
  b_net : forall q c, In q (keys (c2s s)) \/ In q (keys (handling s)) \/ In q (keys (s2c s)) ->
                      In (q, c) (cs_calls (cl s)) -> c_sent c = true;
  b_net_log : forall q, In q (keys (c2s s)) \/ In q (keys (handling s)) \/ In q (keys (s2c s)) -> In q (keys (log s))
}.

Lemma InvB_init : InvB sys_init.
Proof. constructor; cbn; try constructor; try tauto; try (intros; contradiction). Qed.

(* full effect of the client operations (calls, write queue, inFlight) *)

Lemma cl_cancel_spec : forall st q dp,
  match find q (cs_calls st) with
  | None => cl_cancel st q dp = Some (st, false)
  | Some c =>
    if c_sent c then
      ((cs_inFlight st - 1 <? 0)%Z = true /\ cl_cancel st q dp = None) \/
      ((cs_inFlight st - 1 <? 0)%Z = false /\ exists st', cl_cancel st q dp = Some (st', true) /\
         cs_calls st' = remove q (cs_calls st) /\ cs_inFlight st' = (cs_inFlight st - 1)%Z /\
         wreqs (cs_writeQ st') = wreqs (cs_writeQ st))
    else exists st', cl_cancel st q dp = Some (st', true) /\ cs_calls st' = remove q (cs_calls st) /\
         cs_inFlight st' = cs_inFlight st /\ cs_writeQ st' = cs_writeQ st
  end.
Proof.
  intros st q dp. unfold cl_cancel. destruct (find q (cs_calls st)) as [c|]; [|reflexivity].
  destruct (c_sent c); cbn [negb].
  - cbn. destruct (cs_inFlight st - 1 <? 0)%Z; [left; auto|right]. split; [reflexivity|].
    destruct (negb (cs_connUp st)); [eexists; repeat split|].
    destruct (cs_isShutdown st && _); [eexists; repeat split|].
    destruct (negb dp); eexists; repeat split. cbn. rewrite wreqs_app. cbn. now rewrite app_nil_r.
  - eexists; repeat split.
Qed.

Lemma cl_finish_spec : forall st q,
  match find q (cs_calls st) with
  | None => cl_finish st q = Some (st, None)
  | Some c =>
    ((cs_inFlight st - 1 <? 0)%Z = true /\ cl_finish st q = None) \/
    ((cs_inFlight st - 1 <? 0)%Z = false /\ exists st', cl_finish st q = Some (st', Some c) /\
       cs_calls st' = remove q (cs_calls st) /\ cs_inFlight st' = (cs_inFlight st - 1)%Z /\
       cs_writeQ st' = cs_writeQ st)
  end.
Proof.
  intros st q. unfold cl_finish. destruct (find q (cs_calls st)) as [c|]; [|reflexivity].
  cbn. destruct (cs_inFlight st - 1 <? 0)%Z; [left; auto|right]. split; [reflexivity|].
  destruct (cs_connUp st && cs_isShutdown st && _); eexists; repeat split.
Qed.

Lemma nsent_filter_keep : forall cl ex l, nsent (filter (mc_keep cl ex) l) = O.
Proof.
  intros cl ex l. unfold nsent. induction l as [|a t IH]; cbn; [reflexivity|].
  destruct (mc_keep cl ex a) eqn:E; [|exact IH]. cbn. unfold sentb at 1.
  unfold mc_keep in E. destruct (c_sent (snd a)); [discriminate|exact IH].
Qed.

Lemma wreqs_map_WReq : forall (l : list (N * crec)), wreqs (map (fun kc => WReq (fst kc)) l) = keys l.
Proof. induction l as [|a t IH]; [reflexivity|]. cbn [map wreqs flat_map app keys fst]. unfold wreqs, keys in IH. now rewrite IH. Qed.

Lemma nets_keys_app1 : forall {A} (l : list (N * A)) q v k, In k (keys (l ++ [(q, v)])) -> In k (keys l) \/ k = q.
Proof. intros A l q v k H. rewrite keys_app in H. apply in_app_iff in H. cbn in H. intuition. Qed.

Lemma InvB_step : forall s e, InvA s -> InvB s ->
  step s e <> SPanic /\ forall s', step s e = SOk s' -> InvB s'.
Proof.
  intros s e IA IB. destruct e; cbn [step].
  - (* ECall *)
    destruct ((q =? 0) || memN q (keys (log s))) eqn:Efresh; [split; [discriminate|discriminate]|].
    apply orb_false_iff in Efresh. destruct Efresh as [_ Hfresh].
    assert (Hnl : ~ In q (keys (log s))) by (intro F; apply memN_In in F; congruence).
    destruct (cl_setup (cl s) q fail b) as [c o] eqn:Es. split; [discriminate|]. intros s' H. inversion H; subst; clear H.
    destruct IA, IB.
    assert (Hnc : ~ In q (keys (cs_calls (cl s)))) by (intro F; apply Hnl; apply a_part0; now left).
    unfold cl_setup in Es. destruct (cs_closed (cl s)).
    { inversion Es; subst. constructor; ssimp; auto.
      - intros k Hk. rewrite keys_app. apply in_app_iff. left. auto.
      - intros k Hk. rewrite keys_app. apply in_app_iff. left. auto. }
    destruct (fail && cs_waiting (cl s)).
    { inversion Es; subst. constructor; ssimp; auto.
      - intros k Hk. rewrite keys_app. apply in_app_iff. left. auto.
      - intros k Hk. rewrite keys_app. apply in_app_iff. left. auto. }
    inversion Es; subst; clear Es. rewrite (remove_notin _ _ Hnc).
    constructor; ssimp; cbn [cs_calls cs_writeQ cs_inFlight set_calls set_writeQ].
    + rewrite b_inf0, !count_sent_nsent, nsent_app. cbn. lia.
    + rewrite wreqs_app. cbn. apply NoDup_app_intro; [assumption|repeat constructor; intros []|].
      intros x Hx [E|[]]. subst. apply Hnl. auto.
    + intros k c. rewrite wreqs_app, !in_app_iff. cbn. intros Hk [Hin|[E|[]]].
      * destruct Hk as [Hk|[E|[]]]; [eauto|]. subst. exfalso. apply Hnc. eapply in_keys; eauto.
      * inversion E; subst. reflexivity.
    + intros k. rewrite wreqs_app, keys_app, !in_app_iff. cbn. intros [Hk|[E|[]]]; [left; auto|right; now left].
    + intros k c Hk. rewrite in_app_iff. cbn. intros [Hin|[E|[]]]; [eauto|]. inversion E; subst. exfalso. apply Hnl. auto.
    + intros k Hk. rewrite keys_app. apply in_app_iff. left. auto.
  - (* EWrite *)
    destruct (cs_connUp (cl s) && negb (cs_isShutdown (cl s))); [|split; discriminate].
    destruct IA, IB. unfold cl_move.
    destruct (move_loop_ok (cs_writeQ (cl s)) (cs_calls (cl s)) (cs_inFlight (cl s)) [] a_calls0 b_wq_nodup0 b_wq_unsent0)
      as (calls' & inf' & out' & E & Hc & Hout); [intros ? ? []|].
    rewrite E. split; [discriminate|]. intros s' H. inversion H; subst; clear H.
    pose proof (move_loop_same _ _ _ _ _ _ _ E) as Hs.
    constructor; ssimp; cbn [cs_calls cs_writeQ cs_inFlight set_calls set_writeQ set_inFlight].
    + rewrite count_sent_nsent. rewrite b_inf0, count_sent_nsent in Hc. lia.
    + constructor.
    + intros ? ? [].
    + intros ? [].
    + intros k c Hk Hin. rewrite keys_app, in_app_iff in Hk.
      assert (Hold : In k (keys (c2s s)) \/ In k (keys (handling s)) \/ In k (keys (s2c s)) -> c_sent c = true).
      { intros Hn. destruct (same_In_r _ _ Hs _ _ Hin) as (c0 & A & _ & S0). apply S0. eapply b_net0; eauto. }
      destruct Hk as [[Hk|Hk]|Hk]; [tauto| |tauto].
      apply (Hout k c); [|assumption].
      unfold keys, bodies_of in Hk. apply in_map_iff in Hk. destruct Hk as ([k' b'] & Ek & Hk). cbn in Ek. subst k'.
      apply in_flat_map in Hk. destruct Hk as ([q0|q0] & Ho & Hk); [|contradiction].
      destruct (find q0 calls'); [|contradiction]. destruct Hk as [Ek|[]]. inversion Ek; subst.
      unfold wreqs. apply in_flat_map. exists (WReq k). split; [assumption|now left].
    + intros k Hk. rewrite keys_app, in_app_iff in Hk.
      destruct Hk as [[Hk|Hk]|Hk]; [auto| |auto].
      unfold keys, bodies_of in Hk. apply in_map_iff in Hk. destruct Hk as ([k' b'] & Ek & Hk). cbn in Ek. subst k'.
      apply in_flat_map in Hk. destruct Hk as ([q0|q0] & Ho & Hk); [|contradiction].
      destruct (find q0 calls') as [c0|] eqn:Ef; [|contradiction]. destruct Hk as [Ek|[]]. inversion Ek; subst.
      apply a_part0. left. rewrite (same_keys _ _ Hs). eapply find_Some_keys; eauto.
  - (* ESrvRecv *)
    destruct (find q (c2s s)) as [b|] eqn:Ef; [|split; discriminate]. split; [discriminate|].
    intros s' H. inversion H; subst; clear H. apply find_Some_keys in Ef. destruct IB.
    assert (Hn : forall k, In k (keys (remove q (c2s s))) \/ In k (keys (handling s ++ [(q, b)])) \/ In k (keys (s2c s)) ->
                           In k (keys (c2s s)) \/ In k (keys (handling s)) \/ In k (keys (s2c s))).
    { intros k [Hk|[Hk|Hk]]; [apply keys_remove in Hk; tauto| |tauto]. apply nets_keys_app1 in Hk. destruct Hk as [Hk | ->]; tauto. }
    constructor; ssimp; auto.
    + intros k c Hk. apply b_net0. auto.
  - (* ESrvReply *)
    destruct (find q (handling s)) as [b|] eqn:Ef; [|split; discriminate]. split; [discriminate|].
    intros s' H. inversion H; subst; clear H. apply find_Some_keys in Ef. destruct IB.
    assert (Hn : forall r k, In k (keys (c2s s)) \/ In k (keys (remove q (handling s))) \/ In k (keys (s2c s ++ [(q, r)])) ->
                           In k (keys (c2s s)) \/ In k (keys (handling s)) \/ In k (keys (s2c s))).
    { intros r k [Hk|[Hk|Hk]]; [tauto|apply keys_remove in Hk; tauto|]. apply nets_keys_app1 in Hk. destruct Hk as [Hk | ->]; tauto. }
    constructor; ssimp; eauto.
  - (* ECliRecv *)
    destruct (existsb _ (s2c s)) eqn:Ee; [|split; discriminate].
    apply existsb_exists in Ee. destruct Ee as ([q0 r0] & Hin & Hm). cbn in Hm. apply andb_true_iff in Hm.
    destruct Hm as [Hq _]. apply N.eqb_eq in Hq. subst q0. apply in_keys in Hin.
    destruct IA, IB. pose proof (cl_finish_spec (cl s) q) as Sp.
    destruct (find q (cs_calls (cl s))) as [c|] eqn:Ef.
    + assert (Hs : c_sent c = true) by (eapply b_net0; [right; right; eassumption|now apply find_In]).
      pose proof (nsent_remove _ _ _ a_calls0 Ef) as Hn. rewrite Hs in Hn.
      rewrite b_inf0, count_sent_nsent in Sp.
      destruct Sp as [[Hlt _]|(_ & st' & -> & Hc & Hi & Hw)]; [lia|].
      split; [discriminate|]. intros s' H. inversion H; subst; clear H.
      constructor; ssimp; rewrite ?Hc, ?Hi, ?Hw; auto.
      * rewrite ?b_inf0, ?count_sent_nsent. lia.
      * intros k c0 Hk Hc0. apply In_remove in Hc0. destruct Hc0. eauto.
      * intros k c0 Hk Hc0. apply In_remove in Hc0. destruct Hc0. eauto.
    + rewrite Sp. split; [discriminate|]. intros s' H. inversion H; subst; clear H. constructor; ssimp; auto.
  - (* ECliRecvUnknown *)
    destruct (find q (cs_calls (cl s))) eqn:Ef0; [split; discriminate|].
    pose proof (cl_finish_spec (cl s) q) as Sp. rewrite Ef0 in Sp. rewrite Sp.
    split; [discriminate|]. intros s' H. inversion H; subst; clear H. destruct IB. constructor; ssimp; auto.
  - (* ECancel *)
    destruct IA, IB. pose proof (cl_cancel_spec (cl s) q dp) as Sp.
    destruct (find q (cs_calls (cl s))) as [c|] eqn:Ef.
    + pose proof (nsent_remove _ _ _ a_calls0 Ef) as Hn.
      destruct (c_sent c) eqn:Hs.
      * rewrite b_inf0, count_sent_nsent in Sp.
        destruct Sp as [[Hlt _]|(_ & st' & -> & Hc & Hi & Hw)]; [lia|].
        split; [discriminate|]. intros s' H. inversion H; subst; clear H.
        constructor; ssimp; rewrite ?Hc, ?Hi, ?Hw; auto.
        -- rewrite ?b_inf0, ?count_sent_nsent. lia.
        -- intros k c0 Hk Hc0. apply In_remove in Hc0. destruct Hc0. eauto.
        -- intros k c0 Hk Hc0. apply In_remove in Hc0. destruct Hc0. eauto.
      * destruct Sp as (st' & -> & Hc & Hi & Hw).
        split; [discriminate|]. intros s' H. inversion H; subst; clear H.
        constructor; ssimp; rewrite ?Hc, ?Hi, ?Hw; auto.
        -- rewrite ?b_inf0, ?count_sent_nsent. lia.
        -- intros k c0 Hk Hc0. apply In_remove in Hc0. destruct Hc0. eauto.
        -- intros k c0 Hk Hc0. apply In_remove in Hc0. destruct Hc0. eauto.
    + rewrite Sp. split; [discriminate|]. intros s' H. inversion H; subst; clear H. constructor; ssimp; auto.
  - (* ETimeout *)
    destruct IA, IB. pose proof (cl_cancel_spec (cl s) q dp) as Sp.
    destruct (find q (cs_calls (cl s))) as [c|] eqn:Ef.
    + pose proof (nsent_remove _ _ _ a_calls0 Ef) as Hn.
      destruct (c_sent c) eqn:Hs.
      * rewrite b_inf0, count_sent_nsent in Sp.
        destruct Sp as [[Hlt _]|(_ & st' & -> & Hc & Hi & Hw)]; [lia|].
        split; [discriminate|]. intros s' H. inversion H; subst; clear H.
        constructor; ssimp; rewrite ?Hc, ?Hi, ?Hw; auto.
        -- rewrite ?b_inf0, ?count_sent_nsent. lia.
        -- intros k c0 Hk Hc0. apply In_remove in Hc0. destruct Hc0. eauto.
        -- intros k c0 Hk Hc0. apply In_remove in Hc0. destruct Hc0. eauto.
      * destruct Sp as (st' & -> & Hc & Hi & Hw).
        split; [discriminate|]. intros s' H. inversion H; subst; clear H.
        constructor; ssimp; rewrite ?Hc, ?Hi, ?Hw; auto.
        -- rewrite ?b_inf0, ?count_sent_nsent. lia.
        -- intros k c0 Hk Hc0. apply In_remove in Hc0. destruct Hc0. eauto.
        -- intros k c0 Hk Hc0. apply In_remove in Hc0. destruct Hc0. eauto.
    + rewrite Sp. split; [discriminate|]. intros s' H. inversion H; subst; clear H. constructor; ssimp; auto.
  - (* EConnect *)
    destruct (cs_connUp (cl s)); [split; discriminate|].
    unfold cl_setconn. destruct (cs_closed (cl s)); [split; discriminate|]. split; [discriminate|].
    intros s' H. inversion H; subst; clear H. destruct IB. constructor; ssimp; auto.
  - (* EDisconnect *)
    destruct IA, IB. unfold cl_disconnect, cl_masscancel.
    cbn [cs_inFlight cs_calls cs_closed set_connUp].
    rewrite b_inf0, Z.sub_diag. cbn [Z.ltb Z.compare].
    set (keep := mc_keep (cs_closed (cl s)) (fun q => memN q expired)).
    assert (HB : forall st', cs_calls st' = filter keep (cs_calls (cl s)) -> cs_inFlight st' = 0%Z ->
                   cs_writeQ st' = map (fun kc => WReq (fst kc)) (filter keep (cs_calls (cl s))) ->
                   forall ds, InvB (add_done (with_cl s st') ds)).
    { intros st' Hc Hi Hw ds. constructor; ssimp; rewrite ?Hc, ?Hi, ?Hw, ?wreqs_map_WReq.
      - rewrite count_sent_nsent. unfold keep. now rewrite nsent_filter_keep.
      - now apply NoDup_keys_filter.
      - intros k c _ Hin. apply filter_In in Hin. destruct Hin as [_ Hk]. unfold keep, mc_keep in Hk. cbn in Hk.
        destruct (c_sent c); [discriminate|reflexivity].
      - intros k Hk. apply a_part0. left. eapply keys_filter_incl; eauto.
      - intros k c Hk Hin. apply filter_In in Hin. destruct Hin as [Hin Hkeep].
        pose proof (b_net0 k c Hk Hin) as Hs. unfold keep, mc_keep in Hkeep. cbn in Hkeep. rewrite Hs in Hkeep. discriminate.
      - assumption. }
    destruct good; (split; [discriminate|]); intros s' H; inversion H; subst; clear H; apply HB; reflexivity.
  - (* ESrvFin *)
    split; [discriminate|]. intros s' H. inversion H; subst; clear H. destruct IB.
    assert (Hc : cs_calls (cl_shutdown (cl s)) = cs_calls (cl s) /\ cs_writeQ (cl_shutdown (cl s)) = cs_writeQ (cl s) /\
                 cs_inFlight (cl_shutdown (cl s)) = cs_inFlight (cl s)).
    { unfold cl_shutdown. destruct (negb (cs_connUp (cl s)) || cs_isShutdown (cl s)); [auto|].
      cbn. destruct (negb (cs_inFlight (cl s) =? 0)%Z); auto. }
    destruct Hc as (H1 & H2 & H3). constructor; ssimp; rewrite ?H1, ?H2, ?H3; auto.
  - (* ECloseClient *)
    split; [discriminate|]. intros s' H. inversion H; subst; clear H. destruct IB. constructor; ssimp; auto.
Qed.

(** no_panic: none of the "rpc.Client invariant violation" panics of client_conn.go
    (inFlight < 0, double sent) is reachable, whatever the interleaving. *)
Theorem no_panic : forall evs, run sys_init evs <> SPanic.
Proof.
  assert (G : forall evs s, InvA s -> InvB s -> run s evs <> SPanic).
  { induction evs as [|e t IH]; cbn; intros s IA IB; [discriminate|].
    destruct (InvB_step s e IA IB) as [Hnp Hok].
    destruct (step s e) as [s1| |] eqn:E; [|discriminate|congruence].
    apply IH; [eapply InvA_step; eauto|auto]. }
  intro evs. apply G; [apply InvA_init|apply InvB_init].
Qed.

(** inFlight always equals the number of sent pending calls *)
Theorem inflight_exact : forall evs s, run sys_init evs = SOk s ->
  cs_inFlight (cl s) = count_sent (cs_calls (cl s)).
Proof.
  assert (G : forall evs s s', InvA s -> InvB s -> run s evs = SOk s' -> InvB s').
  { induction evs as [|e t IH]; cbn; intros s s' IA IB H; [inversion H; subst; assumption|].
    destruct (step s e) as [s1| |] eqn:E; try discriminate.
    eapply IH; [eapply InvA_step; eauto|eapply InvB_step; eauto|assumption]. }
  intros evs s H. apply (G evs sys_init s InvA_init InvB_init H).
Qed.

(* ------------------------------------------------------------ soundness of the monitor *)

Lemma run_app_intro : forall e1 e2 s s1 s2, run s e1 = SOk s1 -> run s1 e2 = SOk s2 -> run s (e1 ++ e2) = SOk s2.
Proof.
  induction e1 as [|e t IH]; cbn; intros e2 s s1 s2 H1 H2; [inversion H1; subst; assumption|].
  destruct (step s e) eqn:E; try discriminate. eauto.
Qed.

Definition mext (m m' : mstate) : Prop :=
  exists evs, run (m_sys m) evs = SOk (m_sys m') /\ m_evs m' = rev evs ++ m_evs m.

Lemma mext_refl : forall m, mext m m.
Proof. intro m. exists []. split; reflexivity. Qed.

Lemma mext_trans : forall a b c, mext a b -> mext b c -> mext a c.
Proof.
  intros a b c (e1 & R1 & E1) (e2 & R2 & E2). exists (e1 ++ e2). split; [eapply run_app_intro; eauto|].
  rewrite E2, E1, rev_app_distr, app_assoc. reflexivity.
Qed.

Lemma apply_evs_spec : forall m evs m', apply_evs m evs = Some m' ->
  mext m m' /\ m_info m' = m_info m /\ m_closeC m' = m_closeC m /\ m_closeS m' = m_closeS m.
Proof.
  intros m evs m' H. unfold apply_evs in H. destruct (run (m_sys m) evs) as [s| |] eqn:E; try discriminate.
  inversion H; subst; clear H. cbn. repeat split. exists evs. cbn. auto.
Qed.

Lemma set_info_ext : forall m q ci, mext m (set_info m q ci).
Proof. intros. exists []. split; reflexivity. Qed.

Lemma find_app_l : forall {A} (l d : list (N * A)) q v, find q l = Some v -> find q (l ++ d) = Some v.
Proof.
  induction l as [|[k x] t IH]; cbn; intros d q v H; [discriminate|].
  destruct (k =? q); [assumption|auto].
Qed.

Lemma done_matches_mono : forall m m' q k b, mext m m' ->
  done_matches (m_sys m) q k b = true -> done_matches (m_sys m') q k b = true.
Proof.
  intros m m' q k b (evs & R & _) H. destruct (run_done_mono _ _ _ R) as [d Ed].
  unfold done_matches in *. rewrite Ed. destruct (find q (done (m_sys m))) as [o|] eqn:E; [|discriminate].
  now rewrite (find_app_l _ d _ _ E).
Qed.

Lemma start_call_spec : forall m q ci m', start_call m q ci = Some m' ->
  mext m m' /\ m_closeC m' = m_closeC m /\ m_closeS m' = m_closeS m /\
  exists ci', m_info m' = (q, ci') :: remove q (m_info m) /\ ci_b ci' = ci_b ci /\ ci_done ci' = ci_done ci.
Proof.
  intros m q ci m' H. unfold start_call in H.
  destruct (apply_evs m _) as [m1|] eqn:E1; [|discriminate].
  destruct (apply_evs m1 _) as [m2|] eqn:E2; [|discriminate]. inversion H; subst; clear H.
  destruct (apply_evs_spec _ _ _ E1) as (X1 & I1 & C1 & S1). destruct (apply_evs_spec _ _ _ E2) as (X2 & I2 & C2 & S2).
  split; [eapply mext_trans; [exact X1|]; eapply mext_trans; [exact X2|apply set_info_ext]|].
  cbn. rewrite C2, C1, S2, S1, I2, I1. repeat split. eexists. split; [reflexivity|]. cbn. auto.
Qed.

(** how one accepted observed event changes the monitor state *)
Definition info_step (e : oevent) (i i' : list (N * cinfo)) : Prop :=
  i' = i \/
  exists q ci', i' = (q, ci') :: remove q i /\
    ((exists ci, find q i = Some ci /\ ci_b ci' = ci_b ci /\
                 (ci_done ci' = true -> ci_done ci = true \/ exists k b, e = ODone q k b)) \/
     (find q i = None /\ ci_done ci' = false /\ exists f t, e = OCall q (ci_b ci') f t)).

Ltac destr H :=
  match type of H with
  | context [match ?x with _ => _ end] => let E := fresh "E" in destruct x eqn:E; try discriminate H
  end.

Ltac use_specs :=
  repeat match goal with
  | E : apply_evs _ _ = Some _ |- _ => apply apply_evs_spec in E; destruct E as (? & ? & ? & ?)
  | E : start_call _ _ _ = Some _ |- _ => apply start_call_spec in E; destruct E as (? & ? & ? & ? & ? & ? & ?)
  end.

Lemma mon_step_shape : forall finals m e m', mon_step finals m e = Some m' ->
  mext m m' /\ info_step e (m_info m) (m_info m') /\
  (forall q k b, e = ODone q k b -> k = KOk \/ k = KSrvErr ->
     done_matches (m_sys m') q k b = true /\ exists ci, find q (m_info m) = Some ci /\ ci_b ci = b) /\
  (forall q b f t, e = OCall q b f t -> In q (keys (m_info m'))).
Proof.
  intros finals m e m' H. destruct e; cbn [mon_step] in H.
  - (* OCall *)
    destruct (find q (m_info m)) eqn:Ef; [discriminate|]. destruct (q =? 0); [discriminate|].
    assert (G : forall ci0 m0, m_info m0 = (q, ci0) :: remove q (m_info m) -> ci_b ci0 = b -> ci_done ci0 = false -> mext m m0 ->
      mext m m0 /\ info_step (OCall q b fail tmo) (m_info m) (m_info m0) /\
      (forall q0 k b0, OCall q b fail tmo = ODone q0 k b0 -> k = KOk \/ k = KSrvErr ->
         done_matches (m_sys m0) q0 k b0 = true /\ exists ci, find q0 (m_info m) = Some ci /\ ci_b ci = b0) /\
      (forall q0 b0 f t, OCall q b fail tmo = OCall q0 b0 f t -> In q0 (keys (m_info m0)))).
    { intros ci0 m0 Hi Hb Hd Hx. split; [assumption|]. split; [|split].
      - right. exists q, ci0. split; [assumption|]. right. subst b. eauto.
      - intros ? ? ? Hc. discriminate Hc.
      - intros q0 b0 f t Hc. inversion Hc; subst. rewrite Hi. now left. }
    assert (Hr : remove q (remove q (m_info m)) = remove q (m_info m))
      by (apply remove_notin; intro F; apply keys_remove in F; tauto).
    destruct (finals q) as [[]|];
      first [ apply start_call_spec in H; destruct H as (X & _ & _ & ci' & Hi & Hb & Hd);
              cbn [m_info set_info remove ci_b ci_done] in Hi, Hb, Hd; rewrite N.eqb_refl in Hi; rewrite Hr in Hi;
              apply (G ci'); [exact Hi|assumption|assumption|eapply mext_trans; [apply (set_info_ext m q)|exact X]]
            | inversion H; subst; clear H;
              apply (G {| ci_b := b; ci_fail := fail; ci_tmo := tmo; ci_cancel := false; ci_started := false; ci_done := false |});
              [reflexivity|reflexivity|reflexivity|apply set_info_ext] ].
  - (* OSrv *)
    repeat destr H. inversion H; subst; clear H. use_specs.
    split; [assumption|]. split; [left; congruence|]. split; [intros ? ? ? Hc; discriminate Hc|intros ? ? ? ? Hc; discriminate Hc].
  - (* OCancelReq *)
    destruct (find q (m_info m)) as [ci|] eqn:Ef; [|discriminate]. inversion H; subst; clear H.
    split; [apply set_info_ext|]. split; [|split; [intros ? ? ? Hc; discriminate Hc|intros ? ? ? ? Hc; discriminate Hc]].
    right. eexists q, _. split; [reflexivity|]. left. exists ci. cbn. auto.
  - (* ODone *)
    destruct (find q (m_info m)) as [ci|] eqn:Ef; [|discriminate].
    destruct (ci_done ci) eqn:Ed; [discriminate|].
    assert (G : forall m1, mext m m1 -> m_info m1 = m_info m ->
      (k = KOk \/ k = KSrvErr -> done_matches (m_sys m1) q k b = true /\ ci_b ci = b) ->
      let m2 := set_info m1 q {| ci_b := ci_b ci; ci_fail := ci_fail ci; ci_tmo := ci_tmo ci;
                                 ci_cancel := ci_cancel ci; ci_started := true; ci_done := true |} in
      mext m m2 /\ info_step (ODone q k b) (m_info m) (m_info m2) /\
      (forall q0 k0 b0, ODone q k b = ODone q0 k0 b0 -> k0 = KOk \/ k0 = KSrvErr ->
         done_matches (m_sys m2) q0 k0 b0 = true /\ exists ci0, find q0 (m_info m) = Some ci0 /\ ci_b ci0 = b0) /\
      (forall q0 b0 f t, ODone q k b = OCall q0 b0 f t -> In q0 (keys (m_info m2)))).
    { intros m1 X Hi Hm m2. split; [eapply mext_trans; [exact X|apply set_info_ext]|]. split; [|split].
      - right. eexists q, _. split; [unfold m2; cbn; now rewrite Hi|]. left. exists ci. cbn. repeat split; auto. intros _. right. eauto.
      - intros q0 k0 b0 Hc Hk. inversion Hc; subst. destruct (Hm Hk) as [A B]. split; [exact A|eauto].
      - intros ? ? ? ? Hc. discriminate Hc. }
    destruct k; repeat destr H; inversion H; subst; clear H; use_specs;
      try (apply G; [first [assumption | apply mext_refl] | first [assumption | reflexivity] |
                     intros [Hk|Hk]; try discriminate Hk;
                     repeat match goal with
                            | E : (_ && _) = true |- _ => apply andb_true_iff in E; destruct E
                            | E : (_ =? _) = true |- _ => apply N.eqb_eq in E
                            end; split; congruence]).
  - (* OCloseClient *)
    inversion H; subst; clear H. split; [exists []; split; reflexivity|]. split; [now left|].
    split; [intros ? ? ? Hc; discriminate Hc|intros ? ? ? ? Hc; discriminate Hc].
  - (* OCloseServer *)
    inversion H; subst; clear H. split; [exists []; split; reflexivity|]. split; [now left|].
    split; [intros ? ? ? Hc; discriminate Hc|intros ? ? ? ? Hc; discriminate Hc].
Qed.

Record MInv (m : mstate) (hp : list oevent) : Prop := {
  mi_run : run sys_init (rev (m_evs m)) = SOk (m_sys m);
  mi_info : forall q ci, In (q, ci) (m_info m) -> exists f t, In (OCall q (ci_b ci) f t) hp;
  mi_done : forall q k b, In (ODone q k b) hp -> k = KOk \/ k = KSrvErr ->
              done_matches (m_sys m) q k b = true /\ exists f t, In (OCall q b f t) hp;
  mi_calls : forall q b f t, In (OCall q b f t) hp -> In q (keys (m_info m));
  mi_ret : forall q ci, In (q, ci) (m_info m) -> ci_done ci = true -> exists k b, In (ODone q k b) hp
}.

Lemma MInv_init : MInv m_init [].
Proof. constructor; cbn; try reflexivity; intros; contradiction. Qed.

Lemma MInv_step : forall finals m e m' hp, mon_step finals m e = Some m' -> MInv m hp -> MInv m' (hp ++ [e]).
Proof.
  intros finals m e m' hp H I. destruct (mon_step_shape _ _ _ _ H) as (X & Hinfo & Hd & Hc). destruct I.
  assert (Hold : forall x, In x hp -> In x (hp ++ [e])) by (intros; apply in_app_iff; now left).
  assert (Hnew : In e (hp ++ [e])) by (apply in_app_iff; right; now left).
  constructor.
  - destruct X as (evs & R & E). rewrite E, rev_app_distr, rev_involutive. eapply run_app_intro; eauto.
  - intros q ci Hin. destruct Hinfo as [Ei|(q0 & ci' & Ei & Hcase)]; rewrite Ei in *.
    + destruct (mi_info0 _ _ Hin) as (f & t & Hf). eauto.
    + destruct Hin as [E|Hin].
      * inversion E; subst. destruct Hcase as [(ci0 & Hf & Hb & _)|(_ & _ & f & t & ->)].
        -- apply find_In in Hf. destruct (mi_info0 _ _ Hf) as (f & t & Hx). rewrite Hb. eauto.
        -- eauto.
      * apply In_remove in Hin. destruct Hin as [Hin _]. destruct (mi_info0 _ _ Hin) as (f & t & Hf). eauto.
  - intros q k b Hin Hk. apply in_app_iff in Hin. destruct Hin as [Hin|[Ee|[]]].
    + destruct (mi_done0 _ _ _ Hin Hk) as (A & f & t & B). split; [eapply done_matches_mono; eauto|eauto].
    + subst e. destruct (Hd _ _ _ eq_refl Hk) as (A & ci & Hf & Hb). split; [assumption|].
      apply find_In in Hf. destruct (mi_info0 _ _ Hf) as (f & t & Hx). rewrite Hb in Hx. eauto.
  - intros q b f t Hin. apply in_app_iff in Hin. destruct Hin as [Hin|[Ee|[]]]; [|subst e; eauto].
    pose proof (mi_calls0 _ _ _ _ Hin) as Hk. destruct Hinfo as [Ei|(q0 & ci' & Ei & _)]; rewrite Ei; [assumption|].
    cbn. destruct (N.eq_dec q0 q) as [->|Hne]; [now left|right]. apply keys_remove. split; [assumption|congruence].
  - intros q ci Hin Hdone. destruct Hinfo as [Ei|(q0 & ci' & Ei & Hcase)]; rewrite Ei in *.
    + destruct (mi_ret0 _ _ Hin Hdone) as (k & b & Hx). eauto.
    + destruct Hin as [E|Hin].
      * inversion E; subst. destruct Hcase as [(ci0 & Hf & _ & Hdd)|(_ & Hnd & _)]; [|congruence].
        destruct (Hdd Hdone) as [Hd0|(k & b & ->)]; [|eauto].
        apply find_In in Hf. destruct (mi_ret0 _ _ Hf Hd0) as (k & b & Hx). eauto.
      * apply In_remove in Hin. destruct Hin as [Hin _]. destruct (mi_ret0 _ _ Hin Hdone) as (k & b & Hx). eauto.
Qed.

Lemma MInv_run : forall finals h m i m' hp, mon_run finals m h i = inl m' -> MInv m hp -> MInv m' (hp ++ h).
Proof.
  induction h as [|e t IH]; cbn; intros m i m' hp H I; [inversion H; subst; now rewrite app_nil_r|].
  destruct (mon_step finals m e) as [m1|] eqn:E; [|discriminate].
  replace (hp ++ e :: t) with ((hp ++ [e]) ++ t) by (now rewrite <- app_assoc).
  eapply IH; [eassumption|eapply MInv_step; eauto].
Qed.

(** Soundness of the monitor: an accepted history is explained by a run of the model in which every observed
    answer (result or handler error) of a call [q] is the completion of [q] in the model and carries the body id
    the call was started with; and every observed call returned.  Together with [own_response] (the model
    completes a call only with the answer to its own request) this is trace inclusion + own-response for the
    observed history. *)
Theorem accepts_sound : forall h, accepts h = true ->
  exists evs s, run sys_init evs = SOk s /\
    (forall q k b, In (ODone q k b) h -> k = KOk \/ k = KSrvErr ->
       (exists f t, In (OCall q b f t) h) /\
       (exists o, In (q, o) (done s) /\ outcome_class o = k /\ outcome_body o = b) /\
       (exists fail, In (ECall q b fail) evs)) /\
    (forall q b f t, In (OCall q b f t) h -> exists k b', In (ODone q k b') h).
Proof.
  intros h H. unfold accepts in H.
  destruct (mon_run (final_kind h) m_init h 0) as [m|] eqn:E; [|discriminate].
  pose proof (MInv_run _ _ _ _ _ _ E MInv_init) as I. cbn in I. destruct I.
  exists (rev (m_evs m)), (m_sys m). split; [assumption|]. split.
  - intros q k b Hin Hk. destruct (mi_done0 _ _ _ Hin Hk) as (A & Hcall). split; [assumption|].
    unfold done_matches in A. destruct (find q (done (m_sys m))) as [o|] eqn:Ef; [|discriminate].
    apply andb_true_iff in A. destruct A as [A1 A2]. apply N.eqb_eq in A2.
    assert (Hc : outcome_class o = k) by (destruct (outcome_class o), k; cbn in A1; congruence).
    apply find_In in Ef. split; [eauto|].
    assert (Hb : out_body o = Some b).
    { destruct Hk; subst k; destruct o; cbn in Hc; try discriminate; cbn in A2; subst; reflexivity. }
    destruct (own_response _ _ _ _ _ mi_run0 Ef Hb) as [Hx _]. exact Hx.
  - intros q b f t Hin. pose proof (mi_calls0 _ _ _ _ Hin) as Hk.
    unfold keys in Hk. apply in_map_iff in Hk. destruct Hk as ([q' ci] & Eq & Hci). cbn in Eq. subst q'.
    unfold all_returned in H. rewrite forallb_forall in H. specialize (H _ Hci). cbn in H. eauto.
Qed.

(* ------------------------------------------------------------ recycled Responses carry no pending result *)

Lemma removeN_In : forall l w x, In x (removeN w l) <-> In x l /\ x <> w.
Proof.
  intros l w x. unfold removeN. rewrite filter_In. split; intros [A B]; split; auto.
  - apply negb_true_iff in B. apply N.eqb_neq in B. assumption.
  - apply negb_true_iff. now apply N.eqb_neq.
Qed.

Lemma skipn_app_len : forall {A} (a d : list A), skipn (length a) (a ++ d) = d.
Proof. induction a; cbn; auto. Qed.

Record RInv (r : rsys) : Prop := {
  ri_a : InvA (r_sys r);
  ri_ret : forall q, In q (r_ret r) -> In q (keys (done (r_sys r)));
  ri_chan : forall q, In q (r_chan r) -> In q (keys (done (r_sys r)));
  ri_clean : forall q, In q (r_ret r) -> ~ In q (r_chan r)
}.

Lemma RInv_init : RInv rsys_init.
Proof. constructor; cbn; try apply InvA_init; intros; contradiction. Qed.

(** one step of the underlying system: the new completions are of calls that were not completed before *)
Lemma step_new_done : forall s e s', InvA s -> step s e = SOk s' ->
  done s' = done s ++ new_done s s' /\ forall q, In q (keys (new_done s s')) -> ~ In q (keys (done s)).
Proof.
  intros s e s' I H. destruct (step_done_mono _ _ _ H) as [d Ed]. unfold new_done. rewrite Ed, skipn_app_len.
  split; [reflexivity|]. intros q Hq Hd.
  pose proof (InvA_step _ _ _ I H) as I'. destruct I' as [_ _ Hnd _ _ _ _ _ _ _]. rewrite Ed, keys_app in Hnd.
  clear - Hnd Hq Hd. induction (keys (done s)) as [|a t IH]; cbn in *; [contradiction|].
  inversion Hnd as [|? ? Hni Hnd']; subst. destruct Hd as [->|Hd]; [apply Hni; apply in_app_iff; now right|auto].
Qed.

Lemma RInv_base : forall r e s', RInv r -> step (r_sys r) e = SOk s' ->
  InvA s' /\ (forall q, In q (keys (done (r_sys r))) -> In q (keys (done s'))) /\
  (forall q, In q (keys (new_done (r_sys r) s')) -> In q (keys (done s')) /\ ~ In q (r_ret r) /\ ~ In q (r_chan r)).
Proof.
  intros r e s' [Ia Hr Hc Hcl] H. destruct (step_new_done _ _ _ Ia H) as [Ed Hnew].
  split; [eapply InvA_step; eauto|]. split.
  - intros q Hq. rewrite Ed, keys_app. apply in_app_iff. now left.
  - intros q Hq. split; [rewrite Ed, keys_app; apply in_app_iff; now right|].
    split; intro F; apply (Hnew q Hq); auto.
Qed.

Lemma cancel_not_pending : forall s q dp s',
  step s (ECancel q dp) = SOk s' \/ step s (ETimeout q dp) = SOk s' -> ~ In q (keys (cs_calls (cl s'))).
Proof.
  intros s q dp s' [H|H]; cbn [step] in H;
    (destruct (cl_cancel (cl s) q dp) as [[c found]|] eqn:Ec; [|discriminate];
     destruct (cl_cancel_calls _ _ _ _ _ Ec) as [(-> & -> & Hf)|(-> & Hcc & _)]; inversion H; subst; cbn).
  - now apply find_None_keys.
  - rewrite Hcc. intro F. apply keys_remove in F. tauto.
  - now apply find_None_keys.
  - rewrite Hcc. intro F. apply keys_remove in F. tauto.
Qed.

Lemma RInv_step : forall r e r', RInv r -> rstep r e = Some r' -> RInv r'.
Proof.
  intros r e r' I H. destruct e as [e0|q|q tmo dp]; cbn [rstep] in H.
  - assert (G : forall s', step (r_sys r) e0 = SOk s' ->
              RInv {| r_sys := s'; r_chan := r_chan r ++ keys (new_done (r_sys r) s'); r_ret := r_ret r |}).
    { intros s' Hs. destruct (RInv_base _ _ _ I Hs) as (Ia' & Hmono & Hnew). destruct I as [Ia Hr Hc Hcl].
      constructor; cbn; auto.
      - intros q Hq. apply in_app_iff in Hq. destruct Hq as [Hq|Hq]; [auto|apply Hnew; assumption].
      - intros q Hq Hq2. apply in_app_iff in Hq2. destruct Hq2 as [Hq2|Hq2]; [eapply Hcl; eauto|].
        destruct (Hnew q Hq2) as (_ & F & _). contradiction. }
    destruct e0; try discriminate;
      try (destruct (step (r_sys r) _) as [s'| |] eqn:Hs; [|discriminate|discriminate]; inversion H; subst; now apply G).
    (* ECall *)
    destruct (step (r_sys r) (ECall q b fail)) as [s'| |] eqn:Hs; [|discriminate|discriminate]. inversion H; subst; clear H.
    destruct (RInv_base _ _ _ I Hs) as (Ia' & Hmono & Hnew). destruct I as [Ia Hr Hc Hcl].
    constructor; cbn; auto.
    + intros k Hk. apply in_app_iff in Hk. destruct Hk as [Hk|Hk]; [apply Hnew; assumption|auto].
    + intros k Hk Hk2. apply in_app_iff in Hk. destruct Hk as [Hk|Hk]; [|eapply Hcl; eauto].
      destruct (Hnew k Hk) as (_ & _ & F). contradiction.
  - destruct (memN q (r_chan r) && negb (memN q (r_ret r))) eqn:E; [|discriminate]. inversion H; subst; clear H.
    apply andb_true_iff in E. destruct E as [E1 _]. apply memN_In in E1. destruct I as [Ia Hr Hc Hcl].
    constructor; cbn; auto.
    + intros k [<-|Hk]; auto.
    + intros k Hk. apply removeN_In in Hk. destruct Hk. auto.
    + intros k [<-|Hk] Hk2; apply removeN_In in Hk2; destruct Hk2 as [Hk2 Hne]; [congruence|eapply Hcl; eauto].
  - destruct (memN q (keys (log (r_sys r))) && negb (memN q (r_ret r))) eqn:E; [|discriminate].
    apply andb_true_iff in E. destruct E as [E1 _]. apply memN_In in E1.
    destruct (step (r_sys r) (if tmo then ETimeout q dp else ECancel q dp)) as [s'| |] eqn:Hs; [|discriminate|discriminate].
    inversion H; subst; clear H.
    destruct (RInv_base _ _ _ I Hs) as (Ia' & Hmono & Hnew). destruct I as [Ia Hr Hc Hcl].
    (* after cancelCall the call is not pending, hence (it was started) it is completed *)
    assert (Hlog : log s' = log (r_sys r)).
    { rewrite (step_log _ _ _ Hs). destruct tmo; cbn; now rewrite app_nil_r. }
    assert (Hnp : ~ In q (keys (cs_calls (cl s')))) by (eapply cancel_not_pending; destruct tmo; eauto).
    assert (Hdone : In q (keys (done s'))).
    { destruct Ia' as [_ _ _ Hpart _ _ _ _ _ _]. rewrite <- Hlog in E1. apply Hpart in E1. tauto. }
    constructor; cbn; auto.
    + intros k [<-|Hk]; auto.
    + intros k Hk. apply removeN_In in Hk. destruct Hk. auto.
    + intros k [<-|Hk] Hk2; apply removeN_In in Hk2; destruct Hk2 as [Hk2 Hne]; [congruence|eapply Hcl; eauto].
Qed.

Lemma RInv_run : forall evs r r', RInv r -> rrun r evs = Some r' -> RInv r'.
Proof.
  induction evs as [|e t IH]; cbn; intros r r' I H; [inversion H; subst; assumption|].
  destruct (rstep r e) eqn:E; [|discriminate]. eapply IH; [eapply RInv_step; eauto|assumption].
Qed.

(** pool_clean: whatever the interleaving, once Do has returned for a call (so that its Response may be recycled
    by PutResponse), the result channel of that Response is empty, and no result can arrive later: the call is
    not pending, and results are delivered to pending calls only. *)
Theorem pool_clean : forall evs r, rrun rsys_init evs = Some r ->
  forall q, In q (r_ret r) -> ~ In q (r_chan r) /\ ~ In q (keys (cs_calls (cl (r_sys r)))).
Proof.
  intros evs r H q Hq. destruct (RInv_run _ _ _ RInv_init H) as [Ia Hr Hc Hcl]. split; [auto|].
  intro F. destruct Ia as [_ _ _ _ Hdisj _ _ _ _ _]. eapply Hdisj; eauto.
Qed.
