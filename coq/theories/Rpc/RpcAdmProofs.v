(** Proofs about the Admission model (C39): worker pool (Get/Put/GC/Close) and request memory accounting. *)
From Coq Require Import NArith ZArith List Bool Lia ZifyN ZifyNat ZifyBool.
From TLV Require Import Rpc.RpcModel Rpc.RpcProofs.
Import ListNotations.
Open Scope N_scope.
Ltac Zify.zify_post_hook ::= Z.div_mod_to_equations.

(* ============================================================ C39: worker pool *)

Open Scope Z_scope.

(** handed-out workers + free workers never exceed [created], and [created] never exceeds the limit *)
Record WInv (s : wp_sys) : Prop := {
  w_count : Z.of_nat (length (ws_busy s) + length (wp_free (ws_pool s))) <= wp_created (ws_pool s);
  w_limit : wp_created (ws_pool s) <= wp_create (ws_pool s);
  w_closed : wp_closed (ws_pool s) = true -> wp_free (ws_pool s) = []
}.

Lemma WInv_init : forall create, WInv (ws_init create).
Proof.
  intro create. constructor; cbn; try reflexivity; try lia.
  destruct (create <? 1) eqn:E; lia.
Qed.

Lemma filter_len_le : forall {A} (f : A -> bool) l, (length (filter f l) <= length l)%nat.
Proof. induction l as [|a t IH]; cbn; [lia|]. destruct (f a); cbn; lia. Qed.

Lemma removeN_length_lt : forall l w, In w l -> (length (removeN w l) < length l)%nat.
Proof.
  induction l as [|a t IH]; cbn; intros w Hin; [contradiction|].
  destruct (a =? w)%N eqn:E; cbn.
  - pose proof (filter_len_le (fun x => negb (x =? w)%N) t). unfold removeN. lia.
  - destruct Hin as [->|Hin]; [rewrite N.eqb_refl in E; discriminate|]. specialize (IH _ Hin). unfold removeN in *. lia.
Qed.

Lemma WInv_step : forall dur s o s', WInv s -> ws_step dur s o = Some s' -> WInv s'.
Proof.
  intros dur s o s' I H. destruct I as [Hc Hl Hcl]. destruct s as [[closed free created create] busy next].
  cbn [ws_pool ws_busy ws_next wp_closed wp_free wp_created wp_create] in *.
  destruct o; cbn [ws_step ws_pool ws_busy ws_next] in H.
  - (* Get *)
    unfold wp_get in H. cbn [wp_closed wp_free wp_created wp_create] in H.
    destruct (negb (closed || negb (length free =? 0)%nat || (created <? create))) eqn:Ew.
    { inversion H; subst. constructor; cbn; auto. }
    destruct closed.
    { inversion H; subst. constructor; cbn; auto. }
    destruct (rev free) as [|[w g] r] eqn:Er.
    + assert (free = []) by (apply (f_equal (@rev _)) in Er; rewrite rev_involutive in Er; exact Er). subst free.
      cbn in Ew. rewrite negb_false_iff in Ew. apply Z.ltb_lt in Ew.
      inversion H; subst; clear H. constructor; cbn in *; try lia; auto.
    + assert (Efree : free = rev r ++ [(w, g)]).
      { apply (f_equal (@rev _)) in Er. rewrite rev_involutive in Er. exact Er. }
      inversion H; subst; clear H. constructor; cbn in *; auto; [|discriminate].
      rewrite app_length in Hc. cbn in Hc. lia.
  - (* Put *)
    destruct (memN w busy) eqn:Eb; [|discriminate]. apply memN_In in Eb.
    pose proof (removeN_length_lt _ _ Eb) as Hlen.
    unfold wp_put in H. cbn [wp_closed] in H. destruct closed.
    + inversion H; subst; clear H. rewrite (Hcl eq_refl) in *. constructor; cbn in *; auto; lia.
    + unfold wp_gc in H. cbn [wp_free wp_closed wp_created wp_create] in H.
      destruct free as [|[w0 g0] r].
      * inversion H; subst; clear H. constructor; cbn in *; try lia; discriminate.
      * destruct (g0 <? now)%N; inversion H; subst; clear H; constructor; cbn in *; try discriminate;
          rewrite ?app_length; cbn; lia.
  - (* GC *)
    unfold wp_gc in H. cbn [wp_free] in H. destruct free as [|[w0 g0] r]; [inversion H; subst; constructor; cbn; auto|].
    destruct (g0 <? now)%N; inversion H; subst; clear H; constructor; cbn in *; auto; try lia.
    intros E. specialize (Hcl E). discriminate.
  - (* Close *)
    inversion H; subst; clear H. constructor; cbn in *; auto; lia.
Qed.

Lemma WInv_run : forall dur ops s s', WInv s -> ws_run dur s ops = Some s' -> WInv s'.
Proof.
  induction ops as [|o t IH]; cbn; intros s s' I H; [inversion H; subst; assumption|].
  destruct (ws_step dur s o) eqn:E; [|discriminate]. eapply IH; [eapply WInv_step; eauto|assumption].
Qed.

Lemma ws_step_create : forall dur s o s', ws_step dur s o = Some s' -> wp_create (ws_pool s') = wp_create (ws_pool s).
Proof.
  intros dur s o s' H. destruct o; cbn [ws_step] in H.
  - unfold wp_get in H. destruct (negb _); [inversion H; reflexivity|]. destruct (wp_closed _); [inversion H; reflexivity|].
    destruct (rev _) as [|[w g] r]; inversion H; reflexivity.
  - destruct (memN _ _); [|discriminate]. unfold wp_put, wp_gc in H. destruct (wp_closed _); [inversion H; reflexivity|].
    destruct (wp_free _) as [|[w0 g0] r]; [inversion H; reflexivity|]. destruct (g0 <? now)%N; inversion H; reflexivity.
  - unfold wp_gc in H. destruct (wp_free _) as [|[w0 g0] r]; [inversion H; reflexivity|]. destruct (g0 <? now)%N; inversion H; reflexivity.
  - inversion H; reflexivity.
Qed.

(** worker_limit: after ANY sequence of Get / Put / GC / Close (Put only of handed-out workers, as server.go does),
    the number of workers handed out -- an upper bound of the handlers running on pool workers -- is at most
    [created], and [created] is at most the configured limit max(1, MaxWorkers). *)
Theorem worker_limit : forall dur create ops s, ws_run dur (ws_init create) ops = Some s ->
  Z.of_nat (length (ws_busy s)) <= wp_created (ws_pool s) /\
  wp_created (ws_pool s) <= wp_create (ws_pool s) /\
  wp_create (ws_pool s) = Z.max 1 create.
Proof.
  intros dur create ops s H. pose proof (WInv_run _ _ _ _ (WInv_init create) H) as [Hc Hl _].
  split; [lia|]. split; [assumption|].
  assert (G : forall ops s0 s1, ws_run dur s0 ops = Some s1 -> wp_create (ws_pool s1) = wp_create (ws_pool s0)).
  { induction ops0 as [|o t IH]; cbn; intros s0 s1 H0; [inversion H0; reflexivity|].
    destruct (ws_step dur s0 o) eqn:E; [|discriminate]. rewrite (IH _ _ H0). eapply ws_step_create; eauto. }
  rewrite (G _ _ _ H). cbn. destruct (create <? 1) eqn:E; lia.
Qed.

(** excess load waits: Get blocks exactly when the pool is open, no worker is free and the limit is reached;
    it never creates a worker beyond the limit *)
Theorem get_waits_iff : forall t, snd (wp_get t) = GWait <->
  wp_closed t = false /\ wp_free t = [] /\ wp_create t <= wp_created t.
Proof.
  intro t. unfold wp_get. destruct t as [closed free created create]. cbn.
  destruct closed; cbn.
  - split; [discriminate|intros [F _]; discriminate].
  - destruct free as [|a r]; cbn.
    + destruct (created <? create) eqn:E; cbn; split; try discriminate; intros; try reflexivity; try lia.
      repeat split; lia.
    + split; [|intros (_ & F & _); discriminate]. destruct (rev r ++ [a]) as [|[w g] r'] eqn:Er; [|discriminate].
      apply app_eq_nil in Er. destruct Er; discriminate.
Qed.

(** a Put on an open pool makes the next Get succeed without waiting (a released worker is reused) *)
Theorem put_enables_get : forall t w now dur, wp_closed t = false ->
  snd (wp_get (fst (wp_put t w now dur))) <> GWait.
Proof.
  intros t w now dur Hc F. apply get_waits_iff in F. destruct F as (_ & F & _).
  unfold wp_put in F. rewrite Hc in F. destruct (wp_gc t now) as [t1 g]. cbn in F.
  apply app_eq_nil in F. destruct F; discriminate.
Qed.

(* ============================================================ C39: request memory accounting *)

Lemma sum_held_app : forall a b, sum_held (a ++ b) = sum_held a + sum_held b.
Proof. unfold sum_held. induction a as [|p t IH]; cbn; intros b; [reflexivity|]. rewrite IH. lia. Qed.

Lemma sum_held_cons : forall p t, sum_held (p :: t) = snd p + sum_held t.
Proof. reflexivity. Qed.

Lemma sum_held_nonneg : forall l, (forall p, In p l -> 0 <= snd p) -> 0 <= sum_held l.
Proof.
  induction l as [|p t IH]; intros H; [cbn; lia|]. rewrite sum_held_cons.
  pose proof (H p (or_introl eq_refl)). assert (0 <= sum_held t) by (apply IH; intros; apply H; now right). lia.
Qed.

Lemma sum_held_remove : forall l id n, NoDup (keys l) -> find id l = Some n -> sum_held l = sum_held (remove id l) + n.
Proof.
  induction l as [|[k x] t IH]; intros id n Hnd Hf; [discriminate|].
  cbn [keys map fst] in Hnd. inversion Hnd as [|? ? Hni Hnd']; subst. cbn [find remove] in *. destruct (k =? id)%N eqn:E.
  - apply N.eqb_eq in E. subst. inversion Hf; subst. rewrite (remove_notin t id Hni), sum_held_cons. cbn. lia.
  - rewrite !sum_held_cons. rewrite (IH id n Hnd' Hf). cbn. lia.
Qed.

(** notifyWaiters wakes a prefix of the queue, adds exactly their weights, and never passes the size *)
Lemma sm_notify_spec : forall size w cur c rest woken,
  sm_notify size cur w = (c, rest, woken) ->
  exists pre, w = pre ++ rest /\ woken = keys pre /\ c = cur + sum_held pre /\ (cur <= size -> c <= size).
Proof.
  induction w as [|[id n] t IH]; cbn; intros cur c rest woken H.
  - inversion H; subst. exists []. cbn. repeat split; lia.
  - destruct (size - cur <? n) eqn:E.
    + inversion H; subst. exists []. cbn. repeat split; lia.
    + destruct (sm_notify size (cur + n) t) as [[c1 r1] w1] eqn:E1. inversion H; subst; clear H.
      destruct (IH _ _ _ _ E1) as (pre & -> & -> & -> & Hle).
      exists ((id, n) :: pre). rewrite sum_held_cons. cbn [app keys map fst snd]. repeat split; try lia.
Qed.

Lemma NoDup_app_comm3 : forall {A} (a : list A) x (b : list A), NoDup (a ++ x :: b) <-> NoDup (x :: a ++ b).
Proof.
  intros A a x b. split; intro H.
  - apply NoDup_cons_iff. split; [eapply NoDup_remove_2; eauto|eapply NoDup_remove_1; eauto].
  - apply NoDup_cons_iff in H. destruct H as [H1 H2].
    induction a as [|y a IH]; cbn in *; [constructor; assumption|].
    inversion H2 as [|? ? Hni Hnd]; subst. constructor.
    + rewrite in_app_iff in *. cbn. intros [F|[F|F]]; [tauto|subst; tauto|tauto].
    + apply IH; [tauto|assumption].
Qed.

Lemma NoDup_app_l : forall {A} (a b : list A), NoDup (a ++ b) -> NoDup a.
Proof.
  induction a as [|x a IH]; cbn; intros b H; [constructor|]. inversion H as [|? ? Hni Hnd]; subst.
  constructor; [intro F; apply Hni; apply in_app_iff; now left|eauto].
Qed.

Record AInv (a : adm) : Prop := {
  ai_size : 0 <= sm_size (ad_sem a);
  ai_cur : sm_cur (ad_sem a) = sum_held (ad_held a);
  ai_le : sm_cur (ad_sem a) <= sm_size (ad_sem a);
  ai_hpos : forall p, In p (ad_held a) -> 0 <= snd p <= sm_size (ad_sem a);
  ai_wpos : forall p, In p (sm_wait (ad_sem a)) -> 0 <= snd p <= sm_size (ad_sem a);
  ai_nodup : NoDup (keys (ad_held a) ++ keys (sm_wait (ad_sem a)))
}.

Lemma AInv_init : forall limit buf, 0 <= limit -> AInv (adm_init limit buf).
Proof. intros. constructor; cbn; try lia; try constructor; intros; contradiction. Qed.

Lemma wait_n_prefix : forall pre rest, NoDup (keys (pre ++ rest)) ->
  map (fun i => (i, wait_n (pre ++ rest) i)) (keys pre) = pre.
Proof.
  intros pre rest Hnd.
  assert (G : forall p, In p pre -> wait_n (pre ++ rest) (fst p) = snd p).
  { intros [id n] Hin. unfold wait_n. cbn. rewrite (In_find (pre ++ rest) id n Hnd); [reflexivity|]. apply in_app_iff. now left. }
  revert G. generalize (pre ++ rest) as w. clear Hnd. intros w G. induction pre as [|[id n] t IH]; cbn [keys map fst]; [reflexivity|].
  pose proof (G (id, n) (or_introl eq_refl)) as G0. cbn [fst snd] in G0. rewrite G0. f_equal.
  apply IH. intros p Hp. apply G. now right.
Qed.

Lemma NoDup_app_swap : forall {A} (a b : list A), NoDup (a ++ b) -> NoDup (b ++ a).
Proof.
  intros A a b H. apply NoDup_app_intro.
  - clear - H. induction a; cbn in *; [assumption|]. inversion H; auto.
  - clear - H. induction a as [|x a IH]; cbn in *; [constructor|]. inversion H as [|? ? Hni Hnd]; subst.
    constructor; [intro F; apply Hni; apply in_app_iff; now left|auto].
  - intros x Hb Ha. clear - H Hb Ha. induction a as [|y a IH]; cbn in *; [contradiction|].
    inversion H as [|? ? Hni Hnd]; subst. destruct Ha as [->|Ha]; [apply Hni; apply in_app_iff; now right|auto].
Qed.

Ltac asimp := cbn [ad_sem ad_held ad_buf sm_size sm_cur sm_wait].

Lemma AInv_step : forall a o a', AInv a -> adm_step a o = Some a' -> AInv a'.
Proof.
  intros a o a' I H. destruct I as [Hs Hc Hle Hh Hw Hnd]. destruct a as [[size cur wait] held buf].
  cbn [ad_sem ad_held ad_buf sm_size sm_cur sm_wait] in *.
  destruct o; cbn [adm_step ad_sem ad_held ad_buf sm_wait] in H.
  - (* arrive *)
    destruct ((bodyLen <? 0) || memN id (keys held) || memN id (keys wait)) eqn:Eg; [discriminate|].
    apply orb_false_iff in Eg. destruct Eg as [Eg E3]. apply orb_false_iff in Eg. destruct Eg as [E1 E2].
    assert (Hn0 : 0 <= bodyLen) by lia.
    assert (Hih : ~ In id (keys held)) by (intro F; apply memN_In in F; congruence).
    assert (Hiw : ~ In id (keys wait)) by (intro F; apply memN_In in F; congruence).
    set (n := req_take buf bodyLen) in *. assert (Hn : 0 <= n) by (unfold n, req_take; lia).
    assert (Hcur0 : 0 <= cur) by (rewrite Hc; apply sum_held_nonneg; intros p Hp; apply (Hh _ Hp)).
    unfold sm_try in H. cbn [sm_size sm_cur sm_wait] in H.
    destruct ((size - cur >=? n) && (length wait =? 0)%nat) eqn:Et.
    + inversion H; subst; clear H. apply andb_true_iff in Et. destruct Et as [Et _].
      constructor; asimp; auto; try lia.
      * rewrite sum_held_app. cbn. lia.
      * intros p Hp. apply in_app_iff in Hp. destruct Hp as [Hp|[<-|[]]]; [auto|cbn; lia].
      * rewrite keys_app. cbn. rewrite <- app_assoc. cbn. apply NoDup_app_comm3. constructor; [|assumption].
        rewrite in_app_iff. tauto.
    + unfold sm_acquire in H. cbn [sm_size sm_cur sm_wait] in H. rewrite Et in H.
      destruct (n >? size) eqn:Ed.
      * inversion H; subst; clear H. constructor; asimp; auto.
      * inversion H; subst; clear H. constructor; asimp; auto.
        -- intros p Hp. apply in_app_iff in Hp. destruct Hp as [Hp|[<-|[]]]; [auto|cbn; lia].
        -- rewrite keys_app. cbn [keys map fst]. rewrite app_assoc. apply NoDup_app_swap. cbn [app].
           constructor; [rewrite in_app_iff; tauto|assumption].
  - (* release *)
    destruct (find id held) as [n|] eqn:Ef; [|discriminate].
    assert (Hndh : NoDup (keys held)) by (eapply NoDup_app_l; eauto).
    pose proof (sum_held_remove _ _ _ Hndh Ef) as Hsum.
    assert (Hrem_pos : 0 <= sum_held (remove id held)).
    { apply sum_held_nonneg. intros p Hp. destruct p as [k x]. apply In_remove in Hp. destruct Hp as [Hp _]. apply (Hh _ Hp). }
    unfold sm_release in H. cbn [sm_size sm_cur sm_wait] in H.
    destruct (cur - n <? 0) eqn:El; [lia|].
    destruct (sm_notify size (cur - n) wait) as [[c rest] woken] eqn:En. inversion H; subst; clear H.
    destruct (sm_notify_spec _ _ _ _ _ _ En) as (pre & -> & -> & -> & Hle2).
    assert (Hndw : NoDup (keys (pre ++ rest))).
    { clear - Hnd. induction (keys held); cbn in *; [assumption|]. inversion Hnd; auto. }
    rewrite (wait_n_prefix _ _ Hndw).
    pose proof (Hh _ (find_In _ _ _ Ef)) as Hnn. cbn in Hnn.
    constructor; asimp; auto.
    + rewrite sum_held_app. lia.
    + apply Hle2. lia.
    + intros p Hp. apply in_app_iff in Hp. destruct Hp as [Hp|Hp].
      * destruct p as [k x]. apply In_remove in Hp. destruct Hp as [Hp _]. apply (Hh _ Hp).
      * apply Hw. apply in_app_iff. now left.
    + intros p Hp. apply Hw. apply in_app_iff. now right.
    + rewrite !keys_app in *. rewrite <- app_assoc.
      clear - Hnd. induction held as [|[k x] t IH]; cbn in *; [assumption|].
      inversion Hnd as [|? ? Hni Hnd']; subst. destruct (k =? id)%N; [auto|]. cbn. constructor; [|auto].
      rewrite !in_app_iff in *. intros [F|F]; [apply keys_remove in F; tauto|tauto].
  - (* cancel of a waiting acquire *)
    unfold sm_cancel_wait in H. cbn [sm_size sm_cur sm_wait] in H.
    destruct wait as [|[id0 n0] t]; [inversion H; subst; cbn [map]; rewrite app_nil_r; constructor; asimp; auto|].
    destruct (id0 =? id)%N eqn:Ei.
    + destruct (size >? cur) eqn:Eg.
      * destruct (sm_notify size cur t) as [[c rest] woken] eqn:En. inversion H; subst; clear H.
        destruct (sm_notify_spec _ _ _ _ _ _ En) as (pre & -> & -> & -> & Hle2).
        assert (Hndw : NoDup (keys ((id0, n0) :: pre ++ rest))).
        { clear - Hnd. induction (keys held); cbn in *; [assumption|]. inversion Hnd; auto. }
        assert (Hmap : map (fun i => (i, wait_n ((id0, n0) :: pre ++ rest) i)) (keys pre) = pre).
        { cbn in Hndw. inversion Hndw as [|? ? Hni Hnd']; subst.
          rewrite <- (wait_n_prefix pre rest Hnd') at 2. apply map_ext_in. intros i Hi. f_equal.
          unfold wait_n. cbn. destruct (id0 =? i)%N eqn:E; [|reflexivity].
          apply N.eqb_eq in E. subst. exfalso. apply Hni. unfold keys in Hi. rewrite map_app. apply in_app_iff. now left. }
        rewrite Hmap. constructor; asimp; auto.
        -- rewrite sum_held_app. lia.
        -- intros p Hp. apply in_app_iff in Hp. destruct Hp as [Hp|Hp]; [auto|]. apply Hw. right. apply in_app_iff. now left.
        -- intros p Hp. apply Hw. right. apply in_app_iff. now right.
        -- rewrite keys_app, <- app_assoc. change (keys ((id0, n0) :: pre ++ rest)) with (id0 :: keys (pre ++ rest)) in Hnd.
           apply NoDup_app_comm3 in Hnd. rewrite keys_app in Hnd. now inversion Hnd.
      * inversion H; subst; clear H. cbn [map]. rewrite app_nil_r. constructor; asimp; auto.
        -- intros p Hp. apply Hw. now right.
        -- change (keys ((id0, n0) :: t)) with (id0 :: keys t) in Hnd. apply NoDup_app_comm3 in Hnd. now inversion Hnd.
    + inversion H; subst; clear H. cbn [map]. rewrite app_nil_r.
      change (if (id0 =? id)%N then remove id t else (id0, n0) :: remove id t) with (remove id ((id0, n0) :: t)).
      constructor; asimp; auto.
      * intros p Hp. destruct p as [k x]. apply In_remove in Hp. destruct Hp as [Hp _]. apply (Hw _ Hp).
      * clear - Hnd. apply NoDup_app_swap in Hnd. apply NoDup_app_swap.
        induction ((id0, n0) :: t) as [|[k x] w IH]; cbn in *; [assumption|].
        inversion Hnd as [|? ? Hni Hnd']; subst. destruct (k =? id)%N; [auto|]. cbn. constructor; [|auto].
        rewrite !in_app_iff in *. intros [F|F]; [apply keys_remove in F; tauto|tauto].
Qed.

Lemma AInv_run : forall ops a a', AInv a -> adm_run a ops = Some a' -> AInv a'.
Proof.
  induction ops as [|o t IH]; cbn; intros a a' I H; [inversion H; subst; assumption|].
  destruct (adm_step a o) eqn:E; [|discriminate]. eapply IH; [eapply AInv_step; eauto|assumption].
Qed.

Lemma adm_step_size : forall a o a', adm_step a o = Some a' -> sm_size (ad_sem a') = sm_size (ad_sem a).
Proof.
  intros a o a' H. destruct o; cbn [adm_step] in H.
  - destruct (_ || _); [discriminate|]. unfold sm_try in H. destruct (_ && _) eqn:E; [inversion H; reflexivity|].
    unfold sm_acquire in H. rewrite E in H. destruct (_ >? _); inversion H; reflexivity.
  - destruct (find _ _); [|discriminate]. unfold sm_release in H. destruct (_ <? 0); [discriminate|].
    destruct (sm_notify _ _ _) as [[c r] w]. inversion H; reflexivity.
  - unfold sm_cancel_wait in H. destruct (sm_wait _) as [|[i n] t]; [inversion H; reflexivity|].
    destruct (i =? id)%N; [|inversion H; reflexivity]. destruct (_ >? _); [|inversion H; reflexivity].
    destruct (sm_notify _ _ _) as [[c r] w]. inversion H; reflexivity.
Qed.

(** memory_limit: after ANY sequence of request arrivals, releases and cancelled waits, the accounted request
    memory is exactly the sum of what the admitted requests hold (max(body length, RequestBufSize) each), it is
    within [0, limit], and no single admitted request exceeds the limit (a request larger than the limit is never
    admitted: its Acquire only waits for the connection to close). *)
Theorem memory_limit : forall limit buf ops a, 0 <= limit -> adm_run (adm_init limit buf) ops = Some a ->
  sm_cur (ad_sem a) = sum_held (ad_held a) /\ 0 <= sm_cur (ad_sem a) <= limit /\
  (forall id n, In (id, n) (ad_held a) -> 0 <= n <= limit) /\ sm_size (ad_sem a) = limit.
Proof.
  intros limit buf ops a Hl H. pose proof (AInv_run _ _ _ (AInv_init limit buf Hl) H) as [Hs Hc Hle Hh Hw Hnd].
  assert (G : forall ops a0 a1, adm_run a0 ops = Some a1 -> sm_size (ad_sem a1) = sm_size (ad_sem a0)).
  { induction ops0 as [|o t IH]; cbn; intros a0 a1 H0; [inversion H0; reflexivity|].
    destruct (adm_step a0 o) eqn:E; [|discriminate]. rewrite (IH _ _ H0). eapply adm_step_size; eauto. }
  pose proof (G _ _ _ H) as Esz. cbn in Esz. rewrite Esz in *.
  split; [assumption|]. split.
  - split; [|assumption]. rewrite Hc. apply sum_held_nonneg. intros p Hp. apply (Hh _ Hp).
  - split; [|reflexivity]. intros id n Hin. apply (Hh _ Hin).
Qed.

(** a release by a request that holds memory never panics ("released more than held") *)
Theorem release_never_panics : forall limit buf ops a id n, 0 <= limit ->
  adm_run (adm_init limit buf) ops = Some a -> find id (ad_held a) = Some n ->
  adm_step a (ARelease id) <> None.
Proof.
  intros limit buf ops a id n Hl H Hf. pose proof (AInv_run _ _ _ (AInv_init limit buf Hl) H) as [Hs Hc Hle Hh Hw Hnd].
  cbn [adm_step]. rewrite Hf. unfold sm_release.
  assert (Hndh : NoDup (keys (ad_held a))) by (eapply NoDup_app_l; eauto).
  pose proof (sum_held_remove _ _ _ Hndh Hf) as Hsum.
  assert (0 <= sum_held (remove id (ad_held a))).
  { apply sum_held_nonneg. intros [k x] Hp. apply In_remove in Hp. destruct Hp as [Hp _]. apply (Hh _ Hp). }
  destruct (sm_cur (ad_sem a) - n <? 0) eqn:E; [lia|].
  destruct (sm_notify _ _ _) as [[c r] w]. discriminate.
Qed.
