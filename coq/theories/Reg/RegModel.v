(** Reg -- runtime registry of generated Go code (C17).
    Mirrors internal/puregen/gengo/qt_meta.qtpl (generateMetaInit: which type instances become
    registry items and with which flags), qt_helpers.qtpl (metainternal: FillObject / FillFunction,
    ItemsByName / ItemsByTag, annotation accessors), qt_factory.qtpl (lookups) and
    type_rw_wrapper.go (AnnotationsMask).  The registry is COMPUTED from the schema IR of
    Tl1Model.v plus one [imeta] record per type instance (dumped from the real kernel by
    overlay/cmd/verifdump), not copied from Go's output.  Executable definitions only. *)
From TLV Require Export Tl1.Tl1Model.
Open Scope N_scope.

(** per-instance facts of the kernel that the TL1 codec does not need *)
Record imeta := mkMeta {
  m_name : bytes;          (* Common().TLName().String() *)
  m_top : bool;            (* Common().IsTopLevel() *)
  m_fun : bool;            (* struct with a result type *)
  m_maybe : bool;          (* union rendered as Maybe (TypeRWMaybe, never registered) *)
  m_origin2 : bool;        (* Common().OriginTL2() *)
  m_tl2 : bool;            (* Common().HasTL2() *)
  m_utag : N;              (* Common().TLTag(); for structs it must equal the TStruct tag, see [meta_ok] *)
  m_anns : list bytes      (* annotation names of the kernel type *)
}.

Record item := mkItem {
  it_name : bytes;
  it_tag : N;
  it_fun : bool;
  it_tl1 : bool;
  it_tl2 : bool;
  it_ann : N;              (* TLItemImpl.Annotations (uint32) *)
  it_ty : nat              (* type instance the factory creates *)
}.

Fixpoint bytes_eqb (a b : bytes) : bool :=
  match a, b with
  | [], [] => true
  | x :: a', y :: b' => (x =? y) && bytes_eqb a' b'
  | _, _ => false
  end.

Definition has_ann (mine : list bytes) (a : bytes) : bool := existsb (bytes_eqb a) mine.

(** AnnotationsMask: for bit, v := range AllAnnotations() { if HasAnnotation(v) { mask |= 1 << bit } } on uint32 *)
Fixpoint ann_mask_from (bit : N) (all : list bytes) (mine : list bytes) : N :=
  match all with
  | [] => 0
  | a :: r =>
      N.lor (if has_ann mine a then (N.shiftl 1 bit) mod 4294967296 else 0) (ann_mask_from (bit + 1) r mine)
  end.
Definition ann_mask (all mine : list bytes) : N := ann_mask_from 0 all mine.

(** generated [func (item TLItemImpl) AnnotationX() bool { return item.Annotations & (1 << bit) != 0 }] *)
Definition ann_flag (mask : N) (bit : nat) : bool := N.testbit mask (N.of_nat bit).

(** generateMetaInit: one loop iteration *)
Definition item_of (all : list bytes) (t : nat) (d : tydef) (m : imeta) : option item :=
  if negb (m_top m) then None else
  match d with
  | TStruct tag _ =>
      Some (mkItem (m_name m) tag (m_fun m) (negb (m_origin2 m)) (m_tl2 m) (ann_mask all (m_anns m)) t)
  | TUnion _ =>
      if m_tl2 m && negb (m_maybe m)
      then Some (mkItem (m_name m) (m_utag m) false (negb (m_origin2 m)) (m_tl2 m) (ann_mask all (m_anns m)) t)
      else None
  | _ => None
  end.

Fixpoint cands_from (all : list bytes) (t : nat) (s : schema) (ms : list imeta) : list item :=
  match s, ms with
  | d :: s', m :: ms' =>
      (match item_of all t d m with Some it => [it] | None => [] end) ++ cands_from all (S t) s' ms'
  | _, _ => []
  end.

(** metainternal.FillObject / FillFunction: an item whose name is already registered is dropped *)
Definition has_name (n : bytes) (reg : list item) : bool := existsb (fun it => bytes_eqb (it_name it) n) reg.
Definition fill (reg : list item) (it : item) : list item :=
  if has_name (it_name it) reg then reg else reg ++ [it].

(** ItemsOrdered (up to the order of the generator's type list, which is not modelled: lookups and
    the comparison with Go do not depend on it when names are distinct) *)
Definition registry (all : list bytes) (s : schema) (ms : list imeta) : list item :=
  fold_left fill (cands_from all 0 s ms) [].

(** ItemsByName[name]; ItemsByTag[tag] (assigned on every registration when tag != 0: last wins) *)
Definition by_name (reg : list item) (n : bytes) : option item :=
  find (fun it => bytes_eqb (it_name it) n) reg.
Definition by_tag (reg : list item) (t : N) : option item :=
  if t =? 0 then None else find (fun it => it_tag it =? t) (rev reg).

(** what the created object reports: TLName()/TLTag() -- own constants for a struct, those of the
    active variant for a union *)
Definition variant_of (s : schema) (t : nat) (v : value) : option nat :=
  match nth_error s t with
  | Some (TStruct _ _) => Some t
  | Some (TUnion vars) =>
      match v with
      | VUnion idx _ => nth_error vars idx
      | _ => None
      end
  | _ => None
  end.
Definition obj_tag (s : schema) (t : nat) (v : value) : option N :=
  match variant_of s t v with Some vt => struct_tag s vt | None => None end.
Definition obj_name (s : schema) (ms : list imeta) (t : nat) (v : value) : option bytes :=
  match variant_of s t v with
  | Some vt => match nth_error ms vt with Some m => Some (m_name m) | None => None end
  | None => None
  end.

(** a freshly created object: zero value; a union starts at variant 0 *)
Definition fresh_value (s : schema) (t : nat) : value :=
  match nth_error s t with
  | Some (TUnion _) => VUnion 0 []
  | _ => VStruct []
  end.

(** * checks evaluated on every kernel dump *)
Fixpoint nodupb {A} (eqb : A -> A -> bool) (l : list A) : bool :=
  match l with
  | [] => true
  | x :: r => negb (existsb (eqb x) r) && nodupb eqb r
  end.

Definition names_okb (l : list item) : bool := nodupb bytes_eqb (map it_name l).
Definition nz_tags (l : list item) : list N := filter (fun t => negb (t =? 0)) (map it_tag l).
Definition tags_okb (l : list item) : bool := nodupb N.eqb (nz_tags l).

(** the struct tag reported by the kernel's Common().TLTag() is the one the codec writes *)
Fixpoint meta_okb (s : schema) (ms : list imeta) : bool :=
  match s, ms with
  | [], [] => true
  | d :: s', m :: ms' =>
      (match d with TStruct tag _ => tag =? m_utag m | _ => true end) && meta_okb s' ms'
  | _, _ => false
  end.

Definition anns_okb (all : list bytes) : bool := nodupb bytes_eqb all && (lenN all <=? 32).
