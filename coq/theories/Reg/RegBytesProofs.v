(** Proofs about the bytes-variant model (C10). *)
From Coq Require Import ZArith Lia ZifyN ZifyNat ZifyBool.
From TLV Require Import Prim.PrimModel Tl1.Tl1Model Tl1.Tl1Proofs Reg.RegBytesModel.
Open Scope N_scope.

Lemma nth_slice s t : nth_error (to_slice s) t = option_map slice_def (nth_error s t).
Proof. unfold to_slice. apply nth_error_map. Qed.

(** ** writers: whatever the map-backed variant writes, the slice-backed variant holding the same content writes *)
Theorem enc_slice_eq san s : forall v t bare ps b,
  enc1 san s t bare ps v = Some b -> enc1 san (to_slice s) t bare ps v = Some b.
Proof.
  induction v as [n|str|bv|fs IH|idx fs IH|es IH] using value_ind'; intros t bare ps b H;
    cbn [enc1] in *; rewrite nth_slice; destruct (nth_error s t) as [d|] eqn:Et; try discriminate;
    destruct d as [p|tag fds|vars|k ef|kp ef]; cbn [option_map slice_def]; try discriminate; try exact H.
  - destruct (enc_fields _ ps fs fds fs) as [body|] eqn:EF; [|discriminate].
    rewrite (enc_fields_mono _ (fun t' b' ps' v' => enc1 san (to_slice s) t' b' ps' v') ps fs fs fds body IH EF). exact H.
  - destruct bare; [discriminate|]. destruct (nth_error vars idx) as [vt|]; [|discriminate].
    rewrite nth_slice.
    destruct (nth_error s vt) as [[p|tag fds|vars'|k ef|kp ef]|]; cbn [option_map slice_def]; try discriminate.
    destruct (enc_fields _ ps fs fds fs) as [body|] eqn:EF; [|discriminate].
    rewrite (enc_fields_mono _ (fun t' b' ps' v' => enc1 san (to_slice s) t' b' ps' v') ps fs fs fds body IH EF). exact H.
  - destruct (negb bare); [discriminate|].
    destruct (enc_elems _ es) as [body|] eqn:EE; [|discriminate].
    assert (HF : Forall (fun e => forall b0, enc1 san s (f_ty ef) (f_bare ef) (eval_args ps [] (f_args ef)) e = Some b0 ->
                                             enc1 san (to_slice s) (f_ty ef) (f_bare ef) (eval_args ps [] (f_args ef)) e = Some b0) es).
    { rewrite Forall_forall in *. intros e He b0 Hb0. now apply IH. }
    rewrite (enc_elems_mono _ (fun e => enc1 san (to_slice s) (f_ty ef) (f_bare ef) (eval_args ps [] (f_args ef)) e) es body HF EE).
    exact H.
  - destruct (negb bare); [discriminate|].
    destruct (enc_elems _ es) as [body|] eqn:EE; [|discriminate].
    assert (HF : Forall (fun e => forall b0, enc1 san s (f_ty ef) (f_bare ef) (eval_args ps [] (f_args ef)) e = Some b0 ->
                                             enc1 san (to_slice s) (f_ty ef) (f_bare ef) (eval_args ps [] (f_args ef)) e = Some b0) es).
    { rewrite Forall_forall in *. intros e He b0 Hb0. now apply IH. }
    rewrite (enc_elems_mono _ (fun e => enc1 san (to_slice s) (f_ty ef) (f_bare ef) (eval_args ps [] (f_args ef)) e) es body HF EE).
    cbn [bind_opt] in *.
    destruct (lenN es <? 4294967296); cbn [andb] in *; [|discriminate].
    destruct (keys_sorted kp es); cbn [andb] in *; [|discriminate]. exact H.
Qed.

(** ** sorted content is a fixed point of the map insertion *)
Lemma sort_dedup_sorted kp es : keys_sorted kp es = true -> sort_dedup kp es = es.
Proof. intro H. unfold sort_dedup. now rewrite (dict_fold_sorted kp es [] H). Qed.

(** ** readers *)
Definition norm_fields (s : schema) : list field -> list (option value) -> list (option value) :=
  fix nf (fds : list field) (fs : list (option value)) {struct fs} : list (option value) :=
    match fs, fds with
    | o :: fs', fd :: fds' =>
        (match o with Some x => Some (norm s (f_ty fd) x) | None => None end) :: nf fds' fs'
    | _, _ => fs
    end.

Lemma norm_struct s t tag fds fs : nth_error s t = Some (TStruct tag fds) ->
  norm s t (VStruct fs) = VStruct (norm_fields s fds fs).
Proof. intro H. cbn [norm]. rewrite H. reflexivity. Qed.

Lemma norm_union s t vars idx vt tag fds fs :
  nth_error s t = Some (TUnion vars) -> nth_error vars idx = Some vt -> nth_error s vt = Some (TStruct tag fds) ->
  norm s t (VUnion idx fs) = VUnion idx (norm_fields s fds fs).
Proof. intros H1 H2 H3. cbn [norm]. rewrite H1, H2, H3. reflexivity. Qed.

Lemma norm_vnum_iff s t v n : norm s t v = VNum n <-> v = VNum n.
Proof.
  destruct v; cbn [norm]; try tauto.
  - destruct (nth_error s t) as [[| | | |]|]; split; intro H; discriminate.
  - destruct (nth_error s t) as [[| |vars| |]|]; try (split; intro H; discriminate).
    destruct (nth_error vars idx) as [vt|]; [|split; intro H; discriminate].
    destruct (nth_error s vt) as [[| | | |]|]; split; intro H; discriminate.
  - destruct (nth_error s t) as [[| | | |]|]; split; intro H; discriminate.
Qed.

Lemma norm_fields_length s : forall fds fs, length (norm_fields s fds fs) = length fs.
Proof.
  intros fds fs. revert fds. induction fs as [|o fs IH]; intros [|fd fds]; cbn [norm_fields length]; auto.
Qed.

Lemma field_nat_norm s : forall fds fs i, field_nat (norm_fields s fds fs) i = field_nat fs i.
Proof.
  intros fds fs. revert fds. induction fs as [|o fs IH]; intros [|fd fds] i; cbn [norm_fields]; try reflexivity.
  unfold field_nat in *. destruct i as [|i]; cbn [nth_error].
  - destruct o as [x|]; [|reflexivity].
    destruct (norm s (f_ty fd) x) eqn:E.
    + apply norm_vnum_iff in E. now subst.
    + destruct x; try reflexivity. exfalso. cbn [norm] in E. discriminate.
    + destruct x; try reflexivity. exfalso. cbn [norm] in E. discriminate.
    + destruct x; try reflexivity. exfalso. symmetry in E.
      assert (norm s (f_ty fd) (VNum n) = VNum n) by reflexivity. congruence.
    + destruct x; try reflexivity. exfalso. assert (norm s (f_ty fd) (VNum n) = VNum n) by reflexivity. congruence.
    + destruct x; try reflexivity. exfalso. assert (norm s (f_ty fd) (VNum n) = VNum n) by reflexivity. congruence.
  - apply IH.
Qed.

Lemma eval_natarg_norm s ps fds fs a : eval_natarg ps (norm_fields s fds fs) a = eval_natarg ps fs a.
Proof. destruct a; cbn [eval_natarg]; auto. apply field_nat_norm. Qed.

Lemma field_present_norm s ps fds fs fd : field_present ps (norm_fields s fds fs) fd = field_present ps fs fd.
Proof. unfold field_present. destruct (f_mask fd) as [[a bit]|]; [|reflexivity]. now rewrite eval_natarg_norm. Qed.

Lemma eval_args_norm s ps fds fs l : eval_args ps (norm_fields s fds fs) l = eval_args ps fs l.
Proof. unfold eval_args. apply map_ext. intro a. apply eval_natarg_norm. Qed.

Lemma norm_fields_snoc s : forall done acc fd o, length acc = length done ->
  norm_fields s (done ++ [fd]) (acc ++ [o]) =
  norm_fields s done acc ++ [match o with Some x => Some (norm s (f_ty fd) x) | None => None end].
Proof.
  induction done as [|d done IH]; intros [|a acc] fd o H; cbn [length] in H; try lia; cbn [app norm_fields]; [reflexivity|].
  f_equal. apply IH. lia.
Qed.

Lemma norm_fields_prefix s : forall done acc rest, length acc = length done ->
  norm_fields s (done ++ rest) acc = norm_fields s done acc.
Proof.
  induction done as [|d done IH]; intros [|a acc] rest H; cbn [length] in H; try lia; cbn [app norm_fields].
  - destruct rest; reflexivity.
  - f_equal. apply IH. lia.
Qed.

Section Sim.
  Variable s : schema.
  Variables D' D : nat -> bool -> list N -> bytes -> dres.
  Hypothesis HD : forall t bare ps b v r, D' t bare ps b = Some (Ok (v, r)) -> D t bare ps b = Some (Ok (norm s t v, r)).

  Lemma dec_fields_sim ps : forall fds done acc b fs r,
    length acc = length done ->
    dec_fields D' ps fds acc b = Some (Ok (fs, r)) ->
    dec_fields D ps fds (norm_fields s done acc) b = Some (Ok (norm_fields s (done ++ fds) fs, r)).
  Proof.
    induction fds as [|fd fds IH]; intros done acc b fs r Hl H; cbn [dec_fields] in *.
    - inversion H; subst. now rewrite app_nil_r.
    - rewrite field_present_norm, eval_args_norm.
      destruct (field_present ps acc fd).
      + destruct (D' (f_ty fd) (f_bare fd) (eval_args ps acc (f_args fd)) b) as [[[v b']| |]|] eqn:E; try discriminate.
        rewrite (HD _ _ _ _ _ _ E).
        replace (norm_fields s done acc ++ [Some (norm s (f_ty fd) v)]) with (norm_fields s (done ++ [fd]) (acc ++ [Some v]))
          by (now apply norm_fields_snoc).
        replace (done ++ fd :: fds) with ((done ++ [fd]) ++ fds) by (now rewrite <- app_assoc).
        apply IH; [rewrite !app_length; cbn [length]; lia|exact H].
      + replace (norm_fields s done acc ++ [None]) with (norm_fields s (done ++ [fd]) (acc ++ [None]))
          by (now apply norm_fields_snoc).
        replace (done ++ fd :: fds) with ((done ++ [fd]) ++ fds) by (now rewrite <- app_assoc).
        apply IH; [rewrite !app_length; cbn [length]; lia|exact H].
  Qed.

  Lemma nat_iter_sim (r' r : bytes -> dres) (f : value -> value) :
    (forall b v rest, r' b = Some (Ok (v, rest)) -> r b = Some (Ok (f v, rest))) ->
    forall n acc b acc2 b2,
      nat_iter (estep r') n (acc, b) = Some (Ok (acc2, b2)) ->
      nat_iter (estep r) n (map f acc, b) = Some (Ok (map f acc2, b2)).
  Proof.
    intros Hr. induction n as [|n IH]; intros acc b acc2 b2 H; cbn [nat_iter] in *.
    - now inversion H.
    - unfold estep at 1 in H. unfold estep at 1. cbn [fst snd] in *.
      destruct (r' b) as [[[v b']| |]|] eqn:E; cbn [obind] in H; try discriminate.
      rewrite (Hr _ _ _ E). cbn [obind]. change (f v :: map f acc) with (map f (v :: acc)). now apply IH.
  Qed.

  Lemma dec_elems_sim (r' r : bytes -> dres) (f : value -> value) :
    (forall b v rest, r' b = Some (Ok (v, rest)) -> r b = Some (Ok (f v, rest))) ->
    forall n b es rest, dec_elems r' n b = Some (Ok (es, rest)) -> dec_elems r n b = Some (Ok (map f es, rest)).
  Proof.
    intros Hr n b es rest H. unfold dec_elems in *. destruct n as [|p]; [now inversion H|].
    rewrite pos_iter_nat in *.
    destruct (nat_iter (estep r') (Pos.to_nat p) ([], b)) as [[[acc b']| |]|] eqn:E; try discriminate.
    change (@nil value) with (map f []).
    rewrite (nat_iter_sim r' r f Hr _ _ _ _ _ E). inversion H; subst. now rewrite map_rev.
  Qed.
End Sim.

Lemma find_variant_slice s : forall vars tag idx, find_variant (to_slice s) vars tag idx = find_variant s vars tag idx.
Proof.
  induction vars as [|vt vars IH]; intros tag idx; cbn [find_variant]; [reflexivity|].
  rewrite nth_slice. destruct (nth_error s vt) as [[p|tg fds|vars'|k ef|kp ef]|]; cbn [option_map slice_def]; try apply IH.
  destruct (tg =? tag); [reflexivity|apply IH].
Qed.

Lemma find_variant_nth s : forall vars tag idx0 idx fds,
  find_variant s vars tag idx0 = Some (idx, fds) ->
  exists vt tg, nth_error vars (idx - idx0) = Some vt /\ nth_error s vt = Some (TStruct tg fds) /\ (idx0 <= idx)%nat.
Proof.
  induction vars as [|vt vars IH]; intros tag idx0 idx fds H; cbn [find_variant] in H; [discriminate|].
  destruct (nth_error s vt) as [[p|tg fds'|vars'|k ef|kp ef]|] eqn:E;
    try (apply IH in H; destruct H as [vt' [tg' [H1 [H2 H3]]]]; exists vt', tg';
         replace (idx - idx0)%nat with (S (idx - S idx0)) by lia; cbn [nth_error]; repeat split; auto; lia).
  destruct (tg =? tag).
  - inversion H; subst. exists vt, tg. rewrite Nat.sub_diag. cbn [nth_error]. auto.
  - apply IH in H. destruct H as [vt' [tg' [H1 [H2 H3]]]]. exists vt', tg'.
    replace (idx - idx0)%nat with (S (idx - S idx0)) by lia. cbn [nth_error]. repeat split; auto; lia.
Qed.

(** decoding the same input: the map-backed variant holds the normalisation (every dictionary sorted, last
    duplicate wins) of what the slice-backed variant holds, and both consume the same bytes *)
Theorem dec_map_vs_slice san s : forall fuel t bare ps b v r,
  dec1 fuel san (to_slice s) t bare ps b = Some (Ok (v, r)) ->
  dec1 fuel san s t bare ps b = Some (Ok (norm s t v, r)).
Proof.
  induction fuel as [|fuel IH]; intros t bare ps b v r H; [discriminate|].
  cbn [dec1] in *. rewrite nth_slice in H.
  destruct (nth_error s t) as [d|] eqn:Et; cbn [option_map] in H; [|discriminate].
  destruct d as [p|tag fds|vars|k ef|kp ef]; cbn [slice_def] in H.
  - (* primitive *)
    inversion H as [H1]. destruct (dec_prim p b) as [[v0 r0]| |]; try discriminate. inversion H1; subst.
    assert (norm s t v = v) as ->.
    { destruct v; cbn [norm]; rewrite ?Et; reflexivity. }
    reflexivity.
  - (* struct *)
    assert (G : forall b0, match dec_fields (dec1 fuel san (to_slice s)) ps fds [] b0 with
                          | None => None | Some (Ok (fs, r0)) => Some (Ok (VStruct fs, r0)) | Some Eof => Some Eof | Some Reject => Some Reject end
                          = Some (Ok (v, r)) ->
                          match dec_fields (dec1 fuel san s) ps fds [] b0 with
                          | None => None | Some (Ok (fs, r0)) => Some (Ok (VStruct fs, r0)) | Some Eof => Some Eof | Some Reject => Some Reject end
                          = Some (Ok (norm s t v, r))).
    { intros b0 H0. destruct (dec_fields (dec1 fuel san (to_slice s)) ps fds [] b0) as [[[fs r0]| |]|] eqn:E; try discriminate.
      inversion H0; subst.
      pose proof (dec_fields_sim s _ _ IH ps fds [] [] b0 fs r eq_refl E) as S. cbn [norm_fields app] in S.
      rewrite S. now rewrite (norm_struct s t tag fds fs Et). }
    destruct bare; [now apply G|].
    destruct (nat_r b) as [[tg b']| |]; try discriminate. destruct (tg =? tag); [now apply G|discriminate].
  - (* union *)
    destruct bare; [discriminate|].
    destruct (nat_r b) as [[tg b']| |]; try discriminate.
    rewrite find_variant_slice in H.
    destruct (find_variant s vars tg 0) as [[idx fds]|] eqn:EV; [|discriminate].
    destruct (dec_fields (dec1 fuel san (to_slice s)) ps fds [] b') as [[[fs r0]| |]|] eqn:E; try discriminate.
    inversion H; subst.
    pose proof (dec_fields_sim s _ _ IH ps fds [] [] b' fs r eq_refl E) as S. cbn [norm_fields app] in S. rewrite S.
    destruct (find_variant_nth s vars tg 0%nat idx fds EV) as [vt [tg' [H1 [H2 _]]]]. rewrite Nat.sub_0_r in H1.
    now rewrite (norm_union s t vars idx vt tg' fds fs Et H1 H2).
  - (* array *)
    destruct (negb bare); [discriminate|].
    assert (G : forall n b0, match dec_elems (dec1 fuel san (to_slice s) (f_ty ef) (f_bare ef) (eval_args ps [] (f_args ef))) n b0 with
                            | None => None | Some (Ok (es, r0)) => Some (Ok (VArr es, r0)) | Some Eof => Some Eof | Some Reject => Some Reject end
                            = Some (Ok (v, r)) ->
                            match dec_elems (dec1 fuel san s (f_ty ef) (f_bare ef) (eval_args ps [] (f_args ef))) n b0 with
                            | None => None | Some (Ok (es, r0)) => Some (Ok (VArr es, r0)) | Some Eof => Some Eof | Some Reject => Some Reject end
                            = Some (Ok (norm s t v, r))).
    { intros n b0 H0.
      destruct (dec_elems (dec1 fuel san (to_slice s) (f_ty ef) (f_bare ef) (eval_args ps [] (f_args ef))) n b0) as [[[es r0]| |]|] eqn:E; try discriminate.
      inversion H0; subst.
      rewrite (dec_elems_sim (dec1 fuel san (to_slice s) (f_ty ef) (f_bare ef) (eval_args ps [] (f_args ef)))
                              (dec1 fuel san s (f_ty ef) (f_bare ef) (eval_args ps [] (f_args ef)))
                              (norm s (f_ty ef)) (fun b1 v1 r1 => IH (f_ty ef) (f_bare ef) _ b1 v1 r1) n b0 es r E).
      cbn [norm]. now rewrite Et. }
    destruct k.
    + destruct (read_count san b) as [[n b']| |]; try discriminate. now apply G.
    + destruct (san && negb (check_length_sanity b (nth 0 ps 0) 4)); [discriminate|]. now apply G.
    + first [now apply G | destruct (san && negb (check_length_sanity b n 4)); [discriminate|]; now apply G].
  - (* dictionary: a vector in the bytes variant *)
    destruct (negb bare); [discriminate|].
    destruct (read_count san b) as [[n b']| |]; try discriminate.
    destruct (dec_elems (dec1 fuel san (to_slice s) (f_ty ef) (f_bare ef) (eval_args ps [] (f_args ef))) n b') as [[[es r0]| |]|] eqn:E; try discriminate.
    inversion H; subst.
    rewrite (dec_elems_sim (dec1 fuel san (to_slice s) (f_ty ef) (f_bare ef) (eval_args ps [] (f_args ef)))
                              (dec1 fuel san s (f_ty ef) (f_bare ef) (eval_args ps [] (f_args ef)))
                              (norm s (f_ty ef)) (fun b1 v1 r1 => IH (f_ty ef) (f_bare ef) _ b1 v1 r1) n b' es r E).
    cbn [norm]. rewrite Et. reflexivity.
Qed.

(** content whose dictionaries are all sorted is unchanged by the normalisation: both variants hold the same *)
Lemma norm_fields_id s : forall fs fds,
  Forall (Popt (fun x => forall t, dicts_sorted s t x = true -> norm s t x = x)) fs ->
  (fix fsd (fds : list field) (fs : list (option value)) {struct fs} : bool :=
     match fs, fds with
     | o :: fs', fd :: fds' => (match o with Some x => dicts_sorted s (f_ty fd) x | None => true end) && fsd fds' fs'
     | _, _ => true
     end) fds fs = true ->
  norm_fields s fds fs = fs.
Proof.
  induction fs as [|o fs IH]; intros [|fd fds] HF H; cbn [norm_fields]; try reflexivity.
  apply Forall_cons_iff in HF as [Ho HF']. apply andb_true_iff in H as [H1 H2].
  rewrite (IH fds HF' H2). destruct o as [x|]; [|reflexivity]. cbn [Popt] in Ho. now rewrite (Ho _ H1).
Qed.

Theorem norm_sorted_id s : forall v t, dicts_sorted s t v = true -> norm s t v = v.
Proof.
  induction v as [n|str|bv|fs IH|idx fs IH|es IH] using value_ind'; intros t H; try reflexivity.
  - cbn [norm dicts_sorted] in *. destruct (nth_error s t) as [[p|tag fds|vars|k ef|kp ef]|]; try reflexivity.
    f_equal. change ((fix nf (fds0 : list field) (fs0 : list (option value)) {struct fs0} : list (option value) :=
      match fs0, fds0 with
      | o :: fs', fd :: fds' => (match o with Some x => Some (norm s (f_ty fd) x) | None => None end) :: nf fds' fs'
      | _, _ => fs0
      end) fds fs) with (norm_fields s fds fs). now apply norm_fields_id.
  - cbn [norm dicts_sorted] in *. destruct (nth_error s t) as [[p|tag fds|vars|k ef|kp ef]|]; try reflexivity.
    destruct (nth_error vars idx) as [vt|]; [|reflexivity].
    destruct (nth_error s vt) as [[p|tag fds|vars'|k ef|kp ef]|]; try reflexivity.
    f_equal. change ((fix nf (fds0 : list field) (fs0 : list (option value)) {struct fs0} : list (option value) :=
      match fs0, fds0 with
      | o :: fs', fd :: fds' => (match o with Some x => Some (norm s (f_ty fd) x) | None => None end) :: nf fds' fs'
      | _, _ => fs0
      end) fds fs) with (norm_fields s fds fs). now apply norm_fields_id.
  - cbn [norm dicts_sorted] in *. destruct (nth_error s t) as [[p|tag fds|vars|k ef|kp ef]|]; try reflexivity.
    + f_equal. rewrite forallb_forall in H. rewrite Forall_forall in IH.
      rewrite <- (map_id es) at 2. apply map_ext_in. intros e He. apply IH; [exact He|now apply H].
    + apply andb_true_iff in H as [Hk H]. f_equal. rewrite forallb_forall in H. rewrite Forall_forall in IH.
      assert (E : map (norm s (f_ty ef)) es = es).
      { rewrite <- (map_id es) at 2. apply map_ext_in. intros e He. apply IH; [exact He|now apply H]. }
      rewrite E. now apply sort_dedup_sorted.
Qed.

(** ** the bytes-variant schema is well formed when the schema is; round trip across the variants *)
Lemma struct_tag_slice s vt : struct_tag (to_slice s) vt = struct_tag s vt.
Proof. unfold struct_tag. rewrite nth_slice. destruct (nth_error s vt) as [[| | | |]|]; reflexivity. Qed.

Lemma wf_slice s : wf_schema s = true -> wf_schema (to_slice s) = true.
Proof.
  unfold wf_schema. intro H. rewrite forallb_forall in *. intros d' Hd'. unfold to_slice in Hd'.
  apply in_map_iff in Hd'. destruct Hd' as [d [<- Hd]]. specialize (H d Hd).
  destruct d as [p|tag fds|vars|k ef|kp ef]; cbn [slice_def tydef_ok] in *; try exact H; try reflexivity.
  rewrite (map_ext _ _ (struct_tag_slice s)). exact H.
Qed.

(** what the string variant writes, the bytes variant reads back as the same content (and vice versa for
    sorted content, by [enc_slice_eq] and [dec_map_vs_slice]) *)
Theorem cross_roundtrip san s : wf_schema s = true ->
  forall v fuel t bare ps b rest, (vdepth v <= fuel)%nat ->
  enc1 san s t bare ps v = Some b ->
  dec1 fuel san (to_slice s) t bare ps (b ++ rest) = Some (Ok (v, rest)).
Proof.
  intros Hwf v fuel t bare ps b rest Hd H.
  apply (enc1_dec1 san (to_slice s) (wf_slice s Hwf) v fuel Hd t bare ps b rest). now apply enc_slice_eq.
Qed.
