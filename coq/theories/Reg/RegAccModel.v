(** RegAcc -- generated field accessors SetX / ClearX / IsSetX of ONE struct (C43).
    Mirrors internal/puregen/gengo/qt_struct.qtpl (fieldMaskGettersAndSetters, and the presence tests of
    the generated WriteTL1 / WriteJSONOpt / InternalWriteTL2) on the Go object state of one struct:
    the stored value of EVERY field (a conditional field keeps a value in the Go struct even when its bit
    is clear; [None] = the Go zero value), the tl2mask bits, and -- outside the object, owned by the
    caller -- the nat parameters, which accessors of externally masked fields update through a *uint32.
    Nested field values are wire values of Tl1Model (opaque here).  Executable definitions only. *)
From TLV Require Export Tl1.Tl1Model.
Open Scope N_scope.

(** what the accessor generator looks at, per field, beyond Tl1Model.field *)
Record afield := mkAF {
  af_field : field;
  af_isbit : bool;              (* Field.IsBit(): `true` under a field mask / TL2 bit: no Go field, Set(v bool), no Clear *)
  af_tl2bit : option N;         (* Field.MaskTL2Bit(): index into the tl2mask bytes when TL2 code is generated *)
  af_omitted : bool             (* Field.IsTL2Omitted(): name starts with '_' *)
}.

Record ostate := mkO {
  o_vals : list (option value); (* stored field values, [None] = Go zero value *)
  o_tl2 : N                     (* tl2mask0, tl2mask1, ... as one little-endian bit vector *)
}.

(** fieldMaskGettersAndSetters: which fields get accessors *)
Definition has_acc (af : afield) : bool :=
  negb (af_omitted af) &&
  match f_mask (af_field af), af_tl2bit af with
  | None, None => false
  | Some (NNum _, _), _ => false
  | _, _ => true
  end.

(** Set/Clear of an externally masked field take a *uint32, IsSet (without TL2) a uint32 *)
Definition mask_is_param (af : afield) : option nat :=
  match f_mask (af_field af) with
  | Some (NParam k, _) => Some k
  | _ => None
  end.

(** * the Go zero value as a wire value under given nat arguments (what the writers emit for a
    never-assigned field) *)
Fixpoint zero_fields (zero : nat -> list N -> value) (ps : list N) (fds : list field) (acc : list (option value))
  : list (option value) :=
  match fds with
  | [] => acc
  | fd :: fds' =>
      let o := if field_present ps acc fd then Some (zero (f_ty fd) (eval_args ps acc (f_args fd))) else None in
      zero_fields zero ps fds' (acc ++ [o])
  end.

Fixpoint zero_val (fuel : nat) (s : schema) (t : nat) (ps : list N) : value :=
  match fuel with
  | O => VStruct []
  | S fuel' =>
      match nth_error s t with
      | Some (TPrim PString) => VStr []
      | Some (TPrim (PBool _ _)) => VBool false
      | Some (TPrim _) => VNum 0
      | Some (TStruct _ fds) => VStruct (zero_fields (zero_val fuel' s) ps fds [])
      | Some (TUnion vars) =>
          match vars with
          | vt :: _ =>
              match nth_error s vt with
              | Some (TStruct _ fds) => VUnion 0 (zero_fields (zero_val fuel' s) ps fds [])
              | _ => VUnion 0 []
              end
          | [] => VUnion 0 []
          end
      | Some (TArray (ATupleFixed c) ef) =>
          VArr (repeat (zero_val fuel' s (f_ty ef) (eval_args ps [] (f_args ef))) (N.to_nat c))
      | Some (TArray _ _) | Some (TDict _ _) => VArr []
      | None => VStruct []
      end
  end.

(** * raw view of the object: the value every Go field holds *)
Fixpoint raw_from (fuel : nat) (s : schema) (ps : list N) (fds : list field) (st : list (option value))
         (acc : list (option value)) : list (option value) :=
  match fds, st with
  | fd :: fds', x :: st' =>
      let v := match x with
               | Some v => v
               | None => zero_val fuel s (f_ty fd) (eval_args ps acc (f_args fd))
               end in
      raw_from fuel s ps fds' st' (acc ++ [Some v])
  | _, _ => acc
  end.

Definition zfuel (s : schema) : nat := S (S (length s)).
Definition raw (s : schema) (ps : list N) (afs : list afield) (o : ostate) : list (option value) :=
  raw_from (zfuel s) s ps (map af_field afs) (o_vals o) [].

(** the nat a Go field holds (a # field that was never assigned holds 0) *)
Definition stored_nat (o : ostate) (m : nat) : N :=
  match nth_error (o_vals o) m with
  | Some (Some (VNum n)) => n
  | _ => 0
  end.

(** the generated presence test of the TL1 writer: `item.M&(1<<bit) != 0` / `nat_m&(1<<bit) != 0`
    on the RAW mask value (whether or not the mask field itself is present) *)
Definition mask_value (ps : list N) (o : ostate) (a : natarg) : N :=
  match a with
  | NNum n => n
  | NField m => stored_nat o m
  | NParam k => nth k ps 0
  end.

Definition tl1_present (ps : list N) (o : ostate) (af : afield) : bool :=
  match f_mask (af_field af) with
  | None => true
  | Some (a, bit) => N.testbit (mask_value ps o a) bit
  end.

(** the value the TL1 writer sees: [Some] of the stored value exactly for the fields it emits *)
Definition wire_of (s : schema) (ps : list N) (afs : list afield) (o : ostate) : list (option value) :=
  map (fun p => if tl1_present ps o (fst p) then snd p else None) (combine afs (raw s ps afs o)).

(** generated WriteTL1 (bare) / WriteTL1Boxed of the struct: fields in order, each under its raw test,
    nat arguments of field types evaluated on the raw values *)
Definition enc_obj (san : bool) (s : schema) (tag : N) (bare : bool) (ps : list N) (afs : list afield) (o : ostate)
  : option bytes :=
  bind_opt (enc_fields (fun t' b' ps' v' => enc1 san s t' b' ps' v') ps (raw s ps afs o) (map af_field afs) (wire_of s ps afs o))
           (fun body => Some (if bare then body else nat_w tag ++ body)).

(** * accessors *)
Fixpoint upd {A} (l : list A) (i : nat) (x : A) : list A :=
  match l, i with
  | [], _ => []
  | _ :: r, O => x :: r
  | y :: r, S i' => y :: upd r i' x
  end.

Definition bit_on (n bit : N) : N := N.lor n (N.shiftl 1 bit).          (* n |= 1 << bit *)
Definition bit_off (n bit : N) : N := N.ldiff n (N.shiftl 1 bit).       (* n &^= 1 << bit *)
Definition bit_op (on : bool) := if on then bit_on else bit_off.

(** the TL1 mask update; [ext] = the *uint32 argument is not nil *)
Definition upd_mask (on : bool) (af : afield) (ext : bool) (st : ostate * list N) : ostate * list N :=
  let (o, ps) := st in
  match f_mask (af_field af) with
  | Some (NField m, bit) => (mkO (upd (o_vals o) m (Some (VNum (bit_op on (stored_nat o m) bit)))) (o_tl2 o), ps)
  | Some (NParam k, bit) => if ext then (o, upd ps k (bit_op on (nth k ps 0) bit)) else (o, ps)
  | _ => (o, ps)
  end.

Definition upd_tl2 (on : bool) (af : afield) (o : ostate) : ostate :=
  match af_tl2bit af with
  | Some b => mkO (o_vals o) (bit_op on (o_tl2 o) b)
  | None => o
  end.

(** SetX(v[, nat *uint32]) of a field that has a Go field: assign, set the TL1 mask bit, set the TL2 bit *)
Definition acc_set (afs : list afield) (i : nat) (x : value) (ext : bool) (st : ostate * list N) : ostate * list N :=
  match nth_error afs i with
  | Some af =>
      let (o, ps) := st in
      let o1 := mkO (upd (o_vals o) i (Some x)) (o_tl2 o) in
      let (o2, ps2) := upd_mask true af ext (o1, ps) in
      (upd_tl2 true af o2, ps2)
  | None => st
  end.

(** SetX(v bool[, nat *uint32]) of a bit field: no value; both masks follow v *)
Definition acc_setbit (afs : list afield) (i : nat) (v : bool) (ext : bool) (st : ostate * list N) : ostate * list N :=
  match nth_error afs i with
  | Some af =>
      let (o2, ps2) := upd_mask v af ext st in
      (upd_tl2 v af o2, ps2)
  | None => st
  end.

(** ClearX([nat *uint32]): reset the Go field, clear both bits *)
Definition acc_clear (afs : list afield) (i : nat) (ext : bool) (st : ostate * list N) : ostate * list N :=
  match nth_error afs i with
  | Some af =>
      let (o, ps) := st in
      let o1 := mkO (upd (o_vals o) i None) (o_tl2 o) in
      let (o2, ps2) := upd_mask false af ext (o1, ps) in
      (upd_tl2 false af o2, ps2)
  | None => st
  end.

(** IsSetX(): the TL2 bit when there is one, else the TL1 mask bit (a uint32 argument for external masks) *)
Definition acc_isset (afs : list afield) (i : nat) (st : ostate * list N) : bool :=
  match nth_error afs i with
  | Some af =>
      match af_tl2bit af with
      | Some b => N.testbit (o_tl2 (fst st)) b
      | None => tl1_present (snd st) (fst st) af
      end
  | None => false
  end.

(** what the JSON and TL2 writers test (when TL2 code is generated the field has a TL2 bit and they test it;
    otherwise JSON tests the TL1 mask and there is no TL2 writer) *)
Definition json_present (afs : list afield) (i : nat) (st : ostate * list N) : bool := acc_isset afs i st.

(** * object state after the generated ReadTL1: stored values of absent fields are reset (zero),
    TL2 bits follow the TL1 presence *)
Fixpoint tl2_after_read (afs : list afield) (fs : list (option value)) : N :=
  match afs, fs with
  | af :: afs', x :: fs' =>
      let r := tl2_after_read afs' fs' in
      match af_tl2bit af, f_mask (af_field af), x with
      | Some b, Some _, Some _ => bit_on r b
      | _, _, _ => r
      end
  | _, _ => 0
  end.

Definition of_wire (afs : list afield) (fs : list (option value)) : ostate := mkO fs (tl2_after_read afs fs).
Definition fresh_obj (afs : list afield) : ostate := mkO (map (fun _ => None) afs) 0.
