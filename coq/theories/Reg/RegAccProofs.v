(** Proofs about the accessor model (C43). *)
From Coq Require Import ZArith Lia ZifyN ZifyNat ZifyBool.
From TLV Require Import Prim.PrimModel Tl1.Tl1Model Reg.RegAccModel.
Open Scope N_scope.

(** ** bits *)
Lemma bit_on_same n b : N.testbit (bit_on n b) b = true.
Proof. unfold bit_on. rewrite N.lor_spec, N.shiftl_1_l, N.pow2_bits_true. apply orb_true_r. Qed.

Lemma bit_on_other n b j : j <> b -> N.testbit (bit_on n b) j = N.testbit n j.
Proof. intro H. unfold bit_on. rewrite N.lor_spec, N.shiftl_1_l, N.pow2_bits_false by congruence. apply orb_false_r. Qed.

Lemma bit_off_same n b : N.testbit (bit_off n b) b = false.
Proof. unfold bit_off. rewrite N.ldiff_spec, N.shiftl_1_l, N.pow2_bits_true. apply andb_false_r. Qed.

Lemma bit_off_other n b j : j <> b -> N.testbit (bit_off n b) j = N.testbit n j.
Proof. intro H. unfold bit_off. rewrite N.ldiff_spec, N.shiftl_1_l, N.pow2_bits_false by congruence. apply andb_true_r. Qed.

Lemma bit_op_same on n b : N.testbit (bit_op on n b) b = on.
Proof. destruct on; [apply bit_on_same|apply bit_off_same]. Qed.

Lemma bit_op_other on n b j : j <> b -> N.testbit (bit_op on n b) j = N.testbit n j.
Proof. destruct on; [apply bit_on_other|apply bit_off_other]. Qed.

(** uint32 stays uint32 *)
Lemma bit_op_bound on n b : n < 2 ^ 32 -> b < 32 -> bit_op on n b < 2 ^ 32.
Proof.
  intros Hn Hb. destruct (N.eq_dec (bit_op on n b) 0) as [E|E]; [rewrite E; reflexivity|].
  apply N.log2_lt_pow2; [lia|].
  destruct (N.lt_ge_cases (N.log2 (bit_op on n b)) 32) as [H|H]; [exact H|exfalso].
  assert (Ht : N.testbit (bit_op on n b) (N.log2 (bit_op on n b)) = true) by (apply N.bit_log2; exact E).
  rewrite bit_op_other in Ht by lia.
  destruct (N.eq_dec n 0) as [->|Hn0]; [rewrite N.bits_0 in Ht; discriminate|].
  assert (N.log2 n < 32) by (apply N.log2_lt_pow2; lia).
  rewrite N.bits_above_log2 in Ht by lia. discriminate.
Qed.

(** ** list update *)
Lemma upd_length {A} (l : list A) : forall i x, length (upd l i x) = length l.
Proof. induction l as [|y r IH]; intros [|i] x; cbn [upd length]; auto. Qed.

Lemma upd_same {A} (l : list A) : forall i x, (i < length l)%nat -> nth_error (upd l i x) i = Some x.
Proof. induction l as [|y r IH]; intros [|i] x H; cbn [upd nth_error length] in *; try lia; auto. apply IH. lia. Qed.

Lemma upd_other {A} (l : list A) : forall i j x, i <> j -> nth_error (upd l i x) j = nth_error l j.
Proof. induction l as [|y r IH]; intros [|i] [|j] x H; cbn [upd nth_error]; auto; try congruence. Qed.

Lemma upd_nth_other {A} (l : list A) i j x d : i <> j -> nth j (upd l i x) d = nth j l d.
Proof.
  intro H. revert i j H. induction l as [|y r IH]; intros [|i] [|j] H; cbn [upd nth]; auto; try congruence.
Qed.

Lemma upd_nth_same {A} (l : list A) i x d : (i < length l)%nat -> nth i (upd l i x) d = x.
Proof. revert i. induction l as [|y r IH]; intros [|i] H; cbn [upd nth length] in *; try lia; auto. apply IH. lia. Qed.

Lemma stored_nat_upd_same o m n tl2 : (m < length (o_vals o))%nat ->
  stored_nat (mkO (upd (o_vals o) m (Some (VNum n))) tl2) m = n.
Proof. intro H. unfold stored_nat. cbn [o_vals]. now rewrite upd_same. Qed.

Lemma stored_nat_upd_other o i x tl2 m : i <> m ->
  stored_nat (mkO (upd (o_vals o) i x) tl2) m = stored_nat o m.
Proof. intro H. unfold stored_nat. cbn [o_vals]. now rewrite upd_other. Qed.

(** ** well-formed accessor situation: the field exists, its mask (if a local field) is an EARLIER field that exists *)
Definition mask_wf (af : afield) (i : nat) (o : ostate) : Prop :=
  (i < length (o_vals o))%nat /\
  match f_mask (af_field af) with
  | Some (NField m, _) => (m < i)%nat
  | _ => True
  end.

(** the accessor's effect is observable: there is a TL2 bit, or the TL1 mask is reachable
    (a local field, or a parameter passed by non-nil pointer that exists) *)
Definition tl1_reachable (af : afield) (ext : bool) (ps : list N) : Prop :=
  match f_mask (af_field af) with
  | Some (NField _, _) => True
  | Some (NParam k, _) => ext = true /\ (k < length ps)%nat
  | _ => False
  end.

Lemma upd_mask_present on af ext o ps i :
  mask_wf af i o -> tl1_reachable af ext ps ->
  let st' := upd_mask on af ext (o, ps) in tl1_present (snd st') (fst st') af = on.
Proof.
  intros [Hi Hm] Hr. unfold tl1_reachable in Hr. unfold upd_mask, tl1_present.
  destruct (f_mask (af_field af)) as [[[n|m|k] bit]|]; try contradiction.
  - cbn [fst snd mask_value]. rewrite stored_nat_upd_same by lia. apply bit_op_same.
  - destruct Hr as [-> Hk]. cbn [fst snd mask_value]. rewrite upd_nth_same by exact Hk. apply bit_op_same.
Qed.

(** ** Set makes IsSet true, Clear makes it false *)
Theorem isset_after_set afs i af x ext o ps :
  nth_error afs i = Some af -> mask_wf af i o ->
  (af_tl2bit af <> None \/ tl1_reachable af ext ps) ->
  acc_isset afs i (acc_set afs i x ext (o, ps)) = true.
Proof.
  intros Hn Hwf Hobs. unfold acc_set, acc_isset. rewrite Hn.
  destruct (upd_mask true af ext (mkO (upd (o_vals o) i (Some x)) (o_tl2 o), ps)) as [o2 ps2] eqn:E.
  cbn [fst snd]. unfold upd_tl2. destruct (af_tl2bit af) as [b|] eqn:Eb.
  - cbn [o_tl2]. apply bit_on_same.
  - destruct Hobs as [H|Hr]; [congruence|].
    assert (Hwf' : mask_wf af i (mkO (upd (o_vals o) i (Some x)) (o_tl2 o))).
    { destruct Hwf as [A B]. split; [cbn [o_vals]; now rewrite upd_length|exact B]. }
    pose proof (upd_mask_present true af ext _ ps i Hwf' Hr) as P. cbn zeta in P. rewrite E in P. exact P.
Qed.

Theorem isset_after_clear afs i af ext o ps :
  nth_error afs i = Some af -> mask_wf af i o ->
  (af_tl2bit af <> None \/ tl1_reachable af ext ps) ->
  acc_isset afs i (acc_clear afs i ext (o, ps)) = false.
Proof.
  intros Hn Hwf Hobs. unfold acc_clear, acc_isset. rewrite Hn.
  destruct (upd_mask false af ext (mkO (upd (o_vals o) i None) (o_tl2 o), ps)) as [o2 ps2] eqn:E.
  cbn [fst snd]. unfold upd_tl2. destruct (af_tl2bit af) as [b|] eqn:Eb.
  - cbn [o_tl2]. apply bit_off_same.
  - destruct Hobs as [H|Hr]; [congruence|].
    assert (Hwf' : mask_wf af i (mkO (upd (o_vals o) i None) (o_tl2 o))).
    { destruct Hwf as [A B]. split; [cbn [o_vals]; now rewrite upd_length|exact B]. }
    pose proof (upd_mask_present false af ext _ ps i Hwf' Hr) as P. cbn zeta in P. rewrite E in P. exact P.
Qed.

Theorem isset_after_setbit afs i af v ext o ps :
  nth_error afs i = Some af -> mask_wf af i o ->
  (af_tl2bit af <> None \/ tl1_reachable af ext ps) ->
  acc_isset afs i (acc_setbit afs i v ext (o, ps)) = v.
Proof.
  intros Hn Hwf Hobs. unfold acc_setbit, acc_isset. rewrite Hn.
  destruct (upd_mask v af ext (o, ps)) as [o2 ps2] eqn:E.
  cbn [fst snd]. unfold upd_tl2. destruct (af_tl2bit af) as [b|] eqn:Eb.
  - cbn [o_tl2]. apply bit_op_same.
  - destruct Hobs as [H|Hr]; [congruence|].
    pose proof (upd_mask_present v af ext o ps i Hwf Hr) as P. cbn zeta in P. rewrite E in P. exact P.
Qed.

(** ** frame conditions: exactly what an accessor touches.
    One statement for the three accessors: [step] is the state transformer
    "store [newval] at [i] (or leave it), then update the TL1 mask, then the TL2 bit". *)
Definition acc_step (on : bool) (store : option (option value)) (af : afield) (i : nat) (ext : bool)
           (st : ostate * list N) : ostate * list N :=
  let (o, ps) := st in
  let o1 := match store with Some nv => mkO (upd (o_vals o) i nv) (o_tl2 o) | None => o end in
  let (o2, ps2) := upd_mask on af ext (o1, ps) in
  (upd_tl2 on af o2, ps2).

Lemma acc_set_step afs i af x ext st : nth_error afs i = Some af ->
  acc_set afs i x ext st = acc_step true (Some (Some x)) af i ext st.
Proof. intro H. unfold acc_set, acc_step. rewrite H. destruct st. reflexivity. Qed.
Lemma acc_clear_step afs i af ext st : nth_error afs i = Some af ->
  acc_clear afs i ext st = acc_step false (Some None) af i ext st.
Proof. intro H. unfold acc_clear, acc_step. rewrite H. destruct st. reflexivity. Qed.
Lemma acc_setbit_step afs i af v ext st : nth_error afs i = Some af ->
  acc_setbit afs i v ext st = acc_step v None af i ext st.
Proof. intro H. unfold acc_setbit, acc_step. rewrite H. destruct st. reflexivity. Qed.

(** stored values: only field [i] and -- one bit of -- the local mask field change *)
Theorem frame_values on store af i ext o ps g :
  g <> i ->
  (forall m bit, f_mask (af_field af) = Some (NField m, bit) -> g <> m) ->
  nth_error (o_vals (fst (acc_step on store af i ext (o, ps)))) g = nth_error (o_vals o) g.
Proof.
  intros Hg Hm. unfold acc_step, upd_mask, upd_tl2.
  set (o1 := match store with Some nv => mkO (upd (o_vals o) i nv) (o_tl2 o) | None => o end).
  assert (H1 : nth_error (o_vals o1) g = nth_error (o_vals o) g).
  { subst o1. destruct store; [cbn [o_vals]; apply upd_other; congruence|reflexivity]. }
  destruct (f_mask (af_field af)) as [[[n|m|k] bit]|] eqn:E.
  - destruct (af_tl2bit af); cbn [fst o_vals]; exact H1.
  - assert (g <> m) by (eapply Hm; reflexivity).
    destruct (af_tl2bit af); cbn [fst o_vals]; rewrite upd_other by congruence; exact H1.
  - destruct ext; destruct (af_tl2bit af); cbn [fst o_vals]; exact H1.
  - destruct (af_tl2bit af); cbn [fst o_vals]; exact H1.
Qed.

(** the local mask field: only bit [bit] changes *)
Theorem frame_mask_field on store af i ext o ps m bit j :
  f_mask (af_field af) = Some (NField m, bit) -> m <> i -> (m < length (o_vals o))%nat -> j <> bit ->
  N.testbit (stored_nat (fst (acc_step on store af i ext (o, ps))) m) j = N.testbit (stored_nat o m) j.
Proof.
  intros E Hmi Hm Hj. unfold acc_step, upd_mask, upd_tl2. rewrite E.
  set (o1 := match store with Some nv => mkO (upd (o_vals o) i nv) (o_tl2 o) | None => o end).
  assert (H1 : stored_nat o1 m = stored_nat o m).
  { subst o1. destruct store; [apply stored_nat_upd_other; congruence|reflexivity]. }
  assert (L1 : (m < length (o_vals o1))%nat).
  { subst o1. destruct store; [cbn [o_vals]; now rewrite upd_length|exact Hm]. }
  assert (forall tl2, N.testbit (stored_nat (mkO (upd (o_vals o1) m (Some (VNum (bit_op on (stored_nat o1 m) bit)))) tl2) m) j
                      = N.testbit (stored_nat o m) j) as K.
  { intro tl2. rewrite stored_nat_upd_same by exact L1. rewrite bit_op_other by exact Hj. now rewrite H1. }
  destruct (af_tl2bit af); cbn [fst]; apply K.
Qed.

(** the TL2 mask: only bit [tl2bit] changes *)
Theorem frame_tl2 on store af i ext o ps j :
  (forall b, af_tl2bit af = Some b -> j <> b) ->
  N.testbit (o_tl2 (fst (acc_step on store af i ext (o, ps)))) j = N.testbit (o_tl2 o) j.
Proof.
  intros Hb. unfold acc_step, upd_tl2.
  set (o1 := match store with Some nv => mkO (upd (o_vals o) i nv) (o_tl2 o) | None => o end).
  assert (H1 : o_tl2 o1 = o_tl2 o) by (subst o1; destruct store; reflexivity).
  assert (H2 : o_tl2 (fst (upd_mask on af ext (o1, ps))) = o_tl2 o).
  { unfold upd_mask. destruct (f_mask (af_field af)) as [[[n|m|k] bit]|]; cbn [fst o_tl2]; try exact H1.
    destruct ext; cbn [fst]; exact H1. }
  destruct (upd_mask on af ext (o1, ps)) as [o2 ps2]. cbn [fst] in *.
  destruct (af_tl2bit af) as [b|] eqn:Eb; cbn [fst o_tl2]; [|now rewrite H2].
  rewrite bit_op_other by (apply Hb; reflexivity). now rewrite H2.
Qed.

(** the caller's nat parameters: only bit [bit] of the mask parameter changes, and only through a non-nil pointer *)
Theorem frame_params on store af i ext o ps k j :
  (forall k0 bit, f_mask (af_field af) = Some (NParam k0, bit) -> ext = true -> k = k0 -> j <> bit) ->
  N.testbit (nth k (snd (acc_step on store af i ext (o, ps))) 0) j = N.testbit (nth k ps 0) j.
Proof.
  intros H. unfold acc_step, upd_mask.
  set (o1 := match store with Some nv => mkO (upd (o_vals o) i nv) (o_tl2 o) | None => o end).
  destruct (f_mask (af_field af)) as [[[n|m|k0] bit]|] eqn:E; cbn [snd]; try reflexivity.
  destruct ext; cbn [snd]; [|reflexivity].
  destruct (Nat.eq_dec k0 k) as [->|Hk].
  - destruct (Nat.lt_ge_cases k (length ps)) as [Hl|Hl].
    + rewrite upd_nth_same by exact Hl. apply bit_op_other. eapply H; reflexivity.
    + assert (Hu : upd ps k (bit_op on (nth k ps 0) bit) = ps).
      { clear -Hl. revert k Hl. induction ps as [|y r IH]; intros [|k] Hl; cbn [upd length] in *; try reflexivity; try lia.
        f_equal. apply IH. lia. }
      now rewrite Hu.
  - now rewrite upd_nth_other.
Qed.

(** ** the raw view and the wire value *)
Lemma raw_from_nth fuel s ps : forall fds st acc j v,
  nth_error st j = Some (Some v) -> (j < length fds)%nat ->
  nth_error (raw_from fuel s ps fds st acc) (length acc + j) = Some (Some v).
Proof.
  induction fds as [|fd fds IH]; intros st acc j v Hs Hj; [cbn in Hj; lia|].
  destruct st as [|x st]; [destruct j; discriminate|]. cbn [raw_from].
  destruct j as [|j]; cbn [nth_error] in Hs.
  - inversion Hs; subst x. clear IH.
    assert (G : forall fds st acc0 (e : option value) k, nth_error acc0 k = Some e ->
                nth_error (raw_from fuel s ps fds st acc0) k = Some e).
    { clear. induction fds as [|fd fds IH]; intros st acc0 e k H; [destruct st; exact H|].
      destruct st as [|x st]; [exact H|]. cbn [raw_from]. apply IH.
      rewrite nth_error_app1; [exact H|]. apply nth_error_Some. congruence. }
    apply G. rewrite Nat.add_0_r. rewrite nth_error_app2 by lia. now rewrite Nat.sub_diag.
  - specialize (IH st (acc ++ [Some match x with Some v0 => v0 | None => zero_val fuel s (f_ty fd) (eval_args ps acc (f_args fd)) end]) j v Hs).
    rewrite app_length in IH. cbn [length] in IH. replace (length acc + S j)%nat with (length acc + 1 + j)%nat by lia.
    apply IH. cbn [length] in Hj. lia.
Qed.

Lemma raw_from_length fuel s ps : forall fds st acc,
  length st = length fds -> length (raw_from fuel s ps fds st acc) = (length acc + length fds)%nat.
Proof.
  induction fds as [|fd fds IH]; intros st acc H; destruct st as [|x st]; cbn [raw_from length] in *; try lia.
  rewrite IH by lia. rewrite app_length. cbn [length]. lia.
Qed.

(** the TL1 writer sees [Some x] at a field whose stored value is [x] and whose test succeeds, [None] when it fails *)
Lemma wire_of_nth s ps afs o i af :
  nth_error afs i = Some af -> length (o_vals o) = length afs ->
  forall v, nth_error (o_vals o) i = Some (Some v) ->
  nth_error (wire_of s ps afs o) i = Some (if tl1_present ps o af then Some v else None).
Proof.
  intros Ha Hl v Hv. unfold wire_of.
  assert (Hr : nth_error (raw s ps afs o) i = Some (Some v)).
  { unfold raw. apply (raw_from_nth (zfuel s) s ps (map af_field afs) (o_vals o) [] i v Hv).
    rewrite map_length. apply nth_error_Some. congruence. }
  rewrite nth_error_map.
  assert (Hc : nth_error (combine afs (raw s ps afs o)) i = Some (af, Some v)).
  { clear -Ha Hr. revert i Ha Hr. generalize (raw s ps afs o). induction afs as [|a r IH]; intros l i Ha Hr; [destruct i; discriminate|].
    destruct l as [|y l]; [destruct i; discriminate|]. destruct i as [|i]; cbn [combine nth_error] in *.
    - now inversion Ha; inversion Hr.
    - now apply IH. }
  rewrite Hc. reflexivity.
Qed.

Lemma wire_of_absent s ps afs o i af :
  nth_error afs i = Some af -> length (o_vals o) = length afs -> tl1_present ps o af = false ->
  nth_error (wire_of s ps afs o) i = Some None.
Proof.
  intros Ha Hl Hp. unfold wire_of. rewrite nth_error_map.
  assert (Hlen : length (raw s ps afs o) = length afs).
  { unfold raw. rewrite raw_from_length; rewrite map_length; [reflexivity|exact Hl]. }
  assert (exists y, nth_error (combine afs (raw s ps afs o)) i = Some (af, y)) as [y Hc].
  { clear -Ha Hlen. revert i Ha Hlen. generalize (raw s ps afs o). induction afs as [|a r IH]; intros l i Ha Hlen; [destruct i; discriminate|].
    destruct l as [|y l]; [discriminate|]. destruct i as [|i]; cbn [combine nth_error length] in *.
    - inversion Ha; subst. now exists y.
    - apply IH; [exact Ha|lia]. }
  rewrite Hc. cbn [option_map fst snd]. now rewrite Hp.
Qed.

(** after Set the TL1 writer sees [Some x] at the field; after Clear it sees [None] *)
Theorem wire_after_set s afs i af x ext o ps :
  nth_error afs i = Some af -> length (o_vals o) = length afs -> mask_wf af i o -> tl1_reachable af ext ps ->
  let st' := acc_set afs i x ext (o, ps) in
  nth_error (wire_of s (snd st') afs (fst st')) i = Some (Some x).
Proof.
  intros Ha Hl Hwf Hr. cbn zeta. unfold acc_set. rewrite Ha.
  set (o1 := mkO (upd (o_vals o) i (Some x)) (o_tl2 o)).
  assert (Hwf1 : mask_wf af i o1).
  { destruct Hwf as [A B]. split; [subst o1; cbn [o_vals]; now rewrite upd_length|exact B]. }
  pose proof (upd_mask_present true af ext o1 ps i Hwf1 Hr) as P. cbn zeta in P.
  destruct (upd_mask true af ext (o1, ps)) as [o2 ps2] eqn:E. cbn [fst snd] in *.
  assert (Hv2 : nth_error (o_vals o2) i = Some (Some x) /\ length (o_vals o2) = length afs).
  { unfold upd_mask in E. destruct Hwf as [A B].
    destruct (f_mask (af_field af)) as [[[n|m|k] bit]|]; try (inversion E; subst; subst o1; cbn [o_vals]; rewrite upd_length; split; [now apply upd_same|exact Hl]).
    - inversion E; subst. subst o1. cbn [o_vals]. rewrite !upd_length. split; [|exact Hl].
      rewrite upd_other by lia. now apply upd_same.
    - destruct ext; inversion E; subst; subst o1; cbn [o_vals]; rewrite upd_length; split; try exact Hl; now apply upd_same. }
  destruct Hv2 as [Hv2 Hl2].
  assert (Ht : tl1_present ps2 (upd_tl2 true af o2) af = true).
  { unfold upd_tl2. destruct (af_tl2bit af); [|exact P]. unfold tl1_present, mask_value, stored_nat in *. cbn [o_vals]. exact P. }
  assert (Hv3 : nth_error (o_vals (upd_tl2 true af o2)) i = Some (Some x) /\ length (o_vals (upd_tl2 true af o2)) = length afs).
  { unfold upd_tl2. destruct (af_tl2bit af); cbn [o_vals]; auto. }
  destruct Hv3 as [Hv3 Hl3].
  rewrite (wire_of_nth s ps2 afs _ i af Ha Hl3 x Hv3). now rewrite Ht.
Qed.

Theorem wire_after_clear s afs i af ext o ps :
  nth_error afs i = Some af -> length (o_vals o) = length afs -> mask_wf af i o -> tl1_reachable af ext ps ->
  let st' := acc_clear afs i ext (o, ps) in
  nth_error (wire_of s (snd st') afs (fst st')) i = Some None.
Proof.
  intros Ha Hl Hwf Hr. cbn zeta. unfold acc_clear. rewrite Ha.
  set (o1 := mkO (upd (o_vals o) i None) (o_tl2 o)).
  assert (Hwf1 : mask_wf af i o1).
  { destruct Hwf as [A B]. split; [subst o1; cbn [o_vals]; now rewrite upd_length|exact B]. }
  pose proof (upd_mask_present false af ext o1 ps i Hwf1 Hr) as P. cbn zeta in P.
  destruct (upd_mask false af ext (o1, ps)) as [o2 ps2] eqn:E. cbn [fst snd] in *.
  assert (Hl2 : length (o_vals o2) = length afs).
  { unfold upd_mask in E.
    destruct (f_mask (af_field af)) as [[[n|m|k] bit]|]; try (inversion E; subst; subst o1; cbn [o_vals]; now rewrite upd_length).
    - inversion E; subst. subst o1. cbn [o_vals]. now rewrite !upd_length.
    - destruct ext; inversion E; subst; subst o1; cbn [o_vals]; now rewrite upd_length. }
  assert (Ht : tl1_present ps2 (upd_tl2 false af o2) af = false).
  { unfold upd_tl2. destruct (af_tl2bit af); [|exact P]. unfold tl1_present, mask_value, stored_nat in *. cbn [o_vals]. exact P. }
  assert (Hl3 : length (o_vals (upd_tl2 false af o2)) = length afs).
  { unfold upd_tl2. destruct (af_tl2bit af); cbn [o_vals]; auto. }
  apply (wire_of_absent s ps2 afs _ i af Ha Hl3 Ht).
Qed.

(** ** the struct writer on the object is the TL1 codec on that wire value *)
Lemma eval_natarg_ext ps all1 all2 a :
  (forall i, field_nat all1 i = field_nat all2 i) -> eval_natarg ps all1 a = eval_natarg ps all2 a.
Proof. intro H. destruct a; cbn [eval_natarg]; auto. Qed.

Lemma enc_fields_ext rec ps all1 all2 :
  (forall i, field_nat all1 i = field_nat all2 i) ->
  forall vs fds, enc_fields rec ps all1 fds vs = enc_fields rec ps all2 fds vs.
Proof.
  intro H. induction vs as [|ov vs IH]; intros [|fd fds]; cbn [enc_fields]; try reflexivity.
  assert (Hp : field_present ps all1 fd = field_present ps all2 fd).
  { unfold field_present. destruct (f_mask fd) as [[a bit]|]; [|reflexivity]. now rewrite (eval_natarg_ext ps all1 all2 a H). }
  assert (Ha : eval_args ps all1 (f_args fd) = eval_args ps all2 (f_args fd)).
  { unfold eval_args. apply map_ext. intro a. now apply eval_natarg_ext. }
  rewrite Hp, Ha, IH. reflexivity.
Qed.

(** an object state is mask-consistent when every # field the writer skips holds 0 (true of every state
    produced by the generated readers; a Set on a field whose mask field is itself absent breaks it) *)
Definition nat_consistent (s : schema) (ps : list N) (afs : list afield) (o : ostate) : Prop :=
  forall i, field_nat (raw s ps afs o) i = field_nat (wire_of s ps afs o) i.

Theorem enc_obj_is_enc1 san s t tag bare ps afs o :
  nth_error s t = Some (TStruct tag (map af_field afs)) -> nat_consistent s ps afs o ->
  enc_obj san s tag bare ps afs o = enc1 san s t bare ps (VStruct (wire_of s ps afs o)).
Proof.
  intros Ht Hc. unfold enc_obj. cbn [enc1]. rewrite Ht.
  now rewrite (enc_fields_ext _ ps (raw s ps afs o) (wire_of s ps afs o) Hc).
Qed.
