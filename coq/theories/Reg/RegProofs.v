(** Proofs about the registry model (C17). *)
From Coq Require Import ZArith Lia ZifyN ZifyNat ZifyBool.
From TLV Require Import Prim.PrimModel Tl1.Tl1Model Reg.RegModel.
Open Scope N_scope.

(** ** boolean helpers *)
Lemma bytes_eqb_eq a : forall b, bytes_eqb a b = true <-> a = b.
Proof.
  induction a as [|x a IH]; intros [|y b]; cbn [bytes_eqb]; split; intro H; try discriminate; try reflexivity.
  - apply andb_true_iff in H. destruct H as [H1 H2]. apply N.eqb_eq in H1. apply IH in H2. now subst.
  - inversion H; subst. apply andb_true_iff. split; [apply N.eqb_refl|now apply IH].
Qed.

Lemma bytes_eqb_refl a : bytes_eqb a a = true.
Proof. now apply bytes_eqb_eq. Qed.

Lemma nodupb_NoDup {A} (eqb : A -> A -> bool) (Heq : forall x y, eqb x y = true <-> x = y) (l : list A) :
  nodupb eqb l = true <-> NoDup l.
Proof.
  induction l as [|x r IH]; cbn [nodupb].
  - split; [constructor|reflexivity].
  - rewrite andb_true_iff, negb_true_iff, IH. split.
    + intros [H1 H2]. constructor; [|exact H2]. intro Hin.
      assert (existsb (eqb x) r = true) by (apply existsb_exists; exists x; split; [exact Hin|now apply Heq]). congruence.
    + intro H. inversion H as [|? ? Hn Hr]; subst. split; [|exact Hr].
      destruct (existsb (eqb x) r) eqn:E; [|reflexivity].
      apply existsb_exists in E. destruct E as [y [Hy Hxy]]. apply Heq in Hxy. subst. contradiction.
Qed.

Lemma names_okb_NoDup l : names_okb l = true <-> NoDup (map it_name l).
Proof. apply nodupb_NoDup. intros x y. apply bytes_eqb_eq. Qed.

Lemma tags_okb_NoDup l : tags_okb l = true <-> NoDup (nz_tags l).
Proof. apply nodupb_NoDup. intros x y. apply N.eqb_eq. Qed.

(** ** registration *)
Lemma has_name_In n reg : has_name n reg = true <-> In n (map it_name reg).
Proof.
  unfold has_name. rewrite existsb_exists, in_map_iff. split.
  - intros [it [Hin He]]. apply bytes_eqb_eq in He. now exists it.
  - intros [it [He Hin]]. exists it. split; [exact Hin|]. now apply bytes_eqb_eq.
Qed.

Lemma fill_nodup reg it : NoDup (map it_name reg) -> NoDup (map it_name (fill reg it)).
Proof.
  intro H. unfold fill. destruct (has_name (it_name it) reg) eqn:E; [exact H|].
  rewrite map_app. cbn [map].
  assert (Hn : ~ In (it_name it) (map it_name reg)).
  { intro Hin. apply has_name_In in Hin. congruence. }
  clear E. induction (map it_name reg) as [|x r IH]; cbn [app].
  - constructor; [intros []|constructor].
  - inversion H; subst. constructor.
    + rewrite in_app_iff. intros [Hx|[Hx|[]]]; [contradiction|]. apply Hn. left. now symmetry.
    + apply IH; [assumption|]. intro Hin. apply Hn. now right.
Qed.

Lemma fold_fill_nodup cands : forall acc, NoDup (map it_name acc) -> NoDup (map it_name (fold_left fill cands acc)).
Proof. induction cands as [|c r IH]; intros acc H; cbn [fold_left]; [exact H|]. apply IH. now apply fill_nodup. Qed.

Theorem registry_names_nodup all s ms : NoDup (map it_name (registry all s ms)).
Proof. unfold registry. apply fold_fill_nodup. constructor. Qed.

Lemma fold_fill_incl cands : forall acc it, In it (fold_left fill cands acc) -> In it acc \/ In it cands.
Proof.
  induction cands as [|c r IH]; intros acc it H; cbn [fold_left] in H; [now left|].
  apply IH in H. destruct H as [H|H]; [|right; now right].
  unfold fill in H. destruct (has_name (it_name c) acc); [now left|].
  apply in_app_iff in H. destruct H as [H|[H|[]]]; [now left|right; now left].
Qed.

(** when the candidates have distinct names nothing is dropped: the registry IS the candidate list *)
Lemma fold_fill_complete cands : forall acc,
  NoDup (map it_name (acc ++ cands)) -> fold_left fill cands acc = acc ++ cands.
Proof.
  induction cands as [|c r IH]; intros acc H; cbn [fold_left]; [now rewrite app_nil_r|].
  assert (E : has_name (it_name c) acc = false).
  { destruct (has_name (it_name c) acc) eqn:E; [|reflexivity]. apply has_name_In in E.
    rewrite map_app in H. cbn [map] in H. apply NoDup_remove_2 in H. exfalso. apply H. apply in_app_iff. now left. }
  unfold fill. rewrite E. rewrite IH; rewrite <- app_assoc; [reflexivity|exact H].
Qed.

Theorem registry_complete all s ms :
  names_okb (cands_from all 0 s ms) = true -> registry all s ms = cands_from all 0 s ms.
Proof. intro H. apply names_okb_NoDup in H. unfold registry. now rewrite fold_fill_complete. Qed.

(** ** lookups *)
Lemma find_nodup_found {A} (f : A -> bool) :
  forall (l : list A) (x : A), In x l -> f x = true ->
  (forall y, In y l -> f y = true -> y = x) -> find f l = Some x.
Proof.
  induction l as [|a r IH]; intros x Hin Hf Hu; [destruct Hin|]. cbn [find].
  destruct (f a) eqn:Ea.
  - f_equal. apply Hu; [now left|exact Ea].
  - destruct Hin as [->|Hin]; [congruence|]. apply IH; [exact Hin|exact Hf|]. intros y Hy. apply Hu. now right.
Qed.

Lemma nodup_map_inj {A B} (f : A -> B) (l : list A) x y :
  NoDup (map f l) -> In x l -> In y l -> f x = f y -> x = y.
Proof.
  induction l as [|a r IH]; intros Hn Hx Hy He; [destruct Hx|]. cbn [map] in Hn. inversion Hn as [|? ? Hna Hr]; subst.
  destruct Hx as [->|Hx], Hy as [->|Hy]; try reflexivity.
  - exfalso. apply Hna. rewrite He. now apply in_map.
  - exfalso. apply Hna. rewrite <- He. now apply in_map.
  - now apply IH.
Qed.

Theorem by_name_found reg it :
  NoDup (map it_name reg) -> In it reg -> by_name reg (it_name it) = Some it.
Proof.
  intros Hn Hin. unfold by_name. apply find_nodup_found; [exact Hin|apply bytes_eqb_refl|].
  intros y Hy He. apply bytes_eqb_eq in He. now apply (nodup_map_inj it_name reg).
Qed.

Theorem by_name_sound reg n it : by_name reg n = Some it -> In it reg /\ it_name it = n.
Proof. unfold by_name. intro H. apply find_some in H. destruct H as [H1 H2]. apply bytes_eqb_eq in H2. now split. Qed.

Theorem by_name_none reg n : by_name reg n = None <-> ~ In n (map it_name reg).
Proof.
  unfold by_name. split.
  - intros H Hin. apply in_map_iff in Hin. destruct Hin as [it [He Hin]].
    apply (find_none _ _ H) in Hin. subst. rewrite bytes_eqb_refl in Hin. discriminate.
  - intro H. destruct (find _ reg) as [it|] eqn:E; [|reflexivity]. exfalso. apply find_some in E.
    destruct E as [E1 E2]. apply bytes_eqb_eq in E2. apply H. subst. now apply in_map.
Qed.

Lemma nz_tags_In reg it : In it reg -> it_tag it <> 0 -> In (it_tag it) (nz_tags reg).
Proof.
  intros Hin Hz. unfold nz_tags. apply filter_In. split; [now apply in_map|].
  apply negb_true_iff. now apply N.eqb_neq.
Qed.

Lemma nz_tags_inj : forall reg x y,
  NoDup (nz_tags reg) -> In x reg -> In y reg -> it_tag x <> 0 -> it_tag x = it_tag y -> x = y.
Proof.
  induction reg as [|a r IH]; intros x y Hn Hx Hy Hz He; [destruct Hx|].
  unfold nz_tags in Hn. cbn [map filter] in Hn.
  destruct (negb (it_tag a =? 0)) eqn:Ea.
  - inversion Hn as [|? ? Hna Hr]; subst.
    destruct Hx as [->|Hx], Hy as [->|Hy]; try reflexivity.
    + exfalso. apply Hna. rewrite He. apply nz_tags_In; [exact Hy|congruence].
    + exfalso. apply Hna. rewrite <- He. now apply nz_tags_In.
    + now apply IH.
  - apply negb_false_iff, N.eqb_eq in Ea.
    destruct Hx as [->|Hx]; [contradiction|]. destruct Hy as [->|Hy]; [congruence|]. now apply IH.
Qed.

Theorem by_tag_found reg it :
  NoDup (nz_tags reg) -> In it reg -> it_tag it <> 0 -> by_tag reg (it_tag it) = Some it.
Proof.
  intros Hn Hin Hz. unfold by_tag. destruct (it_tag it =? 0) eqn:E; [apply N.eqb_eq in E; contradiction|].
  apply find_nodup_found; [now apply in_rev in Hin|apply N.eqb_refl|].
  intros y Hy He. apply in_rev in Hy. apply N.eqb_eq in He. symmetry. apply (nz_tags_inj reg it y); auto.
Qed.

Theorem by_tag_sound reg t it : by_tag reg t = Some it -> In it reg /\ it_tag it = t /\ t <> 0.
Proof.
  unfold by_tag. destruct (t =? 0) eqn:E; [discriminate|]. apply N.eqb_neq in E. intro H.
  apply find_some in H. destruct H as [H1 H2]. apply in_rev in H1. apply N.eqb_eq in H2. auto.
Qed.

Theorem by_tag_zero reg : by_tag reg 0 = None.
Proof. reflexivity. Qed.

Theorem by_tag_none reg t : by_tag reg t = None <-> (t = 0 \/ ~ In t (map it_tag reg)).
Proof.
  unfold by_tag. destruct (t =? 0) eqn:E.
  - apply N.eqb_eq in E. split; [now left|reflexivity].
  - apply N.eqb_neq in E. split.
    + intro H. right. intro Hin. apply in_map_iff in Hin. destruct Hin as [it [He Hin]].
      apply in_rev in Hin. apply (find_none _ _ H) in Hin. subst. rewrite N.eqb_refl in Hin. discriminate.
    + intros [H|H]; [contradiction|]. destruct (find _ (rev reg)) as [it|] eqn:F; [|reflexivity]. exfalso.
      apply find_some in F. destruct F as [F1 F2]. apply in_rev in F1. apply N.eqb_eq in F2. apply H. subst. now apply in_map.
Qed.

(** ** the items are exactly what the schema says *)
Lemma cands_from_sound all : forall s ms t0 it,
  In it (cands_from all t0 s ms) ->
  exists d m, (t0 <= it_ty it)%nat /\ nth_error s (it_ty it - t0) = Some d /\ nth_error ms (it_ty it - t0) = Some m /\
              item_of all (it_ty it) d m = Some it.
Proof.
  induction s as [|d s IH]; intros ms t0 it H; [destruct H|]. destruct ms as [|m ms]; [destruct H|].
  cbn [cands_from] in H. apply in_app_iff in H. destruct H as [H|H].
  - destruct (item_of all t0 d m) as [it0|] eqn:E; [|destruct H]. destruct H as [->|[]].
    assert (Ht : it_ty it = t0).
    { unfold item_of in E. destruct (negb (m_top m)); [discriminate|].
      destruct d; try discriminate; [|destruct (m_tl2 m && negb (m_maybe m)); [|discriminate]]; inversion E; reflexivity. }
    exists d, m. rewrite Ht, Nat.sub_diag. cbn [nth_error]. auto.
  - apply IH in H. destruct H as [d' [m' [Hle [H1 [H2 H3]]]]]. exists d', m'.
    replace (it_ty it - t0)%nat with (S (it_ty it - S t0)) by lia. cbn [nth_error]. repeat split; auto. lia.
Qed.

Lemma cands_from_complete all : forall s ms t0 t d m it,
  nth_error s t = Some d -> nth_error ms t = Some m -> item_of all (t0 + t) d m = Some it ->
  In it (cands_from all t0 s ms).
Proof.
  induction s as [|d0 s IH]; intros ms t0 t d m it Hs Hm Hi; [destruct t; discriminate|].
  destruct ms as [|m0 ms]; [destruct t; discriminate|]. cbn [cands_from]. apply in_app_iff.
  destruct t as [|t]; cbn [nth_error] in Hs, Hm.
  - inversion Hs; inversion Hm; subst. rewrite Nat.add_0_r in Hi. rewrite Hi. left. now left.
  - right. apply (IH ms (S t0) t d m it Hs Hm). now rewrite Nat.add_succ_comm.
Qed.

(** every registered item comes from a top-level struct / TL2-enabled union of the schema, with the
    flags of that instance *)
Theorem registry_item_schema all s ms it :
  In it (registry all s ms) ->
  exists d m, nth_error s (it_ty it) = Some d /\ nth_error ms (it_ty it) = Some m /\
              item_of all (it_ty it) d m = Some it.
Proof.
  intro H. unfold registry in H. apply fold_fill_incl in H. destruct H as [[]|H].
  apply cands_from_sound in H. destruct H as [d [m [_ [H1 [H2 H3]]]]]. rewrite Nat.sub_0_r in *. now exists d, m.
Qed.

(** conversely (distinct names): every top-level struct / TL2-enabled union is registered *)
Theorem schema_item_registered all s ms t d m it :
  names_okb (cands_from all 0 s ms) = true ->
  nth_error s t = Some d -> nth_error ms t = Some m -> item_of all t d m = Some it ->
  In it (registry all s ms).
Proof.
  intros Hn Hs Hm Hi. rewrite registry_complete by exact Hn. now apply (cands_from_complete all s ms 0%nat t d m).
Qed.

Lemma item_of_fields all t d m it : item_of all t d m = Some it ->
  m_top m = true /\ it_name it = m_name m /\ it_ty it = t /\ it_tl1 it = negb (m_origin2 m) /\ it_tl2 it = m_tl2 m /\
  it_ann it = ann_mask all (m_anns m) /\
  match d with
  | TStruct tag _ => it_tag it = tag /\ it_fun it = m_fun m
  | TUnion _ => it_tag it = m_utag m /\ it_fun it = false /\ m_tl2 m = true /\ m_maybe m = false
  | _ => False
  end.
Proof.
  unfold item_of. destruct (m_top m); cbn [negb]; [|discriminate].
  destruct d; try discriminate.
  - intro H; inversion H; subst; cbn. tauto.
  - destruct (m_tl2 m) eqn:E2; cbn [andb]; [|discriminate]. destruct (m_maybe m) eqn:E3; cbn [negb]; [discriminate|].
    intro H; inversion H; subst; cbn. tauto.
Qed.

(** ** annotation accessors *)
Lemma pow2_mod_testbit bit n : N.testbit ((N.shiftl 1 bit) mod 4294967296) n = (n =? bit) && (n <? 32).
Proof.
  rewrite N.shiftl_1_l. change 4294967296 with (2 ^ 32).
  destruct (n <? 32) eqn:E.
  - rewrite N.mod_pow2_bits_low by lia. rewrite N.pow2_bits_eqb. rewrite andb_true_r. apply N.eqb_sym.
  - rewrite N.mod_pow2_bits_high by lia. now rewrite andb_false_r.
Qed.

Lemma ann_mask_from_low all mine : forall bit n, n < bit -> N.testbit (ann_mask_from bit all mine) n = false.
Proof.
  induction all as [|a r IH]; intros bit n Hlt; cbn [ann_mask_from]; [apply N.bits_0|].
  rewrite N.lor_spec. rewrite (IH (bit + 1) n) by lia. rewrite orb_false_r.
  destruct (has_ann mine a); [|apply N.bits_0].
  rewrite pow2_mod_testbit. destruct (n =? bit) eqn:E; [lia|reflexivity].
Qed.

Lemma ann_mask_from_bit all mine : forall bit i a,
  nth_error all i = Some a -> bit + N.of_nat i < 32 ->
  N.testbit (ann_mask_from bit all mine) (bit + N.of_nat i) = has_ann mine a.
Proof.
  induction all as [|a0 r IH]; intros bit i a Hn Hlt; [destruct i; discriminate|].
  cbn [ann_mask_from]. rewrite N.lor_spec. destruct i as [|i]; cbn [nth_error] in Hn.
  - inversion Hn; subst. rewrite N.add_0_r in *. rewrite ann_mask_from_low by lia. rewrite orb_false_r.
    destruct (has_ann mine a); [|apply N.bits_0]. rewrite pow2_mod_testbit. rewrite N.eqb_refl. cbn [andb]. lia.
  - replace (bit + N.of_nat (S i)) with ((bit + 1) + N.of_nat i) by lia. rewrite (IH (bit + 1) i a Hn) by lia.
    destruct (has_ann mine a0); [|now rewrite N.bits_0].
    rewrite pow2_mod_testbit. destruct (bit + 1 + N.of_nat i =? bit) eqn:E; [lia|reflexivity].
Qed.

(** the generated accessor of the i-th annotation of the kernel's table answers whether the
    kernel type carries that annotation *)
Theorem ann_flag_correct all mine i a :
  lenN all <= 32 -> nth_error all i = Some a -> ann_flag (ann_mask all mine) i = has_ann mine a.
Proof.
  intros Hl Hn. unfold ann_flag, ann_mask. change (N.of_nat i) with (0 + N.of_nat i).
  apply ann_mask_from_bit; [exact Hn|]. assert (i < length all)%nat by (apply nth_error_Some; congruence).
  unfold lenN in Hl. lia.
Qed.

Lemma has_ann_In mine a : has_ann mine a = true <-> In a mine.
Proof.
  unfold has_ann. rewrite existsb_exists. split.
  - intros [x [Hin He]]. apply bytes_eqb_eq in He. now subst.
  - intro H. exists a. split; [exact H|apply bytes_eqb_refl].
Qed.

(** ** boxed encodings start with the reported tag *)
Lemma firstn4_nat_w tag rest : firstn 4 (nat_w tag ++ rest) = nat_w tag.
Proof. reflexivity. Qed.

Definition is_object (s : schema) (t : nat) : bool :=
  match nth_error s t with
  | Some (TStruct _ _) | Some (TUnion _) => true
  | _ => false
  end.

Theorem boxed_starts_with_tag san s t ps v b :
  is_object s t = true -> enc1 san s t false ps v = Some b ->
  exists tag, obj_tag s t v = Some tag /\ firstn 4 b = nat_w tag.
Proof.
  unfold is_object, obj_tag, variant_of. intros Ho H.
  destruct v; cbn [enc1] in H; destruct (nth_error s t) as [d|] eqn:Et; try discriminate;
    destruct d as [p|tag fds|vars|k ef|kp ef]; try discriminate.
  - destruct (enc_fields _ ps fs fds fs) as [body|]; [|discriminate]. cbn [bind_opt] in H. inversion H; subst.
    exists tag. split; [|reflexivity]. unfold struct_tag. now rewrite Et.
  - destruct (nth_error vars idx) as [vt|]; [|discriminate].
    destruct (nth_error s vt) as [[p|tag fds|vars'|k ef|kp ef]|] eqn:Ev; try discriminate.
    destruct (enc_fields _ ps fs fds fs) as [body|]; [|discriminate]. cbn [bind_opt] in H. inversion H; subst.
    exists tag. split; [|reflexivity]. unfold struct_tag. now rewrite Ev.
Qed.

(** for a registered struct item the tag the factory reports (item tag) is the one written *)
Theorem boxed_item_tag all s ms it tag fds san ps v b :
  In it (registry all s ms) -> nth_error s (it_ty it) = Some (TStruct tag fds) ->
  enc1 san s (it_ty it) false ps v = Some b ->
  it_tag it = tag /\ firstn 4 b = nat_w (it_tag it).
Proof.
  intros Hin Hs He. apply registry_item_schema in Hin. destruct Hin as [d [m [H1 [H2 H3]]]].
  rewrite Hs in H1. inversion H1; subst d. apply item_of_fields in H3.
  destruct H3 as [_ [_ [_ [_ [_ [_ [Ht _]]]]]]]. split; [exact Ht|].
  destruct (boxed_starts_with_tag san s (it_ty it) ps v b) as [tg [Hg Hf]]; [unfold is_object; now rewrite Hs|exact He|].
  unfold obj_tag, variant_of in Hg. rewrite Hs in Hg. unfold struct_tag in Hg. rewrite Hs in Hg. inversion Hg; subst. exact Hf.
Qed.

(** ** the mask depends on the declared SET only: order and repetitions of the declaration are irrelevant *)
Lemma has_ann_ext mine mine' a : (forall x, In x mine <-> In x mine') -> has_ann mine a = has_ann mine' a.
Proof.
  intro H. destruct (has_ann mine a) eqn:E1, (has_ann mine' a) eqn:E2; try reflexivity.
  - apply has_ann_In in E1. apply H in E1. apply has_ann_In in E1. congruence.
  - apply has_ann_In in E2. apply H in E2. apply has_ann_In in E2. congruence.
Qed.

Theorem ann_mask_order_free all mine mine' :
  (forall x, In x mine <-> In x mine') -> ann_mask all mine = ann_mask all mine'.
Proof.
  intro H. unfold ann_mask. generalize 0. induction all as [|a r IH]; intro bit; cbn [ann_mask_from]; [reflexivity|].
  now rewrite (has_ann_ext mine mine' a H), IH.
Qed.

(** ** double registration (--split-internal: the namespace packages' metamini.go and package meta both call
    FillObject / FillFunction for the same items, in either order): registering items whose names are already
    registered changes nothing -- neither the ordered list nor, therefore, any lookup by name or by tag *)
Lemma fill_known reg it : has_name (it_name it) reg = true -> fill reg it = reg.
Proof. intro H. unfold fill. now rewrite H. Qed.

Lemma fold_fill_absorb : forall extra reg,
  (forall it, In it extra -> In (it_name it) (map it_name reg)) -> fold_left fill extra reg = reg.
Proof.
  induction extra as [|e extra IH]; intros reg H; cbn [fold_left]; [reflexivity|].
  rewrite fill_known by (apply has_name_In; apply H; now left). apply IH. intros it Hin. apply H. now right.
Qed.

Theorem registry_twice all s ms :
  fold_left fill (cands_from all 0 s ms ++ cands_from all 0 s ms) [] = registry all s ms.
Proof.
  rewrite fold_left_app. fold (registry all s ms). apply fold_fill_absorb. intros it Hin.
  (* every candidate's name is registered after the first pass *)
  assert (G : forall cands acc x, In x cands \/ In (it_name x) (map it_name acc) ->
              In (it_name x) (map it_name (fold_left fill cands acc))).
  { clear. induction cands as [|c r IH]; intros acc x H; cbn [fold_left].
    - destruct H as [[]|H]; exact H.
    - apply IH. destruct H as [[->|H]|H].
      + right. unfold fill. destruct (has_name (it_name x) acc) eqn:E; [now apply has_name_In|].
        rewrite map_app. apply in_app_iff. right. now left.
      + now left.
      + right. unfold fill. destruct (has_name (it_name c) acc); [exact H|]. rewrite map_app. apply in_app_iff. now left. }
  unfold registry. apply G. now left.
Qed.

(** no bit outside the annotation table is ever set *)
Theorem ann_mask_no_other_bits all mine : forall bit n,
  bit + lenN all <= n -> N.testbit (ann_mask_from bit all mine) n = false.
Proof.
  induction all as [|a r IH]; intros bit n H; cbn [ann_mask_from]; [apply N.bits_0|].
  unfold lenN in *. cbn [length] in H. rewrite N.lor_spec, (IH (bit + 1) n) by lia. rewrite orb_false_r.
  destruct (has_ann mine a); [|apply N.bits_0]. rewrite pow2_mod_testbit.
  destruct (n =? bit) eqn:E; [lia|reflexivity].
Qed.
