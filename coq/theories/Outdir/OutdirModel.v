(** M10 [Outdir] -- output directory management and deterministic input walk.

    Executable definitions only; proofs live in OutdirProofs.v / OutdirWalk.v.

    Transcribed from
      /repo/internal/puregen/outdir.go        (OutDir.Write, collectRelativePaths)
      /repo/internal/tlcodegen/tlgen.go       (Gen2.WriteToDir, the legacy copy of the same algorithm)
      /repo/internal/utils/walkdeterministic.go (WalkDeterministic)

    File system: a tree of nodes; a path is a list of components, a component/content
    a Go string = list of bytes ([N]).  The primitives os.Mkdir, os.MkdirAll,
    os.ReadFile, os.WriteFile, os.Remove, os.ReadDir are modelled on that tree
    (regular files and directories only: no symlinks, permissions, or I/O errors other
    than the ones caused by the shape of the tree).  A file carries a stamp: the
    [now] of the write that last (re)wrote it -- the observable "mtime changed".

    What is NOT modelled: formatLint (the model's [gen] holds the code after
    formatting), the worker pool / Go map iteration order of OutDir.Write (the model
    processes [gen] sequentially in list order), "." and empty path components. *)
From Coq Require Export List NArith Bool.
From TLV Require Export Gen.OutdirConsts.
Export ListNotations.
Open Scope N_scope.

Definition str := list N.    (* bytes of a Go string *)
Definition path := list str. (* path components *)

Fixpoint str_eqb (a b : str) : bool :=
  match a, b with
  | [], [] => true
  | x :: a', y :: b' => (x =? y) && str_eqb a' b'
  | _, _ => false
  end.

(** Go's [<] on strings: bytewise lexicographic *)
Fixpoint str_cmp (a b : str) : comparison :=
  match a, b with
  | [], [] => Eq
  | [], _ :: _ => Lt
  | _ :: _, [] => Gt
  | x :: a', y :: b' => match x ?= y with Eq => str_cmp a' b' | c => c end
  end.
Definition str_leb (a b : str) : bool := match str_cmp a b with Gt => false | _ => true end.

Fixpoint path_eqb (a b : path) : bool :=
  match a, b with
  | [], [] => true
  | x :: a', y :: b' => str_eqb x y && path_eqb a' b'
  | _, _ => false
  end.

(** * The file-system tree *)
Inductive node :=
| File (c : str) (st : N)
| Dir (ch : list (str * node)).

Inductive entry := EFile (c : str) (st : N) | EDir.
Definition shallow (n : node) : entry := match n with File c st => EFile c st | Dir _ => EDir end.

Fixpoint ch_get (x : str) (ch : list (str * node)) : option node :=
  match ch with
  | [] => None
  | (y, m) :: r => if str_eqb x y then Some m else ch_get x r
  end.
Fixpoint ch_del (x : str) (ch : list (str * node)) : list (str * node) :=
  match ch with
  | [] => []
  | (y, m) :: r => if str_eqb x y then ch_del x r else (y, m) :: ch_del x r
  end.
(** children are kept in name order (os.ReadDir returns them sorted) *)
Fixpoint ch_ins (x : str) (m : node) (ch : list (str * node)) : list (str * node) :=
  match ch with
  | [] => [(x, m)]
  | (y, k) :: r => match str_cmp x y with Gt => (y, k) :: ch_ins x m r | _ => (x, m) :: (y, k) :: r end
  end.
Definition ch_set (x : str) (m : node) (ch : list (str * node)) := ch_ins x m (ch_del x ch).

Fixpoint get (n : node) (p : path) : option node :=
  match p with
  | [] => Some n
  | x :: r => match n with
              | Dir ch => match ch_get x ch with Some m => get m r | None => None end
              | File _ _ => None
              end
  end.
(** what a stat of [p] shows *)
Definition look (n : node) (p : path) : option entry := option_map shallow (get n p).

(** change the slot of the last component of [p] in its (existing) parent directory:
    [f old = None] is an error, [Some None] deletes, [Some (Some m)] stores [m]. *)
Fixpoint alter (f : option node -> option (option node)) (n : node) (p : path) : option node :=
  match p, n with
  | [], _ => None
  | _ :: _, File _ _ => None
  | x :: r, Dir ch =>
      match r with
      | [] => match f (ch_get x ch) with
              | Some (Some m) => Some (Dir (ch_set x m ch))
              | Some None => Some (Dir (ch_del x ch))
              | None => None
              end
      | _ :: _ => match ch_get x ch with
                  | Some k => match alter f k r with
                              | Some k' => Some (Dir (ch_set x k' ch))
                              | None => None
                              end
                  | None => None
                  end
      end
  end.

(** os.Mkdir: EEXIST is told apart from the other errors (OutDir.Write ignores it) *)
Inductive mkres := MkOk (n : node) | MkExist | MkErr.
Definition f_mkdir (o : option node) : option (option node) :=
  match o with None => Some (Some (Dir [])) | Some _ => None end.
Definition os_mkdir (root : node) (p : path) : mkres :=
  match get root p with
  | Some _ => MkExist
  | None => match alter f_mkdir root p with Some n => MkOk n | None => MkErr end
  end.

(** os.MkdirAll: fails exactly when a prefix of [p] is a file; creates nothing in that case *)
Fixpoint os_mkdir_all (n : node) (p : path) : option node :=
  match n with
  | File _ _ => None
  | Dir ch =>
      match p with
      | [] => Some n
      | x :: r =>
          match os_mkdir_all (match ch_get x ch with Some k => k | None => Dir [] end) r with
          | Some k' => Some (Dir (ch_set x k' ch))
          | None => None
          end
      end
  end.

Definition os_read_file (root : node) (p : path) : option str :=
  match get root p with Some (File c _) => Some c | _ => None end.

(** os.WriteFile: parent must be a directory, target must not be a directory *)
Definition f_write (c : str) (now : N) (o : option node) : option (option node) :=
  match o with Some (Dir _) => None | _ => Some (Some (File c now)) end.
Definition os_write_file (root : node) (p : path) (c : str) (now : N) : option node :=
  alter (f_write c now) root p.

(** os.Remove: a file, or an empty directory *)
Definition f_remove (o : option node) : option (option node) :=
  match o with
  | Some (File _ _) => Some None
  | Some (Dir []) => Some None
  | _ => None
  end.
Definition os_remove (root : node) (p : path) : option node := alter f_remove root p.

(** * collectRelativePaths
    One traversal in the Go code fills [relativeFiles] (a set) and [relativeDirs]
    (pre-order); the model computes the two projections by two traversals of the same shape. *)
Fixpoint files_under (rel : path) (n : node) : list path :=
  match n with
  | File _ _ => [rel]
  | Dir ch => flat_map (fun xm => files_under (rel ++ [fst xm]) (snd xm)) ch
  end.
Fixpoint dirs_under (rel : path) (n : node) : list path :=
  match n with
  | File _ _ => []
  | Dir ch => flat_map (fun xm => match snd xm with
                                  | Dir _ => (rel ++ [fst xm]) :: dirs_under (rel ++ [fst xm]) (snd xm)
                                  | File _ _ => []
                                  end) ch
  end.

(** * Path arithmetic *)
Definition dotdot : str := [46; 46].
(** strings.HasPrefix(filepathName, "..") -- a STRING prefix: "..x/y" qualifies too *)
Definition has_dotdot_prefix (nm : path) : bool :=
  match nm with
  | (46 :: 46 :: _) :: _ => true
  | _ => false
  end.
(** filepath.Join(outdir, name): lexical cleaning of ".." components *)
Fixpoint join (acc : path) (nm : path) : path :=
  match nm with
  | [] => acc
  | c :: r => if str_eqb c dotdot then join (removelast acc) r else join (acc ++ [c]) r
  end.

Definition mem (p : path) (l : list path) : bool := existsb (path_eqb p) l.
Definition del (p : path) (l : list path) : list path := filter (fun q => negb (path_eqb p q)) l.
Definition is_nil {A} (l : list A) : bool := match l with [] => true | _ => false end.

(** * OutDir.Write *)
Inductive result :=
| Ok (fs : node)        (* nil error *)
| Refused (fs : node)   (* "outdir not empty and has no marker file" *)
| Failed (fs : node).   (* any other error; the state is the model's sequential partial state *)
Definition fs_of (r : result) : node := match r with Ok f | Refused f | Failed f => f end.

Inductive wres := WCont (fs : node) (rf : list path) | WFail (fs : node).

(** body of the goFormatCode loop for one item *)
Definition write_one (out : path) (now : N) (fs : node) (rf : list path) (nm : path) (code : str) : wres :=
  let d := join out (removelast nm) in
  let f := join out nm in
  match (if has_dotdot_prefix nm then Some fs else os_mkdir_all fs d) with
  | None => WFail fs
  | Some fs1 =>
      let found := mem nm rf in
      let rf' := del nm rf in
      let do_write := match os_write_file fs1 f code now with
                      | Some fs2 => WCont fs2 rf'
                      | None => WFail fs1
                      end in
      if found then
        match os_read_file fs1 f with
        | None => WFail fs1
        | Some was => if str_eqb was code then WCont fs1 rf' else do_write
        end
      else do_write
  end.

Fixpoint write_all (out : path) (now : N) (fs : node) (rf : list path) (gen : list (path * str)) : wres :=
  match gen with
  | [] => WCont fs rf
  | (nm, code) :: r =>
      match write_one out now fs rf nm code with
      | WCont fs' rf' => write_all out now fs' rf' r
      | WFail fs' => WFail fs'
      end
  end.

Fixpoint remove_files (out : path) (fs : node) (l : list path) : node + node :=
  match l with
  | [] => inl fs
  | nm :: r => match os_remove fs (join out nm) with
               | Some fs' => remove_files out fs' r
               | None => inr fs
               end
  end.

(** errors ignored: "non-empty dirs simply will not remove" *)
Fixpoint remove_dirs (out : path) (fs : node) (l : list path) : node :=
  match l with
  | [] => fs
  | d :: r => remove_dirs out (match os_remove fs (join out d) with Some fs' => fs' | None => fs end) r
  end.

Inductive prep := PGo (fs1 : node) (files dirs : list path) | PStop (r : result).

(** os.Mkdir(outdir), collectRelativePaths, marker check *)
Definition prepare (root : node) (out : path) (marker : path) : prep :=
  match os_mkdir root out with
  | MkErr => PStop (Failed root)
  | mk =>
      let fs1 := match mk with MkOk n => n | _ => root end in
      match get fs1 out with
      | Some (Dir ch) =>
          let files := files_under [] (Dir ch) in
          let dirs := dirs_under [] (Dir ch) in
          if negb (is_nil files) && negb (mem marker files) then PStop (Refused fs1)
          else PGo fs1 files dirs
      | _ => PStop (Failed fs1)   (* os.ReadDir fails: outdir is a file *)
      end
  end.

(** write changed files, delete stale ones (except [keep]), prune directories *)
Definition commit (keep : path -> bool) (out : path) (now : N) (fs1 : node) (files dirs : list path)
           (gen : list (path * str)) : result :=
  match write_all out now fs1 files gen with
  | WFail fs2 => Failed fs2
  | WCont fs2 rest =>
      match remove_files out fs2 (filter (fun p => negb (keep p)) rest) with
      | inr fs3 => Failed fs3
      | inl fs3 => Ok (remove_dirs out fs3 (rev dirs))
      end
  end.

Definition outdir_write (keep : path -> bool) (root : node) (out : path) (gen : list (path * str))
           (marker : path) (now : N) : result :=
  match prepare root out marker with
  | PStop r => r
  | PGo fs1 files dirs => commit keep out now fs1 files dirs gen
  end.

Definition keep_none (p : path) : bool := false.

(** Gen2.WriteToDir: same algorithm; the marker file (fixed name, content [mc]) is added to
    the generated set after the check; for cpp, stale "*.o" files are not deleted. *)
Definition legacy_marker : path := [legacy_markerFile].
Definition legacy_write (keep : path -> bool) (root : node) (out : path) (gen : list (path * str))
           (mc : str) (now : N) : result :=
  match prepare root out legacy_marker with
  | PStop r => r
  | PGo fs1 files dirs =>
      if mem legacy_marker (map fst gen) then Failed fs1   (* "generated twice" *)
      else commit keep out now fs1 files dirs (gen ++ [(legacy_marker, mc)])
  end.

(** gengo: markerFile := filepath.Join(MetaGoPackageName, MetaGoPackageName+".go") *)
Definition gengo_marker : path := [gengo_MetaGoPackageName; gengo_MetaGoPackageName ++ [46; 103; 111]].
Definition gengo_basictl : str := gengo_BasicTLGoPackageName.

Definition has_suffix (suf s : str) : bool :=
  let ls := length s in let lf := length suf in
  if Nat.leb lf ls then str_eqb (skipn (ls - lf) s) suf else false.
(** cppFilterFile: strings.HasSuffix(file, ".o") *)
Definition keep_cpp (p : path) : bool :=
  match p with [] => false | _ => has_suffix [46; 111] (last p []) end.

(** a history of generations into the same directory *)
Record step := { st_gen : list (path * str); st_now : N }.
Fixpoint run_hist (keep : path -> bool) (out marker : path) (root : node) (steps : list step) : list result :=
  match steps with
  | [] => []
  | s :: r => let res := outdir_write keep root out (st_gen s) marker (st_now s) in
              res :: run_hist keep out marker (fs_of res) r
  end.
Definition final_fs (keep : path -> bool) (out marker : path) (root : node) (steps : list step) : node :=
  fold_left (fun fs s => fs_of (outdir_write keep fs out (st_gen s) marker (st_now s))) steps root.

(** * WalkDeterministic *)
Definition slash : N := 47.
Fixpoint path_str (p : path) : str :=
  match p with
  | [] => []
  | [x] => x
  | x :: r => x ++ slash :: path_str r
  end.

(** filepath.Walk below one root: [p] is the path string of [n]; regular files with the
    extension are collected in the order the directory entries are enumerated *)
Fixpoint walk_files (ext : str) (p : str) (n : node) : list str :=
  match n with
  | File _ _ => if has_suffix ext p then [p] else []
  | Dir ch => flat_map (fun xm => walk_files ext (p ++ slash :: fst xm) (snd xm)) ch
  end.

(** the collect-then-sort pattern: stable sort by a string key *)
Section SortBy.
  Context {A : Type} (key : A -> str).
  Fixpoint insert_by (x : A) (l : list A) : list A :=
    match l with
    | [] => [x]
    | y :: r => if str_leb (key x) (key y) then x :: l else y :: insert_by x r
    end.
  Definition sort_by (l : list A) : list A := fold_right insert_by [] l.
End SortBy.

Fixpoint walk_roots (ext : str) (root : node) (roots : list path) : option (list str) :=
  match roots with
  | [] => Some []
  | r :: rest =>
      match get root r with
      | None => None   (* lstat error is returned by the walk function *)
      | Some n => match walk_roots ext root rest with
                  | Some l => Some (walk_files ext (path_str r) n ++ l)
                  | None => None
                  end
      end
  end.

(** canonical = common on Linux (path separator is '/') *)
Definition walk_deterministic (ext : str) (root : node) (roots : list path) : option (list str) :=
  option_map (sort_by (fun s => s)) (walk_roots ext root roots).
