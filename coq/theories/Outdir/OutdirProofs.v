(** M10 [Outdir] -- OutDir.Write: the write loop, deletion of stale files, pruning of
    directories, the statement of C16 for one generation and for histories.  No axioms. *)
From Coq Require Import List NArith Bool Lia Permutation Sorted.
From TLV Require Import Outdir.OutdirModel Outdir.OutdirBase.
Import ListNotations.
Open Scope N_scope.

(** * filepath.Join *)
Lemma In_removelast : forall (A : Type) (x : A) l, In x (removelast l) -> In x l.
Proof.
  induction l as [|a l IH]; simpl; auto. destruct l; simpl in *; auto. intros [H|H]; auto.
Qed.

Lemma join_plain : forall nm acc, ~ In dotdot nm -> join acc nm = acc ++ nm.
Proof.
  induction nm as [|c nm IH]; intros acc H; simpl.
  - rewrite app_nil_r. auto.
  - assert (str_eqb c dotdot = false) as ->. { apply str_eqb_neq. intro. subst. apply H. left; auto. }
    rewrite IH. rewrite <- app_assoc. auto. intro. apply H. right; auto.
Qed.

Lemma join_no_dotdot : forall nm acc, ~ In dotdot acc -> ~ In dotdot (join acc nm).
Proof.
  induction nm as [|c nm IH]; intros acc H; simpl; auto.
  destruct (str_eqb c dotdot) eqn:E.
  - apply IH. intro I. apply H. eapply In_removelast; eauto.
  - apply IH. intro I. apply in_app_or in I. destruct I as [I|[I|[]]]; auto.
    apply str_eqb_neq in E. congruence.
Qed.

(** * one item of the write loop *)
Definition wfs (r : wres) : node := match r with WCont x _ => x | WFail x => x end.

Definition tail (f : path) (now : N) (fs1 : node) (found : bool) (rf' : list path) (code : str) : wres :=
  let do_write := match os_write_file fs1 f code now with Some fs2 => WCont fs2 rf' | None => WFail fs1 end in
  if found then
    match os_read_file fs1 f with
    | None => WFail fs1
    | Some was => if str_eqb was code then WCont fs1 rf' else do_write
    end
  else do_write.

Lemma write_one_unfold : forall out now fs rf nm code,
  write_one out now fs rf nm code =
  match (if has_dotdot_prefix nm then Some fs else os_mkdir_all fs (join out (removelast nm))) with
  | None => WFail fs
  | Some fs1 => tail (join out nm) now fs1 (mem nm rf) (del nm rf) code
  end.
Proof. reflexivity. Qed.

Definition stamp_of (found : bool) (old : option entry) (code : str) (now : N) : N :=
  match found, old with
  | true, Some (EFile c0 st0) => if str_eqb c0 code then st0 else now
  | _, _ => now
  end.

Lemma tail_frame : forall f now fs1 found rf' code q, q <> f ->
  look (wfs (tail f now fs1 found rf' code)) q = look fs1 q.
Proof.
  intros. unfold tail.
  assert (W : look (wfs (match os_write_file fs1 f code now with Some fs2 => WCont fs2 rf' | None => WFail fs1 end)) q = look fs1 q).
  { destruct (os_write_file fs1 f code now) eqn:E; simpl; auto. apply os_write_file_ok in E. destruct E as [_ [_ E]]. auto. }
  destruct found; auto. destruct (os_read_file fs1 f); simpl; auto. destruct (str_eqb s code); simpl; auto.
Qed.

Lemma tail_cont : forall f now fs1 found rf' code fs2 rf2,
  tail f now fs1 found rf' code = WCont fs2 rf2 ->
  rf2 = rf' /\ look fs1 f <> Some EDir /\
  look fs2 f = Some (EFile code (stamp_of found (look fs1 f) code now)) /\
  (wf fs1 -> ~ In dotdot f -> wf fs2).
Proof.
  intros f now fs1 found rf' code fs2 rf2 H. unfold tail in H.
  assert (W : match os_write_file fs1 f code now with Some fs2 => WCont fs2 rf' | None => WFail fs1 end = WCont fs2 rf2 ->
              rf2 = rf' /\ look fs1 f <> Some EDir /\ look fs2 f = Some (EFile code now) /\ (wf fs1 -> ~ In dotdot f -> wf fs2)).
  { destruct (os_write_file fs1 f code now) eqn:E; intro K; inversion K; subst.
    pose proof (os_write_file_ok _ _ _ _ _ E) as [A [B C]]. split; auto. split; auto. split; auto.
    intros. eapply os_write_file_wf; eauto. }
  destruct found.
  - unfold os_read_file in H. unfold stamp_of. unfold look in *.
    destruct (get fs1 f) as [[c0 st0|]|] eqn:G; try discriminate. simpl.
    destruct (str_eqb c0 code) eqn:E.
    + inversion H; subst. apply str_eqb_eq in E. subst. rewrite G. simpl. repeat split; auto. discriminate.
    + apply W in H. simpl in H. auto.
  - unfold stamp_of. apply W in H. auto.
Qed.

Section WriteOne.
  Variables (out : path) (now : N).
  Hypothesis out_ok : ~ In dotdot out.

  Lemma write_one_frame : forall fs rf nm code q,
    q <> join out nm ->
    ~ (has_dotdot_prefix nm = false /\ is_prefix q (join out (removelast nm))) ->
    look (wfs (write_one out now fs rf nm code)) q = look fs q.
  Proof.
    intros fs rf nm code q NE NP. rewrite write_one_unfold.
    destruct (has_dotdot_prefix nm) eqn:D.
    - apply tail_frame; auto.
    - destruct (os_mkdir_all fs (join out (removelast nm))) as [fs1|] eqn:M; simpl; auto.
      rewrite tail_frame; auto. eapply mkdir_all_other; eauto.
  Qed.

  (** existing entries other than the target stay; directories always stay *)
  Lemma write_one_mono : forall fs rf nm code q e,
    look fs q = Some e -> q <> join out nm \/ e = EDir ->
    forall fs' rf', write_one out now fs rf nm code = WCont fs' rf' -> look fs' q = Some e.
  Proof.
    intros fs rf nm code q e L C fs' rf' H. rewrite write_one_unfold in H.
    assert (T : forall fs1, look fs1 q = Some e -> tail (join out nm) now fs1 (mem nm rf) (del nm rf) code = WCont fs' rf' ->
                look fs' q = Some e).
    { intros fs1 L1 K. destruct (path_eq_dec q (join out nm)) as [E|E].
      - destruct C as [C|C]; try congruence. subst. apply tail_cont in K. destruct K as [_ [K _]]. congruence.
      - pose proof (tail_frame (join out nm) now fs1 (mem nm rf) (del nm rf) code q E) as F.
        rewrite K in F. simpl in F. congruence. }
    destruct (has_dotdot_prefix nm) eqn:D.
    - eapply T; eauto.
    - destruct (os_mkdir_all fs (join out (removelast nm))) as [fs1|] eqn:M; try discriminate.
      apply (T fs1); auto.
      destruct (classic_prefix q (join out (removelast nm))) as [P|P].
      + rewrite (mkdir_all_prefix _ _ _ _ M P). destruct e; auto.
        exfalso. eapply mkdir_all_no_file; eauto.
      + rewrite (mkdir_all_other _ _ _ _ M P). auto.
  Qed.

  Lemma write_one_back : forall fs rf nm code q e fs' rf',
    write_one out now fs rf nm code = WCont fs' rf' -> q <> join out nm -> look fs' q = Some e ->
    look fs q = Some e \/ (e = EDir /\ has_dotdot_prefix nm = false /\ is_prefix q (join out (removelast nm))).
  Proof.
    intros fs rf nm code q e fs' rf' H NE L.
    destruct (has_dotdot_prefix nm) eqn:D.
    - left. rewrite <- L. symmetry.
      pose proof (write_one_frame fs rf nm code q NE) as F. rewrite H in F. simpl in F. apply F.
      intros [K _]. congruence.
    - destruct (classic_prefix q (join out (removelast nm))) as [P|P].
      + right. split; auto.
        rewrite write_one_unfold, D in H.
        destruct (os_mkdir_all fs (join out (removelast nm))) as [fs1|] eqn:M; try discriminate.
        pose proof (tail_frame (join out nm) now fs1 (mem nm rf) (del nm rf) code q NE) as F.
        rewrite H in F. simpl in F. rewrite (mkdir_all_prefix _ _ _ _ M P) in F. congruence.
      + left. rewrite <- L. symmetry.
        pose proof (write_one_frame fs rf nm code q NE) as F. rewrite H in F. simpl in F. apply F. tauto.
  Qed.

  Lemma write_one_target : forall fs rf nm code fs' rf',
    write_one out now fs rf nm code = WCont fs' rf' ->
    rf' = del nm rf /\
    look fs' (join out nm) = Some (EFile code (stamp_of (mem nm rf) (look fs (join out nm)) code now)).
  Proof.
    intros fs rf nm code fs' rf' H. rewrite write_one_unfold in H.
    destruct (has_dotdot_prefix nm) eqn:D.
    - apply tail_cont in H. tauto.
    - destruct (os_mkdir_all fs (join out (removelast nm))) as [fs1|] eqn:M; try discriminate.
      apply tail_cont in H. destruct H as [H1 [H2 [H3 _]]]. split; auto.
      destruct (classic_prefix (join out nm) (join out (removelast nm))) as [P|P].
      + exfalso. apply H2. eapply mkdir_all_prefix; eauto.
      + rewrite (mkdir_all_other _ _ _ _ M P) in H3. auto.
  Qed.

  Lemma write_one_wf : forall fs rf nm code fs' rf', wf fs ->
    write_one out now fs rf nm code = WCont fs' rf' -> wf fs'.
  Proof.
    intros fs rf nm code fs' rf' W H. rewrite write_one_unfold in H.
    destruct (has_dotdot_prefix nm) eqn:D.
    - apply tail_cont in H. destruct H as [_ [_ [_ H]]]. apply H; auto. apply join_no_dotdot; auto.
    - destruct (os_mkdir_all fs (join out (removelast nm))) as [fs1|] eqn:M; try discriminate.
      apply tail_cont in H. destruct H as [_ [_ [_ H]]]. apply H.
      + apply (mkdir_all_wf _ _ _ W (join_no_dotdot _ _ out_ok) M).
      + apply join_no_dotdot; auto.
  Qed.

  (** * the whole write loop *)
  Lemma write_all_wf : forall gen fs rf fs' rf', wf fs -> write_all out now fs rf gen = WCont fs' rf' -> wf fs'.
  Proof.
    induction gen as [|[nm code] gen IH]; simpl; intros fs rf fs' rf' W H.
    - inversion H; subst; auto.
    - destruct (write_one out now fs rf nm code) as [fs1 rf1|] eqn:O; try discriminate.
      eapply IH; [|eauto]. eapply write_one_wf; eauto.
  Qed.

  Lemma write_all_rest : forall gen fs rf fs' rf', write_all out now fs rf gen = WCont fs' rf' ->
    forall f, In f rf' <-> In f rf /\ ~ In f (map fst gen).
  Proof.
    induction gen as [|[nm code] gen IH]; simpl; intros fs rf fs' rf' H f.
    - inversion H; subst. tauto.
    - destruct (write_one out now fs rf nm code) as [fs1 rf1|] eqn:O; try discriminate.
      rewrite (IH _ _ _ _ H). apply write_one_target in O. destruct O as [O _]. subst rf1.
      rewrite del_In. split; intros; intuition.
  Qed.

  Lemma write_all_mono : forall gen fs rf fs' rf' q e, write_all out now fs rf gen = WCont fs' rf' ->
    look fs q = Some e -> (forall nm, In nm (map fst gen) -> q <> join out nm) \/ e = EDir -> look fs' q = Some e.
  Proof.
    induction gen as [|[nm code] gen IH]; simpl; intros fs rf fs' rf' q e H L C.
    - inversion H; subst; auto.
    - destruct (write_one out now fs rf nm code) as [fs1 rf1|] eqn:O; try discriminate.
      eapply IH; eauto.
      + eapply write_one_mono; eauto. destruct C as [C|C]; auto.
      + destruct C as [C|C]; auto.
  Qed.

  Lemma write_all_back : forall gen fs rf fs' rf' q e, write_all out now fs rf gen = WCont fs' rf' ->
    (forall nm, In nm (map fst gen) -> q <> join out nm) -> look fs' q = Some e ->
    look fs q = Some e \/
    (e = EDir /\ exists nm, In nm (map fst gen) /\ has_dotdot_prefix nm = false /\ is_prefix q (join out (removelast nm))).
  Proof.
    induction gen as [|[nm code] gen IH]; simpl; intros fs rf fs' rf' q e H NT L.
    - inversion H; subst; auto.
    - destruct (write_one out now fs rf nm code) as [fs1 rf1|] eqn:O; try discriminate.
      destruct (IH _ _ _ _ _ _ H (fun n I => NT n (or_intror I)) L) as [K|[K1 [n [K2 K3]]]].
      + destruct (write_one_back _ _ _ _ _ _ _ _ O (NT nm (or_introl eq_refl)) K) as [K'|[K1 K2]]; auto.
        right. split; auto. exists nm. auto.
      + right. split; auto. exists n. auto.
  Qed.

  Lemma write_all_frame : forall gen fs rf q,
    (forall nm, In nm (map fst gen) -> q <> join out nm) ->
    (forall nm, In nm (map fst gen) -> ~ (has_dotdot_prefix nm = false /\ is_prefix q (join out (removelast nm)))) ->
    look (wfs (write_all out now fs rf gen)) q = look fs q.
  Proof.
    induction gen as [|[nm code] gen IH]; simpl; intros fs rf q NT NP; auto.
    pose proof (write_one_frame fs rf nm code q (NT nm (or_introl eq_refl)) (NP nm (or_introl eq_refl))) as F.
    destruct (write_one out now fs rf nm code) as [fs1 rf1|] eqn:O; simpl in *; auto.
    rewrite IH; auto.
  Qed.

  Lemma write_all_target : forall gen fs rf fs' rf' nm code,
    write_all out now fs rf gen = WCont fs' rf' ->
    NoDup (map (fun it => join out (fst it)) gen) -> In (nm, code) gen ->
    look fs' (join out nm) = Some (EFile code (stamp_of (mem nm rf) (look fs (join out nm)) code now)).
  Proof.
    induction gen as [|[n c] gen IH]; simpl; intros fs rf fs' rf' nm code H ND I; try contradiction.
    destruct (write_one out now fs rf n c) as [fs1 rf1|] eqn:O; try discriminate.
    inversion ND as [|x l NI ND']; subst.
    destruct I as [I|I].
    - inversion I; subst. destruct (write_one_target _ _ _ _ _ _ O) as [_ T].
      eapply write_all_mono; eauto. left. intros m Im E. apply NI. rewrite E.
      apply in_map_iff in Im. destruct Im as [[m' c'] [E1 E2]]. simpl in E1. subst m'.
      apply in_map_iff. exists (m, c'). auto.
    - assert (NE : join out nm <> join out n).
      { intro E. apply NI. rewrite <- E. apply in_map_iff. exists (nm, code). auto. }
      assert (NN : nm <> n) by (intro; subst; congruence).
      rewrite (IH _ _ _ _ _ _ H ND' I). f_equal. f_equal.
      destruct (write_one_target _ _ _ _ _ _ O) as [R _]. subst rf1.
      assert (M : mem nm (del n rf) = mem nm rf).
      { destruct (mem nm rf) eqn:E.
        - apply mem_In. apply del_In. split; auto. apply mem_In; auto.
        - apply mem_false. intro K. apply del_In in K. apply mem_false in E. tauto. }
      rewrite M. destruct (mem nm rf) eqn:E; [|reflexivity].
      pose proof (write_one_frame fs rf n c (join out nm) NE) as F. rewrite O in F. simpl in F.
      destruct (look fs (join out nm)) as [e|] eqn:L.
      + rewrite (write_one_mono _ _ _ _ _ _ L (or_introl NE) _ _ O). reflexivity.
      + destruct (look fs1 (join out nm)) as [e|] eqn:L1; auto.
        destruct (write_one_back _ _ _ _ _ _ _ _ O NE L1) as [K|[K _]]; try congruence. subst. reflexivity.
  Qed.
End WriteOne.

Lemma mkdir_all_dir_stays : forall p n n' q, os_mkdir_all n p = Some n' -> look n q = Some EDir -> look n' q = Some EDir.
Proof.
  intros p n n' q M L. destruct (classic_prefix q p) as [P|P].
  - eapply mkdir_all_prefix; eauto.
  - rewrite (mkdir_all_other _ _ _ _ M P). auto.
Qed.

Lemma write_one_dir_stays : forall out now fs rf nm code q, q <> join out nm -> look fs q = Some EDir ->
  look (wfs (write_one out now fs rf nm code)) q = Some EDir.
Proof.
  intros out now fs rf nm code q NE L. rewrite write_one_unfold.
  destruct (has_dotdot_prefix nm).
  - rewrite tail_frame; auto.
  - destruct (os_mkdir_all fs (join out (removelast nm))) as [fs1|] eqn:M; simpl; auto.
    rewrite tail_frame; auto. eapply mkdir_all_dir_stays; eauto.
Qed.

Lemma write_all_dir_stays : forall out now gen fs rf q, (forall nm, In nm (map fst gen) -> q <> join out nm) ->
  look fs q = Some EDir -> look (wfs (write_all out now fs rf gen)) q = Some EDir.
Proof.
  induction gen as [|[nm code] gen IH]; simpl; intros fs rf q NT L; auto.
  pose proof (write_one_dir_stays out now fs rf nm code q (NT nm (or_introl eq_refl)) L) as F.
  destruct (write_one out now fs rf nm code) as [fs1 rf1|] eqn:O; simpl in *; auto.
Qed.

Lemma write_one_fail_wf : forall out now fs rf nm code, ~ In dotdot out -> wf fs -> wf (wfs (write_one out now fs rf nm code)).
Proof.
  intros out now fs rf nm code OK W.
  destruct (write_one out now fs rf nm code) as [fs' rf'|fs'] eqn:O; simpl.
  - eapply write_one_wf; eauto.
  - rewrite write_one_unfold in O.
    assert (T : forall fs1, wf fs1 -> tail (join out nm) now fs1 (mem nm rf) (del nm rf) code = WFail fs' -> wf fs').
    { intros fs1 W1 K. unfold tail in K.
      destruct (mem nm rf); [destruct (os_read_file fs1 (join out nm)); [destruct (str_eqb s code)|]|];
        try destruct (os_write_file fs1 (join out nm) code now); inversion K; subst; auto. }
    destruct (has_dotdot_prefix nm).
    + eapply T; eauto.
    + destruct (os_mkdir_all fs (join out (removelast nm))) as [fs1|] eqn:M.
      * apply (T fs1); auto. apply (mkdir_all_wf _ _ _ W (join_no_dotdot _ _ OK) M).
      * inversion O; subst; auto.
Qed.

Lemma write_all_any_wf : forall out now gen fs rf, ~ In dotdot out -> wf fs -> wf (wfs (write_all out now fs rf gen)).
Proof.
  induction gen as [|[nm code] gen IH]; simpl; intros fs rf OK W; auto.
  pose proof (write_one_fail_wf out now fs rf nm code OK W) as F.
  destruct (write_one out now fs rf nm code) as [fs1 rf1|] eqn:O; simpl in *; auto.
Qed.


Definition sum_fs (r : node + node) : node := match r with inl x => x | inr x => x end.

Section Remove.
  Variable out : path.
  Hypothesis out_ok : ~ In dotdot out.

  Lemma remove_files_frame : forall l fs q, (forall nm, In nm l -> q <> join out nm) ->
    look (sum_fs (remove_files out fs l)) q = look fs q.
  Proof.
    induction l as [|nm l IH]; simpl; intros fs q H; auto.
    destruct (os_remove fs (join out nm)) as [fs'|] eqn:E; simpl; auto.
    rewrite IH; auto. apply os_remove_ok in E. destruct E as [_ [E _]]. apply E. apply H. auto.
  Qed.

  Lemma remove_files_back : forall l fs fs3 q e, remove_files out fs l = inl fs3 -> look fs3 q = Some e -> look fs q = Some e.
  Proof.
    induction l as [|nm l IH]; simpl; intros fs fs3 q e H L.
    - inversion H; subst; auto.
    - destruct (os_remove fs (join out nm)) as [fs'|] eqn:E; try discriminate.
      apply (IH _ _ _ _ H) in L. apply os_remove_ok in E. destruct E as [E1 [E2 _]].
      destruct (path_eq_dec q (join out nm)) as [Q|Q]. subst. congruence. rewrite <- E2; auto.
  Qed.

  Lemma remove_files_gone : forall l fs fs3 nm, remove_files out fs l = inl fs3 -> In nm l -> look fs3 (join out nm) = None.
  Proof.
    induction l as [|n l IH]; simpl; intros fs fs3 nm H I; try contradiction.
    destruct (os_remove fs (join out n)) as [fs'|] eqn:E; try discriminate.
    destruct (look fs3 (join out nm)) as [e|] eqn:L; auto. exfalso.
    destruct I as [I|I].
    - subst n. apply (remove_files_back _ _ _ _ _ H) in L. apply os_remove_ok in E. destruct E as [E _]. congruence.
    - rewrite (IH _ _ _ H I) in L. discriminate.
  Qed.

  Lemma remove_files_wf : forall l fs, wf fs -> wf (sum_fs (remove_files out fs l)).
  Proof.
    induction l as [|nm l IH]; simpl; intros fs W; auto.
    destruct (os_remove fs (join out nm)) as [fs'|] eqn:E; simpl; auto.
    apply IH. apply (os_remove_wf _ _ _ W (join_no_dotdot _ _ out_ok) E).
  Qed.

  Definition rd_step (fs : node) (d : path) : node :=
    match os_remove fs (join out d) with Some fs' => fs' | None => fs end.

  Lemma remove_dirs_fold : forall l fs, remove_dirs out fs l = fold_left rd_step l fs.
  Proof. induction l; simpl; intros; auto. Qed.

  Lemma rd_step_back : forall fs d q e, look (rd_step fs d) q = Some e -> look fs q = Some e.
  Proof.
    intros fs d q e. unfold rd_step. destruct (os_remove fs (join out d)) as [fs'|] eqn:E; auto.
    apply os_remove_ok in E. destruct E as [E1 [E2 _]]. intro L.
    destruct (path_eq_dec q (join out d)) as [Q|Q]. subst. congruence. rewrite <- E2; auto.
  Qed.

  Lemma rd_step_frame : forall fs d q, q <> join out d -> look (rd_step fs d) q = look fs q.
  Proof.
    intros fs d q. unfold rd_step. destruct (os_remove fs (join out d)) as [fs'|] eqn:E; auto.
    apply os_remove_ok in E. destruct E as [E1 [E2 _]]. auto.
  Qed.

  Lemma rd_step_wf : forall fs d, wf fs -> wf (rd_step fs d).
  Proof.
    intros fs d W. unfold rd_step. destruct (os_remove fs (join out d)) as [fs'|] eqn:E; auto.
    apply (os_remove_wf _ _ _ W (join_no_dotdot _ _ out_ok) E).
  Qed.

  Lemma remove_dirs_back : forall l fs q e, look (remove_dirs out fs l) q = Some e -> look fs q = Some e.
  Proof.
    induction l as [|d l IH]; simpl; intros fs q e L; auto.
    apply IH in L. fold (rd_step fs d) in L. eapply rd_step_back; eauto.
  Qed.

  Lemma remove_dirs_frame : forall l fs q, (forall d, In d l -> q <> join out d) -> look (remove_dirs out fs l) q = look fs q.
  Proof.
    induction l as [|d l IH]; simpl; intros fs q H; auto.
    rewrite IH; auto. fold (rd_step fs d). apply rd_step_frame. auto.
  Qed.

  Lemma remove_dirs_wf : forall l fs, wf fs -> wf (remove_dirs out fs l).
  Proof.
    induction l as [|d l IH]; simpl; intros fs W; auto. apply IH. fold (rd_step fs d). apply rd_step_wf; auto.
  Qed.

  (** os.Remove on a path that holds a file does not happen in the pruning loop, and a directory
      is removed exactly when it has no entry *)
  Lemma rd_step_dir : forall fs d, join out d <> [] -> look fs (join out d) = Some EDir ->
    (look (rd_step fs d) (join out d) = None /\ forall x, look fs (join out d ++ [x]) = None) \/
    (rd_step fs d = fs /\ exists x e, look fs (join out d ++ [x]) = Some e).
  Proof.
    intros fs d NE L. unfold rd_step. destruct (os_remove fs (join out d)) as [fs'|] eqn:E.
    - left. apply os_remove_ok in E. destruct E as [E1 [_ E3]]. split; auto.
      intro x. unfold look. rewrite get_app. destruct E3 as [[c [st G]]|G]; rewrite G; reflexivity.
    - right. split; auto. apply os_remove_fails_nonempty; auto.
  Qed.
End Remove.

(** * pruning of directories *)
Definition needed (fs : node) (p : path) : Prop :=
  exists r c st, r <> [] /\ look fs (p ++ r) = Some (EFile c st).

Lemma SS_mid : forall (R : path -> path -> Prop) l1 a l2, StronglySorted R (l1 ++ a :: l2) -> forall p, In p l1 -> R p a.
Proof.
  induction l1 as [|b l1 IH]; simpl; intros a l2 S p I; try contradiction.
  inversion S as [|x l S' F]; subst. destruct I as [I|I].
  - subst. rewrite Forall_forall in F. apply F. apply in_or_app. right. left. auto.
  - eapply IH; eauto.
Qed.

Section Prune.
  Variables (out : path) (fs3 : node) (D : list path).
  Hypothesis out_ok : ~ In dotdot out.
  Hypothesis HD1 : forall d, In d D -> ~ In dotdot d /\ d <> [].
  Hypothesis HD2 : forall d, In d D -> look fs3 (out ++ d) = Some EDir.
  Hypothesis HS : StronglySorted not_above D.
  Hypothesis N3 : forall d, d <> [] -> look fs3 (out ++ d) = Some EDir -> In d D \/ needed fs3 (out ++ d).

  Definition PInv (fs : node) (S : list path) : Prop :=
    (forall q e, look fs q = Some e -> look fs3 q = Some e) /\
    (forall q c st, look fs3 q = Some (EFile c st) -> look fs q = Some (EFile c st)) /\
    (forall d, In d S -> look fs (out ++ d) = Some EDir -> needed fs3 (out ++ d)).

  Lemma prune_step : forall fs S a, PInv fs S -> In a D ->
    (forall x, In (a ++ [x]) D -> In (a ++ [x]) S) -> PInv (rd_step out fs a) (a :: S).
  Proof.
    intros fs S a [I1 [I2 I3]] Ia CH.
    destruct (HD1 a Ia) as [Hdd Hne].
    assert (J : join out a = out ++ a) by (apply join_plain; auto).
    assert (NE : join out a <> []). { rewrite J. destruct out; destruct a; simpl; congruence. }
    split; [|split].
    - intros q e L. apply I1. eapply rd_step_back; eauto.
    - intros q c st L. destruct (path_eq_dec q (join out a)) as [Q|Q].
      + subst q. rewrite J, (HD2 a Ia) in L. discriminate.
      + rewrite rd_step_frame; auto.
    - intros d [Id|Id] L.
      + subst d. pose proof (rd_step_back _ _ _ _ _ L) as L0.
        rewrite <- J in L0. destruct (rd_step_dir out fs a NE L0) as [[K _]|[K [x [e K2]]]].
        * rewrite <- J in L. congruence.
        * rewrite J in K2. destruct e as [c st|].
          -- exists [x], c, st. split. discriminate. apply I1; auto.
          -- assert (L3 : look fs3 (out ++ (a ++ [x])) = Some EDir). { rewrite app_assoc. apply I1; auto. }
             destruct (N3 (a ++ [x])) as [N|[r [c [st [Nr N]]]]]; auto.
             ++ destruct a; discriminate.
             ++ apply CH in N. apply I3 in N.
                ** destruct N as [r [c [st [Nr N]]]]. exists (x :: r), c, st. split. discriminate.
                   rewrite <- N. f_equal. rewrite <- !app_assoc. reflexivity.
                ** rewrite app_assoc. auto.
             ++ exists (x :: r), c, st. split. discriminate. rewrite <- N. f_equal. rewrite <- !app_assoc. reflexivity.
      + apply I3; auto. destruct (path_eq_dec (out ++ d) (join out a)) as [Q|Q].
        * rewrite Q in *. eapply rd_step_back; eauto.
        * rewrite rd_step_frame in L; auto.
  Qed.

  Lemma prune_suffix : forall suf pre, D = pre ++ suf -> PInv (fold_left (rd_step out) (rev suf) fs3) suf.
  Proof.
    induction suf as [|a suf IH]; intros pre E.
    - simpl. split; [|split]; auto. intros d [].
    - simpl rev. rewrite fold_left_app. simpl.
      apply prune_step.
      + apply (IH (pre ++ [a])). rewrite <- app_assoc. auto.
      + rewrite E. apply in_or_app. right. left. auto.
      + intros x I. rewrite E in I. apply in_app_or in I. destruct I as [I|[I|I]]; auto.
        * exfalso. rewrite E in HS. apply (SS_mid _ _ _ _ HS _ I). apply is_prefix_app.
        * exfalso. apply (f_equal (@length _)) in I. rewrite app_length in I. simpl in I. lia.
  Qed.

  Theorem prune_ok : PInv (remove_dirs out fs3 (rev D)) D.
  Proof. rewrite remove_dirs_fold. apply (prune_suffix D []). auto. Qed.
End Prune.


Lemma prefix_comparable : forall (q a b : path), is_prefix q (a ++ b) -> is_prefix q a \/ is_prefix a q.
Proof.
  induction q as [|x q IH]; intros a b P.
  - left. apply is_prefix_nil.
  - destruct a as [|y a].
    + right. apply is_prefix_nil.
    + simpl in P. apply is_prefix_cons in P. destruct P as [E P]. subst y.
      destruct (IH _ _ P) as [H|H]; [left|right]; apply is_prefix_cons; auto.
Qed.

Lemma prefix_antisym_len : forall (a r : path), is_prefix (a ++ r) a -> r = [].
Proof.
  intros a r [s H]. apply (f_equal (@length _)) in H. rewrite !app_length in H.
  destruct r; auto. simpl in H. lia.
Qed.

(** * collect: what the lists computed from the outdir mean *)
Lemma collect_specs : forall fs1 out ch, wf fs1 -> get fs1 out = Some (Dir ch) ->
  (forall f, In f (files_under [] (Dir ch)) <-> exists c st, look fs1 (out ++ f) = Some (EFile c st)) /\
  (forall d, In d (dirs_under [] (Dir ch)) <-> d <> [] /\ look fs1 (out ++ d) = Some EDir) /\
  StronglySorted not_above (dirs_under [] (Dir ch)).
Proof.
  intros fs1 out ch W G. assert (Wc : wf (Dir ch)) by (eapply wf_get; eauto).
  split; [|split].
  - intro f. rewrite (files_under_spec _ [] f Wc). split.
    + intros [r [c [st [E K]]]]. simpl in E. subst r. exists c, st. apply look_File. rewrite get_app, G. auto.
    + intros [c [st L]]. apply look_File in L. rewrite get_app, G in L. exists f, c, st. auto.
  - intro d. rewrite (dirs_under_spec _ [] d Wc). split.
    + intros [r [ch' [NE [E K]]]]. simpl in E. subst r. split; auto. apply look_Dir. exists ch'. rewrite get_app, G. auto.
    + intros [NE L]. apply look_Dir in L. destruct L as [ch' L]. rewrite get_app, G in L. exists d, ch'. auto.
  - apply dirs_under_sorted; auto.
Qed.

Definition prep_go_spec (root : node) (out marker : path) (fs1 : node) (files dirs : list path) : Prop :=
  wf fs1 /\ look fs1 out = Some EDir /\
  (forall q, q <> out -> look fs1 q = look root q) /\
  (look root out = Some EDir \/ look root out = None) /\
  (forall f, In f files <-> exists c st, look fs1 (out ++ f) = Some (EFile c st)) /\
  (forall d, In d dirs <-> d <> [] /\ look fs1 (out ++ d) = Some EDir) /\
  StronglySorted not_above dirs /\
  (files = [] \/ In marker files).

Lemma prepare_cases : forall root out marker, wf root -> ~ In dotdot out ->
  match prepare root out marker with
  | PStop (Ok _) => False
  | PStop (Failed fs) => fs = root /\ look root out <> Some EDir
  | PStop (Refused fs) =>
      fs = root /\ look root out = Some EDir /\
      (exists f c st, look root (out ++ f) = Some (EFile c st)) /\
      (forall c st, look root (out ++ marker) <> Some (EFile c st))
  | PGo fs1 files dirs => prep_go_spec root out marker fs1 files dirs
  end.
Proof.
  intros root out marker W OK. unfold prepare.
  assert (COMMON : forall fs1, wf fs1 -> (forall q, q <> out -> look fs1 q = look root q) ->
            (look root out = Some EDir \/ look root out = None) ->
            (look root out = None -> forall f, look fs1 (out ++ f) = None \/ f = []) ->
            (look root out = Some EDir -> fs1 = root) ->
            match match get fs1 out with
                  | Some (Dir ch) =>
                      if negb (is_nil (files_under [] (Dir ch))) && negb (mem marker (files_under [] (Dir ch)))
                      then PStop (Refused fs1) else PGo fs1 (files_under [] (Dir ch)) (dirs_under [] (Dir ch))
                  | _ => PStop (Failed fs1)
                  end with
            | PStop (Ok _) => False
            | PStop (Failed fs) => fs = fs1 /\ look fs1 out <> Some EDir
            | PStop (Refused fs) =>
                fs = root /\ look root out = Some EDir /\
                (exists f c st, look root (out ++ f) = Some (EFile c st)) /\
                (forall c st, look root (out ++ marker) <> Some (EFile c st))
            | PGo fs1 files dirs => prep_go_spec root out marker fs1 files dirs
            end).
  { intros fs1 W1 FR RO NONE SAME.
    destruct (get fs1 out) as [[c st|ch]|] eqn:G;
      try (split; auto; unfold look; rewrite G; simpl; discriminate).
    destruct (collect_specs fs1 out ch W1 G) as [SF [SD SS]].
    destruct (negb (is_nil (files_under [] (Dir ch))) && negb (mem marker (files_under [] (Dir ch)))) eqn:CHK.
    - apply andb_true_iff in CHK. destruct CHK as [C1 C2]. apply negb_true_iff in C1, C2.
      destruct (files_under [] (Dir ch)) as [|f0 fl] eqn:FL; try discriminate.
      assert (I0 : In f0 (f0 :: fl)) by (left; auto). apply SF in I0. destruct I0 as [c0 [st0 L0]].
      destruct RO as [RO|RO].
      + rewrite (SAME RO) in *. split; auto. split; auto. split. eauto.
        intros c st L. apply mem_false in C2. apply C2. apply SF. eauto.
      + destruct (NONE RO f0) as [K|K]. congruence. subst f0. rewrite app_nil_r in L0.
        apply look_File in L0. congruence.
    - unfold prep_go_spec. split; auto. split. apply look_Dir; eauto. split; auto. split; auto.
      split; auto. split; auto. split; auto.
      apply andb_false_iff in CHK. destruct CHK as [C|C]; apply negb_false_iff in C.
      + left. destruct (files_under [] (Dir ch)); auto; discriminate.
      + right. apply mem_In; auto. }
  destruct (os_mkdir root out) as [n| |] eqn:MK.
  - destruct (os_mkdir_ok _ _ _ MK) as [G [L FR]].
    pose proof (COMMON n (os_mkdir_wf _ _ _ W OK MK) FR (or_intror (proj2 (look_None _ _) G))) as C.
    match type of C with ?A -> ?B -> ?C' => assert (HA : A); [|assert (HB : B); [|specialize (C HA HB)]] end.
    + intros _ f. destruct f as [|x f]; auto. left.
      rewrite FR. unfold look. rewrite get_app, G. auto.
      intro E. apply (f_equal (@length _)) in E. rewrite app_length in E. simpl in E. lia.
    + intro K. apply look_None in G. congruence.
    + destruct (proj1 (look_Dir _ _) L) as [ch Gn]. rewrite Gn in *.
      destruct (negb (is_nil (files_under [] (Dir ch))) && negb (mem marker (files_under [] (Dir ch)))); auto.
  - assert (EX : get root out <> None). { unfold os_mkdir in MK. destruct (get root out); try discriminate. destruct (alter f_mkdir root out); discriminate. }
    destruct (get root out) as [[c st|ch]|] eqn:G; try congruence.
    { split; auto. unfold look. rewrite G. simpl. discriminate. }
    pose proof (COMMON root W (fun q _ => eq_refl)) as C. rewrite G in C. apply C; auto.
    + left. apply look_Dir. eauto.
    + intro K. apply look_None in K. congruence.
  - split; auto. unfold os_mkdir in MK. unfold look. destruct (get root out); discriminate.
Qed.


(** a generated name is either free of ".." components (it lands under the outdir) or starts with
    ".." and resolves outside the outdir (the runtime library location) *)
Definition name_ok (out nm : path) : Prop :=
  ~ In dotdot nm \/ (has_dotdot_prefix nm = true /\ ~ is_prefix out (join out nm)).
Definition gen_ok (out : path) (gen : list (path * str)) : Prop :=
  NoDup (map (fun it => join out (fst it)) gen) /\ forall nm, In nm (map fst gen) -> name_ok out nm.

Definition stamp_rule (old : option entry) (c : str) (now : N) : N :=
  match old with
  | Some (EFile c0 st0) => if str_eqb c0 c then st0 else now
  | _ => now
  end.

Lemma app_inv_head_path : forall (a b c : path), a ++ b = a ++ c -> b = c.
Proof. intros. eapply app_inv_head; eauto. Qed.

Section Commit.
  Variables (keep : path -> bool) (out : path) (now : N) (fs1 : node) (files dirs : list path) (gen : list (path * str)).
  Hypothesis out_ok : ~ In dotdot out.
  Hypothesis W1 : wf fs1.
  Hypothesis O1 : look fs1 out = Some EDir.
  Hypothesis HF : forall f, In f files <-> exists c st, look fs1 (out ++ f) = Some (EFile c st).
  Hypothesis HD : forall d, In d dirs <-> d <> [] /\ look fs1 (out ++ d) = Some EDir.
  Hypothesis HS : StronglySorted not_above dirs.
  Hypothesis GOK : gen_ok out gen.

  Lemma exists_plain : forall p, look fs1 (out ++ p) <> None -> ~ In dotdot p.
  Proof.
    intros p L I. apply (wf_no_dotdot (out ++ p) fs1 W1).
    - intro G. apply L. apply look_None. auto.
    - apply in_or_app. auto.
  Qed.
  Lemma files_plain : forall f, In f files -> ~ In dotdot f /\ f <> [].
  Proof.
    intros f I. apply HF in I. destruct I as [c [st L]]. split.
    - apply exists_plain. congruence.
    - intro. subst. rewrite app_nil_r in L. congruence.
  Qed.
  Lemma dirs_plain : forall d, In d dirs -> ~ In dotdot d /\ d <> [].
  Proof.
    intros d I. apply HD in I. destruct I as [NE L]. split; auto. apply exists_plain. congruence.
  Qed.

  Lemma target_under_out : forall nm rel, In nm (map fst gen) -> out ++ rel = join out nm -> nm = rel /\ ~ In dotdot nm.
  Proof.
    intros nm rel I E. destruct GOK as [_ G]. destruct (G nm I) as [P|[_ P]].
    - rewrite join_plain in E; auto. apply app_inv_head_path in E. auto.
    - exfalso. apply P. rewrite <- E. apply is_prefix_app.
  Qed.

  Variables (fs2 : node) (rest : list path) (fs3 : node).
  Hypothesis HWA : write_all out now fs1 files gen = WCont fs2 rest.
  Hypothesis HRF : remove_files out fs2 (filter (fun p => negb (keep p)) rest) = inl fs3.
  Let root' := remove_dirs out fs3 (rev dirs).

  Lemma rest_spec : forall f, In f rest <-> In f files /\ ~ In f (map fst gen).
  Proof. apply (write_all_rest out now gen fs1 files fs2 rest HWA). Qed.

  Lemma fs3_frame : forall q, (forall f, In f files -> ~ In f (map fst gen) -> q <> out ++ f) -> look fs3 q = look fs2 q.
  Proof.
    intros q H. pose proof (remove_files_frame out (filter (fun p => negb (keep p)) rest) fs2 q) as F.
    rewrite HRF in F. simpl in F. apply F. intros nm I. apply filter_In in I. destruct I as [I _].
    apply rest_spec in I. destruct I as [I1 I2]. rewrite join_plain. auto. apply files_plain; auto.
  Qed.

  Lemma root'_frame : forall q, (forall d, In d dirs -> q <> out ++ d) -> look root' q = look fs3 q.
  Proof.
    intros q H. unfold root'. apply remove_dirs_frame. intros d I. apply in_rev in I.
    rewrite join_plain. auto. apply dirs_plain; auto.
  Qed.

  Lemma fs2_target : forall nm c, In (nm, c) gen -> ~ In dotdot nm ->
    look fs2 (out ++ nm) = Some (EFile c (stamp_rule (look fs1 (out ++ nm)) c now)).
  Proof.
    intros nm c I P. destruct GOK as [ND _].
    pose proof (write_all_target out now gen fs1 files fs2 rest nm c HWA ND I) as T.
    rewrite join_plain in T; auto. rewrite T. f_equal. f_equal.
    unfold stamp_of, stamp_rule. destruct (look fs1 (out ++ nm)) as [[c0 st0|]|] eqn:L.
    - assert (mem nm files = true) as ->; auto. apply mem_In. apply HF. eauto.
    - destruct (mem nm files); auto.
    - destruct (mem nm files); auto.
  Qed.

  Lemma target_survives : forall nm c st, In nm (map fst gen) -> ~ In dotdot nm ->
    look fs2 (out ++ nm) = Some (EFile c st) -> look root' (out ++ nm) = Some (EFile c st).
  Proof.
    intros nm c st I P L. rewrite root'_frame, fs3_frame; auto.
    - intros f If Nf E. apply app_inv_head_path in E. subst. auto.
    - intros d Id E. apply app_inv_head_path in E. subst d. apply HD in Id. destruct Id as [_ Ld].
      assert (look fs2 (out ++ nm) = Some EDir); [|congruence].
      eapply write_all_mono; eauto.
  Qed.

  (** (A) every generated file is there, and it keeps its stamp iff it was there with the same content *)
  Lemma commit_generated : forall nm c, In (nm, c) gen -> ~ In dotdot nm ->
    look root' (out ++ nm) = Some (EFile c (stamp_rule (look fs1 (out ++ nm)) c now)).
  Proof.
    intros nm c I P. apply target_survives; auto.
    - apply in_map_iff. exists (nm, c). auto.
    - apply fs2_target; auto.
  Qed.

  Lemma in_targets_dec : forall q, (exists nm, In nm (map fst gen) /\ q = join out nm) \/
                                   (forall nm, In nm (map fst gen) -> q <> join out nm).
  Proof.
    intro q. induction (map fst gen) as [|n l IH].
    - right. intros nm [].
    - destruct (path_eq_dec q (join out n)) as [E|E].
      + left. exists n. split; auto. left; auto.
      + destruct IH as [[nm [I Q]]|IH].
        * left. exists nm. split; auto. right; auto.
        * right. intros nm [I|I]. subst; auto. auto.
  Qed.

  (** (B) nothing else: a file under the outdir is generated, or is a kept stale file *)
  Lemma commit_nothing_else : forall rel c st, rel <> [] -> look root' (out ++ rel) = Some (EFile c st) ->
    In (rel, c) gen \/ (keep rel = true /\ ~ In rel (map fst gen) /\ look fs1 (out ++ rel) = Some (EFile c st)).
  Proof.
    intros rel c st NE L.
    pose proof (remove_dirs_back out (rev dirs) fs3 _ _ L) as L3.
    pose proof (remove_files_back out _ _ _ _ _ HRF L3) as L2.
    destruct (in_targets_dec (out ++ rel)) as [[nm [I Q]]|NT].
    - left. destruct (target_under_out nm rel I Q) as [E P]. subst nm.
      apply in_map_iff in I. destruct I as [[n c'] [E I]]. simpl in E. subst n.
      rewrite (fs2_target rel c' I P) in L2. inversion L2; subst. auto.
    - right. destruct (write_all_back out now gen fs1 files fs2 rest _ _ HWA NT L2) as [K|[K _]]; try discriminate.
      assert (IF : In rel files) by (apply HF; eauto).
      assert (NG : ~ In rel (map fst gen)).
      { intro I. apply (NT rel I). rewrite join_plain; auto. apply files_plain; auto. }
      split; auto. destruct (keep rel) eqn:KP; auto. exfalso.
      assert (IR : In rel (filter (fun p => negb (keep p)) rest)).
      { apply filter_In. split. apply rest_spec; auto. rewrite KP. auto. }
      pose proof (remove_files_gone out _ _ _ rel HRF IR) as G. rewrite join_plain in G. congruence.
      apply files_plain; auto.
  Qed.

  (** kept stale files (legacy cpp "*.o") are untouched *)
  Lemma commit_kept : forall rel c st, keep rel = true -> ~ In rel (map fst gen) ->
    look fs1 (out ++ rel) = Some (EFile c st) -> look root' (out ++ rel) = Some (EFile c st).
  Proof.
    intros rel c st KP NG L.
    assert (IF : In rel files) by (apply HF; eauto).
    assert (NT : forall nm, In nm (map fst gen) -> out ++ rel <> join out nm).
    { intros nm I E. destruct (target_under_out nm rel I E). subst. auto. }
    assert (L2 : look fs2 (out ++ rel) = Some (EFile c st)) by (eapply write_all_mono; eauto).
    assert (L3 : look fs3 (out ++ rel) = Some (EFile c st)).
    { pose proof (remove_files_frame out (filter (fun p => negb (keep p)) rest) fs2 (out ++ rel)) as F.
      rewrite HRF in F. simpl in F. rewrite F; auto. intros nm I. apply filter_In in I. destruct I as [I K].
      intro E. rewrite join_plain in E. apply app_inv_head_path in E. subst nm. rewrite KP in K. discriminate.
      apply files_plain. apply rest_spec in I. tauto. }
    rewrite root'_frame; auto. intros d Id E. apply app_inv_head_path in E. subst d.
    apply HD in Id. destruct Id as [_ Ld]. congruence.
  Qed.

  (** (C) every directory left under the outdir has a file below it *)
  Lemma commit_dirs_needed : forall rel, rel <> [] -> look root' (out ++ rel) = Some EDir -> needed root' (out ++ rel).
  Proof.
    assert (D2 : forall d, In d dirs -> look fs3 (out ++ d) = Some EDir).
    { intros d I. pose proof (proj1 (HD d) I) as [NE L].
      rewrite fs3_frame. eapply write_all_mono; eauto.
      intros f If _ E. apply app_inv_head_path in E. subst f. apply HF in If. destruct If as [c [st K]]. congruence. }
    assert (N3 : forall d, d <> [] -> look fs3 (out ++ d) = Some EDir -> In d dirs \/ needed fs3 (out ++ d)).
    { intros d NE L3. pose proof (remove_files_back out _ _ _ _ _ HRF L3) as L2.
      destruct (in_targets_dec (out ++ d)) as [[nm [I Q]]|NT].
      - exfalso. destruct (target_under_out nm d I Q) as [E P]. subst nm.
        apply in_map_iff in I. destruct I as [[n c'] [E I]]. simpl in E. subst n.
        rewrite (fs2_target d c' I P) in L2. discriminate.
      - destruct (write_all_back out now gen fs1 files fs2 rest _ _ HWA NT L2) as [K|[_ [nm [I [DD P]]]]].
        + left. apply HD. auto.
        + right. destruct GOK as [_ G]. destruct (G nm I) as [PL|[K _]]; try congruence.
          assert (PR : ~ In dotdot (removelast nm)) by (intro X; apply PL; eapply In_removelast; eauto).
          rewrite join_plain in P; auto. destruct P as [r P].
          rewrite <- app_assoc in P. apply app_inv_head_path in P.
          assert (NN : nm <> []). { intro. subst nm. simpl in P. destruct d; try congruence. discriminate. }
          apply in_map_iff in I. destruct I as [[n c] [E I]]. simpl in E. subst n.
          pose proof (fs2_target nm c I PL) as T2.
          assert (I' : In nm (map fst gen)) by (apply in_map_iff; exists (nm, c); auto).
          pose proof (target_survives nm c _ I' PL T2) as T4.
          assert (T3 : look fs3 (out ++ nm) = Some (EFile c (stamp_rule (look fs1 (out ++ nm)) c now))).
          { eapply remove_dirs_back. apply T4. }
          exists (r ++ [last nm []]), c, (stamp_rule (look fs1 (out ++ nm)) c now). split.
          * destruct r; discriminate.
          * rewrite <- T3. f_equal. rewrite <- app_assoc. f_equal. rewrite app_assoc, <- P.
            symmetry. apply app_removelast_last. auto. }
    intros rel NE L.
    destruct (prune_ok out fs3 dirs out_ok dirs_plain D2 HS N3) as [I1 [I2 I3]]. fold root' in I1, I2, I3.
    assert (N : needed fs3 (out ++ rel)).
    { destruct (N3 rel NE (I1 _ _ L)) as [K|K]; auto. }
    destruct N as [r [c [st [Nr N]]]]. exists r, c, st. split; auto.
  Qed.

  (** (D) the outdir itself *)
  Lemma commit_outdir : look root' out = Some EDir.
  Proof.
    rewrite root'_frame, fs3_frame.
    - eapply write_all_mono; eauto.
    - intros f If _ E. rewrite <- (app_nil_r out) in E at 1. apply app_inv_head_path in E. subst f.
      apply files_plain in If. tauto.
    - intros d Id E. rewrite <- (app_nil_r out) in E at 1. apply app_inv_head_path in E. subst d.
      apply dirs_plain in Id. tauto.
  Qed.

  (** (F) runtime-library files outside the outdir are always (re)written *)
  Lemma commit_escaping : forall nm c, In (nm, c) gen -> has_dotdot_prefix nm = true -> ~ is_prefix out (join out nm) ->
    look root' (join out nm) = Some (EFile c now).
  Proof.
    intros nm c I DD NP. destruct GOK as [ND _].
    pose proof (write_all_target out now gen fs1 files fs2 rest nm c HWA ND I) as T.
    assert (M : mem nm files = false).
    { apply mem_false. intro K. apply NP. rewrite join_plain. apply is_prefix_app. apply files_plain; auto. }
    rewrite M in T. simpl in T. rewrite root'_frame, fs3_frame; auto.
    - intros f _ _ E. apply NP. rewrite E. apply is_prefix_app.
    - intros d _ E. apply NP. rewrite E. apply is_prefix_app.
  Qed.

  Lemma commit_wf : wf root'.
  Proof.
    unfold root'. apply remove_dirs_wf; auto.
    pose proof (remove_files_wf out out_ok (filter (fun p => negb (keep p)) rest) fs2) as F.
    rewrite HRF in F. simpl in F. apply F. eapply write_all_wf; eauto.
  Qed.
End Commit.


(** * The statement of C16 for one generation *)
Record exact (keep : path -> bool) (out : path) (gen : list (path * str)) (now : N) (root root' : node) : Prop := {
  ex_outdir : look root' out = Some EDir;
  (* every generated file is there with the generated content; it keeps its stamp (is not
     rewritten) iff a file with the same content was there before *)
  ex_generated : forall nm c, In (nm, c) gen -> ~ In dotdot nm ->
      look root' (out ++ nm) = Some (EFile c (stamp_rule (look root (out ++ nm)) c now));
  (* no other file: stale files are gone, except the ones [keep] protects, which are untouched *)
  ex_nothing_else : forall rel c st, rel <> [] -> look root' (out ++ rel) = Some (EFile c st) ->
      In (rel, c) gen \/ (keep rel = true /\ ~ In rel (map fst gen) /\ look root (out ++ rel) = Some (EFile c st));
  ex_kept : forall rel c st, keep rel = true -> ~ In rel (map fst gen) ->
      look root (out ++ rel) = Some (EFile c st) -> look root' (out ++ rel) = Some (EFile c st);
  (* no directory without a file below it *)
  ex_dirs : forall rel, rel <> [] -> look root' (out ++ rel) = Some EDir -> needed root' (out ++ rel);
  (* files addressed through a leading ".." (runtime library next to the outdir) are always written *)
  ex_escaping : forall nm c, In (nm, c) gen -> has_dotdot_prefix nm = true -> ~ is_prefix out (join out nm) ->
      look root' (join out nm) = Some (EFile c now)
}.

Lemma commit_not_refused : forall keep out now fs1 files dirs gen fs, commit keep out now fs1 files dirs gen <> Refused fs.
Proof.
  intros. unfold commit. destruct (write_all out now fs1 files gen) as [a b|a];
    [destruct (remove_files out a (filter (fun p => negb (keep p)) b))|]; intro X; discriminate X.
Qed.

Lemma out_app_neq : forall (out rel : path), rel <> [] -> out ++ rel <> out.
Proof.
  intros out rel NE E. rewrite <- (app_nil_r out) in E at 2. apply app_inv_head in E. auto.
Qed.

Section OneGeneration.
  Variables (keep : path -> bool) (root : node) (out : path) (gen : list (path * str)) (marker : path) (now : N).
  Hypothesis W : wf root.
  Hypothesis out_ok : ~ In dotdot out.

  Theorem outdir_write_exact : gen_ok out gen -> forall root',
    outdir_write keep root out gen marker now = Ok root' -> exact keep out gen now root root' /\ wf root'.
  Proof.
    intros GOK root' H. unfold outdir_write in H.
    pose proof (prepare_cases root out marker W out_ok) as PC.
    destruct (prepare root out marker) as [fs1 files dirs|r].
    2:{ subst r. contradiction. }
    destruct PC as [W1 [O1 [FR [RO [HF [HD [HS _]]]]]]].
    unfold commit in H.
    destruct (write_all out now fs1 files gen) as [fs2 rest|] eqn:HWA; try discriminate.
    destruct (remove_files out fs2 (filter (fun p => negb (keep p)) rest)) as [fs3|] eqn:HRF; try discriminate.
    inversion H; subst root'. clear H.
    assert (SAME : forall rel, rel <> [] -> look fs1 (out ++ rel) = look root (out ++ rel)).
    { intros. apply FR. apply out_app_neq; auto. }
    split; [constructor|].
    - eapply commit_outdir; eauto.
    - intros nm c I P.
      assert (G : look (remove_dirs out fs3 (rev dirs)) (out ++ nm) = Some (EFile c (stamp_rule (look fs1 (out ++ nm)) c now)))
        by (eapply commit_generated; eauto).
      destruct nm as [|x nm].
      + rewrite app_nil_r in G. assert (look (remove_dirs out fs3 (rev dirs)) out = Some EDir) by (eapply commit_outdir; eauto).
        congruence.
      + rewrite G. rewrite SAME; auto. discriminate.
    - intros rel c st NE L.
      assert (K : In (rel, c) gen \/ (keep rel = true /\ ~ In rel (map fst gen) /\ look fs1 (out ++ rel) = Some (EFile c st)))
        by (eapply commit_nothing_else; eauto).
      destruct K as [K|[K1 [K2 K3]]]; auto.
      right. rewrite SAME in K3; auto.
    - intros rel c st KP NG L. assert (NE : rel <> []).
      { intro. subst. rewrite app_nil_r in L. destruct RO as [RO|RO]; congruence. }
      eapply commit_kept; eauto. rewrite SAME; auto.
    - intros rel NE L. eapply commit_dirs_needed; eauto.
    - intros nm c I DD NP. eapply commit_escaping; eauto.
    - eapply commit_wf; eauto.
  Qed.

  (** refusal: exactly when the outdir holds a file but not the marker; the tree is unchanged *)
  Theorem outdir_write_refuses : forall f c st, f <> [] -> look root (out ++ f) = Some (EFile c st) ->
    (forall c st, look root (out ++ marker) <> Some (EFile c st)) ->
    outdir_write keep root out gen marker now = Refused root.
  Proof.
    intros f c st NE L NM. unfold outdir_write.
    pose proof (prepare_cases root out marker W out_ok) as PC.
    assert (OD : look root out = Some EDir). { eapply look_below_is_dir; eauto. congruence. }
    destruct (prepare root out marker) as [fs1 files dirs|[fs|fs|fs]].
    - exfalso. destruct PC as [W1 [O1 [FR [RO [HF [HD [HS CHK]]]]]]].
      assert (IF : In f files). { apply HF. exists c, st. rewrite FR; auto. apply out_app_neq; auto. }
      destruct CHK as [CHK|CHK]. subst. contradiction.
      apply HF in CHK. destruct CHK as [c' [st' K]].
      assert (marker <> []). { intro. subst. rewrite app_nil_r in K. congruence. }
      rewrite FR in K. apply (NM _ _ K). apply out_app_neq; auto.
    - contradiction.
    - destruct PC as [E _]. subst; auto.
    - destruct PC as [_ K]. contradiction.
  Qed.

  Theorem outdir_write_refused_inv : forall fs, outdir_write keep root out gen marker now = Refused fs ->
    fs = root /\ (exists f c st, f <> [] /\ look root (out ++ f) = Some (EFile c st)) /\
    (forall c st, look root (out ++ marker) <> Some (EFile c st)).
  Proof.
    intros fs H. unfold outdir_write in H.
    pose proof (prepare_cases root out marker W out_ok) as PC.
    destruct (prepare root out marker) as [fs1 files dirs|r].
    - exfalso. eapply commit_not_refused; eauto.
    - subst r. destruct PC as [E [OD [[f [c [st L]]] NM]]]. split; auto. split; auto.
      exists f, c, st. split; auto. intro. subst. rewrite app_nil_r in L. congruence.
  Qed.

  (** whatever the outcome: nothing outside the outdir changes, except the files addressed by
      generated names that resolve outside; and the tree stays well formed *)
  Theorem outdir_write_frame : gen_ok out gen -> forall q, ~ is_prefix out q ->
    (forall nm, In nm (map fst gen) -> q <> join out nm) ->
    look (fs_of (outdir_write keep root out gen marker now)) q = look root q.
  Proof.
    intros GOK q NP NT. unfold outdir_write.
    pose proof (prepare_cases root out marker W out_ok) as PC.
    destruct (prepare root out marker) as [fs1 files dirs|[fs|fs|fs]]; simpl.
    2:{ contradiction. }
    2:{ destruct PC; subst; auto. }
    2:{ destruct PC; subst; auto. }
    destruct PC as [W1 [O1 [FR [RO [HF [HD [HS _]]]]]]].
    assert (QO : q <> out). { intro. subst. apply NP. apply is_prefix_refl. }
    rewrite <- (FR q QO).
    assert (PLF : forall f, In f files -> ~ In dotdot f).
    { intros f I. apply HF in I. destruct I as [c [st L]]. intro X.
      apply (wf_no_dotdot (out ++ f) fs1 W1). intro G. apply look_None in G. congruence. apply in_or_app; auto. }
    assert (PLD : forall d, In d dirs -> ~ In dotdot d).
    { intros d I. apply HD in I. destruct I as [_ L]. intro X.
      apply (wf_no_dotdot (out ++ d) fs1 W1). intro G. apply look_None in G. congruence. apply in_or_app; auto. }
    assert (WA : look (wfs (write_all out now fs1 files gen)) q = look fs1 q).
    { destruct (classic_prefix q out) as [P|P].
      - assert (L : look fs1 q = Some EDir).
        { destruct P as [r P]. rewrite P in O1. destruct r. rewrite app_nil_r in P. congruence.
          apply (look_below_is_dir fs1 q (s :: r)). rewrite O1. discriminate. discriminate. }
        rewrite L. apply write_all_dir_stays; auto.
      - apply write_all_frame; auto. intros nm I [DD PR].
        destruct GOK as [_ G]. destruct (G nm I) as [PL|[K _]]; try congruence.
        rewrite join_plain in PR. destruct (prefix_comparable _ _ _ PR); auto.
        intro X. apply PL. eapply In_removelast; eauto. }
    unfold commit. destruct (write_all out now fs1 files gen) as [fs2 rest|fs2] eqn:HWA; simpl in *; auto.
    pose proof (remove_files_frame out (filter (fun p => negb (keep p)) rest) fs2 q) as RF.
    assert (RFH : forall nm, In nm (filter (fun p => negb (keep p)) rest) -> q <> join out nm).
    { intros nm I E. apply filter_In in I. destruct I as [I _].
      apply (write_all_rest out now gen fs1 files fs2 rest HWA) in I. destruct I as [I _].
      rewrite join_plain in E; auto. apply NP. rewrite E. apply is_prefix_app. }
    specialize (RF RFH).
    destruct (remove_files out fs2 (filter (fun p => negb (keep p)) rest)) as [fs3|fs3]; simpl in *; try congruence.
    rewrite remove_dirs_frame. congruence.
    intros d I E. apply in_rev in I. rewrite join_plain in E; auto. apply NP. rewrite E. apply is_prefix_app.
  Qed.

  Theorem outdir_write_wf : wf (fs_of (outdir_write keep root out gen marker now)).
  Proof.
    unfold outdir_write.
    pose proof (prepare_cases root out marker W out_ok) as PC.
    destruct (prepare root out marker) as [fs1 files dirs|[fs|fs|fs]]; simpl.
    2:{ contradiction. }
    2:{ destruct PC; subst; auto. }
    2:{ destruct PC; subst; auto. }
    destruct PC as [W1 _]. unfold commit.
    pose proof (write_all_any_wf out now gen fs1 files out_ok W1) as WA.
    destruct (write_all out now fs1 files gen) as [fs2 rest|fs2]; simpl in *; auto.
    pose proof (remove_files_wf out out_ok (filter (fun p => negb (keep p)) rest) fs2 WA) as RF.
    destruct (remove_files out fs2 (filter (fun p => negb (keep p)) rest)) as [fs3|fs3]; simpl in *; auto.
    apply remove_dirs_wf; auto.
  Qed.
End OneGeneration.

(** the legacy writer is the same algorithm with the marker appended to the generated set *)
Theorem legacy_write_eq : forall keep root out gen mc now, ~ In legacy_marker (map fst gen) ->
  legacy_write keep root out gen mc now = outdir_write keep root out (gen ++ [(legacy_marker, mc)]) legacy_marker now.
Proof.
  intros. unfold legacy_write, outdir_write. destruct (prepare root out legacy_marker); auto.
  assert (mem legacy_marker (map fst gen) = false) as -> by (apply mem_false; auto). auto.
Qed.

(** * Histories of generations into one directory *)
Definition marked_or_empty (out marker : path) (root : node) : Prop :=
  (forall f c st, f <> [] -> look root (out ++ f) <> Some (EFile c st)) \/
  (exists c st, look root (out ++ marker) = Some (EFile c st)).

Definition step_ok (out marker : path) (s : step) : Prop :=
  gen_ok out (st_gen s) /\ ~ In dotdot marker /\ In marker (map fst (st_gen s)).

Fixpoint hist_ok (keep : path -> bool) (out marker : path) (root : node) (steps : list step) : Prop :=
  match steps with
  | [] => True
  | s :: r =>
      match outdir_write keep root out (st_gen s) marker (st_now s) with
      | Ok root' => exact keep out (st_gen s) (st_now s) root root' /\ hist_ok keep out marker root' r
      | Refused _ => False            (* never refused *)
      | Failed _ => True              (* an I/O failure ends what the theorem says about the history *)
      end
  end.

Theorem history_exact : forall keep out marker steps root,
  wf root -> ~ In dotdot out -> marked_or_empty out marker root -> Forall (step_ok out marker) steps ->
  hist_ok keep out marker root steps.
Proof.
  induction steps as [|s steps IH]; intros root W OK M F; simpl; auto.
  inversion F as [|x l [GOK [MP MI]] F']; subst.
  destruct (outdir_write keep root out (st_gen s) marker (st_now s)) as [root'|fs|fs] eqn:R; auto.
  - destruct (outdir_write_exact keep root out (st_gen s) marker (st_now s) W OK GOK root' R) as [EX W'].
    split; auto. apply IH; auto.
    right. apply in_map_iff in MI. destruct MI as [[m c] [E I]]. simpl in E. subst m.
    eexists. eexists. apply (ex_generated _ _ _ _ _ _ EX marker c I MP).
  - destruct (outdir_write_refused_inv keep root out (st_gen s) marker (st_now s) W OK fs R) as [_ [[f [c [st [NE L]]]] NM]].
    destruct M as [M|[c' [st' M]]].
    + apply (M f c st NE L).
    + apply (NM c' st' M).
Qed.

Theorem history_frame : forall keep out marker steps root q,
  wf root -> ~ In dotdot out -> Forall (fun s => gen_ok out (st_gen s)) steps -> ~ is_prefix out q ->
  (forall s nm, In s steps -> In nm (map fst (st_gen s)) -> q <> join out nm) ->
  look (final_fs keep out marker root steps) q = look root q.
Proof.
  induction steps as [|s steps IH]; intros root q W OK F NP NT; simpl; auto.
  inversion F as [|x l GOK F']; subst. unfold final_fs in *. simpl.
  rewrite IH; auto.
  - apply outdir_write_frame; auto. intros nm I. apply (NT s nm); auto. left; auto.
  - apply outdir_write_wf; auto.
  - intros s' nm I. apply NT. right; auto.
Qed.

(** * Corollaries in the form used by Props/C16.v *)
Section Corollaries.
  Variables (keep : path -> bool) (root : node) (out : path) (gen : list (path * str)) (marker : path) (now : N) (root' : node).
  Hypothesis W : wf root.
  Hypothesis out_ok : ~ In dotdot out.
  Hypothesis GOK : gen_ok out gen.
  Hypothesis OKR : outdir_write keep root out gen marker now = Ok root'.

  Let EX : exact keep out gen now root root' := proj1 (outdir_write_exact keep root out gen marker now W out_ok GOK root' OKR).

  Lemma ow_unchanged_not_rewritten : forall nm c st0, In (nm, c) gen -> ~ In dotdot nm ->
    look root (out ++ nm) = Some (EFile c st0) -> look root' (out ++ nm) = Some (EFile c st0).
  Proof.
    intros nm c st0 I P L. rewrite (ex_generated _ _ _ _ _ _ EX nm c I P). rewrite L. simpl.
    rewrite str_eqb_refl. auto.
  Qed.

  Lemma ow_changed_or_new_written : forall nm c, In (nm, c) gen -> ~ In dotdot nm ->
    (forall st0, look root (out ++ nm) <> Some (EFile c st0)) -> look root' (out ++ nm) = Some (EFile c now).
  Proof.
    intros nm c I P L. rewrite (ex_generated _ _ _ _ _ _ EX nm c I P).
    destruct (look root (out ++ nm)) as [[c0 st0|]|] eqn:E; simpl; auto.
    destruct (str_eqb c0 c) eqn:Q; auto. apply str_eqb_eq in Q. subst. exfalso. apply (L st0). auto.
  Qed.

  Lemma ow_nothing_else : forall rel c st, rel <> [] -> look root' (out ++ rel) = Some (EFile c st) ->
    In (rel, c) gen \/ (keep rel = true /\ ~ In rel (map fst gen) /\ look root (out ++ rel) = Some (EFile c st)).
  Proof. exact (ex_nothing_else _ _ _ _ _ _ EX). Qed.

  Lemma ow_stale_removed : forall rel, rel <> [] -> ~ In rel (map fst gen) -> keep rel = false ->
    forall c st, look root' (out ++ rel) <> Some (EFile c st).
  Proof.
    intros rel NE NG KP c st L. destruct (ex_nothing_else _ _ _ _ _ _ EX rel c st NE L) as [I|[K _]].
    - apply NG. apply in_map_iff. exists (rel, c). auto.
    - congruence.
  Qed.

  Lemma ow_kept : forall rel c st, keep rel = true -> ~ In rel (map fst gen) ->
    look root (out ++ rel) = Some (EFile c st) -> look root' (out ++ rel) = Some (EFile c st).
  Proof. exact (ex_kept _ _ _ _ _ _ EX). Qed.

  Lemma ow_no_empty_dirs : forall rel, rel <> [] -> look root' (out ++ rel) = Some EDir ->
    exists r c st, r <> [] /\ look root' (out ++ rel ++ r) = Some (EFile c st).
  Proof.
    intros rel NE L. destruct (ex_dirs _ _ _ _ _ _ EX rel NE L) as [r [c [st [Nr N]]]].
    exists r, c, st. split; auto. rewrite app_assoc. auto.
  Qed.

  Lemma ow_outdir_exists : look root' out = Some EDir.
  Proof. exact (ex_outdir _ _ _ _ _ _ EX). Qed.

  Lemma ow_runtime_files_always_written : forall nm c, In (nm, c) gen -> has_dotdot_prefix nm = true ->
    ~ is_prefix out (join out nm) -> look root' (join out nm) = Some (EFile c now).
  Proof. exact (ex_escaping _ _ _ _ _ _ EX). Qed.

  Lemma ow_wf : wf root'.
  Proof. exact (proj2 (outdir_write_exact keep root out gen marker now W out_ok GOK root' OKR)). Qed.
End Corollaries.

(** * The order in which the generated files are processed does not matter *)
Lemma gen_ok_perm : forall out gen gen', Permutation gen gen' -> gen_ok out gen -> gen_ok out gen'.
Proof.
  intros out gen gen' P [ND G]. split.
  - eapply Permutation_NoDup; [|eauto]. apply Permutation_map. auto.
  - intros nm I. apply G. eapply Permutation_in; [|eauto]. apply Permutation_map. apply Permutation_sym. auto.
Qed.

Lemma exact_same_entry : forall keep out now root g g' x x', Permutation g g' -> wf x ->
  exact keep out g now root x -> exact keep out g' now root x' ->
  forall rel e, rel <> [] -> look x (out ++ rel) = Some e -> look x' (out ++ rel) = Some e.
Proof.
  intros keep out now root g g' x x' PG Wx E E'.
  assert (FILE : forall rel c st, rel <> [] -> look x (out ++ rel) = Some (EFile c st) -> look x' (out ++ rel) = Some (EFile c st)).
  { intros rel c st NE L.
    destruct (ex_nothing_else _ _ _ _ _ _ E rel c st NE L) as [I|[K1 [K2 K3]]].
    - assert (PL : ~ In dotdot rel).
      { intro X. apply (wf_no_dotdot (out ++ rel) x Wx). intro G. apply look_None in G. congruence.
        apply in_or_app. auto. }
      rewrite (ex_generated _ _ _ _ _ _ E rel c I PL) in L.
      rewrite (ex_generated _ _ _ _ _ _ E' rel c (Permutation_in _ PG I) PL). auto.
    - apply (ex_kept _ _ _ _ _ _ E'); auto. intro I. apply K2.
      eapply Permutation_in; [|eauto]. apply Permutation_map. apply Permutation_sym. auto. }
  intros rel [c st|] NE L; auto.
  destruct (ex_dirs _ _ _ _ _ _ E rel NE L) as [r0 [c [st [Nr N]]]].
  rewrite <- app_assoc in N. apply FILE in N.
  - rewrite app_assoc in N. eapply look_below_is_dir; eauto. congruence.
  - destruct rel; try congruence. discriminate.
Qed.

(** the tree written does not depend on the order in which the generated files are processed
    (Go: iteration over the map gen.Code, worker pool) *)
Theorem outdir_write_order_independent : forall keep root out gen gen' marker now r r',
  wf root -> ~ In dotdot out -> gen_ok out gen -> Permutation gen gen' ->
  outdir_write keep root out gen marker now = Ok r ->
  outdir_write keep root out gen' marker now = Ok r' ->
  forall q, look r q = look r' q.
Proof.
  intros keep root out gen gen' marker now r r' W OK GOK P R R' q.
  pose proof (gen_ok_perm _ _ _ P GOK) as GOK'.
  destruct (outdir_write_exact keep root out gen marker now W OK GOK r R) as [EX Wr].
  destruct (outdir_write_exact keep root out gen' marker now W OK GOK' r' R') as [EX' Wr'].
  destruct (classic_prefix out q) as [[rel E]|NP].
  - subst q. destruct rel as [|x rel].
    + rewrite app_nil_r. rewrite (ex_outdir _ _ _ _ _ _ EX), (ex_outdir _ _ _ _ _ _ EX'). auto.
    + assert (NE : x :: rel <> []) by discriminate.
      destruct (look r (out ++ x :: rel)) as [e|] eqn:L.
      * symmetry. apply (exact_same_entry keep out now root gen gen' r r' P Wr EX EX' _ _ NE L).
      * destruct (look r' (out ++ x :: rel)) as [e|] eqn:L'; auto.
        rewrite (exact_same_entry keep out now root gen' gen r' r (Permutation_sym P) Wr' EX' EX _ _ NE L') in L. discriminate.
  - destruct (in_targets_dec out gen q) as [[nm [I Q]]|NT].
    + destruct GOK as [_ G]. destruct (G nm I) as [PL|[DD NPR]].
      * exfalso. apply NP. rewrite Q, join_plain; auto. apply is_prefix_app.
      * apply in_map_iff in I. destruct I as [[n c] [En I]]. simpl in En. subst n q.
        rewrite (ex_escaping _ _ _ _ _ _ EX nm c I DD NPR).
        rewrite (ex_escaping _ _ _ _ _ _ EX' nm c (Permutation_in _ P I) DD NPR). auto.
    + pose proof (outdir_write_frame keep root out gen marker now W OK GOK q NP NT) as F. rewrite R in F. simpl in F.
      assert (NT' : forall nm, In nm (map fst gen') -> q <> join out nm).
      { intros nm I. apply NT. eapply Permutation_in; [|eauto]. apply Permutation_map. apply Permutation_sym. auto. }
      pose proof (outdir_write_frame keep root out gen' marker now W OK GOK' q NP NT') as F'. rewrite R' in F'. simpl in F'.
      congruence.
Qed.
