(** M10 [Outdir] -- C15: collect-then-sort is order independent; WalkDeterministic does not
    depend on the enumeration order of directory entries nor on the order of the roots.  No axioms. *)
From Coq Require Import List NArith Bool Lia Permutation Sorted.
From TLV Require Import Outdir.OutdirModel Outdir.OutdirBase.
Import ListNotations.
Open Scope N_scope.

(** * collect-then-sort: the output does not depend on the order of collection *)
Section SortBy.
  Context {A : Type} (key : A -> str).
  Definition kle (a b : A) : Prop := str_leb (key a) (key b) = true.

  Lemma insert_by_perm : forall x l, Permutation (x :: l) (insert_by key x l).
  Proof.
    induction l as [|y l IH]; simpl; auto.
    destruct (str_leb (key x) (key y)); auto.
    eapply perm_trans. apply perm_swap. apply perm_skip. auto.
  Qed.

  Lemma sort_by_perm : forall l, Permutation l (sort_by key l).
  Proof.
    induction l as [|x l IH]; simpl; auto.
    eapply perm_trans. apply perm_skip. apply IH. apply insert_by_perm.
  Qed.

  Lemma insert_by_sorted : forall x l, StronglySorted kle l -> StronglySorted kle (insert_by key x l).
  Proof.
    induction l as [|y l IH]; simpl; intro S.
    - constructor; auto.
    - inversion S as [|? ? S' F]; subst. destruct (str_leb (key x) (key y)) eqn:E.
      + constructor; auto. constructor; auto.
        rewrite Forall_forall in *. intros z I. unfold kle. eapply str_leb_trans; eauto. apply F; auto.
      + constructor; auto. apply Forall_forall. intros z I.
        apply (Permutation_in _ (Permutation_sym (insert_by_perm x l))) in I. destruct I as [I|I].
        * subst. unfold kle. destruct (str_leb_total (key y) (key z)); auto. congruence.
        * rewrite Forall_forall in F. auto.
  Qed.

  Lemma sort_by_sorted : forall l, StronglySorted kle (sort_by key l).
  Proof. induction l; simpl. constructor. apply insert_by_sorted; auto. Qed.

  (** any two sorted arrangements of the same elements coincide when the key identifies the element *)
  Lemma sorted_perm_unique : forall l1 l2,
    (forall a b, In a l1 -> In b l1 -> key a = key b -> a = b) ->
    StronglySorted kle l1 -> StronglySorted kle l2 -> Permutation l1 l2 -> l1 = l2.
  Proof.
    induction l1 as [|a l1 IH]; intros l2 INJ S1 S2 P.
    - apply Permutation_nil in P. auto.
    - destruct l2 as [|b l2]. apply Permutation_sym, Permutation_nil in P. discriminate.
      inversion S1 as [|? ? S1' F1]; subst. inversion S2 as [|? ? S2' F2]; subst.
      assert (Ia : In a (b :: l2)) by (eapply Permutation_in; eauto; left; auto).
      assert (Ib : In b (a :: l1)) by (eapply Permutation_in; [apply Permutation_sym; eauto|left; auto]).
      assert (AB : a = b).
      { apply INJ; auto. left; auto. apply str_leb_antisym.
        - destruct Ib as [Ib|Ib]. subst. apply str_leb_refl. rewrite Forall_forall in F1. apply F1; auto.
        - destruct Ia as [Ia|Ia]. subst. apply str_leb_refl. rewrite Forall_forall in F2. apply F2; auto. }
      subst b. f_equal. apply IH; auto.
      + intros x y Ix Iy. apply INJ; right; auto.
      + eapply Permutation_cons_inv; eauto.
  Qed.

  Lemma NoDup_key_inj : forall l, NoDup (map key l) -> forall a b, In a l -> In b l -> key a = key b -> a = b.
  Proof.
    induction l as [|x l IH]; simpl; intros ND a b Ia Ib E; try contradiction.
    inversion ND as [|? ? NI ND']; subst.
    destruct Ia as [Ia|Ia]; destruct Ib as [Ib|Ib]; subst; auto.
    - exfalso. apply NI. rewrite E. apply in_map; auto.
    - exfalso. apply NI. rewrite <- E. apply in_map; auto.
  Qed.

  Theorem sort_by_order_independent : forall xs ys, Permutation xs ys -> NoDup (map key xs) -> sort_by key xs = sort_by key ys.
  Proof.
    intros xs ys P ND. apply sorted_perm_unique.
    - intros a b Ia Ib. apply (NoDup_key_inj xs ND).
      eapply Permutation_in; [apply Permutation_sym; apply sort_by_perm|auto].
      eapply Permutation_in; [apply Permutation_sym; apply sort_by_perm|auto].
    - apply sort_by_sorted.
    - apply sort_by_sorted.
    - eapply perm_trans. apply Permutation_sym. apply sort_by_perm.
      eapply perm_trans. apply P. apply sort_by_perm.
  Qed.

  Theorem sort_by_order_independent_inj : (forall a b, key a = key b -> a = b) ->
    forall xs ys, Permutation xs ys -> sort_by key xs = sort_by key ys.
  Proof.
    intros INJ xs ys P. apply sorted_perm_unique; auto.
    - apply sort_by_sorted.
    - apply sort_by_sorted.
    - eapply perm_trans. apply Permutation_sym. apply sort_by_perm.
      eapply perm_trans. apply P. apply sort_by_perm.
  Qed.
End SortBy.

(** the hypothesis is necessary: a stable sort by a key that does not identify the element
    reproduces the collection order among equal keys *)
Theorem sort_by_order_dependent_refuted :
  exists (xs ys : list (str * N)), Permutation xs ys /\ sort_by fst xs <> sort_by fst ys.
Proof.
  exists [([97], 1); ([97], 2)], [([97], 2); ([97], 1)]. split.
  - apply perm_swap.
  - vm_compute. discriminate.
Qed.

(** * WalkDeterministic does not depend on the order in which directory entries are enumerated *)
Inductive node_perm : node -> node -> Prop :=
| np_file : forall c st, node_perm (File c st) (File c st)
| np_dir : forall ch ch1 ch2,
    Forall2 (fun a b => fst a = fst b /\ node_perm (snd a) (snd b)) ch ch1 ->
    Permutation ch1 ch2 -> node_perm (Dir ch) (Dir ch2).

Lemma Forall2_names : forall ch ch1,
  Forall2 (fun a b : str * node => fst a = fst b /\ node_perm (snd a) (snd b)) ch ch1 -> names ch = names ch1.
Proof. induction 1; simpl; auto. destruct H. congruence. Qed.

Lemma Forall2_In_l : forall ch ch1 x k,
  Forall2 (fun a b : str * node => fst a = fst b /\ node_perm (snd a) (snd b)) ch ch1 -> In (x, k) ch ->
  exists k1, In (x, k1) ch1 /\ node_perm k k1.
Proof.
  induction 1; simpl; intro I; try contradiction. destruct I as [I|I].
  - subst. destruct y as [y k1]. simpl in H. destruct H. subst. exists k1. auto.
  - destruct (IHForall2 I) as [k1 [I1 N1]]. exists k1. auto.
Qed.

Lemma walk_files_perm : forall ext n n' p, node_perm n n' -> Permutation (walk_files ext p n) (walk_files ext p n').
Proof.
  intros ext n. induction n as [c st|ch IH] using node_ind2; intros n' p NP; inversion NP as [|? ch1 ch2 H1 H2]; subst.
  - apply Permutation_refl.
  - simpl. eapply perm_trans; [|apply Permutation_flat_map; eauto].
    clear NP H2. induction H1 as [|a b l l' R F2 IHF]; simpl; auto.
    inversion IH as [|? ? IHa IHl]; subst. destruct a as [xa ka]. destruct b as [xb kb]. simpl in *.
    destruct R as [E R]. subst xb. apply Permutation_app.
    + apply IHa; auto.
    + apply IHF; auto.
Qed.

Lemma get_perm : forall r n n', wf n -> node_perm n n' ->
  match get n r with
  | Some m => exists m', get n' r = Some m' /\ node_perm m m'
  | None => get n' r = None
  end.
Proof.
  induction r as [|x r IH]; intros n n' W NP; simpl.
  - exists n'. auto.
  - inversion NP as [|? ch1 ch2 H H0]; subst; auto.
    inversion W as [|? ND NDD FA]; subst.
    assert (ND2 : NoDup (names ch2)).
    { pose proof (Forall2_names _ _ H) as EN. unfold names in *.
      eapply Permutation_NoDup; [apply Permutation_map; eauto|]. rewrite <- EN. auto. }
    destruct (ch_get x ch) as [k|] eqn:G.
    + apply ch_get_In in G. destruct (Forall2_In_l _ _ _ _ H G) as [k1 [I1 N1]].
      assert (G2 : ch_get x ch2 = Some k1). { apply In_ch_get; auto. eapply Permutation_in; eauto. }
      rewrite G2. apply IH; auto. rewrite Forall_forall in FA. apply (FA (x, k)); auto.
    + apply ch_get_None in G. assert (G2 : ch_get x ch2 = None).
      { apply ch_get_None. intro I. apply G. pose proof (Forall2_names _ _ H) as EN. unfold names in *. rewrite EN.
        eapply Permutation_in; [apply Permutation_sym; apply Permutation_map; eauto|]. auto. }
      rewrite G2. auto.
Qed.

Lemma walk_roots_perm_tree : forall ext root root' roots, wf root -> node_perm root root' ->
  match walk_roots ext root roots, walk_roots ext root' roots with
  | Some l, Some l' => Permutation l l'
  | None, None => True
  | _, _ => False
  end.
Proof.
  induction roots as [|r roots IH]; intros W NP; simpl; auto.
  specialize (IH W NP). pose proof (get_perm r root root' W NP) as G.
  destruct (get root r) as [m|].
  - destruct G as [m' [G N]]. rewrite G.
    destruct (walk_roots ext root roots); destruct (walk_roots ext root' roots); auto.
    apply Permutation_app; auto. apply walk_files_perm; auto.
  - rewrite G. auto.
Qed.

Lemma walk_roots_perm_roots : forall ext root roots roots', Permutation roots roots' ->
  match walk_roots ext root roots, walk_roots ext root roots' with
  | Some l, Some l' => Permutation l l'
  | None, None => True
  | _, _ => False
  end.
Proof.
  induction 1; simpl.
  - auto.
  - destruct (get root x); auto.
    destruct (walk_roots ext root l); destruct (walk_roots ext root l'); auto. apply Permutation_app_head; auto.
  - destruct (get root x); destruct (get root y); destruct (walk_roots ext root l); auto.
    rewrite !app_assoc. apply Permutation_app_tail. apply Permutation_app_comm.
  - destruct (walk_roots ext root l); destruct (walk_roots ext root l'); destruct (walk_roots ext root l''); auto; try contradiction.
    eapply perm_trans; eauto.
Qed.

Theorem walk_enumeration_independent : forall ext root root' roots, wf root -> node_perm root root' ->
  walk_deterministic ext root roots = walk_deterministic ext root' roots.
Proof.
  intros ext root root' roots W NP. unfold walk_deterministic.
  pose proof (walk_roots_perm_tree ext root root' roots W NP) as P.
  destruct (walk_roots ext root roots); destruct (walk_roots ext root' roots); try contradiction; auto.
  simpl. f_equal. apply sort_by_order_independent_inj; auto.
Qed.

Theorem walk_roots_order_independent : forall ext root roots roots', Permutation roots roots' ->
  walk_deterministic ext root roots = walk_deterministic ext root roots'.
Proof.
  intros ext root roots roots' PR. unfold walk_deterministic.
  pose proof (walk_roots_perm_roots ext root roots roots' PR) as P.
  destruct (walk_roots ext root roots); destruct (walk_roots ext root roots'); try contradiction; auto.
  simpl. f_equal. apply sort_by_order_independent_inj; auto.
Qed.

Theorem walk_sorted : forall ext root roots l, walk_deterministic ext root roots = Some l ->
  StronglySorted (fun a b => str_leb a b = true) l.
Proof.
  intros ext root roots l H. unfold walk_deterministic in H. destruct (walk_roots ext root roots); inversion H.
  apply (sort_by_sorted (fun s : str => s)).
Qed.
