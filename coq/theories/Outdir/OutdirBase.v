(** M10 [Outdir] -- basic facts: strings, children lists, well-formed trees, get/alter,
    the os.* primitives, collectRelativePaths.  No axioms. *)
From Coq Require Import List NArith Bool Lia Permutation Sorted.
From TLV Require Import Outdir.OutdirModel.
Import ListNotations.
Open Scope N_scope.

(** * Strings and paths: decidable equality *)
Lemma str_eqb_eq : forall a b, str_eqb a b = true <-> a = b.
Proof.
  induction a as [|x a IH]; destruct b as [|y b]; simpl; split; intro H; try congruence; try reflexivity.
  - apply andb_true_iff in H. destruct H as [H1 H2]. apply N.eqb_eq in H1. apply IH in H2. congruence.
  - inversion H; subst. apply andb_true_iff. split. apply N.eqb_refl. apply IH. reflexivity.
Qed.
Lemma str_eqb_refl : forall a, str_eqb a a = true.
Proof. intro. apply str_eqb_eq. reflexivity. Qed.
Lemma str_eqb_neq : forall a b, str_eqb a b = false <-> a <> b.
Proof.
  intros. split; intro H.
  - intro E. apply str_eqb_eq in E. congruence.
  - destruct (str_eqb a b) eqn:E; auto. apply str_eqb_eq in E. contradiction.
Qed.
Lemma str_eq_dec : forall a b : str, {a = b} + {a <> b}.
Proof. intros. destruct (str_eqb a b) eqn:E. left; apply str_eqb_eq; auto. right; apply str_eqb_neq; auto. Qed.

Lemma path_eqb_eq : forall a b, path_eqb a b = true <-> a = b.
Proof.
  induction a as [|x a IH]; destruct b as [|y b]; simpl; split; intro H; try congruence; try reflexivity.
  - apply andb_true_iff in H. destruct H as [H1 H2]. apply str_eqb_eq in H1. apply IH in H2. congruence.
  - inversion H; subst. apply andb_true_iff. split. apply str_eqb_refl. apply IH. reflexivity.
Qed.
Lemma path_eqb_neq : forall a b, path_eqb a b = false <-> a <> b.
Proof.
  intros. split; intro H.
  - intro E. apply path_eqb_eq in E. congruence.
  - destruct (path_eqb a b) eqn:E; auto. apply path_eqb_eq in E. contradiction.
Qed.
Lemma path_eq_dec : forall a b : path, {a = b} + {a <> b}.
Proof. intros. destruct (path_eqb a b) eqn:E. left; apply path_eqb_eq; auto. right; apply path_eqb_neq; auto. Qed.

Lemma mem_In : forall p l, mem p l = true <-> In p l.
Proof.
  intros. unfold mem. rewrite existsb_exists. split.
  - intros [x [H1 H2]]. apply path_eqb_eq in H2. subst. auto.
  - intro H. exists p. split; auto. apply path_eqb_eq. reflexivity.
Qed.
Lemma mem_false : forall p l, mem p l = false <-> ~ In p l.
Proof.
  intros. split; intro H.
  - intro I. apply mem_In in I. congruence.
  - destruct (mem p l) eqn:E; auto. apply mem_In in E. contradiction.
Qed.
Lemma del_In : forall p q l, In q (del p l) <-> In q l /\ q <> p.
Proof.
  intros. unfold del. rewrite filter_In. split; intros [H1 H2]; split; auto.
  - apply negb_true_iff in H2. apply path_eqb_neq in H2. congruence.
  - apply negb_true_iff. apply path_eqb_neq. congruence.
Qed.

(** * str_cmp is a total order compatible with equality *)
Lemma str_cmp_eq : forall a b, str_cmp a b = Eq <-> a = b.
Proof.
  induction a as [|x a IH]; destruct b as [|y b]; simpl; split; intro H; try congruence; try reflexivity.
  - destruct (x ?= y) eqn:E; try discriminate. apply N.compare_eq in E. apply IH in H. congruence.
  - inversion H; subst. rewrite N.compare_refl. apply IH. reflexivity.
Qed.
Lemma str_cmp_antisym : forall a b, str_cmp b a = CompOpp (str_cmp a b).
Proof.
  induction a as [|x a IH]; destruct b as [|y b]; simpl; auto.
  rewrite (N.compare_antisym x y). destruct (x ?= y); simpl; auto.
Qed.
Lemma str_cmp_trans_lt : forall a b c, str_cmp a b = Lt -> str_cmp b c = Lt -> str_cmp a c = Lt.
Proof.
  induction a as [|x a IH]; destruct b as [|y b]; destruct c as [|z c]; simpl; intros H1 H2; try congruence.
  destruct (x ?= y) eqn:E1; try discriminate; destruct (y ?= z) eqn:E2; try discriminate.
  - apply N.compare_eq in E1. apply N.compare_eq in E2. subst. rewrite N.compare_refl. eapply IH; eauto.
  - apply N.compare_eq in E1. subst. rewrite E2. reflexivity.
  - apply N.compare_eq in E2. subst. rewrite E1. reflexivity.
  - assert (x ?= z = Lt) as ->. { apply N.compare_lt_iff. apply N.compare_lt_iff in E1. apply N.compare_lt_iff in E2. eapply N.lt_trans; eauto. } reflexivity.
Qed.

Lemma str_leb_refl : forall a, str_leb a a = true.
Proof. intro. unfold str_leb. assert (str_cmp a a = Eq) as -> by (apply str_cmp_eq; auto). reflexivity. Qed.
Lemma str_leb_total : forall a b, str_leb a b = true \/ str_leb b a = true.
Proof.
  intros. unfold str_leb. rewrite (str_cmp_antisym a b). destruct (str_cmp a b); simpl; auto.
Qed.
Lemma str_leb_antisym : forall a b, str_leb a b = true -> str_leb b a = true -> a = b.
Proof.
  intros a b. unfold str_leb. rewrite (str_cmp_antisym a b).
  destruct (str_cmp a b) eqn:E; simpl; intros; try discriminate. apply str_cmp_eq; auto.
Qed.
Lemma str_leb_trans : forall a b c, str_leb a b = true -> str_leb b c = true -> str_leb a c = true.
Proof.
  intros a b c. unfold str_leb.
  destruct (str_cmp a b) eqn:E1; try discriminate; destruct (str_cmp b c) eqn:E2; try discriminate; intros _ _.
  - apply str_cmp_eq in E1. apply str_cmp_eq in E2. subst. rewrite (proj2 (str_cmp_eq c c) eq_refl). auto.
  - apply str_cmp_eq in E1. subst. rewrite E2. auto.
  - apply str_cmp_eq in E2. subst. rewrite E1. auto.
  - rewrite (str_cmp_trans_lt _ _ _ E1 E2). auto.
Qed.


(** * Children lists *)
Definition names (ch : list (str * node)) : list str := map fst ch.

Lemma ch_get_del : forall x y ch, ch_get y (ch_del x ch) = if str_eqb x y then None else ch_get y ch.
Proof.
  induction ch as [|[z m] r IH]; simpl.
  - destruct (str_eqb x y); auto.
  - destruct (str_eqb x z) eqn:E1.
    + apply str_eqb_eq in E1. subst z. rewrite IH. destruct (str_eqb x y) eqn:E2; auto.
      assert (str_eqb y x = false) as ->; auto. apply str_eqb_neq. apply str_eqb_neq in E2. congruence.
    + simpl. rewrite IH. destruct (str_eqb y z) eqn:E3; auto.
      apply str_eqb_eq in E3. subst z. assert (str_eqb x y = false) as -> by auto. reflexivity.
Qed.

Lemma str_cmp_Gt_neq : forall x y, str_cmp x y = Gt -> x <> y.
Proof. intros x y H E. apply str_cmp_eq in E. congruence. Qed.

Lemma str_eqb_sym : forall x y, str_eqb y x = str_eqb x y.
Proof.
  intros. destruct (str_eqb x y) eqn:E. apply str_eqb_eq in E. subst. apply str_eqb_refl.
  apply str_eqb_neq. apply str_eqb_neq in E. congruence.
Qed.

Lemma ch_get_ins : forall x m y ch, ch_get y (ch_ins x m ch) = if str_eqb x y then Some m else ch_get y ch.
Proof.
  induction ch as [|[z k] r IH]; simpl.
  - rewrite (str_eqb_sym x y). reflexivity.
  - destruct (str_cmp x z) eqn:C; simpl; try (rewrite (str_eqb_sym x y); reflexivity).
    rewrite IH. destruct (str_eqb y z) eqn:E3; auto.
    apply str_eqb_eq in E3. subst z. apply str_cmp_Gt_neq in C. apply str_eqb_neq in C. rewrite C. reflexivity.
Qed.

Lemma ch_get_set : forall x m y ch, ch_get y (ch_set x m ch) = if str_eqb x y then Some m else ch_get y ch.
Proof.
  intros. unfold ch_set. rewrite ch_get_ins. rewrite ch_get_del. destruct (str_eqb x y); auto.
Qed.

Lemma In_ch_del : forall x y k ch, In (y, k) (ch_del x ch) <-> In (y, k) ch /\ y <> x.
Proof.
  induction ch as [|[z m] r IH]; simpl.
  - tauto.
  - destruct (str_eqb x z) eqn:E.
    + apply str_eqb_eq in E. subst z. rewrite IH. split.
      * intros [H1 H2]. auto.
      * intros [[H1|H1] H2]. inversion H1; subst. congruence. auto.
    + apply str_eqb_neq in E. simpl. rewrite IH. split.
      * intros [H|[H1 H2]]. inversion H; subst. split; auto. auto.
      * intros [[H1|H1] H2]; auto.
Qed.

Lemma In_ch_ins : forall x m y k ch, In (y, k) (ch_ins x m ch) <-> (y, k) = (x, m) \/ In (y, k) ch.
Proof.
  induction ch as [|[z j] r IH]; simpl.
  - intuition.
  - destruct (str_cmp x z); simpl; try rewrite IH; intuition.
Qed.

Lemma names_ch_del : forall x y ch, In y (names (ch_del x ch)) <-> In y (names ch) /\ y <> x.
Proof.
  intros. unfold names. rewrite !in_map_iff. split.
  - intros [[z k] [H1 H2]]. simpl in H1. subst z. apply In_ch_del in H2. destruct H2. split; auto. exists (y, k). auto.
  - intros [[[z k] [H1 H2]] H3]. simpl in H1. subst z. exists (y, k). split; auto. apply In_ch_del. auto.
Qed.

Lemma names_ch_ins : forall x m y ch, In y (names (ch_ins x m ch)) <-> y = x \/ In y (names ch).
Proof.
  intros. unfold names. rewrite !in_map_iff. split.
  - intros [[z k] [H1 H2]]. simpl in H1. subst z. apply In_ch_ins in H2. destruct H2 as [H2|H2].
    inversion H2; auto. right. exists (y, k). auto.
  - intros [H|[[z k] [H1 H2]]].
    + subst. exists (x, m). split; auto. apply In_ch_ins. auto.
    + simpl in H1; subst z. exists (y, k). split; auto. apply In_ch_ins. auto.
Qed.

Lemma NoDup_ch_del : forall x ch, NoDup (names ch) -> NoDup (names (ch_del x ch)).
Proof.
  induction ch as [|[z m] r IH]; simpl; intro H; auto.
  inversion H; subst. destruct (str_eqb x z); auto. simpl. constructor; auto.
  intro I. apply names_ch_del in I. tauto.
Qed.

Lemma NoDup_ch_ins : forall x m ch, NoDup (names ch) -> ~ In x (names ch) -> NoDup (names (ch_ins x m ch)).
Proof.
  induction ch as [|[z k] r IH]; simpl; intros H NI.
  - constructor; auto.
  - inversion H; subst. destruct (str_cmp x z); simpl; try (constructor; auto; fail).
    constructor.
    + intro I. apply names_ch_ins in I. destruct I; subst; tauto.
    + apply IH; auto.
Qed.

Lemma NoDup_ch_set : forall x m ch, NoDup (names ch) -> NoDup (names (ch_set x m ch)).
Proof.
  intros. unfold ch_set. apply NoDup_ch_ins. apply NoDup_ch_del; auto.
  intro I. apply names_ch_del in I. tauto.
Qed.

Lemma ch_get_In : forall x m ch, ch_get x ch = Some m -> In (x, m) ch.
Proof.
  induction ch as [|[z k] r IH]; simpl; intro H; try discriminate.
  destruct (str_eqb x z) eqn:E.
  - apply str_eqb_eq in E. inversion H; subst. auto.
  - auto.
Qed.

Lemma In_ch_get : forall x m ch, NoDup (names ch) -> In (x, m) ch -> ch_get x ch = Some m.
Proof.
  induction ch as [|[z k] r IH]; simpl; intros ND H; try contradiction.
  inversion ND; subst. destruct H as [H|H].
  - inversion H; subst. rewrite str_eqb_refl. auto.
  - destruct (str_eqb x z) eqn:E.
    + apply str_eqb_eq in E. subst z. exfalso. apply H2. unfold names. apply in_map_iff. exists (x, m). auto.
    + auto.
Qed.

Lemma ch_get_None : forall x ch, ch_get x ch = None <-> ~ In x (names ch).
Proof.
  induction ch as [|[z k] r IH]; simpl.
  - tauto.
  - destruct (str_eqb x z) eqn:E.
    + apply str_eqb_eq in E. subst. split; intro H. discriminate. exfalso. apply H. auto.
    + apply str_eqb_neq in E. rewrite IH. split; intro H. intros [H1|H1]; auto. tauto.
Qed.

(** * Well-formed trees: names unique per directory, no entry named ".." *)
Inductive wf : node -> Prop :=
| wf_file : forall c st, wf (File c st)
| wf_dir : forall ch, NoDup (names ch) -> ~ In dotdot (names ch) ->
                      Forall (fun xm => wf (snd xm)) ch -> wf (Dir ch).

Lemma wf_child : forall ch x m, wf (Dir ch) -> ch_get x ch = Some m -> wf m.
Proof.
  intros ch x m H G. inversion H; subst. apply ch_get_In in G.
  rewrite Forall_forall in H3. apply (H3 (x, m)); auto.
Qed.

Lemma wf_ch_del : forall ch x, wf (Dir ch) -> wf (Dir (ch_del x ch)).
Proof.
  intros ch x H. inversion H; subst. constructor.
  - apply NoDup_ch_del; auto.
  - intro I. apply names_ch_del in I. tauto.
  - rewrite Forall_forall in *. intros [y k] I. apply In_ch_del in I. apply H3. tauto.
Qed.

Lemma wf_ch_set : forall ch x m, wf (Dir ch) -> wf m -> x <> dotdot -> wf (Dir (ch_set x m ch)).
Proof.
  intros ch x m H Hm Hx. inversion H; subst. constructor.
  - apply NoDup_ch_set; auto.
  - intro I. unfold ch_set in I. apply names_ch_ins in I. destruct I as [I|I]. congruence.
    apply names_ch_del in I. tauto.
  - rewrite Forall_forall in *. intros [y k] I. unfold ch_set in I. apply In_ch_ins in I. destruct I as [I|I].
    + inversion I; subst. auto.
    + apply In_ch_del in I. apply H3. tauto.
Qed.

(** * Induction principle for the nested tree *)
Fixpoint node_ind2 (P : node -> Prop)
         (HF : forall c st, P (File c st))
         (HD : forall ch, Forall (fun xm => P (snd xm)) ch -> P (Dir ch)) (n : node) : P n :=
  match n with
  | File c st => HF c st
  | Dir ch => HD ch ((fix go (l : list (str * node)) : Forall (fun xm => P (snd xm)) l :=
                        match l with
                        | [] => Forall_nil _
                        | xm :: r => Forall_cons xm (node_ind2 P HF HD (snd xm)) (go r)
                        end) ch)
  end.


Definition is_prefix (p q : path) : Prop := exists r, q = p ++ r.

Lemma is_prefix_refl : forall p, is_prefix p p.
Proof. intro. exists []. rewrite app_nil_r. auto. Qed.
Lemma is_prefix_nil : forall p, is_prefix [] p.
Proof. intro. exists p. auto. Qed.
Lemma is_prefix_cons : forall x y p q, is_prefix (x :: p) (y :: q) <-> x = y /\ is_prefix p q.
Proof.
  intros. split.
  - intros [r H]. simpl in H. inversion H; subst. split; auto. exists r; auto.
  - intros [E [r H]]. subst. exists r. auto.
Qed.
Lemma is_prefix_app : forall p r, is_prefix p (p ++ r).
Proof. intros. exists r. auto. Qed.
Lemma is_prefix_trans : forall a b c, is_prefix a b -> is_prefix b c -> is_prefix a c.
Proof. intros a b c [r1 H1] [r2 H2]. subst. exists (r1 ++ r2). rewrite app_assoc. auto. Qed.
Lemma not_prefix_cons_nil : forall x p, ~ is_prefix (x :: p) [].
Proof. intros x p [r H]. discriminate. Qed.

(** * get / look *)
Lemma get_app : forall p r n, get n (p ++ r) = match get n p with Some m => get m r | None => None end.
Proof.
  induction p as [|x p IH]; intros; simpl; auto.
  destruct n; auto. destruct (ch_get x ch); auto.
Qed.

Lemma look_nil : forall n, look n [] = Some (shallow n).
Proof. reflexivity. Qed.

Lemma get_File_cons : forall c st x r, get (File c st) (x :: r) = None.
Proof. reflexivity. Qed.

Lemma look_below_is_dir : forall n p r, look n (p ++ r) <> None -> r <> [] -> look n p = Some EDir.
Proof.
  intros n p r H R. unfold look in *. rewrite get_app in H. destruct (get n p) as [m|]; simpl in *; try congruence.
  destruct r as [|x r]; try congruence. destruct m; simpl in *; auto. congruence.
Qed.

Lemma file_no_children : forall n p c st r, look n p = Some (EFile c st) -> r <> [] -> look n (p ++ r) = None.
Proof.
  intros. destruct (look n (p ++ r)) eqn:E; auto.
  assert (look n p = Some EDir). { eapply look_below_is_dir; eauto. congruence. } congruence.
Qed.

Lemma look_File : forall n p c st, look n p = Some (EFile c st) <-> get n p = Some (File c st).
Proof.
  intros. unfold look. destruct (get n p) as [[]|]; simpl; split; intro H; inversion H; auto.
Qed.
Lemma look_Dir : forall n p, look n p = Some EDir <-> exists ch, get n p = Some (Dir ch).
Proof.
  intros. unfold look. destruct (get n p) as [[]|]; simpl; split; intro H; try discriminate; eauto.
  destruct H; discriminate. destruct H; discriminate.
Qed.
Lemma look_None : forall n p, look n p = None <-> get n p = None.
Proof. intros. unfold look. destruct (get n p); simpl; split; intro H; congruence. Qed.

Lemma wf_get : forall p n m, wf n -> get n p = Some m -> wf m.
Proof.
  induction p as [|x p IH]; simpl; intros n m W G.
  - inversion G; subst; auto.
  - destruct n; try discriminate. destruct (ch_get x ch) as [k|] eqn:E; try discriminate.
    apply (IH k m); auto. eapply wf_child; eauto.
Qed.

Lemma wf_no_dotdot : forall p n, wf n -> get n p <> None -> ~ In dotdot p.
Proof.
  induction p as [|x p IH]; simpl; intros n W G; auto.
  destruct n; try congruence. destruct (ch_get x ch) as [k|] eqn:E; try congruence.
  intros [H|H].
  - subst x. inversion W; subst. apply ch_get_In in E. apply H1. unfold names. apply in_map_iff. exists (dotdot, k). auto.
  - apply (IH k); auto. eapply wf_child; eauto.
Qed.

(** * alter *)
Lemma alter_get : forall f p n n', alter f n p = Some n' ->
  exists s, f (get n p) = Some s /\ forall r, get n' (p ++ r) = match s with Some m => get m r | None => None end.
Proof.
  induction p as [|x p IH]; intros n n' H; simpl in H; try discriminate.
  destruct n as [|ch]; try discriminate.
  destruct p as [|y p].
  - simpl. destruct (ch_get x ch) as [k|] eqn:G.
    + destruct (f (Some k)) as [[m|]|] eqn:F; inversion H; subst.
      * exists (Some m). split; auto. intro r. simpl. rewrite ch_get_set, str_eqb_refl. auto.
      * exists None. split; auto. intro r. simpl. rewrite ch_get_del, str_eqb_refl. auto.
    + destruct (f None) as [[m|]|] eqn:F; inversion H; subst.
      * exists (Some m). split; auto. intro r. simpl. rewrite ch_get_set, str_eqb_refl. auto.
      * exists None. split; auto. intro r. simpl. rewrite ch_get_del, str_eqb_refl. auto.
  - destruct (ch_get x ch) as [k|] eqn:G; try discriminate.
    destruct (alter f k (y :: p)) as [k'|] eqn:A; try discriminate. inversion H; subst.
    apply IH in A. destruct A as [s [F R]]. exists s. split.
    + simpl. rewrite G. simpl in F. auto.
    + intro r. change ((x :: y :: p) ++ r) with (x :: ((y :: p) ++ r)).
      simpl get at 1. rewrite ch_get_set, str_eqb_refl. apply R.
Qed.

Lemma alter_other : forall f p n n' q, alter f n p = Some n' -> ~ is_prefix p q -> look n' q = look n q.
Proof.
  induction p as [|x p IH]; intros n n' q H NP; simpl in H; try discriminate.
  destruct n as [|ch]; try discriminate.
  destruct q as [|z q].
  - destruct p; [destruct (f (ch_get x ch)) as [[|]|]|destruct (ch_get x ch); [destruct (alter f n (s :: p))|]];
      inversion H; subst; reflexivity.
  - destruct (str_eqb x z) eqn:E.
    + apply str_eqb_eq in E. subst z.
      assert (NP' : ~ is_prefix p q). { intro. apply NP. apply is_prefix_cons. auto. }
      destruct p as [|y p].
      * exfalso. apply NP'. apply is_prefix_nil.
      * destruct (ch_get x ch) as [k|] eqn:G; try discriminate.
        destruct (alter f k (y :: p)) as [k'|] eqn:A; try discriminate. inversion H; subst.
        unfold look. simpl. rewrite ch_get_set, str_eqb_refl, G. apply (IH _ _ _ A NP').
    + assert (G : forall m, ch_get z (ch_set x m ch) = ch_get z ch).
      { intro. rewrite ch_get_set, E. auto. }
      assert (G2 : ch_get z (ch_del x ch) = ch_get z ch).
      { rewrite ch_get_del, E. auto. }
      destruct p; [destruct (f (ch_get x ch)) as [[|]|]|destruct (ch_get x ch); [destruct (alter f n (s :: p))|]];
        inversion H; subst; unfold look; simpl; rewrite ?G, ?G2; reflexivity.
Qed.

Lemma alter_wf : forall f p n n', wf n -> ~ In dotdot p -> (forall o m, f o = Some (Some m) -> wf m) ->
  alter f n p = Some n' -> wf n'.
Proof.
  induction p as [|x p IH]; intros n n' W ND F H; simpl in H; try discriminate.
  destruct n as [|ch]; try discriminate.
  assert (x <> dotdot) by (intro; subst; apply ND; left; auto).
  destruct p as [|y p].
  - destruct (f (ch_get x ch)) as [[m|]|] eqn:E; inversion H; subst.
    + apply wf_ch_set; auto. eapply F; eauto.
    + apply wf_ch_del; auto.
  - destruct (ch_get x ch) as [k|] eqn:G; try discriminate.
    destruct (alter f k (y :: p)) as [k'|] eqn:A; try discriminate. inversion H; subst.
    apply wf_ch_set; auto. apply (IH k k'); auto. eapply wf_child; eauto.
    intro. apply ND. right. auto.
Qed.

(** * the primitives *)
Lemma mkdir_all_prefix : forall p n n' q, os_mkdir_all n p = Some n' -> is_prefix q p -> look n' q = Some EDir.
Proof.
  induction p as [|x p IH]; intros n n' q H P; destruct n as [|ch]; simpl in H; try discriminate.
  - inversion H; subst. destruct P as [r P]. destruct q; try discriminate. reflexivity.
  - destruct (os_mkdir_all (match ch_get x ch with Some k => k | None => Dir [] end) p) as [k'|] eqn:M; try discriminate.
    inversion H; subst. destruct q as [|z q]; try reflexivity.
    apply is_prefix_cons in P. destruct P as [E P]. subst z.
    unfold look. simpl. rewrite ch_get_set, str_eqb_refl. eapply IH; eauto.
Qed.

Lemma mkdir_all_other : forall p n n' q, os_mkdir_all n p = Some n' -> ~ is_prefix q p -> look n' q = look n q.
Proof.
  induction p as [|x p IH]; intros n n' q H P; destruct n as [|ch]; simpl in H; try discriminate.
  - inversion H; subst. auto.
  - destruct (os_mkdir_all (match ch_get x ch with Some k => k | None => Dir [] end) p) as [k'|] eqn:M; try discriminate.
    inversion H; subst. destruct q as [|z q].
    + exfalso. apply P. apply is_prefix_nil.
    + unfold look. simpl. rewrite ch_get_set. destruct (str_eqb x z) eqn:E.
      * apply str_eqb_eq in E. subst z.
        assert (P' : ~ is_prefix q p). { intro. apply P. apply is_prefix_cons. auto. }
        fold (look k' q). rewrite (IH _ _ _ M P'). destruct (ch_get x ch); auto.
        destruct q. exfalso. apply P'. apply is_prefix_nil. reflexivity.
      * reflexivity.
Qed.

Lemma mkdir_all_no_file : forall p n n' q c st, os_mkdir_all n p = Some n' -> is_prefix q p -> look n q <> Some (EFile c st).
Proof.
  induction p as [|x p IH]; intros n n' q c st H P; destruct n as [|ch]; simpl in H; try discriminate.
  - destruct P as [r P]. destruct q; [|discriminate P]. unfold look; simpl; discriminate.
  - destruct (os_mkdir_all (match ch_get x ch with Some k => k | None => Dir [] end) p) as [k'|] eqn:M; try discriminate.
    destruct q as [|z q]. unfold look; simpl; discriminate.
    apply is_prefix_cons in P. destruct P as [E P]. subst z.
    unfold look. simpl. destruct (ch_get x ch) as [k|] eqn:G.
    + apply (IH _ _ _ c st M P).
    + simpl. discriminate.
Qed.

Lemma mkdir_all_wf : forall p n n', wf n -> ~ In dotdot p -> os_mkdir_all n p = Some n' -> wf n'.
Proof.
  induction p as [|x p IH]; intros n n' W ND H; destruct n as [|ch]; simpl in H; try discriminate.
  - inversion H; subst; auto.
  - destruct (os_mkdir_all (match ch_get x ch with Some k => k | None => Dir [] end) p) as [k'|] eqn:M; try discriminate.
    inversion H; subst. apply wf_ch_set; auto.
    + apply (IH _ _) in M; auto.
      * destruct (ch_get x ch) eqn:G. eapply wf_child; eauto. constructor; simpl; auto. constructor.
      * intro. apply ND. right; auto.
    + intro. subst. apply ND. left; auto.
Qed.

Lemma classic_prefix : forall p q, is_prefix p q \/ ~ is_prefix p q.
Proof.
  induction p as [|x p IH]; intro q.
  - left. apply is_prefix_nil.
  - destruct q as [|y q].
    + right. apply not_prefix_cons_nil.
    + destruct (str_eq_dec x y) as [E|E].
      * subst. destruct (IH q) as [H|H]. left. apply is_prefix_cons; auto.
        right. intro P. apply is_prefix_cons in P. tauto.
      * right. intro P. apply is_prefix_cons in P. tauto.
Qed.


Lemma app_inv_neq : forall (p q : path), q <> p -> is_prefix p q -> exists r, r <> [] /\ q = p ++ r.
Proof.
  intros p q N [r H]. exists r. split; auto. intro. subst. rewrite app_nil_r in N. congruence.
Qed.

(** * os.Mkdir *)
Lemma os_mkdir_ok : forall root p n', os_mkdir root p = MkOk n' ->
  get root p = None /\ look n' p = Some EDir /\ (forall q, q <> p -> look n' q = look root q).
Proof.
  unfold os_mkdir. intros root p n' H. destruct (get root p) eqn:G; try discriminate.
  destruct (alter f_mkdir root p) as [n|] eqn:A; inversion H; subst.
  destruct (alter_get _ _ _ _ A) as [s [F R]]. rewrite G in F. simpl in F. inversion F; subst.
  split; auto. split.
  - specialize (R []). rewrite app_nil_r in R. unfold look. rewrite R. reflexivity.
  - intros q NE. destruct (classic_prefix p q) as [P|P].
    + destruct (app_inv_neq _ _ NE P) as [r [R1 R2]]. subst q. unfold look. rewrite R.
      rewrite get_app, G. destruct r; try congruence. reflexivity.
    + eapply alter_other; eauto.
Qed.

Lemma os_mkdir_wf : forall root p n', wf root -> ~ In dotdot p -> os_mkdir root p = MkOk n' -> wf n'.
Proof.
  unfold os_mkdir. intros root p n' W ND H. destruct (get root p); try discriminate.
  destruct (alter f_mkdir root p) as [n|] eqn:A; inversion H; subst.
  eapply alter_wf; eauto. intros o m F. destruct o; simpl in F; inversion F. constructor; simpl; auto. constructor.
Qed.

(** * os.WriteFile *)
Lemma os_write_file_ok : forall root p c now n', os_write_file root p c now = Some n' ->
  look n' p = Some (EFile c now) /\ look root p <> Some EDir /\ (forall q, q <> p -> look n' q = look root q).
Proof.
  unfold os_write_file. intros root p c now n' A.
  destruct (alter_get _ _ _ _ A) as [s [F R]].
  assert (S : s = Some (File c now) /\ look root p <> Some EDir).
  { unfold look. destruct (get root p) as [[]|]; simpl in *; inversion F; split; auto; discriminate. }
  destruct S as [S ND]. subst s. split; [|split]; auto.
  - specialize (R []). rewrite app_nil_r in R. unfold look. rewrite R. reflexivity.
  - intros q NE. destruct (classic_prefix p q) as [P|P].
    + destruct (app_inv_neq _ _ NE P) as [r [R1 R2]]. subst q. unfold look. rewrite R.
      rewrite get_app. destruct r as [|x r]; try congruence. simpl.
      unfold look in ND. destruct (get root p) as [[]|]; simpl in *; auto. congruence.
    + eapply alter_other; eauto.
Qed.

Lemma os_write_file_wf : forall root p c now n', wf root -> ~ In dotdot p -> os_write_file root p c now = Some n' -> wf n'.
Proof.
  unfold os_write_file. intros. eapply alter_wf; eauto.
  intros o m F. destruct o as [[]|]; simpl in F; inversion F; constructor.
Qed.

(** * os.Remove *)
Lemma os_remove_ok : forall root p n', os_remove root p = Some n' ->
  look n' p = None /\ (forall q, q <> p -> look n' q = look root q) /\
  ((exists c st, get root p = Some (File c st)) \/ get root p = Some (Dir [])).
Proof.
  unfold os_remove. intros root p n' A.
  destruct (alter_get _ _ _ _ A) as [s [F R]].
  assert (S : s = None /\ ((exists c st, get root p = Some (File c st)) \/ get root p = Some (Dir []))).
  { destruct (get root p) as [[|[|]]|]; simpl in *; inversion F; split; eauto. }
  destruct S as [S K]. subst s. split; [|split]; auto.
  - specialize (R []). rewrite app_nil_r in R. unfold look. rewrite R. reflexivity.
  - intros q NE. destruct (classic_prefix p q) as [P|P].
    + destruct (app_inv_neq _ _ NE P) as [r [R1 R2]]. subst q. unfold look. rewrite R.
      rewrite get_app. destruct r as [|x r]; try congruence.
      destruct K as [[c [st K]]|K]; rewrite K; reflexivity.
    + eapply alter_other; eauto.
Qed.

Lemma os_remove_wf : forall root p n', wf root -> ~ In dotdot p -> os_remove root p = Some n' -> wf n'.
Proof.
  unfold os_remove. intros. eapply alter_wf; eauto.
  intros o m F. destruct o as [[|[|]]|]; simpl in F; inversion F.
Qed.

Lemma alter_fails : forall f p n m, p <> [] -> get n p = Some m -> alter f n p = None -> f (Some m) = None.
Proof.
  induction p as [|x p IH]; intros n m NE G A; try congruence.
  simpl in G. destruct n as [|ch]; try discriminate. simpl in A.
  destruct (ch_get x ch) as [k|] eqn:C; try discriminate.
  destruct p as [|y p].
  - simpl in G. inversion G; subst. destruct (f (Some m)) as [[|]|]; auto; discriminate.
  - destruct (alter f k (y :: p)) eqn:A2; try discriminate. eapply IH; eauto. discriminate.
Qed.

(** a directory that os.Remove refuses has an entry *)
Lemma os_remove_fails_nonempty : forall root p, p <> [] -> look root p = Some EDir -> os_remove root p = None ->
  exists x e, look root (p ++ [x]) = Some e.
Proof.
  intros root p NE L A. apply look_Dir in L. destruct L as [ch G].
  pose proof (alter_fails _ _ _ _ NE G A) as F. simpl in F.
  destruct ch as [|[x m] ch]; try discriminate.
  exists x, (shallow m). unfold look. rewrite get_app, G. simpl. rewrite str_eqb_refl. reflexivity.
Qed.

(** * collectRelativePaths *)
Lemma files_under_spec : forall n rel f, wf n ->
  (In f (files_under rel n) <-> exists r c st, f = rel ++ r /\ get n r = Some (File c st)).
Proof.
  induction n as [c st|ch IH] using node_ind2; intros rel f W.
  - simpl. split.
    + intros [H|[]]. subst. exists [], c, st. rewrite app_nil_r. auto.
    + intros [r [c' [st' [H G]]]]. destruct r; simpl in G; try discriminate. rewrite app_nil_r in H. auto.
  - simpl. rewrite in_flat_map. inversion W as [|ch0 H1 H2 H3]; subst. split.
    + intros [[x m] [I H]]. simpl in H. rewrite Forall_forall in IH, H3.
      apply (IH (x, m) I) in H; [|apply (H3 (x, m) I)].
      destruct H as [r [c [st [E G]]]]. exists (x :: r), c, st. split.
      * rewrite E. rewrite <- app_assoc. reflexivity.
      * simpl. rewrite (In_ch_get _ _ _ H1 I). auto.
    + intros [r [c [st [E G]]]]. destruct r as [|x r]; simpl in G; try discriminate.
      destruct (ch_get x ch) as [m|] eqn:C; try discriminate.
      apply ch_get_In in C. exists (x, m). split; auto. simpl.
      rewrite Forall_forall in IH, H3. apply (IH (x, m) C); [apply (H3 (x, m) C)|].
      exists r, c, st. split; auto. rewrite E, <- app_assoc. reflexivity.
Qed.

Lemma dirs_under_spec : forall n rel d, wf n ->
  (In d (dirs_under rel n) <-> exists r ch', r <> [] /\ d = rel ++ r /\ get n r = Some (Dir ch')).
Proof.
  induction n as [c st|ch IH] using node_ind2; intros rel d W.
  - simpl. split. tauto. intros [r [ch' [NE [H G]]]]. destruct r; simpl in G; congruence.
  - simpl. rewrite in_flat_map. inversion W as [|ch0 H1 H2 H3]; subst. rewrite Forall_forall in IH, H3. split.
    + intros [[x m] [I H]]. simpl in H. destruct m as [|chm]; try contradiction.
      destruct H as [H|H].
      * exists [x], chm. split. discriminate. split; auto. simpl. rewrite (In_ch_get _ _ _ H1 I). auto.
      * apply (IH (x, Dir chm) I) in H; [|apply (H3 (x, Dir chm) I)].
        destruct H as [r [ch' [NE [E G]]]]. exists (x :: r), ch'. split. discriminate. split.
        rewrite E, <- app_assoc. reflexivity. simpl. rewrite (In_ch_get _ _ _ H1 I). auto.
    + intros [r [ch' [NE [E G]]]]. destruct r as [|x r]; try congruence. simpl in G.
      destruct (ch_get x ch) as [m|] eqn:C; try discriminate.
      apply ch_get_In in C. exists (x, m). split; auto. simpl.
      destruct r as [|y r].
      * simpl in G. inversion G; subst. left. auto.
      * destruct m as [|chm]; try discriminate. right.
        apply (IH (x, Dir chm) C); [apply (H3 (x, Dir chm) C)|].
        exists (y :: r), ch'. split. discriminate. split; auto. rewrite E, <- app_assoc. reflexivity.
Qed.

(** pre-order: a directory is listed before the directories below it *)
Definition not_above (a b : path) : Prop := ~ is_prefix b a.   (* the later [b] is not a prefix of the earlier [a] *)

Lemma SS_app : forall (R : path -> path -> Prop) l1 l2, StronglySorted R l1 -> StronglySorted R l2 ->
  (forall a b, In a l1 -> In b l2 -> R a b) -> StronglySorted R (l1 ++ l2).
Proof.
  induction l1 as [|a l1 IH]; simpl; intros l2 S1 S2 H; auto.
  inversion S1; subst. constructor.
  - apply IH; auto.
  - apply Forall_app. split; auto. apply Forall_forall. intros b I. apply H; auto.
Qed.

Lemma dirs_under_prefix : forall n rel d, In d (dirs_under rel n) -> exists r, r <> [] /\ d = rel ++ r.
Proof.
  induction n as [c st|ch IH] using node_ind2; intros rel d I; simpl in I; try contradiction.
  apply in_flat_map in I. destruct I as [[x m] [I H]]. simpl in H. destruct m as [|chm]; try contradiction.
  destruct H as [H|H].
  - exists [x]. split; auto. discriminate.
  - rewrite Forall_forall in IH. apply (IH (x, Dir chm) I) in H. destruct H as [r [NE E]].
    exists (x :: r). split. discriminate. rewrite E, <- app_assoc. reflexivity.
Qed.

Lemma app_prefix_inv : forall (rel : path) x y r1 r2, is_prefix (rel ++ x :: r1) (rel ++ y :: r2) -> x = y.
Proof.
  induction rel as [|z rel IH]; simpl; intros x y r1 r2 P.
  - apply is_prefix_cons in P. tauto.
  - apply is_prefix_cons in P. destruct P. eapply IH; eauto.
Qed.

Lemma dirs_under_sorted : forall n rel, wf n -> StronglySorted not_above (dirs_under rel n).
Proof.
  induction n as [c st|ch IH] using node_ind2; intros rel W; simpl.
  - constructor.
  - inversion W as [|ch0 H1 H2 H3]; subst. clear W H2. rewrite Forall_forall in IH, H3.
    induction ch as [|[x m] ch IHch]; simpl.
    + constructor.
    + inversion H1 as [|x0 l0 H2 H4]; subst.
      apply SS_app.
      * destruct m as [|chm]; [constructor|]. constructor.
        -- apply (IH (x, Dir chm)); [left; auto|]. apply (H3 (x, Dir chm)). left; auto.
        -- apply Forall_forall. intros b I. apply dirs_under_prefix in I. destruct I as [r [NE E]]. subst b.
           intros [r2 P]. apply (f_equal (@length _)) in P. rewrite !app_length in P. simpl in P.
           destruct r; [congruence|]. simpl in P. lia.
      * apply IHch; auto.
        -- intros xm I. apply IH. right; auto.
        -- intros xm I. apply H3. right; auto.
      * intros a b Ia Ib. apply in_flat_map in Ib. destruct Ib as [[y k] [Iy Hb]]. simpl in Hb.
        assert (XY : x <> y). { intro. subst. apply H2. unfold names. apply in_map_iff. exists (y, k). auto. }
        assert (PA : exists ra, a = rel ++ x :: ra).
        { destruct m as [|chm]; [contradiction|]. destruct Ia as [Ia|Ia].
          - exists []. auto.
          - apply dirs_under_prefix in Ia. destruct Ia as [r [_ E]]. exists r. rewrite E, <- app_assoc. auto. }
        assert (PB : exists rb, b = rel ++ y :: rb).
        { destruct k as [|chk]; [contradiction|]. destruct Hb as [Hb|Hb].
          - exists []. auto.
          - apply dirs_under_prefix in Hb. destruct Hb as [r [_ E]]. exists r. rewrite E, <- app_assoc. auto. }
        destruct PA as [ra PA]. destruct PB as [rb PB]. subst a b.
        intro P. apply app_prefix_inv in P. congruence.
Qed.
