(** M-Build [Build] -- Go identifiers and file names derived by the Go generator (C14).

    Executable definitions only; proofs live in BuildProofs.v.

    Transcribed from
      /repo/internal/puregen/deconflicter.go      (Deconflicter.DeconflictName, FillGolangIdentifies)
      /repo/internal/utils/strings.go             (CNameToCamelName, ToUpperFirst, ToLowerFirst)
      /repo/internal/puregen/gengo/naming.go      (canonicalGoName)
      /repo/internal/puregen/gengo/gengo_compile.go   (addTypeWrappers: file name of a type)
      /repo/internal/puregen/gengo/gengo_generate.go  (generateTypeStruct: field names, the seeds)
      /repo/internal/puregen/gengo/qt_struct.qtpl     (Set/Clear/IsSet accessor names)
      /repo/internal/puregen/gengo/qt_constants.qtpl  (constants.go: one constant per combinator)
      /repo/internal/puregen/gengo/qt_helpers.qtpl    (fixed identifiers of package internal)

    A Go string is a list of bytes ([N]).  TL identifiers are ASCII (lexer alphabet), so
    strings.ToUpper / ToLower / "first rune" act bytewise on 'a'..'z' / 'A'..'Z'.

    What is NOT modelled: Go type checking of the emitted code (the end-to-end
    `go build` of lib/checks/C14.py observes it); resolvedT2GoName for template
    instances (only the head canonicalGoName); the union / Maybe scopes. *)
From Coq Require Export List NArith Bool.
From Coq Require Import Decimal.
From Coq Require Import Ascii String.
Export ListNotations.
Open Scope N_scope.

Definition str := list N.

Fixpoint str_eqb (a b : str) : bool :=
  match a, b with
  | [], [] => true
  | x :: a', y :: b' => (x =? y) && str_eqb a' b'
  | _, _ => false
  end.

Fixpoint mem (x : str) (l : list str) : bool :=
  match l with
  | [] => false
  | y :: r => str_eqb x y || mem x r
  end.

(** string literals for the model's constants *)
Definition lit (s : string) : str := List.map N_of_ascii (list_ascii_of_string s).

(** * strconv.Itoa on non-negative numbers: decimal digits, most significant first *)
Fixpoint digits (u : Decimal.uint) : str :=
  match u with
  | Nil => []
  | D0 u => 48 :: digits u | D1 u => 49 :: digits u | D2 u => 50 :: digits u
  | D3 u => 51 :: digits u | D4 u => 52 :: digits u | D5 u => 53 :: digits u
  | D6 u => 54 :: digits u | D7 u => 55 :: digits u | D8 u => 56 :: digits u
  | D9 u => 57 :: digits u
  end.
Definition itoa (n : N) : str := digits (N.to_uint n).

(** * Deconflicter (deconflicter.go)

    [usedNames map[string]bool] is a finite set: the list of names marked used.
      var suffix string
      for i := 0; d.usedNames[s+suffix]; i++ { suffix = strconv.Itoa(i) }
      s += suffix; d.usedNames[s] = true; return s
    The candidates are s, s0, s1, s2, ...  The loop is unbounded in Go; the model
    searches with fuel |used|+1, which BuildProofs.search_total shows is always enough. *)
Definition dec_state := list str.

Fixpoint search (used : dec_state) (s : str) (fuel : nat) (i : N) : option str :=
  match fuel with
  | O => None
  | S f => let c := s ++ itoa i in
           if mem c used then search used s f (i + 1) else Some c
  end.

Definition deconflict (used : dec_state) (s : str) : str :=
  if mem s used then
    match search used s (S (List.length used)) 0 with Some r => r | None => s end
  else s.

Definition dec_name (st : dec_state) (s : str) : dec_state * str :=
  let r := deconflict st s in (r :: st, r).

(** a sequence of requests on one Deconflicter: final state and the returned names *)
Fixpoint dec_run (st : dec_state) (reqs : list str) : dec_state * list str :=
  match reqs with
  | [] => (st, [])
  | s :: rest => let '(st1, r) := dec_name st s in
                 let '(st2, rs) := dec_run st1 rest in (st2, r :: rs)
  end.

(** FillGolangIdentifies *)
Definition golang_seeds : list str := [lit "Write"%string; lit "Read"%string; lit "WriteTL2"%string; lit "ReadTL2"%string].
Definition fill_golang (st : dec_state) : dec_state := fst (dec_run st golang_seeds).

(** Go identifier: letter or '_' first, then letters / digits / '_' (ASCII) *)
Definition is_upper (c : N) : bool := (65 <=? c) && (c <=? 90).
Definition is_lower (c : N) : bool := (97 <=? c) && (c <=? 122).
Definition is_digit (c : N) : bool := (48 <=? c) && (c <=? 57).
Definition is_alnum (c : N) : bool := is_upper c || is_lower c || is_digit c.
Definition ident_char (c : N) : bool := is_alnum c || (c =? 95).
Definition go_ident (s : str) : bool :=
  match s with
  | [] => false
  | a :: r => (is_upper a || is_lower a || (a =? 95)) && forallb ident_char r
  end.

(** * utils/strings.go *)
Definition up (c : N) : N := if is_lower c then c - 32 else c.
Definition low (c : N) : N := if is_upper c then c + 32 else c.
Definition to_upper (s : str) : str := List.map up s.
Definition to_lower (s : str) : str := List.map low s.

(** ToUpperFirst / ToLowerFirst: the first rune (= byte, ASCII) changes case *)
Definition to_upper_first (s : str) : str := match s with [] => [] | a :: r => up a :: r end.
Definition to_lower_first (s : str) : str := match s with [] => [] | a :: r => low a :: r end.

(** camelingRegex.FindAllString(s, -1) with [0-9A-Za-z]+ : the maximal alphanumeric runs *)
Fixpoint chunks_aux (s : str) (cur : str) : list str :=
  match s with
  | [] => match cur with [] => [] | _ => [cur] end
  | c :: r => if is_alnum c then chunks_aux r (cur ++ [c])
              else match cur with [] => chunks_aux r [] | _ => cur :: chunks_aux r [] end
  end.
Definition chunks (s : str) : list str := chunks_aux s [].

(** allUpperRegex ^[A-Z][A-Z0-9]+$ *)
Definition all_upper_chunk (c : str) : bool :=
  match c with
  | a :: ((_ :: _) as r) => is_upper a && forallb (fun x => is_upper x || is_digit x) r
  | _ => false
  end.

Definition fix_chunk (c : str) : str :=
  if all_upper_chunk c then
    match c with a :: r => up a :: to_lower r | [] => [] end
  else to_upper_first c.

(** CNameToCamelName *)
Definition camel (s : str) : str := List.concat (List.map fix_chunk (chunks s)).

(** * TL names *)
Record tlname := TLName { ns : str; nm : str }.

(** tlast.Name.String *)
Definition name_string (n : tlname) : str :=
  match ns n with [] => nm n | _ => ns n ++ [46] ++ nm n end.

(** canonicalGoName(name, insideNamespace) *)
Definition canonical_go_name (n : tlname) (inside : str) : str :=
  if str_eqb (ns n) inside then camel (nm n) else camel (ns n) ++ camel (nm n).

(** constants.go: canonicalGoName2(c.conName, "") -- NOT passed through any Deconflicter *)
Definition const_name (n : tlname) : str := canonical_go_name n [].

(** head of the global Go type name requested from gen.globalDec (no template arguments) *)
Definition global_head (n : tlname) : str := canonical_go_name n [].

(** addTypeWrappers: leading '_' stripped from the name, first letter lowered, then
    Name.String(); generateCode appends ".go" *)
Fixpoint strip_underscores (s : str) : str :=
  match s with
  | c :: r => if c =? 95 then strip_underscores r else s
  | [] => []
  end.
Definition file_name (n : tlname) : str :=
  name_string (TLName (ns n) (to_lower_first (strip_underscores (nm n)))) ++ lit ".go"%string.

(** the go tool compares file names of one package case-insensitively *)
Definition file_key (f : str) : str := to_lower f.

(** * Struct scope (generateTypeStruct + generateFieldMaskCode of qt_struct.qtpl)

    fieldsDec is seeded by FillGolangIdentifies, then receives CNameToCamelName(field name)
    of every named field in order; afterwards, in field order, the accessor names
    Set<X> [, Clear<X>], IsSet<X> of every field with a (non-constant) field mask or a TL2
    presence bit -- through the same Deconflicter. *)
Inductive acc_kind := AccNone | AccBit | AccFull.
(** [fbit]: the field is a bit (type `true` under a field mask, or TL2 `bit`): its Go name is
    reserved in the scope but no Go struct field is emitted (the template comments it out) *)
Record field_spec := Field { fname : str; facc : acc_kind; fbit : bool }.

Definition named (fs : list field_spec) : list field_spec :=
  filter (fun f => match fname f with [] => false | _ => true end) fs.

(** TL2 omitted fields (`_`-prefixed names) get no accessors *)
Definition omitted (f : field_spec) : bool := match fname f with 95 :: _ => true | _ => false end.

Definition acc_requests (f : field_spec) (go : str) : list str :=
  if omitted f then [] else
  match facc f with
  | AccNone => []
  | AccBit => [lit "Set"%string ++ to_upper_first go; lit "IsSet"%string ++ to_upper_first go]
  | AccFull => [lit "Set"%string ++ to_upper_first go; lit "Clear"%string ++ to_upper_first go; lit "IsSet"%string ++ to_upper_first go]
  end.

(** accessor requests are issued one field at a time (each sees the names taken before) *)
Fixpoint acc_run (st : dec_state) (fs : list (field_spec * str)) : dec_state * list str :=
  match fs with
  | [] => (st, [])
  | (f, go) :: rest => let '(st1, rs) := dec_run st (acc_requests f go) in
                       let '(st2, rs2) := acc_run st1 rest in (st2, rs ++ rs2)
  end.

Definition struct_scope (fs : list field_spec) : list str * list str :=
  let nf := named fs in
  let '(st1, gos) := dec_run (fill_golang []) (List.map (fun f => camel (fname f)) nf) in
  let '(_, accs) := acc_run st1 (combine nf gos) in
  (gos, accs).

Definition struct_field_names (fs : list field_spec) : list str := fst (struct_scope fs).

(** the Go struct fields actually emitted: named, not TL2-omitted, not a bit *)
Definition emitted (f : field_spec) : bool := negb (omitted f) && negb (fbit f).
Definition struct_emitted_fields (fs : list field_spec) : list str :=
  List.map snd (filter (fun p => emitted (fst p)) (combine (named fs) (struct_field_names fs))).
Definition struct_accessor_names (fs : list field_spec) : list str := snd (struct_scope fs).

(** A function gets one more accessor family (end of qt_struct.qtpl's function section): for every
    bit of a request field that masks fields of the RESULT type,
      Set<Go name of the affected type><field1>And<field2>...(value bool)
    These names are NOT passed through fieldsDec. *)
Fixpoint join_and (l : list str) : str :=
  match l with
  | [] => []
  | [x] => x
  | x :: r => x ++ lit "And"%string ++ join_and r
  end.
Definition result_accessor (affected_go : str) (field_gos : list str) : str :=
  lit "Set"%string ++ affected_go ++ join_and field_gos.

(** methods of a generated struct type (qt_struct.qtpl).  [struct_methods_always]: emitted for
    every struct; [struct_methods_closed]: every struct without nat parameters has them as
    well; [struct_methods]: everything a struct may get (TL2 / random / union element /
    typedef variants included) *)
Definition struct_methods_always : list str := List.map lit
  ["Reset"; "ReadTL1"; "WriteTL1"; "ReadTL1Boxed"; "WriteTL1Boxed"; "ReadJSONGeneral";
   "WriteJSONGeneral"; "WriteJSON"; "WriteJSONOpt"; "TLName"; "TLTag"]%string.
Definition struct_methods_closed : list str := struct_methods_always ++ List.map lit
  ["String"; "ReadJSON"; "MarshalJSON"; "UnmarshalJSON"; "WriteTL1General"; "WriteTL1BoxedGeneral"]%string.
Definition struct_methods : list str := struct_methods_closed ++ List.map lit
  ["FillRandom"; "CalculateLayout"; "InternalWriteTL2"; "WriteTL2"; "InternalReadTL2"; "ReadTL2";
   "RepairMasks"; "RepairMasksValue"; "AsUnion"; "ptr"]%string.

(** additional methods of a function (a struct with a result type) *)
Definition function_methods : list str := List.map lit
  ["ReadResultTL1"; "WriteResultTL1"; "ReadResultTL2"; "WriteResultTL2"; "ReadResultJSON";
   "WriteResultJSON"; "writeResultJSON"; "writeResultTL2"; "calculateLayoutResult";
   "ReadResultTL1WriteResultTL2"; "ReadResultTL1WriteResultJSON";
   "ReadResultTL2WriteResultTL1"; "ReadResultTL2WriteResultJSON";
   "ReadResultJSONWriteResultTL1"; "ReadResultJSONWriteResultTL2"; "FillRandomResultTL1"]%string.

(** exported identifiers of internal/a_tlgen_helpers_code.go (qt_helpers.qtpl) *)
Definition helper_idents : list str := List.map lit
  ["UnionElement"; "Unused"; "ErrorClientWrite"; "ErrorClientDo"; "ErrorClientReadResult";
   "ErrorServerHandle"; "ErrorServerRead"; "ErrorServerWriteResult"; "ErrorInvalidEnumTag";
   "ErrorInvalidUnionTag"; "ErrorInvalidUnionIndex"; "ErrorWrongSequenceLength";
   "ErrorInvalidUnionTagJSON"; "ErrorInvalidUnionLegacyTagJSON"; "ErrorInvalidJSON";
   "ErrorInvalidJSONWithDuplicatingKeys"; "ErrorTL2SerializersNotGenerated";
   "ErrorInvalidJSONExcessElement"; "Json2ReadUnion"; "Json2ReadMaybe"; "Json2ReadBool";
   "Json2ReadString"; "Json2ReadStringBytes"; "Json2ReadByte"; "Json2ReadUint32";
   "Json2ReadInt32"; "Json2ReadInt64"; "Json2ReadUint64"; "Json2ReadFloat32";
   "Json2ReadFloat64"]%string.

(** * The obligations that make the emitted names compile (decidable forms) *)
Fixpoint nodupb (l : list str) : bool :=
  match l with
  | [] => true
  | x :: r => negb (mem x r) && nodupb r
  end.

Fixpoint dedup (l : list str) : list str :=
  match l with
  | [] => []
  | x :: r => if mem x r then dedup r else x :: dedup r
  end.

(** (b) package constants: one const block, every name declared once *)
Definition consts_ok (names : list tlname) : bool := nodupb (List.map const_name names).

(** (a) files of one directory: different file names stay different when case is ignored *)
Definition files_ok (names : list tlname) : bool :=
  nodupb (List.map file_key (dedup (List.map file_name names))).

(** (a') with --split-internal every type lives in its own package internal/tl<ns>/tl<GoName>:
    the import paths must stay different when case is ignored *)
Definition dirs_ok (names : list tlname) : bool :=
  let gs := snd (dec_run [] (List.map global_head names)) in
  nodupb (List.map (fun p => to_lower (ns (fst p) ++ [47] ++ snd p)) (combine names gs)).

(** (c) struct scope: no emitted field or accessor carries the name of one of the methods
    [ms] generated for the struct *)
Definition fields_ok (ms : list str) (fs : list field_spec) : bool :=
  forallb (fun n => negb (mem n ms)) (struct_emitted_fields fs ++ struct_accessor_names fs).

(** (e) the methods of one struct are declared once: deconflicted accessors and the result-mask
    accessors of a function do not clash *)
Definition methods_ok (fs : list field_spec) (raccs : list str) : bool :=
  nodupb (struct_accessor_names fs ++ raccs).

(** (d) package internal (no --split-internal): the global type names, unique among
    themselves thanks to gen.globalDec, also avoid the helper identifiers *)
Definition globals_ok (names : list tlname) : bool :=
  let gs := snd (dec_run [] (List.map global_head names)) in
  forallb (fun n => negb (mem n helper_idents)) gs.
