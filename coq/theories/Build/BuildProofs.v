(** Proofs about the Build model (C14): the Deconflicter returns pairwise distinct names for
    every request sequence, each derived from the request by a decimal suffix; the struct
    scope built on it is collision free among fields, accessors and the four seeded names;
    the three (four) naming obligations that are NOT protected by a Deconflicter are refuted. *)
From Coq Require Import List NArith Bool Lia Arith FinFun.
From Coq Require Import Decimal DecimalN.
From TLV Require Import Build.BuildModel.
Import ListNotations.
Open Scope N_scope.

(** * strings *)
Lemma str_eqb_eq : forall a b, str_eqb a b = true <-> a = b.
Proof.
  induction a as [|x a IH]; destruct b as [|y b]; simpl; split; intro H; try discriminate; auto.
  - apply andb_true_iff in H. destruct H as [H1 H2]. apply N.eqb_eq in H1. apply IH in H2. congruence.
  - inversion H; subst. rewrite N.eqb_refl. simpl. apply IH. reflexivity.
Qed.

Lemma str_eqb_refl : forall a, str_eqb a a = true.
Proof. intro a. apply str_eqb_eq. reflexivity. Qed.

Lemma mem_In : forall x l, mem x l = true <-> In x l.
Proof.
  induction l as [|y l IH]; simpl.
  - split; [discriminate | tauto].
  - rewrite orb_true_iff, IH, str_eqb_eq. split; intros [H|H]; auto.
Qed.

Lemma mem_false : forall x l, mem x l = false <-> ~ In x l.
Proof.
  intros x l. rewrite <- mem_In. destruct (mem x l); split; intro H; try discriminate; auto.
  exfalso. apply H. reflexivity.
Qed.

(** * decimal suffixes *)
Lemma digits_inj : forall u v, digits u = digits v -> u = v.
Proof.
  induction u; destruct v; simpl; intro H; try discriminate; try reflexivity;
    inversion H; f_equal; auto.
Qed.

Lemma itoa_inj : forall a b, itoa a = itoa b -> a = b.
Proof.
  unfold itoa. intros a b H. apply digits_inj in H.
  rewrite <- (DecimalN.Unsigned.of_to a), <- (DecimalN.Unsigned.of_to b). rewrite H. reflexivity.
Qed.

Lemma to_uint_not_nil : forall n, N.to_uint n <> Nil.
Proof.
  intros n H. destruct n as [|p]; simpl in H; [discriminate|].
  apply (f_equal Pos.of_uint) in H. rewrite DecimalPos.Unsigned.of_to in H. simpl in H. discriminate.
Qed.

Lemma itoa_nonempty : forall n, itoa n <> [].
Proof.
  unfold itoa. intros n H. pose proof (to_uint_not_nil n) as Hn.
  destruct (N.to_uint n); simpl in H; try discriminate. apply Hn. reflexivity.
Qed.

Lemma digit_chars : forall u, Forall (fun c => is_digit c = true) (digits u).
Proof. induction u; simpl; constructor; auto. Qed.

Lemma app_suffix_neq : forall (s t : str), t <> [] -> s ++ t <> s.
Proof.
  intros s t Ht H. apply Ht. apply (app_inv_head s). rewrite app_nil_r. exact H.
Qed.

(** * the search loop *)
Lemma search_some : forall used s f i r,
  search used s f i = Some r ->
  exists j, i <= j /\ r = s ++ itoa j /\ ~ In r used /\
            (forall k, i <= k < j -> In (s ++ itoa k) used).
Proof.
  induction f as [|f IH]; simpl; intros i r H; [discriminate|].
  destruct (mem (s ++ itoa i) used) eqn:E.
  - apply IH in H. destruct H as [j [Hj [Hr [Hn Hk]]]].
    exists j. repeat split; auto; try lia.
    intros k Hk'. destruct (N.eq_dec k i) as [->|Hne].
    + apply mem_In. exact E.
    + apply Hk. lia.
  - inversion H; subst. exists i. repeat split; try lia.
    apply mem_false. exact E.
Qed.

Lemma search_none : forall used s f i,
  search used s f i = None ->
  forall k, (k < f)%nat -> In (s ++ itoa (i + N.of_nat k)) used.
Proof.
  induction f as [|f IH]; simpl; intros i H k Hk; [lia|].
  destruct (mem (s ++ itoa i) used) eqn:E; [|discriminate].
  destruct k as [|k].
  - rewrite N.add_0_r. apply mem_In. exact E.
  - replace (i + N.of_nat (S k)) with ((i + 1) + N.of_nat k) by lia. apply IH; auto. lia.
Qed.

(** the Go loop terminates: among s0 .. s|used| one name is free (pigeonhole) *)
Lemma search_total : forall used s, search used s (S (length used)) 0 <> None.
Proof.
  intros used s H.
  pose proof (search_none _ _ _ _ H) as Hall.
  set (cands := map (fun k => s ++ itoa (N.of_nat k)) (seq 0 (S (length used)))).
  assert (Hnd : NoDup cands).
  { unfold cands. apply FinFun.Injective_map_NoDup; [|apply seq_NoDup].
    intros a b Hab. apply app_inv_head in Hab. apply itoa_inj in Hab. lia. }
  assert (Hincl : incl cands used).
  { intros x Hx. unfold cands in Hx. apply in_map_iff in Hx. destruct Hx as [k [<- Hk]].
    apply in_seq in Hk. specialize (Hall k). simpl in Hall. apply Hall. lia. }
  pose proof (NoDup_incl_length Hnd Hincl) as Hlen.
  unfold cands in Hlen. rewrite map_length, seq_length in Hlen. exact (Nat.nle_succ_diag_l _ Hlen).
Qed.

(** * DeconflictName *)
Theorem deconflict_fresh : forall used s, ~ In (deconflict used s) used.
Proof.
  intros used s. unfold deconflict.
  destruct (mem s used) eqn:E.
  - destruct (search used s (S (length used)) 0) as [r|] eqn:Es.
    + apply search_some in Es. destruct Es as [j [_ [_ [Hn _]]]]. exact Hn.
    + exfalso. exact (search_total _ _ Es).
  - apply mem_false. exact E.
Qed.

(** the returned name is the request itself when it is free, otherwise the request plus the
    decimal form of the least i whose candidate is free *)
Theorem deconflict_form : forall used s,
  (~ In s used /\ deconflict used s = s) \/
  (In s used /\ exists i, deconflict used s = s ++ itoa i /\
                          forall k, k < i -> In (s ++ itoa k) used).
Proof.
  intros used s. unfold deconflict.
  destruct (mem s used) eqn:E.
  - right. split; [apply mem_In; exact E|].
    destruct (search used s (S (length used)) 0) as [r|] eqn:Es.
    + apply search_some in Es. destruct Es as [j [_ [Hr [_ Hk]]]].
      exists j. split; auto. intros k Hk'. apply Hk. lia.
    + exfalso. exact (search_total _ _ Es).
  - left. split; [apply mem_false; exact E | reflexivity].
Qed.

Corollary deconflict_suffix : forall used s,
  exists t, deconflict used s = s ++ t /\ Forall (fun c => is_digit c = true) t.
Proof.
  intros used s. destruct (deconflict_form used s) as [[_ H]|[_ [i [H _]]]].
  - exists []. rewrite app_nil_r. split; [exact H | constructor].
  - exists (itoa i). split; [exact H | apply digit_chars].
Qed.

(** * request sequences *)
Lemma dec_run_cons : forall st s rest,
  dec_run st (s :: rest) =
  (fst (dec_run (deconflict st s :: st) rest), deconflict st s :: snd (dec_run (deconflict st s :: st) rest)).
Proof.
  intros. simpl. destruct (dec_run (deconflict st s :: st) rest). reflexivity.
Qed.

Lemma dec_run_state : forall reqs st, fst (dec_run st reqs) = rev (snd (dec_run st reqs)) ++ st.
Proof.
  induction reqs as [|s rest IH]; intro st; [reflexivity|].
  rewrite dec_run_cons. simpl. rewrite IH. rewrite <- app_assoc. reflexivity.
Qed.

Lemma dec_run_length : forall reqs st, length (snd (dec_run st reqs)) = length reqs.
Proof.
  induction reqs as [|s rest IH]; intro st; [reflexivity|].
  rewrite dec_run_cons. simpl. rewrite IH. reflexivity.
Qed.

Lemma dec_run_fresh : forall reqs st r, In r (snd (dec_run st reqs)) -> ~ In r st.
Proof.
  induction reqs as [|s rest IH]; intros st r H; [contradiction|].
  rewrite dec_run_cons in H. simpl in H. destruct H as [<-|H].
  - apply deconflict_fresh.
  - apply IH in H. intro Hr. apply H. right. exact Hr.
Qed.

(** the names returned by one Deconflicter are pairwise distinct, whatever is requested *)
Theorem deconflict_injective : forall reqs st, NoDup (snd (dec_run st reqs)).
Proof.
  induction reqs as [|s rest IH]; intro st; [constructor|].
  rewrite dec_run_cons. simpl. constructor; [|apply IH].
  intro H. apply dec_run_fresh in H. apply H. left. reflexivity.
Qed.

Lemma dec_run_app : forall r1 r2 st,
  snd (dec_run st (r1 ++ r2)) = snd (dec_run st r1) ++ snd (dec_run (fst (dec_run st r1)) r2) /\
  fst (dec_run st (r1 ++ r2)) = fst (dec_run (fst (dec_run st r1)) r2).
Proof.
  induction r1 as [|s r1 IH]; intros r2 st; [split; reflexivity|].
  rewrite <- app_comm_cons. rewrite !dec_run_cons. simpl.
  destruct (IH r2 (deconflict st s :: st)) as [H1 H2]. rewrite H1, H2. split; reflexivity.
Qed.

(** the i-th returned name extends the i-th request by decimal digits *)
Theorem dec_run_suffix : forall reqs st,
  Forall2 (fun s r => exists t, r = s ++ t /\ Forall (fun c => is_digit c = true) t) reqs (snd (dec_run st reqs)).
Proof.
  induction reqs as [|s rest IH]; intro st; [constructor|].
  rewrite dec_run_cons. simpl. constructor; [apply deconflict_suffix | apply IH].
Qed.

(** * Go identifiers stay Go identifiers *)
Lemma go_ident_app_digits : forall s t,
  go_ident s = true -> Forall (fun c => is_digit c = true) t -> go_ident (s ++ t) = true.
Proof.
  intros s t Hs Ht. destruct s as [|a r]; [discriminate|].
  simpl in *. apply andb_true_iff in Hs. destruct Hs as [Ha Hr].
  rewrite Ha. simpl. rewrite forallb_app, Hr. simpl.
  apply forallb_forall. intros c Hc. rewrite Forall_forall in Ht. specialize (Ht c Hc).
  unfold ident_char, is_alnum. rewrite Ht. rewrite orb_true_r. reflexivity.
Qed.

Theorem deconflict_go_ident : forall used s, go_ident s = true -> go_ident (deconflict used s) = true.
Proof.
  intros used s H. destruct (deconflict_suffix used s) as [t [-> Ht]].
  apply go_ident_app_digits; assumption.
Qed.

(** * the struct scope *)
Lemma acc_run_spec : forall fs st,
  exists reqs, acc_run st fs = dec_run st reqs.
Proof.
  induction fs as [|[f go] rest IH]; intro st.
  - exists []. reflexivity.
  - simpl. destruct (dec_run st (acc_requests f go)) as [st1 rs] eqn:E1.
    destruct (IH st1) as [reqs2 E2]. rewrite E2.
    exists (acc_requests f go ++ reqs2).
    destruct (dec_run_app (acc_requests f go) reqs2 st) as [H1 H2].
    rewrite E1 in H1, H2. simpl in H1, H2.
    destruct (dec_run st1 reqs2) as [st2 rs2] eqn:E3. simpl in *.
    destruct (dec_run st (acc_requests f go ++ reqs2)) as [a b]. simpl in *. subst. reflexivity.
Qed.

(** fields, accessors and the four names seeded by FillGolangIdentifies never clash *)
Theorem struct_scope_nodup : forall fs,
  NoDup (struct_field_names fs ++ struct_accessor_names fs) /\
  forall n, In n (struct_field_names fs ++ struct_accessor_names fs) -> ~ In n golang_seeds.
Proof.
  intro fs. unfold struct_field_names, struct_accessor_names, struct_scope.
  set (reqs1 := map (fun f => camel (fname f)) (named fs)).
  destruct (dec_run (fill_golang []) reqs1) as [st1 gos] eqn:E1.
  destruct (acc_run_spec (combine (named fs) gos) st1) as [reqs2 E2]. rewrite E2.
  destruct (dec_run st1 reqs2) as [st2 accs] eqn:E3. simpl.
  destruct (dec_run_app reqs1 reqs2 (fill_golang [])) as [H1 _].
  rewrite E1 in H1. simpl in H1. rewrite E3 in H1. simpl in H1.
  split.
  - rewrite <- H1. apply deconflict_injective.
  - intros n Hn. rewrite <- H1 in Hn. apply dec_run_fresh in Hn.
    intro Hs. apply Hn. unfold fill_golang. rewrite dec_run_state, app_nil_r.
    apply in_rev. rewrite rev_involutive.
    (* the seeds are pairwise different, so each is returned unchanged *)
    vm_compute. vm_compute in Hs. exact Hs.
Qed.

(** * a sufficient condition for the constants obligation (what a kernel check would have to
    enforce to close F11b): the kernel's NameCollision normalisation lower-cases and strips
    '_' but keeps the namespace dot, which is why a.foo / aFoo / a_foo pass it *)
Lemma low_up : forall a, low (up a) = low a.
Proof.
  intro a. unfold up, low, is_lower, is_upper.
  destruct ((97 <=? a) && (a <=? 122)) eqn:E1.
  - apply andb_true_iff in E1. destruct E1 as [H1 H2]. apply N.leb_le in H1, H2.
    assert (E2 : (65 <=? a - 32) && (a - 32 <=? 90) = true).
    { apply andb_true_iff. split; apply N.leb_le; lia. }
    rewrite E2.
    assert (E3 : (65 <=? a) && (a <=? 90) = false).
    { apply andb_false_iff. right. apply N.leb_gt. lia. }
    rewrite E3. lia.
  - reflexivity.
Qed.

Lemma low_low : forall a, low (low a) = low a.
Proof.
  intro a. unfold low, is_upper.
  destruct ((65 <=? a) && (a <=? 90)) eqn:E1; [|rewrite E1; reflexivity].
  apply andb_true_iff in E1. destruct E1 as [H1 H2]. apply N.leb_le in H1, H2.
  assert (E3 : (65 <=? a + 32) && (a + 32 <=? 90) = false).
  { apply andb_false_iff. right. apply N.leb_gt. lia. }
  rewrite E3. reflexivity.
Qed.

Lemma to_lower_idem : forall s, to_lower (to_lower s) = to_lower s.
Proof. induction s; simpl; [reflexivity|]. rewrite low_low. f_equal. exact IHs. Qed.

Lemma to_lower_app : forall a b, to_lower (a ++ b) = to_lower a ++ to_lower b.
Proof. intros. unfold to_lower. apply map_app. Qed.

Lemma to_lower_fix_chunk : forall c, to_lower (fix_chunk c) = to_lower c.
Proof.
  intro c. unfold fix_chunk. destruct (all_upper_chunk c).
  - destruct c as [|a r]; [reflexivity|]. simpl. rewrite low_up. f_equal. apply to_lower_idem.
  - destruct c as [|a r]; [reflexivity|]. simpl. rewrite low_up. reflexivity.
Qed.

Lemma concat_chunks_aux : forall s cur, concat (chunks_aux s cur) = cur ++ filter is_alnum s.
Proof.
  induction s as [|c r IH]; intro cur; simpl.
  - destruct cur; simpl; rewrite ?app_nil_r; reflexivity.
  - destruct (is_alnum c).
    + rewrite IH. rewrite <- app_assoc. reflexivity.
    + destruct cur as [|x cur']; simpl.
      * rewrite IH. reflexivity.
      * rewrite IH. reflexivity.
Qed.

Lemma to_lower_concat_map : forall l, to_lower (concat (map fix_chunk l)) = to_lower (concat l).
Proof.
  induction l as [|c l IH]; simpl; [reflexivity|].
  rewrite !to_lower_app, to_lower_fix_chunk, IH. reflexivity.
Qed.

(** the lower-cased camel name is the lower-cased alphanumeric content of the TL name *)
Lemma to_lower_camel : forall s, to_lower (camel s) = to_lower (filter is_alnum s).
Proof.
  intro s. unfold camel, chunks. rewrite to_lower_concat_map, concat_chunks_aux. reflexivity.
Qed.

Definition norm_name (n : tlname) : str := to_lower (filter is_alnum (ns n ++ nm n)).

Lemma str_eqb_nil : forall a, str_eqb a [] = true <-> a = [].
Proof. destruct a; simpl; split; intro H; try discriminate; reflexivity. Qed.

Lemma to_lower_const_name : forall n, to_lower (const_name n) = norm_name n.
Proof.
  intro n. unfold const_name, canonical_go_name, norm_name.
  destruct (str_eqb (ns n) []) eqn:E.
  - apply str_eqb_nil in E. rewrite E. simpl. apply to_lower_camel.
  - rewrite to_lower_app, !to_lower_camel, filter_app, to_lower_app. reflexivity.
Qed.

Lemma nodupb_NoDup : forall l, nodupb l = true <-> NoDup l.
Proof.
  induction l as [|x r IH]; simpl.
  - split; [constructor | reflexivity].
  - rewrite andb_true_iff, negb_true_iff, mem_false, IH. split.
    + intros [H1 H2]. constructor; assumption.
    + intro H. inversion H; subst. split; assumption.
Qed.

(** distinct names after dropping every non-alphanumeric character (dot included) and case
    give distinct Go constants *)
Theorem consts_ok_if_normalized_distinct : forall names,
  NoDup (map norm_name names) -> consts_ok names = true.
Proof.
  intros names H. unfold consts_ok. apply nodupb_NoDup.
  apply (NoDup_map_inv to_lower).
  rewrite map_map. erewrite map_ext; [exact H|].
  intro n. apply to_lower_const_name.
Qed.

(** * the obligations that no Deconflicter protects are violated by accepted schemas (F11) *)
From Coq Require Import String.
Definition tl (a b : string) : tlname := TLName (lit a%string) (lit b%string).
Arguments tl (a b)%string_scope.
Arguments lit s%string_scope.

(** (a) a.foo / a.fOO: two different file names that coincide when case is ignored *)
Theorem files_case_distinct_refuted : exists names, files_ok names = false.
Proof. exists [tl "a" "foo"; tl "a" "fOO"]. vm_compute. reflexivity. Qed.

Theorem dirs_case_distinct_refuted : exists names, dirs_ok names = false.
Proof. exists [tl "a" "foo"; tl "a" "fOO"]. vm_compute. reflexivity. Qed.

(** (b) a.foo, aFoo, a_foo: one constant name AFoo, declared three times *)
Theorem consts_nodup_refuted : exists names, NoDup names /\ consts_ok names = false.
Proof.
  exists [tl "a" "foo"; tl "" "aFoo"; tl "" "a_foo"]. split.
  - repeat constructor; simpl; intuition discriminate.
  - vm_compute. reflexivity.
Qed.

(** (c) a field named `string` in a struct without nat parameters: Go field String next to the
    generated method String(); a field named `reset` clashes in every struct *)
Theorem fields_vs_methods_refuted :
  (exists fs, fields_ok struct_methods_closed fs = false) /\
  (exists fs, fields_ok struct_methods_always fs = false).
Proof.
  split.
  - exists [Field (lit "string") AccNone false]. vm_compute. reflexivity.
  - exists [Field (lit "reset") AccNone false]. vm_compute. reflexivity.
Qed.

(** (e) `rs.t {n:#} f:n.0?int = rs.T n; @read rs.fn m:# rsTF:m.1?int => rs.T m;`: the accessor of
    the request field rsTF and the result-mask accessor Set+RsT+F are both SetRsTF *)
Theorem methods_nodup_refuted : exists fs raccs, methods_ok fs raccs = false.
Proof.
  exists [Field (lit "m") AccNone false; Field (lit "rsTF") AccFull false], [result_accessor (lit "RsT") [lit "F"]].
  vm_compute. reflexivity.
Qed.

(** (d) a type named `unused`: Go type Unused next to the helper func Unused *)
Theorem globals_vs_helpers_refuted : exists names, globals_ok names = false.
Proof. exists [tl "" "unused"]. vm_compute. reflexivity. Qed.
