(** C31 support: the observable read-then-write behaviour ([rw1] of the drivers) as a function of
    the TL1 model, and what agreement with it implies.  No new codec model: everything is
    stated over Tl1.Tl1Model [enc1]/[dec1] (C01 / C02). *)
From Coq Require Import List NArith Bool Lia.
From TLV Require Import Prim.PrimModel Tl1.Tl1Model Tl1.Tl1Proofs.
Import ListNotations.
Open Scope N_scope.

(** what a driver prints for `rw1`: accepted (consumed bytes, re-written bytes), or an error class *)
Inductive rw_out :=
| RwOk (consumed : nat) (rewritten : option bytes)   (* [None] = the writer refused the value read *)
| RwEof
| RwReject
| RwFuel.

(** the model's rw1 (ocaml/drv_tl1.ml): read with [dec1], write what was read with [enc1 false] *)
Definition rw1_model (fuel : nat) (san : bool) (s : schema) (t : nat) (bare : bool) (b : bytes) : rw_out :=
  match dec1 fuel san s t bare [] b with
  | Some (Ok (v, rest)) => RwOk (length b - length rest) (enc1 false s t bare [] v)
  | Some Eof => RwEof
  | Some Reject => RwReject
  | None => RwFuel
  end.

(** an implementation: any function from input bytes to an outcome *)
Definition impl := bytes -> rw_out.
Definition agrees (f : impl) (fuel : nat) (san : bool) (s : schema) (t : nat) (bare : bool) (b : bytes) : Prop :=
  f b = rw1_model fuel san s t bare b.

(** two implementations that agree with the model on an input agree with each other on it *)
Lemma agree_trans : forall (go cpp : impl) fuel san s t bare b,
  agrees go fuel san s t bare b -> agrees cpp fuel san s t bare b -> go b = cpp b.
Proof. unfold agrees. intros. congruence. Qed.

(** bytes written by the model's writer for a value (what the Go writer emits, C01): the model
    reads them back, consumes exactly them, and re-writes them identically *)
Lemma rw1_model_written : forall san s, wf_schema s = true ->
  forall v fuel t bare b rest,
    (vdepth v <= fuel)%nat ->
    enc1 san s t bare [] v = Some b ->
    rw1_model fuel san s t bare (b ++ rest) = RwOk (length b) (Some b).
Proof.
  intros san s Hwf v fuel t bare b rest Hd He.
  unfold rw1_model. rewrite (enc1_dec1 san s Hwf v fuel Hd t bare [] b rest He).
  assert (Hw : enc1 false s t bare [] v = Some b).
  { destruct san; [apply enc1_strict_weaken|]; exact He. }
  rewrite Hw. f_equal. rewrite app_length. lia.
Qed.

(** hence every implementation that agrees with the model on a written value re-writes it
    identically and consumes exactly its bytes *)
Lemma written_value_rewritten : forall (f : impl) san s, wf_schema s = true ->
  forall v fuel t bare b rest,
    (vdepth v <= fuel)%nat ->
    enc1 san s t bare [] v = Some b ->
    agrees f fuel san s t bare (b ++ rest) ->
    f (b ++ rest) = RwOk (length b) (Some b).
Proof.
  intros f san s Hwf v fuel t bare b rest Hd He Ha.
  unfold agrees in Ha. rewrite Ha. eapply rw1_model_written; eauto.
Qed.

(** what the model rejects, every agreeing implementation rejects with the same class *)
Lemma rejected_is_rejected : forall (go cpp : impl) fuel san s t bare b,
  agrees go fuel san s t bare b -> agrees cpp fuel san s t bare b ->
  (go b = RwEof \/ go b = RwReject) -> cpp b = go b.
Proof. unfold agrees. intros. congruence. Qed.
