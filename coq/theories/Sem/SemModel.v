(** M9 (semaphore part) -- executable model of internal/vkgo/pkg/semaphore/semaphore.go
    (type Weighted).  No proofs here.

    One [step] = one mutex-protected critical section of the Go code (plus, for Acquire, the
    decision taken inside it).  An Acquire that does not finish in its first critical section
    stays in the state as a queued waiter or as a "doomed" caller (branch [n > s.size]: it only
    waits for its context); its second critical section is the [OCancel] step.  Closing the
    [ready] channel of a waiter is the [EAdmit] event carrying the waiter's id.

    Go's int64 arithmetic is written out ([add64]/[sub64] wrap around); the theorems assume the
    values stay far from the wrap-around ([bounded]). *)
From Coq Require Import ZArith NArith List Bool.
Import ListNotations.
Open Scope Z_scope.

Definition wrap64 (x : Z) : Z :=
  (x + 9223372036854775808) mod 18446744073709551616 - 9223372036854775808.
Definition add64 (a b : Z) : Z := wrap64 (a + b).
Definition sub64 (a b : Z) : Z := wrap64 (a - b).

(** A waiter: (id of the Acquire call, weight).  Ids are handed out in call order. *)
Definition waiter : Type := (N * Z)%type.

Record state : Type := mkState {
  size : Z;                 (* s.size *)
  cur : Z;                  (* s.cur *)
  waiters : list waiter;    (* s.waiters, front first *)
  doomed : list waiter;     (* callers blocked in the branch [n > s.size] (not part of the Go struct) *)
  nexti : N                 (* id of the next Acquire call *)
}.

Definition init (n : Z) : state := mkState n 0 [] [] 0%N.   (* NewWeighted(n) *)

Inductive op : Type :=
| OAcquire (n : Z)          (* Acquire(ctx, n): first critical section *)
| OTry (n : Z)              (* TryAcquire(n) *)
| ORelease (n : Z)          (* Release(n) *)
| OForce (n : Z)            (* ForceAcquire(n) *)
| OResize (n : Z)           (* SetSize(n) *)
| OCancel (id : N).         (* ctx of Acquire #id is done: its second critical section *)

(** [EAdmit who n c sz]: a non-forced admission of weight [n] decided while s.cur = c and
    s.size = sz.  [who = Some id] for Acquire #id (fast path or ready closed), [None] for TryAcquire. *)
Inductive event : Type := EAdmit (who : option N) (n c sz : Z).

Inductive result : Type :=
| RFast        (* Acquire returned nil from the fast path *)
| RQueued      (* Acquire pushed a waiter and blocks *)
| RDoomed      (* Acquire blocks on ctx only *)
| RTry (b : bool)
| ROk
| RPanic
| RErr         (* the cancelled Acquire returns ctx.Err() *)
| RNone.       (* nothing to cancel: that Acquire has already returned (or will return nil) *)

(** func (s *Weighted) notifyWaiters(): returns the new s.cur, the remaining waiters, the admissions. *)
Fixpoint notify (sz c : Z) (ws : list waiter) : Z * list waiter * list event :=
  match ws with
  | [] => (c, [], [])
  | (id, n) :: rest =>
      if sub64 sz c <? n then (c, ws, [])
      else let '(c', ws', ev) := notify sz (add64 c n) rest in
           (c', ws', EAdmit (Some id) n c sz :: ev)
  end.

Definition is_nil {A} (l : list A) : bool := match l with [] => true | _ => false end.

Fixpoint in_q (id : N) (ws : list waiter) : bool :=
  match ws with
  | [] => false
  | (i, _) :: rest => if N.eqb i id then true else in_q id rest
  end.

Fixpoint remove_q (id : N) (ws : list waiter) : list waiter :=
  match ws with
  | [] => []
  | (i, n) :: rest => if N.eqb i id then rest else (i, n) :: remove_q id rest
  end.

Definition is_front (id : N) (ws : list waiter) : bool :=
  match ws with
  | (i, _) :: _ => N.eqb i id
  | [] => false
  end.

(** The guard of the cancel path.  [fx = true] is [s.size >= s.cur], the code as it is since the
    repair of finding F4 (/repo commit 61b3423d); [fx = false] is the old guard [s.size > s.cur], kept
    only to explain what a regression to [>] would break. *)
Definition cancel_guard (fx : bool) (sz c : Z) : bool := if fx then c <=? sz else c <? sz.

(** The guard of the current code; the correspondence run executes [step code_guard]. *)
Definition code_guard : bool := true.

Definition fits (s : state) (n : Z) : bool :=      (* s.size-s.cur >= n && s.waiters.Len() == 0 *)
  (n <=? sub64 (size s) (cur s)) && is_nil (waiters s).

Definition step (fx : bool) (s : state) (o : op) : state * result * list event :=
  match o with
  | OAcquire n =>
      let id := nexti s in
      let nx := N.succ id in
      if n <? 0 then (mkState (size s) (cur s) (waiters s) (doomed s) nx, RPanic, [])
      else if fits s n then
        (mkState (size s) (add64 (cur s) n) (waiters s) (doomed s) nx, RFast,
         [EAdmit (Some id) n (cur s) (size s)])
      else if size s <? n then
        (mkState (size s) (cur s) (waiters s) (doomed s ++ [(id, n)]) nx, RDoomed, [])
      else
        (mkState (size s) (cur s) (waiters s ++ [(id, n)]) (doomed s) nx, RQueued, [])
  | OTry n =>
      if n <? 0 then (s, RPanic, [])
      else if fits s n then
        (mkState (size s) (add64 (cur s) n) (waiters s) (doomed s) (nexti s), RTry true,
         [EAdmit None n (cur s) (size s)])
      else (s, RTry false, [])
  | ORelease n =>
      if n <? 0 then (s, RPanic, [])
      else
        let c := sub64 (cur s) n in
        if c <? 0 then (mkState (size s) c (waiters s) (doomed s) (nexti s), RPanic, [])
        else let '(c', ws', ev) := notify (size s) c (waiters s) in
             (mkState (size s) c' ws' (doomed s) (nexti s), ROk, ev)
  | OForce n =>
      if n <? 0 then (s, RPanic, [])
      else (mkState (size s) (add64 (cur s) n) (waiters s) (doomed s) (nexti s), ROk, [])
  | OResize n =>
      let '(c', ws', ev) := notify n (cur s) (waiters s) in
      (mkState n c' ws' (doomed s) (nexti s), ROk, ev)
  | OCancel id =>
      if in_q id (waiters s) then
        let front := is_front id (waiters s) in
        let ws := remove_q id (waiters s) in
        if front && cancel_guard fx (size s) (cur s) then
          let '(c', ws', ev) := notify (size s) (cur s) ws in
          (mkState (size s) c' ws' (doomed s) (nexti s), RErr, ev)
        else (mkState (size s) (cur s) ws (doomed s) (nexti s), RErr, [])
      else if in_q id (doomed s) then
        (mkState (size s) (cur s) (waiters s) (remove_q id (doomed s)) (nexti s), RErr, [])
      else (s, RNone, [])
  end.

Definition st (x : state * result * list event) : state := fst (fst x).
Definition res (x : state * result * list event) : result := snd (fst x).
Definition evs (x : state * result * list event) : list event := snd x.

(** Final state of a history. *)
Fixpoint run (fx : bool) (s : state) (h : list op) : state :=
  match h with
  | [] => s
  | o :: h' => run fx (st (step fx s o)) h'
  end.

(** All events of a history, in order. *)
Fixpoint events (fx : bool) (s : state) (h : list op) : list event :=
  match h with
  | [] => []
  | o :: h' => evs (step fx s o) ++ events fx (st (step fx s o)) h'
  end.

(** The states after every complete operation (not including the start state). *)
Fixpoint states (fx : bool) (s : state) (h : list op) : list state :=
  match h with
  | [] => []
  | o :: h' => let s' := st (step fx s o) in s' :: states fx s' h'
  end.
