(** Lemmas about the semaphore model (C42). *)
From Coq Require Import ZArith NArith List Bool Lia ZifyBool.
From TLV Require Import Sem.SemModel.
Import ListNotations.
Open Scope Z_scope.

(** ** Side conditions *)

(** Values stay below 2^62 in absolute value, so no int64 operation of the code wraps. *)
Definition L : Z := 4611686018427387904.

Definition bounded (s : state) : Prop := -L < size s < L /\ -L < cur s < L.

Definition op_bounded (o : op) : Prop :=
  match o with
  | OAcquire n | OTry n | ORelease n | OForce n | OResize n => -L < n < L
  | OCancel _ => True
  end.

Definition wok (w : waiter) : Prop := 0 <= snd w < L.
Definition wpos (w : waiter) : Prop := 0 < snd w.
Definition wf (s : state) : Prop := Forall wok (waiters s).

(** Every operation of the history has bounded arguments and leaves a bounded state. *)
Fixpoint in_range (fx : bool) (s : state) (h : list op) : Prop :=
  match h with
  | [] => True
  | o :: h' => op_bounded o /\ bounded (st (step fx s o)) /\ in_range fx (st (step fx s o)) h'
  end.

(** No operation of the history panics (negative argument, or Release of more than is held). *)
Fixpoint clean (fx : bool) (s : state) (h : list op) : Prop :=
  match h with
  | [] => True
  | o :: h' => res (step fx s o) <> RPanic /\ clean fx (st (step fx s o)) h'
  end.

Definition acquire_weights (P : Z -> Prop) (h : list op) : Prop :=
  Forall (fun o => match o with OAcquire n => P n | _ => True end) h.

Definition no_resize (h : list op) : Prop :=
  Forall (fun o => match o with OResize _ => False | _ => True end) h.

(** ** The properties *)

Definition admit_ok (e : event) : Prop :=
  match e with EAdmit _ n c sz => 0 <= n /\ c + n <= sz end.

Definition head_free (sz c : Z) (ws : list waiter) : Prop :=
  match ws with [] => True | (_, n) :: _ => sz - c < n end.

(** No waiter, or the first waiter does not fit. *)
Definition head_ok (s : state) : Prop := head_free (size s) (cur s) (waiters s).

(** Every caller parked in the "doomed" branch really cannot be served. *)
Definition doomed_ok (s : state) : Prop := Forall (fun w => size s < snd w) (doomed s).

Definition ev_weight (e : event) : Z := match e with EAdmit _ n _ _ => n end.
Fixpoint sum_ev (l : list event) : Z :=
  match l with [] => 0 | e :: r => ev_weight e + sum_ev r end.
Fixpoint forced (h : list op) : Z :=
  match h with [] => 0 | OForce n :: r => n + forced r | _ :: r => forced r end.
Fixpoint released (h : list op) : Z :=
  match h with [] => 0 | ORelease n :: r => n + released r | _ :: r => released r end.

Definition head_ok_b (s : state) : bool :=
  match waiters s with [] => true | (_, n) :: _ => size s - cur s <? n end.

(** ** int64 arithmetic away from the wrap-around *)

Lemma wrap64_small x : -9223372036854775808 <= x < 9223372036854775808 -> wrap64 x = x.
Proof. intros H. unfold wrap64. rewrite Z.mod_small by lia. lia. Qed.

Lemma add64_small a b : -L < a < L -> -L < b < L -> add64 a b = a + b.
Proof. unfold add64, L. intros. apply wrap64_small. lia. Qed.

Lemma sub64_small a b : -L < a < L -> -L < b < L -> sub64 a b = a - b.
Proof. unfold sub64, L. intros. apply wrap64_small. lia. Qed.

Lemma sum_ev_app a b : sum_ev (a ++ b) = sum_ev a + sum_ev b.
Proof. induction a; cbn [sum_ev app]; lia. Qed.

(** ** notifyWaiters *)

Lemma notify_spec : forall ws sz c c' ws' ev,
  -L < sz < L -> -L < c < L -> Forall wok ws ->
  notify sz c ws = (c', ws', ev) ->
  Forall admit_ok ev /\ c' = c + sum_ev ev /\ c <= c' /\ (c' = c \/ c' <= sz) /\
  head_free sz c' ws' /\ (forall P : waiter -> Prop, Forall P ws -> Forall P ws').
Proof.
  induction ws as [|[id n] rest IH]; intros sz c c' ws' ev Hsz Hc Hw H; cbn [notify] in H.
  - inversion H; subst. cbn. repeat split; auto; lia.
  - inversion Hw as [|? ? Hn Hrest]; subst. unfold wok in Hn; cbn [snd] in Hn.
    rewrite sub64_small in H by assumption.
    destruct (sz - c <? n) eqn:E.
    + inversion H; subst. cbn [sum_ev head_free]. repeat split; auto; lia.
    + destruct (notify sz (add64 c n) rest) as [[c1 ws1] ev1] eqn:N.
      inversion H; subst; clear H.
      rewrite add64_small in N by (unfold L in *; lia).
      apply IH in N; [| assumption | unfold L in *; lia | assumption].
      destruct N as (A & B & C & D & E' & F).
      repeat split.
      * constructor; [cbn; lia | assumption].
      * cbn [sum_ev ev_weight]. lia.
      * lia.
      * right. lia.
      * assumption.
      * intros P HP. inversion HP; subst. auto.
Qed.

(** ** Queue helpers *)

Lemma in_q_cons_inv id ws : in_q id ws = true -> exists h hn rest, ws = (h, hn) :: rest.
Proof. destruct ws as [|[h hn] rest]; cbn; [discriminate | eauto]. Qed.

Lemma remove_q_Forall (P : waiter -> Prop) id ws : Forall P ws -> Forall P (remove_q id ws).
Proof.
  induction ws as [|[i n] rest IH]; cbn [remove_q]; intros H; auto.
  inversion H; subst. destruct (N.eqb i id); auto.
Qed.

Lemma Forall_snoc {A} (P : A -> Prop) l x : Forall P l -> P x -> Forall P (l ++ [x]).
Proof. intros. apply Forall_app. split; auto. Qed.

Lemma head_free_snoc sz c ws x :
  ws <> [] -> head_free sz c ws -> head_free sz c (ws ++ [x]).
Proof. destruct ws as [|[i n] r]; cbn; intros; [congruence | assumption]. Qed.

(** ** One step *)

Ltac destr_notify :=
  match goal with
  | |- context [notify ?a ?b ?c] =>
      let c1 := fresh "c1" in let ws1 := fresh "ws1" in let ev1 := fresh "ev1" in
      let N := fresh "N" in
      destruct (notify a b c) as [[c1 ws1] ev1] eqn:N
  | H : context [notify ?a ?b ?c] |- _ =>
      let c1 := fresh "c1" in let ws1 := fresh "ws1" in let ev1 := fresh "ev1" in
      let N := fresh "N" in
      destruct (notify a b c) as [[c1 ws1] ev1] eqn:N
  end.

Lemma step_wf fx s o :
  bounded s -> op_bounded o -> wf s -> wf (st (step fx s o)).
Proof.
  intros [Hs Hc] Ho Hw. unfold wf in *. destruct o as [n|n|n|n|n|id]; cbn [step op_bounded] in *.
  - destruct (n <? 0) eqn:E0; [exact Hw|].
    destruct (fits s n); [exact Hw|].
    destruct (size s <? n) eqn:E1; [exact Hw|].
    cbn [st fst waiters]. apply Forall_snoc; [assumption|]. unfold wok; cbn [snd]. lia.
  - destruct (n <? 0); [exact Hw|]. destruct (fits s n); exact Hw.
  - destruct (n <? 0) eqn:E0; [exact Hw|].
    rewrite sub64_small by (assumption || lia).
    destruct (cur s - n <? 0) eqn:E1; [exact Hw|].
    destr_notify. cbn [st fst waiters].
    eapply notify_spec in N; [| assumption | lia | eassumption]. apply N; assumption.
  - destruct (n <? 0); exact Hw.
  - destr_notify. cbn [st fst waiters].
    eapply notify_spec in N; [| assumption | assumption | eassumption]. apply N; assumption.
  - destruct (in_q id (waiters s)).
    + destruct (is_front id (waiters s) && cancel_guard fx (size s) (cur s)).
      * destr_notify. cbn [st fst waiters].
        eapply notify_spec in N; [| assumption | assumption | apply remove_q_Forall; eassumption].
        apply N. apply remove_q_Forall. assumption.
      * cbn [st fst waiters]. apply remove_q_Forall. assumption.
    + destruct (in_q id (doomed s)); exact Hw.
Qed.

Lemma step_wpos fx s o :
  bounded s -> op_bounded o -> wf s ->
  match o with OAcquire n => 0 < n | _ => True end ->
  Forall wpos (waiters s) -> Forall wpos (waiters (st (step fx s o))).
Proof.
  intros [Hs Hc] Ho Hwf Hn Hw. destruct o as [n|n|n|n|n|id]; cbn [step op_bounded] in *.
  - destruct (n <? 0) eqn:E0; [exact Hw|].
    destruct (fits s n); [exact Hw|].
    destruct (size s <? n) eqn:E1; [exact Hw|].
    cbn [st fst waiters]. apply Forall_snoc; [assumption|]. unfold wpos; cbn [snd]. lia.
  - destruct (n <? 0); [exact Hw|]. destruct (fits s n); exact Hw.
  - destruct (n <? 0) eqn:E0; [exact Hw|].
    rewrite sub64_small by (assumption || lia).
    destruct (cur s - n <? 0) eqn:E1; [exact Hw|].
    destr_notify. cbn [st fst waiters].
    eapply notify_spec in N; [| assumption | lia | eassumption]. apply N; assumption.
  - destruct (n <? 0); exact Hw.
  - destr_notify. cbn [st fst waiters].
    eapply notify_spec in N; [| assumption | assumption | eassumption]. apply N; assumption.
  - destruct (in_q id (waiters s)).
    + destruct (is_front id (waiters s) && cancel_guard fx (size s) (cur s)).
      * destr_notify. cbn [st fst waiters].
        eapply notify_spec in N; [| assumption | assumption | apply remove_q_Forall; eassumption].
        apply N. apply remove_q_Forall. assumption.
      * cbn [st fst waiters]. apply remove_q_Forall. assumption.
    + destruct (in_q id (doomed s)); exact Hw.
Qed.

(** Admissions of one step respect the size at the moment they are decided. *)
Lemma step_admit_ok fx s o :
  bounded s -> op_bounded o -> wf s -> Forall admit_ok (evs (step fx s o)).
Proof.
  intros [Hs Hc] Ho Hw. unfold wf in *. destruct o as [n|n|n|n|n|id]; cbn [step op_bounded] in *.
  - destruct (n <? 0) eqn:E0; [constructor|].
    unfold fits. rewrite sub64_small by assumption.
    destruct (n <=? size s - cur s) eqn:E1; cbn [andb].
    + destruct (is_nil (waiters s)).
      * cbn [evs snd]. constructor; [cbn; lia | constructor].
      * destruct (size s <? n); constructor.
    + destruct (size s <? n); constructor.
  - destruct (n <? 0) eqn:E0; [constructor|].
    unfold fits. rewrite sub64_small by assumption.
    destruct (n <=? size s - cur s) eqn:E1; cbn [andb]; [| constructor].
    destruct (is_nil (waiters s)); [| constructor].
    cbn [evs snd]. constructor; [cbn; lia | constructor].
  - destruct (n <? 0) eqn:E0; [constructor|].
    rewrite sub64_small by (assumption || lia).
    destruct (cur s - n <? 0) eqn:E1; [constructor|].
    destr_notify. cbn [evs snd].
    eapply notify_spec in N; [| assumption | lia | eassumption]. apply N.
  - destruct (n <? 0); constructor.
  - destr_notify. cbn [evs snd].
    eapply notify_spec in N; [| assumption | assumption | eassumption]. apply N.
  - destruct (in_q id (waiters s)).
    + destruct (is_front id (waiters s) && cancel_guard fx (size s) (cur s)).
      * destr_notify. cbn [evs snd].
        eapply notify_spec in N; [| assumption | assumption | apply remove_q_Forall; eassumption].
        apply N.
      * constructor.
    + destruct (in_q id (doomed s)); constructor.
Qed.

Definition delta (o : op) : Z :=
  match o with OForce n => n | ORelease n => - n | _ => 0 end.

(** s.cur is exactly the weight admitted plus forced minus released. *)
Lemma step_accounting fx s o :
  bounded s -> op_bounded o -> wf s -> res (step fx s o) <> RPanic ->
  cur (st (step fx s o)) = cur s + sum_ev (evs (step fx s o)) + delta o.
Proof.
  intros [Hs Hc] Ho Hw. unfold wf in *. destruct o as [n|n|n|n|n|id]; cbn [step op_bounded delta] in *.
  - destruct (n <? 0) eqn:E0; [cbn; congruence|].
    unfold fits. rewrite sub64_small by assumption.
    destruct ((n <=? size s - cur s) && is_nil (waiters s)) eqn:E1.
    + intros _. cbn [st evs fst snd cur sum_ev ev_weight]. rewrite add64_small by lia. lia.
    + destruct (size s <? n); intros _; cbn; lia.
  - destruct (n <? 0) eqn:E0; [cbn; congruence|].
    unfold fits. rewrite sub64_small by assumption.
    destruct ((n <=? size s - cur s) && is_nil (waiters s)) eqn:E1.
    + intros _. cbn [st evs fst snd cur sum_ev ev_weight]. rewrite add64_small by lia. lia.
    + intros _; cbn; lia.
  - destruct (n <? 0) eqn:E0; [cbn; congruence|].
    rewrite sub64_small by (assumption || lia).
    destruct (cur s - n <? 0) eqn:E1; [cbn; congruence|].
    destr_notify. intros _. cbn [st evs fst snd cur].
    eapply notify_spec in N; [| assumption | lia | eassumption]. lia.
  - destruct (n <? 0) eqn:E0; [cbn; congruence|].
    intros _. cbn [st evs fst snd cur sum_ev]. rewrite add64_small by lia. lia.
  - destr_notify. intros _. cbn [st evs fst snd cur].
    eapply notify_spec in N; [| assumption | assumption | eassumption]. lia.
  - destruct (in_q id (waiters s)).
    + destruct (is_front id (waiters s) && cancel_guard fx (size s) (cur s)).
      * destr_notify. intros _. cbn [st evs fst snd cur].
        eapply notify_spec in N; [| assumption | assumption | apply remove_q_Forall; eassumption]. lia.
      * intros _; cbn; lia.
    + destruct (in_q id (doomed s)); intros _; cbn; lia.
Qed.

(** The head of the queue is never left fitting -- for the current guard ([>=]) always, for the
    old guard ([>]) when all queued weights are positive. *)
Lemma step_head_ok fx s o :
  bounded s -> op_bounded o -> wf s -> res (step fx s o) <> RPanic ->
  fx = true \/ Forall wpos (waiters s) ->
  head_ok s -> head_ok (st (step fx s o)).
Proof.
  intros [Hs Hc] Ho Hw. unfold wf, head_ok in *.
  destruct o as [n|n|n|n|n|id]; cbn [step op_bounded] in *.
  - destruct (n <? 0) eqn:E0; [cbn; congruence|].
    unfold fits. rewrite sub64_small by assumption.
    intros _ _ Hh.
    destruct (waiters s) as [|[i m] rest] eqn:W; cbn [is_nil].
    + rewrite andb_true_r. destruct (n <=? size s - cur s) eqn:E1.
      * cbn [st fst size cur waiters]. rewrite ?W. exact I.
      * destruct (size s <? n); cbn [st fst size cur waiters]; rewrite ?W; cbn; [exact I | lia].
    + rewrite andb_false_r. destruct (size s <? n); cbn [st fst size cur waiters]; rewrite ?W; exact Hh.
  - destruct (n <? 0) eqn:E0; [cbn; congruence|].
    unfold fits. intros _ _ Hh.
    destruct (waiters s) as [|[i m] rest] eqn:W; cbn [is_nil].
    + destruct (n <=? sub64 (size s) (cur s)); cbn [andb st fst size cur waiters]; rewrite ?W; exact I.
    + rewrite andb_false_r. cbn [st fst]. rewrite ?W. exact Hh.
  - destruct (n <? 0) eqn:E0; [cbn; congruence|].
    rewrite sub64_small by (assumption || lia).
    destruct (cur s - n <? 0) eqn:E1; [cbn; congruence|].
    destr_notify. intros _ _ _. cbn [st fst size cur waiters].
    eapply notify_spec in N; [| assumption | lia | eassumption]. apply N.
  - destruct (n <? 0) eqn:E0; [cbn; congruence|].
    intros _ _ Hh. cbn [st fst size cur waiters]. rewrite add64_small by lia.
    destruct (waiters s) as [|[i m] rest]; cbn in *; [exact I | lia].
  - destr_notify. intros _ _ _. cbn [st fst size cur waiters].
    eapply notify_spec in N; [| assumption | assumption | eassumption]. apply N.
  - intros _ Hfx Hh.
    destruct (waiters s) as [|[i m] rest] eqn:W; cbn [in_q].
    + destruct (in_q id (doomed s)); cbn [st fst size cur waiters]; rewrite ?W; exact I.
    + cbn [is_front remove_q]. destruct (N.eqb i id) eqn:Ei.
      * (* the cancelled waiter is the front *)
        cbn [andb]. destruct (cancel_guard fx (size s) (cur s)) eqn:G.
        -- destr_notify. cbn [st fst size cur waiters]. inversion Hw; subst.
           eapply notify_spec in N; [| assumption | assumption | eassumption]. apply N.
        -- cbn [st fst size cur waiters]. destruct rest as [|[j k] rest']; [exact I|].
           cbn [head_free]. inversion Hw as [|? ? _ Hr]; subst. inversion Hr as [|? ? Hk _]; subst.
           unfold wok in Hk; cbn [snd] in Hk. unfold cancel_guard in G.
           destruct Hfx as [-> | Hp].
           ++ lia.
           ++ inversion Hp as [|? ? _ Hp']; subst. inversion Hp' as [|? ? Hk' _]; subst.
              unfold wpos in Hk'; cbn [snd] in Hk'. destruct fx; lia.
      * (* not the front: the head stays *)
        cbn [andb]. destruct (in_q id rest).
        -- cbn [st fst size cur waiters head_free]. exact Hh.
        -- destruct (in_q id (doomed s)); cbn [st fst size cur waiters]; rewrite ?W; exact Hh.
Qed.

Lemma step_doomed_ok fx s o :
  match o with OResize _ => False | _ => True end ->
  doomed_ok s -> doomed_ok (st (step fx s o)).
Proof.
  unfold doomed_ok. intros Ho Hd. destruct o as [n|n|n|n|n|id]; cbn [step] in *; try contradiction.
  - destruct (n <? 0); [exact Hd|]. destruct (fits s n); [exact Hd|].
    destruct (size s <? n) eqn:E; [| exact Hd].
    cbn [st fst size doomed]. apply Forall_snoc; [assumption | cbn [snd]; lia].
  - destruct (n <? 0); [exact Hd|]. destruct (fits s n); exact Hd.
  - destruct (n <? 0); [exact Hd|]. destruct (sub64 (cur s) n <? 0); [exact Hd|].
    destr_notify. exact Hd.
  - destruct (n <? 0); exact Hd.
  - destruct (in_q id (waiters s)).
    + destruct (is_front id (waiters s) && cancel_guard fx (size s) (cur s)); [destr_notify|]; exact Hd.
    + destruct (in_q id (doomed s)); [| exact Hd].
      cbn [st fst size doomed]. apply remove_q_Forall. exact Hd.
Qed.

(** Barging is impossible: the fast path and TryAcquire succeed only with an empty queue. *)
Lemma step_no_barging fx s o :
  res (step fx s o) = RFast \/ res (step fx s o) = RTry true -> waiters s = [].
Proof.
  destruct o as [n|n|n|n|n|id]; cbn [step].
  - destruct (n <? 0); [cbn; intros [?|?]; discriminate|].
    unfold fits. destruct (waiters s); [reflexivity|]. cbn [is_nil]. rewrite andb_false_r.
    destruct (size s <? n); cbn; intros [?|?]; discriminate.
  - destruct (n <? 0); [cbn; intros [?|?]; discriminate|].
    unfold fits. destruct (waiters s); [reflexivity|]. cbn [is_nil]. rewrite andb_false_r.
    cbn; intros [?|?]; discriminate.
  - destruct (n <? 0); [cbn; intros [?|?]; discriminate|].
    destruct (sub64 (cur s) n <? 0); [cbn; intros [?|?]; discriminate|].
    destr_notify. cbn; intros [?|?]; discriminate.
  - destruct (n <? 0); cbn; intros [?|?]; discriminate.
  - destr_notify. cbn; intros [?|?]; discriminate.
  - destruct (in_q id (waiters s)).
    + destruct (is_front id (waiters s) && cancel_guard fx (size s) (cur s)); [destr_notify|];
        cbn; intros [?|?]; discriminate.
    + destruct (in_q id (doomed s)); cbn; intros [?|?]; discriminate.
Qed.

(** ** Histories *)

Lemma no_overadmit : forall fx h s,
  bounded s -> wf s -> in_range fx s h -> Forall admit_ok (events fx s h).
Proof.
  induction h as [|o h IH]; intros s Hb Hw Hr; cbn [events]; [constructor|].
  destruct Hr as (Ho & Hb' & Hr). apply Forall_app. split.
  - apply step_admit_ok; assumption.
  - apply IH; [assumption | apply step_wf; assumption | assumption].
Qed.

Lemma cur_accounting : forall fx h s,
  bounded s -> wf s -> in_range fx s h -> clean fx s h ->
  cur (run fx s h) = cur s + sum_ev (events fx s h) + forced h - released h.
Proof.
  induction h as [|o h IH]; intros s Hb Hw Hr Hc; cbn [run events]; [cbn; lia|].
  destruct Hr as (Ho & Hb' & Hr). destruct Hc as (Hp & Hc).
  rewrite IH by (assumption || apply step_wf; assumption).
  rewrite (step_accounting fx s o) by assumption.
  rewrite sum_ev_app. destruct o; cbn [forced released delta]; lia.
Qed.

Lemma head_blocked_gen : forall fx h s,
  bounded s -> wf s -> in_range fx s h -> clean fx s h ->
  fx = true \/ (Forall wpos (waiters s) /\ acquire_weights (fun n => 0 < n) h) ->
  head_ok s -> Forall head_ok (states fx s h).
Proof.
  induction h as [|o h IH]; intros s Hb Hw Hr Hc Hfx Hh; cbn [states]; [constructor|].
  destruct Hr as (Ho & Hb' & Hr). destruct Hc as (Hp & Hc).
  assert (Hh' : head_ok (st (step fx s o))).
  { apply step_head_ok; try assumption. destruct Hfx as [?|[? _]]; auto. }
  constructor; [exact Hh'|].
  apply IH; try assumption.
  - apply step_wf; assumption.
  - destruct Hfx as [?|[Hp' Ha]]; [left; assumption | right].
    inversion Ha; subst. split; [| assumption].
    apply step_wpos; assumption.
Qed.

Lemma doomed_blocked : forall fx h s,
  no_resize h -> doomed_ok s -> Forall doomed_ok (states fx s h).
Proof.
  induction h as [|o h IH]; intros s Hn Hd; cbn [states]; [constructor|].
  inversion Hn; subst.
  assert (Hd' : doomed_ok (st (step fx s o))) by (apply step_doomed_ok; assumption).
  constructor; [exact Hd' | apply IH; assumption].
Qed.

Lemma no_barging : forall fx h s,
  Forall (fun x => (snd x = RFast \/ snd x = RTry true) -> waiters (fst x) = [])
         ((fix tr (s : state) (h : list op) : list (state * result) :=
             match h with [] => [] | o :: h' => (s, res (step fx s o)) :: tr (st (step fx s o)) h' end) s h).
Proof.
  induction h as [|o h IH]; intros s; [constructor|].
  constructor; [cbn [fst snd]; apply step_no_barging | apply IH].
Qed.

Lemma init_bounded n : -L < n < L -> bounded (init n).
Proof. unfold bounded, init, L; cbn. lia. Qed.
Lemma init_wf n : wf (init n).
Proof. constructor. Qed.
Lemma init_head_ok n : head_ok (init n).
Proof. exact I. Qed.
Lemma init_doomed_ok n : doomed_ok (init n).
Proof. constructor. Qed.

(** Decidable versions, for the refutations and examples. *)
Definition bounded_b (s : state) : bool :=
  (- L <? size s) && (size s <? L) && (- L <? cur s) && (cur s <? L).
Definition op_bounded_b (o : op) : bool :=
  match o with
  | OAcquire n | OTry n | ORelease n | OForce n | OResize n => (- L <? n) && (n <? L)
  | OCancel _ => true
  end.
Definition is_panic (r : result) : bool := match r with RPanic => true | _ => false end.
Fixpoint good_b (fx : bool) (s : state) (h : list op) : bool :=
  match h with
  | [] => true
  | o :: h' => op_bounded_b o && negb (is_panic (res (step fx s o))) && bounded_b (st (step fx s o))
               && good_b fx (st (step fx s o)) h'
  end.

Lemma good_b_sound : forall fx h s, good_b fx s h = true -> in_range fx s h /\ clean fx s h.
Proof.
  induction h as [|o h IH]; intros s H; cbn [good_b in_range clean] in *; [split; exact I|].
  apply andb_prop in H. destruct H as [H H4]. apply andb_prop in H. destruct H as [H H3].
  apply andb_prop in H. destruct H as [H1 H2].
  apply IH in H4. destruct H4 as [A B].
  assert (op_bounded o).
  { destruct o; cbn in *; try exact I; lia. }
  assert (bounded (st (step fx s o))).
  { unfold bounded, bounded_b in *. lia. }
  assert (res (step fx s o) <> RPanic).
  { intros E. rewrite E in H2. discriminate. }
  split; [split; [| split] | split]; assumption.
Qed.

Lemma head_ok_b_false s : head_ok_b s = false -> ~ head_ok s.
Proof.
  unfold head_ok_b, head_ok, head_free. destruct (waiters s) as [|[i n] r]; [discriminate|].
  intros; lia.
Qed.

Definition doomed_ok_b (s : state) : bool := forallb (fun w => size s <? snd w) (doomed s).
Lemma doomed_ok_b_false s : doomed_ok_b s = false -> ~ doomed_ok s.
Proof.
  unfold doomed_ok_b, doomed_ok. intros H D.
  assert (forallb (fun w => size s <? snd w) (doomed s) = true).
  { apply forallb_forall. intros x Hx. rewrite Forall_forall in D. specialize (D x Hx). lia. }
  congruence.
Qed.

(** F4 (old guard [>], repaired in /repo 61b3423d): cancel of the front waiter with size = cur
    leaves a weight-0 waiter at the head. *)
Definition f4_history : list op := [OAcquire 1; OAcquire 1; OAcquire 0; OCancel 1%N].

Lemma head_blocked_refuted :
  exists h, in_range false (init 1) h /\ clean false (init 1) h /\ ~ head_ok (run false (init 1) h).
Proof.
  exists f4_history. split; [| split].
  - apply good_b_sound. vm_compute. reflexivity.
  - apply good_b_sound. vm_compute. reflexivity.
  - apply head_ok_b_false. vm_compute. reflexivity.
Qed.

(** F13: a caller that took the "doomed" branch stays blocked after SetSize made room for it. *)
Definition doomed_history : list op := [OAcquire 2; OResize 5].

Lemma doomed_blocked_refuted :
  exists h, in_range code_guard (init 1) h /\ clean code_guard (init 1) h /\
            waiters (run code_guard (init 1) h) = [] /\ cur (run code_guard (init 1) h) = 0 /\
            ~ doomed_ok (run code_guard (init 1) h).
Proof.
  exists doomed_history. split; [| split; [| split; [| split]]].
  - apply good_b_sound. vm_compute. reflexivity.
  - apply good_b_sound. vm_compute. reflexivity.
  - vm_compute. reflexivity.
  - vm_compute. reflexivity.
  - apply doomed_ok_b_false. vm_compute. reflexivity.
Qed.

(** Why [clean] is needed: a Release that panics has already lowered s.cur and skips notifyWaiters. *)
Lemma head_blocked_needs_clean :
  exists h, in_range code_guard (init 1) h /\ acquire_weights (fun n => 0 < n) h /\
            ~ head_ok (run code_guard (init 1) h).
Proof.
  exists [OAcquire 1; OAcquire 1; ORelease 2]. split; [| split].
  - cbn. unfold bounded, L; cbn. repeat split; lia.
  - repeat constructor.
  - apply head_ok_b_false. vm_compute. reflexivity.
Qed.

(** Why [bounded] is needed: with s.cur = MaxInt64 and a negative size the subtraction wraps. *)
Lemma no_overadmit_needs_bounded :
  exists h, clean code_guard (init (-2)) h /\ ~ Forall admit_ok (events code_guard (init (-2)) h).
Proof.
  exists [OForce 9223372036854775807; OTry 5]. split.
  - cbn. repeat split; discriminate.
  - intros H. change (events code_guard (init (-2)) [OForce 9223372036854775807; OTry 5])
      with [EAdmit None 5 9223372036854775807 (-2)] in H.
    inversion H as [|? ? A _]; subst. unfold admit_ok in A. lia.
Qed.
