(** M9a [Acks] -- acknowledgement bookkeeping of pkg/rpc/udp/acks.go ([AcksToSend]).
    Executable definitions only; proofs live in AcksProofs.v.

    Transcription conventions
    - [uint32] values are [N]; every place where the Go code computes [x+1], [x-1] or [x++]
      on a [uint32] is written with [succ32]/[pred32] (explicit wrap-around modulo 2^32).
    - The singly linked list [firstRange -> next -> ...] is a Coq [list] of [(ackFrom, ackTo)];
      the in-place updates of [AddAckRange] (relinking [prevRange.next], overwriting a node)
      become the rebuilt list; the nodes before [prevRange] are the untouched list prefix.
    - [MaxAckSet] comes from the translator output [Gen/AcksConsts.v] (regenerated from
      /repo on every run). *)
From Coq Require Export List NArith Bool.
From TLV Require Export Gen.AcksConsts.
Export ListNotations.
Open Scope N_scope.

Definition M32 : N := 4294967296.                 (* 2^32 *)
Definition succ32 (x : N) : N := (x + 1) mod M32.  (* x+1 on uint32 *)
Definition pred32 (x : N) : N := (x + (M32 - 1)) mod M32. (* x-1 on uint32 *)

Definition range := (N * N)%type.                  (* ackFrom, ackTo *)

Record acks := mkAcks { ackPrefix : N; ranges : list range }.

Definition acks_empty : acks := mkAcks 0 [].

(** The loop of the first branch of [AddAckRange]:
    [for a.firstRange != nil && a.firstRange.ackFrom <= a.ackPrefix { ... }] *)
Fixpoint absorb (p : N) (rs : list range) : acks :=
  match rs with
  | [] => mkAcks p []
  | (rf, rt) :: rest =>
      if rf <=? p then absorb (N.max p (succ32 rt)) rest
      else mkAcks p rs
  end.

(** The [for { ... }] loop of [AddAckRange] from the position [tmpRange] on; the result is the
    list that replaces the part of the chain starting at [tmpRange] ([prevRange.next] or
    [a.firstRange]).  [f] is the (possibly lowered) [ackFrom], [t] is [ackTo]. *)
Fixpoint ins (f t : N) (rs : list range) : list range :=
  match rs with
  | [] => [(f, t)]                                           (* tmpRange == nil *)
  | (rf, rt) :: rest =>
      if succ32 t <? rf then (f, t) :: rs                    (* ackTo+1 < tmpRange.ackFrom *)
      else if succ32 rt <? f then (rf, rt) :: ins f t rest   (* tmpRange.ackTo+1 < ackFrom *)
      else
        match rest with
        | [] => [(N.min rf f, N.max rt t)]                   (* tmpRange.next == nil *)
        | (nf, _) :: _ =>
            if succ32 t <? nf then (N.min rf f, N.max rt t) :: rest
            else ins (N.min rf f) t rest                     (* delete tmpRange, go on *)
        end
  end.

Definition add (f t : N) (a : acks) : acks :=
  if f <=? ackPrefix a then
    absorb (N.max (ackPrefix a) (succ32 t)) (ranges a)
  else
    match ranges a with
    | [] => mkAcks (ackPrefix a) [(f, t)]                    (* a.firstRange == nil *)
    | rs => mkAcks (ackPrefix a) (ins f t rs)
    end.

Definition run_from (a : acks) (ops : list range) : acks :=
  fold_left (fun a op => add (fst op) (snd op) a) ops a.
Definition run (ops : list range) : acks := run_from acks_empty ops.

(** ** BuildAck *)

Record ack_hdr := mkAckHdr {
  ah_prefix : option N;          (* PacketAckPrefix, if flag 13 *)
  ah_range  : option range;      (* PacketAckFrom/PacketAckTo, if flag 14 *)
  ah_set    : option (list N)    (* PacketAckSet, if flag 15 *)
}.

(** [for seqNum := from; seqNum <= to && len(set) < MaxAckSet; seqNum++]; [room] = MaxAckSet - len(set) *)
Fixpoint fill (room : nat) (cur to : N) : list N :=
  match room with
  | O => []
  | S r => if cur <=? to then cur :: fill r (succ32 cur) to else []
  end.

(** the outer loop over [tmpRange.next], [tmpRange.next.next], ... *)
Fixpoint ack_set (room : nat) (rs : list range) : list N :=
  match rs with
  | [] => []
  | (f, t) :: rest =>
      let l := fill room f t in
      l ++ ack_set (room - length l) rest
  end.

Definition build_ack (a : acks) : ack_hdr :=
  let p := if 0 <? ackPrefix a then Some (pred32 (ackPrefix a)) else None in
  match ranges a with
  | [] => mkAckHdr p None None
  | (f, t) :: rest =>
      let s := ack_set (N.to_nat MaxAckSet) rest in
      mkAckHdr p (Some (f, t)) (match s with [] => None | _ => Some s end)
  end.

(** ** BuildNegativeAck *)

(** [for tmpRange.next != nil && len(nack) < MaxAckSet]; [room] = MaxAckSet - len(nack), [pt] = tmpRange.ackTo *)
Fixpoint gaps (room : nat) (pt : N) (rest : list range) : list range :=
  match room, rest with
  | S r, (nf, nt) :: rest' => (succ32 pt, pred32 nf) :: gaps r nt rest'
  | _, _ => []
  end.

(** [None]: [req.Ranges] left untouched (no holes) *)
Definition build_nack (a : acks) : option (list range) :=
  match ranges a with
  | [] => None
  | (f, t) :: rest =>
      Some ((ackPrefix a, pred32 f) :: gaps (N.to_nat MaxAckSet - 1) t rest)
  end.

(** ** Meaning *)

Definition in_range (r : range) (n : N) : Prop := fst r <= n <= snd r.
Definition in_ranges (rs : list range) (n : N) : Prop := exists r, In r rs /\ in_range r n.

(** the acknowledged set represented by a state *)
Definition mem (a : acks) (n : N) : Prop := n < ackPrefix a \/ in_ranges (ranges a) n.

(** numbers acknowledged by a header: everything <= PacketAckPrefix, [PacketAckFrom..PacketAckTo], PacketAckSet *)
Definition hdr_acks (h : ack_hdr) (n : N) : Prop :=
  (exists p, ah_prefix h = Some p /\ n <= p) \/
  (exists r, ah_range h = Some r /\ in_range r n) \/
  (exists s, ah_set h = Some s /\ In n s).

(** numbers whose resend is requested *)
Definition nack_requests (q : option (list range)) (n : N) : Prop :=
  exists l, q = Some l /\ in_ranges l n.

(** boolean versions used by the driver / examples *)
Definition in_rangeb (r : range) (n : N) : bool := (fst r <=? n) && (n <=? snd r).
Definition memb (a : acks) (n : N) : bool :=
  (n <? ackPrefix a) || existsb (fun r => in_rangeb r n) (ranges a).
