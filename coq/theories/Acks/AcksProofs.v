(** Proofs about the [Acks] model (C37). *)
From Coq Require Import ZArith Lia ZifyN ZifyNat ZifyBool.
From TLV Require Import Acks.AcksModel.
Ltac Zify.zify_post_hook ::= Z.div_mod_to_equations.
Open Scope N_scope.

(** Inputs covered by the theorems: a non-empty range whose upper end is not the last uint32
    (for [ackTo = 2^32-1] the Go expression [ackTo+1] wraps to 0, see [wrap_*] below). *)
Definition valid_op (op : range) : Prop := fst op <= snd op /\ snd op < M32 - 1.

(** [chain lo rs]: the ranges are non-empty, below 2^32-1, strictly above [lo], sorted, and
    separated by at least one missing number (disjoint and non-adjacent). *)
Fixpoint chain (lo : N) (rs : list range) : Prop :=
  match rs with
  | [] => True
  | (f, t) :: rest => lo < f /\ f <= t /\ t < M32 - 1 /\ chain (t + 1) rest
  end.

(** the representation invariant: [ackPrefix < firstRange.ackFrom], then a chain *)
Definition Inv (a : acks) : Prop := ackPrefix a < M32 /\ chain (ackPrefix a) (ranges a).

Ltac b2p := repeat match goal with
  | H : (_ <? _) = true |- _ => apply N.ltb_lt in H
  | H : (_ <? _) = false |- _ => apply N.ltb_ge in H
  | H : (_ <=? _) = true |- _ => apply N.leb_le in H
  | H : (_ <=? _) = false |- _ => apply N.leb_gt in H
  end.

Lemma succ32_small : forall x, x < M32 - 1 -> succ32 x = x + 1.
Proof. intros x H. unfold succ32, M32 in *. lia. Qed.

Lemma pred32_pos : forall x, 0 < x -> x < M32 -> pred32 x = x - 1.
Proof. intros x H1 H2. unfold pred32, M32 in *. lia. Qed.

Lemma in_ranges_nil : forall n, ~ in_ranges [] n.
Proof. intros n [r [[] _]]. Qed.

Lemma in_ranges_cons : forall r rs n, in_ranges (r :: rs) n <-> in_range r n \/ in_ranges rs n.
Proof.
  intros r rs n. unfold in_ranges. split.
  - intros [x [[E | I] H]]; [subst; now left | right; eauto].
  - intros [H | [x [I H]]]; [exists r | exists x]; simpl; auto.
Qed.

Lemma chain_weaken : forall rs lo lo', lo' <= lo -> chain lo rs -> chain lo' rs.
Proof. intros [| [f t] rest] lo lo' L; cbn [chain]; [auto | intros (A & B & C & E); repeat split; auto; lia]. Qed.

Lemma chain_lb : forall rs lo n, chain lo rs -> in_ranges rs n -> lo < n.
Proof.
  induction rs as [| [f t] rest IH]; intros lo n C I.
  - now apply in_ranges_nil in I.
  - cbn [chain] in C. destruct C as (A & B & C & E).
    apply in_ranges_cons in I. destruct I as [I | I].
    + unfold in_range in I; cbn [fst snd] in I. lia.
    + specialize (IH _ _ E I). lia.
Qed.

(** ** AddAckRange *)

Lemma absorb_spec : forall rs lo p, chain lo rs -> p < M32 ->
  Inv (absorb p rs) /\ p <= ackPrefix (absorb p rs) /\
  forall n, mem (absorb p rs) n <-> (n < p \/ in_ranges rs n).
Proof.
  induction rs as [| [f t] rest IH]; intros lo p C P; cbn [absorb].
  - unfold Inv, mem; cbn [ackPrefix ranges chain]. repeat split; try lia; tauto.
  - cbn [chain] in C. destruct C as (A & B & C & E).
    destruct (f <=? p) eqn:L.
    + rewrite (succ32_small t C).
      destruct (IH (t + 1) (N.max p (t + 1)) E ltac:(lia)) as (I1 & I2 & I3).
      split; [exact I1 | split; [lia |]].
      intro n. rewrite I3, in_ranges_cons. unfold in_range; cbn [fst snd]. apply N.leb_le in L. intuition lia.
    + unfold Inv, mem; cbn [ackPrefix ranges chain]. repeat split; try lia; try tauto; auto.
Qed.

Lemma ins_spec : forall rs lo f t, chain lo rs -> lo < f -> f <= t -> t < M32 - 1 ->
  chain lo (ins f t rs) /\ forall n, in_ranges (ins f t rs) n <-> (f <= n <= t \/ in_ranges rs n).
Proof.
  induction rs as [| [rf rt] rest IH]; intros lo f t C LF FT T.
  - cbn [ins chain]. split; [repeat split; auto |].
    intro n. rewrite in_ranges_cons. unfold in_range; cbn [fst snd]. tauto.
  - cbn [chain] in C. destruct C as (A & B & C & E).
    cbn [ins]. rewrite (succ32_small t T), (succ32_small rt C).
    destruct (t + 1 <? rf) eqn:L1.
    { split.
      - cbn [chain]. repeat split; auto; lia.
      - intro n. rewrite !in_ranges_cons. unfold in_range; cbn [fst snd]. tauto. }
    destruct (rt + 1 <? f) eqn:L2.
    { destruct (IH (rt + 1) f t E ltac:(lia) FT T) as (I1 & I2). split.
      - cbn [chain]. repeat split; auto.
      - intro n. rewrite !in_ranges_cons, I2. unfold in_range; cbn [fst snd]. tauto. }
    destruct rest as [| [nf nt] rest'].
    { split.
      - cbn [chain]. repeat split; lia.
      - intro n. rewrite !in_ranges_cons. unfold in_range; cbn [fst snd].
        pose proof (in_ranges_nil n). b2p. intuition lia. }
    destruct (t + 1 <? nf) eqn:L3.
    { assert (E' := E). cbn [chain] in E'. destruct E' as (A2 & B2 & C2 & E2). split.
      - cbn [chain]. repeat split; auto; lia.
      - intro n. rewrite !in_ranges_cons. unfold in_range; cbn [fst snd]. b2p. intuition lia. }
    assert (E' := E). cbn [chain] in E'. destruct E' as (A2 & B2 & C2 & E2).
    assert (W : chain lo ((nf, nt) :: rest')) by (apply (chain_weaken _ (rt + 1)); [lia | exact E]).
    b2p. destruct (IH lo (N.min rf f) t W ltac:(lia) ltac:(lia) T) as (I1 & I2).
    split; [exact I1 |].
    intro n. rewrite I2, (in_ranges_cons (rf, rt)). unfold in_range; cbn [fst snd]. b2p. intuition lia.
Qed.

Lemma add_low : forall a f t, (f <=? ackPrefix a) = true ->
  add f t a = absorb (N.max (ackPrefix a) (succ32 t)) (ranges a).
Proof. intros a f t H. unfold add. now rewrite H. Qed.

Lemma add_high : forall a f t, (f <=? ackPrefix a) = false ->
  add f t a = mkAcks (ackPrefix a) (ins f t (ranges a)).
Proof. intros a f t H. unfold add. rewrite H. destruct (ranges a); reflexivity. Qed.

Lemma add_spec : forall a f t, Inv a -> f <= t -> t < M32 - 1 ->
  Inv (add f t a) /\ forall n, mem (add f t a) n <-> (f <= n <= t \/ mem a n).
Proof.
  intros a f t [P C] FT T.
  destruct (f <=? ackPrefix a) eqn:L.
  - rewrite (add_low _ _ _ L), (succ32_small t T).
    destruct (absorb_spec (ranges a) (ackPrefix a) (N.max (ackPrefix a) (t + 1)) C ltac:(lia)) as (I1 & I2 & I3).
    split; [exact I1 |]. intro n. rewrite I3. unfold mem. b2p. intuition lia.
  - rewrite (add_high _ _ _ L). b2p.
    destruct (ins_spec (ranges a) (ackPrefix a) f t C L FT T) as (I1 & I2).
    split; [split; cbn [ackPrefix ranges]; auto |].
    intro n. unfold mem; cbn [ackPrefix ranges]. rewrite I2. tauto.
Qed.

Lemma run_from_cons : forall a op ops, run_from a (op :: ops) = run_from (add (fst op) (snd op) a) ops.
Proof. reflexivity. Qed.

Theorem run_from_inv : forall ops a, Inv a -> Forall valid_op ops -> Inv (run_from a ops).
Proof.
  induction ops as [| [f t] ops IH]; intros a I V; [exact I |].
  rewrite run_from_cons. inversion V as [| ? ? [V1 V2] V3]; subst. cbn [fst snd] in *.
  apply IH; [| exact V3]. now apply add_spec.
Qed.

Theorem run_from_mem : forall ops a, Inv a -> Forall valid_op ops ->
  forall n, mem (run_from a ops) n <-> (mem a n \/ exists op, In op ops /\ in_range op n).
Proof.
  induction ops as [| [f t] ops IH]; intros a I V n.
  - cbn. split; [auto | intros [H | [op [[] _]]]; auto].
  - rewrite run_from_cons. inversion V as [| ? ? [V1 V2] V3]; subst. cbn [fst snd] in *.
    destruct (add_spec a f t I V1 V2) as (I1 & I2).
    rewrite (IH _ I1 V3), I2. split.
    + intros [[H | H] | [op [J H]]]; auto.
      * right. exists (f, t). split; [now left | exact H].
      * right. exists op. split; [now right | exact H].
    + intros [H | [op [[J | J] H]]]; auto.
      * subst op. left. left. exact H.
      * right. exists op. auto.
Qed.

Lemma Inv_empty : Inv acks_empty.
Proof. unfold Inv, acks_empty, M32; cbn. split; [lia | exact I]. Qed.

Lemma mem_empty : forall n, ~ mem acks_empty n.
Proof. intros n [H | H]; [cbn in H; lia | now apply in_ranges_nil in H]. Qed.

Theorem run_inv : forall ops, Forall valid_op ops -> Inv (run ops).
Proof. intros. apply run_from_inv; [apply Inv_empty | assumption]. Qed.

Theorem run_mem : forall ops, Forall valid_op ops ->
  forall n, mem (run ops) n <-> exists op, In op ops /\ in_range op n.
Proof.
  intros ops V n. unfold run. rewrite (run_from_mem ops _ Inv_empty V).
  pose proof (mem_empty n). tauto.
Qed.

(** ** BuildAck *)

Lemma fill_spec : forall room cur to n, to < M32 - 1 -> In n (fill room cur to) -> cur <= n <= to.
Proof.
  induction room as [| r IH]; intros cur to n T H; cbn [fill] in H; [contradiction |].
  destruct (cur <=? to) eqn:L; [| contradiction]. b2p.
  destruct H as [H | H]; [lia |].
  rewrite succ32_small in H by lia. apply IH in H; lia.
Qed.

Lemma fill_len : forall room cur to, (length (fill room cur to) <= room)%nat.
Proof.
  induction room as [| r IH]; intros cur to; cbn [fill]; [cbn; lia |].
  destruct (cur <=? to); cbn [length]; [specialize (IH (succ32 cur) to) |]; lia.
Qed.

Lemma ack_set_spec : forall rs room lo n, chain lo rs -> In n (ack_set room rs) -> in_ranges rs n.
Proof.
  induction rs as [| [f t] rest IH]; intros room lo n C H; cbn [ack_set] in H; [contradiction |].
  cbn [chain] in C. destruct C as (A & B & C & E).
  apply in_ranges_cons. apply in_app_or in H. destruct H as [H | H].
  - left. apply fill_spec in H; auto.
  - right. eapply IH; eauto.
Qed.

Lemma ack_set_len : forall rs room, (length (ack_set room rs) <= room)%nat.
Proof.
  induction rs as [| [f t] rest IH]; intros room; cbn [ack_set]; [cbn; lia |].
  rewrite app_length. pose proof (fill_len room f t). specialize (IH (room - length (fill room f t))%nat). lia.
Qed.

Theorem build_ack_sound : forall a, Inv a -> forall n, hdr_acks (build_ack a) n -> mem a n.
Proof.
  intros [p rs] [P C] n H. cbn [ackPrefix ranges] in *. unfold mem; cbn [ackPrefix ranges].
  unfold build_ack in H; cbn [ackPrefix ranges] in H.
  assert (HP : forall q, (if 0 <? p then Some (pred32 p) else None) = Some q -> n <= q -> n < p).
  { intros q Hq Hn. destruct (0 <? p) eqn:L; [| discriminate]. b2p. injection Hq as <-.
    rewrite pred32_pos in Hn by lia. lia. }
  destruct rs as [| [f t] rest].
  - destruct H as [(q & Hq & Hn) | [(r & Hr & _) | (s & Hs & _)]]; cbn in Hq || cbn in Hr || cbn in Hs;
      try discriminate. left. eauto.
  - cbn [chain] in C. destruct C as (A & B & C & E).
    destruct H as [(q & Hq & Hn) | [(r & Hr & Hn) | (s & Hs & Hn)]].
    + left. cbn [ah_prefix] in Hq. eauto.
    + cbn [ah_range] in Hr. injection Hr as <-. right. apply in_ranges_cons. now left.
    + cbn [ah_set] in Hs. right. apply in_ranges_cons. right.
      apply (ack_set_spec rest (N.to_nat MaxAckSet) (t + 1)); [exact E |].
      destruct (ack_set (N.to_nat MaxAckSet) rest); [discriminate |]. now injection Hs as <-.
Qed.

Theorem build_ack_bound : forall a s, ah_set (build_ack a) = Some s ->
  (0 < length s <= N.to_nat MaxAckSet)%nat.
Proof.
  intros [p rs] s H. unfold build_ack in H; cbn [ackPrefix ranges] in H.
  destruct rs as [| [f t] rest]; cbn [ah_set] in H; [discriminate |].
  pose proof (ack_set_len rest (N.to_nat MaxAckSet)) as L.
  destruct (ack_set (N.to_nat MaxAckSet) rest) eqn:E; [discriminate |]. injection H as <-.
  cbn [length] in *. lia.
Qed.

(** the header's first two fields are exact: everything below [ackPrefix] and the whole first range *)
Theorem build_ack_prefix_exact : forall a, Inv a -> forall n,
  n < ackPrefix a -> exists q, ah_prefix (build_ack a) = Some q /\ n <= q.
Proof.
  intros [p rs] [P C] n H. cbn [ackPrefix ranges] in *. unfold build_ack; cbn [ackPrefix ranges].
  assert (L : (0 <? p) = true) by (apply N.ltb_lt; lia). rewrite L.
  exists (pred32 p). rewrite pred32_pos by lia. destruct rs as [| [f t] rest]; cbn [ah_prefix]; split; auto; lia.
Qed.

Theorem build_ack_first_range : forall a, match ranges a with
  | [] => ah_range (build_ack a) = None /\ ah_set (build_ack a) = None
  | r :: _ => ah_range (build_ack a) = Some r end.
Proof. intros [p [| [f t] rest]]; cbn; auto. Qed.

(** ** BuildNegativeAck *)

Lemma gaps_spec : forall room rest pt n, pt < M32 - 1 -> chain (pt + 1) rest ->
  in_ranges (gaps room pt rest) n -> pt < n /\ ~ in_ranges rest n.
Proof.
  induction room as [| r IH]; intros rest pt n T C H; cbn [gaps] in H.
  - now apply in_ranges_nil in H.
  - destruct rest as [| [nf nt] rest']; [now apply in_ranges_nil in H |].
    cbn [chain] in C. destruct C as (A & B & C & E).
    apply in_ranges_cons in H. rewrite in_ranges_cons. unfold in_range in *; cbn [fst snd] in *.
    rewrite succ32_small in H by lia. rewrite pred32_pos in H by (unfold M32 in *; lia).
    destruct H as [H | H].
    + split; [lia |]. intros [J | J]; [lia |]. apply (chain_lb _ _ _ E) in J. lia.
    + apply IH in H; auto. destruct H as [H1 H2]. split; [lia |]. intros [J | J]; [lia | auto].
Qed.

Lemma gaps_len : forall room pt rest, (length (gaps room pt rest) <= room)%nat.
Proof.
  induction room as [| r IH]; intros pt rest; cbn [gaps]; [cbn; lia |].
  destruct rest as [| [nf nt] rest']; cbn [length]; [lia |]. specialize (IH nt rest'). lia.
Qed.

Lemma gaps_wf : forall room rest pt, pt < M32 - 1 -> chain (pt + 1) rest ->
  Forall (fun r => fst r <= snd r /\ snd r < M32 - 1) (gaps room pt rest).
Proof.
  induction room as [| r IH]; intros rest pt T C; cbn [gaps]; [constructor |].
  destruct rest as [| [nf nt] rest']; [constructor |].
  cbn [chain] in C. destruct C as (A & B & C & E).
  constructor; [| apply IH; auto].
  cbn [fst snd]. rewrite succ32_small by lia. rewrite pred32_pos by (unfold M32 in *; lia). lia.
Qed.

Lemma build_nack_cons : forall p f t rest,
  build_nack (mkAcks p ((f, t) :: rest)) = Some ((p, pred32 f) :: gaps (N.to_nat MaxAckSet - 1) t rest).
Proof. reflexivity. Qed.

Theorem build_nack_sound : forall a, Inv a -> forall n, nack_requests (build_nack a) n -> ~ mem a n.
Proof.
  intros [p rs] [P C] n (l & Hl & H). cbn [ackPrefix ranges] in *.
  unfold mem; cbn [ackPrefix ranges].
  destruct rs as [| [f t] rest]; [discriminate |]. rewrite build_nack_cons in Hl.
  set (room := (N.to_nat MaxAckSet - 1)%nat) in Hl. clearbody room. injection Hl as <-.
  cbn [chain] in C. destruct C as (A & B & C & E).
  apply in_ranges_cons in H. rewrite in_ranges_cons. unfold in_range in *; cbn [fst snd] in *.
  destruct H as [H | H].
  - rewrite pred32_pos in H by lia.
    intros [J | [J | J]]; [lia | lia |]. apply (chain_lb _ _ _ E) in J. lia.
  - apply gaps_spec in H; auto. destruct H as [H1 H2]. intros [J | [J | J]]; [lia | lia | auto].
Qed.

Lemma MaxAckSet_pos : 1 <= MaxAckSet.
Proof. vm_compute. discriminate. Qed.

Theorem build_nack_bound : forall a l, build_nack a = Some l ->
  (0 < length l <= N.to_nat MaxAckSet)%nat.
Proof.
  intros [p rs] l H.
  destruct rs as [| [f t] rest]; [discriminate |]. rewrite build_nack_cons in H.
  pose proof (gaps_len (N.to_nat MaxAckSet - 1) t rest) as G.
  assert (M : (1 <= N.to_nat MaxAckSet)%nat) by (pose proof MaxAckSet_pos; lia).
  set (m := N.to_nat MaxAckSet) in *. clearbody m. injection H as <-.
  change (length ((p, pred32 f) :: gaps (m - 1) t rest)) with (S (length (gaps (m - 1) t rest))). lia.
Qed.

Theorem build_nack_wf : forall a l, Inv a -> build_nack a = Some l ->
  Forall (fun r => fst r <= snd r /\ snd r < M32 - 1) l.
Proof.
  intros [p rs] l [P C] H. cbn [ackPrefix ranges] in C, P.
  destruct rs as [| [f t] rest]; [discriminate |]. rewrite build_nack_cons in H.
  set (room := (N.to_nat MaxAckSet - 1)%nat) in H. clearbody room. injection H as <-.
  cbn [chain] in C. destruct C as (A & B & C & E).
  constructor; [| apply gaps_wf; auto].
  cbn [fst snd]. rewrite pred32_pos by lia. lia.
Qed.

Theorem build_nack_none : forall a, build_nack a = None <-> ranges a = [].
Proof. intros [p [| [f t] rest]]; cbn; split; intro; auto; discriminate. Qed.

(** ** Completeness of the headers when nothing is truncated by [MaxAckSet] *)

(** how many single numbers a list of ranges holds *)
Fixpoint span (rs : list range) : nat :=
  match rs with
  | [] => O
  | (f, t) :: rest => (S (N.to_nat (t - f)) + span rest)%nat
  end.

Lemma fill_fits : forall room cur to, cur <= to -> to < M32 - 1 -> (S (N.to_nat (to - cur)) <= room)%nat ->
  length (fill room cur to) = S (N.to_nat (to - cur)) /\ forall n, cur <= n <= to -> In n (fill room cur to).
Proof.
  induction room as [| r IH]; intros cur to L T R; [lia |].
  cbn [fill]. assert (E : (cur <=? to) = true) by (apply N.leb_le; lia). rewrite E.
  rewrite succ32_small by lia.
  destruct (N.eq_dec cur to) as [-> | NE].
  - destruct r as [| r']; cbn [fill].
    + split; [cbn [length]; lia |]. intros n Hn. left. lia.
    + assert (E2 : (to + 1 <=? to) = false) by (apply N.leb_gt; lia). rewrite E2.
      split; [cbn [length]; lia |]. intros n Hn. left. lia.
  - destruct (IH (cur + 1) to ltac:(lia) T ltac:(lia)) as [I1 I2]. split.
    + cbn [length]. rewrite I1. lia.
    + intros n Hn. destruct (N.eq_dec n cur) as [-> | NE2]; [now left | right; apply I2; lia].
Qed.

Lemma ack_set_complete : forall rs room lo n, chain lo rs -> (span rs <= room)%nat ->
  in_ranges rs n -> In n (ack_set room rs).
Proof.
  induction rs as [| [f t] rest IH]; intros room lo n C S H; [now apply in_ranges_nil in H |].
  cbn [chain] in C. destruct C as (A & B & C & E). cbn [span] in S. cbn [ack_set].
  destruct (fill_fits room f t B C ltac:(lia)) as [F1 F2].
  apply in_or_app. apply in_ranges_cons in H. destruct H as [H | H].
  - left. apply F2. exact H.
  - right. apply (IH _ (t + 1)); auto. rewrite F1. lia.
Qed.

Theorem build_ack_complete : forall a, Inv a -> (span (tl (ranges a)) <= N.to_nat MaxAckSet)%nat ->
  forall n, mem a n -> hdr_acks (build_ack a) n.
Proof.
  intros a I S n [H | H].
  - left. now apply build_ack_prefix_exact.
  - destruct a as [p rs]. destruct I as [P C]. cbn [ackPrefix ranges tl] in *.
    destruct rs as [| [f t] rest]; [now apply in_ranges_nil in H |].
    cbn [chain] in C. destruct C as (A & B & C & E). cbn [tl] in S.
    apply in_ranges_cons in H. destruct H as [H | H].
    + right. left. exists (f, t). split; [reflexivity | exact H].
    + right. right. pose proof (ack_set_complete rest _ (t + 1) n E S H) as J.
      unfold build_ack; cbn [ackPrefix ranges ah_set].
      set (room := N.to_nat MaxAckSet) in *. clearbody room.
      destruct (ack_set room rest) as [| x l] eqn:Q; [contradiction |].
      exists (x :: l). split; [reflexivity | exact J].
Qed.

Lemma gaps_complete : forall rest room pt n, pt < M32 - 1 -> chain (pt + 1) rest ->
  (length rest <= room)%nat -> pt < n -> ~ in_ranges rest n -> (exists r, In r rest /\ n < fst r) ->
  in_ranges (gaps room pt rest) n.
Proof.
  induction rest as [| [nf nt] rest' IH]; intros room pt n T C L P NI (r & Hr & Hn); [contradiction |].
  destruct room as [| room']; [cbn [length] in L; lia |]. cbn [length] in L.
  cbn [chain] in C. destruct C as (A & B & C & E). cbn [gaps].
  apply in_ranges_cons. rewrite in_ranges_cons in NI.
  unfold in_range in *; cbn [fst snd] in *.
  rewrite succ32_small by lia. rewrite pred32_pos by (unfold M32 in *; lia).
  destruct (n <? nf) eqn:Q; b2p; [left; lia | right].
  apply IH; auto; try lia; try tauto.
  destruct Hr as [<- | Hr]; [cbn [fst] in Hn; lia | eauto].
Qed.

Theorem build_nack_complete : forall a, Inv a -> (length (ranges a) <= N.to_nat MaxAckSet)%nat ->
  forall n, ~ mem a n -> (exists r, In r (ranges a) /\ n < fst r) -> nack_requests (build_nack a) n.
Proof.
  intros [p rs] [P C] L n NM (r & Hr & Hn). cbn [ackPrefix ranges] in *.
  destruct rs as [| [f t] rest]; [contradiction |]. rewrite build_nack_cons.
  cbn [length] in L. set (room := (N.to_nat MaxAckSet - 1)%nat). assert (LR : (length rest <= room)%nat) by (subst room; lia).
  clearbody room. eexists. split; [reflexivity |].
  cbn [chain] in C. destruct C as (A & B & C & E).
  unfold mem in NM; cbn [ackPrefix ranges] in NM. rewrite in_ranges_cons in NM.
  apply in_ranges_cons. unfold in_range in *; cbn [fst snd] in *.
  rewrite pred32_pos by lia.
  destruct (n <? f) eqn:Q; b2p; [left; lia | right].
  apply gaps_complete; auto; try lia; try tauto.
  destruct Hr as [<- | Hr]; [cbn [fst] in Hn; lia | eauto].
Qed.

(** ** Why [ackTo = 2^32-1] is excluded: [ackTo+1] wraps to 0 *)

Definition LAST32 : N := M32 - 1.

(** recorded but not represented: the range is dropped by the first branch ([max(prefix, 0)]) *)
Lemma wrap_loses_range : ~ mem (run [(0, LAST32)]) 7.
Proof. vm_compute. intros [H | (r & [] & _)]. discriminate. Qed.

(** the new range is linked in front of a smaller one: the chain is no longer sorted *)
Lemma wrap_breaks_order : ranges (run [(2, 3); (5, LAST32)]) = [(5, LAST32); (2, 3)].
Proof. vm_compute. reflexivity. Qed.

(** ... and the resend request built from that state asks for recorded numbers *)
Lemma wrap_nack_requests_member :
  nack_requests (build_nack (run [(2, 3); (5, LAST32)])) 2 /\ mem (run [(2, 3); (5, LAST32)]) 2.
Proof.
  split.
  - eexists. split; [vm_compute; reflexivity |]. exists (0, 4). split; [now left | vm_compute; split; discriminate].
  - right. exists (2, 3). split; [vm_compute; auto | vm_compute; split; discriminate].
Qed.

Lemma wrap_set_refuted : exists ops n, (exists op, In op ops /\ in_range op n) /\ ~ mem (run ops) n.
Proof.
  exists [(0, LAST32)], 7. split; [| exact wrap_loses_range].
  exists (0, LAST32). split; [now left | vm_compute; split; discriminate].
Qed.

Lemma wrap_inv_refuted : exists ops, Forall (fun op => fst op <= snd op) ops /\ ~ Inv (run ops).
Proof.
  exists [(2, 3); (5, LAST32)]. split; [repeat constructor; vm_compute; discriminate |].
  intros [_ C]. rewrite wrap_breaks_order in C. cbn [chain] in C. destruct C as (_ & _ & C & _).
  vm_compute in C. discriminate.
Qed.

Lemma wrap_nack_refuted : exists ops n, nack_requests (build_nack (run ops)) n /\ mem (run ops) n.
Proof. exists [(2, 3); (5, LAST32)], 2. exact wrap_nack_requests_member. Qed.

(** ** Corollaries in terms of the recorded operations *)

Theorem ack_only_recorded : forall ops, Forall valid_op ops ->
  forall n, hdr_acks (build_ack (run ops)) n -> exists op, In op ops /\ in_range op n.
Proof. intros ops V n H. apply (run_mem ops V). apply build_ack_sound; [now apply run_inv | exact H]. Qed.

Theorem nack_only_unrecorded : forall ops, Forall valid_op ops ->
  forall n, nack_requests (build_nack (run ops)) n -> ~ exists op, In op ops /\ in_range op n.
Proof.
  intros ops V n H J. apply (run_mem ops V) in J. revert J.
  apply build_nack_sound; [now apply run_inv | exact H].
Qed.

Lemma Inv_meaning : forall p f1 t1 f2 t2 rest,
  Inv (mkAcks p ((f1, t1) :: (f2, t2) :: rest)) ->
  p < f1 /\ f1 <= t1 /\ t1 + 1 < f2 /\ f2 <= t2 /\ t2 < M32 - 1 /\ Inv (mkAcks (t1 + 1) ((f2, t2) :: rest)).
Proof.
  intros p f1 t1 f2 t2 rest [P C]. cbn [ackPrefix ranges chain] in *.
  destruct C as (A & B & C & A2 & B2 & C2 & E).
  repeat split; auto; cbn [ackPrefix ranges chain]; unfold M32 in *; try lia.
Qed.
