(** Proofs about the function-result transcoder model (C07): corollaries of the TL1 round trip. *)
From Coq Require Import Lia.
From TLV Require Import Prim.PrimModel Tl1.Tl1Model Tl1.Tl1Proofs Obj.ObjResModel.
Open Scope N_scope.

Theorem tr11_identity san s : wf_schema s = true ->
  forall fr q v b rest fuel, (vdepth v <= fuel)%nat ->
    enc1 san s (fr_ty fr) (fr_bare fr) (result_env q fr) v = Some b ->
    tr11 fuel san s fr q (b ++ rest) = TrOk (length b) (Some b).
Proof.
  intros Hwf fr q v b rest fuel Hd H. unfold tr11, read_result, write_result.
  rewrite (enc1_dec1 san s Hwf v fuel Hd _ _ _ b rest H).
  rewrite app_length, Nat.add_sub.
  destruct san; [rewrite (enc1_strict_weaken _ _ _ _ _ _ H)|rewrite H]; reflexivity.
Qed.

(** the transcoder path is the typed path, by definition of both *)
Theorem tr11_is_typed_path fuel san s fr q b :
  tr11 fuel san s fr q b =
  match read_result fuel san s fr q b with
  | Some (Ok (v, rest)) => TrOk (length b - length rest) (write_result s fr q v)
  | Some Eof => TrEof
  | Some Reject => TrReject
  | None => TrFuel
  end.
Proof. reflexivity. Qed.

(** the result environment depends only on the request fields the result's nat arguments name *)
Theorem result_env_fields fr fs1 fs2 :
  (forall i, In (NField i) (fr_args fr) -> field_nat fs1 i = field_nat fs2 i) ->
  result_env (VStruct fs1) fr = result_env (VStruct fs2) fr.
Proof.
  intros H. unfold result_env, eval_args. apply map_ext_in. intros a Ha.
  destruct a; cbn [eval_natarg]; try reflexivity. now apply H.
Qed.
