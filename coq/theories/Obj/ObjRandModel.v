(** C18 -- random filling.  Executable model of the generated FillRandom methods
    (internal/puregen/gengo/qt_struct.qtpl randomFields, qt_union.qtpl, qt_brackets.qtpl,
    qt_dict.qtpl, qt_maybe.qtpl, type_rw_*.go typeRandomCode) and of RandGenerator
    (pkg/basictl/basictl.go) over the schema IR of Tl1Model, extended by the facts only the
    Go generator knows (dumped from the real generator by the overlay
    overlay/internal/puregen/gengo/verif_objdump_test.go on every run):
      - which struct fields are stored by pointer ([xf_rec] = Field.recursive): FillRandom brackets
        them with IncreaseDepth / DecreaseDepth,
      - how a [#] field is used by later fields ([xf_use] = pure.GetNatFieldUsage(i,true,true)):
        RandomFieldMask over the used bits / RandomSize instead of RandomUint,
      - which unions are generated as Maybe (own FillRandom in qt_maybe.qtpl).
    The random source is a stream of raw 64-bit words ([rsrc]: position -> word); the four
    methods of basictl.Rand are projections of one word each, exactly as the scripted source
    [srand] of harness/go/gendrv/ops_tl1.go derives them; [splitmix] is that source.
    The model consumes the stream in the order the generated code draws.
    Executable definitions only. *)
From Coq Require Export List NArith ZArith Bool.
From TLV Require Export Prim.PrimModel Tl1.Tl1Model Gen.ObjConsts.
Export ListNotations.
Open Scope N_scope.

(** * The random source *)
Definition rsrc := N -> N.

Definition two64 : N := 18446744073709551616.
Definition two32 : N := 4294967296.

(** splitmix64 (ops_tl1.go [srand.next]); the i-th word (i = 0 for the first call) *)
Definition splitmix (seed : N) (i : N) : N :=
  let z0 := (seed + (i + 1) * 11400714819323198485) mod two64 in          (* 0x9e3779b97f4a7c15 *)
  let z1 := (N.lxor z0 (z0 / 1073741824) * 13787848793156543929) mod two64 in   (* >>30, 0xbf58476d1ce4e5b9 *)
  let z2 := (N.lxor z1 (z1 / 134217728) * 10723151780598845931) mod two64 in    (* >>27, 0x94d049bb133111eb *)
  N.lxor z2 (z2 / 2147483648).                                                  (* >>31 *)

Definition r_u32 (raw : N) : N := (raw / two32) mod two32.                 (* Uint32 = next()>>32 *)
Definition r_i31 (raw : N) : N := (raw / 8589934592) mod 2147483648.       (* Int31 = next()>>33 *)
Definition r_i63 (raw : N) : N := (raw / 2) mod 9223372036854775808.       (* Int63 = next()>>1 *)

(** NormFloat64 of [srand] = float64(int64(next()>>11) - 2^52) / 2^50: the exact dyadic
    rational (sign, m) with value (-1)^sign * m * 2^-50, 0 <= m <= 2^52. *)
Definition r_norm (raw : N) : bool * N :=
  let n53 := (raw / 2048) mod 9007199254740992 in
  if 4503599627370496 <=? n53 then (false, n53 - 4503599627370496) else (true, 4503599627370496 - n53).

(** IEEE-754 binary64 bit pattern of (-1)^sg * m * 2^-50 (exact: m has at most 53 bits) *)
Definition f64_bits (sg : bool) (m : N) : N :=
  match m with
  | N0 => 0
  | _ =>
      let l := N.size m in                                   (* bit length, 1..53 *)
      let frac := (m - 2 ^ (l - 1)) * 2 ^ (53 - l) in
      ((if sg then 9223372036854775808 else 0) + (l + 972) * 4503599627370496 + frac) mod two64
  end.

(** float32(x) of the same number: round to nearest, ties to even, 24-bit significand *)
Definition f32_bits (sg : bool) (m : N) : N :=
  match m with
  | N0 => 0
  | _ =>
      let l := N.size m in
      let '(q, l') :=
        if l <=? 24 then (m * 2 ^ (24 - l), l)
        else
          let sh := l - 24 in
          let q0 := m / 2 ^ sh in
          let r := m mod 2 ^ sh in
          let half := 2 ^ (sh - 1) in
          let q1 := if (half <? r) || ((r =? half) && N.odd q0) then q0 + 1 else q0 in
          if q1 =? 16777216 then (8388608, l + 1) else (q1, l) in
      ((if sg then 2147483648 else 0) + (l' + 76) * 8388608 + (q - 8388608)) mod two32
  end.

(** * RandGenerator *)
Record rstate := mkRs { rs_pos : N; rs_cur : N }.

Section Rand.
  Variable r : rsrc.
  Variable maxd : N.                                         (* rg.maxDepth *)

  Definition draw (st : rstate) : N * rstate := (r (rs_pos st), mkRs (rs_pos st + 1) (rs_cur st)).

  Definition inc_depth (st : rstate) : rstate :=
    if rs_cur st =? maxd then st else mkRs (rs_pos st) (rs_cur st + 1).
  Definition dec_depth (st : rstate) : rstate :=
    if rs_cur st =? 0 then st else mkRs (rs_pos st) (rs_cur st - 1).

  (** RandomUint: 0 without drawing at the depth limit; otherwise two Uint32 draws *)
  Definition category_bits (source : N) : N :=
    let cat := source mod 2 ^ rnd_probabilityBits in
    let hi := source / 2 ^ rnd_probabilityBits in
    if cat <? rnd_w0 then 0
    else if cat <? rnd_w1to2 then 1 + hi mod 2
    else if cat <? rnd_w3to4 then 3 + hi mod 2
    else if cat <? rnd_w5to8 then 5 + hi mod 4
    else if cat <? rnd_w9to16 then 9 + hi mod 8
    else if cat <? rnd_w17to24 then 17 + hi mod 8
    else if cat <? rnd_w25to32 then 25 + hi mod 8
    else 0.

  Definition random_uint (st : rstate) : N * rstate :=
    if maxd <=? rs_cur st then (0, st)
    else
      let '(w1, st1) := draw st in
      let bm := category_bits (r_u32 w1) in
      let '(w2, st2) := draw st1 in
      ((r_u32 w2) mod 2 ^ bm, st2).

  Definition limit_value (v : N) : N := v mod rnd_limit.       (* value &= limit-1, limit a power of two *)

  Definition random_size (st : rstate) : N * rstate :=
    let '(v, st1) := random_uint st in (limit_value v, st1).

  (** RandomFieldMask: the low bits of one RandomUint spread over the set bits of [bm] *)
  Fixpoint spread (k : nat) (i : N) (bm src si : N) : N :=
    match k with
    | O => 0
    | S k' =>
        if N.testbit bm i then
          (if N.testbit src si then 2 ^ i else 0) + spread k' (i + 1) bm src (si + 1)
        else spread k' (i + 1) bm src si
    end.

  Definition random_field_mask (bm : N) (st : rstate) : N * rstate :=
    let '(src, st1) := random_uint st in ((spread 32 0 bm src 0) mod two32, st1).

  (** RandomString: length = Uint32 % RandomNatConstraint, then one Uint32 per letter *)
  Fixpoint random_letters (k : nat) (st : rstate) : bytes * rstate :=
    match k with
    | O => ([], st)
    | S k' =>
        let '(w, st1) := draw st in
        let c := nth (N.to_nat ((r_u32 w) mod rnd_lenLetters)) letters 0 in
        let '(rest, st2) := random_letters k' st1 in
        (c :: rest, st2)
    end.

  Definition random_string (st : rstate) : bytes * rstate :=
    let '(w, st1) := draw st in
    random_letters (N.to_nat ((r_u32 w) mod RandomNatConstraint)) st1.
End Rand.

(** * Generator facts next to the schema IR *)
Inductive natuse :=
| UNone
| USize                                   (* used only as a size: RandomSize *)
| UMask (bits : N) (also_size : bool).    (* used as field mask over [bits] (and possibly as size) *)

Record xfield := mkX { xf_rec : bool; xf_use : natuse }.

Inductive xdef :=
| XPlain                                  (* primitives, arrays, dictionaries, ordinary unions *)
| XStruct (xfs : list xfield)
| XMaybe.                                 (* union generated as Maybe: variant 0 empty, variant 1 = [value] *)

Definition xschema := list xdef.

Definition xfields_of (x : xschema) (t : nat) : list xfield :=
  match nth_error x t with Some (XStruct l) => l | _ => [] end.
Definition is_maybe (x : xschema) (t : nat) : bool :=
  match nth_error x t with Some XMaybe => true | _ => false end.
Definition xf_default : xfield := mkX false UNone.

(** * FillRandom *)
Inductive fres (A : Type) :=
| FOk (a : A)
| FFuel          (* recursion deeper than the fuel: the Go code would still be recursing *)
| FBad.          (* construct outside the model (no TL1 form, malformed IR) *)
Arguments FOk {A} a.
Arguments FFuel {A}.
Arguments FBad {A}.

Definition fbind {A B} (x : fres A) (f : A -> fres B) : fres B :=
  match x with FOk a => f a | FFuel => FFuel | FBad => FBad end.

Section Fill.
  Variable r : rsrc.
  Variable maxd : N.
  Variable s : schema.
  Variable x : xschema.

  Definition fill_prim (p : prim) (st : rstate) : fres (value * rstate) :=
    match p with
    | PNat => let '(v, st1) := random_uint r maxd st in FOk (VNum v, st1)
    | PInt => let '(w, st1) := draw r st in FOk (VNum (r_i31 w), st1)
    | PLong => let '(w, st1) := draw r st in FOk (VNum (r_i63 w), st1)
    | PFloat => let '(w, st1) := draw r st in let '(sg, m) := r_norm w in FOk (VNum (f32_bits sg m), st1)
    | PDouble => let '(w, st1) := draw r st in let '(sg, m) := r_norm w in FOk (VNum (f64_bits sg m), st1)
    | PString => let '(str, st1) := random_string r st in FOk (VStr str, st1)
    | PBool _ _ => let '(v, st1) := random_uint r maxd st in FOk (VBool (N.odd v), st1)
    | PNoTL1 => FBad
    end.

  (** a [#] field whose value steers later fields *)
  Definition fill_used_nat (u : natuse) (st : rstate) : option (value * rstate) :=
    match u with
    | UNone => None
    | USize => let '(v, st1) := random_size r maxd st in Some (VNum v, st1)
    | UMask bits also =>
        let '(v, st1) := random_field_mask r maxd bits st in
        Some (VNum (if also then limit_value v else v), st1)
    end.

  Section Inner.
    Variable rec : nat -> list N -> rstate -> fres (value * rstate).

    (** randomFields: fields in order; [acc] = values of the fields already filled *)
    Fixpoint fill_fields (ps : list N) (fds : list field) (xfs : list xfield)
             (acc : list (option value)) (st : rstate) : fres (list (option value) * rstate) :=
      match fds with
      | [] => FOk (acc, st)
      | fd :: fds' =>
          let xf := hd xf_default xfs in
          if field_present ps acc fd then
            let st1 := if xf_rec xf then inc_depth maxd st else st in
            fbind (match fill_used_nat (xf_use xf) st1 with
                   | Some res => FOk res
                   | None => rec (f_ty fd) (eval_args ps acc (f_args fd)) st1
                   end) (fun '(v, st2) =>
            let st3 := if xf_rec xf then dec_depth st2 else st2 in
            fill_fields ps fds' (tl xfs) (acc ++ [Some v]) st3)
          else fill_fields ps fds' (tl xfs) (acc ++ [None]) st
      end.

    Fixpoint fill_elems (t : nat) (eargs : list N) (n : nat) (st : rstate) : fres (list value * rstate) :=
      match n with
      | O => FOk ([], st)
      | S n' =>
          fbind (rec t eargs st) (fun '(v, st1) =>
          fbind (fill_elems t eargs n' st1) (fun '(vs, st2) => FOk (v :: vs, st2)))
      end.
  End Inner.

  Fixpoint fill (fuel : nat) (t : nat) (ps : list N) (st : rstate) : fres (value * rstate) :=
    match fuel with
    | O => FFuel
    | S fuel' =>
        match nth_error s t with
        | None => FBad
        | Some (TPrim p) => fill_prim p st
        | Some (TStruct _ fds) =>
            fbind (fill_fields (fill fuel') ps fds (xfields_of x t) [] st) (fun '(fs, st1) => FOk (VStruct fs, st1))
        | Some (TUnion vars) =>
            if is_maybe x t then
              let '(v, st1) := random_uint r maxd st in
              if N.odd v then
                match nth_error vars 1 with
                | Some vt =>
                    match nth_error s vt with
                    | Some (TStruct _ [fd]) =>
                        fbind (fill fuel' (f_ty fd) (eval_args ps [] (f_args fd)) st1) (fun '(e, st2) =>
                        FOk (VUnion 1 [Some e], st2))
                    | _ => FBad
                    end
                | None => FBad
                end
              else FOk (VUnion 0 [], st1)
            else
              match vars with
              | [] => FBad
              | _ =>
                  let '(v, st1) := random_uint r maxd st in
                  let idx := N.to_nat (v mod lenN vars) in
                  match nth_error vars idx with
                  | Some vt =>
                      match nth_error s vt with
                      | Some (TStruct _ fds) =>
                          fbind (fill_fields (fill fuel') ps fds (xfields_of x vt) [] st1) (fun '(fs, st2) =>
                          FOk (VUnion idx fs, st2))
                      | _ => FBad
                      end
                  | None => FBad
                  end
              end
        | Some (TArray k ef) =>
            let eargs := eval_args ps [] (f_args ef) in
            let st0 := inc_depth maxd st in
            let '(n, st1) :=
              match k with
              | AVector => random_size r maxd st0
              | ATupleDyn => (nth 0 ps 0, st0)
              | ATupleFixed c => (c, st0)
              end in
            fbind (fill_elems (fill fuel') (f_ty ef) eargs (N.to_nat n) st1) (fun '(es, st2) =>
            FOk (VArr es, dec_depth st2))
        | Some (TDict kp ef) =>
            if negb (key_prim_ok kp) then FBad else
            let eargs := eval_args ps [] (f_args ef) in
            let st0 := inc_depth maxd st in
            let '(n, st1) := random_size r maxd st0 in
            fbind (fill_elems (fill fuel') (f_ty ef) eargs (N.to_nat n) st1) (fun '(es, st2) =>
            FOk (VArr (fold_left (fun acc e => dict_insert kp e acc) es []), dec_depth st2))   (* Go: m[key] = value, a later equal key replaces *)
        end
    end.
End Fill.

(** NewRandGenerator draws maxDepth first, then the object's FillRandom runs at depth 0 *)
Definition new_maxd (r : rsrc) : N := (r_u32 (r 0)) mod (rnd_maxDepth - rnd_minDepth + 1) + rnd_minDepth.

Definition fill_random (fuel : nat) (s : schema) (x : xschema) (t : nat) (ps : list N) (r : rsrc)
  : fres (value * rstate) :=
  fill r (new_maxd r) s x fuel t ps (mkRs 1 0).

(** * Conditions on the dump under which the theorems are stated (evaluated on every dump) *)
Definition bare_ok (s : schema) (fd : field) : bool :=
  match nth_error s (f_ty fd) with
  | Some (TUnion _) => negb (f_bare fd)
  | Some (TArray _ _) | Some (TDict _ _) => f_bare fd
  | Some _ => true
  | None => false
  end.

Definition use_ok (s : schema) (fd : field) (xf : xfield) : bool :=
  match xf_use xf with
  | UNone => true
  | _ => match nth_error s (f_ty fd) with Some (TPrim PNat) => true | _ => false end
  end.

Fixpoint fields_x_ok (s : schema) (fds : list field) (xfs : list xfield) : bool :=
  match fds with
  | [] => true
  | fd :: fds' => bare_ok s fd && use_ok s fd (hd xf_default xfs) && fields_x_ok s fds' (tl xfs)
  end.

Definition dict_elem_ok (s : schema) (kp : prim) (ef : field) : bool :=
  match nth_error s (f_ty ef) with
  | Some (TStruct _ (kf :: _)) =>
      match f_mask kf, nth_error s (f_ty kf) with
      | None, Some (TPrim p) =>
          match p, kp with
          | PNat, PNat | PInt, PInt | PLong, PLong | PString, PString => true
          | PBool a b, PBool c d => (a =? c) && (b =? d)
          | _, _ => false
          end
      | _, _ => false
      end
  | _ => false
  end.

Definition xdef_ok (s : schema) (x : xschema) (t : nat) (d : tydef) : bool :=
  match d with
  | TPrim _ => true
  | TStruct _ fds => fields_x_ok s fds (xfields_of x t)
  | TUnion vars =>
      if is_maybe x t then
        match vars with
        | [v0; v1] =>
            match nth_error s v0, nth_error s v1 with
            | Some (TStruct _ []), Some (TStruct _ [fd]) =>
                bare_ok s fd && match f_mask fd with None => true | Some _ => false end
            | _, _ => false
            end
        | _ => false
        end
      else
        forallb (fun vt => match nth_error s vt with
                           | Some (TStruct _ fds) => fields_x_ok s fds (xfields_of x vt)
                           | _ => false end) vars
  | TArray _ ef => bare_ok s ef
  | TDict kp ef => bare_ok s ef && dict_elem_ok s kp ef
  end.

Fixpoint xwf_from (s : schema) (x : xschema) (t : nat) (l : list tydef) : bool :=
  match l with
  | [] => true
  | d :: l' => xdef_ok s x t d && xwf_from s x (S t) l'
  end.

Definition xwf (s : schema) (x : xschema) : bool := wf_schema s && xwf_from s x 0 s.

(** a rank certificate for the non-recursive part of a schema: rank 0 = no claim (the type is on or
    reaches a cycle); a type of positive rank refers only to types of smaller positive rank *)
Definition rank_of (rk : list nat) (t : nat) : nat := nth t rk 0%nat.
Definition field_ranked (rk : list nat) (t : nat) (fd : field) : bool :=
  Nat.ltb 0 (rank_of rk (f_ty fd)) && Nat.ltb (rank_of rk (f_ty fd)) (rank_of rk t).
Definition ranked_def (s : schema) (rk : list nat) (t : nat) (d : tydef) : bool :=
  if Nat.eqb (rank_of rk t) 0 then true else
  match d with
  | TPrim _ => true
  | TStruct _ fds => forallb (field_ranked rk t) fds
  | TUnion vars =>
      forallb (fun vt => match nth_error s vt with
                         | Some (TStruct _ fds) => forallb (field_ranked rk t) fds
                         | _ => true end) vars
  | TArray _ ef | TDict _ ef => field_ranked rk t ef
  end.
Fixpoint ranked_from (s : schema) (rk : list nat) (t : nat) (l : list tydef) : bool :=
  match l with
  | [] => true
  | d :: l' => ranked_def s rk t d && ranked_from s rk (S t) l'
  end.
Definition ranked (s : schema) (rk : list nat) : bool := ranked_from s rk 0 s.
