(** C07 -- function result transcoders.  Model of the generated ReadResultX WriteResultY methods
    (internal/puregen/gengo/qt_struct.qtpl functionCode): each is literally the typed result reader followed by
    the typed result writer, at the function's result type, with the nat arguments of the result taken from the
    fields of the request object ([result_env]; internal/pure: TypeInstanceStruct.ResultNatArgs, IR
    `result{type,bare,natArgs}`).  TL1-level: TL2 and JSON legs are covered by the Go-side oracle only.
    Executable definitions only. *)
From Coq Require Export List NArith Bool.
From TLV Require Export Prim.PrimModel Tl1.Tl1Model.
Export ListNotations.
Open Scope N_scope.

Record fresult := mkRes { fr_ty : nat; fr_bare : bool; fr_args : list natarg }.

(** nat arguments of the result type, evaluated on the request value (a function has no nat parameters) *)
Definition result_env (q : value) (fr : fresult) : list N :=
  match q with
  | VStruct fs => eval_args [] fs (fr_args fr)
  | _ => eval_args [] [] (fr_args fr)
  end.

(** typed path: ReadResultTL1 / WriteResultTL1 of the function object holding request [q] *)
Definition read_result (fuel : nat) (san : bool) (s : schema) (fr : fresult) (q : value) (b : bytes) : dres :=
  dec1 fuel san s (fr_ty fr) (fr_bare fr) (result_env q fr) b.
Definition write_result (s : schema) (fr : fresult) (q : value) (v : value) : option bytes :=
  enc1 false s (fr_ty fr) (fr_bare fr) (result_env q fr) v.

(** transcoder TL1 -> (typed result) -> TL1: what ReadResultTL1WriteResultY ; ReadResultYWriteResultTL1 compose to
    when the middle format Y is lossless; [None] = out of fuel *)
Inductive trres := TrOk (consumed : nat) (out : option bytes) | TrEof | TrReject | TrFuel.

Definition tr11 (fuel : nat) (san : bool) (s : schema) (fr : fresult) (q : value) (b : bytes) : trres :=
  match read_result fuel san s fr q b with
  | Some (Ok (v, rest)) => TrOk (length b - length rest) (write_result s fr q v)
  | Some Eof => TrEof
  | Some Reject => TrReject
  | None => TrFuel
  end.

(** the whole operation of the harness: the request arrives as TL1 boxed bytes of the function [ft] *)
Definition tr11_req (fuel : nat) (san : bool) (s : schema) (ft : nat) (fr : fresult) (req b : bytes) : option trres :=
  match dec1 fuel san s ft false [] req with
  | Some (Ok (q, _)) => Some (tr11 fuel san s fr q b)
  | _ => None
  end.
