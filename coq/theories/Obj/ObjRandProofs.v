(** Proofs about the random-filling model (C18): validity (the TL1 writer accepts every produced
    value), termination on the non-recursive part of a schema, independence of the fuel, the value
    as a function of the stream, and the refutation of unconditional termination (F7). *)
From Coq Require Import ZArith Lia ZifyN ZifyNat ZifyBool.
From TLV Require Import Prim.PrimModel Prim.PrimProofs Tl1.Tl1Model Tl1.Tl1Proofs Obj.ObjRandModel.
Ltac Zify.zify_post_hook ::= Z.div_mod_to_equations.
Open Scope N_scope.

(** * bounds of the draws *)
Lemma r_u32_lt w : r_u32 w < two32.
Proof. unfold r_u32. apply N.mod_lt. discriminate. Qed.
Lemma r_i31_lt w : r_i31 w < 4294967296.
Proof. unfold r_i31. assert (H := N.mod_lt (w / 8589934592) 2147483648). lia. Qed.
Lemma r_i63_lt w : r_i63 w < 18446744073709551616.
Proof. unfold r_i63. assert (H := N.mod_lt (w / 2) 9223372036854775808). lia. Qed.
Lemma f32_bits_lt sg m : f32_bits sg m < 4294967296.
Proof.
  unfold f32_bits. destruct m; [reflexivity|].
  destruct (if N.size (N.pos p) <=? 24 then _ else _) as [q l'].
  apply N.mod_lt. discriminate.
Qed.
Lemma f64_bits_lt sg m : f64_bits sg m < 18446744073709551616.
Proof. unfold f64_bits. destruct m; [reflexivity|]. apply N.mod_lt. discriminate. Qed.

Lemma random_uint_lt r maxd st v st' : random_uint r maxd st = (v, st') -> v < 4294967296.
Proof.
  unfold random_uint, draw. destruct (maxd <=? rs_cur st).
  - intros H. injection H as <- _. reflexivity.
  - intros H. injection H as <- _.
    eapply N.le_lt_trans; [apply N.mod_le; apply N.pow_nonzero; discriminate|]. apply r_u32_lt.
Qed.

Lemma rnd_limit_nz : rnd_limit <> 0.
Proof. unfold rnd_limit. discriminate. Qed.
Lemma rnd_limit_small : rnd_limit <= 4294967296.
Proof. unfold rnd_limit. lia. Qed.

Lemma random_size_lt r maxd st v st' : random_size r maxd st = (v, st') -> v < 4294967296.
Proof.
  unfold random_size. destruct (random_uint r maxd st) as [u st1]. intros H. injection H as <- _.
  unfold limit_value. assert (H := N.mod_lt u rnd_limit rnd_limit_nz). assert (H2 := rnd_limit_small). lia.
Qed.

Lemma mod32_lt X : X mod two32 < 4294967296.
Proof. apply N.mod_lt. unfold two32. discriminate. Qed.

Local Opaque spread.
Lemma random_field_mask_lt r maxd bm st v st' : random_field_mask r maxd bm st = (v, st') -> v < 4294967296.
Proof.
  unfold random_field_mask. destruct (random_uint r maxd st) as [u st1]. intros H.
  assert (E : v = spread 32 0 bm u 0 mod two32) by congruence.
  rewrite E. apply mod32_lt.
Qed.

Lemma random_letters_len r k : forall st str st', random_letters r k st = (str, st') -> length str = k.
Proof.
  induction k as [|k IH]; cbn [random_letters]; intros st str st' H.
  - now injection H as <- _.
  - unfold draw in H. destruct (random_letters r k _) as [rest st2] eqn:E. injection H as <- _.
    cbn [length]. f_equal. eapply IH. exact E.
Qed.

Lemma random_string_len r st str st' : random_string r st = (str, st') -> lenN str < RandomNatConstraint.
Proof.
  unfold random_string, draw. intros H. apply random_letters_len in H. unfold lenN. rewrite H.
  rewrite N2Nat.id. apply N.mod_lt. unfold RandomNatConstraint. discriminate.
Qed.

(** * dictionaries: inserting typed keys keeps the entry list strictly sorted *)
Definition key_typed (kp : prim) (k : value) : Prop :=
  match kp, k with
  | PNat, VNum _ | PInt, VNum _ | PLong, VNum _ => True
  | PString, VStr _ => True
  | PBool _ _, VBool _ => True
  | _, _ => False
  end.

Lemma bytes_lt_tri a : forall b, bytes_lt a b = false -> bytes_lt b a = false -> a = b.
Proof.
  induction a as [|x a IH]; intros [|y b]; cbn [bytes_lt]; intros H1 H2; try reflexivity; try discriminate.
  destruct (x <? y) eqn:E1; [discriminate|]. destruct (y <? x) eqn:E2; [discriminate|].
  assert (x = y) by lia. subst y. f_equal. apply IH; assumption.
Qed.

(** two typed keys are ordered one way or the other, or indistinguishable for [key_lt] *)
Definition key_eqv (kp : prim) (a b : value) : Prop :=
  forall c, key_lt kp a c = key_lt kp b c /\ key_lt kp c a = key_lt kp c b.

Lemma key_tri kp a b : key_typed kp a -> key_typed kp b ->
  key_lt kp a b = true \/ key_lt kp b a = true \/ key_eqv kp a b.
Proof.
  intros Ha Hb. destruct kp, a, b; cbn [key_typed] in Ha, Hb; try contradiction; cbn [key_lt].
  - destruct (n <? n0) eqn:E1; [now left|]. destruct (n0 <? n) eqn:E2; [right; now left|].
    right; right. assert (n = n0) by lia. subst. intros c. split; reflexivity.
  - destruct (sgn32 n <? sgn32 n0)%Z eqn:E1; [now left|]. destruct (sgn32 n0 <? sgn32 n)%Z eqn:E2; [right; now left|].
    right; right. assert (E : sgn32 n = sgn32 n0) by lia. intros c. destruct c; cbn [key_lt]; rewrite ?E; split; reflexivity.
  - destruct (sgn64 n <? sgn64 n0)%Z eqn:E1; [now left|]. destruct (sgn64 n0 <? sgn64 n)%Z eqn:E2; [right; now left|].
    right; right. assert (E : sgn64 n = sgn64 n0) by lia. intros c. destruct c; cbn [key_lt]; rewrite ?E; split; reflexivity.
  - destruct (bytes_lt s s0) eqn:E1; [now left|]. destruct (bytes_lt s0 s) eqn:E2; [right; now left|].
    right; right. assert (s = s0) by (apply bytes_lt_tri; assumption). subst. intros c. split; reflexivity.
  - destruct b, b0; cbn; auto; right; right; intros c; split; reflexivity.
Qed.

Definition lt_hd (kp : prim) (x : value) (l : list value) : bool :=
  match l with [] => true | y :: _ => key_lt kp (entry_key x) (entry_key y) end.

Lemma keys_sorted_cons kp x l : keys_sorted kp (x :: l) = lt_hd kp x l && keys_sorted kp l.
Proof. destruct l; reflexivity. Qed.

Lemma lt_hd_insert kp x e l :
  key_lt kp (entry_key x) (entry_key e) = true -> lt_hd kp x l = true -> lt_hd kp x (dict_insert kp e l) = true.
Proof.
  intros Hxe Hxl. destruct l as [|y l]; cbn [dict_insert lt_hd]; [exact Hxe|].
  destruct (key_lt kp (entry_key e) (entry_key y)); [exact Hxe|].
  destruct (key_lt kp (entry_key y) (entry_key e)); [exact Hxl|exact Hxe].
Qed.

Lemma dict_insert_sorted kp e : key_typed kp (entry_key e) ->
  forall l, Forall (fun y => key_typed kp (entry_key y)) l -> keys_sorted kp l = true ->
  keys_sorted kp (dict_insert kp e l) = true.
Proof.
  intros He. induction l as [|y l IH]; intros HT HS; [reflexivity|].
  apply Forall_cons_iff in HT as [Hy HT]. rewrite keys_sorted_cons in HS. apply andb_true_iff in HS as [Hh HS].
  cbn [dict_insert].
  destruct (key_lt kp (entry_key e) (entry_key y)) eqn:E1.
  - rewrite keys_sorted_cons. cbn [lt_hd]. rewrite E1. rewrite keys_sorted_cons, Hh, HS. reflexivity.
  - destruct (key_lt kp (entry_key y) (entry_key e)) eqn:E2.
    + rewrite keys_sorted_cons. rewrite (IH HT HS), andb_true_r. apply lt_hd_insert; assumption.
    + rewrite keys_sorted_cons, HS, andb_true_r.
      destruct (key_tri kp (entry_key e) (entry_key y) He Hy) as [H|[H|H]]; [congruence|congruence|].
      destruct l as [|z l]; [reflexivity|]. cbn [lt_hd] in *. destruct (H (entry_key z)) as [H1 _]. now rewrite H1.
Qed.

Lemma dict_insert_in kp e0 e : forall l, In e (dict_insert kp e0 l) -> e = e0 \/ In e l.
Proof.
  induction l as [|y l IH]; cbn [dict_insert In]; intros H.
  - destruct H as [<-|[]]. now left.
  - destruct (key_lt kp (entry_key e0) (entry_key y)).
    + destruct H as [<-|H]; [now left|now right].
    + destruct (key_lt kp (entry_key y) (entry_key e0)).
      * destruct H as [<-|H]; [right; now left|]. destruct (IH H) as [->|H']; [now left|right; now right].
      * destruct H as [<-|H]; [now left|right; now right].
Qed.

Lemma dict_insert_len kp e : forall l, (length (dict_insert kp e l) <= S (length l))%nat.
Proof.
  induction l as [|y l IH]; cbn [dict_insert length]; [lia|].
  destruct (key_lt kp (entry_key e) (entry_key y)); cbn [length]; [lia|].
  destruct (key_lt kp (entry_key y) (entry_key e)); cbn [length]; lia.
Qed.

Lemma dict_fold_props kp : forall es acc,
  Forall (fun y => key_typed kp (entry_key y)) es ->
  Forall (fun y => key_typed kp (entry_key y)) acc -> keys_sorted kp acc = true ->
  let res := fold_left (fun a e => dict_insert kp e a) es acc in
  keys_sorted kp res = true /\ (forall e, In e res -> In e es \/ In e acc) /\ (length res <= length es + length acc)%nat.
Proof.
  induction es as [|e es IH]; intros acc HT HA HS; cbn [fold_left].
  - repeat split; [exact HS|intros e H; now right|cbn; lia].
  - apply Forall_cons_iff in HT as [He HT].
    assert (HA' : Forall (fun y => key_typed kp (entry_key y)) (dict_insert kp e acc)).
    { apply Forall_forall. intros z Hz. destruct (dict_insert_in _ _ _ _ Hz) as [->|Hz']; [exact He|].
      rewrite Forall_forall in HA. now apply HA. }
    destruct (IH (dict_insert kp e acc) HT HA' (dict_insert_sorted kp e He acc HA HS)) as (H1 & H2 & H3).
    repeat split; [exact H1| |].
    + intros z Hz. destruct (H2 z Hz) as [H|H]; [left; now right|].
      destruct (dict_insert_in _ _ _ _ H) as [->|H']; [left; now left|now right].
    + assert (L := dict_insert_len kp e acc). cbn [length]. lia.
Qed.

(** * validity: what FillRandom produces, the TL1 writer accepts *)
Definition ENC (s : schema) := fun t' b' ps' v' => enc1 false s t' b' ps' v'.

Definition bare_fits (s : schema) (t : nat) (bare : bool) : bool :=
  match nth_error s t with
  | Some (TUnion _) => negb bare
  | Some (TArray _ _) | Some (TDict _ _) => bare
  | _ => true
  end.

Lemma bare_ok_fits s fd : bare_ok s fd = true -> bare_fits s (f_ty fd) (f_bare fd) = true.
Proof. unfold bare_ok, bare_fits. destruct (nth_error s (f_ty fd)) as [d|]; [destruct d|]; auto. Qed.

Definition venc (s : schema) (t : nat) (ps : list N) (v : value) : Prop :=
  forall bare, bare_fits s t bare = true -> exists b, enc1 false s t bare ps v = Some b.

Lemma enc_prim_num p n : n < 4294967296 -> (p = PNat \/ p = PInt \/ p = PFloat) -> exists b, enc_prim p (VNum n) = Some b.
Proof. intros H [-> | [-> | ->]]; cbn [enc_prim]; (destruct (n <? 4294967296) eqn:E; [eauto|lia]). Qed.
Lemma enc_prim_long p n : n < 18446744073709551616 -> (p = PLong \/ p = PDouble) -> exists b, enc_prim p (VNum n) = Some b.
Proof. intros H [-> | ->]; cbn [enc_prim]; (destruct (n <? 18446744073709551616) eqn:E; [eauto|lia]). Qed.

Lemma fill_prim_enc r maxd p st v st' : fill_prim r maxd p st = FOk (v, st') -> exists b, enc_prim p v = Some b.
Proof.
  destruct p; cbn [fill_prim].
  - destruct (random_uint r maxd st) as [u st1] eqn:E. intros H. injection H as <- _.
    apply enc_prim_num; [eapply random_uint_lt; eauto|auto].
  - unfold draw. intros H. injection H as <- _. apply enc_prim_num; [apply r_i31_lt|auto].
  - unfold draw. destruct (r_norm _) as [sg m]. intros H. injection H as <- _. apply enc_prim_num; [apply f32_bits_lt|auto].
  - unfold draw. intros H. injection H as <- _. apply enc_prim_long; [apply r_i63_lt|auto].
  - unfold draw. destruct (r_norm _) as [sg m]. intros H. injection H as <- _. apply enc_prim_long; [apply f64_bits_lt|auto].
  - destruct (random_string r st) as [str st1] eqn:E. intros H. injection H as <- _. cbn [enc_prim].
    apply str1_w_defined. apply random_string_len in E. unfold RandomNatConstraint, maxHugeStringLen in *. lia.
  - destruct (random_uint r maxd st) as [u st1]. intros H. injection H as <- _. cbn [enc_prim]. eauto.
  - discriminate.
Qed.

Lemma fill_used_nat_enc r maxd u st v st' :
  fill_used_nat r maxd u st = Some (v, st') -> exists n, v = VNum n /\ n < 4294967296.
Proof.
  destruct u as [| |bits also]; cbn [fill_used_nat]; [discriminate| |].
  - destruct (random_size r maxd st) as [n st1] eqn:E. intros H. injection H as <- _.
    exists n. split; [reflexivity|eapply random_size_lt; eauto].
  - destruct (random_field_mask r maxd bits st) as [n st1] eqn:E. intros H. injection H as <- _.
    eexists. split; [reflexivity|]. apply random_field_mask_lt in E. destruct also; [|exact E].
    unfold limit_value. assert (H := N.mod_le n rnd_limit rnd_limit_nz). lia.
Qed.

Lemma fill_elems_spec (rec : nat -> list N -> rstate -> fres (value * rstate)) t eargs :
  forall n st vs st', fill_elems rec t eargs n st = FOk (vs, st') ->
  length vs = n /\ Forall (fun v => exists st1 st2, rec t eargs st1 = FOk (v, st2)) vs.
Proof.
  induction n as [|n IH]; cbn [fill_elems]; intros st vs st' H.
  - injection H as <- _. split; [reflexivity|constructor].
  - destruct (rec t eargs st) as [[v st1]| |] eqn:E1; cbn [fbind] in H; try discriminate.
    destruct (fill_elems rec t eargs n st1) as [[vs' st2]| |] eqn:E2; cbn [fbind] in H; try discriminate.
    injection H as <- _. destruct (IH _ _ _ E2) as [L F]. split; [cbn; now f_equal|].
    constructor; [eauto|exact F].
Qed.

Lemma enc_elems_all (rec : value -> option bytes) : forall es,
  Forall (fun e => exists b, rec e = Some b) es -> exists b, enc_elems rec es = Some b.
Proof.
  induction es as [|e es IH]; intros H; cbn [enc_elems]; [eauto|].
  apply Forall_cons_iff in H as [[b1 H1] H2]. destruct (IH H2) as [b2 E2].
  rewrite H1, E2. cbn [bind_opt]. eauto.
Qed.

Section Valid.
  Variable r : rsrc.
  Variable maxd : N.
  Variable s : schema.
  Variable x : xschema.

  (** struct fields: the values produced for [fds] after [acc] encode against the final field list *)
  Lemma fill_fields_enc (rec : nat -> list N -> rstate -> fres (value * rstate)) ps :
    (forall t ps' st v st', rec t ps' st = FOk (v, st') -> venc s t ps' v) ->
    forall fds xfs acc st fs st',
      fields_ok (length acc) fds = true ->
      fields_x_ok s fds xfs = true ->
      fill_fields r maxd rec ps fds xfs acc st = FOk (fs, st') ->
      exists vs, fs = acc ++ vs /\ exists b, enc_fields (ENC s) ps fs fds vs = Some b.
  Proof.
    intros Hrec. induction fds as [|fd fds IH]; intros xfs acc st fs st' Hok Hx H.
    - cbn [fill_fields] in H. injection H as <- _. exists []. rewrite app_nil_r. split; [reflexivity|]. cbn. eauto.
    - cbn [fill_fields] in H. cbn [fields_ok] in Hok. apply andb_true_iff in Hok as [Hfd Hrest].
      cbn [fields_x_ok] in Hx. apply andb_true_iff in Hx as [Hx Hxr]. apply andb_true_iff in Hx as [Hbare Huse].
      assert (Hrest' : forall o, fields_ok (length (acc ++ [o])) fds = true).
      { intros o. rewrite app_length. cbn [length]. now rewrite Nat.add_1_r. }
      destruct (field_present ps acc fd) eqn:Ep.
      + set (st1 := if xf_rec (hd xf_default xfs) then inc_depth maxd st else st) in *.
        assert (Hv : exists v st2, (match fill_used_nat r maxd (xf_use (hd xf_default xfs)) st1 with
                        | Some res => FOk res
                        | None => rec (f_ty fd) (eval_args ps acc (f_args fd)) st1 end) = FOk (v, st2)
                     /\ fill_fields r maxd rec ps fds (tl xfs) (acc ++ [Some v])
                          (if xf_rec (hd xf_default xfs) then dec_depth st2 else st2) = FOk (fs, st')).
        { destruct (match fill_used_nat r maxd (xf_use (hd xf_default xfs)) st1 with
                    | Some res => FOk res | None => _ end) as [[v st2]| |]; cbn [fbind] in H; try discriminate. eauto. }
        destruct Hv as (v & st2 & Hv & Hf).
        destruct (IH _ _ _ _ _ (Hrest' (Some v)) Hxr Hf) as (vs & Hfs & b2 & Hb2).
        exists (Some v :: vs). split; [rewrite Hfs, <- app_assoc; reflexivity|].
        assert (Hfs' : fs = acc ++ (Some v :: vs)) by (rewrite Hfs, <- app_assoc; reflexivity).
        assert (Hpres : field_present ps fs fd = field_present ps acc fd)
          by (rewrite Hfs'; now apply field_present_prefix).
        cbn [enc_fields]. rewrite Hpres, Ep.
        assert (Hargs : eval_args ps fs (f_args fd) = eval_args ps acc (f_args fd)).
        { rewrite Hfs'. apply eval_args_prefix. unfold field_ok in Hfd. now apply andb_true_iff in Hfd as [_ ?]. }
        assert (Henc : exists b1, ENC s (f_ty fd) (f_bare fd) (eval_args ps fs (f_args fd)) v = Some b1).
        { rewrite Hargs. unfold ENC.
          destruct (fill_used_nat r maxd (xf_use (hd xf_default xfs)) st1) as [[v' st2']|] eqn:Eu.
          - injection Hv as -> ->. destruct (fill_used_nat_enc _ _ _ _ _ _ Eu) as (n & -> & Hn).
            unfold use_ok in Huse. destruct (xf_use (hd xf_default xfs)) eqn:Eux; [cbn in Eu; discriminate| |];
              (destruct (nth_error s (f_ty fd)) as [d|] eqn:Et; [destruct d as [p| | | |]|]; try discriminate;
               destruct p; try discriminate;
               cbn [enc1]; rewrite Et; apply enc_prim_num; auto).
          - apply (Hrec _ _ _ _ _ Hv). now apply bare_ok_fits. }
        destruct Henc as [b1 Hb1]. rewrite Hb1. cbn [bind_opt]. rewrite Hb2. cbn [bind_opt]. eauto.
      + destruct (IH _ _ _ _ _ (Hrest' None) Hxr H) as (vs & Hfs & b2 & Hb2).
        exists (None :: vs). split; [rewrite Hfs, <- app_assoc; reflexivity|].
        assert (Hfs' : fs = acc ++ (None :: vs)) by (rewrite Hfs, <- app_assoc; reflexivity).
        assert (Hpres : field_present ps fs fd = field_present ps acc fd)
          by (rewrite Hfs'; now apply field_present_prefix).
        cbn [enc_fields]. rewrite Hpres, Ep. eauto.
  Qed.
End Valid.

Lemma xwf_from_lookup s x : forall l k i d, xwf_from s x k l = true -> nth_error l i = Some d -> xdef_ok s x (k + i) d = true.
Proof.
  induction l as [|d0 l IH]; intros k i d H Hn; [destruct i; discriminate|].
  cbn [xwf_from] in H. apply andb_true_iff in H as [H0 H1]. destruct i as [|i]; cbn [nth_error] in Hn.
  - injection Hn as <-. now rewrite Nat.add_0_r.
  - rewrite <- Nat.add_succ_comm. now apply IH.
Qed.

Lemma xwf_lookup s x t d : xwf s x = true -> nth_error s t = Some d -> tydef_ok s d = true /\ xdef_ok s x t d = true.
Proof.
  unfold xwf. intros H Hn. apply andb_true_iff in H as [H1 H2]. split.
  - eapply wf_lookup; eauto.
  - exact (xwf_from_lookup s x s 0%nat t d H2 Hn).
Qed.

Lemma enc_key_typed s kp ef eargs e :
  dict_elem_ok s kp ef = true ->
  (exists b, enc1 false s (f_ty ef) (f_bare ef) eargs e = Some b) -> key_typed kp (entry_key e).
Proof.
  unfold dict_elem_ok. intros Hd [b Hb].
  destruct (nth_error s (f_ty ef)) as [d|] eqn:Et; [|discriminate].
  destruct d as [| tag fds | | |]; try discriminate. destruct fds as [|kf fds]; [discriminate|].
  destruct (f_mask kf) eqn:Em; [discriminate|].
  destruct (nth_error s (f_ty kf)) as [dk|] eqn:Ek; [|discriminate]. destruct dk as [p| | | |]; try discriminate.
  destruct e as [| | |fs| |]; cbn [enc1] in Hb; rewrite Et in Hb; try discriminate.
  destruct (enc_fields _ eargs fs (kf :: fds) fs) as [body|] eqn:Ef; [|discriminate].
  destruct fs as [|ov fs']; cbn [enc_fields] in Ef; [discriminate|].
  unfold field_present in Ef. rewrite Em in Ef.
  destruct ov as [k|]; [|discriminate].
  destruct (enc1 false s (f_ty kf) (f_bare kf) _ k) as [b1|] eqn:E1; [|discriminate].
  cbn [entry_key].
  destruct k; cbn [enc1] in E1; rewrite Ek in E1; cbn [enc_prim] in E1;
    destruct p, kp; try discriminate; cbn [key_typed]; exact I.
Qed.

Section Valid2.
  Variable r : rsrc.
  Variable maxd : N.
  Variable s : schema.
  Variable x : xschema.
  Hypothesis Hwf : xwf s x = true.

  Lemma elems_enc fuel' ef ps n st es st' :
    (forall t ps st v st', fill r maxd s x fuel' t ps st = FOk (v, st') -> venc s t ps v) ->
    bare_ok s ef = true ->
    fill_elems (fill r maxd s x fuel') (f_ty ef) (eval_args ps [] (f_args ef)) n st = FOk (es, st') ->
    length es = n /\
    Forall (fun e => exists b, enc1 false s (f_ty ef) (f_bare ef) (eval_args ps [] (f_args ef)) e = Some b) es.
  Proof.
    intros IH Hb H. destruct (fill_elems_spec _ _ _ _ _ _ _ H) as [L F]. split; [exact L|].
    eapply Forall_impl; [|exact F]. cbn beta. intros e (st1 & st2 & He).
    apply (IH _ _ _ _ _ He). now apply bare_ok_fits.
  Qed.

  Theorem fill_valid : forall fuel t ps st v st',
    fill r maxd s x fuel t ps st = FOk (v, st') -> venc s t ps v.
  Proof.
    induction fuel as [|fuel IH]; intros t ps st v st' H; [discriminate|].
    cbn [fill] in H. destruct (nth_error s t) as [d|] eqn:Et; [|discriminate].
    destruct (xwf_lookup s x t d Hwf Et) as [Hd Hxd].
    intros bare Hbare. unfold bare_fits in Hbare. rewrite Et in Hbare.
    destruct d as [p|tag fds|vars|k ef|kp ef].
    - (* primitive *)
      destruct (fill_prim_enc _ _ _ _ _ _ H) as [b Hb]. exists b. destruct v; cbn [enc1]; rewrite Et; exact Hb.
    - (* struct *)
      destruct (fill_fields _ _ _ _ _ _ _ _) as [[fs st1]| |] eqn:Ef; cbn [fbind] in H; try discriminate.
      injection H as <- _.
      cbn [tydef_ok] in Hd. apply andb_true_iff in Hd as [_ Hfo]. cbn [xdef_ok] in Hxd.
      destruct (fill_fields_enc r maxd s (fill r maxd s x fuel) ps IH fds _ [] _ _ _ Hfo Hxd Ef) as (vs & Hfs & b & Hb).
      cbn [app] in Hfs. subst vs. cbn [enc1]. rewrite Et. unfold ENC in Hb. rewrite Hb. cbn [bind_opt]. eauto.
    - (* union *)
      destruct bare; [discriminate|]. cbn [xdef_ok] in Hxd.
      destruct (is_maybe x t) eqn:Em.
      + destruct vars as [|v0 [|v1 [|]]]; try discriminate.
        destruct (nth_error s v0) as [d0|] eqn:E0; [|discriminate]. destruct d0 as [|tag0 fds0| | |]; try discriminate.
        destruct fds0; [|discriminate].
        destruct (nth_error s v1) as [d1|] eqn:E1; [|destruct (nth_error s v0); discriminate].
        destruct d1 as [|tag1 fds1| | |]; try discriminate. destruct fds1 as [|fd [|]]; try discriminate.
        apply andb_true_iff in Hxd as [Hbo Hm]. destruct (f_mask fd) eqn:Emask; [discriminate|].
        destruct (random_uint r maxd st) as [u st1]. destruct (N.odd u).
        * cbn [nth_error] in H. rewrite E1 in H.
          destruct (fill r maxd s x fuel (f_ty fd) _ st1) as [[e st2]| |] eqn:Ee; cbn [fbind] in H; try discriminate.
          injection H as <- _.
          destruct (xwf_lookup s x v1 _ Hwf E1) as [Hd1 _]. cbn [tydef_ok] in Hd1. apply andb_true_iff in Hd1 as [_ Hfo1].
          cbn [fields_ok] in Hfo1. apply andb_true_iff in Hfo1 as [Hfo1 _].
          assert (Hargs : eval_args ps [Some e] (f_args fd) = eval_args ps [] (f_args fd)).
          { apply (eval_args_prefix ps [] [Some e]). unfold field_ok in Hfo1. now apply andb_true_iff in Hfo1 as [_ ?]. }
          destruct (IH _ _ _ _ _ Ee (f_bare fd) (bare_ok_fits _ _ Hbo)) as [b1 Hb1].
          cbn [enc1]. rewrite Et. cbn [nth_error]. rewrite E1. cbn [enc_fields].
          unfold field_present. rewrite Emask. rewrite Hargs, Hb1. cbn [bind_opt]. eauto.
        * injection H as <- _. cbn [enc1]. rewrite Et. cbn [nth_error]. rewrite E0. cbn [enc_fields bind_opt]. eauto.
      + destruct vars as [|v0 vars']; [discriminate|]. set (vars := v0 :: vars') in *.
        destruct (random_uint r maxd st) as [u st1].
        destruct (nth_error vars (N.to_nat (u mod lenN vars))) as [vt|] eqn:Ev; [|discriminate].
        destruct (nth_error s vt) as [dv|] eqn:Evt; [|discriminate]. destruct dv as [|tagv fdsv| | |]; try discriminate.
        destruct (fill_fields _ _ _ _ _ _ _ _) as [[fs st2]| |] eqn:Ef; cbn [fbind] in H; try discriminate.
        injection H as <- _.
        destruct (xwf_lookup s x vt _ Hwf Evt) as [Hdv _]. cbn [tydef_ok] in Hdv. apply andb_true_iff in Hdv as [_ Hfo].
        assert (Hxv : fields_x_ok s fdsv (xfields_of x vt) = true).
        { rewrite forallb_forall in Hxd. specialize (Hxd vt (nth_error_In _ _ Ev)). now rewrite Evt in Hxd. }
        destruct (fill_fields_enc r maxd s (fill r maxd s x fuel) ps IH fdsv _ [] _ _ _ Hfo Hxv Ef) as (vs & Hfs & b & Hb).
        cbn [app] in Hfs. subst vs. cbn [enc1]. rewrite Et, Ev, Evt. unfold ENC in Hb. rewrite Hb. cbn [bind_opt]. eauto.
    - (* array *)
      destruct bare; [|discriminate]. cbn [xdef_ok] in Hxd.
      set (st0 := inc_depth maxd st) in *.
      destruct (match k with AVector => random_size r maxd st0 | ATupleDyn => (nth 0 ps 0, st0) | ATupleFixed c => (c, st0) end)
        as [n st1] eqn:En.
      destruct (fill_elems _ _ _ _ st1) as [[es st2]| |] eqn:Ee; cbn [fbind] in H; try discriminate.
      injection H as <- _.
      destruct (elems_enc _ _ _ _ _ _ _ IH Hxd Ee) as [L F].
      destruct (enc_elems_all (fun e => enc1 false s (f_ty ef) (f_bare ef) (eval_args ps [] (f_args ef)) e) _ F) as [body Hbody].
      assert (Hlen : lenN es = n) by (unfold lenN; rewrite L; apply N2Nat.id).
      cbn [enc1]. rewrite Et. cbn [negb]. rewrite Hbody. cbn [bind_opt]. rewrite Hlen. unfold sane_ok.
      destruct k as [| |c].
      + apply random_size_lt in En. destruct (n <? 4294967296) eqn:E; [cbn; eauto|lia].
      + injection En as <- _. rewrite N.eqb_refl. cbn. eauto.
      + injection En as <- _. rewrite N.eqb_refl. cbn. eauto.
    - (* dictionary *)
      destruct bare; [|discriminate]. cbn [xdef_ok] in Hxd. apply andb_true_iff in Hxd as [Hbo Hde].
      cbn [tydef_ok] in Hd. rewrite Hd in H. cbn [negb] in H.
      set (st0 := inc_depth maxd st) in *.
      destruct (random_size r maxd st0) as [n st1] eqn:En.
      destruct (fill_elems _ _ _ _ st1) as [[es st2]| |] eqn:Ee; cbn [fbind] in H; try discriminate.
      injection H as <- _.
      destruct (elems_enc _ _ _ _ _ _ _ IH Hbo Ee) as [L F].
      assert (HT : Forall (fun y => key_typed kp (entry_key y)) es).
      { eapply Forall_impl; [|exact F]. cbn beta. intros e He. eapply enc_key_typed; eauto. }
      destruct (dict_fold_props kp es [] HT (Forall_nil _) eq_refl) as (Hs & Hin & Hl).
      set (res := fold_left (fun a e => dict_insert kp e a) es []) in *.
      assert (F' : Forall (fun e => exists b, enc1 false s (f_ty ef) (f_bare ef) (eval_args ps [] (f_args ef)) e = Some b) res).
      { apply Forall_forall. intros e He. destruct (Hin e He) as [H|[]]. rewrite Forall_forall in F. now apply F. }
      destruct (enc_elems_all (fun e => enc1 false s (f_ty ef) (f_bare ef) (eval_args ps [] (f_args ef)) e) _ F') as [body Hbody].
      cbn [enc1]. rewrite Et. cbn [negb]. rewrite Hbody. cbn [bind_opt]. rewrite Hs. unfold sane_ok.
      apply random_size_lt in En.
      assert (lenN res < 4294967296) by (unfold lenN; cbn [length] in Hl; lia).
      destruct (lenN res <? 4294967296) eqn:E; [cbn; eauto|lia].
  Qed.
End Valid2.

(** * termination on the non-recursive part of a schema (rank certificate) *)
Lemma ranked_from_lookup s rk : forall l k i d, ranked_from s rk k l = true -> nth_error l i = Some d -> ranked_def s rk (k + i) d = true.
Proof.
  induction l as [|d0 l IH]; intros k i d H Hn; [destruct i; discriminate|].
  cbn [ranked_from] in H. apply andb_true_iff in H as [H0 H1]. destruct i as [|i]; cbn [nth_error] in Hn.
  - injection Hn as <-. now rewrite Nat.add_0_r.
  - rewrite <- Nat.add_succ_comm. now apply IH.
Qed.

Lemma fill_prim_nofuel r maxd p st : fill_prim r maxd p st <> FFuel.
Proof.
  destruct p; cbn [fill_prim]; unfold draw;
    repeat match goal with |- context [let '(_, _) := ?e in _] => destruct e end; discriminate.
Qed.

Lemma fill_fields_nofuel r maxd (rec : nat -> list N -> rstate -> fres (value * rstate)) ps :
  forall fds, (forall fd, In fd fds -> forall args st, rec (f_ty fd) args st <> FFuel) ->
  forall xfs acc st, fill_fields r maxd rec ps fds xfs acc st <> FFuel.
Proof.
  induction fds as [|fd fds IH]; intros Hrec xfs acc st; cbn [fill_fields]; [discriminate|].
  assert (IH' := IH (fun fd' H => Hrec fd' (or_intror H))).
  destruct (field_present ps acc fd); [|apply IH'].
  destruct (fill_used_nat r maxd (xf_use (hd xf_default xfs)) _) as [[v st2]|].
  - cbn [fbind]. apply IH'.
  - destruct (rec (f_ty fd) _ _) as [[v st2]| |] eqn:E; cbn [fbind]; [apply IH'| |discriminate].
    exfalso. exact (Hrec fd (or_introl eq_refl) _ _ E).
Qed.

Lemma fill_elems_nofuel (rec : nat -> list N -> rstate -> fres (value * rstate)) t eargs :
  (forall st, rec t eargs st <> FFuel) -> forall n st, fill_elems rec t eargs n st <> FFuel.
Proof.
  intros Hrec. induction n as [|n IH]; intros st; cbn [fill_elems]; [discriminate|].
  destruct (rec t eargs st) as [[v st1]| |] eqn:E; cbn [fbind]; [| exact (fun _ => Hrec st E) |discriminate].
  destruct (fill_elems rec t eargs n st1) as [[vs st2]| |] eqn:E2; cbn [fbind]; [discriminate| |discriminate].
  intros _. exact (IH st1 E2).
Qed.

Section Term.
  Variable r : rsrc.
  Variable maxd : N.
  Variable s : schema.
  Variable x : xschema.
  Variable rk : list nat.
  Hypothesis Hrk : ranked s rk = true.

  Theorem fill_terminates : forall fuel t, (0 < rank_of rk t <= fuel)%nat ->
    forall ps st, fill r maxd s x fuel t ps st <> FFuel.
  Proof.
    induction fuel as [|fuel IH]; intros t Ht ps st; [lia|].
    cbn [fill]. destruct (nth_error s t) as [d|] eqn:Et; [|discriminate].
    assert (Hd := ranked_from_lookup s rk s 0%nat t d Hrk Et). cbn [plus] in Hd. unfold ranked_def in Hd.
    destruct (Nat.eqb (rank_of rk t) 0) eqn:E0; [apply Nat.eqb_eq in E0; lia|].
    assert (Hfld : forall fd, field_ranked rk t fd = true -> forall args st', fill r maxd s x fuel (f_ty fd) args st' <> FFuel).
    { intros fd Hf args st'. unfold field_ranked in Hf. apply andb_true_iff in Hf as [H1 H2].
      apply Nat.ltb_lt in H1. apply Nat.ltb_lt in H2. apply IH. lia. }
    destruct d as [p|tag fds|vars|k ef|kp ef].
    - apply fill_prim_nofuel.
    - destruct (fill_fields _ _ _ _ _ _ _ _) as [[fs st1]| |] eqn:Ef; cbn [fbind]; [discriminate| |discriminate].
      exfalso. revert Ef. apply fill_fields_nofuel. intros fd Hin. apply Hfld. rewrite forallb_forall in Hd. now apply Hd.
    - rewrite forallb_forall in Hd. destruct (is_maybe x t).
      + destruct (random_uint r maxd st) as [u st1]. destruct (N.odd u); [|discriminate].
        destruct (nth_error vars 1) as [vt|] eqn:Ev; [|discriminate].
        destruct (nth_error s vt) as [dv|] eqn:Evt; [|discriminate].
        destruct dv as [|tagv fdsv| | |]; try discriminate. destruct fdsv as [|fd [|]]; try discriminate.
        specialize (Hd vt (nth_error_In _ _ Ev)). rewrite Evt in Hd. cbn [forallb] in Hd. apply andb_true_iff in Hd as [Hd _].
        destruct (fill r maxd s x fuel (f_ty fd) _ st1) as [[e st2]| |] eqn:Ee; cbn [fbind]; [discriminate| |discriminate].
        exfalso. exact (Hfld fd Hd _ _ Ee).
      + destruct vars as [|v0 vars']; [discriminate|]. set (vars := v0 :: vars') in *.
        destruct (random_uint r maxd st) as [u st1].
        destruct (nth_error vars (N.to_nat (u mod lenN vars))) as [vt|] eqn:Ev; [|discriminate].
        destruct (nth_error s vt) as [dv|] eqn:Evt; [|discriminate]. destruct dv as [|tagv fdsv| | |]; try discriminate.
        specialize (Hd vt (nth_error_In _ _ Ev)). rewrite Evt in Hd.
        destruct (fill_fields _ _ _ _ _ _ _ _) as [[fs st2]| |] eqn:Ef; cbn [fbind]; [discriminate| |discriminate].
        exfalso. revert Ef. apply fill_fields_nofuel. intros fd Hin. apply Hfld. rewrite forallb_forall in Hd. now apply Hd.
    - destruct (match k with AVector => _ | ATupleDyn => _ | ATupleFixed c => _ end) as [n st1].
      destruct (fill_elems _ _ _ _ st1) as [[es st2]| |] eqn:Ee; cbn [fbind]; [discriminate| |discriminate].
      exfalso. revert Ee. apply fill_elems_nofuel. intros st'. now apply Hfld.
    - destruct (negb (key_prim_ok kp)); [discriminate|].
      destruct (random_size r maxd _) as [n st1].
      destruct (fill_elems _ _ _ _ st1) as [[es st2]| |] eqn:Ee; cbn [fbind]; [discriminate| |discriminate].
      exfalso. revert Ee. apply fill_elems_nofuel. intros st'. now apply Hfld.
  Qed.
End Term.

(** * more fuel never changes a result *)
Definition stable {A} (a b : fres A) : Prop := a <> FFuel -> b = a.

Lemma fill_fields_mono r maxd (rec1 rec2 : nat -> list N -> rstate -> fres (value * rstate)) ps :
  (forall t args st, stable (rec1 t args st) (rec2 t args st)) ->
  forall fds xfs acc st, stable (fill_fields r maxd rec1 ps fds xfs acc st) (fill_fields r maxd rec2 ps fds xfs acc st).
Proof.
  intros Hrec. induction fds as [|fd fds IH]; intros xfs acc st; cbn [fill_fields]; [intros _; reflexivity|].
  destruct (field_present ps acc fd); [|apply IH].
  destruct (fill_used_nat r maxd (xf_use (hd xf_default xfs)) _) as [[v st2]|].
  - cbn [fbind]. apply IH.
  - assert (H := Hrec (f_ty fd) (eval_args ps acc (f_args fd)) (if xf_rec (hd xf_default xfs) then inc_depth maxd st else st)).
    destruct (rec1 (f_ty fd) _ _) as [[v st2]| |] eqn:E; cbn [fbind].
    + rewrite (H ltac:(discriminate)). cbn [fbind]. apply IH.
    + intros C. now contradiction C.
    + rewrite (H ltac:(discriminate)). intros _. reflexivity.
Qed.

Lemma fill_elems_mono (rec1 rec2 : nat -> list N -> rstate -> fres (value * rstate)) t eargs :
  (forall st, stable (rec1 t eargs st) (rec2 t eargs st)) ->
  forall n st, stable (fill_elems rec1 t eargs n st) (fill_elems rec2 t eargs n st).
Proof.
  intros Hrec. induction n as [|n IH]; intros st; cbn [fill_elems]; [intros _; reflexivity|].
  assert (H := Hrec st). destruct (rec1 t eargs st) as [[v st1]| |] eqn:E; cbn [fbind].
  - rewrite (H ltac:(discriminate)). cbn [fbind]. assert (H2 := IH st1).
    destruct (fill_elems rec1 t eargs n st1) as [[vs st2]| |] eqn:E2; cbn [fbind].
    + rewrite (H2 ltac:(discriminate)). intros _. reflexivity.
    + intros C. now contradiction C.
    + rewrite (H2 ltac:(discriminate)). intros _. reflexivity.
  - intros C. now contradiction C.
  - rewrite (H ltac:(discriminate)). intros _. reflexivity.
Qed.

Lemma stable_fbind {A B} (a1 a2 : fres A) (f : A -> fres B) : stable a1 a2 -> stable (fbind a1 f) (fbind a2 f).
Proof.
  intros H. destruct a1 as [a| |]; cbn [fbind].
  - rewrite (H ltac:(discriminate)). intros _. reflexivity.
  - intros C. now contradiction C.
  - rewrite (H ltac:(discriminate)). intros _. reflexivity.
Qed.

Theorem fill_fuel_mono r maxd s x : forall fuel fuel', (fuel <= fuel')%nat -> forall t ps st,
  stable (fill r maxd s x fuel t ps st) (fill r maxd s x fuel' t ps st).
Proof.
  induction fuel as [|fuel IH]; intros fuel' Hle t ps st; [intros C; now contradiction C|].
  destruct fuel' as [|fuel']; [lia|]. assert (IH' := IH fuel' ltac:(lia)). clear IH.
  cbn [fill].
  destruct (nth_error s t) as [d|]; [|intros _; reflexivity].
  destruct d as [p|tag fds|vars|k ef|kp ef].
  - intros _. reflexivity.
  - apply stable_fbind. apply fill_fields_mono. exact IH'.
  - destruct (is_maybe x t).
    + destruct (random_uint r maxd st) as [u st1]. destruct (N.odd u); [|intros _; reflexivity].
      destruct (nth_error vars 1) as [vt|]; [|intros _; reflexivity].
      destruct (nth_error s vt) as [dv|]; [|intros _; reflexivity].
      destruct dv as [|tagv fdsv| | |]; try (intros _; reflexivity).
      destruct fdsv as [|fd [|]]; try (intros _; reflexivity).
      apply stable_fbind. apply IH'.
    + destruct vars as [|v0 vars']; [intros _; reflexivity|].
      destruct (random_uint r maxd st) as [u st1].
      destruct (nth_error _ _) as [vt|]; [|intros _; reflexivity].
      destruct (nth_error s vt) as [dv|]; [|intros _; reflexivity].
      destruct dv as [|tagv fdsv| | |]; try (intros _; reflexivity).
      apply stable_fbind. apply fill_fields_mono. exact IH'.
  - destruct (match k with AVector => _ | ATupleDyn => _ | ATupleFixed c => _ end) as [n st1].
    apply stable_fbind. apply fill_elems_mono. intros st'. apply IH'.
  - destruct (negb (key_prim_ok kp)); [intros _; reflexivity|].
    destruct (random_size r maxd _) as [n st1].
    apply stable_fbind. apply fill_elems_mono. intros st'. apply IH'.
Qed.

Corollary fill_fuel_stable r maxd s x t ps st : forall fuel fuel' res,
  fill r maxd s x fuel t ps st = res -> res <> FFuel -> (fuel <= fuel')%nat -> fill r maxd s x fuel' t ps st = res.
Proof.
  intros fuel fuel' res H Hne Hle. rewrite <- H. apply (fill_fuel_mono r maxd s x fuel fuel' Hle). now rewrite H.
Qed.

(** * F7: the depth limiter does not bound recursion through unions *)
Definition f7_schema : schema :=
  [ TPrim PInt;                                                             (* 0  int *)
    TUnion [2; 3]%nat;                                                      (* 1  l.List *)
    TStruct 2385399424 [mkField 0 true None []; mkField 1 false None []];   (* 2  l.cons head:int tail:l.List *)
    TStruct 2295855166 [];                                                  (* 3  l.nil *)
    TArray (ATupleFixed 1) (mkField 1 false None []);                       (* 4  [1]l.List *)
    TStruct 2540729994 [mkField 4 true None []];                            (* 5  tuple<l.List,1> *)
    TArray (ATupleFixed 1) (mkField 5 true None []);                        (* 6 *)
    TStruct 2540729994 [mkField 6 true None []];                            (* 7 *)
    TArray (ATupleFixed 1) (mkField 7 true None []);                        (* 8 *)
    TStruct 2540729994 [mkField 8 true None []];                            (* 9 *)
    TArray (ATupleFixed 1) (mkField 9 true None []);                        (* 10 *)
    TStruct 2540729994 [mkField 10 true None []];                           (* 11 *)
    TArray (ATupleFixed 1) (mkField 11 true None []);                       (* 12 *)
    TStruct 2540729994 [mkField 12 true None []];                           (* 13 tuple<tuple<tuple<tuple<tuple<l.List,1>,1>,1>,1>,1> *)
    TStruct 3454159371 [mkField 13 true None []] ].                         (* 14 f7.top a:(tuple (tuple (tuple (tuple (tuple l.List 1) 1) 1) 1) 1) *)

Section F7.
  Variable r : rsrc.
  Variable maxd : N.

  Definition Dv (fuel : nat) (t : nat) (c : N) : Prop :=
    forall pos ps, fill r maxd f7_schema [] fuel t ps (mkRs pos c) = FFuel.

  Lemma Dv0 t c : Dv 0 t c.
  Proof. intros pos ps. reflexivity. Qed.

  Lemma fill_int f pos c ps : fill r maxd f7_schema [] (S f) 0 ps (mkRs pos c) = FOk (VNum (r_i31 (r pos)), mkRs (pos + 1) c).
  Proof. reflexivity. Qed.

  (** at the depth limit RandomUint is 0, the union takes variant 0 = l.cons, whose tail is the union again *)
  Lemma f7_list_diverges : forall fuel, Dv fuel 1 maxd.
  Proof.
    induction fuel as [|fuel IH]; intros pos ps; [reflexivity|].
    cbn [fill f7_schema nth_error]. unfold is_maybe. cbn [nth_error].
    unfold random_uint. cbn [rs_cur]. rewrite N.leb_refl.
    change (N.to_nat (0 mod lenN [2%nat; 3%nat])) with 0%nat. cbn [nth_error f7_schema].
    cbn [fill_fields field_present f_mask f_ty f_args eval_args map xfields_of nth_error hd xf_default xf_rec xf_use fill_used_nat app tl].
    destruct fuel as [|fuel]; [reflexivity|].
    rewrite fill_int. cbn [fbind].
    cbn [fill_fields field_present f_mask f_ty f_args eval_args map hd xf_default xf_rec xf_use fill_used_nat app tl].
    rewrite IH. reflexivity.
  Qed.

  Lemma step_struct t tag e : nth_error f7_schema t = Some (TStruct tag [mkField e true None []]) ->
    forall fuel c, Dv fuel e c -> Dv (S fuel) t c.
  Proof.
    intros Ht fuel c H pos ps. cbn [fill]. rewrite Ht.
    cbn [fill_fields field_present f_mask f_ty f_args eval_args map hd xf_default xf_rec xf_use fill_used_nat].
    unfold xfields_of. assert (En : nth_error (@nil xdef) t = None) by (destruct t; reflexivity). rewrite En.
    cbn [hd xf_default xf_rec xf_use fill_used_nat]. rewrite H. reflexivity.
  Qed.

  Lemma step_array t e b c c' : nth_error f7_schema t = Some (TArray (ATupleFixed 1) (mkField e b None [])) ->
    rs_cur (inc_depth maxd (mkRs 0 c)) = c' ->
    forall fuel, Dv fuel e c' -> Dv (S fuel) t c.
  Proof.
    intros Ht Hc fuel H pos ps. cbn [fill]. rewrite Ht.
    assert (E : inc_depth maxd (mkRs pos c) = mkRs pos c').
    { revert Hc. unfold inc_depth. cbn [rs_cur rs_pos]. destruct (c =? maxd); cbn [rs_cur]; now intros <-. }
    rewrite E. change (N.to_nat 1) with 1%nat. cbn [fill_elems f_ty f_args eval_args map]. rewrite H. reflexivity.
  Qed.

  Lemma f7_top_diverges : maxd = 2 \/ maxd = 3 \/ maxd = 4 \/ maxd = 5 -> forall fuel, Dv fuel 14 0.
  Proof.
    intros Hm fuel.
    destruct fuel as [|fuel]; [apply Dv0|]. apply (step_struct 14 _ 13 eq_refl).
    destruct fuel as [|fuel]; [apply Dv0|]. apply (step_struct 13 _ 12 eq_refl).
    destruct fuel as [|fuel]; [apply Dv0|].
    assert (A : forall t e b c c' f, nth_error f7_schema t = Some (TArray (ATupleFixed 1) (mkField e b None [])) ->
                 rs_cur (inc_depth maxd (mkRs 0 c)) = c' -> Dv f e c' -> Dv (S f) t c)
      by (intros; eapply step_array; eauto).
    destruct Hm as [-> | [-> | [-> | ->]]].
    all: apply (A 12%nat 11%nat true 0 1 _ eq_refl eq_refl).
    all: destruct fuel as [|fuel]; [apply Dv0|]; apply (step_struct 11 _ 10 eq_refl).
    all: destruct fuel as [|fuel]; [apply Dv0|]; apply (A 10%nat 9%nat true 1 2 _ eq_refl eq_refl).
    all: destruct fuel as [|fuel]; [apply Dv0|]; apply (step_struct 9 _ 8 eq_refl).
    all: destruct fuel as [|fuel]; [apply Dv0|].
    1: apply (A 8%nat 7%nat true 2 2 _ eq_refl eq_refl).
    2-4: apply (A 8%nat 7%nat true 2 3 _ eq_refl eq_refl).
    all: destruct fuel as [|fuel]; [apply Dv0|]; apply (step_struct 7 _ 6 eq_refl).
    all: destruct fuel as [|fuel]; [apply Dv0|].
    1: apply (A 6%nat 5%nat true 2 2 _ eq_refl eq_refl).
    2: apply (A 6%nat 5%nat true 3 3 _ eq_refl eq_refl).
    3-4: apply (A 6%nat 5%nat true 3 4 _ eq_refl eq_refl).
    all: destruct fuel as [|fuel]; [apply Dv0|]; apply (step_struct 5 _ 4 eq_refl).
    all: destruct fuel as [|fuel]; [apply Dv0|].
    1: apply (A 4%nat 1%nat false 2 2 _ eq_refl eq_refl).
    2: apply (A 4%nat 1%nat false 3 3 _ eq_refl eq_refl).
    3: apply (A 4%nat 1%nat false 4 4 _ eq_refl eq_refl).
    4: apply (A 4%nat 1%nat false 4 5 _ eq_refl eq_refl).
    all: match goal with H : maxd = _ |- _ => rewrite <- H end; apply f7_list_diverges.
  Qed.
End F7.

Lemma new_maxd_range r : new_maxd r = 2 \/ new_maxd r = 3 \/ new_maxd r = 4 \/ new_maxd r = 5.
Proof.
  unfold new_maxd, rnd_maxDepth, rnd_minDepth. change (5 - 2 + 1) with 4.
  assert (H := N.mod_lt (r_u32 (r 0)) 4 ltac:(discriminate)). lia.
Qed.

Theorem f7_fill_random_diverges : forall r fuel, fill_random fuel f7_schema [] 14 [] r = FFuel.
Proof. intros r fuel. unfold fill_random. apply f7_top_diverges. apply new_maxd_range. Qed.

(** the second way past the limiter: IncreaseDepth saturates, the matching DecreaseDepth still decrements *)
Lemma depth_unbalanced : forall maxd pos, 0 < maxd ->
  rs_cur (dec_depth (inc_depth maxd (mkRs pos maxd))) = maxd - 1.
Proof.
  intros maxd pos H. unfold inc_depth, dec_depth. cbn [rs_cur rs_pos]. rewrite N.eqb_refl. cbn [rs_cur].
  destruct (maxd =? 0) eqn:E; [lia|]. reflexivity.
Qed.

(** * the value is a function of the words of the stream *)
Section Ext.
  Variables r1 r2 : rsrc.
  Hypothesis Hr : forall i, r1 i = r2 i.
  Variable maxd : N.

  Lemma draw_ext st : draw r1 st = draw r2 st.
  Proof. unfold draw. now rewrite Hr. Qed.
  Lemma random_uint_ext st : random_uint r1 maxd st = random_uint r2 maxd st.
  Proof. unfold random_uint, draw. cbv iota beta. cbn [rs_pos rs_cur]. now rewrite !Hr. Qed.
  Lemma random_size_ext st : random_size r1 maxd st = random_size r2 maxd st.
  Proof. unfold random_size. now rewrite random_uint_ext. Qed.
  Lemma random_field_mask_ext bm st : random_field_mask r1 maxd bm st = random_field_mask r2 maxd bm st.
  Proof. unfold random_field_mask. now rewrite random_uint_ext. Qed.
  Lemma random_letters_ext k : forall st, random_letters r1 k st = random_letters r2 k st.
  Proof. induction k as [|k IH]; intros st; cbn [random_letters]; [reflexivity|]. rewrite draw_ext. destruct (draw r2 st). now rewrite IH. Qed.
  Lemma random_string_ext st : random_string r1 st = random_string r2 st.
  Proof. unfold random_string. rewrite draw_ext. destruct (draw r2 st). apply random_letters_ext. Qed.
  Lemma fill_prim_ext p st : fill_prim r1 maxd p st = fill_prim r2 maxd p st.
  Proof. destruct p; cbn [fill_prim]; rewrite ?random_uint_ext, ?draw_ext, ?random_string_ext; reflexivity. Qed.
  Lemma fill_used_nat_ext u st : fill_used_nat r1 maxd u st = fill_used_nat r2 maxd u st.
  Proof. destruct u; cbn [fill_used_nat]; now rewrite ?random_size_ext, ?random_field_mask_ext. Qed.

  Lemma fill_fields_ext (rec1 rec2 : nat -> list N -> rstate -> fres (value * rstate)) ps :
    (forall t a st, rec1 t a st = rec2 t a st) ->
    forall fds xfs acc st, fill_fields r1 maxd rec1 ps fds xfs acc st = fill_fields r2 maxd rec2 ps fds xfs acc st.
  Proof.
    intros Hrec. induction fds as [|fd fds IH]; intros xfs acc st; cbn [fill_fields]; [reflexivity|].
    destruct (field_present ps acc fd); [|apply IH].
    rewrite fill_used_nat_ext, Hrec.
    destruct (match fill_used_nat r2 maxd _ _ with Some res => FOk res | None => _ end) as [[v st2]| |]; cbn [fbind]; auto.
  Qed.

  Lemma fill_elems_ext (rec1 rec2 : nat -> list N -> rstate -> fres (value * rstate)) t eargs :
    (forall st, rec1 t eargs st = rec2 t eargs st) ->
    forall n st, fill_elems rec1 t eargs n st = fill_elems rec2 t eargs n st.
  Proof.
    intros Hrec. induction n as [|n IH]; intros st; cbn [fill_elems]; [reflexivity|].
    rewrite Hrec. destruct (rec2 t eargs st) as [[v st1]| |]; cbn [fbind]; [|reflexivity|reflexivity]. now rewrite IH.
  Qed.

  Theorem fill_ext s x : forall fuel t ps st, fill r1 maxd s x fuel t ps st = fill r2 maxd s x fuel t ps st.
  Proof.
    induction fuel as [|fuel IH]; intros t ps st; [reflexivity|]. cbn [fill].
    destruct (nth_error s t) as [d|]; [|reflexivity]. destruct d as [p|tag fds|vars|k ef|kp ef].
    - apply fill_prim_ext.
    - now rewrite (fill_fields_ext _ _ ps IH).
    - rewrite random_uint_ext. destruct (is_maybe x t).
      + destruct (random_uint r2 maxd st) as [u st1]. destruct (N.odd u); [|reflexivity].
        destruct (nth_error vars 1); [|reflexivity]. destruct (nth_error s n) as [dv|]; [|reflexivity].
        destruct dv as [|tagv fdsv| | |]; try reflexivity. destruct fdsv as [|fd [|]]; try reflexivity. now rewrite IH.
      + destruct vars; [reflexivity|]. destruct (random_uint r2 maxd st) as [u st1].
        destruct (nth_error _ _) as [vt|]; [|reflexivity]. destruct (nth_error s vt) as [dv|]; [|reflexivity].
        destruct dv as [|tagv fdsv| | |]; try reflexivity. now rewrite (fill_fields_ext _ _ ps IH).
    - rewrite random_size_ext.
      destruct (match k with AVector => _ | ATupleDyn => _ | ATupleFixed c => _ end) as [n st1].
      now rewrite (fill_elems_ext _ _ (f_ty ef) (eval_args ps [] (f_args ef)) (IH _ _)).
    - destruct (negb (key_prim_ok kp)); [reflexivity|]. rewrite random_size_ext.
      destruct (random_size r2 maxd _) as [n st1].
      now rewrite (fill_elems_ext _ _ (f_ty ef) (eval_args ps [] (f_args ef)) (IH _ _)).
  Qed.
End Ext.

Theorem fill_random_ext fuel s x t ps r1 r2 : (forall i, r1 i = r2 i) ->
  fill_random fuel s x t ps r1 = fill_random fuel s x t ps r2.
Proof.
  intros H. unfold fill_random, new_maxd. rewrite (H 0). apply fill_ext. exact H.
Qed.
