(** C09 -- decoding into a reused object.  Executable model of the generated ReadTL1 methods acting on an
    EXISTING Go object (qt_struct.qtpl readFields: fields whose mask bit is clear are reset in the else
    branch; qt_brackets.qtpl: slices are re-sliced when the capacity suffices and their old elements are read
    into, otherwise re-made; fixed arrays are read in place; qt_union.qtpl: `item.index = i` then the stored
    variant value is read into, the other variants keep what they held; qt_maybe.qtpl: Ok / Value likewise;
    qt_dict.qtpl: map-backed dictionaries are cleared and filled from a fresh local element), and of
    Reset / TypeResettingCode.  The object state [ostate] keeps what the Go object keeps beyond the wire value:
    stale slice tails, unselected union variants, values of absent fields.
    Spec = the pure reader [dec1] of Tl1Model.  Executable definitions only. *)
From Coq Require Export List NArith Bool.
From TLV Require Export Prim.PrimModel Tl1.Tl1Model.
Export ListNotations.
Open Scope N_scope.

Inductive ostate :=
| OFresh                                   (* zero value of whatever type stands here (nil pointer, empty slice, ...) *)
| ONum (n : N)
| OStr (s : bytes)
| OBool (b : bool)
| OStruct (fs : list ostate)               (* every field has a state, present or not *)
| OUnion (idx : nat) (vs : list ostate)    (* index + one stored value per variant *)
| OArr (live stale : list ostate).         (* slice: elements [0:len], then the capacity beyond len *)

(** nat arguments and field masks are evaluated on the Go fields themselves *)
Definition onat (o : ostate) : N := match o with ONum n => n | _ => 0 end.
Definition ofield_nat (fs : list ostate) (i : nat) : N := onat (nth i fs OFresh).
Definition oeval_natarg (ps : list N) (fs : list ostate) (a : natarg) : N :=
  match a with
  | NNum n => n
  | NField i => ofield_nat fs i
  | NParam i => nth i ps 0
  end.
Definition oeval_args (ps : list N) (fs : list ostate) (l : list natarg) : list N := map (oeval_natarg ps fs) l.
Definition ofield_present (ps : list N) (fs : list ostate) (f : field) : bool :=
  match f_mask f with
  | None => true
  | Some (a, bit) => N.testbit (oeval_natarg ps fs a) bit
  end.

Fixpoint set_nth (i : nat) (x : ostate) (l : list ostate) : list ostate :=
  match i, l with
  | O, [] => [x]
  | O, _ :: r => x :: r
  | S i', [] => OFresh :: set_nth i' x []
  | S i', y :: r => y :: set_nth i' x r
  end.

(** * Reset (generated Reset() methods / TypeResettingCode) *)
Section ResetFields.
  Variable rst : nat -> ostate -> ostate.
  Variable rstE : ostate -> ostate.
  Fixpoint reset_fields (fds : list field) (olds : list ostate) : list ostate :=
    match fds with
    | [] => []
    | fd :: fds' => rst (f_ty fd) (hd OFresh olds) :: reset_fields fds' (tl olds)
    end.
  Fixpoint reset_elems (n : nat) (olds : list ostate) : list ostate :=
    match n with
    | O => []
    | S n' => rstE (hd OFresh olds) :: reset_elems n' (tl olds)
    end.
End ResetFields.

Fixpoint oreset (fuel : nat) (s : schema) (t : nat) (o : ostate) : ostate :=
  match fuel with
  | O => OFresh
  | S fuel' =>
      match nth_error s t with
      | None => OFresh
      | Some (TPrim p) =>
          match p with
          | PString => OStr []
          | PBool _ _ => OBool false
          | _ => ONum 0
          end
      | Some (TStruct _ fds) =>
          OStruct (reset_fields (oreset fuel' s) fds (match o with OStruct fs => fs | _ => [] end))
      | Some (TUnion vars) =>                      (* Reset(): index 0, ResetTo<variant 0>(); Maybe: Ok = false *)
          let vs := match o with OUnion _ vs => vs | _ => [] end in
          match vars with
          | v0 :: _ => OUnion 0 (set_nth 0 (oreset fuel' s v0 (nth 0 vs OFresh)) vs)
          | [] => OUnion 0 vs
          end
      | Some (TArray k ef) =>
          match k with
          | ATupleFixed c =>                          (* [c]T: element-wise Reset *)
              OArr (reset_elems (oreset fuel' s (f_ty ef)) (N.to_nat c) (match o with OArr live _ => live | _ => [] end)) []
          | _ =>                                      (* vec = vec[:0] *)
              match o with
              | OArr live stale => OArr [] (live ++ stale)
              | _ => OArr [] []
              end
          end
      | Some (TDict _ _) => OArr [] []              (* clear(m) *)
      end
  end.

(** * a freshly created object (factory: zero value; nil pointers and empty slices are [OFresh]-free here
    because the writers treat nil as the zero value of the pointed-to type) *)
Fixpoint ozero (fuel : nat) (s : schema) (t : nat) : ostate :=
  match fuel with
  | O => OFresh
  | S fuel' =>
      match nth_error s t with
      | None => OFresh
      | Some (TPrim p) =>
          match p with
          | PString => OStr []
          | PBool _ _ => OBool false
          | _ => ONum 0
          end
      | Some (TStruct _ fds) => OStruct (map (fun fd => ozero fuel' s (f_ty fd)) fds)
      | Some (TUnion vars) =>
          match vars with
          | v0 :: _ => OUnion 0 [ozero fuel' s v0]
          | [] => OUnion 0 []
          end
      | Some (TArray k ef) =>
          match k with
          | ATupleFixed c => OArr (repeat (ozero fuel' s (f_ty ef)) (N.to_nat c)) []
          | _ => OArr [] []
          end
      | Some (TDict _ _) => OArr [] []
      end
  end.

(** * canonical object holding a wire value and nothing else (what a map element / fresh local holds) *)
Fixpoint inj (v : value) : ostate :=
  match v with
  | VNum n => ONum n
  | VStr s => OStr s
  | VBool b => OBool b
  | VStruct fs => OStruct (map (fun ov => match ov with Some x => inj x | None => OFresh end) fs)
  | VUnion idx fs =>
      OUnion idx (set_nth idx (OStruct (map (fun ov => match ov with Some x => inj x | None => OFresh end) fs)) [])
  | VArr es => OArr (map inj es) []
  end.

(** * ReadTL1 into an existing object.  [None] = out of fuel.  [rfuel] bounds the depth to which the Reset of an
    absent field is followed (Go: as deep as the object is allocated) *)
Definition ires := option (res (ostate * bytes)).

Section Into.
  Variable rec : nat -> bool -> list N -> ostate -> bytes -> ires.
  Variable rst : nat -> ostate -> ostate.

  Fixpoint dinto_fields (ps : list N) (fds : list field) (olds acc : list ostate) (b : bytes)
    : option (res (list ostate * bytes)) :=
    match fds with
    | [] => Some (Ok (acc, b))
    | fd :: fds' =>
        let old := hd OFresh olds in
        if ofield_present ps acc fd then
          match rec (f_ty fd) (f_bare fd) (oeval_args ps acc (f_args fd)) old b with
          | None => None
          | Some (Ok (o', b')) => dinto_fields ps fds' (tl olds) (acc ++ [o']) b'
          | Some Eof => Some Eof
          | Some Reject => Some Reject
          end
        else dinto_fields ps fds' (tl olds) (acc ++ [rst (f_ty fd) old]) b     (* else-branch: the field is reset *)
    end.
End Into.

(** elements: element i is read into the i-th old element; the count is a binary number *)
Definition istate := (list ostate * list ostate * bytes)%type.      (* new elements (reversed), old elements left, input *)
Definition istep (rec : ostate -> bytes -> ires) (st : istate) : option (res istate) :=
  let '(acc, olds, b) := st in
  match rec (hd OFresh olds) b with
  | None => None
  | Some (Ok (o', b')) => Some (Ok (o' :: acc, tl olds, b'))
  | Some Eof => Some Eof
  | Some Reject => Some Reject
  end.

Definition ibind (x : option (res istate)) (f : istate -> option (res istate)) : option (res istate) :=
  match x with
  | None => None
  | Some (Ok st) => f st
  | Some Eof => Some Eof
  | Some Reject => Some Reject
  end.

Fixpoint piter (f : istate -> option (res istate)) (p : positive) (st : istate) : option (res istate) :=
  match p with
  | xH => f st
  | xO p' => ibind (piter f p' st) (piter f p')
  | xI p' => ibind (f st) (fun st1 => ibind (piter f p' st1) (piter f p'))
  end.

Definition dinto_elems (rec : ostate -> bytes -> ires) (n : N) (olds : list ostate) (b : bytes)
  : option (res (list ostate * list ostate * bytes)) :=
  match n with
  | N0 => Some (Ok ([], olds, b))
  | Npos p =>
      match piter (istep rec) p ([], olds, b) with
      | None => None
      | Some (Ok (acc, rest, b')) => Some (Ok (rev acc, rest, b'))
      | Some Eof => Some Eof
      | Some Reject => Some Reject
      end
  end.

Fixpoint dinto (fuel rfuel : nat) (san : bool) (s : schema) (t : nat) (bare : bool) (ps : list N) (o : ostate) (b : bytes) : ires :=
  match fuel with
  | O => None
  | S fuel' =>
      match nth_error s t with
      | None => Some Reject
      | Some (TPrim p) =>                                  (* scalars and strings are overwritten *)
          Some (match dec_prim p b with
                | Ok (v, r) => Ok (inj v, r)
                | Eof => Eof
                | Reject => Reject
                end)
      | Some (TStruct tag fds) =>
          let olds := match o with OStruct fs => fs | _ => [] end in
          let go b' :=
            match dinto_fields (dinto fuel' rfuel san s) (oreset rfuel s) ps fds olds [] b' with
            | None => None
            | Some (Ok (fs, r)) => Some (Ok (OStruct fs, r))
            | Some Eof => Some Eof
            | Some Reject => Some Reject
            end in
          if bare then go b
          else match nat_r b with
               | Ok (tg, b') => if tg =? tag then go b' else Some Reject
               | Eof => Some Eof
               | Reject => Some Reject
               end
      | Some (TUnion vars) =>
          if bare then Some Reject else
          let vs := match o with OUnion _ vs => vs | _ => [] end in
          match nat_r b with
          | Ok (tg, b') =>
              match find_variant s vars tg O with
              | Some (idx, fds) =>                         (* item.index = idx; item.value<idx>.ReadTL1(w) *)
                  let olds := match nth idx vs OFresh with OStruct fs => fs | _ => [] end in
                  match dinto_fields (dinto fuel' rfuel san s) (oreset rfuel s) ps fds olds [] b' with
                  | None => None
                  | Some (Ok (fs, r)) => Some (Ok (OUnion idx (set_nth idx (OStruct fs) vs), r))
                  | Some Eof => Some Eof
                  | Some Reject => Some Reject
                  end
              | None => Some Reject
              end
          | Eof => Some Eof
          | Reject => Some Reject
          end
      | Some (TArray k ef) =>
          if negb bare then Some Reject else
          let eargs := eval_args ps [] (f_args ef) in
          let olds0 := match o with OArr live stale => live ++ stale | _ => [] end in
          let elems n b' :=
            let olds := match k with
                        | ATupleFixed _ => olds0                                    (* [c]T: in place *)
                        | _ => if lenN olds0 <? n then [] else olds0                (* cap < n: make; else vec[:n] *)
                        end in
            match dinto_elems (dinto fuel' rfuel san s (f_ty ef) (f_bare ef) eargs) n olds b' with
            | None => None
            | Some (Ok (es, rest, r)) => Some (Ok (OArr es rest, r))
            | Some Eof => Some Eof
            | Some Reject => Some Reject
            end in
          match k with
          | AVector =>
              match read_count san b with
              | Ok (n, b') => elems n b'
              | Eof => Some Eof
              | Reject => Some Reject
              end
          | ATupleDyn =>
              let n := nth 0 ps 0 in
              if san && negb (check_length_sanity b n 4) then Some Eof else elems n b
          | ATupleFixed c => elems c b                 (* Go array [c]T: no length-sanity check *)
          end
      | Some (TDict kp ef) =>
          (* clear(m); every element is read into a fresh local and stored in the map: no old state is used *)
          match dec1 fuel san s t bare ps b with
          | None => None
          | Some (Ok (v, r)) => Some (Ok (inj v, r))
          | Some Eof => Some Eof
          | Some Reject => Some Reject
          end
      end
  end.

(** * WriteTL1 from an object (generated writers: masks from the fields, slice [0:len], selected variant) *)
Section EncO.
  Variable rec : nat -> bool -> list N -> ostate -> option bytes.
  Variable ps : list N.
  Variable all : list ostate.
  Fixpoint oenc_fields (fds : list field) (os : list ostate) {struct os} : option bytes :=
    match fds, os with
    | [], [] => Some []
    | fd :: fds', o :: os' =>
        if ofield_present ps all fd then
          bind_opt (rec (f_ty fd) (f_bare fd) (oeval_args ps all (f_args fd)) o) (fun b1 =>
          bind_opt (oenc_fields fds' os') (fun b2 => Some (b1 ++ b2)))
        else oenc_fields fds' os'
    | _, _ => None
    end.
End EncO.

Section EncOE.
  Variable rec : ostate -> option bytes.
  Fixpoint oenc_elems (es : list ostate) : option bytes :=
    match es with
    | [] => Some []
    | e :: es' => bind_opt (rec e) (fun b1 => bind_opt (oenc_elems es') (fun b2 => Some (b1 ++ b2)))
    end.
End EncOE.

Section Pick.
  Variable f : ostate -> option bytes.
  Fixpoint pick (l : list ostate) (i : nat) : option bytes :=
    match l, i with
    | [], _ => None
    | x :: _, O => f x
    | _ :: r, S i' => pick r i'
    end.
End Pick.

Definition oprim (o : ostate) : value :=
  match o with ONum n => VNum n | OStr s => VStr s | OBool b => VBool b | _ => VNum 0 end.

Fixpoint oenc (s : schema) (t : nat) (bare : bool) (ps : list N) (o : ostate) {struct o} : option bytes :=
  match nth_error s t with
  | None => None
  | Some (TPrim p) =>
      match o with
      | ONum _ | OStr _ | OBool _ => enc_prim p (oprim o)
      | _ => None
      end
  | Some (TStruct tag fds) =>
      match o with
      | OStruct fs =>
          bind_opt (oenc_fields (fun t' b' ps' o' => oenc s t' b' ps' o') ps fs fds fs) (fun body =>
          Some (if bare then body else nat_w tag ++ body))
      | _ => None
      end
  | Some (TUnion vars) =>
      match o with
      | OUnion idx vs =>
          if bare then None else
          match nth_error vars idx with
          | Some vt =>
              match nth_error s vt with
              | Some (TStruct tag fds) =>
                  pick (fun x => match x with
                                 | OStruct fs =>
                                     bind_opt (oenc_fields (fun t' b' ps' o' => oenc s t' b' ps' o') ps fs fds fs)
                                              (fun body => Some (nat_w tag ++ body))
                                 | _ => None
                                 end) vs idx
              | _ => None
              end
          | None => None
          end
      | _ => None
      end
  | Some (TArray k ef) =>
      match o with
      | OArr es _ =>
          if negb bare then None else
          let n := lenN es in
          let eargs := eval_args ps [] (f_args ef) in
          bind_opt (oenc_elems (fun e => oenc s (f_ty ef) (f_bare ef) eargs e) es) (fun body =>
          match k with
          | AVector => if n <? 4294967296 then Some (nat_w n ++ body) else None
          | ATupleDyn => if n =? nth 0 ps 0 then Some body else None
          | ATupleFixed c => if n =? c then Some body else None
          end)
      | _ => None
      end
  | Some (TDict kp ef) =>
      match o with
      | OArr es _ =>
          if negb bare then None else
          let n := lenN es in
          let eargs := eval_args ps [] (f_args ef) in
          bind_opt (oenc_elems (fun e => oenc s (f_ty ef) (f_bare ef) eargs e) es) (fun body =>
          if n <? 4294967296 then Some (nat_w n ++ body) else None)     (* the map writer sorts the keys itself *)
      | _ => None
      end
  end.
