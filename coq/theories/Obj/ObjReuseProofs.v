(** Proofs about decoding into a reused object (C09): whatever the object held before, ReadTL1 behaves as
    the pure reader [dec1] -- same verdict, same rest, and the new object state represents the decoded
    value; the writer looks only at the represented part. *)
From Coq Require Import ZArith Lia ZifyN ZifyNat ZifyBool.
From TLV Require Import Prim.PrimModel Prim.PrimProofs Tl1.Tl1Model Tl1.Tl1Proofs Obj.ObjReuseModel.
Ltac Zify.zify_post_hook ::= Z.div_mod_to_equations.
Open Scope N_scope.

(** * [rep o v]: the object state [o] holds the wire value [v] (plus anything in the parts no writer looks at) *)
Section RepL.
  Variable R : ostate -> value -> Prop.
  Fixpoint rep_opts (os : list ostate) (vs : list (option value)) {struct vs} : Prop :=
    match vs, os with
    | [], [] => True
    | ov :: vs', o :: os' => match ov with Some v => R o v | None => onat o = 0 end /\ rep_opts os' vs'
    | _, _ => False
    end.
  Fixpoint rep_elems (os : list ostate) (es : list value) {struct es} : Prop :=
    match es, os with
    | [], [] => True
    | e :: es', o :: os' => R o e /\ rep_elems os' es'
    | _, _ => False
    end.
End RepL.

Fixpoint rep (o : ostate) (v : value) {struct v} : Prop :=
  match v with
  | VNum n => o = ONum n
  | VStr s => o = OStr s
  | VBool b => o = OBool b
  | VStruct vs => exists fs, o = OStruct fs /\ rep_opts (fun o' v' => rep o' v') fs vs
  | VUnion idx vs => exists ovs fs, o = OUnion idx ovs /\ nth_error ovs idx = Some (OStruct fs) /\ rep_opts (fun o' v' => rep o' v') fs vs
  | VArr es => exists live stale, o = OArr live stale /\ rep_elems (fun o' v' => rep o' v') live es
  end.

Notation ropts := (rep_opts (fun o' v' => rep o' v')).
Notation relems := (rep_elems (fun o' v' => rep o' v')).

Lemma rep_onat o v : rep o v -> onat o = match v with VNum n => n | _ => 0 end.
Proof.
  destruct v; cbn [rep]; intros H.
  - now subst.
  - now subst.
  - now subst.
  - destruct H as (fs' & -> & _). reflexivity.
  - destruct H as (ovs & fs' & -> & _). reflexivity.
  - destruct H as (l' & st & -> & _). reflexivity.
Qed.

Lemma ropts_nat : forall vs os, ropts os vs -> forall i, ofield_nat os i = field_nat vs i.
Proof.
  induction vs as [|ov vs IH]; intros [|o os] H i; cbn [rep_opts] in H; try contradiction.
  - unfold ofield_nat, field_nat. destruct i; reflexivity.
  - destruct H as [H0 H1]. destruct i as [|i].
    + unfold ofield_nat, field_nat. cbn [nth nth_error]. destruct ov as [v|]; [|exact H0].
      rewrite (rep_onat _ _ H0). reflexivity.
    + unfold ofield_nat, field_nat in *. cbn [nth nth_error]. apply (IH os H1 i).
Qed.

Lemma ropts_app : forall vs os vs' os', ropts os vs -> ropts os' vs' -> ropts (os ++ os') (vs ++ vs').
Proof.
  induction vs as [|ov vs IH]; intros [|o os] vs' os' H H'; cbn [rep_opts] in H; try contradiction; cbn [app]; [exact H'|].
  destruct H as [H0 H1]. cbn [rep_opts]. split; [exact H0|]. now apply IH.
Qed.

Lemma ropts_natarg ps os vs a : ropts os vs -> oeval_natarg ps os a = eval_natarg ps vs a.
Proof. intros H. destruct a; cbn [oeval_natarg eval_natarg]; try reflexivity. now apply ropts_nat. Qed.
Lemma ropts_args ps os vs l : ropts os vs -> oeval_args ps os l = eval_args ps vs l.
Proof. intros H. unfold oeval_args, eval_args. apply map_ext. intros a. now apply ropts_natarg. Qed.
Lemma ropts_present ps os vs fd : ropts os vs -> ofield_present ps os fd = field_present ps vs fd.
Proof. intros H. unfold ofield_present, field_present. destruct (f_mask fd) as [[a bit]|]; [|reflexivity]. now rewrite (ropts_natarg ps os vs a H). Qed.

Lemma relems_app : forall es os es' os', relems os es -> relems os' es' -> relems (os ++ os') (es ++ es').
Proof.
  induction es as [|e es IH]; intros [|o os] es' os' H H'; cbn [rep_elems] in H; try contradiction; cbn [app]; [exact H'|].
  destruct H as [H0 H1]. cbn [rep_elems]. split; [exact H0|]. now apply IH.
Qed.

Lemma relems_rev : forall es os, relems os es -> relems (rev os) (rev es).
Proof.
  induction es as [|e es IH]; intros [|o os] H; cbn [rep_elems] in H; try contradiction; [exact I|].
  destruct H as [H0 H1]. cbn [rev]. apply relems_app; [now apply IH|]. cbn [rep_elems]. auto.
Qed.

Lemma set_nth_get i x : forall l, nth_error (set_nth i x l) i = Some x.
Proof. induction i as [|i IH]; intros [|y l]; cbn [set_nth nth_error]; auto. Qed.

(** the canonical object of a value represents it *)
Lemma rep_inj : forall v, rep (inj v) v.
Proof.
  induction v as [n|str|bv|fs IH|idx fs IH|es IH] using value_ind'; cbn [rep inj]; try reflexivity.
  - eexists. split; [reflexivity|]. induction IH as [|ov fs Hov _ IHfs]; cbn [map rep_opts]; [exact I|].
    split; [|exact IHfs]. destruct ov; [exact Hov|reflexivity].
  - eexists _, _. split; [reflexivity|]. split; [apply set_nth_get|].
    induction IH as [|ov fs Hov _ IHfs]; cbn [map rep_opts]; [exact I|].
    split; [|exact IHfs]. destruct ov; [exact Hov|reflexivity].
  - eexists _, _. split; [reflexivity|]. induction IH as [|e es He _ IHes]; cbn [map rep_elems]; [exact I|]. auto.
Qed.

(** * simulation: reading into any object behaves as the pure reader *)
Definition sim (x : ires) (y : dres) : Prop :=
  match x, y with
  | None, None => True
  | Some Eof, Some Eof => True
  | Some Reject, Some Reject => True
  | Some (Ok (o, r)), Some (Ok (v, r')) => r = r' /\ rep o v
  | _, _ => False
  end.

Definition simf (x : option (res (list ostate * bytes))) (y : option (res (list (option value) * bytes))) : Prop :=
  match x, y with
  | None, None => True
  | Some Eof, Some Eof => True
  | Some Reject, Some Reject => True
  | Some (Ok (fs, r)), Some (Ok (vs, r')) => r = r' /\ ropts fs vs
  | _, _ => False
  end.

Lemma fields_sim (rec : nat -> bool -> list N -> ostate -> bytes -> ires) (drec : nat -> bool -> list N -> bytes -> dres)
      (rst : nat -> ostate -> ostate) ps :
  (forall t bare ps' old b, sim (rec t bare ps' old b) (drec t bare ps' b)) ->
  (forall t o, onat (rst t o) = 0) ->
  forall fds olds acco accv b, ropts acco accv ->
    simf (dinto_fields rec rst ps fds olds acco b) (dec_fields drec ps fds accv b).
Proof.
  intros Hrec Hrst. induction fds as [|fd fds IH]; intros olds acco accv b Hacc; cbn [dinto_fields dec_fields].
  - cbn [simf]. auto.
  - rewrite (ropts_present ps acco accv fd Hacc), (ropts_args ps acco accv _ Hacc).
    destruct (field_present ps accv fd).
    + specialize (Hrec (f_ty fd) (f_bare fd) (eval_args ps accv (f_args fd)) (hd OFresh olds) b).
      destruct (rec _ _ _ _ _) as [[[o' b']| |]|]; destruct (drec _ _ _ _) as [[[v b'']| |]|]; cbn [sim] in Hrec; try contradiction; try exact I.
      destruct Hrec as [<- Hr]. apply IH. apply ropts_app; [exact Hacc|]. cbn [rep_opts]. auto.
    + apply IH. apply ropts_app; [exact Hacc|]. cbn [rep_opts]. auto.
Qed.

Definition RS (a : istate) (b : estate) : Prop :=
  let '(acc, _, bo) := a in snd b = bo /\ relems acc (fst b).

Definition simst (x : option (res istate)) (y : option (res estate)) : Prop :=
  match x, y with
  | None, None => True
  | Some Eof, Some Eof => True
  | Some Reject, Some Reject => True
  | Some (Ok a), Some (Ok b) => RS a b
  | _, _ => False
  end.

Lemma step_sim (rec : ostate -> bytes -> ires) (drec : bytes -> dres) :
  (forall old b, sim (rec old b) (drec b)) -> forall a b, RS a b -> simst (istep rec a) (estep drec b).
Proof.
  intros H [[acc olds] bo] [accv bv] [Hb Hacc]. cbn [fst snd] in *. subst bv. unfold istep, estep. cbn [fst snd].
  specialize (H (hd OFresh olds) bo).
  destruct (rec _ _) as [[[o' b']| |]|]; destruct (drec _) as [[[v b'']| |]|]; cbn [sim] in H; try contradiction; try exact I.
  destruct H as [<- Hr]. cbn [simst RS fst snd rep_elems]. auto.
Qed.

Lemma bind_sim x y f g : simst x y -> (forall a b, RS a b -> simst (f a) (g b)) -> simst (ibind x f) (obind y g).
Proof.
  intros H Hfg. destruct x as [[a| |]|]; destruct y as [[b| |]|]; cbn [simst] in H; try contradiction; cbn [ibind obind simst]; auto.
Qed.

Lemma piter_sim f g : (forall a b, RS a b -> simst (f a) (g b)) ->
  forall p a b, RS a b -> simst (piter f p a) (pos_iter g p b).
Proof.
  intros Hfg. induction p as [p IH|p IH|]; intros a b Hab; cbn [piter pos_iter].
  - apply bind_sim; [now apply Hfg|]. intros a1 b1 H1. apply bind_sim; [now apply IH|]. intros a2 b2 H2. now apply IH.
  - apply bind_sim; [now apply IH|]. intros a1 b1 H1. now apply IH.
  - now apply Hfg.
Qed.

Definition sime (x : option (res (list ostate * list ostate * bytes))) (y : option (res (list value * bytes))) : Prop :=
  match x, y with
  | None, None => True
  | Some Eof, Some Eof => True
  | Some Reject, Some Reject => True
  | Some (Ok (es, _, r)), Some (Ok (vs, r')) => r = r' /\ relems es vs
  | _, _ => False
  end.

Lemma elems_sim (rec : ostate -> bytes -> ires) (drec : bytes -> dres) :
  (forall old b, sim (rec old b) (drec b)) ->
  forall n olds b, sime (dinto_elems rec n olds b) (dec_elems drec n b).
Proof.
  intros H n olds b. unfold dinto_elems, dec_elems. destruct n as [|p]; [cbn; auto|].
  assert (S := piter_sim (istep rec) (estep drec) (step_sim rec drec H) p ([], olds, b) ([], b)).
  specialize (S ltac:(cbn; auto)).
  destruct (piter _ _ _) as [[[[acc rest] b']| |]|]; destruct (pos_iter _ _ _) as [[[accv bv]| |]|]; cbn [simst] in S; try contradiction; cbn [sime]; auto.
  destruct S as [Hb Hacc]. cbn [fst snd] in *. split; [now symmetry|]. now apply relems_rev.
Qed.

Lemma oreset_onat fuel s t o : onat (oreset fuel s t o) = 0.
Proof.
  destruct fuel as [|fuel]; [reflexivity|]. cbn [oreset].
  destruct (nth_error s t) as [d|]; [|reflexivity]. destruct d as [p|tag fds|vars|k ef|kp ef]; try reflexivity.
  - destruct p; reflexivity.
  - destruct vars; reflexivity.
  - destruct k; try reflexivity; destruct o; reflexivity.
Qed.

Lemma sim_inj x : sim (match x with None => None | Some (Ok (v, r)) => Some (Ok (inj v, r)) | Some Eof => Some Eof | Some Reject => Some Reject end) x.
Proof. destruct x as [[[v r]| |]|]; cbn [sim]; auto. split; [reflexivity|apply rep_inj]. Qed.

Theorem dinto_sim : forall fuel rfuel san s t bare ps old b,
  sim (dinto fuel rfuel san s t bare ps old b) (dec1 fuel san s t bare ps b).
Proof.
  induction fuel as [|fuel IH]; intros rfuel san s t bare ps old b; [exact I|].
  cbn [dinto]. destruct (nth_error s t) as [d|] eqn:Et; [|cbn [dec1]; rewrite Et; exact I].
  destruct d as [p|tag fds|vars|k ef|kp ef]; [cbn [dec1]; rewrite Et ..|apply sim_inj].
  - (* primitive *)
    destruct (dec_prim p b) as [[v r]| |]; cbn [sim]; auto. split; [reflexivity|apply rep_inj].
  - (* struct *)
    assert (G : forall b', sim
      match dinto_fields (dinto fuel rfuel san s) (oreset rfuel s) ps fds (match old with OStruct fs => fs | _ => [] end) [] b' with
      | None => None | Some (Ok (fs, r)) => Some (Ok (OStruct fs, r)) | Some Eof => Some Eof | Some Reject => Some Reject end
      match dec_fields (dec1 fuel san s) ps fds [] b' with
      | None => None | Some (Ok (fs, r)) => Some (Ok (VStruct fs, r)) | Some Eof => Some Eof | Some Reject => Some Reject end).
    { intros b'.
      assert (F := fields_sim (dinto fuel rfuel san s) (dec1 fuel san s) (oreset rfuel s) ps (IH rfuel san s) (oreset_onat rfuel s)
                     fds (match old with OStruct fs => fs | _ => [] end) [] [] b' I).
      destruct (dinto_fields _ _ _ _ _ _ _) as [[[fs r]| |]|]; destruct (dec_fields _ _ _ _ _) as [[[vs r']| |]|]; cbn [simf] in F; try contradiction; cbn [sim]; auto.
      destruct F as [<- Hf]. split; [reflexivity|]. cbn [rep]. eauto. }
    destruct bare; [apply G|]. destruct (nat_r b) as [[tg b']| |]; cbn [sim]; auto. destruct (tg =? tag); [apply G|exact I].
  - (* union *)
    destruct bare; [exact I|]. destruct (nat_r b) as [[tg b']| |]; cbn [sim]; auto.
    destruct (find_variant s vars tg 0) as [[idx fds]|]; [|exact I].
    set (vs := match old with OUnion _ vs => vs | _ => [] end).
    assert (F := fields_sim (dinto fuel rfuel san s) (dec1 fuel san s) (oreset rfuel s) ps (IH rfuel san s) (oreset_onat rfuel s)
                   fds (match nth idx vs OFresh with OStruct fs => fs | _ => [] end) [] [] b' I).
    destruct (dinto_fields _ _ _ _ _ _ _) as [[[fs r]| |]|]; destruct (dec_fields _ _ _ _ _) as [[[vls r']| |]|]; cbn [simf] in F; try contradiction; cbn [sim]; auto.
    destruct F as [<- Hf]. split; [reflexivity|]. cbn [rep]. eexists _, _. split; [reflexivity|]. split; [apply set_nth_get|exact Hf].
  - (* array *)
    destruct (negb bare); [exact I|].
    set (eargs := eval_args ps [] (f_args ef)).
    set (olds0 := match old with OArr live stale => live ++ stale | _ => [] end).
    assert (G : forall n olds b', sim
      match dinto_elems (dinto fuel rfuel san s (f_ty ef) (f_bare ef) eargs) n olds b' with
      | None => None | Some (Ok (es, rest, r)) => Some (Ok (OArr es rest, r)) | Some Eof => Some Eof | Some Reject => Some Reject end
      match dec_elems (dec1 fuel san s (f_ty ef) (f_bare ef) eargs) n b' with
      | None => None | Some (Ok (es, r)) => Some (Ok (VArr es, r)) | Some Eof => Some Eof | Some Reject => Some Reject end).
    { intros n olds b'.
      assert (E := elems_sim (dinto fuel rfuel san s (f_ty ef) (f_bare ef) eargs) (dec1 fuel san s (f_ty ef) (f_bare ef) eargs)
                     (fun o' b'' => IH rfuel san s (f_ty ef) (f_bare ef) eargs o' b'') n olds b').
      destruct (dinto_elems _ _ _ _) as [[[[es rest] r]| |]|]; destruct (dec_elems _ _ _) as [[[vs r']| |]|]; cbn [sime] in E; try contradiction; cbn [sim]; auto.
      destruct E as [<- He]. split; [reflexivity|]. cbn [rep]. eauto. }
    destruct k as [| |c].
    + destruct (read_count san b) as [[n b']| |]; cbn [sim]; auto.
    + destruct (san && negb (check_length_sanity b (nth 0 ps 0) 4)); [exact I|apply G].
    + apply G.
Qed.

(** * the writer looks only at the represented part of the object *)
Definition WR (s : schema) (v : value) : Prop :=
  forall o t bare ps b, rep o v -> enc1 false s t bare ps v = Some b -> oenc s t bare ps o = Some b.

Lemma oenc_fields_rep (ENCO : nat -> bool -> list N -> ostate -> option bytes)
      (ENCV : nat -> bool -> list N -> value -> option bytes) ps allo allv :
  ropts allo allv ->
  forall vs os fds b, ropts os vs ->
    Forall (Popt (fun v => forall o t bare ps b, rep o v -> ENCV t bare ps v = Some b -> ENCO t bare ps o = Some b)) vs ->
    enc_fields ENCV ps allv fds vs = Some b -> oenc_fields ENCO ps allo fds os = Some b.
Proof.
  intros Hall. induction vs as [|ov vs IH]; intros [|o os] fds b Hr HF H; cbn [rep_opts] in Hr; try contradiction.
  - destruct fds; cbn [enc_fields] in H; [|discriminate]. exact H.
  - destruct fds as [|fd fds]; cbn [enc_fields] in H; [discriminate|].
    destruct Hr as [Ho Hr]. apply Forall_cons_iff in HF as [Hov HF].
    cbn [oenc_fields]. rewrite (ropts_present ps allo allv fd Hall), (ropts_args ps allo allv _ Hall).
    destruct ov as [v|].
    + destruct (field_present ps allv fd); [|discriminate].
      destruct (ENCV (f_ty fd) (f_bare fd) _ v) as [b1|] eqn:E1; [|discriminate]. cbn [bind_opt] in H.
      destruct (enc_fields ENCV ps allv fds vs) as [b2|] eqn:E2; [|discriminate]. cbn [bind_opt] in H.
      cbn [Popt] in Hov. rewrite (Hov _ _ _ _ _ Ho E1). cbn [bind_opt]. rewrite (IH _ _ _ Hr HF E2). exact H.
    + destruct (field_present ps allv fd); [discriminate|]. now apply IH.
Qed.

Lemma oenc_elems_rep (ENCO : ostate -> option bytes) (ENCV : value -> option bytes) :
  forall es os b, relems os es ->
    Forall (fun v => forall o b, rep o v -> ENCV v = Some b -> ENCO o = Some b) es ->
    enc_elems ENCV es = Some b -> oenc_elems ENCO os = Some b.
Proof.
  induction es as [|e es IH]; intros [|o os] b Hr HF H; cbn [rep_elems] in Hr; try contradiction; [exact H|].
  destruct Hr as [Ho Hr]. apply Forall_cons_iff in HF as [He HF]. cbn [enc_elems] in H. cbn [oenc_elems].
  destruct (ENCV e) as [b1|] eqn:E1; [|discriminate]. cbn [bind_opt] in H.
  destruct (enc_elems ENCV es) as [b2|] eqn:E2; [|discriminate]. cbn [bind_opt] in H.
  rewrite (He _ _ Ho eq_refl). cbn [bind_opt]. rewrite (IH _ _ Hr HF eq_refl). exact H.
Qed.

Lemma relems_len : forall es os, relems os es -> lenN os = lenN es.
Proof.
  induction es as [|e es IH]; intros [|o os] H; cbn [rep_elems] in H; try contradiction; [reflexivity|].
  destruct H as [_ H]. unfold lenN in *. cbn [length]. specialize (IH _ H). lia.
Qed.

Lemma pick_nth (f : ostate -> option bytes) : forall l i x, nth_error l i = Some x -> pick f l i = f x.
Proof.
  induction l as [|y l IH]; intros [|i] x H; cbn [nth_error] in H; try discriminate; cbn [pick].
  - now injection H as ->.
  - now apply IH.
Qed.

Theorem oenc_rep s : forall v, WR s v.
Proof.
  induction v as [n|str|bv|fs IH|idx fs IH|es IH] using value_ind'; intros o t bare ps b Hr H.
  - cbn [rep] in Hr. subst o. cbn [enc1] in H. cbn [oenc]. destruct (nth_error s t) as [d|]; [|discriminate].
    destruct d; try discriminate. exact H.
  - cbn [rep] in Hr. subst o. cbn [enc1] in H. cbn [oenc]. destruct (nth_error s t) as [d|]; [|discriminate].
    destruct d; try discriminate. exact H.
  - cbn [rep] in Hr. subst o. cbn [enc1] in H. cbn [oenc]. destruct (nth_error s t) as [d|]; [|discriminate].
    destruct d; try discriminate. exact H.
  - cbn [rep] in Hr. destruct Hr as (ofs & -> & Hf). cbn [enc1] in H. cbn [oenc].
    destruct (nth_error s t) as [d|]; [|discriminate]. destruct d as [p|tag fds|vars|k ef|kp ef]; try discriminate.
    + destruct p; discriminate.
    + destruct (enc_fields _ ps fs fds fs) as [body|] eqn:E; [|discriminate]. cbn [bind_opt] in H.
      rewrite (oenc_fields_rep (fun t' b' ps' o' => oenc s t' b' ps' o') (fun t' b' ps' v' => enc1 false s t' b' ps' v') ps ofs fs Hf fs ofs fds body Hf IH E).
      exact H.
  - cbn [rep] in Hr. destruct Hr as (ovs & ofs & -> & Hn & Hf). cbn [enc1] in H. cbn [oenc].
    destruct (nth_error s t) as [d|]; [|discriminate]. destruct d as [p|tag fds|vars|k ef|kp ef]; try discriminate.
    + destruct p; discriminate.
    + destruct bare; [discriminate|]. destruct (nth_error vars idx) as [vt|]; [|discriminate].
      destruct (nth_error s vt) as [dv|]; [|discriminate]. destruct dv as [|tag fds| | |]; try discriminate.
      rewrite (pick_nth _ _ _ _ Hn).
      destruct (enc_fields _ ps fs fds fs) as [body|] eqn:E; [|discriminate]. cbn [bind_opt] in H.
      rewrite (oenc_fields_rep (fun t' b' ps' o' => oenc s t' b' ps' o') (fun t' b' ps' v' => enc1 false s t' b' ps' v') ps ofs fs Hf fs ofs fds body Hf IH E).
      exact H.
  - cbn [rep] in Hr. destruct Hr as (live & stale & -> & He). cbn [enc1] in H. cbn [oenc].
    assert (HL := relems_len _ _ He).
    destruct (nth_error s t) as [d|]; [|discriminate]. destruct d as [p|tag fds|vars|k ef|kp ef]; try discriminate.
    + destruct p; discriminate.
    + destruct (negb bare); [discriminate|].
      destruct (enc_elems _ es) as [body|] eqn:E; [|discriminate]. cbn [bind_opt] in H.
      rewrite (oenc_elems_rep (fun e => oenc s (f_ty ef) (f_bare ef) (eval_args ps [] (f_args ef)) e)
                 (fun e => enc1 false s (f_ty ef) (f_bare ef) (eval_args ps [] (f_args ef)) e) es live body He
                 ltac:(eapply Forall_impl; [|exact IH]; cbn beta; intros v Hv o' b'; apply Hv) E).
      cbn [bind_opt]. rewrite HL. unfold sane_ok in H. rewrite ?andb_true_r in H. exact H.
    + destruct (negb bare); [discriminate|].
      destruct (enc_elems _ es) as [body|] eqn:E; [|discriminate]. cbn [bind_opt] in H.
      rewrite (oenc_elems_rep (fun e => oenc s (f_ty ef) (f_bare ef) (eval_args ps [] (f_args ef)) e)
                 (fun e => enc1 false s (f_ty ef) (f_bare ef) (eval_args ps [] (f_args ef)) e) es live body He
                 ltac:(eapply Forall_impl; [|exact IH]; cbn beta; intros v Hv o' b'; apply Hv) E).
      cbn [bind_opt]. rewrite HL. unfold sane_ok in H. rewrite ?andb_true_r in H.
      destruct (lenN es <? 4294967296); [|discriminate]. destruct (keys_sorted kp es); [exact H|discriminate].
Qed.

(** * the two corollaries that make up the property *)
Definition verdict_of (x : ires) : option (res bytes) :=
  match x with None => None | Some (Ok (_, r)) => Some (Ok r) | Some Eof => Some Eof | Some Reject => Some Reject end.

Corollary reuse_equals_fresh fuel rfuel san s t bare ps old1 old2 b :
  verdict_of (dinto fuel rfuel san s t bare ps old1 b) = verdict_of (dinto fuel rfuel san s t bare ps old2 b) /\
  forall o1 o2 r1 r2, dinto fuel rfuel san s t bare ps old1 b = Some (Ok (o1, r1)) ->
                      dinto fuel rfuel san s t bare ps old2 b = Some (Ok (o2, r2)) ->
    exists v, dec1 fuel san s t bare ps b = Some (Ok (v, r1)) /\ rep o1 v /\ rep o2 v /\
      forall t' bare' ps' w, enc1 false s t' bare' ps' v = Some w ->
        oenc s t' bare' ps' o1 = Some w /\ oenc s t' bare' ps' o2 = Some w.
Proof.
  assert (S1 := dinto_sim fuel rfuel san s t bare ps old1 b). assert (S2 := dinto_sim fuel rfuel san s t bare ps old2 b).
  split.
  - destruct (dinto fuel rfuel san s t bare ps old1 b) as [[[o1 r1]| |]|]; destruct (dinto fuel rfuel san s t bare ps old2 b) as [[[o2 r2]| |]|];
      destruct (dec1 fuel san s t bare ps b) as [[[v r]| |]|]; cbn [sim] in S1, S2; try contradiction; try reflexivity.
    destruct S1 as [-> _]. destruct S2 as [-> _]. reflexivity.
  - intros o1 o2 r1 r2 E1 E2. rewrite E1 in S1. rewrite E2 in S2.
    destruct (dec1 fuel san s t bare ps b) as [[[v r]| |]|]; cbn [sim] in S1, S2; try contradiction.
    destruct S1 as [-> R1]. destruct S2 as [_ R2]. exists v. repeat split; auto; eapply oenc_rep; eauto.
Qed.

(** * Reset: the writer cannot tell a reset object from a freshly created one *)
Lemma ozero_onat fuel s t : onat (ozero fuel s t) = 0.
Proof.
  destruct fuel as [|fuel]; [reflexivity|]. cbn [ozero].
  destruct (nth_error s t) as [d|]; [|reflexivity]. destruct d as [p|tag fds|vars|k ef|kp ef]; try reflexivity.
  - destruct p; reflexivity.
  - destruct vars; reflexivity.
  - destruct k; reflexivity.
Qed.

Definition all_zero_nats (l : list ostate) : Prop := forall i, ofield_nat l i = 0.

Lemma all_zero_reset rst fds : (forall t o, onat (rst t o) = 0) -> forall olds, all_zero_nats (reset_fields rst fds olds).
Proof.
  intros H. induction fds as [|fd fds IH]; intros olds i; cbn [reset_fields]; unfold ofield_nat.
  - destruct i; reflexivity.
  - destruct i as [|i]; cbn [nth]; [apply H|apply (IH (tl olds) i)].
Qed.

Lemma all_zero_map (f : field -> ostate) fds : (forall fd, onat (f fd) = 0) -> all_zero_nats (map f fds).
Proof.
  intros H. induction fds as [|fd fds IH]; intros i; cbn [map]; unfold ofield_nat.
  - destruct i; reflexivity.
  - destruct i as [|i]; cbn [nth]; [apply H|apply (IH i)].
Qed.

Lemma zero_natarg ps l1 l2 a : all_zero_nats l1 -> all_zero_nats l2 -> oeval_natarg ps l1 a = oeval_natarg ps l2 a.
Proof. intros H1 H2. destruct a; cbn [oeval_natarg]; try reflexivity. now rewrite H1, H2. Qed.

Lemma oenc_fields_zero (ENCO : nat -> bool -> list N -> ostate -> option bytes) ps all1 all2 :
  all_zero_nats all1 -> all_zero_nats all2 ->
  forall fds os1 os2, length os1 = length fds -> length os2 = length fds ->
    (forall i fd, nth_error fds i = Some fd -> forall bare ps',
        ENCO (f_ty fd) bare ps' (nth i os1 OFresh) = ENCO (f_ty fd) bare ps' (nth i os2 OFresh)) ->
    oenc_fields ENCO ps all1 fds os1 = oenc_fields ENCO ps all2 fds os2.
Proof.
  intros Z1 Z2. induction fds as [|fd fds IH]; intros [|o1 os1] [|o2 os2] L1 L2 H; try discriminate; [reflexivity|].
  cbn [oenc_fields].
  assert (Hp : ofield_present ps all1 fd = ofield_present ps all2 fd).
  { unfold ofield_present. destruct (f_mask fd) as [[a bit]|]; [|reflexivity]. now rewrite (zero_natarg ps all1 all2 a Z1 Z2). }
  assert (Ha : oeval_args ps all1 (f_args fd) = oeval_args ps all2 (f_args fd)).
  { unfold oeval_args. apply map_ext. intros a. now apply zero_natarg. }
  assert (IH' : oenc_fields ENCO ps all1 fds os1 = oenc_fields ENCO ps all2 fds os2).
  { apply IH; [now injection L1|now injection L2|]. intros i fd' Hn. exact (H (S i) fd' Hn). }
  rewrite Hp, Ha, IH'. rewrite (H 0%nat fd eq_refl (f_bare fd)). reflexivity.
Qed.

Lemma reset_fields_len rst fds : forall olds, length (reset_fields rst fds olds) = length fds.
Proof. induction fds as [|fd fds IH]; intros olds; cbn [reset_fields length]; [reflexivity|]. now rewrite IH. Qed.

Lemma reset_fields_nth rst : forall fds olds i fd, nth_error fds i = Some fd ->
  nth i (reset_fields rst fds olds) OFresh = rst (f_ty fd) (nth i olds OFresh).
Proof.
  induction fds as [|fd0 fds IH]; intros olds i fd H; [destruct i; discriminate|].
  destruct i as [|i]; cbn [nth_error] in H; cbn [reset_fields nth].
  - injection H as ->. destruct olds; reflexivity.
  - rewrite (IH (tl olds) i fd H). destruct olds as [|o olds]; cbn [tl nth]; [destruct i; reflexivity|reflexivity].
Qed.

Lemma zero_fields_nth (f : field -> ostate) : forall fds i fd, nth_error fds i = Some fd -> nth i (map f fds) OFresh = f fd.
Proof.
  induction fds as [|fd0 fds IH]; intros i fd H; [destruct i; discriminate|].
  destruct i as [|i]; cbn [nth_error] in H; cbn [map nth]; [now injection H as ->|now apply IH].
Qed.

Lemma oenc_elems_eq (f g : ostate -> option bytes) : forall l1 l2, length l1 = length l2 ->
  (forall i, (i < length l1)%nat -> f (nth i l1 OFresh) = g (nth i l2 OFresh)) -> oenc_elems f l1 = oenc_elems g l2.
Proof.
  induction l1 as [|x l1 IH]; intros [|y l2] L H; try discriminate; [reflexivity|].
  cbn [oenc_elems]. assert (H0 := H 0%nat ltac:(cbn; lia)). cbn [nth] in H0. rewrite H0.
  rewrite (IH l2 ltac:(now injection L)); [reflexivity|]. intros i Hi. apply (H (S i)). cbn [length]. lia.
Qed.

Lemma reset_elems_len rstE : forall n olds, length (reset_elems rstE n olds) = n.
Proof. induction n as [|n IH]; intros olds; cbn [reset_elems length]; [reflexivity|]. now rewrite IH. Qed.
Lemma reset_elems_nth rstE : forall n olds i, (i < n)%nat -> nth i (reset_elems rstE n olds) OFresh = rstE (nth i olds OFresh).
Proof.
  induction n as [|n IH]; intros olds i Hi; [lia|]. cbn [reset_elems]. destruct i as [|i]; cbn [nth].
  - destruct olds; reflexivity.
  - rewrite IH by lia. destruct olds as [|o olds]; cbn [tl nth]; [destruct i; reflexivity|reflexivity].
Qed.
Lemma nth_repeat_lt (x : ostate) n i : (i < n)%nat -> nth i (repeat x n) OFresh = x.
Proof. revert i. induction n as [|n IH]; intros i Hi; [lia|]. destruct i; cbn [repeat nth]; [reflexivity|apply IH; lia]. Qed.

Theorem reset_equals_fresh s : forall fuel t old bare ps,
  oenc s t bare ps (oreset fuel s t old) = oenc s t bare ps (ozero fuel s t).
Proof.
  induction fuel as [|fuel IH]; intros t old bare ps; [reflexivity|].
  cbn [oreset ozero]. destruct (nth_error s t) as [d|] eqn:Et; [|reflexivity].
  destruct d as [p|tag fds|vars|k ef|kp ef].
  - destruct p; reflexivity.
  - cbn [oenc]. rewrite Et.
    set (olds := match old with OStruct fs => fs | _ => [] end).
    rewrite (oenc_fields_zero (fun t' b' ps' o' => oenc s t' b' ps' o') ps
               (reset_fields (oreset fuel s) fds olds) (map (fun fd => ozero fuel s (f_ty fd)) fds)
               (all_zero_reset (oreset fuel s) fds (oreset_onat fuel s) olds) (all_zero_map (fun fd => ozero fuel s (f_ty fd)) fds (fun fd => ozero_onat fuel s (f_ty fd)))
               fds _ _ (reset_fields_len (oreset fuel s) fds olds) (map_length (fun fd => ozero fuel s (f_ty fd)) fds)); [reflexivity|].
    intros i fd Hn bare' ps'. rewrite (reset_fields_nth (oreset fuel s) fds olds i fd Hn), (zero_fields_nth (fun fd => ozero fuel s (f_ty fd)) fds i fd Hn). apply IH.
  - destruct vars as [|v0 vars]; cbn [oenc]; rewrite Et; (destruct bare; [reflexivity|]); [reflexivity|]. cbn [nth_error].
    destruct (nth_error s v0) as [dv|] eqn:Ev; [|reflexivity]. destruct dv as [|tagv fdsv| | |]; try reflexivity.
    rewrite (pick_nth _ _ 0%nat _ (set_nth_get 0 _ _)). cbn [pick].
    (* both variant states are the struct states the IH speaks about *)
    assert (G := IH v0 (nth 0 (match old with OUnion _ vs => vs | _ => [] end) OFresh) true ps).
    destruct fuel as [|fuel']; [reflexivity|].
    cbn [oreset ozero] in G |- *. rewrite Ev in G |- *. cbn [oenc] in G. rewrite Ev in G.
    destruct (oenc_fields _ ps (reset_fields _ _ _) fdsv _) as [b1|]; destruct (oenc_fields _ ps (map _ fdsv) fdsv _) as [b2|];
      cbn [bind_opt] in G |- *; congruence.
  - destruct k as [| |c].
    + destruct old; cbn [oenc]; rewrite Et; reflexivity.
    + destruct old; cbn [oenc]; rewrite Et; reflexivity.
    + cbn [oenc]. rewrite Et. destruct (negb bare); [reflexivity|].
      set (olds := match old with OArr live _ => live | _ => [] end).
      rewrite (oenc_elems_eq _ (fun e => oenc s (f_ty ef) (f_bare ef) (eval_args ps [] (f_args ef)) e)
                 (reset_elems (oreset fuel s (f_ty ef)) (N.to_nat c) olds) (repeat (ozero fuel s (f_ty ef)) (N.to_nat c))).
      * unfold lenN. rewrite reset_elems_len, repeat_length. reflexivity.
      * rewrite reset_elems_len, repeat_length. reflexivity.
      * rewrite reset_elems_len. intros i Hi. rewrite reset_elems_nth, nth_repeat_lt by exact Hi. apply IH.
  - reflexivity.
Qed.
